import PsdVerif.Lemmas.Pixels
open PsdVerif PsdVerif.Pixels
#synth DecidableEq (Except Err (Option (Image Nat)))
example (n : Nat) (f : Nat → Route): ((List.range (n+3)).map f).take 3 = [f 0, f 1, f 2] := by
  rw [← List.map_take, List.take_range]
  have : min 3 (n+3) = 3 := by omega
  rw [this]; rfl
