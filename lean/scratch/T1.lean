import PsdVerif.Model.Pixels
namespace PsdVerif.Pixels
variable {α σ : Type}

theorem len1 {β : Type} {l : List β} (h : l.length = 1) : ∃ a, l = [a] := by
  match l, h with
  | [a], _ => exact ⟨a, rfl⟩
theorem len2 {β : Type} {l : List β} (h : l.length = 2) : ∃ a b, l = [a, b] := by
  match l, h with
  | [a, b], _ => exact ⟨a, b, rfl⟩
theorem len3 {β : Type} {l : List β} (h : l.length = 3) : ∃ a b c, l = [a, b, c] := by
  match l, h with
  | [a, b, c], _ => exact ⟨a, b, c, rfl⟩
theorem len4 {β : Type} {l : List β} (h : l.length = 4) : ∃ a b c d, l = [a, b, c, d] := by
  match l, h with
  | [a, b, c, d], _ => exact ⟨a, b, c, d, rfl⟩

theorem map_load_store {P : Px α σ} (hP : P.Lawful) (d : Nat) (b : List α) :
    (b.map (P.store d)).map (P.load d) = b := by
  rw [List.map_map]
  have : (P.load d ∘ P.store d) = id := by funext x; simp [hP.load_store]
  rw [this, List.map_id]

theorem map_inv_inv {P : Px α σ} (hP : P.Lawful) (b : List α) :
    (b.map P.inv).map P.inv = b := by
  rw [List.map_map]
  have : (P.inv ∘ P.inv) = id := by funext x; simp [hP.inv_inv]
  rw [this, List.map_id]

/-- the import after the "1" → "L" normalisation -/
theorem doc_core (C : Pil α) (P : Px α σ) (hP : P.Lawful) (img : Image α) (hwf : img.WF)
    (h1 : img.mode ≠ .one) (h2 : img.mode ≠ .RGBA) :
    exportDocPil P (docImport C P img).1 (docImport C P img).2 = .ok (some img) := by
  obtain ⟨mode, w, h, bands⟩ := img
  obtain ⟨hl, _⟩ := hwf
  cases mode <;> simp only [Mode.nbands] at hl
  · exact absurd rfl h1
  · obtain ⟨a, rfl⟩ := len1 hl
    simp [docImport, exportDocPil, pilDocRoutes, makeHeader, Meta.hasPreview, Meta.hasTransparency,
      Mode.cmode, CMode.channels, CMode.expected, Mode.hasAlpha, CMode.pilMode, Mode.pilChannels,
      Mode.nbands, applyRoutes, traverse, Route.apply, Px.view, Function.comp_def, hP.load_store, hP.inv_inv, List.range, List.range.loop]
  · obtain ⟨a, b, rfl⟩ := len2 hl
    simp [docImport, exportDocPil, pilDocRoutes, makeHeader, Meta.hasPreview, Meta.hasTransparency,
      Mode.cmode, CMode.channels, CMode.expected, Mode.hasAlpha, CMode.pilMode, Mode.pilChannels,
      Mode.nbands, applyRoutes, traverse, Route.apply, Px.view, Function.comp_def, hP.load_store, hP.inv_inv, List.range, List.range.loop,
      Meta.transparencyIndex, firstZero, pyIndex]
  · obtain ⟨a, b, c, rfl⟩ := len3 hl
    simp [docImport, exportDocPil, pilDocRoutes, makeHeader, Meta.hasPreview, Meta.hasTransparency,
      Mode.cmode, CMode.channels, CMode.expected, Mode.hasAlpha, CMode.pilMode, Mode.pilChannels,
      Mode.nbands, applyRoutes, traverse, Route.apply, Px.view, Function.comp_def, hP.load_store, hP.inv_inv, List.range, List.range.loop]
  · exact absurd rfl h2
  · obtain ⟨a, b, c, d, rfl⟩ := len4 hl
    simp [docImport, exportDocPil, pilDocRoutes, makeHeader, Meta.hasPreview, Meta.hasTransparency,
      Mode.cmode, CMode.channels, CMode.expected, Mode.hasAlpha, CMode.pilMode, Mode.pilChannels,
      Mode.nbands, applyRoutes, traverse, Route.apply, Px.view, Function.comp_def, hP.load_store, hP.inv_inv, List.range, List.range.loop,
      Image.invert]
end PsdVerif.Pixels
