import PsdVerif.Lemmas.Pixels
set_option linter.unusedSimpArgs false
namespace PsdVerif.Pixels

theorem pyIndex_lt (n : Nat) (i : Int) (a : Nat) (h : pyIndex n i = some a) : a < n := by
  unfold pyIndex at h
  split at h
  · split at h
    · simp only [Option.some.injEq] at h; omega
    · simp at h
  · split at h
    · simp only [Option.some.injEq] at h; omega
    · simp at h

theorem take_map_range (n k : Nat) (f : Nat → Route) (h : k ≤ n) :
    ((List.range n).map f).take k = (List.range k).map f := by
  rw [← List.map_take, List.take_range]
  have : min k n = k := by omega
  rw [this]

theorem getElem_map_range (n k : Nat) (f : Nat → Route) (h : k < n) :
    ((List.range n).map f)[k]? = some (f k) := by
  simp [h]

theorem transparency_plane_ge (m : Meta)
    (hids : m.alphaIds.length + m.header.cmode.expected ≤ m.header.channels)
    (hch : m.header.channels > m.header.cmode.expected) (a : Nat)
    (hpi : pyIndex m.header.channels m.transparencyIndex = some a) : a ≥ m.header.cmode.expected := by
  unfold Meta.transparencyIndex at hpi
  unfold pyIndex at hpi
  cases hz : firstZero m.alphaIds with
  | none =>
    simp only [hz] at hpi
    split at hpi
    · omega
    · split at hpi
      · simp only [Option.some.injEq] at hpi; omega
      · simp at hpi
  | some off =>
    simp only [hz] at hpi
    split at hpi
    · split at hpi
      · simp only [Option.some.injEq] at hpi; omega
      · simp at hpi
    · omega

theorem agree_doc (m : Meta) (hc : m.header.cmode = .gray ∨ m.header.cmode = .rgb)
    (hmt : m.mergedTransparency = true → m.header.channels > m.header.cmode.expected)
    (hids : m.alphaIds.length + m.header.cmode.expected ≤ m.header.channels)
    (mode : Mode) (rs : List Route) (h : pilDocRoutes m = .ok (some (mode, rs))) :
    rs.take m.header.cmode.expected = (numpyDocRoutes m).take m.header.cmode.expected ∧
    ∀ r ∈ rs.drop m.header.cmode.expected, (numpyDocRoutes m)[r.plane]? = some r := by
  -- transparency only with an extra channel
  have hT : m.hasTransparency = true → m.header.channels > m.header.cmode.expected := by
    intro ht
    unfold Meta.hasTransparency at ht
    by_cases hm : m.mergedTransparency = true
    · exact hmt hm
    · simp only [hm] at ht
      by_cases hch : m.header.channels > m.header.cmode.expected
      · exact hch
      · simp [hch] at ht
  unfold pilDocRoutes at h
  cases hp : m.hasPreview with
  | false => simp [hp] at h
  | true =>
    simp only [hp, Bool.not_true, Bool.false_eq_true, if_false] at h
    cases ht : m.hasTransparency with
    | true =>
      have hch := hT ht
      simp only [ht, if_true] at h
      cases hpi : pyIndex m.header.channels m.transparencyIndex with
      | none => simp [hpi] at h
      | some a =>
        have hmod := pyIndex_emod _ _ a hpi
        have halt := pyIndex_lt _ _ a hpi
        have hage := transparency_plane_ge m hids hch a hpi
        simp only [hpi] at h
        rcases hc with hg | hg
        · simp only [hg, CMode.pilMode, Mode.pilChannels, Mode.nbands, CMode.expected] at h hch ⊢
          have h1 : min 1 m.header.channels = 1 := by omega
          simp only [h1, ne_eq, not_true_eq_false, if_false, Except.ok.injEq, Option.some.injEq,
            Prod.mk.injEq] at h
          obtain ⟨_, rfl⟩ := h
          have hr : numpyDocRoutes m = (List.range m.header.channels).map fun k => ({ plane := k } : Route) := by
            simp [numpyDocRoutes, hg]
          rw [hr, take_map_range m.header.channels _ _ (by omega)]
          refine ⟨by simp [List.range, List.range.loop], ?_⟩
          intro r hr'
          simp [List.range, List.range.loop] at hr'
          subst hr'
          simp [halt]
        · simp only [hg, CMode.pilMode, Mode.pilChannels, Mode.nbands, CMode.expected] at h hch ⊢
          have h1 : min 3 m.header.channels = 3 := by omega
          simp only [h1, ne_eq, not_true_eq_false, if_false, Except.ok.injEq, Option.some.injEq,
            Prod.mk.injEq] at h
          obtain ⟨_, rfl⟩ := h
          have hr : numpyDocRoutes m = (List.range m.header.channels).map fun k =>
                if k < 3 then ({ plane := k, unmatteBy := some a } : Route) else { plane := k } := by
            simp [numpyDocRoutes, hg, hch, ht, hmod]
          rw [hr, take_map_range m.header.channels _ _ (by omega)]
          refine ⟨by simp [List.range, List.range.loop], ?_⟩
          intro r hr'
          simp [List.range, List.range.loop] at hr'
          subst hr'
          rw [hg, CMode.expected] at hage
          have : ¬ a < 3 := by omega
          simp [halt, this]
    | false =>
      simp only [ht, Bool.false_eq_true, if_false] at h
      rcases hc with hg | hg
      · simp only [hg, CMode.pilMode, Mode.pilChannels, Mode.nbands, CMode.expected] at h ⊢
        by_cases h1 : min 1 m.header.channels = 1
        · simp only [h1, ne_eq, not_true_eq_false, if_false, Except.ok.injEq, Option.some.injEq,
            Prod.mk.injEq] at h
          obtain ⟨_, rfl⟩ := h
          have hr : numpyDocRoutes m = (List.range m.header.channels).map fun k => ({ plane := k } : Route) := by
            simp [numpyDocRoutes, hg]
          rw [hr, take_map_range m.header.channels _ _ (by omega)]
          simp [List.range, List.range.loop]
        · simp [h1] at h
      · simp only [hg, CMode.pilMode, Mode.pilChannels, Mode.nbands, CMode.expected] at h ⊢
        by_cases h1 : min 3 m.header.channels = 3
        · simp only [h1, ne_eq, not_true_eq_false, if_false, Except.ok.injEq, Option.some.injEq,
            Prod.mk.injEq] at h
          obtain ⟨_, rfl⟩ := h
          have hr : numpyDocRoutes m = (List.range m.header.channels).map fun k => ({ plane := k } : Route) := by
            simp [numpyDocRoutes, hg, ht]
          rw [hr, take_map_range m.header.channels _ _ (by omega)]
          simp [List.range, List.range.loop]
        · simp [h1] at h
end PsdVerif.Pixels
