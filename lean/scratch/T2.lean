import PsdVerif.Model.Pixels
set_option linter.unusedSimpArgs false
namespace PsdVerif.Pixels
variable {α σ : Type}

theorem len1 {β : Type} {l : List β} (h : l.length = 1) : ∃ a, l = [a] := by
  match l, h with
  | [a], _ => exact ⟨a, rfl⟩
theorem len2 {β : Type} {l : List β} (h : l.length = 2) : ∃ a b, l = [a, b] := by
  match l, h with
  | [a, b], _ => exact ⟨a, b, rfl⟩
theorem len3 {β : Type} {l : List β} (h : l.length = 3) : ∃ a b c, l = [a, b, c] := by
  match l, h with
  | [a, b, c], _ => exact ⟨a, b, c, rfl⟩
theorem len4 {β : Type} {l : List β} (h : l.length = 4) : ∃ a b c d, l = [a, b, c, d] := by
  match l, h with
  | [a, b, c, d], _ => exact ⟨a, b, c, d, rfl⟩

/-- PIL mode of a layer export -/
def layerPilMode : CMode → Mode
  | .gray => .LA | .rgb => .RGBA | .cmyk => .CMYK | .bitmap => .one

macro "lay_simp" : tactic => `(tactic|
  simp [layerOfConverted, exportLayerPil, exportLayerAlpha, pilLayerRoutes, pilLayerAlphaRoute, lastIndexOf, lastIndexOf.go,
      layerPilMode,
      Mode.cmode, CMode.channels, CMode.expected, Mode.hasAlpha, CMode.pilMode, Mode.pilChannels, Mode.base,
      Mode.nbands, applyRoutes, traverse, Route.apply, Px.view, Function.comp_def, getBand,
      List.range, List.range.loop, Image.invert, Except.map])

/-- export ∘ (the import after conversion), for a converted image of the document's mode -/
theorem layer_converted (P : Px α σ) (hP : P.Lawful) (alpha : Option (List α)) (j : Image α) (hj : j.WF)
    (hdr : Header) (hb : hdr.cmode ≠ .bitmap) (al : Bool) (hm : j.mode = hdr.cmode.pilMode al)
    (top left : Int) :
    ∃ l, layerOfConverted P alpha j hdr.depth top left = .ok l ∧
      (l.top, l.left, l.bottom, l.right) = (top, left, top + j.height, left + j.width) ∧
      exportLayerPil P hdr l = .ok
        { mode := layerPilMode hdr.cmode, width := j.width, height := j.height,
          bands := j.bands.take hdr.cmode.channels ++
            (if hdr.cmode = .cmyk then [] else
              [alpha.getD (List.replicate (j.width * j.height) P.full)]) } ∧
      exportLayerAlpha P hdr l =
        .ok (some (alpha.getD (List.replicate (j.width * j.height) P.full))) := by
  have hls := hP.load_store
  have hii := hP.inv_inv
  obtain ⟨jm, jw, jh, jb⟩ := j
  obtain ⟨cm, ch, dp, dw, dh⟩ := hdr
  obtain ⟨hjl, _⟩ := hj
  simp only at hm hjl
  subst hm
  cases cm
  · exact absurd rfl hb
  · cases al <;> simp only [CMode.pilMode, Mode.nbands] at hjl
    · obtain ⟨g, rfl⟩ := len1 hjl
      cases alpha <;> refine ⟨_, rfl, ?_, ?_, ?_⟩ <;> lay_simp <;> simp [hls, hii] <;> omega
    · obtain ⟨g, a, rfl⟩ := len2 hjl
      cases alpha <;> refine ⟨_, rfl, ?_, ?_, ?_⟩ <;> lay_simp <;> simp [hls, hii] <;> omega
  · cases al <;> simp only [CMode.pilMode, Mode.nbands] at hjl
    · obtain ⟨r, g, b, rfl⟩ := len3 hjl
      cases alpha <;> refine ⟨_, rfl, ?_, ?_, ?_⟩ <;> lay_simp <;> simp [hls, hii] <;> omega
    · obtain ⟨r, g, b, a, rfl⟩ := len4 hjl
      cases alpha <;> refine ⟨_, rfl, ?_, ?_, ?_⟩ <;> lay_simp <;> simp [hls, hii] <;> omega
  · have : CMode.cmyk.pilMode al = .CMYK := by cases al <;> rfl
    simp only [this, Mode.nbands] at hjl
    obtain ⟨c, m, y, k, rfl⟩ := len4 hjl
    cases alpha <;> refine ⟨_, rfl, ?_, ?_, ?_⟩ <;> lay_simp <;> simp [hls, hii] <;> omega
end PsdVerif.Pixels
