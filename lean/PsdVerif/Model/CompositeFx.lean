/-
Effect-carrying layer trees: the part of `psd_tools/composite/__init__.py` that
`Model/Composite.lean` leaves out, as a wrapper layer over the same per-pixel state
machine (`PState`, `applySource`, `finishColor`, `pasteAt`, `maskFactors` are reused
unchanged; nothing of `Model/Composite.lean` is modified).

One pixel `(x, y)` is fixed.  What is DRAWN (`create_fill`, `draw_vector_mask`,
`draw_stroke`, `draw_solid_color_fill` / `draw_pattern_fill` / `draw_gradient_fill`,
`draw_stroke_effect`) is a parameter: the value of the drawn array at the pixel.
What the compositor DOES with it is modelled:

* `_get_object`: the object source comes from the pixels or from the fill
  (`useFill`: `(force or not has_pixels()) and has_fill`), then the clip run, then the
  vector stroke composited into the object's colour by a sub-compositor seeded with
  `(colour, alpha)` whose `finish()` colour (backdrop removed) is taken (`strokeObject`);
* `_get_mask`: the raster mask factor times the vector mask where it applies
  (`useVectorMask`);
* `apply`: the layer's own source, then the overlay effects in the order colour,
  pattern, gradient, each an extra `_apply_source` with `shape * shape_e`,
  `alpha * shape_e * opacity` where `shape`, `alpha` are the layer's AFTER masks and layer
  opacity and BEFORE fill opacity (`shape_const`), then the stroke effects with the drawn
  shape `s` and alpha `s * opacity_effect * opacity_layer`;
* adjustment layers are skipped by `apply`.

`force` is a parameter of every function.  Core Lean only.
-/
import PsdVerif.Model.Composite

namespace PsdVerif.Composite

/-- what the decisions of `_get_object`, `_get_mask` and `apply` read from a layer -/
structure Flags where
  /-- `layer.has_pixels()` -/
  hasPixels : Bool
  /-- `has_fill(layer)` -/
  hasFill : Bool
  /-- `layer.has_vector_mask()` -/
  hasVectorMask : Bool
  /-- `layer.vector_mask is not None and not layer.vector_mask.disabled` -/
  vmaskEnabled : Bool
  /-- `layer.mask is not None and not layer.mask._has_real()` -/
  maskNoReal : Bool
  deriving DecidableEq, Repr

/-- `_get_object`: `(self._force or not layer.has_pixels()) and has_fill(layer)` -/
def useFill (force : Bool) (f : Flags) : Bool := (force || !f.hasPixels) && f.hasFill

/-- `_get_mask`: the vector mask is drawn and multiplied in when it is enabled and
`force or not has_pixels() or (not has_fill and mask is not None and not mask._has_real())` -/
def useVectorMask (force : Bool) (f : Flags) : Bool :=
  f.vmaskEnabled && (force || !f.hasPixels || (!f.hasFill && f.maskNoReal))

/-- `apply`: the stroke effect is drawn from `shape_mask` instead of the layer's shape when
`(force and has_vector_mask()) or (not has_pixels()) and has_fill` -/
def strokeFxFromMask (force : Bool) (f : Flags) : Bool :=
  (force && f.hasVectorMask) || (!f.hasPixels && f.hasFill)

/-- one overlay effect (colour, pattern or gradient overlay) at the pixel -/
structure Overlay where
  /-- `draw_*_fill(layer.bbox, …)[0]` at the pixel -/
  color : Color
  /-- `shape_e is not None` -/
  hasShape : Bool
  /-- `shape_e` at the pixel -/
  shape : Rat
  /-- `effect.opacity / 100.0` -/
  opacity : Rat
  mode : Mode

/-- one stroke effect at the pixel; what `draw_stroke_effect` returns is a parameter, and since it is
drawn from the shape as cropped to the compositor's viewport, a parameter that may depend on that viewport -/
structure StrokeFx where
  color : Color
  shape : Rect → Rat
  /-- `effect.opacity / 100.0` -/
  opacity : Rat
  mode : Mode

/-- the vector stroke of a shape layer (`_get_stroke`) at the pixel -/
structure VStroke where
  /-- `create_fill_desc(layer, strokeStyleContent, box)[0]` at the pixel -/
  color : Color
  /-- `layer.bbox` grown by the line width: where `color` is pasted (white elsewhere) -/
  box : Rect
  /-- `draw_stroke(layer)` at the pixel; drawn over the canvas `canvas` and pasted into the viewport -/
  shape : Rat
  canvas : Rect
  /-- `strokeStyleOpacity / 100.0` -/
  opacity : Rat
  mode : Mode

/-- what a layer carries beyond `Props` -/
structure Fx where
  flags : Flags
  /-- `layer._psd.viewbox`: the rectangle `draw_vector_mask(layer)` covers -/
  vmBox : Rect
  /-- `draw_vector_mask(layer)` at the pixel -/
  vmValue : Rat
  /-- in the code's order: colour overlays, pattern overlays, gradient overlays -/
  overlays : List Overlay
  strokeFx : List StrokeFx

/-- the two candidate object sources of a leaf at the pixel -/
structure ObjSrc where
  /-- `layer.numpy("color") is not None` -/
  hasArr : Bool
  pixColor : Color
  /-- the transparency channel, or 1 for a layer without one (opaque inside its box) -/
  pixShape : Rat
  /-- `create_fill(layer, layer.bbox)[0]` at the pixel (white when it is `None`) -/
  fillColor : Color
  /-- `create_fill(layer, layer.bbox)[1]` at the pixel (1 when it is `None`) -/
  fillShape : Rat

inductive FxNode where
  | leaf (pr : Props) (fx : Fx) (src : ObjSrc) (stroke : Option VStroke) (clips : List FxNode)
  | group (pr : Props) (fx : Fx) (passThrough : Bool) (children : List FxNode) (clips : List FxNode)
  /-- `isinstance(layer, AdjustmentLayer)`: `apply` returns at once -/
  | adjustment (pr : Props)

def FxNode.props : FxNode → Props
  | .leaf pr .. => pr
  | .group pr .. => pr
  | .adjustment pr => pr

def black : Color := fun _ => 0

/-- the vector-mask factor of `_get_mask`: `paste(viewport, psd.viewbox, draw_vector_mask(layer))` where it applies -/
def vmaskFactor (force : Bool) (fx : Fx) (V : Rect) (x y : Int) : Rat :=
  if useVectorMask force fx.flags then pasteAt V fx.vmBox x y fx.vmValue 0 else 1

/-- `_get_mask` with vector masks: (shape factor, opacity factor) -/
def maskFactorsFx (force : Bool) (pr : Props) (fx : Fx) (V : Rect) (x y : Int) : Rat × Rat :=
  let m := maskFactors pr V x y
  (m.1 * vmaskFactor force fx V x y, m.2)

/-- `shape_e` of an overlay in the viewport: all ones when `None`, else pasted at the layer's box -/
def overlayShape (V bbox : Rect) (x y : Int) (e : Overlay) : Rat :=
  if e.hasShape then pasteAt V bbox x y e.shape 0 else 1

/-- `_apply_color_overlay`, `_apply_pattern_overlay`, `_apply_gradient_overlay` (the list is in that order):
each effect is one more `_apply_source(color, shape * shape_e, alpha * shape_e * opacity, effect.blend_mode)` -/
def applyOverlays (B : Mode → Color → Color → Color) (V bbox : Rect) (x y : Int) (shape alpha : Rat)
    (st : PState) : List Overlay → PState
  | [] => st
  | e :: es =>
    let se := overlayShape V bbox x y e
    applyOverlays B V bbox x y shape alpha
      (applySource (B e.mode) st (pasteAt V bbox x y e.color white) (shape * se) (alpha * se * e.opacity) false) es

/-- `_apply_stroke_effect`: `_apply_source(color, shape, shape * opacity, effect.blend_mode)` with the drawn
colour (pasted on 0), the drawn shape, and `opacity = effect.opacity / 100.0 * (layer.opacity / 255.0)`
(`lop`: the layer opacity) -/
def applyStrokeFx (B : Mode → Color → Color → Color) (V bbox : Rect) (x y : Int) (lop : Rat) (st : PState) :
    List StrokeFx → PState
  | [] => st
  | s :: ss =>
    let sh := pasteAt V bbox x y (s.shape V) 0
    applyStrokeFx B V bbox x y lop
      (applySource (B s.mode) st (pasteAt V bbox x y s.color black) sh (sh * (s.opacity * lop)) false) ss

/-- the tail of `apply` with effects: mask and constant factors, the layer's own `_apply_source`, the overlays
(with `shape`, `alpha` after masks and layer opacity, before fill opacity), the stroke effects -/
def finishFx (B : Mode → Color → Color → Color) (force : Bool) (V : Rect) (x y : Int) (st : PState) (pr : Props)
    (fx : Fx) (color : Color) (shape alpha : Rat) : PState :=
  let m := maskFactorsFx force pr fx V x y
  let shape1 := shape * m.1
  let alpha1 := alpha * (m.1 * m.2 * pr.opacity)
  let st1 := applySource (B pr.mode) st color (shape1 * pr.fill) (alpha1 * pr.fill) pr.knockout
  applyStrokeFx B V pr.bbox x y pr.opacity (applyOverlays B V pr.bbox x y shape1 alpha1 st1 fx.overlays) fx.strokeFx

/-- the vector stroke inside `_get_object`: `Compositor(viewport, color, alpha)`, one `_apply_source` with the
stroke, and the colour `finish()` returns (backdrop removed) becomes the object's colour -/
def strokeObject (B : Mode → Color → Color → Color) (V : Rect) (x y : Int) (color : Color) (alpha : Rat) :
    Option VStroke → Color
  | none => color
  | some s =>
    let cs := pasteAt V s.box x y s.color white
    let sh := pasteAt V s.canvas x y s.shape 0
    finishColor (applySource (B s.mode) (PState.init color alpha false) cs sh (sh * s.opacity) false)

/-- the object source of a leaf: (colour, shape) from the fill or from the pixels -/
def leafColor (force : Bool) (V : Rect) (x y : Int) (pr : Props) (fx : Fx) (src : ObjSrc) : Color :=
  if useFill force fx.flags then pasteAt V pr.bbox x y src.fillColor white
  else if src.hasArr then pasteAt V pr.bbox x y src.pixColor white else white

def leafShape (force : Bool) (V : Rect) (x y : Int) (pr : Props) (fx : Fx) (src : ObjSrc) : Rat :=
  if useFill force fx.flags then pasteAt V pr.bbox x y src.fillShape 0
  else if src.hasArr then pasteAt V pr.bbox x y src.pixShape 0 else 0

mutual

/-- `Compositor.apply(layer, clip_compositing)` at pixel `(x,y)` of viewport `V`, effects included -/
def applyFxNode (B : Mode → Color → Color → Color) (force : Bool) (V : Rect) (x y : Int) (clipCompositing : Bool)
    (st : PState) : FxNode → PState
  | .adjustment _ => st
  | .leaf pr fx src stroke clips =>
    if !pr.visible then st
    else if intersect V pr.bbox = Rect.zero then st
    else if !clipCompositing && pr.clipping && pr.hasClipTarget then st
    else
      -- _get_object
      let color0 := leafColor force V x y pr fx src
      let shape0 := leafShape force V x y pr fx src
      let alpha0 := shape0
      let color1 := if clips.isEmpty then color0
        else (applyFxClips B force V x y (PState.init color0 alpha0 false) clips).c
      let color2 := strokeObject B V x y color1 alpha0 stroke
      finishFx B force V x y st pr fx color2 shape0 alpha0
  | .group pr fx passThrough children clips =>
    if !pr.visible then st
    else if intersect V pr.bbox = Rect.zero then st
    else if !clipCompositing && pr.clipping && pr.hasClipTarget then st
    else
      -- _get_group
      let V' := intersect V pr.bbox
      let colorB : Color := if pr.knockout then st.c0 else st.c
      let alphaB : Rat := if pr.knockout then st.a0 else st.a
      let inside := V'.contains x y
      let sub := applyFxList B force V' x y (PState.init colorB alphaB (!passThrough)) children
      let color0 : Color := if inside then finishColor sub else white
      let shape0 : Rat := if inside then sub.sg else 0
      let alpha0 : Rat := if inside then sub.ag else 0
      let color1 := if clips.isEmpty then color0
        else (applyFxClips B force V x y (PState.init color0 alpha0 false) clips).c
      finishFx B force V x y st pr fx color1 shape0 alpha0

def applyFxList (B : Mode → Color → Color → Color) (force : Bool) (V : Rect) (x y : Int) (st : PState) :
    List FxNode → PState
  | [] => st
  | n :: rest => applyFxList B force V x y (applyFxNode B force V x y false st n) rest

def applyFxClips (B : Mode → Color → Color → Color) (force : Bool) (V : Rect) (x y : Int) (st : PState) :
    List FxNode → PState
  | [] => st
  | n :: rest => applyFxClips B force V x y (applyFxNode B force V x y true st n) rest

end

/-- `composite(psd, color, alpha, viewport, force=force)` at a pixel of the viewport -/
def compositeFxDoc (B : Mode → Color → Color → Color) (force : Bool) (V : Rect) (x y : Int) (color : Color)
    (alpha : Rat) (layers : List FxNode) : Color × Rat × Rat :=
  let st := applyFxList B force V x y (PState.init color alpha false) layers
  (finishColor st, st.sg, st.ag)

/-! ### plain trees are effect-carrying trees without effects -/

def Flags.plain (hasPixels : Bool) : Flags :=
  { hasPixels := hasPixels, hasFill := false, hasVectorMask := false, vmaskEnabled := false, maskNoReal := false }

def Fx.plain (hasPixels : Bool) : Fx :=
  { flags := Flags.plain hasPixels, vmBox := Rect.zero, vmValue := 1, overlays := [], strokeFx := [] }

mutual
def embed : Node → FxNode
  | .leaf pr hasPixels color shape clips =>
    .leaf pr (Fx.plain hasPixels)
      { hasArr := hasPixels, pixColor := color, pixShape := shape, fillColor := white, fillShape := 0 } none
      (embedList clips)
  | .group pr passThrough children clips =>
    .group pr (Fx.plain false) passThrough (embedList children) (embedList clips)
def embedList : List Node → List FxNode
  | [] => []
  | n :: ns => embed n :: embedList ns
end

end PsdVerif.Composite
