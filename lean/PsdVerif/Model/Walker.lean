/-
C03 — an independent navigator of PSD/PSB files, written from the Adobe Photoshop File Formats
Specification ("Photoshop File Format" chapter: File Header, Color Mode Data, Image Resources,
Layer and Mask Information, Image Data sections), NOT from psd-tools. It reads only signatures,
keys, length prefixes, counts and alignment rules, and returns the regions `(offset, length, kind)`
it visited, or where it fell off.

Sources recorded for the rules that are not plain field widths:
* 8-byte lengths in a PSB (`adobeKeys`): the Length field of "Additional Layer Information":
  "(**PSB**, the following keys have a length count of 8 bytes: LMsk, Lr16, Lr32, Layr, Mt16, Mt32,
  Mtrn, Alph, FMsk, lnk2, FEid, FXid, PxSD." — 13 keys; `cinf` is not in that list.
* `observedKeys`: keys that Photoshop-written PSB files in tests/psd_files store with an 8-byte
  length although the published list omits them (`cinf`: layers/pattern-fill.psb, `lnkE`:
  placedLayer.psb, `pths`: unicode_pathname.psb); harness/props/C03.py re-checks this evidence on the
  fixtures in the thorough tier. `psbEightByteKeys = adobeKeys ++ observedKeys`.
* alignment: image resource names and data are padded to an even size (spec); layer names are
  Pascal strings padded to a multiple of 4 (spec); tagged blocks inside a layer record have an even
  length ("rounded up to an even byte count", spec; no Photoshop-written fixture has an odd one);
  tagged blocks after the global layer mask info store the unpadded length and are followed by
  filler up to a multiple of 4 (observed in every Photoshop-written fixture; the spec's "even" does
  not describe those files: e.g. 300dpi.psd has a block of length 2689).
* The layer info length is "rounded up to a multiple of 2" (spec); psd-tools makes the rounding a
  parameter (`padding` ∈ {1, 2, 4}), so the walker does not insist on evenness there: it requires the
  records and channel data to end at most 3 filler bytes before the declared end.

Core Lean only.
-/
import PsdVerif.Model.Codec

namespace PsdVerif.Walker
open PsdVerif PsdVerif.Codec

namespace Spec
/-- byte strings are spelled out (ASCII codes) so that `decide` can compare them -/
def adobeKeys : List B :=
  [/- LMsk -/ [76, 77, 115, 107], /- Lr16 -/ [76, 114, 49, 54], /- Lr32 -/ [76, 114, 51, 50], /- Layr -/ [76, 97, 121, 114], /- Mt16 -/ [77, 116, 49, 54], /- Mt32 -/ [77, 116, 51, 50], /- Mtrn -/ [77, 116, 114, 110], /- Alph -/ [65, 108, 112, 104], /- FMsk -/ [70, 77, 115, 107], /- lnk2 -/ [108, 110, 107, 50], /- FEid -/ [70, 69, 105, 100], /- FXid -/ [70, 88, 105, 100], /- PxSD -/ [80, 120, 83, 68]]
def observedKeys : List B := [/- cinf -/ [99, 105, 110, 102], /- lnkE -/ [108, 110, 107, 69], /- pths -/ [112, 116, 104, 115]]
def psbEightByteKeys : List B := adobeKeys ++ observedKeys
/-- keys psd-tools treats as 8-byte keys without support in the specification or in a fixture -/
def unconfirmedKeys : List B := [/- FELS -/ [70, 69, 76, 83], /- artd -/ [97, 114, 116, 100], /- extd -/ [101, 120, 116, 100], /- extn -/ [101, 120, 116, 110], /- lnk3 -/ [108, 110, 107, 51]]

def headerSignature : B := /- 8BPS -/ [56, 66, 80, 83]
def resourceSignatures : List B := [/- 8BIM -/ [56, 66, 73, 77], /- MeSa -/ [77, 101, 83, 97], /- AgHg -/ [65, 103, 72, 103], /- PHUT -/ [80, 72, 85, 84], /- DCSR -/ [68, 67, 83, 82]]
def blockSignatures : List B := [/- 8BIM -/ [56, 66, 73, 77], /- 8B64 -/ [56, 66, 54, 52]]
def layerSignature : B := /- 8BIM -/ [56, 66, 73, 77]
end Spec

structure Region where
  offset : Nat
  length : Nat
  kind : String
  deriving DecidableEq, Repr

structure WErr where
  sect : String
  pos : Nat
  reason : String
  deriving DecidableEq, Repr

abbrev WR (α : Type) := B → Nat → Except WErr (α × Nat)

/-- an unsigned big-endian field -/
def wU (sect : String) (w : Nat) : WR Nat := fun d p =>
  match readU w d p with
  | .ok x => .ok x
  | .error _ => .error ⟨sect, p, "truncated"⟩

def wBytes (sect : String) (n : Nat) : WR B := fun d p =>
  match readN n d p with
  | .ok x => .ok x
  | .error _ => .error ⟨sect, p, "truncated"⟩

/-- move forward by a declared length; falling off the end of the data is an error -/
def skip (sect : String) (n : Nat) : WR Unit := fun d p =>
  if p + n ≤ d.length then .ok ((), p + n) else .error ⟨sect, p, "declared length runs past the end of the data"⟩

def check (sect reason : String) (c : Bool) : WR Unit := fun _ p =>
  if c then .ok ((), p) else .error ⟨sect, p, reason⟩

structure HeaderInfo where
  version : Nat
  channels : Nat
  height : Nat
  width : Nat
  depth : Nat
  mode : Nat
  deriving Repr

def lenW (version : Nat) : Nat := if version = 2 then 8 else 4

def walkHeader : WR (HeaderInfo × List Region) := fun d p => do
  let (sig, p1) ← wBytes "header" 4 d p
  let (_, _) ← check "header" "signature is not 8BPS" (sig == Spec.headerSignature) d p
  let (version, p2) ← wU "header" 2 d p1
  let (_, _) ← check "header" "version is not 1 or 2" (version == 1 || version == 2) d p1
  let (_, p3) ← skip "header" 6 d p2
  let (channels, p4) ← wU "header" 2 d p3
  let (height, p5) ← wU "header" 4 d p4
  let (width, p6) ← wU "header" 4 d p5
  let (depth, p7) ← wU "header" 2 d p6
  let (mode, p8) ← wU "header" 2 d p7
  .ok ((⟨version, channels, height, width, depth, mode⟩, [⟨p, 26, "header"⟩]), p8)

def walkColorMode : WR (List Region) := fun d p => do
  let (n, p1) ← wU "color-mode-data" 4 d p
  let (_, p2) ← skip "color-mode-data" n d p1
  .ok ([⟨p, 4 + n, "color-mode-data"⟩], p2)

/-- one image resource block: signature, id, Pascal name (even size), size, data (even size) -/
def walkResource : WR Region := fun d p => do
  let (sig, p1) ← wBytes "image-resource" 4 d p
  let (_, _) ← check "image-resource" "unknown resource signature" (Spec.resourceSignatures.contains sig) d p
  let (_, p2) ← wU "image-resource" 2 d p1
  let (n, p3) ← wU "image-resource" 1 d p2
  let (_, p4) ← skip "image-resource" (n + padAmount (1 + n) 2) d p3
  let (size, p5) ← wU "image-resource" 4 d p4
  let (_, p6) ← skip "image-resource" (size + padAmount size 2) d p5
  .ok (⟨p, p6 - p, "image-resource"⟩, p6)

def walkResourcesLoop (stop : Nat) : Nat → WR (List Region)
  | 0 => fun _ p => .error ⟨"image-resources", p, "no progress"⟩
  | fuel + 1 => fun d p =>
    if p < stop then
      match walkResource d p with
      | .error e => .error e
      | .ok (r, p1) =>
        if p1 ≤ stop then
          match walkResourcesLoop stop fuel d p1 with
          | .error e => .error e
          | .ok (rs, p2) => .ok (r :: rs, p2)
        else .error ⟨"image-resources", p, "resource block crosses the end of the section"⟩
    else .ok ([], p)

def walkResources : WR (List Region) := fun d p => do
  let (n, p1) ← wU "image-resources" 4 d p
  let (_, _) ← skip "image-resources" n d p1
  let (rs, p2) ← walkResourcesLoop (p1 + n) (n + 1) d p1
  .ok (⟨p, 4 + n, "image-resources"⟩ :: rs, p2)

/-- one tagged block ("additional layer information"): signature, key, length (8 bytes for the listed
keys in a PSB), data, alignment filler. `evenLength`: inside a layer record the length itself is even;
`align`: after the global mask the data is followed by filler up to a multiple of `align`. -/
def walkBlock (sect : String) (version align : Nat) (evenLength : Bool) : WR Region := fun d p => do
  let (sig, p1) ← wBytes sect 4 d p
  let (_, _) ← check sect "bad tagged block signature" (Spec.blockSignatures.contains sig) d p
  let (key, p2) ← wBytes sect 4 d p1
  let w := if version = 2 ∧ key ∈ Spec.psbEightByteKeys then 8 else 4
  let (n, p3) ← wU sect w d p2
  let (_, _) ← check sect "odd tagged block length inside a layer record" (!evenLength || n % 2 == 0) d p2
  let (_, p4) ← skip sect (n + padAmount n align) d p3
  .ok (⟨p, p4 - p, "tagged-block"⟩, p4)

/-- blocks up to `stop`; at most 3 bytes of filler may remain before `stop` -/
def walkBlocksLoop (sect : String) (version align : Nat) (evenLength : Bool) (stop : Nat) : Nat → WR (List Region)
  | 0 => fun _ p => .error ⟨sect, p, "no progress"⟩
  | fuel + 1 => fun d p =>
    if p + 12 ≤ stop then
      match walkBlock sect version align evenLength d p with
      | .error e => .error e
      | .ok (r, p1) =>
        if p1 ≤ stop then
          match walkBlocksLoop sect version align evenLength stop fuel d p1 with
          | .error e => .error e
          | .ok (rs, p2) => .ok (r :: rs, p2)
        else .error ⟨sect, p, "tagged block crosses the end of its container"⟩
    else if p + 4 ≤ stop then .error ⟨sect, p, "more than 3 bytes left after the last tagged block"⟩
    else .ok ([], stop)

/-- a layer record; returns the channel data lengths it declares -/
def walkChannelInfos (version : Nat) : Nat → WR (List Nat)
  | 0 => fun _ p => .ok ([], p)
  | n + 1 => fun d p =>
    match wU "layer-record" 2 d p with
    | .error e => .error e
    | .ok (_, p1) =>
      match wU "layer-record" (lenW version) d p1 with
      | .error e => .error e
      | .ok (len, p2) =>
        match walkChannelInfos version n d p2 with
        | .error e => .error e
        | .ok (ls, p3) => .ok (len :: ls, p3)

def walkRecord (version : Nat) : WR (List Nat × List Region) := fun d p => do
  let (_, p1) ← skip "layer-record" 16 d p
  let (nch, p2) ← wU "layer-record" 2 d p1
  let (lens, p3) ← walkChannelInfos version nch d p2
  let (sig, p4) ← wBytes "layer-record" 4 d p3
  let (_, _) ← check "layer-record" "blend mode signature is not 8BIM" (sig == Spec.layerSignature) d p3
  let (_, p5) ← skip "layer-record" 8 d p4          -- blend key, opacity, clipping, flags, filler
  let (extra, p6) ← wU "layer-record" 4 d p5
  let (_, _) ← skip "layer-record" extra d p6
  let stop := p6 + extra
  let (m, q1) ← wU "layer-mask-data" 4 d p6
  let (_, q2) ← skip "layer-mask-data" m d q1
  let (_, _) ← check "layer-mask-data" "crosses the end of the extra data" (decide (q2 ≤ stop)) d q1
  let (b, q3) ← wU "layer-blending-ranges" 4 d q2
  let (_, q4) ← skip "layer-blending-ranges" b d q3
  let (_, _) ← check "layer-blending-ranges" "crosses the end of the extra data" (decide (q4 ≤ stop)) d q3
  let (n, q5) ← wU "layer-name" 1 d q4
  let (_, q6) ← skip "layer-name" (n + padAmount (1 + n) 4) d q5
  let (_, _) ← check "layer-name" "crosses the end of the extra data" (decide (q6 ≤ stop)) d q5
  let (bs, q7) ← walkBlocksLoop "layer-tagged-blocks" version 1 true stop (extra + 1) d q6
  .ok ((lens, ⟨p, q7 - p, "layer-record"⟩ :: bs), q7)

def walkRecords (version : Nat) : Nat → WR (List (List Nat) × List Region)
  | 0 => fun _ p => .ok (([], []), p)
  | n + 1 => fun d p =>
    match walkRecord version d p with
    | .error e => .error e
    | .ok ((lens, rs), p1) =>
      match walkRecords version n d p1 with
      | .error e => .error e
      | .ok ((ls, rs'), p2) => .ok ((lens :: ls, rs ++ rs'), p2)

/-- channel image data: for every channel the record declared, compression (2 bytes) + data;
the declared length covers both -/
def walkChannels : List Nat → WR (List Region)
  | [] => fun _ p => .ok ([], p)
  | len :: rest => fun d p =>
    if len < 2 then .error ⟨"channel-image-data", p, "channel length below 2"⟩
    else
      match wU "channel-image-data" 2 d p with
      | .error e => .error e
      | .ok (comp, p1) =>
        if comp > 3 then .error ⟨"channel-image-data", p, "unknown compression"⟩
        else
          match skip "channel-image-data" (len - 2) d p1 with
          | .error e => .error e
          | .ok (_, p2) =>
            match walkChannels rest d p2 with
            | .error e => .error e
            | .ok (rs, p3) => .ok (⟨p, len, "channel-data"⟩ :: rs, p3)

def i16abs (n : Nat) : Nat := if n < 32768 then n else 65536 - n

def walkLayerInfo (version : Nat) : WR (List Region) := fun d p => do
  let (n, p1) ← wU "layer-info" (lenW version) d p
  let (_, _) ← skip "layer-info" n d p1
  let stop := p1 + n
  if n = 0 then .ok ([⟨p, lenW version, "layer-info"⟩], p1)
  else
    let (count, p2) ← wU "layer-info" 2 d p1
    let ((lens, rs), p3) ← walkRecords version (i16abs count) d p2
    let (cs, p4) ← walkChannels lens.flatten d p3
    let (_, _) ← check "layer-info" "records and channel data cross the declared end" (decide (p4 ≤ stop)) d p3
    let (_, _) ← check "layer-info" "more than 3 bytes of filler before the declared end" (decide (stop < p4 + 4)) d p4
    .ok (⟨p, lenW version + n, "layer-info"⟩ :: rs ++ cs, stop)

def walkLayerAndMask (version : Nat) : WR (List Region) := fun d p => do
  let (n, p1) ← wU "layer-and-mask" (lenW version) d p
  let (_, _) ← skip "layer-and-mask" n d p1
  let stop := p1 + n
  let me : Region := ⟨p, lenW version + n, "layer-and-mask"⟩
  if n = 0 then .ok ([me], p1)
  else
    let (li, p2) ← walkLayerInfo version d p1
    let (_, _) ← check "layer-info" "crosses the end of the layer and mask section" (decide (p2 ≤ stop)) d p1
    if p2 + 4 ≤ stop then
      let (g, p3) ← wU "global-layer-mask" 4 d p2
      let (_, p4) ← skip "global-layer-mask" g d p3
      let (_, _) ← check "global-layer-mask" "crosses the end of the layer and mask section" (decide (p4 ≤ stop)) d p2
      let (bs, _) ← walkBlocksLoop "global-tagged-blocks" version 4 false stop (n + 1) d p4
      .ok (me :: li ++ ⟨p2, 4 + g, "global-layer-mask"⟩ :: bs, stop)
    else .ok (me :: li, stop)

def walkImageData : WR (List Region) := fun d p => do
  let (comp, p1) ← wU "image-data" 2 d p
  let (_, _) ← check "image-data" "unknown compression" (decide (comp ≤ 3)) d p
  .ok ([⟨p, d.length - p, "image-data"⟩], d.length)

structure Walk where
  header : HeaderInfo
  regions : List Region
  stop : Nat
  deriving Repr

/-- navigate a whole file from offset 0 -/
def walk (d : B) : Except WErr Walk := do
  let ((h, r0), p) ← walkHeader d 0
  let (r1, p) ← walkColorMode d p
  let (r2, p) ← walkResources d p
  let (r3, p) ← walkLayerAndMask h.version d p
  let (r4, p) ← walkImageData d p
  .ok ⟨h, r0 ++ r1 ++ r2 ++ r3 ++ r4, p⟩

/-- driver output: `ok <header fields> <end> <n> (<offset> <length> <kind>)*` or `walk-err <section> <pos> <reason>` -/
def report (r : Except WErr Walk) : String :=
  match r with
  | .ok w =>
    "ok\t" ++ " ".intercalate [toString w.header.version, toString w.header.channels, toString w.header.height,
      toString w.header.width, toString w.header.depth, toString w.header.mode] ++ "\t" ++ toString w.stop ++ "\t" ++
      " ".intercalate (w.regions.map fun r => toString r.offset ++ ":" ++ toString r.length ++ ":" ++ r.kind)
  | .error e => "walk-err\t" ++ e.sect ++ "\t" ++ toString e.pos ++ "\t" ++ e.reason

end PsdVerif.Walker
