/-
C06 — `PSDImage.open` on the model: the typed counting reader of Model/OpenCost.lean with the payload dispatch of
Model/OpenDispatch.lean, the descriptor tables regenerated from the source (Model/DescriptorTables.lean), the
engine-data parser of Model/EngineDataCost.lean and the `TypeToolObjectSetting` runner of Model/TyShCost.lean.
Core Lean only.
-/
import PsdVerif.Model.OpenDispatch
import PsdVerif.Model.EngineDataCost
import PsdVerif.Model.TyShCost
import PsdVerif.Model.DescriptorTables

namespace PsdVerif.OpenCost
open PsdVerif PsdVerif.Codec PsdVerif.PsdCost PsdVerif.PayloadCost

def tables : Descriptor.Tables := Descriptor.realTables

def engineRunner : B → CE Unit := EngineDataCost.runEngineData

def tyshRun : B → CE Unit := tyshRunner tables engineRunner

/-- the payload classes of the working tree -/
def hooks : Hooks := mkHooks tables engineRunner tyshRun

/-- `PSDImage.open(io.BytesIO(b))` → `PSD.read`, with at most `D` nested `Lr16` / `Lr32` blocks before `RecursionError` -/
def openC (D : Nat) (b : B) : CE (Psd.PSD × Nat) := open_ hooks D b

end PsdVerif.OpenCost
