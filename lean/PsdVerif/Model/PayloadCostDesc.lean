/-
C06 — counting twins of the hand-written payload readers that call the descriptor reader (they take the tables
`tb : Descriptor.Tables`):

  Model/PayloadSimple.lean     MetadataSetting (typed data: a nested run on the length block) · MetadataSettings
  Model/PayloadDescWrap.lean   SmartObjectLayerData · PlacedLayerData · TypeToolObjectSetting
  Model/PayloadLinked.lean     LinkedLayer (readTs, kindDec, tailDec) · LinkedLayers
  Model/Payload3Adjust.lean    ColorLookup (a `DescriptorBlock2` whose header is `HI`)
  Model/Payload3Vector.lean    VectorStrokeContentSetting
  Model/Payload3Resources.lean SliceV6 (speculative descriptor read) · SlicesV6 · Slices · DescriptorResource ·
                               Descriptor2Payload · DescriptorPayload

Each `X.decC` has literally the structure of `X.dec`; the descriptor reader is its counting twin of
Model/DescriptorCost.lean. `X.cc` bundles the codec, the twin and the constants proved in Lemmas/PayloadCostDesc.lean.

`SliceV6`: `try: DescriptorBlock.read(fp) except (ValueError, IOError): fp.seek(current_position)` — what the attempt
cost is spent whether it is kept or undone (`SliceV6.peekDataC`, like `orElseIOC`). An attempt that is undone consumed
nothing but may have read everything that was left: `SliceV6`, `SlicesV6`, `Slices` have NO `cc` (the judgement `Cost`
does not hold for them; Lemmas/PayloadCostDesc.lean proves what does).  Core Lean only.
-/
import PsdVerif.Model.DescriptorCost
import PsdVerif.Model.PayloadCostSimple
import PsdVerif.Model.PayloadDescWrap
import PsdVerif.Model.PayloadLinked
import PsdVerif.Model.Payload3Adjust
import PsdVerif.Model.Payload3Vector
import PsdVerif.Model.Payload3Resources

namespace PsdVerif.PayloadCost
open PsdVerif PsdVerif.Codec PsdVerif.PsdCost PsdVerif.Payload PsdVerif.Payload3

/-! ## tagged_blocks.py: MetadataSettings / MetadataSetting -/

/-- `with io.BytesIO(data) as f: read_fmt("I", f)` / `DescriptorBlock.frombytes(data)`: a nested run on the block -/
def MetadataSetting.typedDataC (tb : Descriptor.Tables) (key data : B) : CE MetaData :=
  if key ∈ GP.metadataIntKeys then do
    enterBlock data
    let (n, _) ← readUC 4 data 0
    CE.ok (.int n)
  else if key ∈ GP.metadataDescriptorKeys then do
    enterBlock data
    let (blk, _) ← DescriptorCost.Block.decC tb data 0
    CE.ok (.desc blk)
  else CE.ok (.raw data)

def MetadataSetting.decC (tb : Descriptor.Tables) : RC MetadataSetting := fun d p => do
  let (sig, p) ← readNC 4 d p
  if sig ∈ GP.metadataSignatures then
    let (key, p) ← readNC 4 d p
    let (cos, p) ← readBoolC d p
    let (_, p) ← readSkipC 3 d p
    let (data, p) ← readLenBlockC 0 4 1 d p
    let x ← MetadataSetting.typedDataC tb key data
    CE.ok (⟨sig, key, cos, x⟩, p)
  else CE.error .assertionError

def MetadataSetting.cc (tb : Descriptor.Tables) : CC MetadataSetting :=
  CC.hand (MetadataSetting.codec tb) (MetadataSetting.decC tb) "MetadataSetting" 6 16 16 [⟨"count", 4⟩]

/-- `for _ in range(count): MetadataSetting.read(fp)`: an item consumes its 16 bytes of header and length -/
def MetadataSettings.decC (tb : Descriptor.Tables) : RC (List MetadataSetting) := fun d p => do
  let (n, p) ← readUC 4 d p
  readCountC (MetadataSetting.decC tb) n d p

def MetadataSettings.cc (tb : Descriptor.Tables) : CC (List MetadataSetting) :=
  CC.hand (MetadataSettings.codec tb) (MetadataSettings.decC tb) "MetadataSettings" 23 18 4 [⟨"count", 16⟩, ⟨"count", 4⟩]

/-! ## tagged_blocks.py: the classes that wrap descriptor blocks -/

def SmartObjectLayerData.decC (tb : Descriptor.Tables) : RC SmartObjectLayerData := fun d p => do
  let (kind, p) ← readNC 4 d p
  let (version, p) ← readUC 4 d p
  let (data, p) ← DescriptorCost.Block.decC tb d p
  let x : SmartObjectLayerData := ⟨kind, version, data⟩
  if x.Valid then CE.ok (x, p) else CE.error .valueError

def SmartObjectLayerData.cc (tb : Descriptor.Tables) (pad : Nat) : CC SmartObjectLayerData :=
  CC.hand (SmartObjectLayerData.codec tb pad) (SmartObjectLayerData.decC tb) "SmartObjectLayerData" 4 9 24 [⟨"count", 4⟩]

def PlacedLayerData.decC (tb : Descriptor.Tables) : RC PlacedLayerData := fun d p => do
  let (kind, p) ← readNC 4 d p
  let (version, p) ← readUC 4 d p
  let (uuid, p) ← readPascalC 1 d p
  let (page, p) ← readUC 4 d p
  let (total, p) ← readUC 4 d p
  let (aa, p) ← readUC 4 d p
  let (lt, p) ← readUC 4 d p
  let (tr, p) ← readCountC readF64C 8 d p
  let (warp, p) ← DescriptorCost.Block2.decC tb d p
  let x : PlacedLayerData := ⟨kind, version, uuid, page, total, aa, lt, tr, warp⟩
  if x.Valid then CE.ok (x, p) else CE.error .valueError

def PlacedLayerData.cc (tb : Descriptor.Tables) (pad : Nat) : CC PlacedLayerData :=
  CC.hand (PlacedLayerData.codec tb pad) (PlacedLayerData.decC tb) "PlacedLayerData" 4 33 109 [⟨"fixed", 8⟩, ⟨"count", 4⟩]

def TypeToolObjectSetting.decC (tb : Descriptor.Tables) : RC TypeToolObjectSetting := fun d p => do
  let (version, p) ← readUC 2 d p
  let (tr, p) ← readCountC readF64C 6 d p
  let (tv, p) ← readUC 2 d p
  let (text, p) ← DescriptorCost.Block.decC tb d p
  let (wv, p) ← readUC 2 d p
  let (warp, p) ← DescriptorCost.Block.decC tb d p
  let (l, p) ← readI32C d p
  let (t, p) ← readI32C d p
  let (r, p) ← readI32C d p
  let (b, p) ← readI32C d p
  let x : TypeToolObjectSetting := ⟨version, tr, tv, text, wv, warp, l, t, r, b⟩
  if x.Valid then CE.ok (x, p) else CE.error .valueError

def TypeToolObjectSetting.cc (tb : Descriptor.Tables) (pad : Nat) : CC TypeToolObjectSetting :=
  CC.hand (TypeToolObjectSetting.codec tb pad) (TypeToolObjectSetting.decC tb) "TypeToolObjectSetting" 4 33 102
    [⟨"fixed", 8⟩, ⟨"count", 4⟩, ⟨"count", 4⟩]

/-! ## linked_layer.py -/

def LinkedLayer.readTsC : RC Timestamp := fun d p => do
  let (y, p) ← readUC 4 d p
  let (fs, p) ← readCountC (readUC 1) 4 d p
  let (s, p) ← readF64C d p
  CE.ok (⟨y, fs, s⟩, p)

def LinkedLayer.kindDecC (tb : Descriptor.Tables) (kind : B) (version datasize : Nat) : RC LinkedLayer.KindPart := fun d p => do
  let (k, p) ← (if kind = GP.linkedExternal then do
      let (lf, p) ← DescriptorCost.Block.decC tb d p
      let (ts, p) ← (if version > 3 then optItemC LinkedLayer.readTsC d p else CE.ok (none, p))
      let (fsz, p) ← readUC 8 d p
      let (dt, p) ← (if version > 2 then optItemC (readSizedC datasize) d p else CE.ok (none, p))
      CE.ok ((⟨some lf, ts, some fsz, dt⟩ : LinkedLayer.KindPart), p)
    else if kind = GP.linkedAlias then do
      let (_, p) ← readSkipC 8 d p
      CE.ok ((⟨none, none, none, none⟩ : LinkedLayer.KindPart), p)
    else CE.ok ((⟨none, none, none, none⟩ : LinkedLayer.KindPart), p) : CE (LinkedLayer.KindPart × Nat))
  if kind = GP.linkedData then
    let (dt, p) ← readSizedC datasize d p
    if dt.length = datasize then CE.ok ({ k with data := some dt }, p) else CE.error .assertionError
  else CE.ok (k, p)

def LinkedLayer.tailDecC (version : Nat) : RC (Option Payload.Str × Option UInt64 × Option Nat) := fun d p => do
  let (cid, p) ← (if version ≥ 5 then optItemC (readUStrC 1) d p else CE.ok (none, p))
  let (mt, p) ← (if version ≥ 6 then optItemC readF64C d p else CE.ok (none, p))
  let (ls, p) ← (if version ≥ 7 then optItemC (readUC 1) d p else CE.ok (none, p))
  CE.ok ((cid, mt, ls), p)

def LinkedLayer.decC (tb : Descriptor.Tables) : RC LinkedLayer := fun d p => do
  let (kind, p) ← readNC 4 d p
  if kind ∈ GP.linkedLayerTypes then
    let (version, p) ← readUC 4 d p
    if GP.linkedVersionMin ≤ version ∧ version ≤ GP.linkedVersionMax then
      let (uuid, p) ← readPascalC 1 d p
      let (filename, p) ← readUStrC 1 d p
      let (filetype, p) ← readNC 4 d p
      let (creator, p) ← readNC 4 d p
      let (datasize, p) ← readUC 8 d p
      let (flag, p) ← readUC 1 d p
      let (openFile, p) ← (if flag ≠ 0 then optItemC (DescriptorCost.Block.decC tb) d p else CE.ok (none, p))
      let (k, p) ← LinkedLayer.kindDecC tb kind version datasize d p
      let ((cid, mt, ls), p) ← LinkedLayer.tailDecC version d p
      let (data, p) ← (if kind = GP.linkedExternal ∧ version = 2 then optItemC (readSizedC datasize) d p else CE.ok (k.data, p))
      CE.ok (⟨kind, version, uuid, filename, filetype, creator, k.filesize, openFile, k.linkedFile, k.timestamp, data, cid, mt, ls⟩, p)
    else CE.error .assertionError
  else CE.error .valueError

def LinkedLayer.cc (tb : Descriptor.Tables) (pad : Nat) : CC LinkedLayer :=
  CC.hand (LinkedLayer.codec tb pad) (LinkedLayer.decC tb) "LinkedLayer" 4 45 30 [⟨"count", 4⟩, ⟨"count", 4⟩, ⟨"fixed", 1⟩]

/-- `read_length_block(fp, fmt="Q", padding=4)`, then `LinkedLayer.read` on the block's own `BytesIO` -/
def LinkedLayers.itemC (tb : Descriptor.Tables) : RC (Option LinkedLayer) := fun d p => do
  let (data, p) ← readLenBlockC 0 8 4 d p
  enterBlock data
  let (x, _) ← LinkedLayer.decC tb data 0
  CE.ok (some x, p)

def LinkedLayers.decC (tb : Descriptor.Tables) : RC (List LinkedLayer) :=
  readWhileC (isReadableC 8) (LinkedLayers.itemC tb)

def LinkedLayers.cc (tb : Descriptor.Tables) : CC (List LinkedLayer) :=
  CC.hand (LinkedLayers.codec tb) (LinkedLayers.decC tb) "LinkedLayers" 66 70 0
    [⟨"while", 8⟩, ⟨"count", 4⟩, ⟨"count", 4⟩, ⟨"fixed", 1⟩]

/-! ## adjustment_layers.py: ColorLookup; vector.py: VectorStrokeContentSetting -/

open PsdVerif.DescriptorCost in
def ColorLookup.decC (tb : Descriptor.Tables) : RC Descriptor.Block2 := fun d p =>
  ((readUC 2) >>~ fun ver => (readUC 4) >>~ fun dv => (readBodyC tb (decBodyC tb (d.length + 1))) >>~ fun x =>
    if dv = 16 then rpureC ⟨(ver : Int), (dv : Int), x.1, x.2.1, x.2.2⟩ else rfailC .valueError) d p

def ColorLookup.cc (tb : Descriptor.Tables) (pad : Nat) : CC Descriptor.Block2 :=
  CC.hand (ColorLookup.codec tb pad) (ColorLookup.decC tb) "ColorLookup" 4 8 18 [⟨"count", 4⟩]

open PsdVerif.DescriptorCost in
def VectorStrokeContentSetting.decC (tb : Descriptor.Tables) : RC VectorStrokeContentSetting := fun d p =>
  ((readNC 4) >>~ fun key => (readUC 4) >>~ fun ver => (readBodyC tb (decBodyC tb (d.length + 1))) >>~ fun x =>
    rpureC ⟨key, (ver : Int), x.1, x.2.1, x.2.2⟩) d p

def VectorStrokeContentSetting.cc (tb : Descriptor.Tables) (pad : Nat) : CC VectorStrokeContentSetting :=
  CC.hand (VectorStrokeContentSetting.codec tb pad) (VectorStrokeContentSetting.decC tb) "VectorStrokeContentSetting" 4 8 20
    [⟨"count", 4⟩]

/-! ## image_resources.py: the descriptor blocks as payloads -/

def DescriptorResource.cc (tb : Descriptor.Tables) : CC Descriptor.Block :=
  CC.hand (DescriptorResource.codec tb) (DescriptorCost.Block.decC tb) "DescriptorBlock" 4 7 16 [⟨"count", 4⟩]

def Descriptor2Payload.cc (tb : Descriptor.Tables) (pad : Nat) : CC Descriptor.Block2 :=
  CC.hand (Descriptor2Payload.codec tb pad) (DescriptorCost.Block2.decC tb) "DescriptorBlock2" 4 8 20 [⟨"count", 4⟩]

def DescriptorPayload.cc (tb : Descriptor.Tables) (pad : Nat) : CC Descriptor.Block :=
  CC.hand (DescriptorPayload.codec tb pad) (DescriptorCost.Block.decC tb) "DescriptorBlock" 4 7 16 [⟨"count", 4⟩]

/-! ## image_resources.py: Slices / SlicesV6 / SliceV6 -/

/-- `try: data = DescriptorBlock.read(fp); if data.classID == b"\0\0\0\0": raise ValueError
except (ValueError, IOError): fp.seek(current_position)`: what the attempt cost is spent whether its result is kept,
discarded or undone (like `orElseIOC`) -/
def SliceV6.tryBlockC (tb : Descriptor.Tables) : RC (Option Descriptor.Block) := fun d p =>
  ((match (DescriptorCost.Block.decC tb d p).1 with
    | .ok (blk, p') => if blk.classID.bytes = SliceV6.zeroKey then .ok (none, p) else .ok (some blk, p')
    | .error .valueError => .ok (none, p)
    | .error .unicodeError => .ok (none, p)
    | .error .ioError => .ok (none, p)
    | .error e => .error e), (DescriptorCost.Block.decC tb d p).2)

/-- the speculative read of the per-slice descriptor: `is_readable(fp, 4)`, `read_fmt("I")` and seek back, then the
attempt when the four bytes are the version 16 -/
def SliceV6.peekDataC (tb : Descriptor.Tables) : RC (Option Descriptor.Block) := fun d p => do
  let r ← isReadableC 4 d p
  if r then do
    let (version, _) ← readUC 4 d p
    if version = 16 then SliceV6.tryBlockC tb d p else CE.ok (none, p)
  else CE.ok (none, p)

def SliceV6.assocDecC (head : Row) : RC (Option Row) := fun d p =>
  if SliceV6.hasAssoc head then do
    let (r, p') ← fmtDecC [U 4] d p
    CE.ok (some r, p')
  else CE.ok (none, p)

def SliceV6.decC (tb : Descriptor.Tables) : RC SliceV6 := fun d p => do
  let (head, p) ← fmtDecC SliceV6.headFmt d p
  let (assoc, p) ← SliceV6.assocDecC head d p
  let (name, p) ← readUStrC 1 d p
  let (st, p) ← fmtDecC [U 4] d p
  let (bbox, p) ← fmtDecC SliceV6.bboxFmt d p
  let (url, p) ← readUStrC 1 d p
  let (target, p) ← readUStrC 1 d p
  let (message, p) ← readUStrC 1 d p
  let (altTag, p) ← readUStrC 1 d p
  let (html, p) ← fmtDecC [Q] d p
  let (cellText, p) ← readUStrC 1 d p
  let (align, p) ← fmtDecC [U 4, U 4] d p
  let (argb, p) ← fmtDecC SliceV6.argbFmt d p
  let (data, p) ← SliceV6.peekDataC tb d p
  CE.ok (⟨head, assoc, name, st, bbox, url, target, message, altTag, html, cellText, align, argb, data⟩, p)

/-- `for _ in range(count): SliceV6.read(fp)` -/
def SlicesV6.decC (tb : Descriptor.Tables) : RC SlicesV6 := fun d p => do
  let (bbox, p) ← fmtDecC SliceV6.bboxFmt d p
  let (name, p) ← readUStrC 1 d p
  let (count, p) ← readUC 4 d p
  let (items, p) ← readCountC (SliceV6.decC tb) count d p
  CE.ok (⟨bbox, name, items⟩, p)

def Slices.decC (tb : Descriptor.Tables) : RC Slices := fun d p => do
  let (version, p) ← readUC 4 d p
  if version ∈ G3.slicesVersions then
    if version = 6 then
      let (x, p) ← SlicesV6.decC tb d p
      CE.ok (⟨version, .v6 x⟩, p)
    else
      let (b, p) ← DescriptorCost.Block.decC tb d p
      CE.ok (⟨version, .desc b⟩, p)
  else CE.error .assertionError

end PsdVerif.PayloadCost
