/-
C15 (part 2) model: the clipping relation as STATE — what every layer object carries between two
calls of `PSDImage._compute_clipping_layers` (`_clip_layers`, `_has_clip_target`), what a call does
to it (`_clear_clipping_layers` over the layers its iteration visits, then `rec_helper`, which only
assigns where its tests say so), and a small machine that runs the public mutators of the layer
tree as the regenerated table `Generated/ClipCurrent.lean` describes them (which raw mutations a
mutator makes, on which container, and which recomputations follow, under which tests).
Core Lean only.

Source: src/psd_tools/api/psd_image.py `_clear_clipping_layers`, `_compute_clipping_layers`, `_init`,
`compatibility_mode` setter; api/layers.py `Layer.__init__`, `clipping_layer` / `blend_mode` setters,
`GroupMixin` (`__setitem__` … `clear`, `_update_psd_record`, `descendants`), `Layer.move_to_group`,
`move_up`, `move_down`, `delete_layer`, `Group.new`, `Group.group_layers`.

The attributes live ON the nodes of the tree, as in Python they live on the layer objects: an edit
that moves a layer moves its stale attributes with it. A layer object occurs once in a tree
(C09's invariant); within one children list an object is identified by its position.
-/
import PsdVerif.Model.Clip

namespace PsdVerif.ClipState
open PsdVerif PsdVerif.Clip

/-- What the clipping pass reads from and writes to one layer object. -/
structure Attr where
  /-- identity of the Python object -/
  id : Nat
  /-- `clipping_layer` (`_record.clipping == NON_BASE`) -/
  clipping : Bool
  /-- `blend_mode == BlendMode.PASS_THROUGH` (for a group: the divider block's blend mode) -/
  passThrough : Bool
  /-- `_clip_layers` as left by the last assignment (identities, bottom first) -/
  clip : List Nat
  /-- `_has_clip_target` as left by the last assignment -/
  tgt : Bool
  deriving DecidableEq, Repr, Inhabited

/-- A layer tree whose nodes carry their attributes; children lists are bottom first (`_layers`). -/
inductive T where
  | layer (a : Attr)
  | group (a : Attr) (kids : List T)
  deriving Repr, Inhabited

def T.attr : T → Attr
  | .layer a => a
  | .group a _ => a

def T.isGroup : T → Bool
  | .layer _ => false
  | .group _ _ => true

/-- assign attributes of the object itself -/
def T.withAttr (f : Attr → Attr) : T → T
  | .layer a => .layer (f a)
  | .group a ks => .group (f a) ks

def T.id (n : T) : Nat := n.attr.id

/-- what `rec_helper` tests on a child -/
def T.flags (n : T) : ChildFlags := ⟨n.attr.clipping, n.isGroup, n.attr.passThrough⟩

/-- `Layer.__init__`: `_clip_layers = []`, `_has_clip_target = True`; also the two assignments of
    `_clear_clipping_layers`. -/
def Attr.reset (a : Attr) : Attr := { a with clip := [], tgt := true }

/-- identities of the children at the given positions -/
def idsAt (ks : List T) (js : List Nat) : List Nat := js.filterMap fun j => (ks[j]?).map T.id

/-! ### `_clear_clipping_layers` -/

/-- The iteration `_clear_clipping_layers` runs over. -/
inductive ClearIter where
  /-- `self.descendants()` / `self.descendants(include_clip=True)`: every layer of the document -/
  | all
  /-- `self.descendants(include_clip=False)`: a clipping layer is skipped together with everything below it -/
  | skipClipping
  /-- anything the extractor does not recognise (nothing is known to be reset) -/
  | other
  deriving DecidableEq, Repr, Inhabited

/-- does the iteration yield (and descend into) a layer with these attributes?
    `descendants`: `if not include_clip and layer.clipping_layer: continue` -/
def ClearIter.visits : ClearIter → Attr → Bool
  | .all, _ => true
  | .skipClipping, a => !a.clipping
  | .other, _ => false

mutual
def clearNode (it : ClearIter) : T → T
  | .layer a => if it.visits a then .layer a.reset else .layer a
  | .group a ks => if it.visits a then .group a.reset (clearKids it ks) else .group a ks
def clearKids (it : ClearIter) : List T → List T
  | [] => []
  | k :: ks => clearNode it k :: clearKids it ks
end

/-! ### `rec_helper` on objects that already carry attributes -/

/-- One invocation of `rec_helper`: the local `stack` (positions of the children pushed, in the
    order pushed) and the children, whose attributes the loop assigns. -/
structure LSt where
  stack : List Nat
  kids : List T

/-- `for clip_layer in stack: clip_layer._has_clip_target = False` -/
def LSt.noTarget (s : LSt) : LSt :=
  { s with kids := s.kids.mapIdx fun j k => if j ∈ s.stack then k.withAttr ({ · with tgt := false }) else k }

/-- Body of `for sublayer in reversed(layer._layers):` for the child at position `i`
    (without the recursive call, which touches the descendants of the child only). -/
def stepL (m : CompatMode) (s : LSt) (i : Nat) : LSt :=
  match s.kids[i]? with
  | none => s
  | some k =>
    if k.attr.clipping then
      { s with stack := s.stack ++ [i] }                                   -- stack.append(sublayer)
    else if k.attr.passThrough && m.restrictive then
      { s.noTarget with stack := [] }
    else
      -- stack.reverse(); sublayer._clip_layers = stack; stack = []
      { stack := [], kids := s.kids.set i (k.withAttr ({ · with clip := idsAt s.kids s.stack.reverse })) }

/-- the loop: positions `n-1, …, 0` (top of the group first) -/
def loopL (m : CompatMode) : Nat → LSt → LSt
  | 0, s => s
  | i + 1, s => loopL m i (stepL m s i)

/-- the loop and the trailing `for clip_layer in stack` on one children list -/
def scanLevel (m : CompatMode) (ks : List T) : List T := (loopL m ks.length ⟨[], ks⟩).noTarget.kids

mutual
/-- `rec_helper(node)` -/
def scanNode (m : CompatMode) : T → T
  | .layer a => .layer a
  | .group a ks => .group a (scanLevel m (scanKids m ks))
def scanKids (m : CompatMode) : List T → List T
  | [] => []
  | k :: ks => scanNode m k :: scanKids m ks
end

/-- `rec_helper(self)` on the document -/
def scan (m : CompatMode) (ks : List T) : List T := scanLevel m (scanKids m ks)

/-- `_compute_clipping_layers`: `_clear_clipping_layers()` over what its iteration visits, then the pass. -/
def recomputeTree (it : ClearIter) (m : CompatMode) (ks : List T) : List T := scan m (clearKids it ks)

/-! ### What is stored, and what ought to be -/

/-- the stored relation of one children list -/
def storedLevel (ks : List T) : List Entry := ks.map fun k => ⟨k.id, k.attr.clip, k.attr.tgt⟩

mutual
def storedNode : T → List Entry
  | .layer _ => []
  | .group _ ks => storedLevel ks ++ storedKids ks
def storedKids : List T → List Entry
  | [] => []
  | k :: ks => storedNode k ++ storedKids ks
end

/-- every layer of the document with its `_clip_layers` and `_has_clip_target`, level by level -/
def stored (ks : List T) : List Entry := storedLevel ks ++ storedKids ks

/-- the specification on one children list: `Spec.clip` of the flags, positions named by identity -/
def specLevel (m : CompatMode) (ks : List T) : List Entry :=
  (ks.zip (Spec.clip m (ks.map T.flags))).map fun (k, ci) => ⟨k.id, idsAt ks ci.clipLayers, ci.hasTarget⟩

mutual
def specNode (m : CompatMode) : T → List Entry
  | .layer _ => []
  | .group _ ks => specLevel m ks ++ specKids m ks
def specKids (m : CompatMode) : List T → List Entry
  | [] => []
  | k :: ks => specNode m k ++ specKids m ks
end

/-- the specification evaluated on the CURRENT flags, order, membership and mode -/
def spec (m : CompatMode) (ks : List T) : List Entry := specLevel m ks ++ specKids m ks

mutual
/-- every children list of the tree (the document's own list is added by `levels`) -/
def levelsNode : T → List (List T)
  | .layer _ => []
  | .group _ ks => ks :: levelsKids ks
def levelsKids : List T → List (List T)
  | [] => []
  | k :: ks => levelsNode k ++ levelsKids ks
end

def levels (ks : List T) : List (List T) := ks :: levelsKids ks

/-! ### The state machine -/

/-- One document: the inputs of the relation (mode, tree with flags) and, on the nodes, the relation
    as stored. -/
structure St where
  mode : CompatMode
  tree : List T
  deriving Repr, Inhabited

/-- the stored relation is the specification of the current inputs -/
def Current (s : St) : Prop := stored s.tree = spec s.mode s.tree

instance (s : St) : Decidable (Current s) := inferInstanceAs (Decidable (_ = _))

/-- What one statement of a mutator (after inlining its helpers) does, as far as the relation is
    concerned. `owner` is the expression naming the object whose document is concerned; `guards` are
    the tests of the enclosing `if`s other than "the document exists". -/
inductive Eff where
  /-- a raw change of an input: `owner._layers.…`, `owner._record.clipping = …`, a blend-mode
      assignment, `owner._compatibility_mode = …` -/
  | mutate (owner what : String) (guards : List String)
  /-- `_compute_clipping_layers()` on the document of `owner` -/
  | recomp (owner : String) (guards : List String)
  /-- an assignment to `_clip_layers` / `_has_clip_target` outside the pass -/
  | store (owner what : String) (guards : List String)
  /-- something the extractor could not classify -/
  | other (src : String)
  deriving DecidableEq, Repr, Inhabited

/-- A public mutator: its straight-line segments (a loop body is a segment of its own). -/
structure Row where
  name : String
  segs : List (List Eff)
  deriving DecidableEq, Repr, Inhabited

/-- The regenerated table. -/
structure Table where
  /-- `PSDImage.__init__` (through `_init`), flattened -/
  init : List Eff
  rows : List Row
  clearIter : ClearIter
  deriving Repr, Inhabited

def Table.seg (t : Table) (op : String) (k : Nat) : List Eff :=
  match t.rows.find? (fun r => r.name == op) with
  | some r => r.segs.getD k []
  | none => []

def St.recompute (it : ClearIter) (s : St) : St := { s with tree := recomputeTree it s.mode s.tree }

/-- One execution of one segment of a mutator. Everything the table does not fix is a parameter:
    which of the containers named in the segment belong to the observed document, whose `_psd`
    points to it, how the tests come out, and what each raw mutation does to the inputs (ANY new
    tree, with any stale attributes on its nodes, and any mode). -/
structure SegInst where
  op : String
  seg : Nat
  inDoc : String → Bool
  psdHere : String → Bool
  cond : String → Bool
  change : Nat → St → St

/-- C09's back-pointer invariant: a container of the document has `_psd` = the document. -/
def SegInst.wf (si : SegInst) : Prop := ∀ o, si.inDoc o = true → si.psdHere o = true

def runEff (it : ClearIter) (si : SegInst) (s : St) (i : Nat) : Eff → St
  | .mutate o _ gs => if gs.all si.cond && si.inDoc o then si.change i s else s
  | .recomp o gs => if gs.all si.cond && si.psdHere o then s.recompute it else s
  | .store o _ gs => if gs.all si.cond && si.inDoc o then si.change i s else s
  | .other _ => si.change i s

def runEffs (it : ClearIter) (si : SegInst) : Nat → List Eff → St → St
  | _, [], s => s
  | i, e :: es, s => runEffs it si (i + 1) es (runEff it si s i e)

def runSeg (t : Table) (s : St) (si : SegInst) : St := runEffs t.clearIter si 0 (t.seg si.op si.seg) s

def runHist (t : Table) : St → List SegInst → St
  | s, [] => s
  | s, si :: h => runHist t (runSeg t s si) h

/-- does the flattened constructor end with an unguarded `self._compute_clipping_layers()`? -/
def initOk (effs : List Eff) : Bool := effs.getLast? == some (.recomp "self" [])

/-- `PSDImage(data)`: `_init` builds `inp` (any tree), the recomputation at its end runs if the
    table says it is there. -/
def openSt (t : Table) (inp : St) : St := if initOk t.init then inp.recompute t.clearIter else inp

/-- a recomputation on the document of `o` whose tests are among those of the mutation -/
def covers (o : String) (gs : List String) : Eff → Bool
  | .recomp o' gs' => o' == o && gs'.all (· ∈ gs)
  | _ => false

/-- every raw mutation of a segment is followed, in the same segment, by a recomputation on the
    document of the same container under no further test; nothing assigns the stored attributes
    directly; nothing is unclassified. -/
def covered : List Eff → Bool
  | [] => true
  | .mutate o _ gs :: rest => rest.any (covers o gs) && covered rest
  | .recomp _ _ :: rest => covered rest
  | .store _ _ _ :: _ => false
  | .other _ :: _ => false

def rowOk (r : Row) : Bool := r.segs.all covered

/-- what `kept_current` needs from the source -/
def tableOk (t : Table) : Bool := t.clearIter == .all && initOk t.init && t.rows.all rowOk

/-! ### Executable instance used by the driver: one public call, new inputs read off the real objects -/

mutual
/-- attributes of the object with identity `i`, wherever it sits -/
def findNode (i : Nat) : T → Option Attr
  | .layer a => if a.id = i then some a else none
  | .group a ks => if a.id = i then some a else findAttr i ks
def findAttr (i : Nat) : List T → Option Attr
  | [] => none
  | k :: rest =>
    match findNode i k with
    | some b => some b
    | none => findAttr i rest
end

mutual
/-- the new tree (identities and flags as given) with the attributes every object had before
    (objects not seen before carry the defaults of `Layer.__init__`) -/
def adoptNode (mem : Nat → Option Attr) : T → T
  | .layer a => .layer (match mem a.id with | some b => { a with clip := b.clip, tgt := b.tgt } | none => a.reset)
  | .group a ks =>
    .group (match mem a.id with | some b => { a with clip := b.clip, tgt := b.tgt } | none => a.reset) (adoptKids mem ks)
def adoptKids (mem : Nat → Option Attr) : List T → List T
  | [] => []
  | k :: ks => adoptNode mem k :: adoptKids mem ks
end

/-- One call of the public mutator `op` (segment `seg` of its row), all containers in the document,
    all tests true: a raw mutation installs the inputs observed after the call (idempotent, so it
    does not matter which of several raw mutations of a compound operation is taken to do it). -/
def callInst (op : String) (seg : Nat) (new : St) : SegInst :=
  { op := op, seg := seg, inDoc := fun _ => true, psdHere := fun _ => true, cond := fun _ => true,
    change := fun _ s => { mode := new.mode, tree := adoptKids (fun i => findAttr i s.tree) new.tree } }

/-- one public call: its segments in order, once each -/
def callHist (t : Table) (op : String) (new : St) : List SegInst :=
  match t.rows.find? (fun r => r.name == op) with
  | some r => (List.range r.segs.length).map fun k => callInst op k new
  | none => []

end PsdVerif.ClipState
