/-
C01 (typed documents) — engine data inside the C01 model.

Two places of psd/tagged_blocks.py hold engine data (psd/engine_data.py, the model of C18: Model/EngineData.lean):

* the `Txt2` block (`Tag.TEXT_ENGINE_DATA`), registered for `EngineData2`: `TaggedBlock.read` calls
  `EngineData2.frombytes(raw_data, version=version)` (= `Dict.frombytes`: the parser, *at read time*; whatever it raises
  leaves `TaggedBlock.read`), `TaggedBlock.write` calls `data.write(f, padding=..., version=...)` (= `Dict.write` with
  `indent=None, write_container=False`: the compact layout; both keywords are swallowed by `**kwargs`);

* the text descriptor of `TypeToolObjectSetting` (`TySh`):

  ```
  text_data = DescriptorBlock.read(fp)
  if b"EngineData" in text_data:
      try:
          engine_data = text_data[b"EngineData"].value
          if isinstance(engine_data, bytes):
              engine_data = EngineData.frombytes(engine_data)
              text_data[b"EngineData"].value = engine_data
      except Exception:
          logger.warning("Failed to read engine data")
  ```

  i.e. the raw value is parsed *at read time*, in place; when the parser raises (or the item has no `bytes` value) the
  bytes stay. `RawData.write` then writes `self.value.write(f)` when the value has a `write` (`Dict.write` with
  `indent=0, write_container=True`: the indented layout) and the bytes otherwise.

The typed value `TypeToolTyped` is the object the reader leaves: the `TypeToolObjectSetting` of Model/PayloadDescWrap.lean
together with the parsed tree when there is one (the raw item of the descriptor then holds no bytes of its own: `[]`).

WF tags: (i) validator · (ii) on-disk width · (iii) format consistency · (F) forced by the proof.
Core Lean only.
-/
import PsdVerif.Model.EngineData
import PsdVerif.Model.PayloadDescWrap
import PsdVerif.Generated.TypedDoc

namespace PsdVerif.Typed
open PsdVerif PsdVerif.Codec PsdVerif.Payload

abbrev Tree := EngineData.Tree

/-! ## the trees C18's round trip covers (the definitions of Lemmas/EngineDataTree.lean, restated here because the
codecs need them as data; `Lemmas/TypedEngine.lean` proves them equal) -/

namespace EngineWF
open EngineData

def isName (k : BL) : Bool := !k.isEmpty && k.all isWord

def decWf (d : Dec) : Bool := decide (1 ≤ d.k) && decide (d.k ≤ 8) && (d.k == 1 || d.mant % 10 != 0)

def scalar : Scalar → Bool
  | .str s => s.all isScalar
  | .bool _ => true
  | .int _ => true
  | .flt d => decWf d
  | .prop _ => false
  | .tag _ => false

mutual
def val : Val → Bool
  | .dict items => pairs items
  | .list elems => elems' elems
  | .sc s => scalar s
def pairs : List (BL × Val) → Bool
  | [] => true
  | (k, v) :: t => isName k && !(t.any (fun p => p.1 == k)) && val v && pairs t
def elems' : List Val → Bool
  | [] => true
  | v :: t => val v && elems' t
end

end EngineWF

/-- property names over `[A-Za-z0-9_]` occurring once per dictionary, strings of Unicode scalar values, decimals with 1 to
8 places in normal form: the domain of `C18.parse_write` -/
def TreeWF (t : Tree) : Prop := EngineWF.pairs t = true
instance (t : Tree) : Decidable (TreeWF t) := inferInstanceAs (Decidable (_ = true))

/-! ## `EngineData2` as the payload of `Txt2` -/

namespace EngineData2

/-- `Dict.read(fp) = cls.frombytes(fp.read())`: the parser runs on everything that is left -/
def dec : R Tree := fun d p =>
  match EngineData.parse (d.drop p) with
  | .ok t => .ok (t, max p d.length)
  | .error e => .error e

/-- `str.encode("utf-16-be")` of a string with a lone surrogate raises `UnicodeEncodeError`, not `struct.error`: such trees
are outside the values the harness sends (C18 owns the encoding of engine-data strings) -/
def Fits (t : Tree) : Prop := EngineData.encodablePairs t = true
instance (t : Tree) : Decidable (Fits t) := inferInstanceAs (Decidable (_ = true))

/-- the count `Dict.write` returns is the sum of the counts of its pieces; the piecewise accumulation is not modelled -/
def codec : PCodec Tree where
  encT := EngineData.writeT .compact
  Fits := Fits
  decFits := inferInstance
  encP t := wBytes (EngineData.writeT .compact t)
  dec := dec
  consumed t := (EngineData.writeT .compact t).length
  WF := TreeWF
  decWF := inferInstance

end EngineData2

/-! ## the engine data of `TypeToolObjectSetting` -/

/-- `b"EngineData"` (regenerated from the `if` test of `TypeToolObjectSetting.read`) -/
def engineKey : B := Generated.TypedDoc.engineDataKey

/-- `text_data[b"EngineData"]` (the dict is keyed by the bytes of the key) -/
def slotOf : Descriptor.Items → Option Descriptor.DVal
  | [] => none
  | (k, v) :: r => if k.bytes = engineKey then some v else slotOf r

/-- `text_data[b"EngineData"].value = b` for a raw item (`RawData`, `Alias`, `Path`) -/
def setSlot (b : B) : Descriptor.Items → Descriptor.Items
  | [] => []
  | (k, v) :: r =>
    if k.bytes = engineKey then
      (k, match v with
          | .raw t _ => .raw t b
          | v => v) :: r
    else (k, v) :: setSlot b r

/-- the object `TypeToolObjectSetting.read` leaves -/
structure TypeToolTyped where
  /-- every attribute; when `engine` is a tree, the raw item under `b"EngineData"` holds `[]` (its value is the tree) -/
  base : TypeToolObjectSetting
  /-- `text_data[b"EngineData"].value` when it is an `EngineData` object -/
  engine : Option Tree
  deriving Repr

namespace TypeToolTyped
variable (tb : Descriptor.Tables)

def withItems (x : TypeToolObjectSetting) (items : Descriptor.Items) : TypeToolObjectSetting :=
  { x with textData := { x.textData with items := items } }

/-- the bytes view: the raw item holds what `RawData.write` emits for it (`Dict.write(f)`: the indented layout) -/
def flat (x : TypeToolTyped) : TypeToolObjectSetting :=
  match x.engine with
  | none => x.base
  | some t => withItems x.base (setSlot (EngineData.writeT .indented t) x.base.textData.items)

/-- the engine-data step of `TypeToolObjectSetting.read`; it never raises (`except Exception`) -/
def engineStep (x : TypeToolObjectSetting) : TypeToolTyped :=
  match slotOf x.textData.items with
  | some (.raw _ b) =>
    (match EngineData.parse b with
     | .ok t => ⟨withItems x (setSlot [] x.textData.items), some t⟩
     | .error _ => ⟨x, none⟩)
  | _ => ⟨x, none⟩

def dec : R TypeToolTyped := fun d p =>
  match TypeToolObjectSetting.dec tb d p with
  | .ok (x, q) => .ok (engineStep x, q)
  | .error e => .error e

def engineFits : Option Tree → Prop
  | none => True
  | some t => EngineData.encodablePairs t = true
instance (o : Option Tree) : Decidable (engineFits o) := by
  cases o <;> simp only [engineFits] <;> exact inferInstance

def Fits (x : TypeToolTyped) : Prop := TypeToolObjectSetting.Fits tb (flat x) ∧ engineFits x.engine
instance (x : TypeToolTyped) : Decidable (Fits tb x) := by unfold Fits; exact inferInstance

/-- the engine data slot and the `engine` attribute agree -/
def slotWF (x : TypeToolTyped) : Prop :=
  match x.engine with
  | some t =>
      (match slotOf x.base.textData.items with
       | some (.raw _ b) => b = []          -- representation: the value of the raw item is the tree
       | _ => False)                        -- (iii) an `EngineData` object is the value of a raw item under that key
      ∧ TreeWF t                            -- the domain of C18's round trip
  | none =>
      (match slotOf x.base.textData.items with
       | some (.raw _ b) => (EngineData.parse b).toBool = false
           -- (iii) bytes under the engine-data key that parse are read as an `EngineData` object: the key decides
       | _ => True)
instance (x : TypeToolTyped) : Decidable (slotWF x) := by
  unfold slotWF
  cases x.engine with
  | none =>
    simp only
    split <;> exact inferInstance
  | some t =>
    simp only
    have : Decidable (match slotOf x.base.textData.items with
       | some (.raw _ b) => b = []
       | _ => False) := by split <;> exact inferInstance
    exact inferInstance

def codec (pad : Nat) : PCodec TypeToolTyped where
  encT x := TypeToolObjectSetting.encT tb pad (flat x)
  Fits := Fits tb
  decFits := inferInstance
  encP x := TypeToolObjectSetting.encP tb pad (flat x)
  dec := dec tb
  consumed x := (TypeToolObjectSetting.bodyT tb (flat x)).length
  WF x := (TypeToolObjectSetting.codec tb pad).WF (flat x) ∧ slotWF x
  decWF x := by
    have := (TypeToolObjectSetting.codec tb pad).decWF (flat x)
    exact inferInstance

end TypeToolTyped

end PsdVerif.Typed
