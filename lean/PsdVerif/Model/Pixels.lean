/-
C07 — imported pixels come back unchanged: the BOOKKEEPING of bands and planes.

What is modelled (api/psd_image.py `frompil`, `_make_header`, `pil_mode`,
`has_preview`; api/layers.py `PixelLayer.frompil`; api/pil_io.py
`convert_image_data_to_pil`, `convert_layer_to_pil`, `post_process`,
`_merge_channels`, `_check_channels`, `_remove_white_background`,
`get_color_mode`, `get_pil_mode`, `get_pil_channels`; api/numpy_io.py
`get_image_data`, `get_layer_data`, `has_transparency`,
`get_transparency_index`, `_remove_background`):

* which source band ends up in which stored plane / channel, in which order,
  with which inversion parity, and whether the alpha survives;
* the decision logic of the export paths, as *routes*: every exported band is
  described by the stored plane it is read from, whether it is inverted and
  which plane (if any) is used to remove the white background.

What is a parameter: the sample values (`α` for 8-bit PIL samples, `σ` for a
sample as stored at the document depth, any `β` for what an export produces),
PIL's `convert`, `ImageChops.invert` on a sample (`inv`, an involution), the
removal of the white matte on a sample (`unmatte`), the depth encoding
(`store`/`load`). Storage is the identity on planes (compression is C04's).

Core Lean only.
-/
import PsdVerif.Model.Basic

namespace PsdVerif.Pixels
open PsdVerif

/-! ### modes and tables -/

/-- PIL modes of the images the property quantifies over. -/
inductive Mode where
  | one | L | LA | RGB | RGBA | CMYK
  deriving DecidableEq, Repr, Inhabited

/-- Document colour modes (`constants.ColorMode`) that the model covers. -/
inductive CMode where
  | bitmap | gray | rgb | cmyk
  deriving DecidableEq, Repr, Inhabited

def Mode.name : Mode → String
  | .one => "1" | .L => "L" | .LA => "LA" | .RGB => "RGB" | .RGBA => "RGBA" | .CMYK => "CMYK"

def CMode.name : CMode → String
  | .bitmap => "BITMAP" | .gray => "GRAYSCALE" | .rgb => "RGB" | .cmyk => "CMYK"

def Mode.all : List Mode := [.one, .L, .LA, .RGB, .RGBA, .CMYK]
def CMode.all : List CMode := [.bitmap, .gray, .rgb, .cmyk]

def Mode.nbands : Mode → Nat
  | .one => 1 | .L => 1 | .LA => 2 | .RGB => 3 | .RGBA => 4 | .CMYK => 4

/-- `mode.upper().endswith("A")`; also `Image.has_transparency_data` for these six modes. -/
def Mode.hasAlpha : Mode → Bool
  | .LA | .RGBA => true
  | _ => false

/-- `mode.rstrip("A")` -/
def Mode.base : Mode → Mode
  | .LA => .L | .RGBA => .RGB | m => m

/-- `pil_io.get_color_mode` -/
def Mode.cmode : Mode → CMode
  | .one => .bitmap | .L | .LA => .gray | .RGB | .RGBA => .rgb | .CMYK => .cmyk

/-- `ColorMode.channels(mode)` (constants.py) without the alpha term. -/
def CMode.channels : CMode → Nat
  | .bitmap => 1 | .gray => 1 | .rgb => 3 | .cmyk => 4

/-- `numpy_io.EXPECTED_CHANNELS` -/
def CMode.expected : CMode → Nat
  | .bitmap => 1 | .gray => 1 | .rgb => 3 | .cmyk => 4

/-- `pil_io.get_pil_mode(color_mode, alpha)`: "A" is appended for L and RGB only. -/
def CMode.pilMode (c : CMode) (alpha : Bool) : Mode :=
  match c, alpha with
  | .bitmap, _ => .one
  | .gray, false => .L | .gray, true => .LA
  | .rgb, false => .RGB | .rgb, true => .RGBA
  | .cmyk, _ => .CMYK

/-- `pil_io.get_pil_channels`: a table with default 3 (so "LA" and "RGBA" give 3). -/
def Mode.pilChannels : Mode → Nat
  | .one => 1 | .L => 1 | .RGB => 3 | .CMYK => 4 | .LA => 3 | .RGBA => 3

structure Header where
  cmode : CMode
  channels : Nat
  depth : Nat
  width : Nat
  height : Nat
  deriving DecidableEq, Repr, Inhabited

/-- `PSDImage._make_header(mode, size, depth)` (the size/depth assertions are not modelled). -/
def makeHeader (m : Mode) (w h depth : Nat) : Header :=
  { cmode := m.cmode, channels := m.cmode.channels + (if m.hasAlpha then 1 else 0),
    depth := depth, width := w, height := h }

/-- `PSDImage.pil_mode` -/
def Header.pilMode (h : Header) : Mode :=
  h.cmode.pilMode (decide (h.channels > (h.cmode.pilMode false).pilChannels))

/-- What the export decisions look at besides the header. -/
structure Meta where
  header : Header
  /-- one of the SAVING_MERGED_TRANSPARENCY* tagged blocks is present -/
  mergedTransparency : Bool := false
  /-- `ALPHA_IDENTIFIERS` resource; `[]` when absent or empty (both falsy) -/
  alphaIds : List Nat := []
  /-- `layer_info.layer_count` (0 when there is no layer info) -/
  layerCount : Nat := 0
  /-- `VERSION_INFO.has_composite` when the resource exists -/
  versionInfo : Option Bool := some true
  deriving DecidableEq, Repr, Inhabited

/-- `PSDImage.has_preview` -/
def Meta.hasPreview (m : Meta) : Bool :=
  match m.versionInfo with
  | some b => b
  | none => true

/-- `numpy_io.has_transparency` -/
def Meta.hasTransparency (m : Meta) : Bool :=
  if m.mergedTransparency then true
  else if m.header.channels > m.header.cmode.expected then
    if !m.alphaIds.isEmpty && m.alphaIds.all (fun x => decide (x > 0)) then false
    else if m.layerCount > 0 then false
    else true
  else false

/-- position of the first 0 in the alpha identifiers (`alpha_ids.index(0)`) -/
def firstZero : List Nat → Option Nat
  | [] => none
  | x :: xs => if x = 0 then some 0 else (firstZero xs).map (· + 1)

/-- `numpy_io.get_transparency_index`: a Python index, −1 = the last channel. -/
def Meta.transparencyIndex (m : Meta) : Int :=
  match firstZero m.alphaIds with
  | some off => (m.header.channels : Int) - m.alphaIds.length + off
  | none => -1

/-- Python list indexing `l[i]` on a list of length `n`: the position, or `none` (IndexError). -/
def pyIndex (n : Nat) (i : Int) : Option Nat :=
  if 0 ≤ i then (if i.toNat < n then some i.toNat else none)
  else if i.natAbs ≤ n then some (n - i.natAbs) else none

/-! ### images and the parameters -/

structure Image (α : Type) where
  mode : Mode
  width : Nat
  height : Nat
  /-- planes in PIL band order, `width * height` samples each -/
  bands : List (List α)
  deriving Repr, DecidableEq

def Image.WF {α : Type} (i : Image α) : Prop :=
  i.bands.length = i.mode.nbands ∧ ∀ b ∈ i.bands, b.length = i.width * i.height

/-- Sample-level operations. `α`: an 8-bit PIL sample, `σ`: a sample as stored at a depth. -/
instance {α : Type} (i : Image α) : Decidable i.WF := by unfold Image.WF; infer_instance

structure Px (α σ : Type) where
  /-- `ImageChops.invert` -/
  inv : α → α
  /-- 255 -/
  full : α
  /-- `_remove_white_background` on one colour sample and its alpha sample -/
  unmatte : α → α → α
  /-- an 8-bit sample as stored at the given depth -/
  store : Nat → α → σ
  /-- `pil_io._create_image` for the given depth, back to 8 bits -/
  load : Nat → σ → α

structure Px.Lawful {α σ : Type} (P : Px α σ) : Prop where
  inv_inv : ∀ x, P.inv (P.inv x) = x
  load_store : ∀ d x, P.load d (P.store d x) = x

/-- The laws at ONE depth: what the round trip of a document of that depth needs (a concrete
arithmetic has them at the depths the pipeline handles, 8, 16 and 32, not at every natural). -/
structure Px.LawfulAt {α σ : Type} (P : Px α σ) (d : Nat) : Prop where
  inv_inv : ∀ x, P.inv (P.inv x) = x
  load_store : ∀ x, P.load d (P.store d x) = x

/-- PIL's `Image.convert`. -/
structure Pil (α : Type) where
  conv : Mode → Image α → Image α

structure Pil.Lawful {α : Type} (C : Pil α) : Prop where
  conv_mode : ∀ m i, (C.conv m i).mode = m
  conv_width : ∀ m i, (C.conv m i).width = i.width
  conv_height : ∀ m i, (C.conv m i).height = i.height
  conv_wf : ∀ m i, i.WF → (C.conv m i).WF
  /-- converting to the mode an image already has copies it -/
  conv_self : ∀ i, i.WF → C.conv i.mode i = i
  /-- `im.convert("RGBA").getchannel("A")` is the alpha band of an LA / RGBA image -/
  conv_rgba_alpha : ∀ i, i.WF → i.mode.hasAlpha = true → (C.conv .RGBA i).bands[3]? = i.bands.getLast?

def Image.invert {α σ : Type} (P : Px α σ) (i : Image α) : Image α :=
  { i with bands := i.bands.map (·.map P.inv) }

/-- `traverse` in `Except` with plain pattern matching (simp-friendly). -/
def traverse {α β : Type} (f : α → Except Err β) : List α → Except Err (List β)
  | [] => .ok []
  | a :: as =>
    match f a with
    | .error e => .error e
    | .ok b =>
      match traverse f as with
      | .error e => .error e
      | .ok bs => .ok (b :: bs)

/-- `Image.getchannel(k)` -/
def getBand {α : Type} (i : Image α) (k : Nat) : Except Err (List α) :=
  match i.bands[k]? with
  | some b => .ok b
  | none => .error .valueError

/-! ### import -/

/-- `PSDImage.frompil` (mode "1" → "L"; header from the mode, depth 8; CMYK inverted;
one plane per band). A freshly created document has a `VERSION_INFO` with
`has_composite = True`, no layers, no tagged blocks, no alpha identifiers. -/
def docImport {α σ : Type} (C : Pil α) (P : Px α σ) (img : Image α) : Meta × List (List σ) :=
  let img := if img.mode = .one then C.conv .L img else img
  let hdr := makeHeader img.mode img.width img.height 8
  let img := if img.mode = .CMYK then img.invert P else img
  ({ header := hdr }, img.bands.map (·.map (P.store 8)))

/-- A layer record with its channel data: `(channel id, plane)` in `channel_info` order. -/
structure LayerRec (σ : Type) where
  top : Int
  left : Int
  bottom : Int
  right : Int
  channels : List (Int × List σ)
  deriving Repr

/-- The part of `PixelLayer.frompil` after the conversion to the document's mode: CMYK
inversion; transparency channel (id −1) first — the source alpha, or opaque — then the colour
channels 0 … n−1; every plane at the document depth. -/
def layerOfConverted {α σ : Type} (P : Px α σ) (alpha : Option (List α)) (img : Image α)
    (depth : Nat) (top left : Int) : Except Err (LayerRec σ) :=
  let img := if img.mode = .CMYK then img.invert P else img
  let a := match alpha with
    | some a => a
    | none => List.replicate (img.width * img.height) P.full
  match traverse (fun k => (getBand img k).map fun b => ((k : Int), b.map (P.store depth)))
      (List.range img.mode.base.pilChannels) with
  | .error e => .error e
  | .ok colour =>
    .ok { top := top, left := left, bottom := top + img.height, right := left + img.width,
          channels := ((-1 : Int), a.map (P.store depth)) :: colour }

/-- `PixelLayer.frompil(pil_im, psd_file, name, top, left, compression)`:
"1" → "L"; the source alpha is taken before the conversion
(`pil_im.convert("RGBA").getchannel("A")` when `has_transparency_data`); conversion to the
document's `pil_mode`; then `layerOfConverted`. -/
def layerImport {α σ : Type} (C : Pil α) (P : Px α σ) (img : Image α) (hdr : Header)
    (top left : Int) : Except Err (LayerRec σ) :=
  let img := if img.mode = .one then C.conv .L img else img
  match (if img.mode.hasAlpha then (getBand (C.conv .RGBA img) 3).map some else .ok none) with
  | .error e => .error e
  | .ok alpha => layerOfConverted P alpha (C.conv hdr.pilMode img) hdr.depth top left

/-! ### export: routes -/

/-- Where an exported band comes from. -/
structure Route where
  /-- index of the stored plane (document) / of the channel (layer) -/
  plane : Nat
  /-- inverted on the way out -/
  inverted : Bool := false
  /-- the white background is removed using this plane as the alpha -/
  unmatteBy : Option Nat := none
  deriving DecidableEq, Repr, Inhabited

/-- How samples are produced by an export path. -/
structure View (σ β : Type) where
  load : σ → β
  inv : β → β
  unmatte : β → β → β

def Px.view {α σ : Type} (P : Px α σ) (depth : Nat) : View σ α :=
  { load := P.load depth, inv := P.inv, unmatte := P.unmatte }

def Route.apply {σ β : Type} (V : View σ β) (planes : List (List σ)) (r : Route) :
    Except Err (List β) :=
  match planes[r.plane]? with
  | none => .error .indexError
  | some p =>
    let p := p.map V.load
    let p := if r.inverted then p.map V.inv else p
    match r.unmatteBy with
    | none => .ok p
    | some a =>
      match planes[a]? with
      | none => .error .indexError
      | some ap => .ok (List.zipWith V.unmatte p (ap.map V.load))

/-- `convert_image_data_to_pil(psd, None, …)` behind `topil()`'s `has_preview` gate,
ICC aside: the PIL mode and one route per band; `none` when there is no preview. -/
def pilDocRoutes (m : Meta) : Except Err (Option (Mode × List Route)) :=
  if !m.hasPreview then .ok none else
  let nch := m.header.channels
  -- alpha = channels[get_transparency_index(psd)] when has_transparency(psd)
  match (if m.hasTransparency then
           (match pyIndex nch m.transparencyIndex with
            | some a => Except.ok (some a)
            | none => Except.error Err.indexError)
         else Except.ok none) with
  | .error e => .error e
  | .ok alpha =>
    let mode := m.header.cmode.pilMode false
    let n := mode.pilChannels
    -- Image.merge(mode, channels[:n]) needs exactly the bands of the mode
    if min n nch ≠ mode.nbands then .error .valueError else
    let colour := (List.range n).map fun k => ({ plane := k, inverted := mode == Mode.CMYK } : Route)
    match alpha, mode with
    | some a, .L => .ok (some (Mode.LA, colour ++ [({ plane := a } : Route)]))
    | some a, .RGB =>
      -- putalpha, then _remove_white_background on the RGBA result
      .ok (some (Mode.RGBA, colour.map (fun r => ({ r with unmatteBy := some a } : Route)) ++ [({ plane := a } : Route)]))
    | _, _ => .ok (some (mode, colour))

/-- `get_image_data(psd, None)` behind `numpy()`: every plane in order; for RGB with more than
three channels whose extra channel is the transparency, the white background is removed from
the first three. (`_remove_background` reduces the index modulo the channel count.) -/
def numpyDocRoutes (m : Meta) : List Route :=
  let nch := m.header.channels
  if m.header.cmode = .rgb ∧ nch > 3 ∧ m.hasTransparency = true then
    let a := (m.transparencyIndex % (nch : Int)).toNat
    (List.range nch).map fun k =>
      if k < 3 then ({ plane := k, unmatteBy := some a } : Route) else { plane := k }
  else (List.range nch).map fun k => ({ plane := k } : Route)

/-- position of the last channel with the given id (`{info.id: i for i, info in enumerate(…)}`) -/
def lastIndexOf (ids : List Int) (c : Int) : Option Nat :=
  let rec go : List Int → Nat → Option Nat → Option Nat
    | [], _, acc => acc
    | x :: xs, i, acc => go xs (i + 1) (if x = c then some i else acc)
  go ids 0 none

/-- `convert_layer_to_pil(layer, None, …)` for a layer with non-empty planes, ICC aside. -/
def pilLayerRoutes (hdr : Header) (ids : List Int) : Except Err (Mode × List Route) :=
  let mode := hdr.cmode.pilMode false
  -- _merge_channels: the channels with id >= 0 in channel_info order, looked up by id
  match traverse (fun c => match lastIndexOf ids c with
                           | some i => Except.ok i
                           | none => Except.error Err.keyError) (ids.filter (fun c => decide (c ≥ 0))) with
  | .error e => .error e
  | .ok idx =>
    -- _check_channels: truncate to ColorMode.channels, ValueError when fewer
    let expected := hdr.cmode.channels
    if idx.length < expected then .error .valueError else
    let idx := idx.take expected
    -- Image.merge(mode, channels)
    if idx.length ≠ mode.nbands then .error .valueError else
    let colour := idx.map fun i => ({ plane := i, inverted := mode == Mode.CMYK } : Route)
    match lastIndexOf ids (-1), mode with
    | some a, .L => .ok (Mode.LA, colour ++ [({ plane := a } : Route)])
    | some a, .RGB => .ok (Mode.RGBA, colour ++ [({ plane := a } : Route)])
    | _, _ => .ok (mode, colour)

/-- `layer.topil(ChannelID.TRANSPARENCY_MASK)` -/
def pilLayerAlphaRoute (ids : List Int) : Option Route :=
  (lastIndexOf ids (-1)).map fun a => ({ plane := a } : Route)

def indicesWhere (p : Int → Bool) : List Int → Nat → List Nat
  | [], _ => []
  | x :: xs, i => if p x then i :: indicesWhere p xs (i + 1) else indicesWhere p xs (i + 1)

/-- `get_layer_data(layer, None)`: the channels with id >= 0 in order (truncated to
EXPECTED_CHANNELS), then the channels with id −1. -/
def numpyLayerRoutes (hdr : Header) (ids : List Int) : List Route :=
  let colour := (indicesWhere (fun c => decide (c ≥ 0)) ids 0).take hdr.cmode.expected
  let shape := indicesWhere (fun c => decide (c = -1)) ids 0
  (colour ++ shape).map fun i => ({ plane := i } : Route)

/-! ### export: samples -/

def applyRoutes {σ β : Type} (V : View σ β) (planes : List (List σ)) (rs : List Route) :
    Except Err (List (List β)) :=
  traverse (Route.apply V planes) rs

/-- `PSDImage.topil()` of a document with the given planes. -/
def exportDocPil {α σ : Type} (P : Px α σ) (m : Meta) (planes : List (List σ)) :
    Except Err (Option (Image α)) :=
  match pilDocRoutes m with
  | .error e => .error e
  | .ok none => .ok none
  | .ok (some (mode, rs)) =>
    match applyRoutes (P.view m.header.depth) planes rs with
    | .error e => .error e
    | .ok bands => .ok (some { mode := mode, width := m.header.width, height := m.header.height, bands := bands })

/-- `PSDImage.numpy()`: the channel planes in order (the array is channel-last). -/
def exportDocNumpy {σ β : Type} (V : View σ β) (m : Meta) (planes : List (List σ)) :
    Except Err (List (List β)) :=
  applyRoutes V planes (numpyDocRoutes m)

/-- `layer.topil()` -/
def exportLayerPil {α σ : Type} (P : Px α σ) (hdr : Header) (l : LayerRec σ) :
    Except Err (Image α) :=
  match pilLayerRoutes hdr (l.channels.map (·.1)) with
  | .error e => .error e
  | .ok (mode, rs) =>
    match applyRoutes (P.view hdr.depth) (l.channels.map (·.2)) rs with
    | .error e => .error e
    | .ok bands => .ok { mode := mode, width := (l.right - l.left).toNat,
                         height := (l.bottom - l.top).toNat, bands := bands }

/-- `layer.topil(ChannelID.TRANSPARENCY_MASK)` -/
def exportLayerAlpha {α σ : Type} (P : Px α σ) (hdr : Header) (l : LayerRec σ) :
    Except Err (Option (List α)) :=
  match pilLayerAlphaRoute (l.channels.map (·.1)) with
  | none => .ok none
  | some r => (Route.apply (P.view hdr.depth) (l.channels.map (·.2)) r).map some

/-- `layer.numpy()` -/
def exportLayerNumpy {σ β : Type} (V : View σ β) (hdr : Header) (l : LayerRec σ) :
    Except Err (List (List β)) :=
  applyRoutes V (l.channels.map (·.2)) (numpyLayerRoutes hdr (l.channels.map (·.1)))

/-! ### what the property expects (used in the statements of Props/C07) -/

/-- the documented normalisation of the source: bitmap images become grayscale -/
def normalise {α : Type} (C : Pil α) (img : Image α) : Image α :=
  if img.mode = .one then C.conv .L img else img

/-- the alpha band of a source image, if it has one -/
def srcAlpha {α : Type} (img : Image α) : Option (List α) :=
  if img.mode.hasAlpha then img.bands.getLast? else none

/-- PIL mode of a layer export: a layer always carries a transparency band where PIL has one -/
def layerPilMode : CMode → Mode
  | .gray => .LA | .rgb => .RGBA | .cmyk => .CMYK | .bitmap => .one

/-! ### the symbolic instance: provenance of every exported sample

Run on one-sample planes, the model itself computes the bookkeeping the
harness compares with the real pipeline: for every exported band, which band
of which image it is, with which inversion parity. -/

inductive Sym where
  /-- band `k` of the source image (after "1" → "L") -/
  | orig (k : Nat)
  /-- band `k` of the source converted to mode `m` -/
  | conv (m : Mode) (k : Nat)
  /-- 255 -/
  | opaque
  | inv (s : Sym)
  | unmatte (c a : Sym)
  /-- stored at depth `d` / loaded back -/
  | stored (d : Nat) (s : Sym)
  deriving DecidableEq, Repr, Inhabited

/-- inversion cancels syntactically, so parity is what is left -/
def Sym.mkInv : Sym → Sym
  | .inv s => s
  | s => .inv s

def symPx : Px Sym Sym :=
  { inv := Sym.mkInv, full := .opaque, unmatte := .unmatte,
    store := fun d s => .stored d s,
    load := fun d s => match s with
      | .stored d' s' => if d = d' then s' else .stored d s
      | s => .stored d s }

def symImage (m : Mode) : Image Sym :=
  { mode := m, width := 1, height := 1, bands := (List.range m.nbands).map fun k => [Sym.orig k] }

def symPil : Pil Sym :=
  { conv := fun m i =>
      if m = i.mode then i else
      { mode := m, width := i.width, height := i.height,
        bands := (List.range m.nbands).map fun k =>
          -- the alpha band survives a conversion between modes with alpha
          if m.hasAlpha && i.mode.hasAlpha && k + 1 == m.nbands then
            (i.bands.getLast?).getD []
          else [Sym.conv m k] } }

end PsdVerif.Pixels
