/-
C02 on the payload layer — descriptors. The one thing the descriptor reader could return that the writer does not reproduce
was a KEY CUT SHORT by the end of the stream: `read_length_and_key` read the key with a lenient `fp.read(length or 4)`; a key
whose length field is 0 (a known term or an implicit key) and of which fewer than 4 bytes were left, or an explicit key of
which no byte was left, came back shorter than what the writer's layout needs (finding
C02/payload/DescriptorBlock/reread-differs/descriptor-key-cut-short, repaired by repo commit bb0349d: `IOError`).
`KeyFull` says that a key has the bytes its length field announced: every key the reader returns now is.

Core Lean only.
-/
import PsdVerif.Model.Descriptor

namespace PsdVerif.Descriptor
open PsdVerif PsdVerif.Codec

/-- the key has the bytes its length field announced: 4 for a length field of 0, at least one otherwise -/
def KeyFull (k : Key) : Prop := if k.implicit then k.bytes.length = 4 else k.bytes.length ≠ 0
instance (k : Key) : Decidable (KeyFull k) := by unfold KeyFull; exact inferInstance

/-- every known term has 4 bytes (`_TERMS` is built from the 4-byte terminology values): the writer stores a term with the
length field 0, the reader takes 4 bytes for it -/
def TermsFour (tb : Tables) : Prop := ∀ b, tb.terms b = true → b.length = 4

end PsdVerif.Descriptor
