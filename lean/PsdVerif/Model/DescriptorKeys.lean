/-
C02 on the payload layer — descriptors: the one thing the descriptor reader can return that the writer does not
reproduce is a KEY CUT SHORT by the end of the stream. `read_length_and_key` reads the key with a lenient
`fp.read(length or 4)`; a key whose length field is 0 (a known term or an implicit key) and of which fewer than 4 bytes
are left, or an explicit key of which no byte is left, comes back shorter than what the writer's layout needs.
`KeyFull` says that a key was read in full, `KeysFull` that every key of a value was.

Core Lean only.
-/
import PsdVerif.Model.Descriptor

namespace PsdVerif.Descriptor
open PsdVerif PsdVerif.Codec

/-- the key has the bytes its length field announced: 4 for a length field of 0, at least one otherwise -/
def KeyFull (k : Key) : Prop := if k.implicit then k.bytes.length = 4 else k.bytes.length ≠ 0
instance (k : Key) : Decidable (KeyFull k) := by unfold KeyFull; exact inferInstance

mutual
def KeysFull : DVal → Prop
  | .enumerated ty en => KeyFull ty ∧ KeyFull en
  | .enumRef _ cid ty en => KeyFull cid ∧ KeyFull ty ∧ KeyFull en
  | .klass _ _ cid => KeyFull cid
  | .property _ cid kid => KeyFull cid ∧ KeyFull kid
  | .name _ cid _ => KeyFull cid
  | .offset _ cid _ => KeyFull cid
  | .list _ items => KeysFullList items
  | .desc _ _ cid items => KeyFull cid ∧ KeysFullItems items
  | .objArray _ _ cid items => KeyFull cid ∧ KeysFullItems items
  | .int _ _ => True
  | .large _ => True
  | .bool _ => True
  | .double _ => True
  | .unitFloat _ _ => True
  | .unitFloats _ _ => True
  | .string _ => True
  | .raw _ _ => True
def KeysFullList : List DVal → Prop
  | [] => True
  | v :: vs => KeysFull v ∧ KeysFullList vs
def KeysFullItems : Items → Prop
  | [] => True
  | (k, v) :: r => KeyFull k ∧ KeysFull v ∧ KeysFullItems r
end

mutual
def KeysFull.dec : (v : DVal) → Decidable (KeysFull v)
  | .enumerated _ _ => by unfold KeysFull; exact inferInstance
  | .enumRef _ _ _ _ => by unfold KeysFull; exact inferInstance
  | .klass _ _ _ => by unfold KeysFull; exact inferInstance
  | .property _ _ _ => by unfold KeysFull; exact inferInstance
  | .name _ _ _ => by unfold KeysFull; exact inferInstance
  | .offset _ _ _ => by unfold KeysFull; exact inferInstance
  | .list _ items => by unfold KeysFull; exact KeysFullList.dec items
  | .desc _ _ _ items => by unfold KeysFull; exact @instDecidableAnd _ _ inferInstance (KeysFullItems.dec items)
  | .objArray _ _ _ items => by unfold KeysFull; exact @instDecidableAnd _ _ inferInstance (KeysFullItems.dec items)
  | .int _ _ => by unfold KeysFull; exact inferInstance
  | .large _ => by unfold KeysFull; exact inferInstance
  | .bool _ => by unfold KeysFull; exact inferInstance
  | .double _ => by unfold KeysFull; exact inferInstance
  | .unitFloat _ _ => by unfold KeysFull; exact inferInstance
  | .unitFloats _ _ => by unfold KeysFull; exact inferInstance
  | .string _ => by unfold KeysFull; exact inferInstance
  | .raw _ _ => by unfold KeysFull; exact inferInstance
def KeysFullList.dec : (vs : List DVal) → Decidable (KeysFullList vs)
  | [] => by unfold KeysFullList; exact inferInstance
  | v :: vs => by unfold KeysFullList; exact @instDecidableAnd _ _ (KeysFull.dec v) (KeysFullList.dec vs)
def KeysFullItems.dec : (r : Items) → Decidable (KeysFullItems r)
  | [] => by unfold KeysFullItems; exact inferInstance
  | (_, v) :: r => by
    unfold KeysFullItems
    exact @instDecidableAnd _ _ inferInstance (@instDecidableAnd _ _ (KeysFull.dec v) (KeysFullItems.dec r))
end

instance : Decidable (KeysFull v) := KeysFull.dec v
instance : Decidable (KeysFullItems r) := KeysFullItems.dec r

def Block.KeysFull (b : Block) : Prop := KeyFull b.classID ∧ KeysFullItems b.items
instance (b : Block) : Decidable b.KeysFull := by unfold Block.KeysFull; exact inferInstance

def Block2.KeysFull (b : Block2) : Prop := KeyFull b.classID ∧ KeysFullItems b.items
instance (b : Block2) : Decidable b.KeysFull := by unfold Block2.KeysFull; exact inferInstance

/-- every known term has 4 bytes (`_TERMS` is built from the 4-byte terminology values): the writer stores a term with the
length field 0, the reader takes 4 bytes for it -/
def TermsFour (tb : Tables) : Prop := ∀ b, tb.terms b = true → b.length = 4

end PsdVerif.Descriptor
