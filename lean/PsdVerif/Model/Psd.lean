/-
C01/C02/C03/C06 — the file skeleton of psd-tools (`psd_tools/psd/{__init__,header,
color_mode_data,image_resources,layer_and_mask,tagged_blocks,image_data}.py`) as typed
structures, with for each of them

  `encT`  the bytes `write()` emits (total function),
  `Fits`  every `struct.pack` in `write()` accepts its argument (else `struct.error`),
  `encP`  the transcription of `write()` *with* its `written` accumulator (bytes, count),
  `dec`   the reader the code has, as a cursor machine (`Codec.R`),
  `WF`    the decidable well-formedness predicate of the round-trip theorems.

Payload classes (tagged-block data, image-resource data, channel/image pixel data)
are opaque bytes: the skeleton carries what the payload object writes.

Deviation from DESIGN §3: typed structures instead of the untyped `Val` universe.

Tags on `WF` clauses:  (i) attr validator/converter of the class · (ii) on-disk width ·
(iii) cross-field consistency prescribed by the format · (F) *forced by the proof and
NOT of kind (i)-(iii)*: each (F) clause is a finding candidate, run on the real code by
harness/props/C01.py and listed in findings.d/C01.json.

For whoever builds C02 / C06 on top of this reader (all readers are `Codec.R α = data → pos → Except Err (α × pos)`):
* primitives (Model/Codec.lean): `readN` (read_fmt: exact or IOError), `readUpTo` / `readAll` / `readPy` (`fp.read`:
  lenient; negative = to the end), `isReadable n d p` (looks at the whole stream), `readU/readI16/readI32`,
  `readPadding` (lenient), `readLenBlock skip w pad` (IOError on a short body), `readPascal pad` (AssertionError on a
  short body), `readCount`, `readFor`, `readWhile cond item` (fuel = remaining bytes + 1; `Err.other` is unreachable
  because every item consumes ≥ 1 byte or raises), `optItem`, `odict` (duplicate keys collapse like `OrderedDict`).
* `fp.seek(q)` is "return position `q`": `LayerInfo.dec` and `LayerAndMask.dec` return `endPos` whatever the body
  consumed (`assert fp.tell() <= end_pos` → `.assertionError` in `LayerInfo.dec` only); `GlobalLayerMaskInfo.dec`
  returns its *start* position for a block shorter than 13 bytes (the rewind); `TaggedBlock.dec` returns `none` with the
  cursor restored on a bad signature. A position may exceed `data.length` (BytesIO semantics: later reads see nothing),
  but not `sys.maxsize`: a declared size or end position of `2^63` and more (8-byte fields of a PSB) is `.overflowError`
  (`Codec.overflows`), as `fp.read` / `fp.seek` raise OverflowError.
* `with io.BytesIO(block)` is a nested run `reader block 0` whose final position is dropped (`resourcesDec`, `maskDec`,
  `BlendingRanges.dec`, `LayerRecord.dec` → `extraDec`, `GlobalLayerMaskInfo.dec`).
* the gates: `LayerAndMask.bodyDec` (`p + 4 ≤ endPos`: the section, not the stream, decides), `taggedCond endPos`
  (`isReadable 8 ∧ p < endPos`), `BlendingRanges.dec` (`isReadable 8`), `resourcesDec` (`isReadable 4`),
  `MaskData.bodyDec length` (`length ≥ 36`), `ChannelData.dec ciLength` (`readPy (ciLength - 2)`).
* validators/converters are `if … ∈ G.table then … else .error .valueError` at the place the constructor runs.
* laws: `Lemmas/Codec.lean` (`At d p bs`, `…_step` lemmas), `Lemmas/CodecPsd{1,2,3}.lean` (`X.dec_at` / `X.dec_step`).
  C02 (`Lemmas/Lenient*.lean`, `Props/C02.lean`) proves that everything `PSD.read` returns is `WF` up to one clause of
  `MaskData.WF` (a 35-byte mask block holding both feathers), after the reader repairs of this round.

Core Lean only.
-/
import PsdVerif.Model.Codec
import PsdVerif.Generated.Codec

namespace PsdVerif.Psd
open PsdVerif PsdVerif.Codec
namespace G
export PsdVerif.Generated.Codec (headerSignature headerVersions channelsMin channelsMax heightMin heightMax
  widthMin widthMax headerDepths colorModes resourceSignatures recordSignatures blendModes opacityMin opacityMax
  clippings channelIds compressions imageCompressions glmKinds glmDefaultOpacity glmDefaultKind blockSignatures bigKeys)
end G

/-- width of the section length fields: `("I", "Q")[version - 1]` (index −1 is `"Q"` too) -/
def secW (version : Nat) : Nat := if version = 1 then 4 else 8

/-! ## FileHeader  (`4sH6xHIIHH`) -/

structure Header where
  signature : B
  version : Nat
  channels : Nat
  height : Nat
  width : Nat
  depth : Nat
  colorMode : Nat
  deriving DecidableEq, Repr

def Header.encT (h : Header) : B :=
  pack4s h.signature ++ beBytes 2 h.version ++ zeros 6 ++ beBytes 2 h.channels ++
  beBytes 4 h.height ++ beBytes 4 h.width ++ beBytes 2 h.depth ++ beBytes 2 h.colorMode

def Header.Fits (h : Header) : Prop :=
  FitsU 2 h.version ∧ FitsU 2 h.channels ∧ FitsU 4 h.height ∧ FitsU 4 h.width ∧ FitsU 2 h.depth ∧ FitsU 2 h.colorMode

instance (h : Header) : Decidable h.Fits := by unfold Header.Fits; exact inferInstance

/-- `write_fmt(fp, _FORMAT, *attr.astuple(self))` -/
def Header.encP (h : Header) : W := wBytes h.encT

/-- (i) the attr validators of `FileHeader` (run by the constructor, hence by `read`) -/
def Header.Valid (h : Header) : Prop :=
  h.signature = G.headerSignature ∧ h.version ∈ G.headerVersions ∧
  (G.channelsMin ≤ h.channels ∧ h.channels ≤ G.channelsMax) ∧
  (G.heightMin ≤ h.height ∧ h.height ≤ G.heightMax) ∧
  (G.widthMin ≤ h.width ∧ h.width ≤ G.widthMax) ∧
  h.depth ∈ G.headerDepths ∧ h.colorMode ∈ G.colorModes

instance (h : Header) : Decidable h.Valid := by unfold Header.Valid; exact inferInstance

def Header.dec : R Header := fun d p => do
  let (sig, p) ← readN 4 d p
  let (version, p) ← readU 2 d p
  let (_, p) ← readN 6 d p
  let (channels, p) ← readU 2 d p
  let (height, p) ← readU 4 d p
  let (width, p) ← readU 4 d p
  let (depth, p) ← readU 2 d p
  let (colorMode, p) ← readU 2 d p
  let h : Header := ⟨sig, version, channels, height, width, depth, colorMode⟩
  if h.Valid then .ok (h, p) else .error .valueError

def Header.WF (h : Header) : Prop := h.Valid

/-! ## ColorModeData -/

def colorModeT (v : B) : B := lenBlockT 0 4 1 v
def colorModeP (v : B) : W := wLenBlock 0 4 1 (wBytes v)
def colorModeDec : R B := readLenBlock 0 4 1

/-! ## ImageResource / ImageResources -/

structure Resource where
  signature : B
  key : Nat
  name : B          -- the encoded pascal string (text encoding: C19)
  data : B          -- opaque payload: what `data.write(f, padding=1)` emits, or the raw bytes
  deriving DecidableEq, Repr

def Resource.encT (r : Resource) : B :=
  pack4s r.signature ++ beBytes 2 r.key ++ pascalT 2 r.name ++ lenBlockT 0 4 2 r.data

def Resource.Fits (r : Resource) : Prop :=
  FitsU 2 r.key ∧ r.name.length < 256 ∧ FitsU 4 r.data.length

instance (r : Resource) : Decidable r.Fits := by unfold Resource.Fits; exact inferInstance

def Resource.encP (r : Resource) : W :=
  let written := wBytes (pack4s r.signature ++ beBytes 2 r.key)      -- write_fmt(fp, "4sH", …)
  let written := written +> wPascal 2 r.name
  written +> wLenBlock 0 4 2 (wBytes r.data)

def Resource.dec : R Resource := fun d p => do
  let (sig, p) ← readN 4 d p
  let (key, p) ← readU 2 d p
  let (name, p) ← readPascal 2 d p
  let (data, p) ← readLenBlock 0 4 2 d p
  if sig ∈ G.resourceSignatures then .ok (⟨sig, key, name, data⟩, p) else .error .valueError

def Resource.WF (r : Resource) : Prop :=
  r.signature ∈ G.resourceSignatures        -- (i)
  ∧ r.Fits                                  -- (ii)

instance (r : Resource) : Decidable r.WF := by unfold Resource.WF; exact inferInstance

def resourcesBodyT (rs : List Resource) : B := listT Resource.encT rs
def resourcesT (rs : List Resource) : B := lenBlockT 0 4 1 (resourcesBodyT rs)
def resourcesP (rs : List Resource) : W := wLenBlock 0 4 1 (wList Resource.encP rs)

def resourcesFits (rs : List Resource) : Prop :=
  (∀ r ∈ rs, r.Fits) ∧ FitsU 4 (resourcesBodyT rs).length

instance (rs : List Resource) : Decidable (resourcesFits rs) := by unfold resourcesFits; exact inferInstance

/-- `ImageResources.read`: a length block, then `while is_readable(fp, 4)` inside a nested
`BytesIO`; the items go through `OrderedDict` (duplicate keys collapse). -/
def resourcesDec : R (List Resource) := fun d p => do
  let (data, p) ← readLenBlock 0 4 1 d p
  let (items, _) ← readWhile (isReadable 4) (optItem Resource.dec) data 0
  .ok (odict Resource.key items, p)

def resourcesWF (rs : List Resource) : Prop :=
  (∀ r ∈ rs, r.WF)
  ∧ (rs.map Resource.key).Nodup             -- the container is a dict
  ∧ FitsU 4 (resourcesBodyT rs).length      -- (ii)

instance (rs : List Resource) : Decidable (resourcesWF rs) := by unfold resourcesWF; exact inferInstance

/-! ## TaggedBlock / TaggedBlocks -/

structure TaggedBlock where
  signature : B
  key : B
  data : B          -- opaque payload: what `data.write(f, padding=inner, version=version)` emits
  deriving DecidableEq, Repr

/-- `_length_format(key, version)`: `("I","Q")[int(version == 2 and key in _BIG_KEYS)]` -/
def tbLenW (version : Nat) (key : B) : Nat := if version = 2 ∧ key ∈ G.bigKeys then 8 else 4

def TaggedBlock.encT (version pad : Nat) (t : TaggedBlock) : B :=
  pack4s t.signature ++ pack4s t.key ++ lenBlockT 0 (tbLenW version t.key) pad t.data

def TaggedBlock.Fits (version : Nat) (t : TaggedBlock) : Prop := FitsU (tbLenW version t.key) t.data.length

instance (version : Nat) (t : TaggedBlock) : Decidable (t.Fits version) := by
  unfold TaggedBlock.Fits; exact inferInstance

def TaggedBlock.encP (version pad : Nat) (t : TaggedBlock) : W :=
  let written := wBytes (pack4s t.signature ++ pack4s t.key)           -- write_fmt(fp, "4s4s", …)
  written +> wLenBlock 0 (tbLenW version t.key) pad (wBytes t.data)

/-- `TaggedBlock.read`: `None` (cursor restored) on an unknown signature -/
def TaggedBlock.dec (version pad : Nat) : R (Option TaggedBlock) := fun d p => do
  let (sig, p1) ← readN 4 d p
  if sig ∈ G.blockSignatures then
    let (key, p2) ← readN 4 d p1
    let (data, p3) ← readLenBlock 0 (tbLenW version key) pad d p2
    .ok (some ⟨sig, key, data⟩, p3)
  else .ok (none, p)                                                    -- fp.seek(-4, 1)

def TaggedBlock.WF (version : Nat) (t : TaggedBlock) : Prop :=
  t.signature ∈ G.blockSignatures           -- (i)
  ∧ t.key.length = 4                        -- (ii) `4s`
  ∧ t.Fits version                          -- (ii)

instance (version : Nat) (t : TaggedBlock) : Decidable (t.WF version) := by
  unfold TaggedBlock.WF; exact inferInstance

def taggedBlocksT (version pad : Nat) (ts : List TaggedBlock) : B := listT (TaggedBlock.encT version pad) ts
def taggedBlocksP (version pad : Nat) (ts : List TaggedBlock) : W := wList (TaggedBlock.encP version pad) ts

def taggedCond (endPos : Option Nat) (d : B) (p : Nat) : Bool :=
  isReadable 8 d p && (match endPos with | some e => decide (p < e) | none => true)

/-- `TaggedBlocks.read(fp, version, padding, end_pos)` -/
def taggedBlocksDec (version pad : Nat) (endPos : Option Nat) : R (List TaggedBlock) := fun d p => do
  let (items, p) ← readWhile (taggedCond endPos) (TaggedBlock.dec version pad) d p
  .ok (odict TaggedBlock.key items, p)

def taggedBlocksWF (version : Nat) (ts : List TaggedBlock) : Prop :=
  (∀ t ∈ ts, t.WF version) ∧ (ts.map TaggedBlock.key).Nodup      -- the container is a dict

instance (version : Nat) (ts : List TaggedBlock) : Decidable (taggedBlocksWF version ts) := by
  unfold taggedBlocksWF; exact inferInstance

/-! ## flags -/

structure Flags8 where
  b0 : Bool
  b1 : Bool
  b2 : Bool
  b3 : Bool
  b4 : Bool
  b5 : Bool
  b6 : Bool
  b7 : Bool
  deriving DecidableEq, Repr

def bit (b : Bool) (k : Nat) : Nat := if b then k else 0

/-- the `|` of distinct powers of two is their sum -/
def Flags8.toNat (f : Flags8) : Nat :=
  bit f.b0 1 + bit f.b1 2 + bit f.b2 4 + bit f.b3 8 + bit f.b4 16 + bit f.b5 32 + bit f.b6 64 + bit f.b7 128

def Flags8.ofNat (n : Nat) : Flags8 :=
  ⟨n % 2 = 1, n / 2 % 2 = 1, n / 4 % 2 = 1, n / 8 % 2 = 1, n / 16 % 2 = 1, n / 32 % 2 = 1, n / 64 % 2 = 1, n / 128 % 2 = 1⟩

/-- `MaskFlags`: pos_relative_to_layer, mask_disabled, invert_mask, user_mask_from_render,
parameters_applied, undocumented_1..3 — bit k = field k. -/
abbrev MaskFlags := Flags8
def MaskFlags.parametersApplied (f : MaskFlags) : Bool := f.b4

/-- `LayerFlags`: transparency_protected, visible, obsolete, photoshop_v5_later,
pixel_data_irrelevant, undocumented_1..3; bit 1 is stored as `not visible`. -/
structure LayerFlags where
  transparencyProtected : Bool
  visible : Bool
  obsolete : Bool
  photoshopV5Later : Bool
  pixelDataIrrelevant : Bool
  undocumented1 : Bool
  undocumented2 : Bool
  undocumented3 : Bool
  deriving DecidableEq, Repr

def LayerFlags.toNat (f : LayerFlags) : Nat :=
  (⟨f.transparencyProtected, !f.visible, f.obsolete, f.photoshopV5Later, f.pixelDataIrrelevant,
    f.undocumented1, f.undocumented2, f.undocumented3⟩ : Flags8).toNat

def LayerFlags.ofNat (n : Nat) : LayerFlags :=
  let g := Flags8.ofNat n
  ⟨g.b0, !g.b1, g.b2, g.b3, g.b4, g.b5, g.b6, g.b7⟩

/-! ## MaskParameters / MaskData -/

/-- densities are bytes; feathers are doubles, carried as their 64-bit pattern -/
structure MaskParameters where
  userMaskDensity : Option Nat
  userMaskFeather : Option Nat
  vectorMaskDensity : Option Nat
  vectorMaskFeather : Option Nat
  deriving DecidableEq, Repr

def optT (w : Nat) : Option Nat → B
  | none => []
  | some n => beBytes w n

def optFits (w : Nat) : Option Nat → Prop
  | none => True
  | some n => FitsU w n

instance (w : Nat) (o : Option Nat) : Decidable (optFits w o) := by
  cases o <;> simp only [optFits] <;> exact inferInstance

def MaskParameters.mask (m : MaskParameters) : Nat :=
  bit m.userMaskDensity.isSome 1 + bit m.userMaskFeather.isSome 2 +
  bit m.vectorMaskDensity.isSome 4 + bit m.vectorMaskFeather.isSome 8

def MaskParameters.encT (m : MaskParameters) : B :=
  beBytes 1 m.mask ++ optT 1 m.userMaskDensity ++ optT 8 m.userMaskFeather ++
  optT 1 m.vectorMaskDensity ++ optT 8 m.vectorMaskFeather

def MaskParameters.Fits (m : MaskParameters) : Prop :=
  optFits 1 m.userMaskDensity ∧ optFits 8 m.userMaskFeather ∧ optFits 1 m.vectorMaskDensity ∧ optFits 8 m.vectorMaskFeather

instance (m : MaskParameters) : Decidable m.Fits := by unfold MaskParameters.Fits; exact inferInstance

def MaskParameters.encP (m : MaskParameters) : W :=
  let written := wNil
  let written := written +> wBytes (beBytes 1 m.mask)
  let written := written +> wBytes (optT 1 m.userMaskDensity)
  let written := written +> wBytes (optT 8 m.userMaskFeather)
  let written := written +> wBytes (optT 1 m.vectorMaskDensity)
  written +> wBytes (optT 8 m.vectorMaskFeather)

def readOpt (c : Bool) (w : Nat) : R (Option Nat) := fun d p =>
  if c then
    match readU w d p with
    | .ok (n, p') => .ok (some n, p')
    | .error e => .error e
  else .ok (none, p)

def MaskParameters.dec : R MaskParameters := fun d p => do
  let (parameters, p) ← readU 1 d p
  let (a, p) ← readOpt (parameters % 2 = 1) 1 d p
  let (b, p) ← readOpt (parameters / 2 % 2 = 1) 8 d p
  let (c, p) ← readOpt (parameters / 4 % 2 = 1) 1 d p
  let (e, p) ← readOpt (parameters / 8 % 2 = 1) 8 d p
  .ok (⟨a, b, c, e⟩, p)

/-- the six `real_*` attributes (`real_flags` … `real_right`) travel together -/
structure MaskReal where
  flags : MaskFlags
  backgroundColor : Nat
  top : Int
  left : Int
  bottom : Int
  right : Int
  deriving DecidableEq, Repr

def MaskReal.encT (r : MaskReal) : B :=
  beBytes 1 r.flags.toNat ++ beBytes 1 r.backgroundColor ++ i32T r.top ++ i32T r.left ++ i32T r.bottom ++ i32T r.right

def MaskReal.Fits (r : MaskReal) : Prop :=
  FitsU 1 r.backgroundColor ∧ FitsI32 r.top ∧ FitsI32 r.left ∧ FitsI32 r.bottom ∧ FitsI32 r.right

instance (r : MaskReal) : Decidable r.Fits := by unfold MaskReal.Fits; exact inferInstance

structure MaskData where
  top : Int
  left : Int
  bottom : Int
  right : Int
  backgroundColor : Nat
  flags : MaskFlags
  parameters : Option MaskParameters
  real : Option MaskReal
  deriving DecidableEq, Repr

def MaskData.fixedT (m : MaskData) : B :=
  i32T m.top ++ i32T m.left ++ i32T m.bottom ++ i32T m.right ++ beBytes 1 m.backgroundColor ++ beBytes 1 m.flags.toNat

def MaskData.realT (m : MaskData) : B :=
  match m.real with
  | some r => r.encT
  | none => []

/-- `if self.flags.parameters_applied and self.parameters:` -/
def maskParamsT (applied : Bool) (ps : Option MaskParameters) : B :=
  match applied, ps with
  | true, some q => q.encT
  | _, _ => []

def maskParamsFits (applied : Bool) (ps : Option MaskParameters) : Prop :=
  match applied, ps with
  | true, some q => q.Fits
  | _, _ => True

instance (applied : Bool) (ps : Option MaskParameters) : Decidable (maskParamsFits applied ps) := by
  unfold maskParamsFits; cases applied <;> cases ps <;> simp only <;> exact inferInstance

def realFits : Option MaskReal → Prop
  | some r => r.Fits
  | none => True

instance (r : Option MaskReal) : Decidable (realFits r) := by
  cases r <;> simp only [realFits] <;> exact inferInstance

def MaskData.paramsT (m : MaskData) : B := maskParamsT m.flags.parametersApplied m.parameters

def MaskData.unpaddedT (m : MaskData) : B := m.fixedT ++ m.realT ++ m.paramsT

def MaskData.bodyT (m : MaskData) : B :=
  m.unpaddedT ++ zeros (padAmount m.unpaddedT.length 4)

def MaskData.encT (m : MaskData) : B := lenBlockT 0 4 1 m.bodyT

def MaskData.Fits (m : MaskData) : Prop :=
  FitsI32 m.top ∧ FitsI32 m.left ∧ FitsI32 m.bottom ∧ FitsI32 m.right ∧ FitsU 1 m.backgroundColor ∧
  realFits m.real ∧ maskParamsFits m.flags.parametersApplied m.parameters

instance (m : MaskData) : Decidable m.Fits := by unfold MaskData.Fits; exact inferInstance

def MaskData.bodyP (m : MaskData) : W :=
  let written := wBytes (i32T m.top ++ i32T m.left ++ i32T m.bottom ++ i32T m.right ++ beBytes 1 m.backgroundColor)
  let written := written +> wBytes (beBytes 1 m.flags.toNat)
  let written := match m.real with
    | some r => (written +> wBytes (beBytes 1 r.flags.toNat)) +>
                wBytes (beBytes 1 r.backgroundColor ++ i32T r.top ++ i32T r.left ++ i32T r.bottom ++ i32T r.right)
    | none => written
  let written := match m.flags.parametersApplied, m.parameters with
    | true, some q => written +> q.encP
    | _, _ => written
  written +> wPad written.2 4

def MaskData.encP (m : MaskData) : W := wLenBlock 0 4 1 m.bodyP

def MaskReal.dec : R MaskReal := fun d p => do
  let (flags, p) ← readU 1 d p
  let (bg, p) ← readU 1 d p
  let (top, p) ← readI32 d p
  let (left, p) ← readI32 d p
  let (bottom, p) ← readI32 d p
  let (right, p) ← readI32 d p
  .ok (⟨Flags8.ofNat flags, bg, top, left, bottom, right⟩, p)

/-- `MaskData._read_body(fp, length)` -/
def MaskData.bodyDec (length : Nat) : R MaskData := fun d p => do
  let (top, p) ← readI32 d p
  let (left, p) ← readI32 d p
  let (bottom, p) ← readI32 d p
  let (right, p) ← readI32 d p
  let (bg, p) ← readU 1 d p
  let (fl, p) ← readU 1 d p
  let flags := Flags8.ofNat fl
  let (real, p) ← (if length ≥ 36 then optItem MaskReal.dec d p else .ok (none, p))
  let (params, p) ← (if MaskFlags.parametersApplied flags then optItem MaskParameters.dec d p else .ok (none, p))
  .ok (⟨top, left, bottom, right, bg, flags, params, real⟩, p)

/-- `MaskData.read`: `None` for an empty block -/
def maskDec : R (Option MaskData) := fun d p => do
  let (data, p) ← readLenBlock 0 4 1 d p
  if data.length = 0 then .ok (none, p)
  else
    let (m, _) ← MaskData.bodyDec data.length data 0
    .ok (some m, p)

def maskT : Option MaskData → B
  | some m => m.encT
  | none => beBytes 4 0

def maskP : Option MaskData → W
  | some m => m.encP
  | none => wBytes (beBytes 4 0)

def maskFits : Option MaskData → Prop
  | some m => m.Fits ∧ FitsU 4 m.bodyT.length
  | none => True

instance (m : Option MaskData) : Decidable (maskFits m) := by
  cases m <;> simp only [maskFits] <;> exact inferInstance

def MaskData.WF (m : MaskData) : Prop :=
  m.Fits                                                        -- (ii)
  ∧ (m.flags.parametersApplied = true ↔ m.parameters.isSome)    -- (iii) parameters present iff flag bit 4
  ∧ (m.real = none → m.unpaddedT.length ≤ 32)
      -- (iii) the format has the real fields whenever the block is not 20 bytes long;
      -- the reader's test is `length >= 36`, so 18 + parameters ≤ 32 is what the proof needs

instance (m : MaskData) : Decidable m.WF := by unfold MaskData.WF; exact inferInstance

def maskWF : Option MaskData → Prop
  | some m => m.WF
  | none => True

instance (m : Option MaskData) : Decidable (maskWF m) := by
  cases m <;> simp only [maskWF] <;> exact inferInstance

/-! ## LayerBlendingRanges -/

/-- one `4H` group: two (low, high) pairs -/
structure Range4 where
  a : Nat
  b : Nat
  c : Nat
  d : Nat
  deriving DecidableEq, Repr

def Range4.encT (r : Range4) : B := beBytes 2 r.a ++ beBytes 2 r.b ++ beBytes 2 r.c ++ beBytes 2 r.d
def Range4.Fits (r : Range4) : Prop := FitsU 2 r.a ∧ FitsU 2 r.b ∧ FitsU 2 r.c ∧ FitsU 2 r.d
instance (r : Range4) : Decidable r.Fits := by unfold Range4.Fits; exact inferInstance

def Range4.encP (r : Range4) : W :=
  wBytes (beBytes 2 r.a ++ beBytes 2 r.b) +> wBytes (beBytes 2 r.c ++ beBytes 2 r.d)   -- two `2H`

def Range4.dec : R Range4 := fun d p => do
  let (a, p) ← readU 2 d p
  let (b, p) ← readU 2 d p
  let (c, p) ← readU 2 d p
  let (e, p) ← readU 2 d p
  .ok (⟨a, b, c, e⟩, p)

structure BlendingRanges where
  composite : Option Range4
  channels : Option (List Range4)
  deriving DecidableEq, Repr

def BlendingRanges.bodyT (r : BlendingRanges) : B :=
  (match r.composite with | some c => c.encT | none => []) ++
  (match r.channels with | some cs => listT Range4.encT cs | none => [])

def BlendingRanges.encT (r : BlendingRanges) : B := lenBlockT 0 4 1 r.bodyT

def BlendingRanges.bodyP (r : BlendingRanges) : W :=
  let written := wNil
  let written := match r.composite with | some c => written +> c.encP | none => written
  match r.channels with | some cs => written +> wList Range4.encP cs | none => written

def BlendingRanges.encP (r : BlendingRanges) : W := wLenBlock 0 4 1 r.bodyP

def BlendingRanges.Fits (r : BlendingRanges) : Prop :=
  (match r.composite with | some c => c.Fits | none => True) ∧
  (match r.channels with | some cs => ∀ c ∈ cs, c.Fits | none => True) ∧
  FitsU 4 r.bodyT.length

instance (r : BlendingRanges) : Decidable r.Fits := by
  unfold BlendingRanges.Fits
  cases r.composite <;> cases r.channels <;> simp only <;> exact inferInstance

def BlendingRanges.dec : R BlendingRanges := fun d p => do
  let (data, p) ← readLenBlock 0 4 1 d p
  if data.length = 0 then .ok (⟨none, none⟩, p)
  else
    let (comp, q) ← Range4.dec data 0
    let (chans, _) ← readWhile (isReadable 8) (optItem Range4.dec) data q
    .ok (⟨some comp, some chans⟩, p)

def BlendingRanges.WF (r : BlendingRanges) : Prop :=
  r.Fits                                                      -- (ii)
  ∧ ((r.composite = none ∧ r.channels = none) ∨ (r.composite.isSome ∧ r.channels.isSome))
      -- (iii) for `composite = none → channels` empty; (F) for "None, not the empty list" and
      -- "channels is a list once composite is present": None/[] are not told apart on disk

instance (r : BlendingRanges) : Decidable r.WF := by unfold BlendingRanges.WF; exact inferInstance

/-! ## ChannelInfo -/

structure ChannelInfo where
  id : Int
  length : Nat
  deriving DecidableEq, Repr

def ChannelInfo.encT (version : Nat) (c : ChannelInfo) : B := i16T c.id ++ beBytes (secW version) c.length
def ChannelInfo.Fits (version : Nat) (c : ChannelInfo) : Prop := FitsI16 c.id ∧ FitsU (secW version) c.length
instance (version : Nat) (c : ChannelInfo) : Decidable (c.Fits version) := by unfold ChannelInfo.Fits; exact inferInstance
def ChannelInfo.encP (version : Nat) (c : ChannelInfo) : W := wBytes (c.encT version)

def ChannelInfo.dec (version : Nat) : R ChannelInfo := fun d p => do
  let (id, p) ← readI16 d p
  let (length, p) ← readU (secW version) d p
  if id ∈ G.channelIds then .ok (⟨id, length⟩, p) else .error .valueError

def ChannelInfo.WF (version : Nat) (c : ChannelInfo) : Prop :=
  c.id ∈ G.channelIds           -- (i)
  ∧ c.Fits version              -- (ii)

instance (version : Nat) (c : ChannelInfo) : Decidable (c.WF version) := by unfold ChannelInfo.WF; exact inferInstance

/-! ## LayerRecord -/

structure LayerRecord where
  top : Int
  left : Int
  bottom : Int
  right : Int
  channelInfo : List ChannelInfo
  signature : B
  blendMode : B
  opacity : Nat
  clipping : Nat
  flags : LayerFlags
  maskData : Option MaskData
  blendingRanges : BlendingRanges
  name : B                      -- encoded pascal string
  taggedBlocks : List TaggedBlock
  deriving DecidableEq, Repr

def LayerRecord.extraUnpaddedT (version : Nat) (r : LayerRecord) : B :=
  maskT r.maskData ++ r.blendingRanges.encT ++ pascalT 4 r.name ++ taggedBlocksT version 1 r.taggedBlocks

/-- `_write_extra`: mask, blending ranges, name (pad 4), tagged blocks (pad 1), pad 2 -/
def LayerRecord.extraT (version : Nat) (r : LayerRecord) : B :=
  r.extraUnpaddedT version ++ zeros (padAmount (r.extraUnpaddedT version).length 2)

def LayerRecord.fixedT (r : LayerRecord) : B :=
  pack4s r.signature ++ pack4s r.blendMode ++ beBytes 1 r.opacity ++ beBytes 1 r.clipping

def LayerRecord.encT (version : Nat) (r : LayerRecord) : B :=
  i32T r.top ++ i32T r.left ++ i32T r.bottom ++ i32T r.right ++ beBytes 2 r.channelInfo.length ++
  listT (ChannelInfo.encT version) r.channelInfo ++
  r.fixedT ++ beBytes 1 r.flags.toNat ++
  lenBlockT 1 4 1 (r.extraT version)

def LayerRecord.extraP (version : Nat) (r : LayerRecord) : W :=
  let written := wNil
  let written := written +> maskP r.maskData
  let written := written +> r.blendingRanges.encP
  let written := written +> wPascal 4 r.name
  let written := written +> taggedBlocksP version 1 r.taggedBlocks
  written +> wPad written.2 2

def LayerRecord.encP (version : Nat) (r : LayerRecord) : W :=
  let written := wBytes (i32T r.top ++ i32T r.left ++ i32T r.bottom ++ i32T r.right ++ beBytes 2 r.channelInfo.length)
  let written := written +> wList (ChannelInfo.encP version) r.channelInfo
  let written := written +> wBytes r.fixedT
  let written := written +> wBytes (beBytes 1 r.flags.toNat)
  written +> wLenBlock 1 4 1 (r.extraP version)

def LayerRecord.Fits (version : Nat) (r : LayerRecord) : Prop :=
  FitsI32 r.top ∧ FitsI32 r.left ∧ FitsI32 r.bottom ∧ FitsI32 r.right ∧ FitsU 2 r.channelInfo.length ∧
  (∀ c ∈ r.channelInfo, c.Fits version) ∧ FitsU 1 r.opacity ∧ FitsU 1 r.clipping ∧
  maskFits r.maskData ∧ r.blendingRanges.Fits ∧ r.name.length < 256 ∧
  (∀ t ∈ r.taggedBlocks, t.Fits version) ∧ FitsU 4 (r.extraT version).length

instance (version : Nat) (r : LayerRecord) : Decidable (r.Fits version) := by
  unfold LayerRecord.Fits; exact inferInstance

/-- `LayerRecord._read_extra` on the nested `BytesIO` of the extra block -/
def LayerRecord.extraDec (version : Nat) :
    R (Option MaskData × BlendingRanges × B × List TaggedBlock) := fun d p => do
  let (mask, p) ← maskDec d p
  let (ranges, p) ← BlendingRanges.dec d p
  let (name, p) ← readPascal 4 d p
  let (tbs, p) ← taggedBlocksDec version 1 none d p
  .ok ((mask, ranges, name, tbs), p)

/-- (i) validators of `LayerRecord` -/
def LayerRecord.Valid (r : LayerRecord) : Prop :=
  r.signature ∈ G.recordSignatures ∧ r.blendMode ∈ G.blendModes ∧
  (G.opacityMin ≤ r.opacity ∧ r.opacity ≤ G.opacityMax) ∧ r.clipping ∈ G.clippings

instance (r : LayerRecord) : Decidable r.Valid := by unfold LayerRecord.Valid; exact inferInstance

def LayerRecord.dec (version : Nat) : R LayerRecord := fun d p => do
  let (top, p) ← readI32 d p
  let (left, p) ← readI32 d p
  let (bottom, p) ← readI32 d p
  let (right, p) ← readI32 d p
  let (n, p) ← readU 2 d p
  let (cis, p) ← readCount (ChannelInfo.dec version) n d p
  let (sig, p) ← readN 4 d p
  let (bm, p) ← readN 4 d p
  let (opacity, p) ← readU 1 d p
  let (clipping, p) ← readU 1 d p
  let (fl, p) ← readU 1 d p
  let (data, p) ← readLenBlock 1 4 1 d p
  let ((mask, ranges, name, tbs), _) ← LayerRecord.extraDec version data 0
  let r : LayerRecord := ⟨top, left, bottom, right, cis, sig, bm, opacity, clipping, LayerFlags.ofNat fl,
    mask, ranges, name, tbs⟩
  if r.Valid then .ok (r, p) else .error .valueError

def LayerRecord.WF (version : Nat) (r : LayerRecord) : Prop :=
  r.Valid                                              -- (i)
  ∧ r.Fits version                                     -- (ii)
  ∧ (∀ c ∈ r.channelInfo, c.id ∈ G.channelIds)         -- (i) ChannelInfo
  ∧ maskWF r.maskData ∧ r.blendingRanges.WF ∧ taggedBlocksWF version r.taggedBlocks

instance (version : Nat) (r : LayerRecord) : Decidable (r.WF version) := by
  unfold LayerRecord.WF; exact inferInstance

/-! ## ChannelData / ChannelImageData -/

structure ChannelData where
  compression : Nat
  data : B                      -- compressed pixels: opaque here (C04)
  deriving DecidableEq, Repr

def ChannelData.encT (c : ChannelData) : B := beBytes 2 c.compression ++ c.data
def ChannelData.encP (c : ChannelData) : W := wBytes (beBytes 2 c.compression) +> wBytes c.data
def ChannelData.Fits (c : ChannelData) : Prop := FitsU 2 c.compression
instance (c : ChannelData) : Decidable c.Fits := by unfold ChannelData.Fits; exact inferInstance

/-- `ChannelData.read(fp, length)` with `length = channel_info.length - 2` (may be negative) -/
def ChannelData.dec (ciLength : Nat) : R ChannelData := fun d p => do
  let (comp, p) ← readU 2 d p
  if comp ∈ G.compressions then
    let (data, p) ← readPy ((ciLength : Int) - 2) d p
    .ok (⟨comp, data⟩, p)
  else .error .valueError

def ChannelData.WF (c : ChannelData) : Prop := c.compression ∈ G.compressions      -- (i)
instance (c : ChannelData) : Decidable c.WF := by unfold ChannelData.WF; exact inferInstance

def channelListT (cs : List ChannelData) : B := listT ChannelData.encT cs
def channelImageT (css : List (List ChannelData)) : B := listT channelListT css
def channelImageP (css : List (List ChannelData)) : W := wList (wList ChannelData.encP) css

def channelListDec (cis : List ChannelInfo) : R (List ChannelData) :=
  readFor (fun ci => ChannelData.dec ci.length) cis

def channelImageDec (records : List LayerRecord) : R (List (List ChannelData)) :=
  readFor (fun r => channelListDec r.channelInfo) records

/-! ## LayerInfo -/

structure LayerInfo where
  layerCount : Int
  records : Option (List LayerRecord)
  channels : Option (List (List ChannelData))
  deriving DecidableEq, Repr

/-- `_update_channel_length`: `zip` semantics, in place -/
def refreshCI : List ChannelInfo → List ChannelData → List ChannelInfo
  | ci :: cis, c :: cs => { ci with length := 2 + c.data.length } :: refreshCI cis cs
  | [], _ => []
  | cis, [] => cis

def refreshRecords : List LayerRecord → List (List ChannelData) → List LayerRecord
  | r :: rs, cs :: css => { r with channelInfo := refreshCI r.channelInfo cs } :: refreshRecords rs css
  | [], _ => []
  | rs, [] => rs

/-- the state of the object after `write()` returned (the writer mutates `channel_info.length`):
only when `layer_count != 0`, `layer_records` and `channel_image_data` are non-empty -/
def LayerInfo.refresh (li : LayerInfo) : LayerInfo :=
  if li.layerCount = 0 then li else
  match li.records, li.channels with
  | some (r :: rs), some (c :: cs) => { li with records := some (refreshRecords (r :: rs) (c :: cs)) }
  | _, _ => li

def optListT {α : Type} (f : List α → B) : Option (List α) → B
  | some (x :: xs) => f (x :: xs)       -- `if self.layer_records:` — a non-empty list
  | _ => []

/-- `_write_body` on the refreshed object -/
def LayerInfo.bodyUnpaddedT (version : Nat) (li : LayerInfo) : B :=
  i16T li.layerCount ++ optListT (listT (LayerRecord.encT version)) li.records ++ optListT channelImageT li.channels

def LayerInfo.bodyT (version pad : Nat) (li : LayerInfo) : B :=
  li.bodyUnpaddedT version ++ zeros (padAmount (li.bodyUnpaddedT version).length pad)

def LayerInfo.encT (version pad : Nat) (li : LayerInfo) : B :=
  if li.layerCount = 0 then beBytes (secW version) 0
  else lenBlockT 0 (secW version) 1 (li.refresh.bodyT version pad)

def optListP {α : Type} (f : List α → W) : Option (List α) → W
  | some (x :: xs) => f (x :: xs)
  | _ => wNil

def LayerInfo.bodyP (version pad : Nat) (li : LayerInfo) : W :=
  let written := wBytes (i16T li.layerCount)
  let written := written +> optListP (wList (LayerRecord.encP version)) li.records
  let written := written +> optListP channelImageP li.channels
  written +> wPad written.2 pad

def LayerInfo.encP (version pad : Nat) (li : LayerInfo) : W :=
  if li.layerCount = 0 then wBytes (beBytes (secW version) 0)
  else wLenBlock 0 (secW version) 1 (li.refresh.bodyP version pad)

def optAll {α : Type} (P : α → Prop) : Option (List α) → Prop
  | some xs => ∀ x ∈ xs, P x
  | none => True

instance {α : Type} (P : α → Prop) [DecidablePred P] (o : Option (List α)) : Decidable (optAll P o) := by
  cases o <;> simp only [optAll] <;> exact inferInstance

def LayerInfo.bodyFits (version pad : Nat) (li : LayerInfo) : Prop :=
  FitsI16 li.layerCount ∧ optAll (LayerRecord.Fits version) li.records ∧
  optAll (fun cs => ∀ c ∈ cs, ChannelData.Fits c) li.channels ∧
  FitsU (secW version) (li.bodyT version pad).length

instance (version pad : Nat) (li : LayerInfo) : Decidable (li.bodyFits version pad) := by
  unfold LayerInfo.bodyFits; exact inferInstance

def LayerInfo.Fits (version pad : Nat) (li : LayerInfo) : Prop :=
  if li.layerCount = 0 then True else li.refresh.bodyFits version pad

instance (version pad : Nat) (li : LayerInfo) : Decidable (li.Fits version pad) := by
  unfold LayerInfo.Fits; exact inferInstance

/-- `LayerInfo._read_body` -/
def LayerInfo.bodyDec (version : Nat) : R LayerInfo := fun d p => do
  let (count, p) ← readI16 d p
  let (records, p) ← readCount (LayerRecord.dec version) count.natAbs d p
  let (channels, p) ← channelImageDec records d p
  .ok (⟨count, some records, some channels⟩, p)

/-- `if self.layer_count == 0: self = LayerInfo()`: a body that declares no layers is kept in the form
the writer's empty section is read back in -/
def LayerInfo.normCount0 (li : LayerInfo) : LayerInfo := if li.layerCount = 0 then ⟨0, none, none⟩ else li

/-- `LayerInfo.read`: length, body, `assert fp.tell() <= end_pos`, `fp.seek(end_pos)` -/
def LayerInfo.dec (version : Nat) : R LayerInfo := fun d p => do
  let (length, p) ← readU (secW version) d p
  let endPos := p + length
  let (li, p) ← (if length = 0 then .ok (⟨0, none, none⟩, p) else
    match LayerInfo.bodyDec version d p with
    | .ok (li, p) => .ok (li.normCount0, p)
    | .error e => .error e)
  if p ≤ endPos then (if overflows endPos d then .error .overflowError else .ok (li, endPos))   -- `fp.seek(end_pos)`
  else .error .assertionError

/-- per record: as many channel data as channel infos -/
def shapesAgree : List LayerRecord → List (List ChannelData) → Prop
  | [], [] => True
  | r :: rs, cs :: css => r.channelInfo.length = cs.length ∧ shapesAgree rs css
  | _, _ => False

instance : (rs : List LayerRecord) → (css : List (List ChannelData)) → Decidable (shapesAgree rs css)
  | [], [] => isTrue trivial
  | r :: rs, cs :: css => by
    simp only [shapesAgree]
    have := instDecidableShapesAgree rs css
    exact inferInstance
  | [], _ :: _ => isFalse (by simp [shapesAgree])
  | _ :: _, [] => isFalse (by simp [shapesAgree])

def LayerInfo.WF (version pad : Nat) (li : LayerInfo) : Prop :=
  if li.layerCount = 0 then
    li.records = none ∧ li.channels = none
      -- (F) `layer_count == 0` is written as an empty section and re-read with `None`, `None`:
      -- the empty lists `LayerRecords([])`, `ChannelImageData([])` do not survive
  else
    match li.records, li.channels with
    | some rs, some css =>
        li.layerCount.natAbs = rs.length             -- (iii) layer_count = ±len(records)
        ∧ shapesAgree rs css                         -- (iii) one channel list per record, one datum per channel info
        ∧ (∀ r ∈ refreshRecords rs css, r.WF version)
        ∧ (∀ cs ∈ css, ∀ c ∈ cs, ChannelData.WF c)
        ∧ li.refresh.bodyFits version pad            -- (ii)
    | _, _ => False                                  -- (iii)

instance (version pad : Nat) (li : LayerInfo) : Decidable (li.WF version pad) := by
  unfold LayerInfo.WF
  split
  · exact inferInstance
  · split <;> exact inferInstance

/-! ## GlobalLayerMaskInfo -/

structure GlobalLayerMaskInfo where
  overlayColor : Option (List Nat)
  opacity : Nat
  kind : Nat
  deriving DecidableEq, Repr

def GlobalLayerMaskInfo.bodyT (g : GlobalLayerMaskInfo) : B :=
  match g.overlayColor with
  | none => []
  | some cs =>
    let b := listT (beBytes 2) cs ++ beBytes 2 g.opacity ++ beBytes 1 g.kind
    b ++ zeros (padAmount b.length 4)

def GlobalLayerMaskInfo.encT (g : GlobalLayerMaskInfo) : B := lenBlockT 0 4 1 g.bodyT

def GlobalLayerMaskInfo.bodyP (g : GlobalLayerMaskInfo) : W :=
  match g.overlayColor with
  | none => wNil
  | some cs =>
    let written := wBytes (listT (beBytes 2) cs)                       -- write_fmt(fp, "5H", *overlay_color)
    let written := written +> wBytes (beBytes 2 g.opacity ++ beBytes 1 g.kind)
    written +> wPad written.2 4

def GlobalLayerMaskInfo.encP (g : GlobalLayerMaskInfo) : W := wLenBlock 0 4 1 g.bodyP

def GlobalLayerMaskInfo.Fits (g : GlobalLayerMaskInfo) : Prop :=
  match g.overlayColor with
  | none => True
  | some cs => cs.length = 5 ∧ (∀ c ∈ cs, FitsU 2 c) ∧ FitsU 2 g.opacity ∧ FitsU 1 g.kind

instance (g : GlobalLayerMaskInfo) : Decidable g.Fits := by
  unfold GlobalLayerMaskInfo.Fits; cases g.overlayColor <;> simp only <;> exact inferInstance

def glmDefault : GlobalLayerMaskInfo := ⟨none, G.glmDefaultOpacity, G.glmDefaultKind⟩

/-- `GlobalLayerMaskInfo.read`: empty block → defaults; shorter than 13 → *rewind* and defaults -/
def GlobalLayerMaskInfo.dec : R GlobalLayerMaskInfo := fun d pos => do
  let (data, p) ← readLenBlock 0 4 1 d pos
  if data.length = 0 then .ok (glmDefault, p)
  else if data.length < 13 then .ok (glmDefault, pos)                   -- fp.seek(pos)
  else
    let (cs, q) ← readCount (readU 2) 5 data 0
    let (opacity, q) ← readU 2 data q
    let (kind, _) ← readU 1 data q
    if kind ∈ G.glmKinds then .ok (⟨some cs, opacity, kind⟩, p) else .error .valueError

def GlobalLayerMaskInfo.WF (g : GlobalLayerMaskInfo) : Prop :=
  g.kind ∈ G.glmKinds                                                   -- (i)
  ∧ g.Fits                                                              -- (ii)
  ∧ (g.overlayColor = none → g.opacity = G.glmDefaultOpacity ∧ g.kind = G.glmDefaultKind)
      -- (F) without an overlay colour nothing is stored: opacity and kind come back as the defaults

instance (g : GlobalLayerMaskInfo) : Decidable g.WF := by unfold GlobalLayerMaskInfo.WF; exact inferInstance

/-! ## LayerAndMaskInformation -/

structure LayerAndMask where
  layerInfo : Option LayerInfo
  globalMask : Option GlobalLayerMaskInfo
  taggedBlocks : Option (List TaggedBlock)
  deriving DecidableEq, Repr

def optT' {α : Type} (f : α → B) : Option α → B
  | some x => f x
  | none => []

def optP {α : Type} (f : α → W) : Option α → W
  | some x => f x
  | none => wNil

/-- `_write_body`: `if self.layer_info:` … `if self.tagged_blocks:` (an empty dict is falsy) -/
def LayerAndMask.bodyT (version pad : Nat) (x : LayerAndMask) : B :=
  optT' (LayerInfo.encT version pad) x.layerInfo ++ optT' GlobalLayerMaskInfo.encT x.globalMask ++
  optT' (taggedBlocksT version 4) x.taggedBlocks

def LayerAndMask.encT (version pad : Nat) (x : LayerAndMask) : B :=
  lenBlockT 0 (secW version) 1 (x.bodyT version pad)

def LayerAndMask.bodyP (version pad : Nat) (x : LayerAndMask) : W :=
  let written := wNil
  let written := written +> optP (LayerInfo.encP version pad) x.layerInfo
  let written := written +> optP GlobalLayerMaskInfo.encP x.globalMask
  written +> optP (taggedBlocksP version 4) x.taggedBlocks

def LayerAndMask.encP (version pad : Nat) (x : LayerAndMask) : W :=
  wLenBlock 0 (secW version) 1 (x.bodyP version pad)

def optProp {α : Type} (P : α → Prop) : Option α → Prop
  | some x => P x
  | none => True

instance {α : Type} (P : α → Prop) [DecidablePred P] (o : Option α) : Decidable (optProp P o) := by
  cases o <;> simp only [optProp] <;> exact inferInstance

def LayerAndMask.Fits (version pad : Nat) (x : LayerAndMask) : Prop :=
  optProp (LayerInfo.Fits version pad) x.layerInfo ∧ optProp GlobalLayerMaskInfo.Fits x.globalMask ∧
  optProp (fun ts => ∀ t ∈ ts, TaggedBlock.Fits version t) x.taggedBlocks ∧
  FitsU (secW version) (x.bodyT version pad).length

instance (version pad : Nat) (x : LayerAndMask) : Decidable (x.Fits version pad) := by
  unfold LayerAndMask.Fits; exact inferInstance

def LayerAndMask.WF (version pad : Nat) (x : LayerAndMask) : Prop :=
  x.Fits version pad ∧                                                   -- (ii)
  match x.layerInfo with
  | none =>
      x.globalMask = none          -- (iii) the layer info comes first in a non-empty section
      ∧ x.taggedBlocks = none      -- (iii) for a non-empty dict; (F) for the empty dict (re-read as `None`)
  | some li =>
      li.WF version pad
      ∧ optProp GlobalLayerMaskInfo.WF x.globalMask
      ∧ (match x.taggedBlocks with
         | some ts => taggedBlocksWF version ts
         | none => False)          -- (F) a section with a layer info is read with a `TaggedBlocks` (possibly empty), never `None`
      ∧ (x.globalMask = none → x.taggedBlocks = some [])
                                   -- (iii) the global mask section precedes the tagged blocks

instance (version pad : Nat) (x : LayerAndMask) : Decidable (x.WF version pad) := by
  unfold LayerAndMask.WF
  cases x.layerInfo <;> cases x.globalMask <;> cases x.taggedBlocks <;> simp only <;> exact inferInstance

/-- `LayerAndMaskInformation._read_body(fp, end_pos, …)` on the main stream: the global layer mask info
and, behind it, the tagged blocks are read when the *section* has room for the length field of the former
(`fp.tell() + 4 <= end_pos`); otherwise `None` and an empty `TaggedBlocks()` -/
def LayerAndMask.bodyDec (version endPos : Nat) : R LayerAndMask := fun d p => do
  let (li, p) ← LayerInfo.dec version d p
  if p + 4 ≤ endPos then
    let (glm, p) ← GlobalLayerMaskInfo.dec d p
    let (tbs, p) ← taggedBlocksDec version 4 (some endPos) d p
    .ok (⟨some li, some glm, some tbs⟩, p)
  else .ok (⟨some li, none, some []⟩, p)

/-- `LayerAndMaskInformation.read`: whatever the body did, `fp.seek(end_pos)` -/
def LayerAndMask.dec (version : Nat) : R LayerAndMask := fun d p => do
  let (length, p) ← readU (secW version) d p
  let endPos := p + length
  let (x, _) ← (if length = 0 then .ok (⟨none, none, none⟩, p) else LayerAndMask.bodyDec version endPos d p)
  if overflows endPos d then .error .overflowError else .ok (x, endPos)                       -- `fp.seek(end_pos)`

/-! ## ImageData -/

structure ImageData where
  compression : Nat
  data : B
  deriving DecidableEq, Repr

def ImageData.encT (i : ImageData) : B := beBytes 2 i.compression ++ i.data
def ImageData.encP (i : ImageData) : W := wBytes (beBytes 2 i.compression) +> wBytes i.data
def ImageData.Fits (i : ImageData) : Prop := FitsU 2 i.compression
instance (i : ImageData) : Decidable i.Fits := by unfold ImageData.Fits; exact inferInstance

/-- `ImageData.read`: compression, then `fp.read()` to the end of the file -/
def ImageData.dec : R ImageData := fun d p => do
  let (comp, p) ← readU 2 d p
  if comp ∈ G.imageCompressions then
    let (data, p) ← readAll d p
    .ok (⟨comp, data⟩, p)
  else .error .valueError

def ImageData.WF (i : ImageData) : Prop := i.compression ∈ G.imageCompressions       -- (i)
instance (i : ImageData) : Decidable i.WF := by unfold ImageData.WF; exact inferInstance

/-! ## PSD -/

structure PSD where
  header : Header
  colorModeData : B
  resources : List Resource
  layerAndMask : LayerAndMask
  imageData : ImageData
  deriving DecidableEq, Repr

/-- `PSD.write(fp, encoding, padding=pad)`; the text encoding does not reach the skeleton -/
def PSD.encT (pad : Nat) (x : PSD) : B :=
  x.header.encT ++ colorModeT x.colorModeData ++ resourcesT x.resources ++
  x.layerAndMask.encT x.header.version pad ++ x.imageData.encT

def PSD.encP (pad : Nat) (x : PSD) : W :=
  let written := x.header.encP
  let written := written +> colorModeP x.colorModeData
  let written := written +> resourcesP x.resources
  let written := written +> x.layerAndMask.encP x.header.version pad
  written +> x.imageData.encP

/-- the state of the document object after `write()` (channel lengths refreshed in place) -/
def PSD.refresh (x : PSD) : PSD :=
  { x with layerAndMask := { x.layerAndMask with layerInfo := x.layerAndMask.layerInfo.map LayerInfo.refresh } }

def PSD.read : R PSD := fun d p => do
  let (header, p) ← Header.dec d p
  let (cmd, p) ← colorModeDec d p
  let (res, p) ← resourcesDec d p
  let (lm, p) ← LayerAndMask.dec header.version d p
  let (img, p) ← ImageData.dec d p
  .ok (⟨header, cmd, res, lm, img⟩, p)

def PSD.Fits₁ (x : PSD) : Prop := x.header.Fits ∧ FitsU 4 x.colorModeData.length ∧ resourcesFits x.resources
def PSD.Fits₂ (pad : Nat) (x : PSD) : Prop := x.layerAndMask.Fits x.header.version pad ∧ x.imageData.Fits
instance (x : PSD) : Decidable x.Fits₁ := by unfold PSD.Fits₁; exact inferInstance
instance (pad : Nat) (x : PSD) : Decidable (x.Fits₂ pad) := by unfold PSD.Fits₂; exact inferInstance

/-- which exception `PSD.write` ends with, in the order the sections are written:
`struct.error` from a field that does not fit, `IndexError` from `("I","Q")[version-1]` -/
def PSD.writeError (pad : Nat) (x : PSD) : Option Err :=
  if ¬ x.Fits₁ then some .structError
  else if 2 < x.header.version then some .indexError
  else if ¬ x.Fits₂ pad then some .structError
  else none

def PSD.enc (pad : Nat) (x : PSD) : Except Err B :=
  match x.writeError pad with
  | some e => .error e
  | none => .ok (x.encT pad)

/-- bytes and the count `PSD.write` returns -/
def PSD.encW (pad : Nat) (x : PSD) : Except Err W :=
  match x.writeError pad with
  | some e => .error e
  | none => .ok (x.encP pad)

def PSD.WF (pad : Nat) (x : PSD) : Prop :=
  x.header.WF ∧ FitsU 4 x.colorModeData.length ∧ resourcesWF x.resources ∧
  x.layerAndMask.WF x.header.version pad ∧ x.imageData.WF

instance (pad : Nat) (x : PSD) : Decidable (x.WF pad) := by unfold PSD.WF Header.WF; exact inferInstance

end PsdVerif.Psd
