/-
Tabulating evaluator for the effect-carrying compositor model (`Model/CompositeFx.lean`), as
`Model/CompositeEval.lean` is for `Model/Composite.lean`: the same functions with the state's colours
copied into an array after every `_apply_source` step.  Equal to the model for every number of tabulated
channels (`Lemmas/CompositeFxEval.lean`: `compositeFxDocF_eq`; restated as `fx_evaluator_is_model`).

Core Lean only.
-/
import PsdVerif.Model.CompositeFx
import PsdVerif.Model.CompositeEval

namespace PsdVerif.Composite

def applyOverlaysF (n : Nat) (B : Mode → Color → Color → Color) (V bbox : Rect) (x y : Int) (shape alpha : Rat)
    (st : PState) : List Overlay → PState
  | [] => st
  | e :: es =>
    let se := overlayShape V bbox x y e
    applyOverlaysF n B V bbox x y shape alpha
      (fzState n (applySource (B e.mode) st (pasteAt V bbox x y e.color white) (shape * se) (alpha * se * e.opacity) false)) es

def applyStrokeFxF (n : Nat) (B : Mode → Color → Color → Color) (V bbox : Rect) (x y : Int) (lop : Rat) (st : PState) :
    List StrokeFx → PState
  | [] => st
  | s :: ss =>
    let sh := pasteAt V bbox x y (s.shape V) 0
    applyStrokeFxF n B V bbox x y lop
      (fzState n (applySource (B s.mode) st (pasteAt V bbox x y s.color black) sh (sh * (s.opacity * lop)) false)) ss

def finishFxF (n : Nat) (B : Mode → Color → Color → Color) (force : Bool) (V : Rect) (x y : Int) (st : PState) (pr : Props)
    (fx : Fx) (color : Color) (shape alpha : Rat) : PState :=
  let m := maskFactorsFx force pr fx V x y
  let shape1 := shape * m.1
  let alpha1 := alpha * (m.1 * m.2 * pr.opacity)
  let st1 := fzState n (applySource (B pr.mode) st color (shape1 * pr.fill) (alpha1 * pr.fill) pr.knockout)
  applyStrokeFxF n B V pr.bbox x y pr.opacity (applyOverlaysF n B V pr.bbox x y shape1 alpha1 st1 fx.overlays) fx.strokeFx

def strokeObjectF (n : Nat) (B : Mode → Color → Color → Color) (V : Rect) (x y : Int) (color : Color) (alpha : Rat) :
    Option VStroke → Color
  | none => color
  | some s =>
    let cs := pasteAt V s.box x y s.color white
    let sh := pasteAt V s.canvas x y s.shape 0
    let st := fzState n (applySource (B s.mode) (fzState n (PState.init color alpha false)) cs sh (sh * s.opacity) false)
    lookup (tab n (finishColor st)) (finishColor st)

mutual

def applyFxNodeF (n : Nat) (B : Mode → Color → Color → Color) (force : Bool) (V : Rect) (x y : Int) (clipCompositing : Bool)
    (st : PState) : FxNode → PState
  | .adjustment _ => st
  | .leaf pr fx src stroke clips =>
    if !pr.visible then st
    else if intersect V pr.bbox = Rect.zero then st
    else if !clipCompositing && pr.clipping && pr.hasClipTarget then st
    else
      let color0 := leafColor force V x y pr fx src
      let shape0 := leafShape force V x y pr fx src
      let alpha0 := shape0
      let color1 := if clips.isEmpty then color0
        else (applyFxClipsF n B force V x y (fzState n (PState.init color0 alpha0 false)) clips).c
      let color2 := strokeObjectF n B V x y color1 alpha0 stroke
      finishFxF n B force V x y st pr fx color2 shape0 alpha0
  | .group pr fx passThrough children clips =>
    if !pr.visible then st
    else if intersect V pr.bbox = Rect.zero then st
    else if !clipCompositing && pr.clipping && pr.hasClipTarget then st
    else
      let V' := intersect V pr.bbox
      let colorB : Color := if pr.knockout then st.c0 else st.c
      let alphaB : Rat := if pr.knockout then st.a0 else st.a
      let inside := V'.contains x y
      let sub := applyFxListF n B force V' x y (fzState n (PState.init colorB alphaB (!passThrough))) children
      let color0 : Color := if inside then finishColor sub else white
      let shape0 : Rat := if inside then sub.sg else 0
      let alpha0 : Rat := if inside then sub.ag else 0
      let color1 := if clips.isEmpty then color0
        else (applyFxClipsF n B force V x y (fzState n (PState.init color0 alpha0 false)) clips).c
      finishFxF n B force V x y st pr fx color1 shape0 alpha0

def applyFxListF (n : Nat) (B : Mode → Color → Color → Color) (force : Bool) (V : Rect) (x y : Int) (st : PState) :
    List FxNode → PState
  | [] => st
  | nd :: rest => applyFxListF n B force V x y (applyFxNodeF n B force V x y false st nd) rest

def applyFxClipsF (n : Nat) (B : Mode → Color → Color → Color) (force : Bool) (V : Rect) (x y : Int) (st : PState) :
    List FxNode → PState
  | [] => st
  | nd :: rest => applyFxClipsF n B force V x y (applyFxNodeF n B force V x y true st nd) rest

end

def compositeFxDocF (n : Nat) (B : Mode → Color → Color → Color) (force : Bool) (V : Rect) (x y : Int) (color : Color)
    (alpha : Rat) (layers : List FxNode) : Color × Rat × Rat :=
  let st := applyFxListF n B force V x y (fzState n (PState.init color alpha false)) layers
  (finishColor st, st.sg, st.ag)

end PsdVerif.Composite
