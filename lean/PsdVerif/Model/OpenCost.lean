/-
C06 — the WHOLE modelled reader as a counting interpreter: the skeleton of Model/PsdCost.lean with the payload
dispatch of `TaggedBlock.read` (`kls = TYPES.get(key); kls.frombytes(raw_data, version=version)`) and of
`ImageResource.read` (`TYPES[key].frombytes(raw_data)`) put back.

A payload run is a HOOK: `BlockHook` (version, key, block) and `ResHook` (resource id, block) return the cost of
`with io.BytesIO(data) as f: cls.read(f)` and whether it raised; the value is dropped (the skeleton keeps the bytes of
the block, so `PSD.readT` returns what `PSD.read` returns whenever no payload raises: Lemmas/OpenCost1.lean).
The readers that do not look at payloads are those of Model/PsdCost.lean.

`Lr16` / `Lr32` (`LayerInfoBlock`) is the one payload that recurses into the skeleton: a layer info inside a tagged
block inside the extra data of a layer record inside a layer info … The recursion is on a fuel `D` that stands for
CPython's recursion limit (`RecursionError` when it is exhausted): `plOf`.

Core Lean only.
-/
import PsdVerif.Model.PsdCost
import PsdVerif.Model.PayloadCost

namespace PsdVerif.OpenCost
open PsdVerif PsdVerif.Codec PsdVerif.Psd PsdVerif.PsdCost PsdVerif.PayloadCost

/-- `kls.frombytes(raw_data, version=version)` for the block `key`: cost and outcome -/
abbrev BlockHook := Nat → B → B → CE Unit
/-- `TYPES[key].frombytes(raw_data)` for the resource `key` -/
abbrev ResHook := Nat → B → CE Unit

/-! ### the readers that hand a block to a payload class -/

def TaggedBlock.decT (pl : BlockHook) (version pad : Nat) : RC (Option TaggedBlock) := fun d p => do
  let (sig, p1) ← readNC 4 d p
  if sig ∈ G.blockSignatures then do
    let (key, p2) ← readNC 4 d p1
    let (data, p3) ← readLenBlockC 0 (tbLenW version key) pad d p2
    pl version key data
    CE.ok (some ⟨sig, key, data⟩, p3)
  else CE.ok (none, p)

def taggedBlocksDecT (pl : BlockHook) (version pad : Nat) (endPos : Option Nat) : RC (List TaggedBlock) := fun d p => do
  let (items, p) ← readWhileC (taggedCondC endPos) (TaggedBlock.decT pl version pad) d p
  CE.ok (odict TaggedBlock.key items, p)

def LayerRecord.extraDecT (pl : BlockHook) (version : Nat) :
    RC (Option MaskData × BlendingRanges × B × List TaggedBlock) := fun d p => do
  let (mask, p) ← maskDecC d p
  let (ranges, p) ← BlendingRanges.decC d p
  let (name, p) ← readPascalC 4 d p
  let (tbs, p) ← taggedBlocksDecT pl version 1 none d p
  CE.ok ((mask, ranges, name, tbs), p)

def LayerRecord.decT (pl : BlockHook) (version : Nat) : RC LayerRecord := fun d p => do
  let (top, p) ← readI32C d p
  let (left, p) ← readI32C d p
  let (bottom, p) ← readI32C d p
  let (right, p) ← readI32C d p
  let (n, p) ← readUC 2 d p
  let (cis, p) ← readCountC (ChannelInfo.decC version) n d p
  let (sig, p) ← readNC 4 d p
  let (bm, p) ← readNC 4 d p
  let (opacity, p) ← readUC 1 d p
  let (clipping, p) ← readUC 1 d p
  let (fl, p) ← readUC 1 d p
  let (data, p) ← readLenBlockC 1 4 1 d p
  enterBlock data
  let ((mask, ranges, name, tbs), _) ← LayerRecord.extraDecT pl version data 0
  let r : LayerRecord := ⟨top, left, bottom, right, cis, sig, bm, opacity, clipping, LayerFlags.ofNat fl,
    mask, ranges, name, tbs⟩
  if r.Valid then CE.ok (r, p) else CE.error .valueError

def LayerInfo.bodyDecT (pl : BlockHook) (version : Nat) : RC LayerInfo := fun d p => do
  let (count, p) ← readI16C d p
  let (records, p) ← readCountC (LayerRecord.decT pl version) count.natAbs d p
  let (channels, p) ← channelImageDecC records d p
  CE.ok (⟨count, some records, some channels⟩, p)

def LayerInfo.decT (pl : BlockHook) (version : Nat) : RC LayerInfo := fun d p => do
  let (length, p) ← readUC (secW version) d p
  let endPos := p + length
  let (li, p) ← (if length = 0 then CE.ok (⟨0, none, none⟩, p) else do
    let (li, p) ← LayerInfo.bodyDecT pl version d p
    CE.ok (li.normCount0, p))
  if p ≤ endPos then (if overflows endPos d then CE.error .overflowError else CE.ok (li, endPos))
  else CE.error .assertionError

def LayerAndMask.bodyDecT (pl : BlockHook) (version endPos : Nat) : RC LayerAndMask := fun d p => do
  let (li, p) ← LayerInfo.decT pl version d p
  if p + 4 ≤ endPos then do
    let (glm, p) ← GlobalLayerMaskInfo.decC d p
    let (tbs, p) ← taggedBlocksDecT pl version 4 (some endPos) d p
    CE.ok (⟨some li, some glm, some tbs⟩, p)
  else CE.ok (⟨some li, none, some []⟩, p)

def LayerAndMask.decT (pl : BlockHook) (version : Nat) : RC LayerAndMask := fun d p => do
  let (length, p) ← readUC (secW version) d p
  let endPos := p + length
  let (x, _) ← (if length = 0 then CE.ok (⟨none, none, none⟩, p) else LayerAndMask.bodyDecT pl version endPos d p)
  if overflows endPos d then CE.error .overflowError else CE.ok (x, endPos)

def Resource.decT (rs : ResHook) : RC Resource := fun d p => do
  let (sig, p) ← readNC 4 d p
  let (key, p) ← readUC 2 d p
  let (name, p) ← readPascalC 2 d p
  let (data, p) ← readLenBlockC 0 4 2 d p
  rs key data
  if sig ∈ G.resourceSignatures then CE.ok (⟨sig, key, name, data⟩, p) else CE.error .valueError

def resourcesDecT (rs : ResHook) : RC (List Resource) := fun d p => do
  let (data, p) ← readLenBlockC 0 4 1 d p
  enterBlock data
  let (items, _) ← readWhileC (isReadableC 4) (optItemC (Resource.decT rs)) data 0
  CE.ok (odict Resource.key items, p)

/-- `PSD.read` with the payload classes -/
def PSD.readT (pl : BlockHook) (rs : ResHook) : RC PSD := fun d p => do
  let (header, p) ← Header.decC d p
  let (cmd, p) ← colorModeDecC d p
  let (res, p) ← resourcesDecT rs d p
  let (lm, p) ← LayerAndMask.decT pl header.version d p
  let (img, p) ← ImageData.decC d p
  CE.ok (⟨header, cmd, res, lm, img⟩, p)

/-! ### the dispatch -/

/-- the payload classes other than `LayerInfoBlock`, as runners `data ↦ cost, outcome` -/
structure Hooks where
  /-- `TYPES.get(key)` of tagged_blocks.py (`none`: the block stays bytes) -/
  blk : Nat → B → Option (B → CE Unit)
  /-- `TYPES[key]` of image_resources.py -/
  res : Nat → Option (B → CE Unit)
  /-- the keys registered for `LayerInfoBlock` -/
  layerInfoKeys : List B

def runOpt (o : Option (B → CE Unit)) (data : B) : CE Unit :=
  match o with
  | some f => f data
  | none => CE.ok ()

/-- `X.frombytes(data)`: `with io.BytesIO(data) as f: X.read(f)`, the value dropped -/
def runCC {α : Type} (x : CC α) : B → CE Unit := fun data => do
  enterBlock data
  let (_, _) ← x.decC data 0
  CE.ok ()

/-- the payload hook with `D` levels of `Lr16` / `Lr32` nesting left -/
def plOf (h : Hooks) : Nat → BlockHook
  | 0 => fun version key data =>
    if key ∈ h.layerInfoKeys then CE.error .recursionError else runOpt (h.blk version key) data
  | f + 1 => fun version key data =>
    if key ∈ h.layerInfoKeys then do
      enterBlock data
      let (_, _) ← LayerInfo.bodyDecT (plOf h f) version data 0
      CE.ok ()
    else runOpt (h.blk version key) data

def rsOf (h : Hooks) : ResHook := fun key data => runOpt (h.res key) data

/-- `PSDImage.open` → `PSD.read`, with at most `D` nested layer-info blocks before `RecursionError` -/
def open_ (h : Hooks) (D : Nat) (b : B) : CE (PSD × Nat) := PSD.readT (plOf h D) (rsOf h) b 0

/-- the hooks that never look at a payload: `PSD.readT` is then `PSD.readC` -/
def noHooks : Hooks := ⟨fun _ _ => none, fun _ => none, []⟩

end PsdVerif.OpenCost
