/-
C06 — the descriptor reader of Model/Descriptor.lean as a COUNTING interpreter (same structure, the counting
primitives of Model/PsdCost.lean and Model/PayloadCost.lean): one tick per `fp.read` (a `read_fmt` is one read, a
unicode string three, a key two, a length block four), one per loop iteration of `List.read` / `_read_body`;
bytes returned by `fp.read` are allocated. `read_fmt("%dd" % count, fp)` (UnitFloats) is ONE read of what is there.

The recursion through `TYPES` is on the same fuel as `Descriptor.decBody` (`d.length + 1`, never exhausted).
Core Lean only.
-/
import PsdVerif.Model.PayloadCost

namespace PsdVerif.DescriptorCost
open PsdVerif PsdVerif.Codec PsdVerif.PsdCost PsdVerif.Descriptor PsdVerif.PayloadCost

def rbindC {α β : Type} (r : RC α) (f : α → RC β) : RC β := fun d p => do
  let (a, p1) ← r d p
  f a d p1

infixl:55 " >>~ " => rbindC

def rpureC {α : Type} (a : α) : RC α := fun _ p => CE.ok (a, p)
def rfailC {α : Type} (e : Err) : RC α := fun _ _ => CE.error e

def readTagC : RC Tag :=
  (readUpToC 4) >>~ fun b =>
    match Tag.ofBytes b with
    | some t => rpureC t
    | none => rfailC .valueError

def readI64C : RC Int := (readUC 8) >>~ fun n => rpureC (natToI64 n)
def readBoolC : RC Bool := (readUC 1) >>~ fun n => rpureC (n != 0)
def readKeyRC (tb : Tables) : RC Key := readKeyC tb.terms
def readStrC : RC Str := readUStrC 1

def unitOfC (tb : Tables) (b : B) : RC UnitRef :=
  if tb.isUnit b then rpureC ⟨true, b⟩
  else if tb.isEnum b then rpureC ⟨false, b⟩
  else rfailC .valueError

/-- `read_fmt("%dd" % count, fp)`: one `fp.read(8 * count)` -/
def readF64sC (n : Nat) : RC (List Nat) := fun d p => prim (readF64s n d p) (min (8 * n) (d.length - p))

def taggedC (rec : Tag → RC DVal) : RC DVal := readTagC >>~ rec

def keyedC (tb : Tables) (rec : Tag → RC DVal) : RC (Key × DVal) :=
  (readKeyRC tb) >>~ fun k => (taggedC rec) >>~ fun v => rpureC (k, v)

def readBodyC (tb : Tables) (rec : Tag → RC DVal) : RC (Str × Key × Items) :=
  readStrC >>~ fun nm => (readKeyRC tb) >>~ fun cid => (readUC 4) >>~ fun n =>
    (readCountC (keyedC tb rec) n) >>~ fun items => rpureC (nm, cid, dictOf items)

def decIntC (t : IntTag) : RC DVal := readI32C >>~ fun z => rpureC (.int t z)
def decClassC (tb : Tables) (t : ClassTag) : RC DVal :=
  readStrC >>~ fun nm => (readKeyRC tb) >>~ fun cid => rpureC (.klass t nm cid)
def decRawC (t : RawTag) : RC DVal := (readLenBlockC 0 4 1) >>~ fun data => rpureC (.raw t data)
def decListC (rec : Tag → RC DVal) (t : ListTag) : RC DVal :=
  (readUC 4) >>~ fun n => (readCountC (taggedC rec) n) >>~ fun items => rpureC (.list t items)
def decDescC (tb : Tables) (rec : Tag → RC DVal) (t : DescTag) : RC DVal :=
  (readBodyC tb rec) >>~ fun x => rpureC (.desc t x.1 x.2.1 x.2.2)

def decWithC (tb : Tables) (rec : Tag → RC DVal) : Tag → RC DVal
  | .integer => decIntC .integer
  | .identifier => decIntC .identifier
  | .index => decIntC .index
  | .largeInteger => readI64C >>~ fun z => rpureC (.large z)
  | .boolean => readBoolC >>~ fun b => rpureC (.bool b)
  | .double => (readUC 8) >>~ fun bits => rpureC (.double bits)
  | .unitFloat =>
    (readNC 4) >>~ fun u4 => (readUC 8) >>~ fun bits => (unitOfC tb u4) >>~ fun u => rpureC (.unitFloat u bits)
  | .unitFloats =>
    (readNC 4) >>~ fun u4 => (readUC 4) >>~ fun n => (unitOfC tb u4) >>~ fun u =>
      (readF64sC n) >>~ fun vs => rpureC (.unitFloats u vs)
  | .string => readStrC >>~ fun s => rpureC (.string s)
  | .enumerated => (readKeyRC tb) >>~ fun ty => (readKeyRC tb) >>~ fun en => rpureC (.enumerated ty en)
  | .enumeratedReference =>
    readStrC >>~ fun nm => (readKeyRC tb) >>~ fun cid => (readKeyRC tb) >>~ fun ty => (readKeyRC tb) >>~ fun en =>
      rpureC (.enumRef nm cid ty en)
  | .class1 => decClassC tb .class1
  | .class2 => decClassC tb .class2
  | .class3 => decClassC tb .class3
  | .property =>
    readStrC >>~ fun nm => (readKeyRC tb) >>~ fun cid => (readKeyRC tb) >>~ fun kid => rpureC (.property nm cid kid)
  | .name => readStrC >>~ fun nm => (readKeyRC tb) >>~ fun cid => readStrC >>~ fun val => rpureC (.name nm cid val)
  | .offset =>
    readStrC >>~ fun nm => (readKeyRC tb) >>~ fun cid => (readUC 4) >>~ fun n => rpureC (.offset nm cid (n : Int))
  | .rawData => decRawC .rawData
  | .alias => decRawC .alias
  | .path => decRawC .path
  | .list => decListC rec .list
  | .reference => decListC rec .reference
  | .descriptor => decDescC tb rec .descriptor
  | .globalObject => decDescC tb rec .globalObject
  | .objectArray =>
    (readUC 4) >>~ fun c => (readBodyC tb rec) >>~ fun x => rpureC (.objArray (c : Int) x.1 x.2.1 x.2.2)

def decBodyC (tb : Tables) : Nat → Tag → RC DVal
  | 0 => fun _ => rfailC .recursionError
  | fuel + 1 => decWithC tb (decBodyC tb fuel)

def decC (tb : Tables) (t : Tag) : RC DVal := fun d p => decBodyC tb (d.length + 1) t d p

def decTaggedC (tb : Tables) : RC DVal := fun d p => taggedC (decBodyC tb (d.length + 1)) d p

def Block.decC (tb : Tables) : RC Block := fun d p =>
  ((readUC 4) >>~ fun ver => (readBodyC tb (decBodyC tb (d.length + 1))) >>~ fun x =>
    if ver = 16 then rpureC ⟨(ver : Int), x.1, x.2.1, x.2.2⟩ else rfailC .valueError) d p

def Block2.decC (tb : Tables) : RC Block2 := fun d p =>
  ((readUC 4) >>~ fun ver => (readUC 4) >>~ fun dv => (readBodyC tb (decBodyC tb (d.length + 1))) >>~ fun x =>
    if dv = 16 then rpureC ⟨(ver : Int), (dv : Int), x.1, x.2.1, x.2.2⟩ else rfailC .valueError) d p

end PsdVerif.DescriptorCost
