/-
C09 / C10 / C14 — the layer tree as an id-indexed store (DESIGN §3 "Object graphs").

`State` is a store of nodes addressed by `Id` (ids `< next` are live Python objects);
`children`, `parent`, `psd`, … are lookup functions updated pointwise, NOT an inductive
tree, so that the ill-formed object graphs the real code can reach (a group listed in
itself, a layer listed twice, a stale parent pointer) are representable.

`step cfg s op` mirrors `psd_tools/api/layers.py` + `api/psd_image.py` operation by
operation, including the ORDER of check / mutation / bookkeeping. `cfg` says which of the
repairs made to the code are present (`Cfg.current` = the repaired code, `Cfg.legacy` =
the snapshot), so that the counterexamples of the old code stay machine-checked.

Core Lean only (the driver links this file).
-/
import PsdVerif.Model.Basic

namespace PsdVerif.TreeSt
open PsdVerif

abbrev Id := Nat

/-- `doc` = PSDImage, `group` = Group, `artboard` = Artboard, `leaf` = every other Layer. -/
inductive Kind where
  | doc | group | artboard | leaf
  deriving DecidableEq, Repr, Inhabited

/-- (left, top, right, bottom) -/
structure BBox where
  l : Int
  t : Int
  r : Int
  b : Int
  deriving DecidableEq, Repr, Inhabited

def BBox.zero : BBox := ⟨0, 0, 0, 0⟩

/-- Which repairs are present in the code being modelled. -/
structure Cfg where
  /-- cec89fb: `_check_valid_layers` compares every item with the container -/
  itemSelfCheck : Bool
  /-- 09c40bc: `group_layers` validates before moving -/
  groupLayersPrecheck : Bool
  /-- 6b2ac1c: `_invalidate_bbox` climbs to the document -/
  climbToDoc : Bool
  /-- 52bed49: structural edits invalidate cached boxes -/
  invalidateOnEdit : Bool
  /-- 29b367a: the `visible` setter of a group invalidates the groups below -/
  invalidateBelow : Bool
  /-- 14de9fd: `group_layers` takes the first layer's parent only when the layer is listed there -/
  listedParentOnly : Bool
  deriving DecidableEq, Repr

def Cfg.current : Cfg := ⟨true, true, true, true, true, true⟩
def Cfg.legacy : Cfg := ⟨false, false, false, false, false, false⟩

structure State where
  /-- ids `< next` are live objects; `next` is the id of the next object created -/
  next : Id
  /-- recursion budget (stands for the interpreter's recursion limit) -/
  limit : Nat
  kind : Id → Kind
  /-- `_layers` -/
  children : Id → List Id
  /-- `_parent` -/
  parent : Id → Option Id
  /-- `_psd` -/
  psd : Id → Option Id
  /-- `_record.flags.visible` -/
  visible : Id → Bool
  /-- record rectangle of a leaf; canvas `(0,0,w,h)` of a document; `artboardRect` -/
  box : Id → BBox
  /-- `_bbox` of groups, artboards and documents -/
  cache : Id → Option BBox
  /-- `_updated_layers` of documents -/
  dirty : Id → Bool
  /-- the keys of `_record.tagged_blocks` of a layer, in stored order (4-character codes as numbers). What the
  blocks contain is outside this model; WHICH blocks a record carries is what a save writes, and no read-only
  call may change it (C14). The lists change only through `Op.setBlocks` (edits outside the modelled state). -/
  blocks : Id → List Nat

/-- pointwise update -/
def upd {α : Type} (f : Id → α) (i : Id) (v : α) : Id → α := fun j => if j = i then v else f j

/-- what Python returns / raises -/
inductive Out where
  | none
  | id (x : Id)
  | ids (xs : List Id)
  | box (b : BBox)
  | pair (a b : Int)
  | int (n : Int)
  | bool (v : Bool)
  | error (e : Err)
  deriving DecidableEq, Repr, Inhabited

def Out.isError : Out → Bool
  | .error _ => true
  | _ => false

/-! ### Python list semantics -/

/-- index of `__getitem__` / `__setitem__` / `__delitem__` / `pop`: negative from the end, else IndexError -/
def normIdx (len : Nat) (i : Int) : Option Nat :=
  let j : Int := if i < 0 then i + len else i
  if 0 ≤ j ∧ j < len then some j.toNat else none

/-- index of `insert` and slice bounds: negative from the end, then clamped to `[0, len]` -/
def clampIdx (len : Nat) (i : Int) : Nat :=
  let j : Int := if i < 0 then i + len else i
  if j < 0 then 0 else if j > len then len else j.toNat

/-- `[a:b]` (step 1): the half-open range `lo ≤ k < hi` with `lo ≤ hi` -/
def sliceBounds (len : Nat) (a b : Option Int) : Nat × Nat :=
  let lo := match a with | none => 0 | some a => clampIdx len a
  let hi := match b with | none => len | some b => clampIdx len b
  (lo, max lo hi)

def insertAt (l : List Id) (i : Nat) (x : Id) : List Id := l.take i ++ x :: l.drop i

def sliceAssign (l : List Id) (lo hi : Nat) (xs : List Id) : List Id := l.take lo ++ xs ++ l.drop hi

/-! ### Kinds -/

/-- `isinstance(_, GroupMixin)` -/
def isCont : Kind → Bool
  | .leaf => false
  | _ => true

def State.live (s : State) (x : Id) : Bool := decide (x < s.next)
def State.cont (s : State) (x : Id) : Bool := isCont (s.kind x)
/-- `isinstance(x, Layer)`: a live object that is not a document -/
def State.isLayer (s : State) (x : Id) : Bool := s.live x && s.kind x != .doc
/-- a live Group / Artboard / PSDImage -/
def State.isGroup (s : State) (x : Id) : Bool := s.live x && s.cont x

/-- `self if isinstance(self, PSDImage) else self._psd` -/
def State.docOf (s : State) (g : Id) : Option Id := if s.kind g = .doc then some g else s.psd g

/-! ### Traversals (with the recursion budget) -/

def descList (rec : Id → Except Err (List Id)) (s : State) : List Id → Except Err (List Id)
  | [] => .ok []
  | c :: cs =>
    match (if s.cont c then rec c else .ok []) with
    | .error e => .error e
    | .ok a =>
      match descList rec s cs with
      | .error e => .error e
      | .ok b => .ok (c :: a ++ b)

/-- `list(g.descendants())` -/
def descF (s : State) : Nat → Id → Except Err (List Id)
  | 0, _ => .error .recursionError
  | f + 1, g => descList (descF s f) s (s.children g)

def desc (s : State) (g : Id) : Except Err (List Id) := descF s s.limit g

/-- the snapshot's `descendants()`: after each child also its `clip_layers` -/
def descListLegacy (clip : Id → List Id) (rec : Id → Except Err (List Id)) (s : State) :
    List Id → Except Err (List Id)
  | [] => .ok []
  | c :: cs =>
    match (if s.cont c then rec c else .ok []) with
    | .error e => .error e
    | .ok a =>
      match descListLegacy clip rec s cs with
      | .error e => .error e
      | .ok b => .ok (c :: a ++ clip c ++ b)

def descLegacyF (clip : Id → List Id) (s : State) : Nat → Id → Except Err (List Id)
  | 0, _ => .error .recursionError
  | f + 1, g => descListLegacy clip (descLegacyF clip s f) s (s.children g)

/-- `Layer.is_visible()` / `PSDImage.is_visible()` -/
def isVisF (s : State) : Nat → Id → Except Err Bool
  | 0, _ => .error .recursionError
  | f + 1, x =>
    if s.kind x = .doc then .ok true
    else if !s.visible x then .ok false
    else match s.parent x with
      | none => .ok false
      | some p => isVisF s f p

def isVis (s : State) (x : Id) : Except Err Bool := isVisF s s.limit x

def BBox.union (a b : BBox) : BBox := ⟨min a.l b.l, min a.t b.t, max a.r b.r, max a.b b.b⟩

/-- the tail of `extract_bbox`: drop `(0,0,0,0)`, then min / max -/
def unionAll (bs : List BBox) : BBox :=
  match bs.filter (fun b => b != BBox.zero) with
  | [] => BBox.zero
  | b :: rest => rest.foldl BBox.union b

def extList (rec : Id → Except Err BBox) (s : State) : List Id → Except Err (List BBox)
  | [] => .ok []
  | c :: cs =>
    match isVis s c with
    | .error e => .error e
    | .ok false => extList rec s cs
    | .ok true =>
      match (if s.cont c then rec c else .ok (s.box c)) with
      | .error e => .error e
      | .ok b =>
        match extList rec s cs with
        | .error e => .error e
        | .ok bs => .ok (b :: bs)

/-- `Group.extract_bbox(g)` -/
def extF (s : State) : Nat → Id → Except Err BBox
  | 0, _ => .error .recursionError
  | f + 1, g =>
    match extList (extF s f) s (s.children g) with
    | .error e => .error e
    | .ok bs => .ok (unionAll bs)

def extractBbox (s : State) (g : Id) : Except Err BBox := extF s s.limit g

/-! ### Bookkeeping (`_update_psd_record`, `_invalidate_bbox`, `_update_layer_metadata`) -/

def clearCache (s : State) (x : Id) : State := { s with cache := upd s.cache x none }

/-- `_invalidate_bbox`: a loop over the parent pointers that stops at a node seen before
(removed layers keep their parent pointer, so the chain may be circular). The counter only
makes the definition structural: a chain of distinct live ids is shorter than `next + 1`.
(The snapshot's version was recursive and stopped below the document; its RecursionError on a
circular chain is not modelled.) -/
def invUpF (cfg : Cfg) : Nat → List Id → State → Id → State
  | 0, _, s, _ => s
  | f + 1, seen, s, x =>
    if x ∈ seen then s
    else if s.kind x = .doc then clearCache s x
    else
      let s1 := if s.cont x then clearCache s x else s
      match s.parent x with
      | none => s1
      | some p =>
        if !s.cont p || (s.kind p == .doc && !cfg.climbToDoc) then s1
        else invUpF cfg f (x :: seen) s1 p

def invUp (cfg : Cfg) (s : State) (x : Id) : State := invUpF cfg (s.next + 1) [] s x

def markDirty (s : State) (g : Id) : State :=
  match s.docOf g with
  | some d => { s with dirty := upd s.dirty d true }
  | none => s

/-- `_update_psd_record`. Since 19d58e7 it also recomputes the clipping relation of the document
(`_compute_clipping_layers`): that relation is not part of this model (C15), and the traversal it
makes is covered by the standing assumption that the recursion limit is not hit. -/
def updateRecord (cfg : Cfg) (s : State) (g : Id) : State :=
  let s1 := markDirty s g
  if cfg.invalidateOnEdit then invUp cfg s1 g else s1

def setPsdAll (s : State) (ds : List Id) (d : Id) : State :=
  { s with psd := fun y => if y ∈ ds then some d else s.psd y }

def clearConts (s : State) (ds : List Id) : State :=
  { s with cache := fun y => if y ∈ ds ∧ s.cont y then none else s.cache y }

def setParentAll (s : State) (cs : List Id) (g : Id) : State :=
  { s with parent := fun y => if y ∈ cs then some g else s.parent y }

/-- `_update_layer_metadata` (pixel conversion on adoption is not modelled) -/
def metadata (cfg : Cfg) (s : State) (g : Id) : State × Bool :=
  match desc s g with
  | .error _ => (s, false)
  | .ok ds =>
    let s1 := match s.docOf g with
      | some d => setPsdAll s ds d
      | none => s
    let s2 := if cfg.invalidateOnEdit then clearConts s1 ds else s1
    (setParentAll s2 (s.children g) g, true)

/-- the loop of `_check_valid_layers`; `none` = accepted, otherwise the exception together with
the objects whose `repr` the assertion message formats (`repr` of a group reads its `bbox`). -/
def checkValid (cfg : Cfg) (s : State) (g : Id) : List Id → Option (Err × List Id)
  | [] => none
  | x :: xs =>
    if !s.isLayer x then some (.assertionError, [])
    else if cfg.itemSelfCheck && x == g then some (.assertionError, [g])
    else if s.cont x then
      match desc s x with
      | .error e => some (e, [])
      | .ok ds => if g ∈ ds then some (.assertionError, [g, x]) else checkValid cfg s g xs
    else checkValid cfg s g xs

/-- `_check_valid_layers(x)` for a single layer: `layers is not self` comes first -/
def checkSingle (cfg : Cfg) (s : State) (g x : Id) : Option (Err × List Id) :=
  if x = g then some (.assertionError, [g]) else checkValid cfg s g [x]

/-! ### Observations -/

inductive Obs where
  | bbox (x : Id)
  | size (x : Id)
  | repr (x : Id)
  | descendants (g : Id)
  | len (g : Id)
  | index (g x : Id)
  | count (g x : Id)
  | getitem (g : Id) (i : Int)
  | contains (g x : Id)
  | isVisible (x : Id)
  /-- any other public property getter or zero-argument query of `x`, found by reflection on the live classes
  (`name`, `kind`, `opacity`, `blend_mode`, `locks`, `mask`, `effects`, `tagged_blocks`, `has_*`, `is_group`, …):
  answers from what is stored, writes nothing (the answer itself is outside the model) -/
  | getter (x : Id)
  /-- an opaque read-only call (composite, numpy, topil …) that read `bbox` of these nodes -/
  | touch (xs : List Id)
  deriving DecidableEq, Repr

/-- `GroupMixin.bbox` / `Artboard.bbox`: the raw cached value -/
def readCache (s : State) (x : Id) : State × Except Err BBox :=
  match s.cache x with
  | some b => (s, .ok b)
  | none =>
    if s.kind x = .artboard then ({ s with cache := upd s.cache x (some (s.box x)) }, .ok (s.box x))
    else
      match extractBbox s x with
      | .error e => (s, .error e)
      | .ok b => ({ s with cache := upd s.cache x (some b) }, .ok b)

/-- `x.bbox` -/
def obsBbox (s : State) (x : Id) : State × Except Err BBox :=
  if !s.cont x then (s, .ok (s.box x))
  else
    match readCache s x with
    | (s1, .error e) => (s1, .error e)
    | (s1, .ok b) => (s1, .ok (if s.kind x = .doc ∧ b = BBox.zero then s.box x else b))

/-- `repr(x)` for each of the objects (`Layer.__repr__` reads `width`, hence `bbox`) -/
def reprAll : State → List Id → State × Option Err
  | s, [] => (s, none)
  | s, x :: xs =>
    if s.kind x = .doc then reprAll s xs
    else
      match obsBbox s x with
      | (s1, .error e) => (s1, some e)
      | (s1, .ok _) => reprAll s1 xs

/-- the exception of a refused operation; formatting its message may fill caches -/
def refuse (s : State) (r : Err × List Id) : State × Out :=
  match reprAll s r.2 with
  | (s1, none) => (s1, .error r.1)
  | (s1, some e) => (s1, .error e)

def touchAll : State → List Id → State × Out
  | s, [] => (s, .none)
  | s, x :: xs =>
    match obsBbox s x with
    | (s1, .error e) => (s1, .error e)
    | (s1, .ok _) => touchAll s1 xs

def observe (s : State) : Obs → State × Out
  | .bbox x =>
    match obsBbox s x with
    | (s1, .error e) => (s1, .error e)
    | (s1, .ok b) => (s1, .box b)
  | .size x =>
    if s.kind x = .doc then (s, .pair ((s.box x).r - (s.box x).l) ((s.box x).b - (s.box x).t))
    else
      match obsBbox s x with
      | (s1, .error e) => (s1, .error e)
      | (s1, .ok b) => (s1, .pair (b.r - b.l) (b.b - b.t))
  | .repr x =>
    if s.kind x = .doc then (s, .none)
    else
      match obsBbox s x with
      | (s1, .error e) => (s1, .error e)
      | (s1, .ok _) => (s1, .none)
  | .descendants g =>
    match desc s g with
    | .error e => (s, .error e)
    | .ok ds => (s, .ids ds)
  | .len g => (s, .int (s.children g).length)
  | .index g x => if x ∈ s.children g then (s, .int ((s.children g).idxOf x)) else refuse s (.valueError, [x])
  | .count g x => (s, .int ((s.children g).count x))
  | .getitem g i =>
    match normIdx (s.children g).length i with
    | none => (s, .error .indexError)
    | some j => match (s.children g)[j]? with
      | none => (s, .error .indexError)
      | some x => (s, .id x)
  | .contains g x => (s, .bool (decide (x ∈ s.children g)))
  | .isVisible x =>
    match isVis s x with
    | .error e => (s, .error e)
    | .ok v => (s, .bool v)
  | .getter _ => (s, .none)
  | .touch xs => touchAll s xs

/-! ### The mutators of `GroupMixin` -/

def setChildren (s : State) (g : Id) (l : List Id) : State := { s with children := upd s.children g l }

/-- `_update_layer_metadata(); _update_psd_record()` after the list was changed -/
def finishInsert (cfg : Cfg) (s : State) (g : Id) (out : Out) : State × Out :=
  match metadata cfg s g with
  | (s2, false) => (s2, .error .recursionError)
  | (s2, true) => (updateRecord cfg s2 g, out)

def opExtend (cfg : Cfg) (s : State) (g : Id) (xs : List Id) : State × Out :=
  match checkValid cfg s g xs with
  | some r => refuse s r
  | none => finishInsert cfg (setChildren s g (s.children g ++ xs)) g .none

def opAppend (cfg : Cfg) (s : State) (g x : Id) : State × Out :=
  if x = g then (s, .error .assertionError) else opExtend cfg s g [x]

def opInsert (cfg : Cfg) (s : State) (g : Id) (i : Int) (x : Id) : State × Out :=
  match checkSingle cfg s g x with
  | some r => refuse s r
  | none =>
    let l := s.children g
    finishInsert cfg (setChildren s g (insertAt l (clampIdx l.length i) x)) g .none

def opSetitem (cfg : Cfg) (s : State) (g : Id) (i : Int) (x : Id) : State × Out :=
  match checkSingle cfg s g x with
  | some r => refuse s r
  | none =>
    let l := s.children g
    match normIdx l.length i with
    | none => (s, .error .indexError)
    | some j => finishInsert cfg (setChildren s g (l.set j x)) g .none

def opSetslice (cfg : Cfg) (s : State) (g : Id) (a b : Option Int) (xs : List Id) : State × Out :=
  match checkValid cfg s g xs with
  | some r => refuse s r
  | none =>
    let l := s.children g
    let (lo, hi) := sliceBounds l.length a b
    finishInsert cfg (setChildren s g (sliceAssign l lo hi xs)) g .none

def finishRemove (cfg : Cfg) (s : State) (g : Id) (out : Out) : State × Out :=
  (updateRecord cfg s g, out)

def opRemove (cfg : Cfg) (s : State) (g x : Id) : State × Out :=
  if x ∈ s.children g then finishRemove cfg (setChildren s g ((s.children g).erase x)) g (.id g)
  else (s, .error .valueError)

def opPop (cfg : Cfg) (s : State) (g : Id) (i : Int) : State × Out :=
  let l := s.children g
  match normIdx l.length i with
  | none => (s, .error .indexError)
  | some j =>
    match l[j]? with
    | none => (s, .error .indexError)
    | some x => finishRemove cfg (setChildren s g (l.eraseIdx j)) g (.id x)

def opClear (cfg : Cfg) (s : State) (g : Id) : State × Out :=
  finishRemove cfg (setChildren s g []) g .none

/-- `__delitem__`: the list operation, then the bookkeeping (the snapshot set the dirty flag
before the list could raise IndexError; the order was changed by 19d58e7, the C15 repair) -/
def opDelitem (cfg : Cfg) (s : State) (g : Id) (i : Int) : State × Out :=
  let l := s.children g
  match normIdx l.length i with
  | none => (s, .error .indexError)
  | some j => finishRemove cfg (setChildren s g (l.eraseIdx j)) g .none

def opDelslice (cfg : Cfg) (s : State) (g : Id) (a b : Option Int) : State × Out :=
  let l := s.children g
  let (lo, hi) := sliceBounds l.length a b
  finishRemove cfg (setChildren s g (sliceAssign l lo hi [])) g .none

/-! ### The operations of `Layer` -/

/-- `if self in self.parent: self.parent.remove(self)` for a parent pointer `p` -/
def detach (cfg : Cfg) (s : State) (x p : Id) : State × Out :=
  if x ∈ s.children p then opRemove cfg s p x else (s, .none)

def opMoveToGroup (cfg : Cfg) (s : State) (x g : Id) : State × Out :=
  if !s.isLayer x then (s, .error .attributeError)
  else if !s.isGroup g then (s, .error .assertionError)
  else if g = x then (s, .error .assertionError)
  else
    match (if s.cont x then desc s x else .ok []) with
    | .error e => (s, .error e)
    | .ok ds =>
      if g ∈ ds then refuse s (.assertionError, [x, g])
      else
        let r1 := match s.parent x with
          | some p => if s.cont p then detach cfg s x p else (s, .none)
          | none => (s, .none)
        if r1.2.isError then r1
        else
          let r2 := opAppend cfg r1.1 g x
          if r2.2.isError then r2 else (r2.1, .id x)

/-- `logger.warning("Cannot delete layer {} …".format(self))`: the message is formatted eagerly -/
def warnRepr (s : State) (x : Id) : State × Out :=
  match reprAll s [x] with
  | (s1, none) => (s1, .id x)
  | (s1, some e) => (s1, .error e)

def opDeleteLayer (cfg : Cfg) (s : State) (x : Id) : State × Out :=
  if !s.isLayer x then (s, .error .attributeError)
  else
    match s.parent x with
    | none => warnRepr s x
    | some p =>
      if !s.cont p then warnRepr s x
      else
        let r1 := detach cfg s x p
        if r1.2.isError then r1
        else finishRemove cfg r1.1 p (.id x)

def opMoveUp (cfg : Cfg) (s : State) (x : Id) (k : Int) : State × Out :=
  if !s.isLayer x then (s, .error .attributeError)
  else
    match s.parent x with
    | none => (s, .error .assertionError)
    | some p =>
      if !s.cont p then (s, .error .assertionError)
      else
        let l := s.children p
        if x ∈ l then
          let n : Int := (l.idxOf x : Int) + k
          let n' : Int := if n < 0 then 0 else if n ≥ l.length then (l.length : Int) - 1 else n
          let r1 := opRemove cfg s p x
          if r1.2.isError then r1
          else
            let r2 := opInsert cfg r1.1 p n' x
            if r2.2.isError then r2 else (r2.1, .id x)
        else refuse s (.valueError, [x])   -- `list.index`: "<repr> is not in list"

/-! ### Object creation -/

def alloc (s : State) (k : Kind) (psd : Option Id) (bx : BBox) : State :=
  let n := s.next
  { s with
    next := n + 1
    kind := upd s.kind n k
    children := upd s.children n []
    parent := upd s.parent n none
    psd := upd s.psd n psd
    visible := upd s.visible n true
    box := upd s.box n bx
    cache := upd s.cache n none
    dirty := upd s.dirty n false
    blocks := upd s.blocks n [] }

/-- `Group.new(name, open_folder, parent)` -/
def opNewGroup (cfg : Cfg) (s : State) (parent : Option Id) : State × Out :=
  let n := s.next
  let s1 := alloc s .group none BBox.zero
  match parent with
  | none => (s1, .id n)
  | some p =>
    if s.isGroup p then      -- the parent argument exists before the call
      let r := opMoveToGroup cfg s1 n p
      if r.2.isError then r else (r.1, .id n)
    else (s1, .id n)

def moveAll (cfg : Cfg) (n : Id) : State → List Id → State × Out
  | s, [] => (s, .none)
  | s, x :: xs =>
    let r := opMoveToGroup cfg s x n
    if r.2.isError then r else moveAll cfg n r.1 xs

/-- the parent `group_layers` uses: the argument, else the first layer's parent pointer -/
def glParent (cfg : Cfg) (s : State) (parent : Option Id) (x0 : Id) : Option Id :=
  match parent with
  | some p => some p
  | none => match s.parent x0 with
    | some p => if s.cont p && (!cfg.listedParentOnly || decide (x0 ∈ s.children p)) then some p else none
    | none => none

/-- the validation made before anything is moved (09c40bc) -/
def glPre (cfg : Cfg) (s : State) (par : Option Id) (xs : List Id) : Option (Err × List Id) :=
  if cfg.groupLayersPrecheck then
    if xs.any (fun x => !s.isLayer x) then some (.assertionError, [])
    else match par with
      | some p => if s.isGroup p then checkValid cfg s p xs else none
      | none => none
  else none

/-- create the group, move the layers into it, append it to the parent -/
def glBody (cfg : Cfg) (s : State) (par : Option Id) (xs : List Id) : State × Out :=
  let n := s.next
  let s1 := alloc s .group none BBox.zero
  let r := moveAll cfg n s1 xs
  if r.2.isError then r
  else
    match par with
    | some p =>
      if s.isGroup p then      -- the parent exists before the call
        let r2 := opAppend cfg r.1 p n
        if r2.2.isError then r2 else (r2.1, .id n)
      else (r.1, .id n)
    | none => (r.1, .id n)

/-- `Group.group_layers(layers, name, parent, open_folder)` -/
def opGroupLayers (cfg : Cfg) (s : State) (xs : List Id) (parent : Option Id) : State × Out :=
  match xs with
  | [] => (s, .error .assertionError)
  | x0 :: _ =>
    if !s.isLayer x0 then (s, .error .attributeError)
    else
      match glPre cfg s (glParent cfg s parent x0) xs with
      | some r => refuse s r
      | none => glBody cfg s (glParent cfg s parent x0) xs

/-! ### Attribute setters that touch the caches -/

def opSetVisible (cfg : Cfg) (s : State) (x : Id) (v : Bool) : State × Out :=
  if !s.isLayer x then (s, .error .attributeError)
  else
    let s1 := invUp cfg s x
    if cfg.invalidateBelow && s1.cont x then
      match desc s1 x with
      | .error e => (s1, .error e)
      | .ok ds => ({ clearConts s1 ds with visible := upd s1.visible x v }, .none)
    else ({ s1 with visible := upd s1.visible x v }, .none)

/-- `left` / `top` setters (only plain layers have them: groups expose read-only properties) -/
def opSetOffset (cfg : Cfg) (s : State) (x : Id) (horizontal : Bool) (v : Int) : State × Out :=
  if !(s.isLayer x && s.kind x == .leaf) then (s, .error .attributeError)
  else
    let s1 := invUp cfg s x
    let b := s1.box x
    let b' : BBox := if horizontal then ⟨v, b.t, v + (b.r - b.l), b.b⟩ else ⟨b.l, v, b.r, v + (b.b - b.t)⟩
    ({ s1 with box := upd s1.box x b' }, .none)

/-! ### The transition function -/

inductive Op where
  | append (g x : Id)
  | extend (g : Id) (xs : List Id)
  | insert (g : Id) (i : Int) (x : Id)
  | remove (g x : Id)
  | pop (g : Id) (i : Int)
  | clear (g : Id)
  | setitem (g : Id) (i : Int) (x : Id)
  | setslice (g : Id) (a b : Option Int) (xs : List Id)
  | delitem (g : Id) (i : Int)
  | delslice (g : Id) (a b : Option Int)
  | deleteLayer (x : Id)
  | moveToGroup (x g : Id)
  | moveUp (x : Id) (k : Int)
  | moveDown (x : Id) (k : Int)
  | newGroup (parent : Option Id)
  | groupLayers (xs : List Id) (parent : Option Id)
  /-- `PixelLayer.frompil(image, psd, name, top, left)` -/
  | newLayer (psd : Option Id) (bx : BBox)
  /-- `PSDImage.new(mode, (w, h))`: an empty document with canvas `bx = (0, 0, w, h)` -/
  | newDoc (bx : BBox)
  | setVisible (x : Id) (v : Bool)
  | setLeft (x : Id) (v : Int)
  | setTop (x : Id) (v : Int)
  /-- an attribute setter outside the modelled state: `name`, `opacity`, `clipping_layer` (the last one
  recomputes the clipping relation, which is not part of this model): no list, pointer, dirty flag or
  cached box changes -/
  | setAttr (x : Id)
  /-- an edit outside the modelled state left layer `x` with the tagged-block keys `ks` (a new layer or group comes
  with its blocks, `name` adds the Unicode name, `lock` the protection block, adoption fetches shared blocks …):
  the harness reports the key list after every EDIT that changed it — never after a read-only call -/
  | setBlocks (x : Id) (ks : List Nat)
  | observe (o : Obs)
  deriving DecidableEq, Repr

/-- the container an operation is a method of (`none`: not a `GroupMixin` method) -/
def Op.target : Op → Option Id
  | .append g _ | .extend g _ | .insert g _ _ | .remove g _ | .pop g _ | .clear g
  | .setitem g _ _ | .setslice g _ _ _ | .delitem g _ | .delslice g _ _ => some g
  | _ => none

def step (cfg : Cfg) (s : State) (op : Op) : State × Out :=
  match op.target with
  | some g =>
    if !s.isGroup g then (s, .error .attributeError)   -- AttributeError: not a method of that object
    else
      match op with
      | .append _ x => opAppend cfg s g x
      | .extend _ xs => opExtend cfg s g xs
      | .insert _ i x => opInsert cfg s g i x
      | .remove _ x => opRemove cfg s g x
      | .pop _ i => opPop cfg s g i
      | .clear _ => opClear cfg s g
      | .setitem _ i x => opSetitem cfg s g i x
      | .setslice _ a b xs => opSetslice cfg s g a b xs
      | .delitem _ i => opDelitem cfg s g i
      | .delslice _ a b => opDelslice cfg s g a b
      | _ => (s, .error .attributeError)
  | none =>
    match op with
    | .deleteLayer x => opDeleteLayer cfg s x
    | .moveToGroup x g => opMoveToGroup cfg s x g
    | .moveUp x k => opMoveUp cfg s x k
    | .moveDown x k => opMoveUp cfg s x (-k)
    | .newGroup p => opNewGroup cfg s p
    | .groupLayers xs p => opGroupLayers cfg s xs p
    | .newLayer p bx =>
      (alloc s .leaf (match p with | some d => if s.live d && s.kind d == .doc then some d else none | none => none) bx,
       .id s.next)
    | .newDoc bx => (alloc s .doc none bx, .id s.next)
    | .setVisible x v => opSetVisible cfg s x v
    | .setLeft x v => opSetOffset cfg s x true v
    | .setTop x v => opSetOffset cfg s x false v
    | .setAttr x => if !s.isLayer x then (s, .error .attributeError) else (s, .none)
    | .setBlocks x ks =>
      if !s.isLayer x then (s, .error .attributeError) else ({ s with blocks := upd s.blocks x ks }, .none)
    | .observe o => observe s o
    | _ => (s, .error .attributeError)

/-- run a history, collecting the outputs -/
def run (cfg : Cfg) : State → List Op → State × List Out
  | s, [] => (s, [])
  | s, op :: ops =>
    let r := step cfg s op
    let rest := run cfg r.1 ops
    (rest.1, r.2 :: rest.2)

def runState (cfg : Cfg) (s : State) (ops : List Op) : State := (run cfg s ops).1

/-- the empty store -/
def State.empty (limit : Nat) : State :=
  { next := 0, limit := limit, kind := fun _ => .leaf, children := fun _ => [], parent := fun _ => none,
    psd := fun _ => none, visible := fun _ => true, box := fun _ => BBox.zero, cache := fun _ => none,
    dirty := fun _ => false, blocks := fun _ => [] }

end PsdVerif.TreeSt
