/-
Model of `psd_tools/psd/engine_data.py` on bytes (`List UInt8`): the tokenizer,
the `EngineToken` regular expressions as byte predicates (in enum order), the
parser (`Dict.frombytes` / `List.frombytes` sharing one tokenizer), the value
classes and both writers (indented `EngineData`, compact `EngineData2`).

The model follows the code AFTER the two `fix:` commits of this property
(tokenizer: a string ends at its first unescaped `)`; indented list writer:
non-dictionary items are written after a space).  The pre-fix end-of-string
search is kept as `strTokenOld` so that the defect stays stated.

Numbers: a decimal is `sign × mant × 10^-k` (`Dec`); CPython's float ↔ `'%.8f'`
conversion stays on the Python side (trusted), the harness canonicalises floats
to the eight-place decimal before comparing.

Core Lean only.
-/
import PsdVerif.Model.Basic

namespace PsdVerif.EngineData
open PsdVerif

abbrev BL := List UInt8

/-! ## Byte classes -/

/-- `[ \n\t]` (`Tokenizer.DIVIDER`). -/
def isDiv (b : UInt8) : Bool := b == 0x20 || b == 0x0A || b == 0x09
/-- `\d` in a bytes pattern: ASCII digits only. -/
def isDigit (b : UInt8) : Bool := 48 ≤ b.toNat && b.toNat ≤ 57
def isUpper (b : UInt8) : Bool := 65 ≤ b.toNat && b.toNat ≤ 90
def isLower (b : UInt8) : Bool := 97 ≤ b.toNat && b.toNat ≤ 122
/-- `[a-zA-Z0-9]` -/
def isAlnum (b : UInt8) : Bool := isDigit b || isUpper b || isLower b
/-- `[a-zA-Z0-9_]` -/
def isWord (b : UInt8) : Bool := isAlnum b || b == 0x5F

/-! ## Tokenizer -/

/-- `data[index:].startswith(b"(\xfe\xff")` -/
def strStart : BL → Bool
  | a :: b :: c :: _ => a == 0x28 && b == 0xFE && c == 0xFF
  | _ => false

/-- `(?:\\.|[^\\\)])*\)` matched at the head of the list (`re.S`: `.` is any byte):
the bytes consumed, closing parenthesis included, and what follows. The two
alternatives and `\)` start with different bytes, so the match is deterministic. -/
def strScan : BL → Option (BL × BL)
  | [] => none
  | b :: t =>
    if b = 0x29 then some ([b], t)
    else if b = 0x5C then
      match t with
      | [] => none
      | c :: t' => match strScan t' with
        | none => none
        | some (x, r) => some (b :: c :: x, r)
    else match strScan t with
      | none => none
      | some (x, r) => some (b :: x, r)

/-- `UTF16_END.search(data[index:])` with `UTF16_END = ^\(\xfe\xff(?:\\.|[^\\\)])*\)`,
only evaluated when `strStart` holds: the token and the rest. -/
def strToken : BL → Option (BL × BL)
  | a :: b :: c :: t => match strScan t with
    | none => none
    | some (x, r) => some (a :: b :: c :: x, r)
  | _ => none

/-- The end-of-string search BEFORE the fix: `[^\\]\)` searched from the start of
`data[index:]`; returns `match.end()`. -/
def oldEnd : BL → Option Nat
  | [] => none
  | a :: t => match t with
    | [] => none
    | b :: _ => if a ≠ 0x5C ∧ b = 0x29 then some 2 else (oldEnd t).map (· + 1)

def strTokenOld (d : BL) : Option (BL × BL) := (oldEnd d).map fun n => (d.take n, d.drop n)

/-- `Tokenizer.__next__` up to the token (classification follows in `nextTok`).
`none` = `StopIteration`. In the divider branch the code takes the bytes before the
first divider run as the token and moves the index behind the run; an empty token
(the data starts with a divider) makes it call itself again, which is the
`isDiv b` line (the run is skipped one byte per call instead of all at once). -/
def next : BL → Except Err (Option (BL × BL))
  | [] => .ok none
  | b :: t =>
    if strStart (b :: t) then
      match strToken (b :: t) with
      | none => .error .valueError
      | some (tok, rest) => .ok (some (tok, rest))
    else if isDiv b then next t
    else
      .ok (some ((b :: t).takeWhile (fun x => !isDiv x),
                 ((b :: t).dropWhile (fun x => !isDiv x)).dropWhile isDiv))

/-! ## `EngineToken`: the regular expressions as byte predicates -/

inductive Tok where
  | arrayEnd | arrayStart | boolean | dictEnd | dictStart | noop | number
  | numberDec | property | string | tag | tag2
  deriving DecidableEq, Repr, Inhabited

def Tok.name : Tok → String
  | .arrayEnd => "ARRAY_END" | .arrayStart => "ARRAY_START" | .boolean => "BOOLEAN"
  | .dictEnd => "DICT_END" | .dictStart => "DICT_START" | .noop => "NOOP"
  | .number => "NUMBER" | .numberDec => "NUMBER_WITH_DECIMAL" | .property => "PROPERTY"
  | .string => "STRING" | .tag => "UNKNOWN_TAG" | .tag2 => "UNKNOWN_TAG2"

/-- `$` without `re.M`: at the end, or before a newline that ends the subject. -/
def isEnd (r : BL) : Bool := r == [] || r == [0x0A]

def stripPre : BL → BL → Option BL
  | [], d => some d
  | _ :: _, [] => none
  | p :: ps, b :: t => if p = b then stripPre ps t else none

/-- `-?` (if the byte is consumed and the rest fails, not consuming it fails too:
every continuation starts with a digit or a dot). -/
def optMinus : BL → BL
  | b :: t => if b = 0x2D then t else b :: t
  | [] => []

def cTrue : BL := [0x74, 0x72, 0x75, 0x65]
def cFalse : BL := [0x66, 0x61, 0x6C, 0x73, 0x65]

/-- `^\]$` -/
def reArrayEnd : BL → Bool
  | b :: r => b == 0x5D && isEnd r
  | [] => false
/-- `^\[$` -/
def reArrayStart : BL → Bool
  | b :: r => b == 0x5B && isEnd r
  | [] => false
/-- `^(true|false)$` -/
def reBoolean (t : BL) : Bool :=
  (match stripPre cTrue t with | some r => isEnd r | none => false) ||
  (match stripPre cFalse t with | some r => isEnd r | none => false)
/-- `^>>(\x00)*$` -/
def reDictEnd (t : BL) : Bool :=
  match stripPre [0x3E, 0x3E] t with
  | some r => isEnd (r.dropWhile (· == 0))
  | none => false
/-- `^<<$` -/
def reDictStart (t : BL) : Bool :=
  match stripPre [0x3C, 0x3C] t with
  | some r => isEnd r
  | none => false
/-- `^$` -/
def reNoop (t : BL) : Bool := isEnd t
/-- `^-?\d+$` -/
def reNumber (t : BL) : Bool :=
  let r := optMinus t
  !(r.takeWhile isDigit).isEmpty && isEnd (r.dropWhile isDigit)
/-- `^-?\d*\.\d+$` -/
def reNumberDec (t : BL) : Bool :=
  match (optMinus t).dropWhile isDigit with
  | b :: r => b == 0x2E && !(r.takeWhile isDigit).isEmpty && isEnd (r.dropWhile isDigit)
  | [] => false
/-- `^\/[a-zA-Z0-9_]+$` -/
def reProperty : BL → Bool
  | b :: r => b == 0x2F && !(r.takeWhile isWord).isEmpty && isEnd (r.dropWhile isWord)
  | [] => false
/-- `([^\)]|\\\))*\)$`: every `)` of the body directly follows a backslash; the
parenthesis that closes is one that `$` can follow. `prev` = the byte before is `\`. -/
def strTail (prev : Bool) : BL → Bool
  | [] => false
  | b :: t => if b = 0x29 then (isEnd t || (prev && strTail false t)) else strTail (b == 0x5C) t
/-- `^\((\xfe\xff([^\)]|\\\))*)\)$` -/
def reString : BL → Bool
  | a :: b :: c :: r => a == 0x28 && b == 0xFE && c == 0xFF && strTail false r
  | _ => false
/-- `^\([a-zA-Z0-9]*\)$` -/
def reTag : BL → Bool
  | a :: r => a == 0x28 && (match r.dropWhile isAlnum with
      | b :: e => b == 0x29 && isEnd e
      | [] => false)
  | [] => false
/-- `^--\(\.-0$` -/
def reTag2 (t : BL) : Bool :=
  match stripPre [0x2D, 0x2D, 0x28, 0x2E, 0x2D, 0x30] t with
  | some r => isEnd r
  | none => false

/-- `for token_type in EngineToken: if token_type.value.search(token): return …`
(definition order of the enum); `none` = `ValueError("Unknown token")`. -/
def classify (t : BL) : Option Tok :=
  if reArrayEnd t then some .arrayEnd
  else if reArrayStart t then some .arrayStart
  else if reBoolean t then some .boolean
  else if reDictEnd t then some .dictEnd
  else if reDictStart t then some .dictStart
  else if reNoop t then some .noop
  else if reNumber t then some .number
  else if reNumberDec t then some .numberDec
  else if reProperty t then some .property
  else if reString t then some .string
  else if reTag t then some .tag
  else if reTag2 t then some .tag2
  else none

/-- `Tokenizer.__next__`: token, token type, remaining data. -/
def nextTok (d : BL) : Except Err (Option (BL × Tok × BL)) :=
  match next d with
  | .error e => .error e
  | .ok none => .ok none
  | .ok (some (tok, rest)) =>
    match classify tok with
    | none => .error .valueError
    | some ty => .ok (some (tok, ty, rest))

/-! ## Values -/

/-- A decimal `(-1)^neg × mant × 10^-k`. -/
structure Dec where
  neg : Bool
  mant : Nat
  k : Nat
  deriving DecidableEq, Repr, Inhabited

inductive Scalar where
  | str (s : List Nat)      -- `String`: code points of the Python `str`
  | bool (b : Bool)         -- `Bool`
  | int (i : Int)           -- `Integer`
  | flt (d : Dec)           -- `Float`
  | prop (name : BL)        -- `Property` (MacRoman bytes of the name)
  | tag (raw : BL)          -- `Tag`
  deriving DecidableEq, Repr, Inhabited

inductive Val where
  | dict (items : List (BL × Val))   -- `Dict`: insertion-ordered, keys = property names
  | list (elems : List Val)          -- `List`
  | sc (s : Scalar)
  deriving Repr, Inhabited

/-- The items of the top-level `EngineData` / `EngineData2`. -/
abbrev Tree := List (BL × Val)

/-! ### `String`: byte-level escaping inside UTF-16 -/

/-- `bytes.replace(bytes([x]), r)` -/
def replace1 (x : UInt8) (r : BL) : BL → BL
  | [] => []
  | b :: t => if b = x then r ++ replace1 x r t else b :: replace1 x r t

/-- `bytes.replace(bytes([x, y]), r)`: leftmost, non-overlapping. -/
def replace2 (x y : UInt8) (r : BL) : BL → BL
  | [] => []
  | [a] => [a]
  | a :: b :: t' => if a = x ∧ b = y then r ++ replace2 x y r t' else a :: replace2 x y r (b :: t')

/-- `for c in (b"\\", b"(", b")"): value = value.replace(c, b"\\" + c)` -/
def escape (v : BL) : BL :=
  replace1 0x29 [0x5C, 0x29] (replace1 0x28 [0x5C, 0x28] (replace1 0x5C [0x5C, 0x5C] v))

/-- `for c in (b"\\", b"(", b")"): value = value.replace(b"\\" + c, c)` -/
def unescape (v : BL) : BL :=
  replace2 0x5C 0x29 [0x29] (replace2 0x5C 0x28 [0x28] (replace2 0x5C 0x5C [0x5C] v))

/-! ### UTF-16 (CPython's codecs, transcribed) -/

def encUnit (u : Nat) : BL := [UInt8.ofNat (u / 256), UInt8.ofNat (u % 256)]

/-- One code point as UTF-16BE (surrogate pair above U+FFFF). -/
def encodeCp (c : Nat) : BL :=
  if c < 0x10000 then encUnit c
  else encUnit (0xD800 + (c - 0x10000) / 0x400) ++ encUnit (0xDC00 + (c - 0x10000) % 0x400)

/-- Unicode scalar value (what `str.encode("utf-16-be")` accepts). -/
def isScalar (c : Nat) : Bool := c < 0xD800 || (0xE000 ≤ c && c < 0x110000)

def utf16be (s : List Nat) : BL := s.flatMap encodeCp

/-- 16-bit units of a byte string; an odd byte is "truncated data". -/
def units (be : Bool) : BL → Except Err (List Nat)
  | [] => .ok []
  | a :: t => match t with
    | [] => .error .unicodeError
    | b :: t' => match units be t' with
      | .error e => .error e
      | .ok us => .ok ((if be then a.toNat * 256 + b.toNat else b.toNat * 256 + a.toNat) :: us)

/-- Units to code points; lone surrogates are errors. -/
def decUnits : List Nat → Except Err (List Nat)
  | [] => .ok []
  | u :: t =>
    if u < 0xD800 ∨ 0xE000 ≤ u then
      match decUnits t with
      | .error e => .error e
      | .ok cs => .ok (u :: cs)
    else if u < 0xDC00 then
      match t with
      | [] => .error .unicodeError
      | v :: t' =>
        if 0xDC00 ≤ v ∧ v < 0xE000 then
          match decUnits t' with
          | .error e => .error e
          | .ok cs => .ok ((0x10000 + (u - 0xD800) * 0x400 + (v - 0xDC00)) :: cs)
        else .error .unicodeError
    else .error .unicodeError

def decodeWith (be : Bool) (d : BL) : Except Err (List Nat) :=
  match units be d with
  | .error e => .error e
  | .ok us => decUnits us

/-- `bytes.decode("utf-16")`: a BOM selects the byte order and is dropped, without
one the native order is used (little endian on the platforms CPython runs here). -/
def decodeUtf16 : BL → Except Err (List Nat)
  | a :: b :: t =>
    if a = 0xFE ∧ b = 0xFF then decodeWith true t
    else if a = 0xFF ∧ b = 0xFE then decodeWith false t
    else decodeWith false (a :: b :: t)
  | d => decodeWith false d

/-! ### Numbers -/

def digitByte (d : Nat) : UInt8 := UInt8.ofNat (48 + d)

def natDigitsAux : Nat → Nat → BL → BL
  | 0, _, acc => acc
  | f + 1, n, acc =>
    if n < 10 then digitByte n :: acc else natDigitsAux f (n / 10) (digitByte (n % 10) :: acc)

/-- `b"%d" % n` for `n ≥ 0` (the fuel `n + 1` is never exhausted). -/
def natDigits (n : Nat) : BL := natDigitsAux (n + 1) n []

/-- `b"%d" % i` -/
def writeInt (i : Int) : BL := if i < 0 then 0x2D :: natDigits i.natAbs else natDigits i.natAbs

def parseNat (ds : BL) : Nat := ds.foldl (fun a b => 10 * a + (b.toNat - 48)) 0

/-- `int(token)` on a token matching `^-?\d+$`. -/
def intOfToken : BL → Int
  | b :: t => if b = 0x2D then - ((parseNat (t.takeWhile isDigit) : Nat) : Int)
              else ((parseNat ((b :: t).takeWhile isDigit) : Nat) : Int)
  | [] => 0

/-- `float(token)` on a token matching `^-?\d*\.\d+$`, as the exact decimal it denotes. -/
def decOfToken (tok : BL) : Dec :=
  let neg := match tok with | b :: _ => b == 0x2D | [] => false
  let t := optMinus tok
  let ip := t.takeWhile isDigit
  let fp := ((t.dropWhile isDigit).drop 1).takeWhile isDigit
  ⟨neg, parseNat (ip ++ fp), fp.length⟩

/-- `n` as exactly `w` digits (leading zeros). -/
def fixDigits : Nat → Nat → BL
  | 0, _ => []
  | w + 1, n => fixDigits w (n / 10) ++ [digitByte (n % 10)]

/-- The decimal in units of 10^-8. Exact for `k ≤ 8` (all the harness sends: a Python
float is abstracted by its `'%.8f'` rendering); for `k > 8` decimal round-half-even is
used where CPython rounds the binary double - not part of the correspondence. -/
def m8 (d : Dec) : Nat :=
  if d.k ≤ 8 then d.mant * 10 ^ (8 - d.k)
  else
    let p := 10 ^ (d.k - 8)
    let q := d.mant / p
    let r := d.mant % p
    if 2 * r > p ∨ (2 * r = p ∧ q % 2 = 1) then q + 1 else q

/-- `b"%.8f" % value` -/
def fmt8 (d : Dec) : BL :=
  (if d.neg then [0x2D] else []) ++ natDigits (m8 d / 10 ^ 8) ++ [0x2E] ++ fixDigits 8 (m8 d % 10 ^ 8)

/-- `bytes.rstrip(b"0")` -/
def rstripZeros (l : BL) : BL := (l.reverse.dropWhile (· == 0x30)).reverse

/-- `Float.write` -/
def writeFloat (d : Dec) : BL :=
  let v := rstripZeros (fmt8 d)
  let v := if v.getLast? = some 0x2E then v ++ [0x30] else v
  if 0 < d.mant ∧ d.mant < 10 ^ d.k then replace2 0x30 0x2E [0x2E] v else v

/-! ### Scalars: `write` and `frombytes` -/

/-- `String.write` on the already encoded UTF-16BE bytes. -/
def strBytes (u : BL) : BL := 0x28 :: 0xFE :: 0xFF :: (escape u ++ [0x29])

/-- `item.write(fp)` of the value classes (string encoding errors are raised by `write`
below before any byte is produced - `tobytes` shows only the exception). -/
def wScalar : Scalar → BL
  | .str s => strBytes (utf16be s)
  | .bool b => if b then cTrue else cFalse
  | .int i => writeInt i
  | .flt d => writeFloat d
  | .prop n => 0x2F :: n
  | .tag r => r

/-- `kls.frombytes(token)` for the registered value classes; `none` = no class is
registered for the token type (`TOKEN_CLASSES.get` returns `None`). -/
def valueOfToken (ty : Tok) (tok : BL) : Option (Except Err Scalar) :=
  match ty with
  | .boolean => some (.ok (.bool (tok == cTrue)))
  | .number => some (.ok (.int (intOfToken tok)))
  | .numberDec => some (.ok (.flt (decOfToken tok)))
  | .property => some (.ok (.prop (tok.filter (· != 0x2F))))
  | .string =>
    some (match decodeUtf16 (unescape ((tok.drop 1).dropLast)) with
      | .error e => .error e
      | .ok s => .ok (.str s))
  | .tag => some (.ok (.tag tok))
  | .tag2 => some (.ok (.tag tok))
  | _ => none

/-! ## Parser -/

/-- `self[key] = value` on the ordered dict: an existing key keeps its place. -/
def insertKey (acc : List (BL × Val)) (k : BL) (v : Val) : List (BL × Val) :=
  if acc.any (fun p => p.1 == k) then acc.map (fun p => if p.1 == k then (p.1, v) else p)
  else acc ++ [(k, v)]

mutual
/-- `Dict.frombytes(tokenizer)`: the loop; `acc` = `self` so far. The fuel bounds the
number of tokens (never exhausted from `parse`); Python's own recursion limit on
nesting depth is not modelled. -/
def parseDict : Nat → BL → List (BL × Val) → Except Err (List (BL × Val) × BL)
  | 0, _, _ => .error .recursionError
  | f + 1, d, acc =>
    match nextTok d with
    | .error e => .error e
    | .ok none => .ok (acc, [])
    | .ok (some (tok, ty, rest)) =>
      match ty with
      | .property =>
        match nextTok rest with
        | .error e => .error e
        | .ok none => .error .other            -- `next(tokenizer)` raises StopIteration
        | .ok (some (vtok, vty, rest2)) =>
          match vty with
          | .arrayStart =>
            match parseList f rest2 [] with
            | .error e => .error e
            | .ok (xs, r) => parseDict f r (insertKey acc (tok.filter (· != 0x2F)) (.list xs))
          | .dictStart =>
            match parseDict f rest2 [] with
            | .error e => .error e
            | .ok (xs, r) => parseDict f r (insertKey acc (tok.filter (· != 0x2F)) (.dict xs))
          | _ =>
            match valueOfToken vty vtok with
            | none => .error .valueError         -- "Invalid token"
            | some (.error e) => .error e
            | some (.ok v) => parseDict f rest2 (insertKey acc (tok.filter (· != 0x2F)) (.sc v))
      | .dictEnd => .ok (acc, rest)
      | _ => parseDict f rest acc                -- any other token in key position is ignored
/-- `List.frombytes(tokenizer)` -/
def parseList : Nat → BL → List Val → Except Err (List Val × BL)
  | 0, _, _ => .error .recursionError
  | f + 1, d, acc =>
    match nextTok d with
    | .error e => .error e
    | .ok none => .ok (acc, [])
    | .ok (some (tok, ty, rest)) =>
      match ty with
      | .arrayEnd => .ok (acc, rest)
      | .arrayStart =>
        match parseList f rest [] with
        | .error e => .error e
        | .ok (xs, r) => parseList f r (acc ++ [.list xs])
      | .dictStart =>
        match parseDict f rest [] with
        | .error e => .error e
        | .ok (xs, r) => parseList f r (acc ++ [.dict xs])
      | _ =>
        match valueOfToken ty tok with
        | none => .error .other                  -- `None.frombytes`: AttributeError
        | some (.error e) => .error e
        | some (.ok v) => parseList f rest (acc ++ [.sc v])
end

/-- `EngineData.frombytes(data)` / `EngineData2.frombytes(data)`: the top-level object is
the dictionary loop itself, so a leading `<<` is just an ignored token and the first
`>>` at this level ends the parse. -/
def parse (d : BL) : Except Err Tree :=
  match parseDict (d.length + 1) d [] with
  | .error e => .error e
  | .ok (t, _) => .ok t

/-! ## Writers -/

/-- `_write_indent` -/
def ind : Option Nat → BL
  | none => [0x20]
  | some n => List.replicate n 0x09

/-- `_write_newline` -/
def nl : Option Nat → BL
  | none => []
  | some _ => [0x0A]

def inner : Option Nat → Option Nat
  | none => none
  | some n => some (n + 1)

/-- `Dict.write(fp, indent, write_container=True)` around the already written items. -/
def dictFrame (indent : Option Nat) (body : BL) : BL :=
  (if indent = some 0 then [0x0A] else []) ++ nl indent ++ ind indent ++ [0x3C, 0x3C] ++ nl indent
    ++ body ++ ind indent ++ [0x3E, 0x3E]

/-- `List.write(fp, indent)` around the already written items. -/
def listFrame (indent : Option Nat) (body : BL) : BL :=
  [0x5B] ++ body ++ (match indent with
    | none => [0x20]
    | some n => (0x0A : UInt8) :: List.replicate n 0x09) ++ [0x5D]

def isDict : Val → Bool
  | .dict _ => true
  | _ => false

/-- `len(value) > 0 and isinstance(value[0], Dict)` -/
def dictFirst : List Val → Bool
  | v :: _ => isDict v
  | [] => false

mutual
/-- What `Dict.write` emits for one value after its key (`indent` = the dictionary's). -/
def wAsValue (indent : Option Nat) : Val → BL
  | .dict items => dictFrame (inner indent) (wPairs (inner indent) items)
  | .list elems =>
    0x20 :: (if dictFirst elems then listFrame (inner indent) (wElems (inner indent) elems)
             else listFrame none (wElems none elems))
  | .sc s => 0x20 :: wScalar s
/-- The `for key in self` loop of `Dict.write` (`indent` = the dictionary's). -/
def wPairs (indent : Option Nat) : List (BL × Val) → BL
  | [] => []
  | (k, v) :: t => ind (inner indent) ++ (0x2F :: k) ++ wAsValue indent v ++ nl indent ++ wPairs indent t
/-- The loop body of `List.write` (`indent` = the list's): dictionaries are laid out by
`Dict.write`, every other item follows a space and is written compactly. -/
def wAsItem (indent : Option Nat) : Val → BL
  | .dict items => dictFrame indent (wPairs indent items)
  | .list elems => 0x20 :: listFrame none (wElems none elems)
  | .sc s => 0x20 :: wScalar s
def wElems (indent : Option Nat) : List Val → BL
  | [] => []
  | v :: t => wAsItem indent v ++ wElems indent t
end

inductive Layout where
  | indented   -- `EngineData.tobytes()`   = `Dict.write(indent=0, write_container=True)`
  | compact    -- `EngineData2.tobytes()`  = `Dict.write(indent=None, write_container=False)`
  deriving DecidableEq, Repr

def writeT : Layout → Tree → BL
  | .indented, t => dictFrame (some 0) (wPairs (some 0) t)
  | .compact, t => wPairs none t

mutual
/-- Every string can be encoded (`str.encode("utf-16-be")` raises on lone surrogates). -/
def encodableVal : Val → Bool
  | .dict items => encodablePairs items
  | .list elems => encodableElems elems
  | .sc (.str s) => s.all isScalar
  | .sc _ => true
def encodablePairs : List (BL × Val) → Bool
  | [] => true
  | (_, v) :: t => encodableVal v && encodablePairs t
def encodableElems : List Val → Bool
  | [] => true
  | v :: t => encodableVal v && encodableElems t
end

/-- `tobytes()`: the bytes, or the `UnicodeEncodeError` of the first string that cannot
be encoded (no other writer of the fixed code raises). -/
def write (l : Layout) (t : Tree) : Except Err BL :=
  if encodablePairs t then .ok (writeT l t) else .error .unicodeError

end PsdVerif.EngineData
