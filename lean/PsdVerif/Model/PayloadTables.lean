/-
C01 payload classes — what the models of Model/Payload*.lean were transliterated from, in the shape of the tables
`harness/extract_payload.py` regenerates from the working tree on every run (`Generated/Payload.lean`). The tie
theorems of Props/C01Payload.lean compare the two by `decide`.
Core Lean only.
-/
import PsdVerif.Generated.Payload

namespace PsdVerif.Payload.Tables

/-! ### unit 1: LayerInfoBlock -/

def layerInfoBlockKeys : List (List UInt8) := [[76, 114, 49, 54], [76, 114, 51, 50]]      -- Lr16, Lr32
def layerInfoBlockBases : List String := ["LayerInfo"]
def layerInfoBlockRead : String := "return cls._read_body(fp, encoding, version)"
def layerInfoBlockWrite : String := "return self._write_body(fp, encoding, version, padding)"
def taggedBlockInnerPadding : String := "1 if padding == 4 else 4"
def taggedBlockPayloadWrite : String := "self.data.write(f, padding=inner_padding, version=version)"
def taggedBlockPayloadRead : String := "kls.frombytes(raw_data, version=version)"

def layerInfoBodies : List (String × String × String) := [
  ("LayerInfo", "_read_body", "start_pos = fp.tell(); layer_count = read_fmt('h', fp)[0]; layer_records = LayerRecords.read(fp, layer_count, encoding, version); channel_image_data = ChannelImageData.read(fp, layer_records); return cls(layer_count, layer_records, channel_image_data)"),
  ("LayerInfo", "_write_body", "start_pos = fp.tell(); written = write_fmt(fp, 'h', self.layer_count); if self.layer_records: self._update_channel_length() written += self.layer_records.write(fp, encoding, version); if self.channel_image_data: written += self.channel_image_data.write(fp); written += write_padding(fp, written, padding); return written"),
  ("LayerInfo", "_update_channel_length", "if not self.layer_records or not self.channel_image_data: return; for layer, lengths in zip(self.layer_records, self.channel_image_data._lengths): for channel_info, length in zip(layer.channel_info, lengths): channel_info.length = length")
]

def unit1Calls : List (String × String × String × String) := [
  ("LayerInfoBlock", "read", "<none>", ""),
  ("LayerInfoBlock", "write", "<none>", ""),
  ("LayerInfo", "_read_body", "read_fmt", "'h', fp"),
  ("LayerInfo", "_write_body", "write_fmt", "fp, 'h', self.layer_count"),
  ("LayerInfo", "_write_body", "write_padding", "fp, written, padding"),
  ("LayerInfo", "_update_channel_length", "<none>", ""),
  ("TaggedBlock", "read", "read_fmt", "'4s', fp"),
  ("TaggedBlock", "read", "read_fmt", "'4s', fp"),
  ("TaggedBlock", "read", "read_length_block", "fp, fmt=fmt, padding=padding"),
  ("TaggedBlock", "write", "write_fmt", "fp, '4s4s', self.signature, key"),
  ("TaggedBlock", "write", "write_bytes", "f, self.data"),
  ("TaggedBlock", "write", "write_length_block", "fp, writer, fmt=fmt, padding=padding"),
  ("TaggedBlock", "_length_format", "<none>", "")
]

end PsdVerif.Payload.Tables
