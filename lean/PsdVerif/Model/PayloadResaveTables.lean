/-
C02 on the payload layer — hand-written tables that the regenerated ones (Generated/C02Formats.lean) are held against.

`asymmetricFormats`: the classes whose `read` and `write` do NOT issue the same `struct` items in the same source order, each
with the exact lists found in the source and the reason. Every other class of `psd_tools.psd` must have identical lists
(`C02.read_write_formats_compatible`). A change of one of these rows (or a new asymmetric class) breaks that theorem until
the row is re-examined by hand.

Core Lean only.
-/
import PsdVerif.Model.PayloadResave

namespace PsdVerif.Payload3.ResaveTables

def asymmetricFormats : List FmtRow := [
  -- both branches of `read` (`is_map` | not) read the channel id (`H` | the first of `2H`), `write` writes it once before its branches
  ("adjustments.CurvesExtraItem", ["H", "256B", "2H", "2H"], ["H", "256B", "H", "2H"]),
  -- `try: read_fmt("H2x") except IOError: log; read_fmt("H")`: the fallback for a payload without the filler (C02.short_integer_…)
  ("base.ShortIntegerElement", ["H2x", "H"], ["H2x"]),
  ("base.ByteElement", ["B3x", "B"], ["B3x"]),
  ("base.BooleanElement", ["?3x", "?"], ["?3x"]),
  -- `write` defines the closure `writer` (compression `H`, data) before the statement that writes the rectangle `4i`
  ("filter_effects.FilterEffectExtra", ["B", "4i", "H"], ["B", "H", "4i"]),
  -- `write_fmt(fp, "%d?" % len(values), *values)`: 8 or 9 flags (`print_flags` is `None` for old files)
  ("image_resources.PrintFlags", ["8?", "?"], ["1?"]),
  -- the last `I` of `read` is the peek at the version of the per-slice descriptor block (`fp.seek(-4, 1)` follows)
  ("image_resources.SliceV6", ["3I", "I", "I", "4I", "?", "2I", "4B", "I"], ["3I", "I", "I", "4I", "?", "2I", "4B"]),
  -- skeleton (Props/C01.lean, Props/C02.lean): the section length is read with `read_fmt`, written by `write_length_block`
  ("layer_and_mask.LayerAndMaskInformation", ["<('I', 'Q')[version - 1]>"], []),
  -- the `I` of `write` is the empty mask block (`write_fmt(fp, "I", 0)` when there is no mask data: `MaskData.read` reads that length); skeleton
  ("layer_and_mask.LayerRecord", ["4iH", "4s4sBB"], ["4iH", "4s4sBB", "I"])
]

/-- the framing calls (`…_length_block`, `…_pascal_string`, `…_unicode_string` with `fmt=` / `padding=`) that differ -/
def asymmetricFrames : List FrameRow := [
  -- read with the default padding 2, written with `padding=1`: at the end of the resource `read_padding` finds nothing
  -- (C01Payload3.pascal_string_roundtrip_at_end; C02.pascal_string_resave_stable)
  ("image_resources.PascalString", ["pascal_string padding=2"], ["pascal_string padding=1"]),
  -- skeleton: lengths read with `read_fmt`, written by `write_length_block`
  ("layer_and_mask.LayerAndMaskInformation", [], ["length_block fmt=('I', 'Q')[version - 1] padding=1"]),
  ("layer_and_mask.LayerInfo", [], ["length_block fmt=('I', 'Q')[version - 1] padding=1"]),
  -- the length of the pixel data is read as the third `I` of `read`, written by `write_length_block`
  ("patterns.VirtualMemoryArray", [], ["length_block fmt='I' padding=1"])
]

end PsdVerif.Payload3.ResaveTables
