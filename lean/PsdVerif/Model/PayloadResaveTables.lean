/-
C02 on the payload layer — hand-written tables that the regenerated ones (Generated/C02Formats.lean) are held against.

`asymmetricFormats`: the classes whose `read` and `write` do NOT issue the same `struct` items in the same source order, each
with the exact lists found in the source and the reason. Every other class of `psd_tools.psd` must have identical lists
(`C02.read_write_formats_compatible`). A change of one of these rows (or a new asymmetric class) breaks that theorem until
the row is re-examined by hand.

Core Lean only.
-/
import PsdVerif.Model.PayloadResave

namespace PsdVerif.Payload3.ResaveTables

def asymmetricFormats : List FmtRow := [
  -- both branches of `read` (`is_map` | not) read the channel id (`H` | the first of `2H`), `write` writes it once before its branches
  ("adjustments.CurvesExtraItem", ["H", "256B", "2H", "2H"], ["H", "256B", "H", "2H"]),
  -- `try: read_fmt("H2x") except IOError: log; read_fmt("H")`: the fallback for a payload without the filler (C02.short_integer_…)
  ("base.ShortIntegerElement", ["H2x", "H"], ["H2x"]),
  ("base.ByteElement", ["B3x", "B"], ["B3x"]),
  ("base.BooleanElement", ["?3x", "?"], ["?3x"]),
  -- `write` defines the closure `writer` (compression `H`, data) before the statement that writes the rectangle `4i`
  ("filter_effects.FilterEffectExtra", ["B", "4i", "H"], ["B", "H", "4i"]),
  -- `write_fmt(fp, "%d?" % len(values), *values)`: 8 or 9 flags (`print_flags` is `None` for old files)
  ("image_resources.PrintFlags", ["8?", "?"], ["1?"]),
  -- the last `I` of `read` is the peek at the version of the per-slice descriptor block (`fp.seek(-4, 1)` follows)
  ("image_resources.SliceV6", ["3I", "I", "I", "4I", "?", "2I", "4B", "I"], ["3I", "I", "I", "4I", "?", "2I", "4B"]),
  -- skeleton (Props/C01.lean, Props/C02.lean): the section length is read with `read_fmt`, written by `write_length_block`
  ("layer_and_mask.LayerAndMaskInformation", ["<('I', 'Q')[version - 1]>"], []),
  -- the `I` of `write` is the empty mask block (`write_fmt(fp, "I", 0)` when there is no mask data: `MaskData.read` reads that length); skeleton
  ("layer_and_mask.LayerRecord", ["4iH", "4s4sBB"], ["4iH", "4s4sBB", "I"])
]

/-- the framing calls (`…_length_block`, `…_pascal_string`, `…_unicode_string` with `fmt=` / `padding=`) that differ -/
def asymmetricFrames : List FrameRow := [
  -- read with the default padding 2, written with `padding=1`: at the end of the resource `read_padding` finds nothing
  -- (C01Payload3.pascal_string_roundtrip_at_end; C02.pascal_string_resave_stable)
  ("image_resources.PascalString", ["pascal_string padding=2"], ["pascal_string padding=1"]),
  -- skeleton: lengths read with `read_fmt`, written by `write_length_block`
  ("layer_and_mask.LayerAndMaskInformation", [], ["length_block fmt=('I', 'Q')[version - 1] padding=1"]),
  ("layer_and_mask.LayerInfo", [], ["length_block fmt=('I', 'Q')[version - 1] padding=1"]),
  -- the length of the pixel data is read as the third `I` of `read`, written by `write_length_block`
  ("patterns.VirtualMemoryArray", [], ["length_block fmt='I' padding=1"])
]

/-- Optional parts: the classes whose READER decides by a test on a stored field that the WRITER does not apply in the same
words (`C02.optional_part_tests_shared`), each with exactly the tests listed (regenerated table `Generated/C02Guards.lean`:
atoms of the `if`/`while` tests that guard a read / a write and mention stored fields only).
* Curves: the reader's `version == 1` chooses whether the extra block follows; the writer asks whether it holds one (`extra`).
* OuterGlowInfo: `native_color` is read for `version >= 2`; the writer writes it when it is there.
* ImageResource / MetadataSetting / TypeToolObjectSetting: dispatch on the key / a marker inside the payload; the writer asks the
  payload object (`hasattr(data, 'write')`), which is no field test.
* Slices: `version == 6` chooses the reader class; the payload object writes itself.
* LinkedLayer: `version >= 5 / 6 / 7` on reading; the writer writes `child_id` / `mod_time` / `lock_state` when they are there.
* Pattern: the colour table is read for INDEXED patterns and written when there is one. -/
def asymmetricGuards : List (String × List String × List String) := [
  ("adjustments.Curves", ["is_map", "version == 1"], ["is_map", "extra"]),
  ("effects_layer.OuterGlowInfo", ["version >= 2"], ["native_color"]),
  ("image_resources.ImageResource", ["key in TYPES"], []),
  ("image_resources.Slices", ["version == 6"], []),
  ("linked_layer.LinkedLayer", ["open_file", "kind == LinkedLayerType.EXTERNAL", "version > 3", "version > 2", "kind == LinkedLayerType.ALIAS", "kind == LinkedLayerType.DATA", "version >= 5", "version >= 6", "version >= 7", "version == 2"], ["open_file", "kind == LinkedLayerType.EXTERNAL", "version > 3", "version > 2", "kind == LinkedLayerType.ALIAS", "kind == LinkedLayerType.DATA", "child_id", "mod_time", "lock_state", "version == 2"]),
  ("patterns.Pattern", ["image_mode == ColorMode.INDEXED"], ["color_table"]),
  ("tagged_blocks.MetadataSetting", ["key in (b'mdyn', b'sgrp')", "key in _KNOWN_KEYS"], []),
  ("tagged_blocks.TypeToolObjectSetting", ["b'EngineData' in text_data"], [])
]

end PsdVerif.Payload3.ResaveTables
