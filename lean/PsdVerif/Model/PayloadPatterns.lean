/-
C01 payload classes — unit 4: psd/patterns.py (`Patt` / `Pat2` / `Pat3`): `Patterns`, `Pattern`,
`VirtualMemoryArrayList`, `VirtualMemoryArray`. Geometry and framing only: the pixel bytes of a channel are opaque
(`data`; their compression is C04's).

  VirtualMemoryArray      `I` is_written; 0 → nothing more. `I` length; 0 → nothing more (the writer emits it when
                          `depth is None`). Else `I` depth, `4I` rectangle, `HB` pixel depth, compression, then
                          `fp.read(length - 23)` (a negative argument reads to the end of the stream).
  VirtualMemoryArrayList  `I` version (assert 3), a length block holding `4I` rectangle, `I` len(channels) - 2, the channels
  Pattern                 `I` version (assert 1), `I` ColorMode, `2h` point, unicode name, pascal id (ascii, padding 1),
                          for INDEXED 256 × `3B` + `4x`, the VirtualMemoryArrayList
  Patterns                `while is_readable(fp, 4)`: a length block (padding 4) per pattern

`None` fields of an unwritten array (`depth`, `rectangle`, `pixel_depth`; `compression` RAW, `data` empty) are
`content = none`. Core Lean only.
-/
import PsdVerif.Model.PayloadSimple

namespace PsdVerif.Payload
open PsdVerif PsdVerif.Codec

namespace GP
export PsdVerif.Generated.Payload (colorModeIndexed)
end GP

/-! ## VirtualMemoryArray -/

structure VMAContent where
  depth : Nat
  rectangle : List Nat
  pixelDepth : Nat
  compression : Nat
  data : B
  deriving DecidableEq, Repr

structure VMA where
  isWritten : Nat
  content : Option VMAContent
  deriving DecidableEq, Repr

namespace VMAContent

/-- `_write_body`: `I`, `4I`, `HB`, the bytes -/
def bodyT (c : VMAContent) : B :=
  beBytes 4 c.depth ++ listT (beBytes 4) c.rectangle ++ beBytes 2 c.pixelDepth ++ beBytes 1 c.compression ++ c.data

def Fits (c : VMAContent) : Prop :=
  FitsU 4 c.depth ∧ (c.rectangle.length = 4 ∧ listFits (FitsU 4) c.rectangle) ∧ FitsU 2 c.pixelDepth ∧ FitsU 1 c.compression ∧
  FitsU 4 c.bodyT.length
instance (c : VMAContent) : Decidable c.Fits := by unfold Fits FitsU; exact inferInstance

def bodyP (c : VMAContent) : W :=
  let written := wBytes (beBytes 4 c.depth)
  let written := written +> wBytes (listT (beBytes 4) c.rectangle)
  let written := written +> wBytes (beBytes 2 c.pixelDepth ++ beBytes 1 c.compression)
  written +> wBytes c.data

end VMAContent

namespace VMA

def encT (x : VMA) : B :=
  beBytes 4 x.isWritten ++
  (if x.isWritten = 0 then [] else
    match x.content with
    | none => beBytes 4 0                              -- `if self.depth is None: write_fmt(fp, "I", 0)`
    | some c => lenBlockT 0 4 1 c.bodyT)

def Fits (x : VMA) : Prop :=
  FitsU 4 x.isWritten ∧ (x.isWritten ≠ 0 → match x.content with | none => True | some c => c.Fits)
instance (x : VMA) : Decidable x.Fits := by
  unfold Fits FitsU; cases x.content <;> simp only <;> exact inferInstance

def encP (x : VMA) : W :=
  let written := wBytes (beBytes 4 x.isWritten)
  if x.isWritten = 0 then written else
    match x.content with
    | none => written +> wBytes (beBytes 4 0)
    | some c => written +> wLenBlock 0 4 1 c.bodyP

def dec : R VMA := fun d p => do
  let (iw, p) ← readU 4 d p
  if iw = 0 then .ok (⟨iw, none⟩, p) else
    let (length, p) ← readU 4 d p
    if length = 0 then .ok (⟨iw, none⟩, p) else
      let (depth, p) ← readU 4 d p
      let (rect, p) ← readCount (readU 4) 4 d p
      let (pd, p) ← readU 2 d p
      let (comp, p) ← readU 1 d p
      let (data, p) ← readPy ((length : Int) - 23) d p
      if comp ∈ Psd.G.compressions then .ok (⟨iw, some ⟨depth, rect, pd, comp, data⟩⟩, p) else .error .valueError

/-- the content against the flag -/
def contentWF (isWritten : Nat) : Option VMAContent → Prop
  | none => True
  | some c =>
      isWritten ≠ 0                                       -- (iii) an array that is not written stores nothing
      ∧ c.compression ∈ Psd.G.compressions                -- (i) converter `Compression`
instance (isWritten : Nat) (o : Option VMAContent) : Decidable (contentWF isWritten o) :=
  match o with
  | none => isTrue trivial
  | some c => inferInstanceAs (Decidable (isWritten ≠ 0 ∧ c.compression ∈ Psd.G.compressions))

def WF (x : VMA) : Prop := contentWF x.isWritten x.content
instance (x : VMA) : Decidable x.WF := by unfold WF; exact inferInstance

def codec : PCodec VMA where
  encT := encT
  Fits := Fits
  decFits := inferInstance
  encP := encP
  dec := dec
  consumed x := (encT x).length
  WF := WF
  decWF := inferInstance

end VMA

/-! ## VirtualMemoryArrayList -/

structure VMAL where
  version : Nat
  rectangle : List Nat
  channels : List VMA
  deriving DecidableEq, Repr

namespace VMAL

/-- `_write_body`: `4I`, `I` (number of channels − 2), the channels -/
def bodyT (x : VMAL) : B :=
  listT (beBytes 4) x.rectangle ++ beBytes 4 (x.channels.length - 2) ++ listT VMA.encT x.channels

def encT (x : VMAL) : B := beBytes 4 x.version ++ lenBlockT 0 4 1 x.bodyT

def Fits (x : VMAL) : Prop :=
  FitsU 4 x.version ∧ (x.rectangle.length = 4 ∧ listFits (FitsU 4) x.rectangle) ∧
  (2 ≤ x.channels.length ∧ FitsU 4 (x.channels.length - 2)) ∧       -- a negative count is a `struct.error`
  listFits VMA.Fits x.channels ∧ FitsU 4 x.bodyT.length
instance (x : VMAL) : Decidable x.Fits := by unfold Fits FitsU; exact inferInstance

def bodyP (x : VMAL) : W :=
  let written := wBytes (listT (beBytes 4) x.rectangle)
  let written := written +> wBytes (beBytes 4 (x.channels.length - 2))
  written +> wList VMA.encP x.channels

def encP (x : VMAL) : W := wBytes (beBytes 4 x.version) +> wLenBlock 0 4 1 x.bodyP

def dec : R VMAL := fun d p => do
  let (version, p) ← readU 4 d p
  if version = 3 then
    let (data, p) ← readLenBlock 0 4 1 d p
    let (rect, q) ← readCount (readU 4) 4 data 0
    let (n, q) ← readU 4 data q
    let (chans, _) ← readCount VMA.dec (n + 2) data q
    .ok (⟨version, rect, chans⟩, p)
  else .error .assertionError

def WF (x : VMAL) : Prop :=
  x.version = 3                                          -- (iii) the reader's assert
  ∧ ∀ c ∈ x.channels, c.WF
instance (x : VMAL) : Decidable x.WF := by unfold WF; exact inferInstance

def codec : PCodec VMAL where
  encT := encT
  Fits := Fits
  decFits := inferInstance
  encP := encP
  dec := dec
  consumed x := (encT x).length
  WF := WF
  decWF := inferInstance

end VMAL

/-! ## Pattern -/

structure Pattern where
  version : Nat
  imageMode : Nat
  point : List Int
  name : Str
  patternId : B                                  -- the ASCII bytes of the id
  colorTable : Option (List (List Nat))
  data : VMAL
  deriving DecidableEq, Repr

namespace Pattern

def rowT (row : List Nat) : B := listT (beBytes 1) row

/-- `if self.color_table:` (a non-empty list): the rows, then `4x` -/
def tableT : Option (List (List Nat)) → B
  | some (r :: rs) => listT rowT (r :: rs) ++ zeros 4
  | _ => []

def tableP : Option (List (List Nat)) → W
  | some (r :: rs) => wList (fun row => wBytes (rowT row)) (r :: rs) +> wBytes (zeros 4)
  | _ => wNil

def tableFits : Option (List (List Nat)) → Prop
  | some rows => listFits (fun (row : List Nat) => row.length = 3 ∧ listFits (FitsU 1) row) rows
  | none => True
instance (t : Option (List (List Nat))) : Decidable (tableFits t) := by
  cases t <;> simp only [tableFits] <;> first | exact inferInstance | (unfold FitsU; exact inferInstance)

def encT (x : Pattern) : B :=
  beBytes 4 x.version ++ beBytes 4 x.imageMode ++ listT i16T x.point ++ ustrT 1 x.name ++ pascalT 1 x.patternId ++
  tableT x.colorTable ++ x.data.encT

def Fits (x : Pattern) : Prop :=
  FitsU 4 x.version ∧ FitsU 4 x.imageMode ∧ (x.point.length = 2 ∧ listFits FitsI16 x.point) ∧
  (Unicode.encUnits x.name).length < 4294967296 ∧ x.patternId.length < 256 ∧ tableFits x.colorTable ∧ x.data.Fits
instance (x : Pattern) : Decidable x.Fits := by unfold Fits FitsU; exact inferInstance

def encP (x : Pattern) : W :=
  let written := wBytes (beBytes 4 x.version ++ beBytes 4 x.imageMode)
  let written := written +> wBytes (listT i16T x.point)
  let written := written +> wUStr 1 x.name                                   -- write_unicode_string(fp, self.name)
  let written := written +> wPascal 1 x.patternId
  let written := written +> tableP x.colorTable
  written +> x.data.encP

def isAscii (b : B) : Bool := b.all (fun c => c.toNat < 128)

def dec : R Pattern := fun d p => do
  let (version, p) ← readU 4 d p
  if version = 1 then
    let (mode, p) ← readU 4 d p
    if mode ∈ Psd.G.colorModes then
      let (point, p) ← readCount readI16 2 d p
      let (name, p) ← readUStr 1 d p
      let (pid, p) ← readPascal 1 d p
      if isAscii pid then
        let (table, p) ← (if mode = GP.colorModeIndexed then do
            let (rows, p) ← readCount (readCount (readU 1) 3) 256 d p
            let (_, p) ← readSkip 4 d p
            .ok (some rows, p)
          else .ok (none, p) : Except Err (Option (List (List Nat)) × Nat))
        let (data, p) ← VMAL.dec d p
        .ok (⟨version, mode, point, name, pid, table, data⟩, p)
      else .error .unicodeError                          -- `data.decode("ascii")`
    else .error .valueError
  else .error .assertionError

/-- the colour table against the mode -/
def tableWF (indexed : Bool) : Option (List (List Nat)) → Prop
  | some rows => indexed = true ∧ rows.length = 256      -- (iii) an indexed pattern has its 256-entry table
  | none => indexed = false
      -- (iii) no table otherwise; (F) for the *empty* table of a non-indexed pattern: written as nothing, re-read as `None`
instance (indexed : Bool) (t : Option (List (List Nat))) : Decidable (tableWF indexed t) :=
  match t with
  | some rows => inferInstanceAs (Decidable (indexed = true ∧ rows.length = 256))
  | none => inferInstanceAs (Decidable (indexed = false))

def WF (x : Pattern) : Prop :=
  x.version = 1                                                    -- (iii) the reader's assert
  ∧ x.imageMode ∈ Psd.G.colorModes                                 -- (i) converter / validator `ColorMode`
  ∧ (Unicode.PyStr x.name ∧ Unicode.NoPair x.name)                 -- a `str`; (iii) C19's surrogate law
  ∧ isAscii x.patternId = true                                     -- the id is ASCII text
  ∧ tableWF (decide (x.imageMode = GP.colorModeIndexed)) x.colorTable
  ∧ x.data.WF
instance (x : Pattern) : Decidable x.WF := by unfold WF; exact inferInstance

def codec : PCodec Pattern where
  encT := encT
  Fits := Fits
  decFits := inferInstance
  encP := encP
  dec := dec
  consumed x := (encT x).length
  WF := WF
  decWF := inferInstance

end Pattern

/-! ## Patterns -/

/-- `write_length_block(fp, item.write, padding=4)` per pattern / `while is_readable(fp, 4): read_length_block(fp, padding=4)` -/
def Patterns.codec : PCodec (List Pattern) where
  encT xs := listT (fun (x : Pattern) => lenBlockT 0 4 4 x.encT) xs
  Fits xs := listFits (fun (x : Pattern) => x.Fits ∧ FitsU 4 x.encT.length) xs
  decFits _ := by unfold FitsU; exact inferInstance
  encP xs := wList (fun (x : Pattern) => wLenBlock 0 4 4 x.encP) xs
  dec := readWhile (isReadable 4) (fun d p => do
    let (data, p) ← readLenBlock 0 4 4 d p
    let (x, _) ← Pattern.dec data 0
    .ok (some x, p))
  consumed xs := (listT (fun (x : Pattern) => lenBlockT 0 4 4 x.encT) xs).length
  WF xs := ∀ x ∈ xs, x.WF
  decWF _ := inferInstance

end PsdVerif.Payload
