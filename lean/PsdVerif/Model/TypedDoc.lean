/-
C01 (typed documents) — the document whose image resources, document-level tagged blocks *and* per-layer tagged blocks are
objects of their registered classes (Model/TypedBlocks.lean for the blocks, Model/Payload3Typed.lean for the resources),
down to the records nested in `Lr16` / `Lr32` blocks with their own typed blocks.

`TPSD Q`: the payloads of the blocks are `Pay Q`, the payloads of the blocks nested one `Lr16` / `Lr32` level deeper are
`Q` (kit `K`). `TPSDN n = TPSD (Below n)`: at most `n` further levels.

The writer is the skeleton's writer on the bytes view (`flatR`: the document of Model/Payload3Typed.lean, i.e. typed resources
and `LayerInfoBlock`-typed document-level blocks); the reader is `PSD.read` with every dispatch the code has.
Core Lean only.
-/
import PsdVerif.Model.TypedBlocks
import PsdVerif.Model.Payload3Typed

namespace PsdVerif.Typed
open PsdVerif PsdVerif.Codec PsdVerif.Psd PsdVerif.Payload PsdVerif.Payload3

structure TLam (Q : Type) where
  layerInfo : Option (Info (Pay Q))
  globalMask : Option GlobalLayerMaskInfo
  taggedBlocks : Option (List (Blk (Pay Q)))

structure TPSD (Q : Type) where
  header : Header
  colorModeData : B
  resources : List TRes
  layerAndMask : TLam Q
  imageData : ImageData

section
variable {Q : Type} (tb : Descriptor.Tables) (K : Kit Q)

/-- the view of a document-level block in the deep document of Model/PayloadLayerInfo.lean: a `LayerInfoBlock` payload as
the skeleton layer info, every other payload as the bytes it writes (document-level blocks are written with `padding=4`) -/
def Pay.toDeep (version : Nat) : Pay Q → Payload
  | .info li => .layerInfo (li.flat K version)
  | x => .raw (Pay.encT tb K version 4 x)

def Blk.toDeep (version : Nat) (t : Blk (Pay Q)) : TBlock := ⟨t.signature, t.key, Pay.toDeep tb K version t.data⟩

namespace TLam

def flatD (version : Nat) (x : TLam Q) : DeepLam :=
  ⟨x.layerInfo.map (Info.flat (payKit tb K) version), x.globalMask, x.taggedBlocks.map (List.map (Blk.toDeep tb K version))⟩

/-- the skeleton's view -/
def flat (version : Nat) (x : TLam Q) : LayerAndMask :=
  ⟨x.layerInfo.map (Info.flat (payKit tb K) version), x.globalMask,
   x.taggedBlocks.map (List.map (Blk.flat (payKit tb K) version 4))⟩

def refresh (x : TLam Q) : TLam Q :=
  ⟨x.layerInfo.map (Info.refresh (payKit tb K)), x.globalMask, x.taggedBlocks.map (List.map (Blk.refresh (payKit tb K)))⟩

/-- `LayerAndMaskInformation._read_body` with the typed readers -/
def bodyDec (version endPos : Nat) : R (TLam Q) := fun d p => do
  let (li, p) ← Info.dec (payKit tb K) version d p
  if p + 4 ≤ endPos then
    let (glm, p) ← GlobalLayerMaskInfo.dec d p
    let (tbs, p) ← blksDec (payKit tb K) version 4 (some endPos) d p
    .ok (⟨some li, some glm, some tbs⟩, p)
  else .ok (⟨some li, none, some []⟩, p)

def dec (version : Nat) : R (TLam Q) := fun d p => do
  let (length, p) ← readU (secW version) d p
  let endPos := p + length
  let (x, _) ← (if length = 0 then .ok (⟨none, none, none⟩, p) else bodyDec tb K version endPos d p)
  if overflows endPos d then .error .overflowError else .ok (x, endPos)

/-- the typed clauses ((R) and the payloads' own); the skeleton's are those of the flat view -/
def Typed (version : Nat) (x : TLam Q) : Prop :=
  optProp (Info.Typed (payKit tb K) version) x.layerInfo ∧ optProp (blksTyped (payKit tb K) version 4) x.taggedBlocks
instance (version : Nat) (x : TLam Q) : Decidable (Typed tb K version x) := by unfold Typed; exact inferInstance

/-- the payload widths the bytes view does not know about -/
def payloadFits (version : Nat) (x : TLam Q) : Prop :=
  optProp (Info.payloadFits (payKit tb K) version) x.layerInfo ∧
  optAll (fun (t : Blk (Pay Q)) => (payKit tb K).Fits version 4 t.data) x.taggedBlocks
instance (version : Nat) (x : TLam Q) : Decidable (payloadFits tb K version x) := by unfold payloadFits; exact inferInstance

end TLam

namespace TPSD

/-- the view with typed resources and `LayerInfoBlock`-typed document-level blocks -/
def flatR (x : TPSD Q) : ResPSD :=
  ⟨x.header, x.colorModeData, x.resources, x.layerAndMask.flatD tb K x.header.version, x.imageData⟩

/-- the skeleton's view -/
def flat (x : TPSD Q) : PSD :=
  ⟨x.header, x.colorModeData, x.resources.map (TRes.flat tb), x.layerAndMask.flat tb K x.header.version, x.imageData⟩

def encT (pad : Nat) (x : TPSD Q) : B := (x.flat tb K).encT pad

def payloadFits (x : TPSD Q) : Prop := x.layerAndMask.payloadFits tb K x.header.version
instance (x : TPSD Q) : Decidable (payloadFits tb K x) := by unfold payloadFits; exact inferInstance

/-- `PSD.write`: the exceptions of the bytes view in the order the sections are written; a payload of a tagged block that
does not fit raises `struct.error` while the layer and mask section is written (after the `IndexError` of an impossible
version, among the other width errors of that section) -/
def enc (pad : Nat) (x : TPSD Q) : Except Err B :=
  match ResPSD.enc tb pad (x.flatR tb K) with
  | .error e => .error e
  | .ok bs => if x.payloadFits tb K then .ok bs else .error .structError

/-- the document object after `write()` -/
def refresh (x : TPSD Q) : TPSD Q := { x with layerAndMask := x.layerAndMask.refresh tb K }

/-- `PSD.read` -/
def read : R (TPSD Q) := fun d p => do
  let (header, p) ← Header.dec d p
  let (cmd, p) ← colorModeDec d p
  let (res, p) ← tresourcesDec tb d p
  let (lm, p) ← TLam.dec tb K header.version d p
  let (img, p) ← ImageData.dec d p
  .ok (⟨header, cmd, res, lm, img⟩, p)

def WF (pad : Nat) (x : TPSD Q) : Prop :=
  (x.flatR tb K).WF tb pad                                  -- every clause of the bytes view (resources typed)
  ∧ x.layerAndMask.Typed tb K x.header.version              -- the payloads of the blocks, at every level
instance (pad : Nat) (x : TPSD Q) : Decidable (WF tb K pad x) := by unfold WF; exact inferInstance

end TPSD
end

/-- the document with at most `n` levels of `Lr16` / `Lr32` nesting below its blocks -/
abbrev TPSDN (n : Nat) : Type := TPSD (Below n)

end PsdVerif.Typed
