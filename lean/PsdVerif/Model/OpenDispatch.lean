/-
C06 — the payload dispatch of the whole modelled reader: class name → counting runner, for every class registered in
`tagged_blocks.TYPES` and `image_resources.TYPES` (the registries themselves are REGENERATED:
Generated/OpenRegistry.lean; `blk` / `res` look the key up there and the class name here).

`engine` is the engine-data parser (`EngineData.frombytes` inside `TypeToolObjectSetting.read`, swallowed by
`except Exception`; the `Txt2` block `EngineData2`); `tysh` the runner of `TypeToolObjectSetting`
(Model/TyShCost.lean). `LayerInfoBlock` is not here: it recurses into the skeleton (`plOf`, Model/OpenCost.lean).

Core Lean only.
-/
import PsdVerif.Model.OpenCost
import PsdVerif.Model.PayloadCostSimple
import PsdVerif.Model.PayloadCostResources
import PsdVerif.Model.PayloadCostEffects
import PsdVerif.Model.PayloadCostPatterns
import PsdVerif.Model.PayloadCostAdjust
import PsdVerif.Model.PayloadCostFilter
import PsdVerif.Model.PayloadCostVector
import PsdVerif.Model.PayloadCostDesc
import PsdVerif.Generated.OpenRegistry

namespace PsdVerif.OpenCost
open PsdVerif PsdVerif.Codec PsdVerif.PsdCost PsdVerif.PayloadCost

/-- `X.frombytes(data)` for a reader without a `CC` -/
def runD {α : Type} (decC : RC α) : B → CE Unit := fun data => do
  enterBlock data
  let (_, _) ← decC data 0
  CE.ok ()

abbrev Runners := List (String × (B → CE Unit))

/-- the classes of `tagged_blocks.TYPES` (all but `LayerInfoBlock`) -/
def blockRunners (tb : Descriptor.Tables) (engine tysh : B → CE Unit) : Runners := [
  ("Annotations", runCC Annotations.cc),
  ("BrightnessContrast", runCC BrightnessContrast.cc),
  ("ByteElement", runCC ByteElement.cc),
  ("Bytes", runCC BytesElement.cc),
  ("ChannelBlendingRestrictionsSetting", runCC ChannelBlendingRestrictionsSetting.cc),
  ("ChannelMixer", runCC ChannelMixer.cc),
  ("ColorBalance", runCC ColorBalance.cc),
  ("ColorLookup", runCC (ColorLookup.cc tb 4)),
  ("Curves", runCC Curves.cc),
  ("DescriptorBlock", runCC (DescriptorPayload.cc tb 4)),
  ("DescriptorBlock2", runCC (Descriptor2Payload.cc tb 4)),
  ("EffectsLayer", runCC EffectsLayer.cc),
  ("EmptyElement", runCC EmptyElement.cc),
  ("EngineData2", engine),
  ("Exposure", runCC (Exposure.cc 4)),
  ("FilterEffects", runCC FilterEffects.cc),
  ("FilterMask", runCC FilterMask.cc),
  ("GradientMap", runCC GradientMap.cc),
  ("HueSaturation", runCC HueSaturation.cc),
  ("IntegerElement", runCC IntegerElement.cc),
  ("Levels", runCC Levels.cc),
  ("LinkedLayers", runCC (LinkedLayers.cc tb)),
  ("MetadataSettings", runCC (MetadataSettings.cc tb)),
  ("Patterns", runCC Patterns.cc),
  ("PhotoFilter", runCC PhotoFilter.cc),
  ("PixelSourceData2", runCC (PixelSourceData2.cc 4)),
  ("PlacedLayerData", runCC (PlacedLayerData.cc tb 4)),
  ("ProtectedSetting", runCC IntegerElement.cc),
  ("ReferencePoint", runCC ReferencePoint.cc),
  ("SectionDividerSetting", runCC SectionDividerSetting.cc),
  ("SelectiveColor", runCC SelectiveColor.cc),
  ("SheetColorSetting", runCC SheetColorSetting.cc),
  ("ShortIntegerElement", runCC ShortIntegerElement.cc),
  ("SmartObjectLayerData", runCC (SmartObjectLayerData.cc tb 4)),
  ("StringElement", runCC (StringElement.cc 4 1)),
  ("TypeToolObjectSetting", tysh),
  ("UserMask", runCC UserMask.cc),
  ("VectorMaskSetting", runCC VectorMaskSetting.cc),
  ("VectorStrokeContentSetting", runCC (VectorStrokeContentSetting.cc tb 4))
]

/-- the classes of `image_resources.TYPES` -/
def resourceRunners (tb : Descriptor.Tables) : Runners := [
  ("AlphaIdentifiers", runCC AlphaIdentifiers.cc),
  ("AlphaNamesPascal", runCC AlphaNamesPascal.cc),
  ("AlphaNamesUnicode", runCC AlphaNamesUnicode.cc),
  ("Byte", runCC ResByte.cc),
  ("Color", runCC Color.cc),
  ("DescriptorBlock", runCC (DescriptorResource.cc tb)),
  ("DisplayInfo", runCC DisplayInfo.cc),
  ("GridGuidesInfo", runCC GridGuidesInfo.cc),
  ("HalftoneScreens", runCC HalftoneScreens.cc),
  ("Integer", runCC ResInteger.cc),
  ("LayerGroupEnabledIDs", runCC LayerGroupEnabledIDs.cc),
  ("LayerGroupInfo", runCC LayerGroupInfo.cc),
  ("LayerSelectionIDs", runCC LayerSelectionIDs.cc),
  ("PascalString", runCC PascalString.cc),
  ("PixelAspectRatio", runCC PixelAspectRatio.cc),
  ("PrintFlags", runCC PrintFlags.cc),
  ("PrintFlagsInfo", runCC PrintFlagsInfo.cc),
  ("PrintScale", runCC PrintScale.cc),
  ("ResoulutionInfo", runCC ResolutionInfo.cc),
  ("ShortInteger", runCC ResShortInteger.cc),
  ("Slices", runD (Slices.decC tb)),
  ("StringElement", runCC (StringElement.cc 1 1)),
  ("ThumbnailResource", runCC Thumbnail.cc),
  ("ThumbnailResourceV4", runCC Thumbnail.cc),
  ("TransferFunctions", runCC TransferFunctions.cc),
  ("URLList", runCC URLList.cc),
  ("VersionInfo", runCC VersionInfo.cc)
]

def layerInfoClass : String := "LayerInfoBlock"

/-- the hooks of `PSD.readT`: the regenerated registries, then the runner of the class -/
def mkHooks (tb : Descriptor.Tables) (engine tysh : B → CE Unit) : Hooks where
  blk := fun _ key => (List.lookup key Generated.OpenRegistry.taggedTypes).bind (fun n => List.lookup n (blockRunners tb engine tysh))
  res := fun key => (List.lookup key Generated.OpenRegistry.resourceTypes).bind (fun n => List.lookup n (resourceRunners tb))
  layerInfoKeys := (Generated.OpenRegistry.taggedTypes.filter (fun e => e.2 == layerInfoClass)).map (·.1)

end PsdVerif.OpenCost
