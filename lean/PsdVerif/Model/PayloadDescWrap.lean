/-
C01 payload classes — unit 6: the tagged-block payloads of psd/tagged_blocks.py that wrap descriptor blocks:
`SmartObjectLayerData` (`SoLd` / `SoLE`), `PlacedLayerData` (`PlLd` / `plLd`), `TypeToolObjectSetting` (`TySh`).
The descriptor blocks are those of Model/Descriptor.lean (`DescriptorBlock` = `Block`, `DescriptorBlock2` = `Block2`),
always written with `padding=1` inside these classes; each class ends with `write_padding(fp, written, padding)`.

`TypeToolObjectSetting.read` additionally tries to replace `text_data[b"EngineData"].value` (raw bytes) by a parsed
`EngineData` object (`try … except Exception: logger.warning`): the model keeps the bytes — what that object writes is C18's.
Validators (`in_`) run in the constructor, after every field was read.
Core Lean only.
-/
import PsdVerif.Model.PayloadSimple

namespace PsdVerif.Payload
open PsdVerif PsdVerif.Codec

namespace GP
export PsdVerif.Generated.Payload (smartObjectKinds smartObjectVersions placedVersions placedLayerTypes typeToolTextVersions
  typeToolWarpVersions)
end GP

/-! ## SmartObjectLayerData  (`4sI`, DescriptorBlock) -/

structure SmartObjectLayerData where
  kind : B
  version : Nat
  data : Descriptor.Block
  deriving Repr

namespace SmartObjectLayerData
variable (tb : Descriptor.Tables)

def bodyT (x : SmartObjectLayerData) : B := pack4s x.kind ++ beBytes 4 x.version ++ x.data.encT tb 1
def encT (pad : Nat) (x : SmartObjectLayerData) : B := bodyT tb x ++ zeros (padAmount (bodyT tb x).length pad)
def Fits (x : SmartObjectLayerData) : Prop := FitsU 4 x.version ∧ x.data.Fits tb
instance (x : SmartObjectLayerData) : Decidable (Fits tb x) := by unfold Fits FitsU; exact inferInstance

def encP (pad : Nat) (x : SmartObjectLayerData) : W :=
  let written := wBytes (pack4s x.kind ++ beBytes 4 x.version)
  let written := written +> x.data.encW tb 1
  written +> wPad written.2 pad

def Valid (x : SmartObjectLayerData) : Prop := x.kind ∈ GP.smartObjectKinds ∧ x.version ∈ GP.smartObjectVersions
instance (x : SmartObjectLayerData) : Decidable x.Valid := by unfold Valid; exact inferInstance

def dec : R SmartObjectLayerData := fun d p => do
  let (kind, p) ← readN 4 d p
  let (version, p) ← readU 4 d p
  let (data, p) ← Descriptor.Block.dec tb d p
  let x : SmartObjectLayerData := ⟨kind, version, data⟩
  if x.Valid then .ok (x, p) else .error .valueError

def codec (pad : Nat) : PCodec SmartObjectLayerData where
  encT := encT tb pad
  Fits := Fits tb
  decFits := inferInstance
  encP := encP tb pad
  dec := dec tb
  consumed x := (bodyT tb x).length
  WF x := x.Valid ∧ x.data.WF tb                   -- (i) the two validators; the descriptor's own WF
  decWF _ := inferInstance

end SmartObjectLayerData

/-! ## PlacedLayerData  (`4sI`, pascal uuid, `4I`, `8d`, DescriptorBlock2) -/

structure PlacedLayerData where
  kind : B
  version : Nat
  uuid : B
  page : Nat
  totalPages : Nat
  antiAlias : Nat
  layerType : Nat
  transform : List UInt64
  warp : Descriptor.Block2
  deriving Repr

namespace PlacedLayerData
variable (tb : Descriptor.Tables)

def bodyT (x : PlacedLayerData) : B :=
  pack4s x.kind ++ beBytes 4 x.version ++ pascalT 1 x.uuid ++
  (beBytes 4 x.page ++ beBytes 4 x.totalPages ++ beBytes 4 x.antiAlias ++ beBytes 4 x.layerType) ++ listT f64T x.transform ++
  x.warp.encT tb 1
def encT (pad : Nat) (x : PlacedLayerData) : B := bodyT tb x ++ zeros (padAmount (bodyT tb x).length pad)

def Fits (x : PlacedLayerData) : Prop :=
  FitsU 4 x.version ∧ x.uuid.length < 256 ∧ FitsU 4 x.page ∧ FitsU 4 x.totalPages ∧ FitsU 4 x.antiAlias ∧ FitsU 4 x.layerType ∧
  x.transform.length = 8 ∧ x.warp.Fits tb
instance (x : PlacedLayerData) : Decidable (Fits tb x) := by unfold Fits FitsU; exact inferInstance

def encP (pad : Nat) (x : PlacedLayerData) : W :=
  let written := wBytes (pack4s x.kind ++ beBytes 4 x.version)
  let written := written +> wPascal 1 x.uuid
  let written := written +> wBytes (beBytes 4 x.page ++ beBytes 4 x.totalPages ++ beBytes 4 x.antiAlias ++ beBytes 4 x.layerType)
  let written := written +> wBytes (listT f64T x.transform)
  let written := written +> x.warp.encW tb 1
  written +> wPad written.2 pad

def Valid (x : PlacedLayerData) : Prop := x.version ∈ GP.placedVersions ∧ x.layerType ∈ GP.placedLayerTypes
instance (x : PlacedLayerData) : Decidable x.Valid := by unfold Valid; exact inferInstance

def dec : R PlacedLayerData := fun d p => do
  let (kind, p) ← readN 4 d p
  let (version, p) ← readU 4 d p
  let (uuid, p) ← readPascal 1 d p
  let (page, p) ← readU 4 d p
  let (total, p) ← readU 4 d p
  let (aa, p) ← readU 4 d p
  let (lt, p) ← readU 4 d p
  let (tr, p) ← readCount readF64 8 d p
  let (warp, p) ← Descriptor.Block2.dec tb d p
  let x : PlacedLayerData := ⟨kind, version, uuid, page, total, aa, lt, tr, warp⟩
  if x.Valid then .ok (x, p) else .error .valueError

def codec (pad : Nat) : PCodec PlacedLayerData where
  encT := encT tb pad
  Fits := Fits tb
  decFits := inferInstance
  encP := encP tb pad
  dec := dec tb
  consumed x := (bodyT tb x).length
  WF x := x.Valid ∧ x.kind.length = 4 ∧ x.warp.WF tb        -- (i) validators, (ii) `4s`
  decWF _ := inferInstance

end PlacedLayerData

/-! ## TypeToolObjectSetting  (`H6d`, `H`, DescriptorBlock, `H`, DescriptorBlock, `4i`) -/

structure TypeToolObjectSetting where
  version : Nat
  transform : List UInt64
  textVersion : Nat
  textData : Descriptor.Block
  warpVersion : Nat
  warp : Descriptor.Block
  left : Int
  top : Int
  right : Int
  bottom : Int
  deriving Repr

namespace TypeToolObjectSetting
variable (tb : Descriptor.Tables)

def bodyT (x : TypeToolObjectSetting) : B :=
  beBytes 2 x.version ++ listT f64T x.transform ++ beBytes 2 x.textVersion ++ x.textData.encT tb 1 ++ beBytes 2 x.warpVersion ++
  x.warp.encT tb 1 ++ (i32T x.left ++ i32T x.top ++ i32T x.right ++ i32T x.bottom)
def encT (pad : Nat) (x : TypeToolObjectSetting) : B := bodyT tb x ++ zeros (padAmount (bodyT tb x).length pad)

def Fits (x : TypeToolObjectSetting) : Prop :=
  FitsU 2 x.version ∧ x.transform.length = 6 ∧ FitsU 2 x.textVersion ∧ x.textData.Fits tb ∧ FitsU 2 x.warpVersion ∧ x.warp.Fits tb ∧
  FitsI32 x.left ∧ FitsI32 x.top ∧ FitsI32 x.right ∧ FitsI32 x.bottom
instance (x : TypeToolObjectSetting) : Decidable (Fits tb x) := by unfold Fits FitsU; exact inferInstance

def encP (pad : Nat) (x : TypeToolObjectSetting) : W :=
  let written := wBytes (beBytes 2 x.version ++ listT f64T x.transform)
  let written := written +> wBytes (beBytes 2 x.textVersion)
  let written := written +> x.textData.encW tb 1
  let written := written +> wBytes (beBytes 2 x.warpVersion)
  let written := written +> x.warp.encW tb 1
  let written := written +> wBytes (i32T x.left ++ i32T x.top ++ i32T x.right ++ i32T x.bottom)
  written +> wPad written.2 pad

def Valid (x : TypeToolObjectSetting) : Prop := x.textVersion ∈ GP.typeToolTextVersions ∧ x.warpVersion ∈ GP.typeToolWarpVersions
instance (x : TypeToolObjectSetting) : Decidable x.Valid := by unfold Valid; exact inferInstance

def dec : R TypeToolObjectSetting := fun d p => do
  let (version, p) ← readU 2 d p
  let (tr, p) ← readCount readF64 6 d p
  let (tv, p) ← readU 2 d p
  let (text, p) ← Descriptor.Block.dec tb d p
  let (wv, p) ← readU 2 d p
  let (warp, p) ← Descriptor.Block.dec tb d p
  let (l, p) ← readI32 d p
  let (t, p) ← readI32 d p
  let (r, p) ← readI32 d p
  let (b, p) ← readI32 d p
  let x : TypeToolObjectSetting := ⟨version, tr, tv, text, wv, warp, l, t, r, b⟩
  if x.Valid then .ok (x, p) else .error .valueError

def codec (pad : Nat) : PCodec TypeToolObjectSetting where
  encT := encT tb pad
  Fits := Fits tb
  decFits := inferInstance
  encP := encP tb pad
  dec := dec tb
  consumed x := (bodyT tb x).length
  WF x := x.Valid ∧ x.textData.WF tb ∧ x.warp.WF tb        -- (i) the two validators; the descriptors' own WF
  decWF _ := inferInstance

end TypeToolObjectSetting

end PsdVerif.Payload
