/-
C06 — `text_data[b"EngineData"].value` of `TypeToolObjectSetting.read`: the raw bytes an item of a descriptor holds.
Core Lean only.
-/
import PsdVerif.Model.Descriptor

namespace PsdVerif.Descriptor
open PsdVerif PsdVerif.Codec

/-- the bytes of the first item whose key equals `key`, when that item is a `RawData`; for any other class `.value`
is not `bytes` (or the attribute does not exist) and `EngineData.frombytes` raises inside the `try` -/
def findRaw (key : B) : Items → Option B
  | [] => none
  | (k, v) :: r =>
    if k.bytes = key then
      match v with
      | .raw .rawData data => some data
      | _ => none
    else findRaw key r

end PsdVerif.Descriptor
