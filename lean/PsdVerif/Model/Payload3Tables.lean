/-
C01 payload classes, third batch — what the models of Model/Payload3*.lean were transliterated from, in the shape of the
tables `harness/extract_payload3.py` regenerates from the working tree on every run (`Generated/Payload3.lean`). The tie
theorems of Props/C01Payload3.lean compare the two by `decide`.
Core Lean only.
-/
import PsdVerif.Generated.Payload3

namespace PsdVerif.Payload3.Tables
/-- members of `constants.AlphaChannelMode` -/
def alphaChannelModes : List Nat := [0, 1, 2]
/-- members of `constants.PrintScaleStyle` -/
def printScaleStyles : List Nat := [0, 1, 2]
/-- options of the validator of `Slices.version` -/
def slicesVersions : List Nat := [6, 7, 8]
/-- options of the validator of `ImageResource.signature`, sorted -/
def resourceSignatures : List (List UInt8) := [[56, 66, 73, 77], [65, 103, 72, 103], [68, 67, 83, 82], [77, 101, 83, 97], [80, 72, 85, 84]]
/-- how `ImageResource.read` reads a typed payload -/
def resourcePayloadRead : String := "TYPES[key].frombytes(raw_data)"
/-- how `ImageResource.write` writes a payload object -/
def resourcePayloadWrite : String := "self.data.write(f, padding=1)"
/-- `image_resources.TYPES`: (resource id, class name), sorted by id -/
def unit7Registry : List (Nat × String) := [
  (1005, "ResoulutionInfo"),
  (1006, "AlphaNamesPascal"),
  (1008, "PascalString"),
  (1010, "Color"),
  (1011, "PrintFlags"),
  (1012, "HalftoneScreens"),
  (1013, "HalftoneScreens"),
  (1014, "HalftoneScreens"),
  (1015, "TransferFunctions"),
  (1016, "TransferFunctions"),
  (1017, "TransferFunctions"),
  (1024, "ShortInteger"),
  (1026, "LayerGroupInfo"),
  (1032, "GridGuidesInfo"),
  (1033, "ThumbnailResourceV4"),
  (1034, "Byte"),
  (1036, "ThumbnailResource"),
  (1037, "Integer"),
  (1040, "Byte"),
  (1041, "Byte"),
  (1042, "Byte"),
  (1044, "Integer"),
  (1045, "AlphaNamesUnicode"),
  (1046, "ShortInteger"),
  (1047, "ShortInteger"),
  (1049, "Integer"),
  (1050, "Slices"),
  (1051, "StringElement"),
  (1053, "AlphaIdentifiers"),
  (1054, "URLList"),
  (1057, "VersionInfo"),
  (1062, "PrintScale"),
  (1064, "PixelAspectRatio"),
  (1065, "DescriptorBlock"),
  (1069, "LayerSelectionIDs"),
  (1072, "LayerGroupEnabledIDs"),
  (1074, "DescriptorBlock"),
  (1075, "DescriptorBlock"),
  (1076, "DescriptorBlock"),
  (1077, "DisplayInfo"),
  (1078, "DescriptorBlock"),
  (1080, "DescriptorBlock"),
  (1082, "DescriptorBlock"),
  (1083, "DescriptorBlock"),
  (1086, "StringElement"),
  (1087, "StringElement"),
  (1088, "DescriptorBlock"),
  (2999, "PascalString"),
  (3000, "DescriptorBlock"),
  (10000, "PrintFlagsInfo")
]
/-- validator options of the adjustment classes -/
def channelMixerVersions : List Nat := [1]
def curvesExtraVersions : List Nat := [3, 4]
def gradientMapVersions : List Nat := [1, 3]
def gradientMethods : List (List UInt8) := [[71, 99, 108, 115], [76, 110, 114, 32], [80, 101, 114, 99], [83, 109, 111, 111]]
def gradientExpansions : List Nat := [2]
def gradientLengths : List Nat := [32]
def levelsVersions : List Nat := [2]
def photoFilterVersions : List Nat := [2, 3]
def selectiveColorVersions : List Nat := [1]
/-- `tagged_blocks.TYPES` restricted to `ADJUSTMENT_TYPES`: (key, class name), sorted -/
def unit8Registry : List (List UInt8 × String) := [
  ([71, 100, 70, 108], "DescriptorBlock"),
  ([80, 116, 70, 108], "DescriptorBlock"),
  ([83, 111, 67, 111], "DescriptorBlock"),
  ([98, 108, 110, 99], "ColorBalance"),
  ([98, 108, 119, 104], "DescriptorBlock"),
  ([98, 114, 105, 116], "BrightnessContrast"),
  ([99, 108, 114, 76], "ColorLookup"),
  ([99, 117, 114, 118], "Curves"),
  ([101, 120, 112, 65], "Exposure"),
  ([103, 114, 100, 109], "GradientMap"),
  ([104, 117, 101, 32], "HueSaturation"),
  ([104, 117, 101, 50], "HueSaturation"),
  ([108, 101, 118, 108], "Levels"),
  ([109, 105, 120, 114], "ChannelMixer"),
  ([110, 118, 114, 116], "EmptyElement"),
  ([112, 104, 102, 108], "PhotoFilter"),
  ([112, 111, 115, 116], "ShortIntegerElement"),
  ([115, 101, 108, 99], "SelectiveColor"),
  ([116, 104, 114, 115], "ShortIntegerElement"),
  ([118, 105, 98, 65], "DescriptorBlock")
]
/-- members of `constants.PathResourceID` -/
def pathResourceIDs : List Nat := [0, 1, 2, 3, 4, 5, 6, 7, 8]
/-- `vector.TYPES`: (selector, class name), sorted -/
def pathSelectors : List (Nat × String) := [(0, "ClosedPath"), (1, "ClosedKnotLinked"), (2, "ClosedKnotUnlinked"), (3, "OpenPath"), (4, "OpenKnotLinked"), (5, "OpenKnotUnlinked"), (6, "PathFillRule"), (7, "ClipboardRecord"), (8, "InitialFillRule")]
/-- bodies of `decode_fixed_point` / `encode_fixed_point` -/
def decodeFixedPoint : String := "return tuple((float(x) / 16777216 for x in numbers))"
def encodeFixedPoint : String := "return tuple((int(x * 16777216) for x in numbers))"
/-- `tagged_blocks.TYPES`: the vector keys: (key, class name), sorted -/
def unit9Registry : List (List UInt8 × String) := [
  ([118, 109, 115, 107], "VectorMaskSetting"),
  ([118, 111, 103, 107], "DescriptorBlock2"),
  ([118, 115, 99, 103], "VectorStrokeContentSetting"),
  ([118, 115, 109, 115], "VectorMaskSetting"),
  ([118, 115, 116, 107], "DescriptorBlock")
]
/-- `tagged_blocks.TYPES`: the filter-effect keys -/
def unit10Registry : List (List UInt8 × String) := [
  ([70, 69, 76, 83], "FilterEffects"),
  ([70, 69, 105, 100], "FilterEffects"),
  ([70, 88, 105, 100], "FilterEffects")
]
/-- unit7: calls of the modelled classes, in source order -/
def unit7Calls : List (String × String × String × String) := [
  ("ImageResource", "read", "read_fmt", "'4sH', fp"),
  ("ImageResource", "read", "read_pascal_string", "fp, encoding, padding=2"),
  ("ImageResource", "read", "read_length_block", "fp, padding=2"),
  ("ImageResource", "write", "write_fmt", "fp, '4sH', self.signature, getattr(self.key, 'value', self.key)"),
  ("ImageResource", "write", "write_pascal_string", "fp, self.name, encoding, 2"),
  ("ImageResource", "write", "write_bytes", "f, self.data"),
  ("ImageResource", "write", "write_length_block", "fp, writer, padding=2"),
  ("AlphaIdentifiers", "read", "is_readable", "fp, 4"),
  ("AlphaIdentifiers", "read", "read_fmt", "'I', fp"),
  ("AlphaIdentifiers", "write", "write_fmt", "fp, 'I', item"),
  ("AlphaNamesPascal", "read", "is_readable", "fp"),
  ("AlphaNamesPascal", "read", "read_pascal_string", "fp, 'macroman', padding=1"),
  ("AlphaNamesPascal", "write", "write_pascal_string", "fp, item, padding=1"),
  ("AlphaNamesUnicode", "read", "is_readable", "fp"),
  ("AlphaNamesUnicode", "read", "read_unicode_string", "fp"),
  ("AlphaNamesUnicode", "write", "write_unicode_string", "fp, item"),
  ("DisplayInfo", "read", "read_fmt", "'I', fp"),
  ("DisplayInfo", "read", "is_readable", "fp, 13"),
  ("DisplayInfo", "write", "write_fmt", "fp, 'I', self.version"),
  ("AlphaChannel", "read", "read_fmt", "'6H', fp"),
  ("AlphaChannel", "read", "read_fmt", "'B', fp"),
  ("AlphaChannel", "write", "write_fmt", "fp, '6H', self.color_space, self.c1, self.c2, self.c3, self.c4, self.opacity"),
  ("AlphaChannel", "write", "write_fmt", "fp, 'B', self.mode"),
  ("Byte", "read", "read_fmt", "'B', fp"),
  ("Byte", "write", "write_fmt", "fp, 'B', self.value"),
  ("GridGuidesInfo", "read", "read_fmt", "'4I', fp"),
  ("GridGuidesInfo", "read", "read_fmt", "'IB', fp"),
  ("GridGuidesInfo", "write", "write_fmt", "fp, '4I', self.version, self.horizontal, self.vertical, len(self.data)"),
  ("GridGuidesInfo", "write", "write_fmt", "fp, 'IB', *item"),
  ("HalftoneScreens", "read", "is_readable", "fp, 18"),
  ("HalftoneScreens", "write", "<none>", ""),
  ("HalftoneScreen", "read", "read_fmt", "'I', fp"),
  ("HalftoneScreen", "read", "read_fmt", "'H', fp"),
  ("HalftoneScreen", "read", "read_fmt", "'i', fp"),
  ("HalftoneScreen", "read", "read_fmt", "'H4x2?', fp"),
  ("HalftoneScreen", "write", "write_fmt", "fp, 'I', int(self.freq * 65536)"),
  ("HalftoneScreen", "write", "write_fmt", "fp, 'H', self.unit"),
  ("HalftoneScreen", "write", "write_fmt", "fp, 'i', int(self.angle * 65536)"),
  ("HalftoneScreen", "write", "write_fmt", "fp, 'H4x2?', self.shape, self.use_accurate, self.use_printer"),
  ("Integer", "read", "read_fmt", "'i', fp"),
  ("Integer", "write", "write_fmt", "fp, 'i', self.value"),
  ("LayerGroupEnabledIDs", "read", "is_readable", "fp, 1"),
  ("LayerGroupEnabledIDs", "read", "read_fmt", "'B', fp"),
  ("LayerGroupEnabledIDs", "write", "write_fmt", "fp, 'B', item"),
  ("LayerGroupInfo", "read", "is_readable", "fp, 2"),
  ("LayerGroupInfo", "read", "read_fmt", "'H', fp"),
  ("LayerGroupInfo", "write", "write_fmt", "fp, 'H', item"),
  ("LayerSelectionIDs", "read", "read_fmt", "'H', fp"),
  ("LayerSelectionIDs", "read", "read_fmt", "'I', fp"),
  ("LayerSelectionIDs", "write", "write_fmt", "fp, 'H', len(self)"),
  ("LayerSelectionIDs", "write", "write_fmt", "fp, 'I', item"),
  ("ShortInteger", "read", "read_fmt", "'H', fp"),
  ("ShortInteger", "write", "write_fmt", "fp, 'H', self.value"),
  ("PascalString", "read", "read_pascal_string", "fp, 'macroman'"),
  ("PascalString", "write", "write_pascal_string", "fp, self.value, 'macroman', padding=1"),
  ("PixelAspectRatio", "read", "read_fmt", "'Id', fp"),
  ("PixelAspectRatio", "write", "write_fmt", "fp, 'Id', self.version, self.value"),
  ("PrintFlags", "read", "read_fmt", "'8?', fp"),
  ("PrintFlags", "read", "is_readable", "fp"),
  ("PrintFlags", "read", "read_fmt", "'?', fp"),
  ("PrintFlags", "write", "write_fmt", "fp, '%d?' % len(values), *values"),
  ("PrintFlagsInfo", "read", "read_fmt", "'HBxIH', fp"),
  ("PrintFlagsInfo", "write", "write_fmt", "fp, 'HBxIH', *attr.astuple(self)"),
  ("PrintScale", "read", "read_fmt", "'H3f', fp"),
  ("PrintScale", "write", "write_fmt", "fp, 'H3f', self.style.value, self.x, self.y, self.scale"),
  ("ResoulutionInfo", "read", "read_fmt", "'I2HI2H', fp"),
  ("ResoulutionInfo", "write", "write_fmt", "fp, 'I2HI2H', *attr.astuple(self)"),
  ("Slices", "read", "read_fmt", "'I', fp"),
  ("Slices", "write", "write_fmt", "fp, 'I', self.version"),
  ("SlicesV6", "read", "read_fmt", "'4I', fp"),
  ("SlicesV6", "read", "read_unicode_string", "fp"),
  ("SlicesV6", "read", "read_fmt", "'I', fp"),
  ("SlicesV6", "write", "write_fmt", "fp, '4I', *self.bbox"),
  ("SlicesV6", "write", "write_unicode_string", "fp, self.name"),
  ("SlicesV6", "write", "write_fmt", "fp, 'I', len(self.items)"),
  ("SliceV6", "read", "read_fmt", "'3I', fp"),
  ("SliceV6", "read", "read_fmt", "'I', fp"),
  ("SliceV6", "read", "read_unicode_string", "fp"),
  ("SliceV6", "read", "read_fmt", "'I', fp"),
  ("SliceV6", "read", "read_fmt", "'4I', fp"),
  ("SliceV6", "read", "read_unicode_string", "fp"),
  ("SliceV6", "read", "read_unicode_string", "fp"),
  ("SliceV6", "read", "read_unicode_string", "fp"),
  ("SliceV6", "read", "read_unicode_string", "fp"),
  ("SliceV6", "read", "read_fmt", "'?', fp"),
  ("SliceV6", "read", "read_unicode_string", "fp"),
  ("SliceV6", "read", "read_fmt", "'2I', fp"),
  ("SliceV6", "read", "read_fmt", "'4B', fp"),
  ("SliceV6", "read", "is_readable", "fp, 4"),
  ("SliceV6", "read", "read_fmt", "'I', fp"),
  ("SliceV6", "write", "write_fmt", "fp, '3I', self.slice_id, self.group_id, self.origin"),
  ("SliceV6", "write", "write_fmt", "fp, 'I', self.associated_id"),
  ("SliceV6", "write", "write_unicode_string", "fp, self.name, padding=1"),
  ("SliceV6", "write", "write_fmt", "fp, 'I', self.slice_type"),
  ("SliceV6", "write", "write_fmt", "fp, '4I', *self.bbox"),
  ("SliceV6", "write", "write_unicode_string", "fp, self.url, padding=1"),
  ("SliceV6", "write", "write_unicode_string", "fp, self.target, padding=1"),
  ("SliceV6", "write", "write_unicode_string", "fp, self.message, padding=1"),
  ("SliceV6", "write", "write_unicode_string", "fp, self.alt_tag, padding=1"),
  ("SliceV6", "write", "write_fmt", "fp, '?', self.cell_is_html"),
  ("SliceV6", "write", "write_unicode_string", "fp, self.cell_text, padding=1"),
  ("SliceV6", "write", "write_fmt", "fp, '2I', self.horizontal_align, self.vertical_align"),
  ("SliceV6", "write", "write_fmt", "fp, '4B', self.alpha, self.red, self.green, self.blue"),
  ("SliceV6", "write", "write_bytes", "fp, self.data"),
  ("ThumbnailResource", "read", "read_fmt", "'6I2H', fp"),
  ("ThumbnailResource", "write", "write_fmt", "fp, '6I2H', self.fmt, self.width, self.height, self.row, self.total_size, len(self.data), self.bits, self.planes"),
  ("ThumbnailResource", "write", "write_bytes", "fp, self.data"),
  ("ThumbnailResourceV4", "read", "<inherited>", ""),
  ("ThumbnailResourceV4", "write", "<inherited>", ""),
  ("TransferFunctions", "read", "is_readable", "fp, 28"),
  ("TransferFunctions", "write", "<none>", ""),
  ("TransferFunction", "read", "read_fmt", "'13H', fp"),
  ("TransferFunction", "read", "read_fmt", "'H', fp"),
  ("TransferFunction", "write", "write_fmt", "fp, '13H', *self.curve"),
  ("TransferFunction", "write", "write_fmt", "fp, 'H', self.override"),
  ("URLList", "read", "read_fmt", "'I', fp"),
  ("URLList", "write", "write_fmt", "fp, 'I', len(self)"),
  ("URLItem", "read", "read_fmt", "'2I', fp"),
  ("URLItem", "read", "read_unicode_string", "fp"),
  ("URLItem", "write", "write_fmt", "fp, '2I', self.number, self.id"),
  ("URLItem", "write", "write_unicode_string", "fp, self.name"),
  ("VersionInfo", "read", "read_fmt", "'I?', fp"),
  ("VersionInfo", "read", "read_unicode_string", "fp"),
  ("VersionInfo", "read", "read_unicode_string", "fp"),
  ("VersionInfo", "read", "read_fmt", "'I', fp"),
  ("VersionInfo", "write", "write_fmt", "fp, 'I?', self.version, self.has_composite"),
  ("VersionInfo", "write", "write_unicode_string", "fp, self.writer"),
  ("VersionInfo", "write", "write_unicode_string", "fp, self.reader"),
  ("VersionInfo", "write", "write_fmt", "fp, 'I', self.file_version")
]
/-- unit7: conditions of the modelled classes, in source order -/
def unit7Conditions : List (String × String × String) := [
  ("ImageResource", "read", "Resource.is_path_info(key); Resource.is_plugin_resource(key); key in TYPES"),
  ("ImageResource", "write", "hasattr(self.data, 'write')"),
  ("AlphaIdentifiers", "read", "is_readable(fp, 4)"),
  ("AlphaNamesPascal", "read", "is_readable(fp)"),
  ("AlphaNamesUnicode", "read", "is_readable(fp)"),
  ("DisplayInfo", "read", "is_readable(fp, 13)"),
  ("HalftoneScreens", "read", "is_readable(fp, 18)"),
  ("LayerGroupEnabledIDs", "read", "is_readable(fp, 1)"),
  ("LayerGroupInfo", "read", "is_readable(fp, 2)"),
  ("PrintFlags", "read", "is_readable(fp)"),
  ("PrintFlags", "write", "self.print_flags is None"),
  ("Slices", "read", "version == 6"),
  ("SliceV6", "read", "origin == 1; is_readable(fp, 4); version == 16; data.classID == b'\\x00\\x00\\x00\\x00'"),
  ("SliceV6", "write", "self.origin == 1 and self.associated_id is not None; self.data is not None; hasattr(self.data, 'write'); self.data"),
  ("TransferFunctions", "read", "is_readable(fp, 28)")
]
/-- unit7: asserts of the modelled classes, in source order -/
def unit7Asserts : List (String × String × String) := [
  ("Slices", "read", "version in (6, 7, 8)")
]
/-- unit7: excepts of the modelled classes, in source order -/
def unit7Excepts : List (String × String × String) := [
  ("ImageResource", "read", "ValueError"),
  ("SliceV6", "read", "(ValueError, IOError)")
]
/-- unit7: bases of the modelled classes, in source order -/
def unit7Bases : List (String × String) := [
  ("ImageResource", "BaseElement"),
  ("AlphaIdentifiers", "ListElement"),
  ("AlphaNamesPascal", "ListElement"),
  ("AlphaNamesUnicode", "ListElement"),
  ("DisplayInfo", "BaseElement"),
  ("AlphaChannel", "BaseElement"),
  ("Byte", "ByteElement"),
  ("GridGuidesInfo", "BaseElement"),
  ("HalftoneScreens", "ListElement"),
  ("HalftoneScreen", "BaseElement"),
  ("Integer", "IntegerElement"),
  ("LayerGroupEnabledIDs", "ListElement"),
  ("LayerGroupInfo", "ListElement"),
  ("LayerSelectionIDs", "ListElement"),
  ("ShortInteger", "ShortIntegerElement"),
  ("PascalString", "ValueElement"),
  ("PixelAspectRatio", "NumericElement"),
  ("PrintFlags", "BaseElement"),
  ("PrintFlagsInfo", "BaseElement"),
  ("PrintScale", "BaseElement"),
  ("ResoulutionInfo", "BaseElement"),
  ("Slices", "BaseElement"),
  ("SlicesV6", "BaseElement"),
  ("SliceV6", "BaseElement"),
  ("ThumbnailResource", "BaseElement"),
  ("ThumbnailResourceV4", "ThumbnailResource"),
  ("TransferFunctions", "ListElement"),
  ("TransferFunction", "BaseElement"),
  ("URLList", "ListElement"),
  ("URLItem", "BaseElement"),
  ("VersionInfo", "BaseElement")
]
/-- unit8: calls of the modelled classes, in source order -/
def unit8Calls : List (String × String × String × String) := [
  ("BrightnessContrast", "read", "read_fmt", "'3HBx', fp"),
  ("BrightnessContrast", "write", "write_fmt", "fp, '3HBx', *attr.astuple(self)"),
  ("ColorBalance", "read", "read_fmt", "'3h', fp"),
  ("ColorBalance", "read", "read_fmt", "'3h', fp"),
  ("ColorBalance", "read", "read_fmt", "'3h', fp"),
  ("ColorBalance", "read", "read_fmt", "'B', fp"),
  ("ColorBalance", "write", "write_fmt", "fp, '3h', *self.shadows"),
  ("ColorBalance", "write", "write_fmt", "fp, '3h', *self.midtones"),
  ("ColorBalance", "write", "write_fmt", "fp, '3h', *self.highlights"),
  ("ColorBalance", "write", "write_fmt", "fp, 'B', self.luminosity"),
  ("ColorBalance", "write", "write_padding", "fp, written, 4"),
  ("ColorLookup", "read", "read_fmt", "'HI', fp"),
  ("ColorLookup", "write", "write_fmt", "fp, 'HI', self.version, self.data_version"),
  ("ColorLookup", "write", "write_padding", "fp, written, padding"),
  ("ChannelMixer", "read", "read_fmt", "'2H', fp"),
  ("ChannelMixer", "read", "read_fmt", "'5h', fp"),
  ("ChannelMixer", "write", "write_fmt", "fp, '2H', self.version, self.monochrome"),
  ("ChannelMixer", "write", "write_fmt", "fp, '5h', *self.data"),
  ("ChannelMixer", "write", "write_bytes", "fp, self.unknown"),
  ("Curves", "read", "read_fmt", "'BHI', fp"),
  ("Curves", "read", "read_fmt", "'256B', fp"),
  ("Curves", "read", "read_fmt", "'H', fp"),
  ("Curves", "read", "read_fmt", "'2H', fp"),
  ("Curves", "write", "write_fmt", "fp, 'BHI', self.is_map, self.version, self.count_map"),
  ("Curves", "write", "write_fmt", "fp, '256B', *item"),
  ("Curves", "write", "write_fmt", "fp, 'H', len(points)"),
  ("Curves", "write", "write_fmt", "fp, '2H', *item"),
  ("Curves", "write", "write_padding", "fp, written, 4"),
  ("CurvesExtraMarker", "read", "read_fmt", "'4sHI', fp"),
  ("CurvesExtraMarker", "write", "write_fmt", "fp, '4sHI', b'Crv ', self.version, len(self)"),
  ("CurvesExtraItem", "read", "read_fmt", "'H', fp"),
  ("CurvesExtraItem", "read", "read_fmt", "'256B', fp"),
  ("CurvesExtraItem", "read", "read_fmt", "'2H', fp"),
  ("CurvesExtraItem", "read", "read_fmt", "'2H', fp"),
  ("CurvesExtraItem", "write", "write_fmt", "fp, 'H', self.channel_id"),
  ("CurvesExtraItem", "write", "write_fmt", "fp, '256B', *self.points"),
  ("CurvesExtraItem", "write", "write_fmt", "fp, 'H', len(self.points)"),
  ("CurvesExtraItem", "write", "write_fmt", "fp, '2H', *p"),
  ("GradientMap", "read", "read_fmt", "'H2B', fp"),
  ("GradientMap", "read", "read_fmt", "'4s', fp"),
  ("GradientMap", "read", "read_unicode_string", "fp"),
  ("GradientMap", "read", "read_fmt", "'H', fp"),
  ("GradientMap", "read", "read_fmt", "'H', fp"),
  ("GradientMap", "read", "read_fmt", "'4H', fp"),
  ("GradientMap", "read", "read_fmt", "'I2H', fp"),
  ("GradientMap", "read", "read_fmt", "'IH', fp"),
  ("GradientMap", "read", "read_fmt", "'4H', fp"),
  ("GradientMap", "read", "read_fmt", "'4H', fp"),
  ("GradientMap", "read", "read_fmt", "'2x', fp"),
  ("GradientMap", "write", "write_fmt", "fp, 'H2B', self.version, self.is_reversed, self.is_dithered"),
  ("GradientMap", "write", "write_fmt", "fp, '4s', self.method"),
  ("GradientMap", "write", "write_unicode_string", "fp, self.name"),
  ("GradientMap", "write", "write_fmt", "fp, 'H', len(self.color_stops)"),
  ("GradientMap", "write", "write_fmt", "fp, 'H', len(self.transparency_stops)"),
  ("GradientMap", "write", "write_fmt", "fp, '4HI2HIH', self.expansion, self.interpolation, self.length, self.mode, self.random_seed, self.show_transparency, self.use_vector_color, self.roughness, self.color_model"),
  ("GradientMap", "write", "write_fmt", "fp, '4H', *self.minimum_color"),
  ("GradientMap", "write", "write_fmt", "fp, '4H', *self.maximum_color"),
  ("GradientMap", "write", "write_fmt", "fp, '2x'"),
  ("GradientMap", "write", "write_padding", "fp, written, 4"),
  ("ColorStop", "read", "read_fmt", "'2IH', fp"),
  ("ColorStop", "read", "read_fmt", "'4H2x', fp"),
  ("ColorStop", "write", "write_fmt", "fp, '2I5H2x', self.location, self.midpoint, self.mode, *self.color"),
  ("TransparencyStop", "read", "read_fmt", "'2IH', fp"),
  ("TransparencyStop", "write", "write_fmt", "fp, '2IH', *attr.astuple(self)"),
  ("Exposure", "read", "read_fmt", "'H3f', fp"),
  ("Exposure", "write", "write_fmt", "fp, 'H3f', *attr.astuple(self)"),
  ("Exposure", "write", "write_padding", "fp, written, padding"),
  ("HueSaturation", "read", "read_fmt", "'HBx', fp"),
  ("HueSaturation", "read", "read_fmt", "'3h', fp"),
  ("HueSaturation", "read", "read_fmt", "'3h', fp"),
  ("HueSaturation", "read", "read_fmt", "'4h', fp"),
  ("HueSaturation", "read", "read_fmt", "'3h', fp"),
  ("HueSaturation", "write", "write_fmt", "fp, 'HBx', self.version, self.enable"),
  ("HueSaturation", "write", "write_fmt", "fp, '3h', *self.colorization"),
  ("HueSaturation", "write", "write_fmt", "fp, '3h', *self.master"),
  ("HueSaturation", "write", "write_fmt", "fp, '4h', *item[0]"),
  ("HueSaturation", "write", "write_fmt", "fp, '3h', *item[1]"),
  ("HueSaturation", "write", "write_padding", "fp, written, 4"),
  ("Levels", "read", "read_fmt", "'H', fp"),
  ("Levels", "read", "is_readable", "fp, 6"),
  ("Levels", "read", "read_fmt", "'4sH', fp"),
  ("Levels", "read", "read_fmt", "'H', fp"),
  ("Levels", "write", "write_fmt", "fp, 'H', self.version"),
  ("Levels", "write", "write_fmt", "fp, '4sH', b'Lvls', self.extra_version"),
  ("Levels", "write", "write_fmt", "fp, 'H', len(self)"),
  ("Levels", "write", "write_padding", "fp, written, 4"),
  ("LevelRecord", "read", "read_fmt", "'5H', fp"),
  ("LevelRecord", "write", "write_fmt", "fp, '5H', *attr.astuple(self)"),
  ("PhotoFilter", "read", "read_fmt", "'H', fp"),
  ("PhotoFilter", "read", "read_fmt", "'3I', fp"),
  ("PhotoFilter", "read", "read_fmt", "'H', fp"),
  ("PhotoFilter", "read", "read_fmt", "'4H', fp"),
  ("PhotoFilter", "read", "read_fmt", "'IB', fp"),
  ("PhotoFilter", "write", "write_fmt", "fp, 'H', self.version"),
  ("PhotoFilter", "write", "write_fmt", "fp, '3I', *self.xyz"),
  ("PhotoFilter", "write", "write_fmt", "fp, 'H4H', self.color_space, *self.color_components"),
  ("PhotoFilter", "write", "write_fmt", "fp, 'IB', self.density, self.luminosity"),
  ("PhotoFilter", "write", "write_padding", "fp, written, 4"),
  ("SelectiveColor", "read", "read_fmt", "'2H', fp"),
  ("SelectiveColor", "read", "read_fmt", "'4h', fp"),
  ("SelectiveColor", "write", "write_fmt", "fp, '2H', self.version, self.method"),
  ("SelectiveColor", "write", "write_fmt", "fp, '4h', *plate")
]
/-- unit8: conditions of the modelled classes, in source order -/
def unit8Conditions : List (String × String × String) := [
  ("Curves", "read", "version == 1; is_map; version == 1"),
  ("Curves", "write", "self.is_map; self.extra is not None"),
  ("CurvesExtraItem", "read", "is_map"),
  ("CurvesExtraItem", "write", "len(self.points) > 0 and isinstance(self.points[0], int)"),
  ("GradientMap", "read", "version == 3"),
  ("GradientMap", "write", "self.version == 3"),
  ("Levels", "read", "is_readable(fp, 6)"),
  ("Levels", "write", "self.extra_version is not None"),
  ("PhotoFilter", "read", "version == 3"),
  ("PhotoFilter", "write", "self.version == 3")
]
/-- unit8: asserts of the modelled classes, in source order -/
def unit8Asserts : List (String × String × String) := [
  ("Curves", "read", "version in (1, 4); 2 <= point_count and point_count <= 19"),
  ("CurvesExtraMarker", "read", "signature == b'Crv '"),
  ("GradientMap", "read", "version in (1, 3); expansion == 2"),
  ("HueSaturation", "read", "version == 2"),
  ("Levels", "read", "version == 2; signature == b'Lvls'; extra_version == 3"),
  ("PhotoFilter", "read", "version in (2, 3)")
]
/-- unit8: excepts of the modelled classes, in source order -/
def unit8Excepts : List (String × String × String) := [
  ("Curves", "read", "IOError")
]
/-- unit8: bases of the modelled classes, in source order -/
def unit8Bases : List (String × String) := [
  ("BrightnessContrast", "BaseElement"),
  ("ColorBalance", "BaseElement"),
  ("ColorLookup", "DescriptorBlock2"),
  ("ChannelMixer", "BaseElement"),
  ("Curves", "BaseElement"),
  ("CurvesExtraMarker", "ListElement"),
  ("CurvesExtraItem", "BaseElement"),
  ("GradientMap", "BaseElement"),
  ("ColorStop", "BaseElement"),
  ("TransparencyStop", "BaseElement"),
  ("Exposure", "BaseElement"),
  ("HueSaturation", "BaseElement"),
  ("Levels", "ListElement"),
  ("LevelRecord", "BaseElement"),
  ("PhotoFilter", "BaseElement"),
  ("SelectiveColor", "BaseElement")
]
/-- unit9: calls of the modelled classes, in source order -/
def unit9Calls : List (String × String × String × String) := [
  ("Path", "read", "is_readable", "fp, 26"),
  ("Path", "read", "read_fmt", "'H', fp"),
  ("Path", "write", "write_fmt", "fp, 'H', item.selector.value"),
  ("Path", "write", "write_padding", "fp, written, padding"),
  ("Subpath", "read", "read_fmt", "'HhH2I10s', fp"),
  ("Subpath", "read", "read_fmt", "'H', fp"),
  ("Subpath", "write", "write_fmt", "fp, 'HhH2I10s', len(self), self.operation, self._unknown1, self._unknown2, self.index, self._unknown3"),
  ("Subpath", "write", "write_fmt", "fp, 'H', item.selector.value"),
  ("Knot", "read", "read_fmt", "'2i', fp"),
  ("Knot", "read", "read_fmt", "'2i', fp"),
  ("Knot", "read", "read_fmt", "'2i', fp"),
  ("Knot", "write", "write_fmt", "fp, '6i', *encode_fixed_point(values)"),
  ("ClosedPath", "read", "<inherited>", ""),
  ("ClosedPath", "write", "<inherited>", ""),
  ("OpenPath", "read", "<inherited>", ""),
  ("OpenPath", "write", "<inherited>", ""),
  ("ClosedKnotLinked", "read", "<inherited>", ""),
  ("ClosedKnotLinked", "write", "<inherited>", ""),
  ("ClosedKnotUnlinked", "read", "<inherited>", ""),
  ("ClosedKnotUnlinked", "write", "<inherited>", ""),
  ("OpenKnotLinked", "read", "<inherited>", ""),
  ("OpenKnotLinked", "write", "<inherited>", ""),
  ("OpenKnotUnlinked", "read", "<inherited>", ""),
  ("OpenKnotUnlinked", "write", "<inherited>", ""),
  ("PathFillRule", "read", "read_fmt", "'24x', fp"),
  ("PathFillRule", "write", "write_fmt", "fp, '24x'"),
  ("ClipboardRecord", "read", "read_fmt", "'5i4x', fp"),
  ("ClipboardRecord", "write", "write_fmt", "fp, '5i4x', *encode_fixed_point(attr.astuple(self))"),
  ("InitialFillRule", "read", "read_fmt", "'H22x', fp"),
  ("InitialFillRule", "write", "write_fmt", "fp, 'H22x', *attr.astuple(self)"),
  ("VectorMaskSetting", "read", "read_fmt", "'2I', fp"),
  ("VectorMaskSetting", "write", "write_fmt", "fp, '2I', self.version, self.flags"),
  ("VectorStrokeContentSetting", "read", "read_fmt", "'4sI', fp"),
  ("VectorStrokeContentSetting", "write", "write_fmt", "fp, '4sI', self.key, self.version"),
  ("VectorStrokeContentSetting", "write", "write_padding", "fp, written, padding")
]
/-- unit9: conditions of the modelled classes, in source order -/
def unit9Conditions : List (String × String × String) := [
  ("Path", "read", "is_readable(fp, 26)")
]
/-- unit9: asserts of the modelled classes, in source order -/
def unit9Asserts : List (String × String × String) := [
  ("VectorMaskSetting", "read", "version == 3")
]
/-- unit9: excepts of the modelled classes, in source order -/
def unit9Excepts : List (String × String × String) := []
/-- unit9: bases of the modelled classes, in source order -/
def unit9Bases : List (String × String) := [
  ("Path", "ListElement"),
  ("Subpath", "ListElement"),
  ("Knot", "BaseElement"),
  ("ClosedPath", "Subpath"),
  ("OpenPath", "Subpath"),
  ("ClosedKnotLinked", "Knot"),
  ("ClosedKnotUnlinked", "Knot"),
  ("OpenKnotLinked", "Knot"),
  ("OpenKnotUnlinked", "Knot"),
  ("PathFillRule", "BaseElement"),
  ("ClipboardRecord", "BaseElement"),
  ("InitialFillRule", "ValueElement"),
  ("VectorMaskSetting", "BaseElement"),
  ("VectorStrokeContentSetting", "Descriptor")
]
/-- unit10: calls of the modelled classes, in source order -/
def unit10Calls : List (String × String × String × String) := [
  ("FilterEffects", "read", "read_fmt", "'I', fp"),
  ("FilterEffects", "read", "is_readable", "fp, 8"),
  ("FilterEffects", "read", "read_length_block", "fp, fmt='Q', padding=4"),
  ("FilterEffects", "write", "write_fmt", "fp, 'I', self.version"),
  ("FilterEffects", "write", "write_length_block", "fp, item.write, fmt='Q', padding=4"),
  ("FilterEffect", "read", "read_pascal_string", "fp, encoding='ascii', padding=1"),
  ("FilterEffect", "read", "read_fmt", "'I', fp"),
  ("FilterEffect", "read", "read_length_block", "fp, fmt='Q'"),
  ("FilterEffect", "read", "is_readable", "fp"),
  ("FilterEffect", "_read_body", "read_fmt", "'4i', fp"),
  ("FilterEffect", "_read_body", "read_fmt", "'2I', fp"),
  ("FilterEffect", "write", "write_pascal_string", "fp, self.uuid, encoding='ascii', padding=1"),
  ("FilterEffect", "write", "write_fmt", "fp, 'I', self.version"),
  ("FilterEffect", "write", "write_length_block", "fp, writer, fmt='Q'"),
  ("FilterEffect", "_write_body", "write_fmt", "fp, '4i', *self.rectangle"),
  ("FilterEffect", "_write_body", "write_fmt", "fp, '2I', self.depth, self.max_channels"),
  ("FilterEffectChannel", "read", "read_fmt", "'I', fp"),
  ("FilterEffectChannel", "read", "read_length_block", "fp, fmt='Q'"),
  ("FilterEffectChannel", "read", "read_fmt", "'H', f"),
  ("FilterEffectChannel", "write", "write_fmt", "fp, 'I', self.is_written"),
  ("FilterEffectChannel", "write", "write_fmt", "f, 'H', self.compression"),
  ("FilterEffectChannel", "write", "write_bytes", "f, self.data"),
  ("FilterEffectChannel", "write", "write_length_block", "fp, writer, fmt='Q'"),
  ("FilterEffectExtra", "read", "read_fmt", "'B', fp"),
  ("FilterEffectExtra", "read", "read_fmt", "'4i', fp"),
  ("FilterEffectExtra", "read", "read_length_block", "fp, fmt='Q'"),
  ("FilterEffectExtra", "read", "read_fmt", "'H', f"),
  ("FilterEffectExtra", "write", "write_fmt", "fp, 'B', self.is_written"),
  ("FilterEffectExtra", "write", "write_fmt", "f, 'H', self.compression"),
  ("FilterEffectExtra", "write", "write_bytes", "f, self.data"),
  ("FilterEffectExtra", "write", "write_fmt", "fp, '4i', *self.rectangle"),
  ("FilterEffectExtra", "write", "write_length_block", "fp, writer, fmt='Q'")
]
/-- unit10: conditions of the modelled classes, in source order -/
def unit10Conditions : List (String × String × String) := [
  ("FilterEffects", "read", "is_readable(fp, 8)"),
  ("FilterEffect", "read", "is_readable(fp)"),
  ("FilterEffect", "write", "self.extra is not None"),
  ("FilterEffectChannel", "read", "is_written == 0; len(data) == 0"),
  ("FilterEffectChannel", "write", "self.is_written == 0; self.compression is None"),
  ("FilterEffectExtra", "read", "not is_written"),
  ("FilterEffectExtra", "write", "self.is_written")
]
/-- unit10: asserts of the modelled classes, in source order -/
def unit10Asserts : List (String × String × String) := [
  ("FilterEffects", "read", "version in (1, 2, 3)"),
  ("FilterEffect", "read", "version <= 1")
]
/-- unit10: excepts of the modelled classes, in source order -/
def unit10Excepts : List (String × String × String) := []
/-- unit10: bases of the modelled classes, in source order -/
def unit10Bases : List (String × String) := [
  ("FilterEffects", "ListElement"),
  ("FilterEffect", "BaseElement"),
  ("FilterEffectChannel", "BaseElement"),
  ("FilterEffectExtra", "BaseElement")
]

/-- the class names of `image_resources.TYPES` that have a codec in the model (all of them) -/
def unit7Modelled : List String := ["ResoulutionInfo", "AlphaNamesPascal", "PascalString", "Color", "PrintFlags", "HalftoneScreens",
  "TransferFunctions", "ShortInteger", "LayerGroupInfo", "GridGuidesInfo", "ThumbnailResourceV4", "Byte", "ThumbnailResource", "Integer",
  "AlphaNamesUnicode", "Slices", "StringElement", "AlphaIdentifiers", "URLList", "VersionInfo", "PrintScale", "PixelAspectRatio",
  "DescriptorBlock", "LayerSelectionIDs", "LayerGroupEnabledIDs", "DisplayInfo", "PrintFlagsInfo"]

/-- the class names under the `ADJUSTMENT_TYPES` keys that have a codec in the model (all of them) -/
def unit8Modelled : List String := ["DescriptorBlock", "ColorBalance", "BrightnessContrast", "ColorLookup", "Curves", "Exposure", "GradientMap",
  "HueSaturation", "Levels", "ChannelMixer", "EmptyElement", "PhotoFilter", "ShortIntegerElement", "SelectiveColor"]

end PsdVerif.Payload3.Tables
