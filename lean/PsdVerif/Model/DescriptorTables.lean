/-
C01 descriptors — the model's tables instantiated with what the source says now
(`Generated/Terms.lean`, `Generated/Descriptor.lean`, both rewritten on every run).
Core Lean only.
-/
import PsdVerif.Model.Descriptor
import PsdVerif.Generated.Terms
import PsdVerif.Generated.Descriptor

namespace PsdVerif.Descriptor
open PsdVerif PsdVerif.Codec

/-- `_TERMS`, `Unit`, `Enum` of the working tree -/
def realTables : Tables where
  terms b := b.length == 4 && Generated.Terms.termCodes.contains (beVal b)
  isUnit b := Generated.Descriptor.unitValues.contains b
  isEnum b := Generated.Descriptor.enumValues.contains b

/-- the model's OSType → class table, in the shape of the regenerated `descriptor.TYPES` -/
def modelTypes : List (List UInt8 × String) := Tag.all.map (fun t => (t.bytes, t.className))

/-- the `struct` formats the model implements, in the shape of `Generated.Descriptor.formats` -/
def modelFormats : List (String × String × String × String) := [
  ("<module>", "read_length_and_key", "read_fmt", "I"),
  ("<module>", "write_length_and_key", "write_fmt", "I"),
  ("Bool", "read", "read_fmt", "?"),
  ("Bool", "write", "write_fmt", "?"),
  ("DescriptorBlock", "read", "read_fmt", "I"),
  ("DescriptorBlock", "write", "write_fmt", "I"),
  ("DescriptorBlock2", "read", "read_fmt", "2I"),
  ("DescriptorBlock2", "write", "write_fmt", "2I"),
  ("Double", "read", "read_fmt", "d"),
  ("Double", "write", "write_fmt", "d"),
  ("Integer", "read", "read_fmt", "i"),
  ("Integer", "write", "write_fmt", "i"),
  ("LargeInteger", "read", "read_fmt", "q"),
  ("LargeInteger", "write", "write_fmt", "q"),
  ("List", "read", "read_fmt", "I"),
  ("List", "write", "write_fmt", "I"),
  ("ObjectArray", "read", "read_fmt", "I"),
  ("ObjectArray", "write", "write_fmt", "I"),
  ("Offset", "read", "read_fmt", "I"),
  ("Offset", "write", "write_fmt", "I"),
  ("UnitFloat", "read", "read_fmt", "4sd"),
  ("UnitFloat", "write", "write_fmt", "4sd"),
  ("UnitFloats", "read", "read_fmt", "%dd"),
  ("UnitFloats", "read", "read_fmt", "4sI"),
  ("UnitFloats", "write", "write_fmt", "4sI%dd"),
  ("_DescriptorMixin", "_read_body", "read_fmt", "I"),
  ("_DescriptorMixin", "_write_body", "write_fmt", "I")
]

end PsdVerif.Descriptor
