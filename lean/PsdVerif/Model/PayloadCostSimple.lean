/-
C06 — counting twins of the hand-written readers of Model/PayloadSimple.lean (unit 2: base.py, tagged_blocks.py,
color.py). Each `X.decC` has literally the structure of `X.dec` / `X.codec.dec`, with the counting primitives of
Model/PsdCost.lean and Model/PayloadCost.lean; `X.cc` bundles the codec, the twin and the constants proved in
Lemmas/PayloadCostSimple.lean.  Core Lean only.
-/
import PsdVerif.Model.PayloadCost

namespace PsdVerif.PayloadCost
open PsdVerif PsdVerif.Codec PsdVerif.PsdCost PsdVerif.Payload PsdVerif.Payload3

/-! ## base.py -/

def EmptyElement.decC : RC Unit := fun _ p => CE.ok ((), p)
def EmptyElement.cc : CC Unit := CC.hand EmptyElement.codec EmptyElement.decC "EmptyElement" 0 0 0 []

def NumericElement.cc : CC UInt64 := CC.hand NumericElement.codec readF64C "NumericElement" 1 1 8 []
def IntegerElement.cc : CC Nat := CC.hand IntegerElement.codec (readUC 4) "IntegerElement" 1 1 4 []

def readH2xC : RC Nat := fun d p => do
  let (v, p) ← readUC 2 d p
  let (_, p) ← readSkipC 2 d p
  CE.ok (v, p)

def ShortIntegerElement.decC : RC Nat := orElseIOC readH2xC (readUC 2)
def ShortIntegerElement.cc : CC Nat :=
  CC.hand ShortIntegerElement.codec ShortIntegerElement.decC "ShortIntegerElement" 1 6 2 []

def readB3xC : RC Nat := fun d p => do
  let (v, p) ← readUC 1 d p
  let (_, p) ← readSkipC 3 d p
  CE.ok (v, p)

def ByteElement.decC : RC Nat := orElseIOC readB3xC (readUC 1)
def ByteElement.cc : CC Nat := CC.hand ByteElement.codec ByteElement.decC "ByteElement" 1 6 1 []

def readBool3xC : RC Bool := fun d p => do
  let (v, p) ← readBoolC d p
  let (_, p) ← readSkipC 3 d p
  CE.ok (v, p)

def BooleanElement.decC : RC Bool := orElseIOC readBool3xC readBoolC
def BooleanElement.cc : CC Bool := CC.hand BooleanElement.codec BooleanElement.decC "BooleanElement" 1 6 1 []

/-- `StringElement.read(fp, padding=pr)`: `read_unicode_string(fp, padding=pr)`; the constants hold for `pr ≠ 0` -/
def StringElement.cc (pw pr : Nat) : CC Payload.Str :=
  CC.hand (StringElement.codec pw pr) (readUStrC pr) "StringElement" 1 3 4 []

/-! ## color.py -/

def Color.readValueC (lab : Bool) : RC Int := fun d p =>
  if lab then readI16C d p
  else do
    let (n, p') ← readUC 2 d p
    CE.ok ((n : Int), p')

def Color.decC : RC Color := fun d p => do
  let (id, p) ← readUC 2 d p
  let (vs, p) ← readCountC (Color.readValueC (id == GP.colorSpaceLab)) 4 d p
  CE.ok (⟨id, vs⟩, p)

def Color.cc : CC Color := CC.hand Color.codec Color.decC "Color" 1 9 10 [⟨"fixed", 2⟩]

/-! ## tagged_blocks.py -/

def SheetColorSetting.decC : RC Nat := fun d p => do
  let (v, p) ← readUC 2 d p
  let (_, p) ← readSkipC 6 d p
  if v ∈ GP.sheetColors then CE.ok (v, p) else CE.error .valueError

def SheetColorSetting.cc : CC Nat := CC.hand SheetColorSetting.codec SheetColorSetting.decC "SheetColorSetting" 1 2 8 []

def ChannelBlendingRestrictionsSetting.decC : RC (List Nat) := readWhileC (isReadableC 4) (optItemC (readUC 4))
def ChannelBlendingRestrictionsSetting.cc : CC (List Nat) :=
  CC.hand ChannelBlendingRestrictionsSetting.codec ChannelBlendingRestrictionsSetting.decC
    "ChannelBlendingRestrictionsSetting" 8 13 0 [⟨"while", 4⟩]

def BytesElement.cc : CC B := CC.hand BytesElement.codec (readUpToC 4) "Bytes" 1 1 0 []

def ReferencePoint.decC : RC (List UInt64) := fun d p => do
  let (x, p) ← readF64C d p
  let (y, p) ← readF64C d p
  CE.ok ([x, y], p)

def ReferencePoint.cc : CC (List UInt64) := CC.hand ReferencePoint.codec ReferencePoint.decC "ReferencePoint" 1 2 16 []

/-- `is_readable(fp, 8)` and `signature is not None and is_readable(fp, 4)` (short-circuit) are reads -/
def SectionDividerSetting.decC : RC SectionDividerSetting := fun d p => do
  let (kind, p) ← readUC 4 d p
  if kind ∈ GP.sectionDividerKinds then
    let r ← isReadableC 8 d p
    let (tail, p) ← (if r then do
        let (sig, p) ← readNC 4 d p
        if sig = SectionDividerSetting.sig8BIM then
          let (bm, p) ← readNC 4 d p
          if bm ∈ Psd.G.blendModes then CE.ok ((some sig, some bm), p) else CE.error .valueError
        else CE.error .assertionError
      else CE.ok ((none, none), p) : CE ((Option B × Option B) × Nat))
    let r2 ← (if tail.1.isSome then isReadableC 4 d p else CE.ok false)
    let (sub, p) ← (if r2 then optItemC (readUC 4) d p else CE.ok (none, p))
    CE.ok (⟨kind, tail.1, tail.2, sub⟩, p)
  else CE.error .valueError

def SectionDividerSetting.cc : CC SectionDividerSetting :=
  CC.hand SectionDividerSetting.codec SectionDividerSetting.decC "SectionDividerSetting" 1 18 4 []

def UserMask.decC : RC UserMask := fun d p => do
  let (c, p) ← Color.decC d p
  let (op, p) ← readUC 2 d p
  let (fl, p) ← readUC 1 d p
  let (_, p) ← readSkipC 1 d p
  CE.ok (⟨c, op, fl⟩, p)

def UserMask.cc : CC UserMask := CC.hand UserMask.codec UserMask.decC "UserMask" 1 12 14 [⟨"fixed", 2⟩]

def FilterMask.decC : RC FilterMask := fun d p => do
  let (c, p) ← Color.decC d p
  let (op, p) ← readUC 2 d p
  CE.ok (⟨c, op⟩, p)

def FilterMask.cc : CC FilterMask := CC.hand FilterMask.codec FilterMask.decC "FilterMask" 1 10 12 [⟨"fixed", 2⟩]

def PixelSourceData2.decC : RC (List B) := readWhileC (isReadableC 8) (optItemC (readLenBlockC 0 8 1))
def PixelSourceData2.cc (pad : Nat) : CC (List B) :=
  CC.hand (PixelSourceData2.codec pad) PixelSourceData2.decC "PixelSourceData2" 15 24 0 [⟨"while", 8⟩]

/-! ### Annotations / Annotation -/

def Annotation.decC : RC Annotation := fun d p => do
  let (kind, p) ← readNC 4 d p
  let (isOpen, p) ← readUC 1 d p
  let (flags, p) ← readUC 1 d p
  let (ob, p) ← readUC 2 d p
  let (icon, p) ← readCountC readI32C 4 d p
  let (popup, p) ← readCountC readI32C 4 d p
  let (color, p) ← Color.decC d p
  let (author, p) ← readPascalC 2 d p
  let (name, p) ← readPascalC 2 d p
  let (modDate, p) ← readPascalC 2 d p
  let (_, p) ← readUC 4 d p
  let (marker, p) ← readNC 4 d p
  let (data, p) ← readLenBlockC 0 4 1 d p
  let a : Annotation := ⟨kind, isOpen, flags, ob, icon, popup, color, author, name, modDate, marker, data⟩
  if a.Valid then CE.ok (a, p) else CE.error .valueError

def Annotation.cc : CC Annotation :=
  CC.hand Annotation.codec Annotation.decC "Annotation" 1 44 65 [⟨"fixed", 4⟩, ⟨"fixed", 4⟩, ⟨"fixed", 2⟩]

/-- `for _ in range(count)`: one tick per iteration; `with io.BytesIO(fp.read(length)) as f: Annotation.read(f)` -/
def Annotations.readItemsC : Nat → RC (List Annotation)
  | 0 => fun _ p => CE.ok ([], p)
  | n + 1 => fun d p => do
    tick
    let (len, p) ← readUC 4 d p
    if 4 < len then
      let (chunk, p) ← readUpToC (len - 4) d p
      enterBlock chunk
      let (a, _) ← Annotation.decC chunk 0
      let (as, p) ← Annotations.readItemsC n d p
      CE.ok (a :: as, p)
    else Annotations.readItemsC n d p

def Annotations.decC : RC Annotations := fun d p => do
  let (major, p) ← readUC 2 d p
  let (minor, p) ← readUC 2 d p
  let (count, p) ← readUC 4 d p
  let (items, p) ← Annotations.readItemsC count d p
  CE.ok (⟨major, minor, items⟩, p)

/-- the iteration consumes the 4 bytes of its length field whenever it succeeds: the bound does not mention the count -/
def Annotations.cc : CC Annotations :=
  CC.hand Annotations.codec Annotations.decC "Annotations" 13 5 8 [⟨"count", 4⟩]

end PsdVerif.PayloadCost
