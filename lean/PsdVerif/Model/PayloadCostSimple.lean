/-
C06 — counting twins of the hand-written readers of Model/PayloadSimple.lean (unit 2: base.py, tagged_blocks.py,
color.py). Each `X.decC` has literally the structure of `X.dec` / `X.codec.dec`, with the counting primitives of
Model/PsdCost.lean and Model/PayloadCost.lean; `X.cc` bundles the codec, the twin and the constants proved in
Lemmas/PayloadCostSimple.lean.  Core Lean only.
-/
import PsdVerif.Model.PayloadCost

namespace PsdVerif.PayloadCost
open PsdVerif PsdVerif.Codec PsdVerif.PsdCost PsdVerif.Payload PsdVerif.Payload3

/-! ## base.py -/

def EmptyElement.decC : RC Unit := fun _ p => CE.ok ((), p)
def EmptyElement.cc : CC Unit := CC.hand EmptyElement.codec EmptyElement.decC "EmptyElement" 0 0 0 []

def NumericElement.cc : CC UInt64 := CC.hand NumericElement.codec readF64C "NumericElement" 1 1 8 []
def IntegerElement.cc : CC Nat := CC.hand IntegerElement.codec (readUC 4) "IntegerElement" 1 1 4 []

def readH2xC : RC Nat := fun d p => do
  let (v, p) ← readUC 2 d p
  let (_, p) ← readSkipC 2 d p
  CE.ok (v, p)

def ShortIntegerElement.decC : RC Nat := orElseIOC readH2xC (readUC 2)
def ShortIntegerElement.cc : CC Nat :=
  CC.hand ShortIntegerElement.codec ShortIntegerElement.decC "ShortIntegerElement" 1 6 2 []

/-! ## color.py -/

def Color.readValueC (lab : Bool) : RC Int := fun d p =>
  if lab then readI16C d p
  else do
    let (n, p') ← readUC 2 d p
    CE.ok ((n : Int), p')

def Color.decC : RC Color := fun d p => do
  let (id, p) ← readUC 2 d p
  let (vs, p) ← readCountC (Color.readValueC (id == GP.colorSpaceLab)) 4 d p
  CE.ok (⟨id, vs⟩, p)

def Color.cc : CC Color := CC.hand Color.codec Color.decC "Color" 1 9 10 [⟨"fixed", 2⟩]

/-! ## tagged_blocks.py -/

def SheetColorSetting.decC : RC Nat := fun d p => do
  let (v, p) ← readUC 2 d p
  let (_, p) ← readSkipC 6 d p
  if v ∈ GP.sheetColors then CE.ok (v, p) else CE.error .valueError

def SheetColorSetting.cc : CC Nat := CC.hand SheetColorSetting.codec SheetColorSetting.decC "SheetColorSetting" 1 2 8 []

def ChannelBlendingRestrictionsSetting.decC : RC (List Nat) := readWhileC (isReadableC 4) (optItemC (readUC 4))
def ChannelBlendingRestrictionsSetting.cc : CC (List Nat) :=
  CC.hand ChannelBlendingRestrictionsSetting.codec ChannelBlendingRestrictionsSetting.decC
    "ChannelBlendingRestrictionsSetting" 8 13 0 [⟨"while", 4⟩]

end PsdVerif.PayloadCost
