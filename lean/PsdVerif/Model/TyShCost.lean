/-
C06 cost programme — `TypeToolObjectSetting.read` (tagged_blocks.py) as it is run on a `TySh` tagged block, INCLUDING the
engine-data parse it performs after the descriptors were read:

    text_data = DescriptorBlock.read(fp)
    if b"EngineData" in text_data:
        try:
            engine_data = text_data[b"EngineData"].value
            engine_data = EngineData.frombytes(engine_data)
            …
        except Exception:
            logger.warning(…)

`tyshRunner tb engine data`: the block is entered (`enterBlock`), the counting twin `TypeToolObjectSetting.decC`
(Model/PayloadCostDesc.lean) runs at cursor 0; when it succeeded, the bytes of the `RawData` stored under the key
`b"EngineData"` of the text descriptor (`Descriptor.findRaw`; any other class there makes `EngineData.frombytes` raise
inside the `try`) are handed to the engine-data parser `engine` (a parameter: `EngineDataCost.runEngineData`). What that
run COST is spent; its outcome is swallowed by `except Exception`.

Imports `Lemmas/DescriptorRawSize.lean` for `Descriptor.findRaw` (that file and everything below it is core Lean only).
Core Lean only.
-/
import PsdVerif.Model.PayloadCostDesc
import PsdVerif.Model.DescriptorRaw

namespace PsdVerif.PayloadCost
open PsdVerif PsdVerif.Codec PsdVerif.PsdCost PsdVerif.Payload PsdVerif.Payload3

/-- `b"EngineData"` -/
def engineDataKey : B := [69, 110, 103, 105, 110, 101, 68, 97, 116, 97]

/-- `TypeToolObjectSetting.frombytes(data)` with its engine-data parse -/
def tyshRunner (tb : Descriptor.Tables) (engine : B → CE Unit) (data : B) : CE Unit := do
  enterBlock data
  let (v, _) ← TypeToolObjectSetting.decC tb data 0
  match Descriptor.findRaw engineDataKey v.textData.items with
  | some raw => (.ok (), (engine raw).2)      -- the cost is spent, `except Exception` swallows the outcome
  | none => CE.ok ()

end PsdVerif.PayloadCost
