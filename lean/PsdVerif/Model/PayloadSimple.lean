/-
C01 payload classes — unit 2: the fixed-layout tagged-block payloads of psd/base.py, psd/tagged_blocks.py and
psd/color.py.  One `PCodec` per class (Model/PayloadBase.lean); beside each definition the Python it transliterates.

  base.py            EmptyElement · NumericElement `d` · IntegerElement `I` · ShortIntegerElement `H2x` | `H` ·
                     ByteElement `B3x` | `B` · BooleanElement `?3x` | `?` · StringElement (unicode string)
  tagged_blocks.py   ProtectedSetting (= IntegerElement) · Bytes · SheetColorSetting `H6x` · ReferencePoint `2d` ·
                     SectionDividerSetting · UserMask · FilterMask · ChannelBlendingRestrictionsSetting ·
                     MetadataSettings / MetadataSetting · PixelSourceData2 · Annotations / Annotation
  color.py           Color `H` + `4H` | `4h`

`try: read_fmt("H2x") except IOError: read_fmt("H")` is `orElseIO`: `read_fmt` restores the cursor before raising.
Doubles are 64-bit patterns (`UInt64`), pascal strings are their encoded bytes (the text encoding is C19's).
WF tags as in Model/Psd.lean: (i) validator/converter · (ii) on-disk width · (iii) format consistency · (F) forced.
Core Lean only.
-/
import PsdVerif.Model.PayloadBase
import PsdVerif.Model.Psd
import PsdVerif.Model.Descriptor
import PsdVerif.Generated.Payload

namespace PsdVerif.Payload
open PsdVerif PsdVerif.Codec

namespace GP
export PsdVerif.Generated.Payload (sectionDividerKinds sheetColors colorSpaceLab metadataSignatures metadataIntKeys
  metadataDescriptorKeys annotationKinds annotationMarkers)
end GP

/-- `try: a except IOError: b` for readers that restore the cursor when they fail (`read_fmt` does) -/
def orElseIO {α : Type} (a b : R α) : R α := fun d p =>
  match a d p with
  | .error .ioError => b d p
  | r => r

/-! ## base.py -/

/-- `EmptyElement`: `read` returns `cls()` without touching the stream, `write` returns 0 -/
def EmptyElement.codec : PCodec Unit where
  encT _ := []
  Fits _ := True
  decFits _ := inferInstanceAs (Decidable True)
  encP _ := wNil
  dec := fun _ p => .ok ((), p)
  consumed _ := 0
  WF _ := True
  decWF _ := inferInstanceAs (Decidable True)

/-- `NumericElement`: `read_fmt("d")` / `write_fmt(fp, "d", value)` -/
def NumericElement.codec : PCodec UInt64 where
  encT v := f64T v
  Fits _ := True
  decFits _ := inferInstanceAs (Decidable True)
  encP v := wBytes (f64T v)
  dec := readF64
  consumed _ := 8
  WF _ := True
  decWF _ := inferInstanceAs (Decidable True)

/-- `IntegerElement` (and `ProtectedSetting`, which adds properties only): `I` -/
def IntegerElement.codec : PCodec Nat where
  encT v := beBytes 4 v
  Fits v := FitsU 4 v
  decFits _ := by unfold FitsU; exact inferInstance
  encP v := wBytes (beBytes 4 v)
  dec := readU 4
  consumed _ := 4
  WF _ := True
  decWF _ := inferInstanceAs (Decidable True)

/-- `read_fmt("H2x")` -/
def readH2x : R Nat := fun d p => do
  let (v, p) ← readU 2 d p
  let (_, p) ← readSkip 2 d p
  .ok (v, p)

/-- `ShortIntegerElement`: `try: read_fmt("H2x") except IOError: read_fmt("H")`; `write_fmt(fp, "H2x", value)` -/
def ShortIntegerElement.codec : PCodec Nat where
  encT v := beBytes 2 v ++ zeros 2
  Fits v := FitsU 2 v
  decFits _ := by unfold FitsU; exact inferInstance
  encP v := wBytes (beBytes 2 v ++ zeros 2)
  dec := orElseIO readH2x (readU 2)
  consumed _ := 4
  WF _ := True
  decWF _ := inferInstanceAs (Decidable True)

def readB3x : R Nat := fun d p => do
  let (v, p) ← readU 1 d p
  let (_, p) ← readSkip 3 d p
  .ok (v, p)

/-- `ByteElement`: `B3x`, falling back to `B` -/
def ByteElement.codec : PCodec Nat where
  encT v := beBytes 1 v ++ zeros 3
  Fits v := FitsU 1 v
  decFits _ := by unfold FitsU; exact inferInstance
  encP v := wBytes (beBytes 1 v ++ zeros 3)
  dec := orElseIO readB3x (readU 1)
  consumed _ := 4
  WF _ := True
  decWF _ := inferInstanceAs (Decidable True)

def readBool3x : R Bool := fun d p => do
  let (v, p) ← readBool d p
  let (_, p) ← readSkip 3 d p
  .ok (v, p)

/-- `BooleanElement`: `?3x`, falling back to `?` (the converter is `bool`) -/
def BooleanElement.codec : PCodec Bool where
  encT v := boolT v ++ zeros 3
  Fits _ := True
  decFits _ := inferInstanceAs (Decidable True)
  encP v := wBytes (boolT v ++ zeros 3)
  dec := orElseIO readBool3x readBool
  consumed _ := 4
  WF _ := True
  decWF _ := inferInstanceAs (Decidable True)

/-- `StringElement.write(fp, padding=pw)` / `StringElement.read(fp, padding=pr)`. As a tagged-block payload it is
written with the inner padding (`padding=1 if padding == 4 else 4`) and read with the default (`padding=1`: the reader
is called with `version=` only), so the reader stops before the writer's filler. -/
def StringElement.codec (pw pr : Nat) : PCodec Str where
  encT s := ustrT pw s
  Fits s := (Unicode.encUnits s).length < 4294967296                -- (ii) the count is an `I`
  decFits _ := inferInstance
  encP s := wUStr pw s
  dec := readUStr pr
  consumed s := if pr = 1 then 4 + 2 * (Unicode.encUnits s).length else (ustrT pw s).length
  WF s :=
    Unicode.PyStr s                 -- a Python `str`
    ∧ Unicode.NoPair s              -- (iii) C19's law: an adjacent surrogate pair is one character after decoding
    ∧ (pr = 1 ∨ pr = pw) ∧ pw ≠ 0   -- the paddings the containers pass
  decWF _ := inferInstance

/-! ## color.py -/

structure Color where
  id : Nat                  -- `ColorSpaceID` member or a custom number
  values : List Int
  deriving DecidableEq, Repr

namespace Color

def isLab (c : Color) : Bool := c.id == GP.colorSpaceLab

def valueT (lab : Bool) (z : Int) : B := if lab then i16T z else beBytes 2 z.toNat

def valueFits (lab : Bool) (z : Int) : Prop := if lab then FitsI16 z else (0 ≤ z ∧ z < 65536)
instance (lab : Bool) (z : Int) : Decidable (valueFits lab z) := by unfold valueFits; split <;> exact inferInstance

/-- `write_fmt(fp, "H", id)`, then `"4h"` for Lab, `"4H"` otherwise -/
def encT (c : Color) : B := beBytes 2 c.id ++ listT (valueT c.isLab) c.values

def Fits (c : Color) : Prop := FitsU 2 c.id ∧ c.values.length = 4 ∧ listFits (valueFits c.isLab) c.values
instance (c : Color) : Decidable c.Fits := by unfold Fits; exact inferInstance

def encP (c : Color) : W := wBytes (beBytes 2 c.id) +> wBytes (listT (valueT c.isLab) c.values)

def readValue (lab : Bool) : R Int := fun d p =>
  if lab then readI16 d p
  else match readU 2 d p with
    | .ok (n, p') => .ok ((n : Int), p')
    | .error e => .error e

def dec : R Color := fun d p => do
  let (id, p) ← readU 2 d p
  let (vs, p) ← readCount (readValue (id == GP.colorSpaceLab)) 4 d p
  .ok (⟨id, vs⟩, p)

def codec : PCodec Color where
  encT := encT
  Fits := Fits
  decFits := inferInstance
  encP := encP
  dec := dec
  consumed _ := 10
  WF _ := True
  decWF _ := inferInstanceAs (Decidable True)

end Color

/-! ## tagged_blocks.py -/

/-- `Bytes`: `read` is `cls(fp.read(4))` (lenient), `write` is `write_bytes(fp, value)` -/
def BytesElement.codec : PCodec B where
  encT v := v
  Fits _ := True
  decFits _ := inferInstanceAs (Decidable True)
  encP v := wBytes v
  dec := readUpTo 4
  consumed v := v.length
  WF v := v.length ≤ 4                      -- (ii) the field is four bytes; a shorter value survives at the end of a stream
  decWF _ := inferInstance

/-- `SheetColorSetting`: `SheetColorType(*read_fmt("H6x", fp))` / `write_fmt(fp, "H6x", value.value)` -/
def SheetColorSetting.codec : PCodec Nat where
  encT v := beBytes 2 v ++ zeros 6
  Fits v := FitsU 2 v
  decFits _ := by unfold FitsU; exact inferInstance
  encP v := wBytes (beBytes 2 v ++ zeros 6)
  dec := fun d p => do
    let (v, p) ← readU 2 d p
    let (_, p) ← readSkip 6 d p
    if v ∈ GP.sheetColors then .ok (v, p) else .error .valueError
  consumed _ := 8
  WF v := v ∈ GP.sheetColors                -- (i) converter `SheetColorType`
  decWF _ := inferInstance

/-- `ReferencePoint`: `cls(list(read_fmt("2d", fp)))` / `write_fmt(fp, "2d", *self._items)` -/
def ReferencePoint.codec : PCodec (List UInt64) where
  encT vs := listT f64T vs
  Fits vs := vs.length = 2                  -- `struct.error` for any other number of arguments
  decFits _ := inferInstance
  encP vs := wBytes (listT f64T vs)
  dec := fun d p => do
    let (x, p) ← readF64 d p
    let (y, p) ← readF64 d p
    .ok ([x, y], p)
  consumed _ := 16
  WF _ := True
  decWF _ := inferInstanceAs (Decidable True)

structure SectionDividerSetting where
  kind : Nat
  signature : Option B
  blendMode : Option B          -- the value of the `BlendMode` member
  subType : Option Nat
  deriving DecidableEq, Repr

namespace SectionDividerSetting

/-- `if self.signature and self.blend_mode:` -/
def hasTail (x : SectionDividerSetting) : Option (B × B) :=
  match x.signature, x.blendMode with
  | some s, some b => if s ≠ [] ∧ b ≠ [] then some (s, b) else none
  | _, _ => none

def encT (x : SectionDividerSetting) : B :=
  beBytes 4 x.kind ++
  (match x.hasTail with
   | some (s, b) => pack4s s ++ pack4s b ++ Psd.optT 4 x.subType
   | none => [])

def Fits (x : SectionDividerSetting) : Prop :=
  FitsU 4 x.kind ∧ (match x.hasTail with | some _ => Psd.optFits 4 x.subType | none => True)
instance (x : SectionDividerSetting) : Decidable x.Fits := by
  unfold Fits; cases x.hasTail <;> simp only <;> exact inferInstance

def encP (x : SectionDividerSetting) : W :=
  let written := wBytes (beBytes 4 x.kind)
  match x.hasTail with
  | some (s, b) =>
    let written := written +> wBytes (pack4s s ++ pack4s b)
    (match x.subType with
     | some n => written +> wBytes (beBytes 4 n)
     | none => written)
  | none => written

def sig8BIM : B := [56, 66, 73, 77]

def dec : R SectionDividerSetting := fun d p => do
  let (kind, p) ← readU 4 d p
  if kind ∈ GP.sectionDividerKinds then                       -- `SectionDivider(…)`
    let (tail, p) ← (if isReadable 8 d p then do
        let (sig, p) ← readN 4 d p
        if sig = sig8BIM then
          let (bm, p) ← readN 4 d p
          if bm ∈ Psd.G.blendModes then .ok ((some sig, some bm), p) else .error .valueError
        else .error .assertionError
      else .ok ((none, none), p) : Except Err ((Option B × Option B) × Nat))
    -- `if signature is not None and is_readable(fp, 4):` (repo commit f04fc34: a sub type only behind a blend mode)
    let (sub, p) ← (if tail.1.isSome && isReadable 4 d p then Codec.optItem (readU 4) d p else .ok (none, p))
    .ok (⟨kind, tail.1, tail.2, sub⟩, p)
  else .error .valueError

def WF (x : SectionDividerSetting) : Prop :=
  x.kind ∈ GP.sectionDividerKinds                               -- (i) converter/validator `SectionDivider`
  ∧ (match x.signature, x.blendMode with
     | none, none => x.subType = none                           -- (iii) the sub type follows signature and key
     | some s, some b => s = sig8BIM ∧ b ∈ Psd.G.blendModes     -- (iii) the reader's assert; `BlendMode` member
     | _, _ => False)                                           -- (iii) signature and key travel together
instance (x : SectionDividerSetting) : Decidable x.WF := by
  unfold WF; cases x.signature <;> cases x.blendMode <;> simp only <;> exact inferInstance

def codec : PCodec SectionDividerSetting where
  encT := encT
  Fits := Fits
  decFits := inferInstance
  encP := encP
  dec := dec
  consumed x := (encT x).length
  WF := WF
  decWF := inferInstance

end SectionDividerSetting

structure UserMask where
  color : Color
  opacity : Nat
  flag : Nat
  deriving DecidableEq, Repr

/-- `UserMask`: `Color`, then `"HBx"` -/
def UserMask.codec : PCodec UserMask where
  encT x := x.color.encT ++ (beBytes 2 x.opacity ++ beBytes 1 x.flag ++ zeros 1)
  Fits x := x.color.Fits ∧ FitsU 2 x.opacity ∧ FitsU 1 x.flag
  decFits _ := inferInstance
  encP x := x.color.encP +> wBytes (beBytes 2 x.opacity ++ beBytes 1 x.flag ++ zeros 1)
  dec := fun d p => do
    let (c, p) ← Color.dec d p
    let (op, p) ← readU 2 d p
    let (fl, p) ← readU 1 d p
    let (_, p) ← readSkip 1 d p
    .ok (⟨c, op, fl⟩, p)
  consumed _ := 14
  WF _ := True
  decWF _ := inferInstanceAs (Decidable True)

structure FilterMask where
  color : Color
  opacity : Nat
  deriving DecidableEq, Repr

/-- `FilterMask`: `Color`, then `"H"` -/
def FilterMask.codec : PCodec FilterMask where
  encT x := x.color.encT ++ beBytes 2 x.opacity
  Fits x := x.color.Fits ∧ FitsU 2 x.opacity
  decFits _ := inferInstance
  encP x := x.color.encP +> wBytes (beBytes 2 x.opacity)
  dec := fun d p => do
    let (c, p) ← Color.dec d p
    let (op, p) ← readU 2 d p
    .ok (⟨c, op⟩, p)
  consumed _ := 12
  WF _ := True
  decWF _ := inferInstanceAs (Decidable True)

/-- `ChannelBlendingRestrictionsSetting`: `while is_readable(fp, 4): items.append(read_fmt("I", fp)[0])` /
`write_fmt(fp, "%dI" % len(self), *self._items)` -/
def ChannelBlendingRestrictionsSetting.codec : PCodec (List Nat) where
  encT vs := listT (beBytes 4) vs
  Fits vs := listFits (FitsU 4) vs
  decFits _ := by unfold FitsU; exact inferInstance
  encP vs := wBytes (listT (beBytes 4) vs)
  dec := readWhile (isReadable 4) (Codec.optItem (readU 4))
  consumed vs := 4 * vs.length
  WF _ := True
  decWF _ := inferInstanceAs (Decidable True)

/-- `PixelSourceData2`: `while is_readable(fp, 8): items.append(read_length_block(fp, fmt="Q"))` / every item as a
`Q` length block, then `write_padding(fp, written, padding)` -/
def PixelSourceData2.codec (pad : Nat) : PCodec (List B) where
  encT vs := listT (lenBlockT 0 8 1) vs ++ zeros (padAmount (listT (lenBlockT 0 8 1) vs).length pad)
  Fits vs := listFits (fun b => FitsU 8 b.length) vs
  decFits _ := by unfold FitsU; exact inferInstance
  encP vs :=
    let written := wList (fun b => wLenBlock 0 8 1 (wBytes b)) vs
    written +> wPad written.2 pad
  dec := readWhile (isReadable 8) (Codec.optItem (readLenBlock 0 8 1))
  consumed vs := (listT (lenBlockT 0 8 1) vs).length
  WF _ := pad = 1 ∨ pad = 2 ∨ pad = 4          -- the divisors the containers pass (the filler must stay below 8 bytes)
  decWF _ := inferInstance

/-! ### MetadataSettings / MetadataSetting -/

/-- the `data` attribute of a `MetadataSetting`: decided by the key when read -/
inductive MetaData where
  | raw (b : B)
  | int (n : Nat)
  | desc (blk : Descriptor.Block)
  deriving Repr

structure MetadataSetting where
  signature : B
  key : B
  copyOnSheet : Bool
  data : MetaData
  deriving Repr

namespace MetadataSetting
variable (tb : Descriptor.Tables)

/-- the `writer` closure: `data.write(f, padding=4)` | `write_fmt(fp, "I", data)` | `write_bytes(f, data)` -/
def dataT : MetaData → B
  | .raw b => b
  | .int n => beBytes 4 n
  | .desc blk => blk.encT tb 4

def dataP : MetaData → W
  | .raw b => wBytes b
  | .int n => wBytes (beBytes 4 n)
  | .desc blk => blk.encW tb 4

def dataFits : MetaData → Prop
  | .raw _ => True
  | .int n => FitsU 4 n
  | .desc blk => blk.Fits tb
instance (x : MetaData) : Decidable (dataFits tb x) := by
  cases x <;> simp only [dataFits] <;> first | exact inferInstance | (unfold FitsU; exact inferInstance)

def headT (x : MetadataSetting) : B := pack4s x.signature ++ pack4s x.key ++ boolT x.copyOnSheet ++ zeros 3

def encT (x : MetadataSetting) : B := headT x ++ lenBlockT 0 4 1 (dataT tb x.data)

def Fits (x : MetadataSetting) : Prop := dataFits tb x.data ∧ FitsU 4 (dataT tb x.data).length
instance (x : MetadataSetting) : Decidable (Fits tb x) := by unfold Fits FitsU; exact inferInstance

def encP (x : MetadataSetting) : W := wBytes (headT x) +> wLenBlock 0 4 1 (dataP tb x.data)

/-- `data` after `read_length_block`, by key -/
def typedData (key data : B) : Except Err MetaData :=
  if key ∈ GP.metadataIntKeys then
    match readU 4 data 0 with
    | .ok (n, _) => .ok (.int n)
    | .error e => .error e
  else if key ∈ GP.metadataDescriptorKeys then
    match Descriptor.Block.dec tb data 0 with
    | .ok (blk, _) => .ok (.desc blk)
    | .error e => .error e
  else .ok (.raw data)

def dec : R MetadataSetting := fun d p => do
  let (sig, p) ← readN 4 d p
  if sig ∈ GP.metadataSignatures then                 -- assert signature in cls._KNOWN_SIGNATURES
    let (key, p) ← readN 4 d p
    let (cos, p) ← readBool d p
    let (_, p) ← readSkip 3 d p
    let (data, p) ← readLenBlock 0 4 1 d p
    let x ← typedData tb key data
    .ok (⟨sig, key, cos, x⟩, p)
  else .error .assertionError

def WF (x : MetadataSetting) : Prop :=
  x.signature ∈ GP.metadataSignatures                 -- (i) validator
  ∧ x.key.length = 4                                  -- (ii) `4s`
  ∧ (match x.data with                                -- (iii) the key decides the type of `data`
     | .int _ => x.key ∈ GP.metadataIntKeys
     | .desc blk => x.key ∉ GP.metadataIntKeys ∧ x.key ∈ GP.metadataDescriptorKeys ∧ blk.WF tb
     | .raw _ => x.key ∉ GP.metadataIntKeys ∧ x.key ∉ GP.metadataDescriptorKeys)
instance (x : MetadataSetting) : Decidable (WF tb x) := by
  unfold WF; cases x.data <;> simp only <;> exact inferInstance

def codec : PCodec MetadataSetting where
  encT := encT tb
  Fits := Fits tb
  decFits := inferInstance
  encP := encP tb
  dec := dec tb
  consumed x := (encT tb x).length
  WF := WF tb
  decWF := inferInstance

end MetadataSetting

/-- `MetadataSettings`: a count, then the items -/
def MetadataSettings.codec (tb : Descriptor.Tables) : PCodec (List MetadataSetting) where
  encT xs := beBytes 4 xs.length ++ listT (MetadataSetting.encT tb) xs
  Fits xs := FitsU 4 xs.length ∧ listFits (MetadataSetting.Fits tb) xs
  decFits _ := by unfold FitsU; exact inferInstance
  encP xs := wBytes (beBytes 4 xs.length) +> wList (MetadataSetting.encP tb) xs
  dec := fun d p => do
    let (n, p) ← readU 4 d p
    readCount (MetadataSetting.dec tb) n d p
  consumed xs := 4 + (listT (MetadataSetting.encT tb) xs).length
  WF xs := ∀ x ∈ xs, MetadataSetting.WF tb x
  decWF _ := inferInstance

/-! ### Annotations / Annotation -/

structure Annotation where
  kind : B
  isOpen : Nat
  flags : Nat
  optionalBlocks : Nat
  iconLocation : List Int
  popupLocation : List Int
  color : Color
  author : B                -- the three pascal strings, encoded (MacRoman; the text encoding is C19's)
  name : B
  modDate : B
  marker : B
  data : B
  deriving DecidableEq, Repr

namespace Annotation

/-- `"4s2BH"`, `"4i"`, `"4i"`, `Color`, three pascal strings (padding 2), `"I4s"` (length + 12, marker), length block -/
def encT (a : Annotation) : B :=
  pack4s a.kind ++ beBytes 1 a.isOpen ++ beBytes 1 a.flags ++ beBytes 2 a.optionalBlocks ++
  listT i32T a.iconLocation ++ listT i32T a.popupLocation ++ a.color.encT ++
  pascalT 2 a.author ++ pascalT 2 a.name ++ pascalT 2 a.modDate ++
  beBytes 4 (a.data.length + 12) ++ pack4s a.marker ++ lenBlockT 0 4 1 a.data

def Fits (a : Annotation) : Prop :=
  FitsU 1 a.isOpen ∧ FitsU 1 a.flags ∧ FitsU 2 a.optionalBlocks ∧
  (a.iconLocation.length = 4 ∧ listFits FitsI32 a.iconLocation) ∧
  (a.popupLocation.length = 4 ∧ listFits FitsI32 a.popupLocation) ∧ a.color.Fits ∧
  a.author.length < 256 ∧ a.name.length < 256 ∧ a.modDate.length < 256 ∧
  FitsU 4 (a.data.length + 12) ∧ FitsU 4 a.data.length
instance (a : Annotation) : Decidable a.Fits := by unfold Fits FitsU; exact inferInstance

def encP (a : Annotation) : W :=
  let written := wBytes (pack4s a.kind ++ beBytes 1 a.isOpen ++ beBytes 1 a.flags ++ beBytes 2 a.optionalBlocks)
  let written := written +> wBytes (listT i32T a.iconLocation)
  let written := written +> wBytes (listT i32T a.popupLocation)
  let written := written +> a.color.encP
  let written := written +> wPascal 2 a.author
  let written := written +> wPascal 2 a.name
  let written := written +> wPascal 2 a.modDate
  let written := written +> wBytes (beBytes 4 (a.data.length + 12) ++ pack4s a.marker)
  written +> wLenBlock 0 4 1 (wBytes a.data)

/-- the validators of `kind` and `marker` run in the constructor, after everything was read -/
def Valid (a : Annotation) : Prop := a.kind ∈ GP.annotationKinds ∧ a.marker ∈ GP.annotationMarkers
instance (a : Annotation) : Decidable a.Valid := by unfold Valid; exact inferInstance

def dec : R Annotation := fun d p => do
  let (kind, p) ← readN 4 d p
  let (isOpen, p) ← readU 1 d p
  let (flags, p) ← readU 1 d p
  let (ob, p) ← readU 2 d p
  let (icon, p) ← readCount readI32 4 d p
  let (popup, p) ← readCount readI32 4 d p
  let (color, p) ← Color.dec d p
  let (author, p) ← readPascal 2 d p
  let (name, p) ← readPascal 2 d p
  let (modDate, p) ← readPascal 2 d p
  let (_, p) ← readU 4 d p
  let (marker, p) ← readN 4 d p
  let (data, p) ← readLenBlock 0 4 1 d p
  let a : Annotation := ⟨kind, isOpen, flags, ob, icon, popup, color, author, name, modDate, marker, data⟩
  if a.Valid then .ok (a, p) else .error .valueError

def codec : PCodec Annotation where
  encT := encT
  Fits := Fits
  decFits := inferInstance
  encP := encP
  dec := dec
  consumed a := a.encT.length
  WF := Valid                                   -- (i) the two validators
  decWF := inferInstance

end Annotation

structure Annotations where
  majorVersion : Nat
  minorVersion : Nat
  items : List Annotation
  deriving DecidableEq, Repr

namespace Annotations

def itemT (a : Annotation) : B := beBytes 4 (a.encT.length + 4) ++ a.encT

def bodyT (x : Annotations) : B :=
  beBytes 2 x.majorVersion ++ beBytes 2 x.minorVersion ++ beBytes 4 x.items.length ++ listT itemT x.items

/-- `"2HI"`, per item `"I"` (len + 4) and `item.tobytes()`, then `write_padding(fp, written, 4)` -/
def encT (x : Annotations) : B := x.bodyT ++ zeros (padAmount x.bodyT.length 4)

def Fits (x : Annotations) : Prop :=
  FitsU 2 x.majorVersion ∧ FitsU 2 x.minorVersion ∧ FitsU 4 x.items.length ∧
  listFits (fun (a : Annotation) => a.Fits ∧ FitsU 4 (a.encT.length + 4)) x.items
instance (x : Annotations) : Decidable x.Fits := by unfold Fits FitsU; exact inferInstance

def encP (x : Annotations) : W :=
  let written := wBytes (beBytes 2 x.majorVersion ++ beBytes 2 x.minorVersion ++ beBytes 4 x.items.length)
  let written := written +> wList (fun (a : Annotation) => wBytes (beBytes 4 (a.encT.length + 4)) +> wBytes a.encT) x.items
  written +> wPad written.2 4

/-- `for _ in range(count): length = read_fmt("I", fp)[0] - 4; if length > 0: items.append(Annotation.read(BytesIO(fp.read(length))))` -/
def readItems : Nat → R (List Annotation)
  | 0 => fun _ p => .ok ([], p)
  | n + 1 => fun d p => do
    let (len, p) ← readU 4 d p
    if 4 < len then
      let (chunk, p) ← readUpTo (len - 4) d p
      let (a, _) ← Annotation.dec chunk 0
      let (as, p) ← readItems n d p
      .ok (a :: as, p)
    else readItems n d p

def dec : R Annotations := fun d p => do
  let (major, p) ← readU 2 d p
  let (minor, p) ← readU 2 d p
  let (count, p) ← readU 4 d p
  let (items, p) ← readItems count d p
  .ok (⟨major, minor, items⟩, p)

def codec : PCodec Annotations where
  encT := encT
  Fits := Fits
  decFits := inferInstance
  encP := encP
  dec := dec
  consumed x := x.bodyT.length
  WF x := ∀ a ∈ x.items, a.Valid
  decWF _ := inferInstance

end Annotations

end PsdVerif.Payload
