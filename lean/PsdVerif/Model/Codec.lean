/-
C01/C03 — the binary primitives of `psd_tools/utils.py`.

Two sides, as in the code:

* writers.  Two presentations of the same writer:
  - `…T` : the bytes emitted, as a total function (`List UInt8`), plus a decidable
    `Fits` predicate saying that every `struct.pack` involved accepts its
    argument; `enc v = if Fits v then .ok (encT v) else .error .structError`.
  - `…P` : a *transcription* of the Python method including its `written`
    accumulator: a pair `W = (bytes emitted, count reported)`. Length prefixes
    and paddings are computed from the reported count, exactly as
    `write_length_block` / `write_padding` do. `Lemmas/Codec*.lean` prove
    `…P v = (…T v, (…T v).length)`, i.e. "the reported count is the number of
    bytes emitted" is a theorem, not a modelling assumption.
* readers.  A cursor machine `R α = data → pos → Except Err (α × pos)`; the
  position is absolute in the stream the Python reader sees, `is_readable` looks
  at the whole stream, `with io.BytesIO(block)` is a nested run from 0,
  `fp.seek(q)` sets the position, `fp.read(n)` is lenient (returns what is
  there) while `read_fmt` is exact-or-IOError.

Core Lean only.
-/
import PsdVerif.Model.Basic

namespace PsdVerif.Codec
open PsdVerif

abbrev B := List UInt8

/-- results of readers/writers can be compared by `decide` (concrete witnesses in Props) -/
instance instDecidableEqExcept {ε α : Type} [DecidableEq ε] [DecidableEq α] : DecidableEq (Except ε α) := fun a b =>
  match a, b with
  | .ok x, .ok y => if h : x = y then isTrue (by rw [h]) else isFalse (by intro e; cases e; exact h rfl)
  | .error x, .error y => if h : x = y then isTrue (by rw [h]) else isFalse (by intro e; cases e; exact h rfl)
  | .ok _, .error _ => isFalse (by intro e; cases e)
  | .error _, .ok _ => isFalse (by intro e; cases e)

/-- the cursor machine -/
abbrev R (α : Type) := B → Nat → Except Err (α × Nat)

/-- a writer result: bytes emitted and the byte count the Python method returns -/
abbrev W := B × Nat

def zeros (n : Nat) : B := List.replicate n 0

/-! ### integers -/

/-- the `w` low-order bytes of `n`, big endian (`struct.pack('>B/H/I/Q')` for `n < 256^w`) -/
def beBytes : Nat → Nat → B
  | 0, _ => []
  | w + 1, n => beBytes w (n / 256) ++ [UInt8.ofNat (n % 256)]

def beVal (bs : B) : Nat := bs.foldl (fun a b => a * 256 + b.toNat) 0

/-- two's complement, 16 and 32 bit (`struct` formats `h`, `i`) -/
def i16ToNat (z : Int) : Nat := (z % 65536).toNat
def natToI16 (n : Nat) : Int := if n < 32768 then (n : Int) else (n : Int) - 65536
def i32ToNat (z : Int) : Nat := (z % 4294967296).toNat
def natToI32 (n : Nat) : Int := if n < 2147483648 then (n : Int) else (n : Int) - 4294967296

def FitsU (w n : Nat) : Prop := n < 256 ^ w
def FitsI16 (z : Int) : Prop := -32768 ≤ z ∧ z < 32768
def FitsI32 (z : Int) : Prop := -2147483648 ≤ z ∧ z < 2147483648

instance : Decidable (FitsU w n) := by unfold FitsU; exact inferInstance
instance : Decidable (FitsI16 z) := by unfold FitsI16; exact inferInstance
instance : Decidable (FitsI32 z) := by unfold FitsI32; exact inferInstance

def i16T (z : Int) : B := beBytes 2 (i16ToNat z)
def i32T (z : Int) : B := beBytes 4 (i32ToNat z)

/-- `struct.pack('4s', b)`: truncated or zero-filled to four bytes -/
def pack4s (b : B) : B := (b ++ zeros 4).take 4

/-! ### padding, length blocks, pascal strings (writer side) -/

/-- number of filler bytes `write_padding(fp, size, divisor)` emits / `read_padding` skips -/
def padAmount (size divisor : Nat) : Nat :=
  if size % divisor = 0 then 0 else divisor - size % divisor

/-- `write_length_block(fp, writer, fmt, padding)` where `fmt` is `skip` filler bytes
followed by a `w`-byte unsigned integer (`"I"`: 0,4 · `"Q"`: 0,8 · `"xI"`: 1,4) -/
def lenBlockT (skip w pad : Nat) (body : B) : B :=
  zeros skip ++ beBytes w body.length ++ body ++ zeros (padAmount (body.length + (skip + w)) pad)

def pascalT (pad : Nat) (s : B) : B :=
  beBytes 1 s.length ++ s ++ zeros (padAmount (1 + s.length) pad)

/-! ### the same, with Python's `written` accumulator -/

def W.seq (a b : W) : W := (a.1 ++ b.1, a.2 + b.2)
infixl:65 " +> " => W.seq

/-- `write_bytes` / `write_fmt`: the count is `fp.tell()` after − before -/
def wBytes (bs : B) : W := (bs, bs.length)
def wNil : W := ([], 0)

/-- `write_padding(fp, size, divisor)`: filler computed from the *reported* size -/
def wPad (size divisor : Nat) : W := wBytes (zeros (padAmount size divisor))

/-- `write_length_block`: `reserve_position`, run the body writer, `write_position`
(packs the count the body *reported*), `write_padding` on the running count. -/
def wLenBlock (skip w pad : Nat) (body : W) : W :=
  let written := body.2
  let hdr := zeros skip ++ beBytes w written          -- write_position(fp, position, written, fmt)
  let written := written + hdr.length
  let p := wPad written pad
  (hdr ++ body.1 ++ p.1, written + p.2)

def wPascal (pad : Nat) (s : B) : W :=
  let a := wBytes (beBytes 1 s.length)
  let b := wBytes s
  let written := a.2 + b.2
  (a +> b) +> wPad written pad

/-! ### reader side -/

/-- `read_fmt`-style exact read: `n` bytes or `IOError` -/
def readN (n : Nat) : R B := fun d p =>
  if p + n ≤ d.length then .ok ((d.drop p).take n, p + n) else .error .ioError

/-- `fp.read(n)` for `n ≥ 0`: what is there, the cursor advances by what was returned -/
def readUpTo (n : Nat) : R B := fun d p =>
  let x := (d.drop p).take n
  .ok (x, p + x.length)

/-- `fp.read()` / `fp.read(n)` with `n < 0` -/
def readAll : R B := fun d p =>
  let x := d.drop p
  .ok (x, p + x.length)

/-- `sys.maxsize + 1 = 2^63`: `fp.read(n)` and `fp.seek(n)` raise `OverflowError` for `n` from here on (reachable
through the 8-byte length fields of a PSB). -/
def pyMaxSize : Nat := 9223372036854775808

/-- does a declared size / position overflow `Py_ssize_t` ? A stream of `2^63` bytes cannot exist in memory; for such
(fictitious) streams the model keeps the idealised behaviour, so that the algebraic laws of the writer/reader pair
need no size hypothesis while every real input is treated exactly as CPython treats it. -/
def overflows (n : Nat) (d : B) : Prop := pyMaxSize ≤ n ∧ d.length < pyMaxSize

instance (n : Nat) (d : B) : Decidable (overflows n d) := by unfold overflows; exact inferInstance

/-- `fp.read(n)` with a Python integer `n` (negative: to the end; beyond `sys.maxsize`: OverflowError) -/
def readPy (n : Int) : R B := fun d p =>
  if n < 0 then readAll d p
  else if overflows n.toNat d then .error .overflowError
  else readUpTo n.toNat d p

/-- `is_readable(fp, n)` (`n ≥ 1`): are `n` more bytes available in the stream? -/
def isReadable (n : Nat) (d : B) (p : Nat) : Bool := decide (p + n ≤ d.length)

def readU (w : Nat) : R Nat := fun d p =>
  match readN w d p with
  | .ok (bs, p') => .ok (beVal bs, p')
  | .error e => .error e

def readI16 : R Int := fun d p =>
  match readU 2 d p with
  | .ok (n, p') => .ok (natToI16 n, p')
  | .error e => .error e

def readI32 : R Int := fun d p =>
  match readU 4 d p with
  | .ok (n, p') => .ok (natToI32 n, p')
  | .error e => .error e

/-- `read_padding(fp, size, divisor)`: a lenient read of the filler -/
def readPadding (size divisor : Nat) : R Unit := fun d p =>
  match readUpTo (padAmount size divisor) d p with
  | .ok (_, p') => .ok ((), p')
  | .error e => .error e

/-- `read_length_block(fp, fmt, padding)` -/
def readLenBlock (skip w pad : Nat) : R B := fun d p =>
  match readN skip d p with
  | .error e => .error e
  | .ok (_, p0) =>
  match readU w d p0 with
  | .error e => .error e
  | .ok (n, p1) =>
    if overflows n d then .error .overflowError       -- `fp.read(length)`
    else
    match readUpTo n d p1 with
    | .error e => .error e
    | .ok (x, p2) =>
      if x.length ≠ n then .error .ioError
      else match readPadding n pad d p2 with
        | .error e => .error e
        | .ok (_, p3) => .ok (x, p3)

/-- `read_pascal_string(fp, encoding, padding)` without the final `.decode(encoding)` -/
def readPascal (pad : Nat) : R B := fun d p =>
  match readU 1 d p with
  | .error e => .error e
  | .ok (n, p1) =>
    match readUpTo n d p1 with
    | .error e => .error e
    | .ok (x, p2) =>
      if x.length ≠ n then .error .assertionError
      else match readPadding (p2 - p) pad d p2 with
        | .error e => .error e
        | .ok (_, p3) => .ok (x, p3)

/-! ### lists -/

/-- concatenated encodings of a list -/
def listT {α : Type} (f : α → B) : List α → B
  | [] => []
  | v :: vs => f v ++ listT f vs

def wList {α : Type} (f : α → W) : List α → W
  | [] => wNil
  | v :: vs => f v +> wList f vs

/-- `for _ in range(n): items.append(read(fp))` -/
def readCount {α : Type} (item : R α) : Nat → R (List α)
  | 0 => fun _ p => .ok ([], p)
  | n + 1 => fun d p =>
    match item d p with
    | .error e => .error e
    | .ok (a, p1) =>
      match readCount item n d p1 with
      | .error e => .error e
      | .ok (as, p2) => .ok (a :: as, p2)

/-- `for x in xs: items.append(read(fp, x))` -/
def readFor {α β : Type} (item : β → R α) : List β → R (List α)
  | [] => fun _ p => .ok ([], p)
  | x :: xs => fun d p =>
    match item x d p with
    | .error e => .error e
    | .ok (a, p1) =>
      match readFor item xs d p1 with
      | .error e => .error e
      | .ok (as, p2) => .ok (a :: as, p2)

/-- `while cond(fp): x = read(fp); if x is None: break; items.append(x)`.
Every iteration of the Python loops modelled with this consumes at least one
byte or raises, so `fuel = remaining bytes + 1` is never exhausted; the
`fuel = 0` branch is there for totality only (`Err.other`). -/
def readWhileFuel {α : Type} (cond : B → Nat → Bool) (item : R (Option α)) : Nat → R (List α)
  | 0 => fun _ _ => .error .other
  | fuel + 1 => fun d p =>
    if cond d p then
      match item d p with
      | .error e => .error e
      | .ok (none, p1) => .ok ([], p1)
      | .ok (some a, p1) =>
        match readWhileFuel cond item fuel d p1 with
        | .error e => .error e
        | .ok (as, p2) => .ok (a :: as, p2)
    else .ok ([], p)

def readWhile {α : Type} (cond : B → Nat → Bool) (item : R (Option α)) : R (List α) := fun d p =>
  readWhileFuel cond item (d.length - p + 1) d p

def optItem {α : Type} (item : R α) : R (Option α) := fun d p =>
  match item d p with
  | .ok (a, p') => .ok (some a, p')
  | .error e => .error e

/-- `OrderedDict(items)`: a later item with an existing key replaces the value in place -/
def odictInsert {κ α : Type} [DecidableEq κ] (key : α → κ) (acc : List α) (x : α) : List α :=
  if acc.any (fun y => key y = key x) then acc.map (fun y => if key y = key x then x else y)
  else acc ++ [x]

def odict {κ α : Type} [DecidableEq κ] (key : α → κ) (items : List α) : List α :=
  items.foldl (odictInsert key) []

end PsdVerif.Codec
