/-
C01 — the descriptor family of `psd_tools/psd/descriptor.py` (all of it).

What is modelled, class by class (OSType → class is `descriptor.TYPES`, regenerated every run and
tied to `Tag.bytes` / `Tag.className` in Props/C01Descriptor.lean):

  long Integer · Idnt Identifier · indx Index      `read_fmt("i")` / `write_fmt("i")`
  comp LargeInteger                                 `"q"`
  bool Bool                                         `"?"` (any non-zero byte reads as True, True is written as 1)
  doub Double                                       `"d"`: an IEEE double is its 64-bit pattern, a `Nat < 2^64`
                                                    (`struct.pack('>d')` is a bijection on patterns; a NaN payload is kept
                                                    bit for bit, but Python's `==` is false on NaN: "equal structure" here is
                                                    equality of patterns, stated as such in the evidence)
  UntF UnitFloat · UnFl UnitFloats                  `"4sd"`, `"4sI%dd"`; unit = `Unit(x)`, else `Enum(x)`, else ValueError
  TEXT String                                       `read/write_unicode_string` (padding 1), Model/Unicode.lean
  enum Enumerated · Enmr EnumeratedReference · type/GlbC/Clss Class1/2/3 · prop Property · name Name · rele Offset
                                                    unicode strings and keys (`read_length_and_key`, Model/Globals.lean)
  tdta RawData · alis Alias · Pth  Path             `read_length_block` / `write_length_block` (fmt "I", padding 1); the payload
                                                    is opaque bytes (an `EngineData` object put there by
                                                    `TypeToolObjectSetting` is what it writes; C18 owns its text)
  VlLs List · obj  Reference                        count, then (OSType, value) items
  Objc Descriptor · GlbO GlobalObject · ObAr ObjectArray
                                                    `_read_body`/`_write_body`: name, classID, count, (key, OSType, value) items;
                                                    the items go through `OrderedDict(items)` (`dictOf`)
  DescriptorBlock · DescriptorBlock2                version prefix(es), body, `write_padding(written, padding)`; the reader
                                                    does not consume the padding; `in_((16,))` validator at construction

Writers follow the convention of Model/Codec.lean: `encT` is the byte string emitted (total),
`Fits` says that every `struct.pack` involved accepts its argument, `enc v = if Fits v then ok (encT v)
else error struct.error`; `encW` is the transcription of the Python method *with its `written`
accumulator* (Lemmas/Descriptor2.lean proves `encW v = (encT v, (encT v).length)`).

The reader is the cursor machine of Model/Codec.lean. `K.read` recurses through `TYPES`; the model
recursion is on a fuel argument (`decBody`), `dec` supplies `stream length + 1`, which is never exhausted
because every nesting level consumes at least four bytes (`C01Descriptor.dec_never_out_of_fuel`, Lemmas/Descriptor4.lean;
`need_le` for written values). CPython's own recursion limit is not modelled (a descriptor nested several hundred
levels deep raises `RecursionError` in Python).

Core Lean only.
-/
import PsdVerif.Model.Codec
import PsdVerif.Model.Globals
import PsdVerif.Model.Unicode

namespace PsdVerif.Descriptor
open PsdVerif PsdVerif.Codec

abbrev Key := Globals.Key
abbrev Str := Unicode.Str

/-- the three tables the code consults; parameters of the model, instantiated with the regenerated
tables in `Model/DescriptorTables.lean` -/
structure Tables where
  /-- `descriptor._TERMS` (known 4-byte terms) -/
  terms : B → Bool
  /-- value of a member of `terminology.Unit` -/
  isUnit : B → Bool
  /-- value of a member of `terminology.Enum` -/
  isEnum : B → Bool

/-! ### OSTypes -/

/-- the members of `constants.OSType`, i.e. the keys of `descriptor.TYPES` -/
inductive Tag where
  | reference | descriptor | list | double | unitFloat | unitFloats | string | enumerated | integer
  | largeInteger | boolean | globalObject | class1 | class2 | alias | rawData | objectArray | path
  | property | class3 | enumeratedReference | offset | identifier | index | name
  deriving DecidableEq, Repr

def Tag.all : List Tag :=
  [.reference, .descriptor, .list, .double, .unitFloat, .unitFloats, .string, .enumerated, .integer,
   .largeInteger, .boolean, .globalObject, .class1, .class2, .alias, .rawData, .objectArray, .path,
   .property, .class3, .enumeratedReference, .offset, .identifier, .index, .name]

/-- `OSType.<member>.value` -/
def Tag.bytes : Tag → B
  | .reference => [111, 98, 106, 32]            -- b"obj "
  | .descriptor => [79, 98, 106, 99]            -- b"Objc"
  | .list => [86, 108, 76, 115]                 -- b"VlLs"
  | .double => [100, 111, 117, 98]              -- b"doub"
  | .unitFloat => [85, 110, 116, 70]            -- b"UntF"
  | .unitFloats => [85, 110, 70, 108]           -- b"UnFl"
  | .string => [84, 69, 88, 84]                 -- b"TEXT"
  | .enumerated => [101, 110, 117, 109]         -- b"enum"
  | .integer => [108, 111, 110, 103]            -- b"long"
  | .largeInteger => [99, 111, 109, 112]        -- b"comp"
  | .boolean => [98, 111, 111, 108]             -- b"bool"
  | .globalObject => [71, 108, 98, 79]          -- b"GlbO"
  | .class1 => [116, 121, 112, 101]             -- b"type"
  | .class2 => [71, 108, 98, 67]                -- b"GlbC"
  | .alias => [97, 108, 105, 115]               -- b"alis"
  | .rawData => [116, 100, 116, 97]             -- b"tdta"
  | .objectArray => [79, 98, 65, 114]           -- b"ObAr"
  | .path => [80, 116, 104, 32]                 -- b"Pth "
  | .property => [112, 114, 111, 112]           -- b"prop"
  | .class3 => [67, 108, 115, 115]              -- b"Clss"
  | .enumeratedReference => [69, 110, 109, 114] -- b"Enmr"
  | .offset => [114, 101, 108, 101]             -- b"rele"
  | .identifier => [73, 100, 110, 116]          -- b"Idnt"
  | .index => [105, 110, 100, 120]              -- b"indx"
  | .name => [110, 97, 109, 101]                -- b"name"

/-- the class registered for the OSType (`TYPES[ostype].__name__`) -/
def Tag.className : Tag → String
  | .reference => "Reference" | .descriptor => "Descriptor" | .list => "List" | .double => "Double"
  | .unitFloat => "UnitFloat" | .unitFloats => "UnitFloats" | .string => "String" | .enumerated => "Enumerated"
  | .integer => "Integer" | .largeInteger => "LargeInteger" | .boolean => "Bool" | .globalObject => "GlobalObject"
  | .class1 => "Class1" | .class2 => "Class2" | .alias => "Alias" | .rawData => "RawData"
  | .objectArray => "ObjectArray" | .path => "Path" | .property => "Property" | .class3 => "Class3"
  | .enumeratedReference => "EnumeratedReference" | .offset => "Offset" | .identifier => "Identifier"
  | .index => "Index" | .name => "Name"

/-- `OSType(b)`: the member with that value (`none` = `ValueError`) -/
def Tag.ofBytes (b : B) : Option Tag := Tag.all.find? (fun t => t.bytes == b)

inductive IntTag where | integer | identifier | index deriving DecidableEq, Repr
inductive ClassTag where | class1 | class2 | class3 deriving DecidableEq, Repr
inductive RawTag where | rawData | alias | path deriving DecidableEq, Repr
inductive ListTag where | list | reference deriving DecidableEq, Repr
inductive DescTag where | descriptor | globalObject deriving DecidableEq, Repr

def IntTag.tag : IntTag → Tag | .integer => .integer | .identifier => .identifier | .index => .index
def ClassTag.tag : ClassTag → Tag | .class1 => .class1 | .class2 => .class2 | .class3 => .class3
def RawTag.tag : RawTag → Tag | .rawData => .rawData | .alias => .alias | .path => .path
def ListTag.tag : ListTag → Tag | .list => .list | .reference => .reference
def DescTag.tag : DescTag → Tag | .descriptor => .descriptor | .globalObject => .globalObject

/-- the `unit` attribute of `UnitFloat` / `UnitFloats`: a member of `Unit` (tried first by the reader)
or of `Enum`, identified by its value -/
structure UnitRef where
  isUnit : Bool
  code : B
  deriving DecidableEq, Repr

/-! ### values -/

/-- an instance of one of the 25 registered classes -/
inductive DVal where
  | int (t : IntTag) (v : Int)
  | large (v : Int)
  | bool (v : Bool)
  | double (bits : Nat)
  | unitFloat (unit : UnitRef) (bits : Nat)
  | unitFloats (unit : UnitRef) (values : List Nat)
  | string (s : Str)
  | enumerated (typeID enum : Key)
  | enumRef (name : Str) (classID typeID enum : Key)
  | klass (t : ClassTag) (name : Str) (classID : Key)
  | property (name : Str) (classID keyID : Key)
  | name (name : Str) (classID : Key) (value : Str)
  | offset (name : Str) (classID : Key) (value : Int)
  | raw (t : RawTag) (data : B)
  | list (t : ListTag) (items : List DVal)
  | desc (t : DescTag) (name : Str) (classID : Key) (items : List (Key × DVal))
  | objArray (count : Int) (name : Str) (classID : Key) (items : List (Key × DVal))
  deriving Repr

abbrev Items := List (Key × DVal)

/-- `type(v).ostype` -/
def DVal.tag : DVal → Tag
  | .int t _ => t.tag
  | .large _ => .largeInteger
  | .bool _ => .boolean
  | .double _ => .double
  | .unitFloat _ _ => .unitFloat
  | .unitFloats _ _ => .unitFloats
  | .string _ => .string
  | .enumerated _ _ => .enumerated
  | .enumRef _ _ _ _ => .enumeratedReference
  | .klass t _ _ => t.tag
  | .property _ _ _ => .property
  | .name _ _ _ => .name
  | .offset _ _ _ => .offset
  | .raw t _ => t.tag
  | .list t _ => t.tag
  | .desc t _ _ _ => t.tag
  | .objArray _ _ _ _ => .objectArray

/-- `DescriptorBlock` -/
structure Block where
  version : Int
  name : Str
  classID : Key
  items : Items
  deriving Repr

/-- `DescriptorBlock2` -/
structure Block2 where
  version : Int
  dataVersion : Int
  name : Str
  classID : Key
  items : Items
  deriving Repr

/-! ### scalar writers (`struct.pack`) -/

def i64ToNat (z : Int) : Nat := (z % 18446744073709551616).toNat
def natToI64 (n : Nat) : Int := if n < 9223372036854775808 then (n : Int) else (n : Int) - 18446744073709551616
def FitsI64 (z : Int) : Prop := -9223372036854775808 ≤ z ∧ z < 9223372036854775808
/-- a Python int packed with `"I"` -/
def FitsU32 (z : Int) : Prop := 0 ≤ z ∧ z < 4294967296
instance : Decidable (FitsI64 z) := by unfold FitsI64; exact inferInstance
instance : Decidable (FitsU32 z) := by unfold FitsU32; exact inferInstance

def i64T (z : Int) : B := beBytes 8 (i64ToNat z)
def u32T (z : Int) : B := beBytes 4 z.toNat
def boolT (b : Bool) : B := [if b then 1 else 0]
def f64T (bits : Nat) : B := beBytes 8 bits

/-- `write_length_and_key(fp, k)`: the length field is 0 for a known term or an `_ImplicitKey` -/
def keyLen (tb : Tables) (k : Key) : Nat := if tb.terms k.bytes || k.implicit then 0 else k.bytes.length
def keyT (tb : Tables) (k : Key) : B := Globals.u32be (keyLen tb k) ++ k.bytes
def KeyFits (tb : Tables) (k : Key) : Prop := keyLen tb k < 4294967296
instance : Decidable (KeyFits tb k) := by unfold KeyFits; exact inferInstance

/-- `write_unicode_string(fp, s)` (padding 1: no filler) -/
def strT (s : Str) : B := Unicode.be32 (Unicode.encUnits s).length ++ Unicode.bytesOfUnits (Unicode.encUnits s)
/-- `s` is a Python `str` and its UTF-16 length fits the count field -/
def StrFits (s : Str) : Prop := Unicode.PyStr s ∧ (Unicode.encUnits s).length < 4294967296
instance : Decidable (StrFits s) := by unfold StrFits; exact inferInstance

def unitT (u : UnitRef) : B := pack4s u.code

/-! ### the writer: bytes emitted -/

mutual
/-- `v.write(fp)`: the bytes emitted (the container writes the OSType before calling it) -/
def encT (tb : Tables) : DVal → B
  | .int _ v => i32T v
  | .large v => i64T v
  | .bool v => boolT v
  | .double bits => f64T bits
  | .unitFloat u bits => unitT u ++ f64T bits
  | .unitFloats u vs => unitT u ++ (beBytes 4 vs.length ++ listT f64T vs)
  | .string s => strT s
  | .enumerated ty en => keyT tb ty ++ keyT tb en
  | .enumRef nm cid ty en => strT nm ++ (keyT tb cid ++ (keyT tb ty ++ keyT tb en))
  | .klass _ nm cid => strT nm ++ keyT tb cid
  | .property nm cid kid => strT nm ++ (keyT tb cid ++ keyT tb kid)
  | .name nm cid val => strT nm ++ (keyT tb cid ++ strT val)
  | .offset nm cid val => strT nm ++ (keyT tb cid ++ u32T val)
  | .raw _ data => lenBlockT 0 4 1 data
  | .list _ items => beBytes 4 items.length ++ encListT tb items
  | .desc _ nm cid items => strT nm ++ (keyT tb cid ++ (beBytes 4 items.length ++ encItemsT tb items))
  | .objArray c nm cid items => u32T c ++ (strT nm ++ (keyT tb cid ++ (beBytes 4 items.length ++ encItemsT tb items)))
/-- `for item in self: write_bytes(fp, item.ostype.value); item.write(fp)` -/
def encListT (tb : Tables) : List DVal → B
  | [] => []
  | v :: vs => v.tag.bytes ++ (encT tb v ++ encListT tb vs)
/-- `for key in self: write_length_and_key(fp, key); write_bytes(fp, self[key].ostype.value); self[key].write(fp)` -/
def encItemsT (tb : Tables) : Items → B
  | [] => []
  | (k, v) :: r => keyT tb k ++ (v.tag.bytes ++ (encT tb v ++ encItemsT tb r))
end

/-- `_DescriptorMixin._write_body` -/
def bodyT (tb : Tables) (nm : Str) (cid : Key) (items : Items) : B :=
  strT nm ++ (keyT tb cid ++ (beBytes 4 items.length ++ encItemsT tb items))

mutual
/-- every `struct.pack` of `v.write` accepts its argument (and every string is a Python `str`) -/
def Fits (tb : Tables) : DVal → Prop
  | .int _ v => FitsI32 v
  | .large v => FitsI64 v
  | .bool _ => True
  | .double bits => bits < 18446744073709551616
  | .unitFloat _ bits => bits < 18446744073709551616
  | .unitFloats _ vs => vs.length < 4294967296 ∧ ∀ b ∈ vs, b < 18446744073709551616
  | .string s => StrFits s
  | .enumerated ty en => KeyFits tb ty ∧ KeyFits tb en
  | .enumRef nm cid ty en => StrFits nm ∧ KeyFits tb cid ∧ KeyFits tb ty ∧ KeyFits tb en
  | .klass _ nm cid => StrFits nm ∧ KeyFits tb cid
  | .property nm cid kid => StrFits nm ∧ KeyFits tb cid ∧ KeyFits tb kid
  | .name nm cid val => StrFits nm ∧ KeyFits tb cid ∧ StrFits val
  | .offset nm cid val => StrFits nm ∧ KeyFits tb cid ∧ FitsU32 val
  | .raw _ data => data.length < 4294967296
  | .list _ items => items.length < 4294967296 ∧ FitsList tb items
  | .desc _ nm cid items => StrFits nm ∧ KeyFits tb cid ∧ items.length < 4294967296 ∧ FitsItems tb items
  | .objArray c nm cid items => FitsU32 c ∧ StrFits nm ∧ KeyFits tb cid ∧ items.length < 4294967296 ∧ FitsItems tb items
def FitsList (tb : Tables) : List DVal → Prop
  | [] => True
  | v :: vs => Fits tb v ∧ FitsList tb vs
def FitsItems (tb : Tables) : Items → Prop
  | [] => True
  | (k, v) :: r => KeyFits tb k ∧ Fits tb v ∧ FitsItems tb r
end

mutual
def Fits.dec (tb : Tables) : (v : DVal) → Decidable (Fits tb v)
  | .int _ _ => by unfold Fits; exact inferInstance
  | .large _ => by unfold Fits; exact inferInstance
  | .bool _ => by unfold Fits; exact inferInstance
  | .double _ => by unfold Fits; exact inferInstance
  | .unitFloat _ _ => by unfold Fits; exact inferInstance
  | .unitFloats _ _ => by unfold Fits; exact inferInstance
  | .string _ => by unfold Fits; exact inferInstance
  | .enumerated _ _ => by unfold Fits; exact inferInstance
  | .enumRef _ _ _ _ => by unfold Fits; exact inferInstance
  | .klass _ _ _ => by unfold Fits; exact inferInstance
  | .property _ _ _ => by unfold Fits; exact inferInstance
  | .name _ _ _ => by unfold Fits; exact inferInstance
  | .offset _ _ _ => by unfold Fits; exact inferInstance
  | .raw _ _ => by unfold Fits; exact inferInstance
  | .list _ items => by
    unfold Fits; exact @instDecidableAnd _ _ inferInstance (FitsList.dec tb items)
  | .desc _ _ _ items => by
    unfold Fits
    exact @instDecidableAnd _ _ inferInstance (@instDecidableAnd _ _ inferInstance
      (@instDecidableAnd _ _ inferInstance (FitsItems.dec tb items)))
  | .objArray _ _ _ items => by
    unfold Fits
    exact @instDecidableAnd _ _ inferInstance (@instDecidableAnd _ _ inferInstance (@instDecidableAnd _ _ inferInstance
      (@instDecidableAnd _ _ inferInstance (FitsItems.dec tb items))))
def FitsList.dec (tb : Tables) : (vs : List DVal) → Decidable (FitsList tb vs)
  | [] => by unfold FitsList; exact inferInstance
  | v :: vs => by unfold FitsList; exact @instDecidableAnd _ _ (Fits.dec tb v) (FitsList.dec tb vs)
def FitsItems.dec (tb : Tables) : (r : Items) → Decidable (FitsItems tb r)
  | [] => by unfold FitsItems; exact inferInstance
  | (_, v) :: r => by
    unfold FitsItems
    exact @instDecidableAnd _ _ inferInstance (@instDecidableAnd _ _ (Fits.dec tb v) (FitsItems.dec tb r))
end

instance : Decidable (Fits tb v) := Fits.dec tb v
instance : Decidable (FitsItems tb r) := FitsItems.dec tb r

/-- `v.tobytes()`: the bytes, or `struct.error` -/
def enc (tb : Tables) (v : DVal) : Except Err B :=
  if Fits tb v then .ok (encT tb v) else .error .structError

/-! ### the writer with Python's `written` accumulator -/

def wKey (tb : Tables) (k : Key) : W :=
  wBytes (Globals.u32be (keyLen tb k)) +> wBytes k.bytes          -- write_fmt("I", …) ; write_bytes(fp, value)

def wStr (s : Str) : W :=
  let a := wBytes (Unicode.be32 (Unicode.encUnits s).length)       -- write_fmt("I", len(data) // 2)
  let b := wBytes (Unicode.bytesOfUnits (Unicode.encUnits s))      -- write_bytes(fp, data)
  let written := a.2 + b.2
  (a +> b) +> wPad written 1                                        -- write_padding(fp, written, padding)

mutual
def encW (tb : Tables) : DVal → W
  | .int _ v => wBytes (i32T v)
  | .large v => wBytes (i64T v)
  | .bool v => wBytes (boolT v)
  | .double bits => wBytes (f64T bits)
  | .unitFloat u bits => wBytes (unitT u ++ f64T bits)                              -- one write_fmt("4sd")
  | .unitFloats u vs => wBytes (unitT u ++ (beBytes 4 vs.length ++ listT f64T vs))  -- one write_fmt("4sI%dd")
  | .string s => wStr s
  | .enumerated ty en => wKey tb ty +> wKey tb en
  | .enumRef nm cid ty en => wStr nm +> wKey tb cid +> wKey tb ty +> wKey tb en
  | .klass _ nm cid => wStr nm +> wKey tb cid
  | .property nm cid kid => wStr nm +> wKey tb cid +> wKey tb kid
  | .name nm cid val => wStr nm +> wKey tb cid +> wStr val
  | .offset nm cid val => wStr nm +> wKey tb cid +> wBytes (u32T val)
  | .raw _ data => wLenBlock 0 4 1 (wBytes data)
  | .list _ items => wBytes (beBytes 4 items.length) +> encListW tb items
  | .desc _ nm cid items => wStr nm +> wKey tb cid +> wBytes (beBytes 4 items.length) +> encItemsW tb items
  | .objArray c nm cid items =>
    wBytes (u32T c) +> (wStr nm +> wKey tb cid +> wBytes (beBytes 4 items.length) +> encItemsW tb items)
def encListW (tb : Tables) : List DVal → W
  | [] => wNil
  | v :: vs => wBytes v.tag.bytes +> encW tb v +> encListW tb vs
def encItemsW (tb : Tables) : Items → W
  | [] => wNil
  | (k, v) :: r => wKey tb k +> wBytes v.tag.bytes +> encW tb v +> encItemsW tb r
end

def bodyW (tb : Tables) (nm : Str) (cid : Key) (items : Items) : W :=
  wStr nm +> wKey tb cid +> wBytes (beBytes 4 items.length) +> encItemsW tb items

/-! ### the reader -/

def rbind {α β : Type} (r : R α) (f : α → R β) : R β := fun d p =>
  match r d p with
  | .error e => .error e
  | .ok (a, p1) => f a d p1

infixl:55 " >>- " => rbind

def rpure {α : Type} (a : α) : R α := fun _ p => .ok (a, p)

def rfail {α : Type} (e : Err) : R α := fun _ _ => .error e

/-- `OSType(fp.read(4))` -/
def readTag : R Tag :=
  (readUpTo 4) >>- fun b =>
    match Tag.ofBytes b with
    | some t => rpure t
    | none => rfail .valueError

def readI64 : R Int := (readU 8) >>- fun n => rpure (natToI64 n)
def readBool : R Bool := (readU 1) >>- fun n => rpure (n != 0)
def readKeyR (tb : Tables) : R Key := Globals.readKey tb.terms
def readStr : R Str := fun d p => Unicode.readUnicodeString d p 1

/-- `try: Unit(x) except ValueError: Enum(x)` -/
def unitOf (tb : Tables) (b : B) : R UnitRef :=
  if tb.isUnit b then rpure ⟨true, b⟩
  else if tb.isEnum b then rpure ⟨false, b⟩
  else rfail .valueError

/-- `read_fmt("%dd" % count, fp)`: all the bytes or `IOError` -/
def readF64s (n : Nat) : R (List Nat) := fun d p =>
  if p + 8 * n ≤ d.length then readCount (readU 8) n d p else .error .ioError

/-- `OrderedDict(items)`: a later item with an equal key (keys compare as `bytes`) replaces the value and
keeps the first key object and its place -/
def dictInsert (acc : Items) (x : Key × DVal) : Items :=
  if acc.any (fun y => y.1.bytes == x.1.bytes) then
    acc.map (fun y => if y.1.bytes == x.1.bytes then (y.1, x.2) else y)
  else acc ++ [x]

def dictOf (items : Items) : Items := items.foldl dictInsert []

/-- `key = OSType(fp.read(4)); TYPES.get(key).read(fp)` -/
def tagged (rec : Tag → R DVal) : R DVal := readTag >>- rec

/-- `key = read_length_and_key(fp); ostype = …; value = kls.read(fp); items.append((key, value))` -/
def keyed (tb : Tables) (rec : Tag → R DVal) : R (Key × DVal) :=
  (readKeyR tb) >>- fun k => (tagged rec) >>- fun v => rpure (k, v)

/-- `_DescriptorMixin._read_body` followed by the `OrderedDict` converter of the class constructor -/
def readBody (tb : Tables) (rec : Tag → R DVal) : R (Str × Key × Items) :=
  readStr >>- fun nm => (readKeyR tb) >>- fun cid => (readU 4) >>- fun n =>
    (readCount (keyed tb rec) n) >>- fun items => rpure (nm, cid, dictOf items)

def decInt (t : IntTag) : R DVal := readI32 >>- fun z => rpure (.int t z)
def decClass (tb : Tables) (t : ClassTag) : R DVal :=
  readStr >>- fun nm => (readKeyR tb) >>- fun cid => rpure (.klass t nm cid)
def decRaw (t : RawTag) : R DVal := (readLenBlock 0 4 1) >>- fun data => rpure (.raw t data)
def decList (rec : Tag → R DVal) (t : ListTag) : R DVal :=
  (readU 4) >>- fun n => (readCount (tagged rec) n) >>- fun items => rpure (.list t items)
def decDesc (tb : Tables) (rec : Tag → R DVal) (t : DescTag) : R DVal :=
  (readBody tb rec) >>- fun x => rpure (.desc t x.1 x.2.1 x.2.2)

/-- `TYPES[ostype].read(fp)`, with `rec` for the values inside containers -/
def decWith (tb : Tables) (rec : Tag → R DVal) : Tag → R DVal
  | .integer => decInt .integer
  | .identifier => decInt .identifier
  | .index => decInt .index
  | .largeInteger => readI64 >>- fun z => rpure (.large z)
  | .boolean => readBool >>- fun b => rpure (.bool b)
  | .double => (readU 8) >>- fun bits => rpure (.double bits)
  | .unitFloat =>                                   -- read_fmt("4sd"), then the unit conversion
    (readN 4) >>- fun u4 => (readU 8) >>- fun bits => (unitOf tb u4) >>- fun u => rpure (.unitFloat u bits)
  | .unitFloats =>                                  -- read_fmt("4sI"), the unit conversion, read_fmt("%dd")
    (readN 4) >>- fun u4 => (readU 4) >>- fun n => (unitOf tb u4) >>- fun u =>
      (readF64s n) >>- fun vs => rpure (.unitFloats u vs)
  | .string => readStr >>- fun s => rpure (.string s)
  | .enumerated => (readKeyR tb) >>- fun ty => (readKeyR tb) >>- fun en => rpure (.enumerated ty en)
  | .enumeratedReference =>
    readStr >>- fun nm => (readKeyR tb) >>- fun cid => (readKeyR tb) >>- fun ty => (readKeyR tb) >>- fun en =>
      rpure (.enumRef nm cid ty en)
  | .class1 => decClass tb .class1
  | .class2 => decClass tb .class2
  | .class3 => decClass tb .class3
  | .property =>
    readStr >>- fun nm => (readKeyR tb) >>- fun cid => (readKeyR tb) >>- fun kid => rpure (.property nm cid kid)
  | .name => readStr >>- fun nm => (readKeyR tb) >>- fun cid => readStr >>- fun val => rpure (.name nm cid val)
  | .offset =>
    readStr >>- fun nm => (readKeyR tb) >>- fun cid => (readU 4) >>- fun n => rpure (.offset nm cid (n : Int))
  | .rawData => decRaw .rawData
  | .alias => decRaw .alias
  | .path => decRaw .path
  | .list => decList rec .list
  | .reference => decList rec .reference
  | .descriptor => decDesc tb rec .descriptor
  | .globalObject => decDesc tb rec .globalObject
  | .objectArray =>
    (readU 4) >>- fun c => (readBody tb rec) >>- fun x => rpure (.objArray (c : Int) x.1 x.2.1 x.2.2)

/-- the recursion of `K.read` through `TYPES`, on fuel -/
def decBody (tb : Tables) : Nat → Tag → R DVal
  | 0 => fun _ => rfail .recursionError
  | fuel + 1 => decWith tb (decBody tb fuel)

/-- `TYPES[t].frombytes` / `TYPES[t].read(fp)` at the cursor -/
def dec (tb : Tables) (t : Tag) : R DVal := fun d p => decBody tb (d.length + 1) t d p

/-- an item as a container reads it: OSType, then the value -/
def decTagged (tb : Tables) : R DVal := fun d p => tagged (decBody tb (d.length + 1)) d p

/-! ### `DescriptorBlock`, `DescriptorBlock2` -/

def Block.bodyLen (tb : Tables) (b : Block) : Nat := 4 + (bodyT tb b.name b.classID b.items).length
def Block.encT (tb : Tables) (padding : Nat) (b : Block) : B :=
  u32T b.version ++ (bodyT tb b.name b.classID b.items ++ zeros (padAmount (b.bodyLen tb) padding))
def Block.Fits (tb : Tables) (b : Block) : Prop :=
  FitsU32 b.version ∧ StrFits b.name ∧ KeyFits tb b.classID ∧ b.items.length < 4294967296 ∧ FitsItems tb b.items
instance : Decidable (Block.Fits tb b) := by unfold Block.Fits; exact inferInstance
/-- `DescriptorBlock.write(fp, padding)` -/
def Block.enc (tb : Tables) (padding : Nat) (b : Block) : Except Err B :=
  if b.Fits tb then .ok (b.encT tb padding) else .error .structError
def Block.encW (tb : Tables) (padding : Nat) (b : Block) : W :=
  let w := wBytes (u32T b.version) +> bodyW tb b.name b.classID b.items
  w +> wPad w.2 padding

/-- `DescriptorBlock.read(fp)`: the arguments of `cls(version=…, **cls._read_body(fp))` are evaluated first,
then the `in_((16,))` validator runs in `__init__` -/
def Block.dec (tb : Tables) : R Block := fun d p =>
  ((readU 4) >>- fun ver => (readBody tb (decBody tb (d.length + 1))) >>- fun x =>
    if ver = 16 then rpure ⟨(ver : Int), x.1, x.2.1, x.2.2⟩ else rfail .valueError) d p

def Block2.bodyLen (tb : Tables) (b : Block2) : Nat := 8 + (bodyT tb b.name b.classID b.items).length
def Block2.encT (tb : Tables) (padding : Nat) (b : Block2) : B :=
  u32T b.version ++ (u32T b.dataVersion ++ (bodyT tb b.name b.classID b.items ++ zeros (padAmount (b.bodyLen tb) padding)))
def Block2.Fits (tb : Tables) (b : Block2) : Prop :=
  FitsU32 b.version ∧ FitsU32 b.dataVersion ∧ StrFits b.name ∧ KeyFits tb b.classID ∧ b.items.length < 4294967296 ∧
    FitsItems tb b.items
instance : Decidable (Block2.Fits tb b) := by unfold Block2.Fits; exact inferInstance
def Block2.enc (tb : Tables) (padding : Nat) (b : Block2) : Except Err B :=
  if b.Fits tb then .ok (b.encT tb padding) else .error .structError
def Block2.encW (tb : Tables) (padding : Nat) (b : Block2) : W :=
  let w := wBytes (u32T b.version ++ u32T b.dataVersion) +> bodyW tb b.name b.classID b.items   -- write_fmt("2I")
  w +> wPad w.2 padding

def Block2.dec (tb : Tables) : R Block2 := fun d p =>
  ((readU 4) >>- fun ver => (readU 4) >>- fun dv => (readBody tb (decBody tb (d.length + 1))) >>- fun x =>
    if dv = 16 then rpure ⟨(ver : Int), (dv : Int), x.1, x.2.1, x.2.2⟩ else rfail .valueError) d p

/-! ### well-formedness

Clause sources: (i) validator / constructor of the class, (ii) on-disk width — those are in `Fits`, i.e. in the
hypothesis `enc v = ok bs` —, (iii) prescribed by the format or by the Python representation, (F) forced by the proof. -/

/-- `Globals.Key.WF` (Lemmas/Globals.lean; `Lemmas/Descriptor1.keyWF_iff` shows they are the same predicate):
(iii) an `_ImplicitKey` is a 4-byte non-term (only the reader makes them); every known term has 4 bytes;
(F, examined in C20/C01: write succeeds, read differs) a key that is neither has at least one byte. -/
def KeyWF (tb : Tables) (k : Key) : Prop :=
  (k.implicit = true → k.bytes.length = 4 ∧ tb.terms k.bytes = false) ∧
  (tb.terms k.bytes = true → k.bytes.length = 4) ∧
  (k.implicit = false → tb.terms k.bytes = false → k.bytes.length ≠ 0)
instance : Decidable (KeyWF tb k) := by unfold KeyWF; exact inferInstance

/-- (iii) the unicode law of C19: no high surrogate directly followed by a low one (such a `str` is not the
decoding of any UTF-16 text) -/
def StrWF (s : Str) : Prop := Unicode.NoPair s
instance : Decidable (StrWF s) := by unfold StrWF; exact inferInstance

/-- (ii) `"4s"` stores exactly four bytes; (i) the unit is a member of the enum class it claims;
(F) an `Enum` member whose value is also a `Unit` value would be re-read as the `Unit` member —
vacuous for the regenerated tables (`C01Descriptor.enum_unit_disjoint`) -/
def UnitWF (tb : Tables) (u : UnitRef) : Prop :=
  u.code.length = 4 ∧
  (if u.isUnit then tb.isUnit u.code = true else tb.isEnum u.code = true ∧ tb.isUnit u.code = false)
instance : Decidable (UnitWF tb u) := by unfold UnitWF; exact inferInstance

/-- (iii) a Python `dict` holds each key once (keys compare as `bytes`) -/
def KeysNodup (items : Items) : Prop := (items.map (fun kv => kv.1.bytes)).Nodup
instance : Decidable (KeysNodup items) := by unfold KeysNodup; exact inferInstance

mutual
def WF (tb : Tables) : DVal → Prop
  | .int _ _ => True
  | .large _ => True
  | .bool _ => True
  | .double _ => True
  | .unitFloat u _ => UnitWF tb u
  | .unitFloats u _ => UnitWF tb u
  | .string s => StrWF s
  | .enumerated ty en => KeyWF tb ty ∧ KeyWF tb en
  | .enumRef nm cid ty en => StrWF nm ∧ KeyWF tb cid ∧ KeyWF tb ty ∧ KeyWF tb en
  | .klass _ nm cid => StrWF nm ∧ KeyWF tb cid
  | .property nm cid kid => StrWF nm ∧ KeyWF tb cid ∧ KeyWF tb kid
  | .name nm cid val => StrWF nm ∧ KeyWF tb cid ∧ StrWF val
  | .offset nm cid _ => StrWF nm ∧ KeyWF tb cid
  | .raw _ _ => True
  | .list _ items => WFList tb items
  | .desc _ nm cid items => StrWF nm ∧ KeyWF tb cid ∧ KeysNodup items ∧ WFItems tb items
  | .objArray _ nm cid items => StrWF nm ∧ KeyWF tb cid ∧ KeysNodup items ∧ WFItems tb items
def WFList (tb : Tables) : List DVal → Prop
  | [] => True
  | v :: vs => WF tb v ∧ WFList tb vs
def WFItems (tb : Tables) : Items → Prop
  | [] => True
  | (k, v) :: r => KeyWF tb k ∧ WF tb v ∧ WFItems tb r
end

mutual
def WF.dec (tb : Tables) : (v : DVal) → Decidable (WF tb v)
  | .int _ _ => by unfold WF; exact inferInstance
  | .large _ => by unfold WF; exact inferInstance
  | .bool _ => by unfold WF; exact inferInstance
  | .double _ => by unfold WF; exact inferInstance
  | .unitFloat _ _ => by unfold WF; exact inferInstance
  | .unitFloats _ _ => by unfold WF; exact inferInstance
  | .string _ => by unfold WF; exact inferInstance
  | .enumerated _ _ => by unfold WF; exact inferInstance
  | .enumRef _ _ _ _ => by unfold WF; exact inferInstance
  | .klass _ _ _ => by unfold WF; exact inferInstance
  | .property _ _ _ => by unfold WF; exact inferInstance
  | .name _ _ _ => by unfold WF; exact inferInstance
  | .offset _ _ _ => by unfold WF; exact inferInstance
  | .raw _ _ => by unfold WF; exact inferInstance
  | .list _ items => by unfold WF; exact WFList.dec tb items
  | .desc _ _ _ items => by
    unfold WF
    exact @instDecidableAnd _ _ inferInstance (@instDecidableAnd _ _ inferInstance
      (@instDecidableAnd _ _ inferInstance (WFItems.dec tb items)))
  | .objArray _ _ _ items => by
    unfold WF
    exact @instDecidableAnd _ _ inferInstance (@instDecidableAnd _ _ inferInstance
      (@instDecidableAnd _ _ inferInstance (WFItems.dec tb items)))
def WFList.dec (tb : Tables) : (vs : List DVal) → Decidable (WFList tb vs)
  | [] => by unfold WFList; exact inferInstance
  | v :: vs => by unfold WFList; exact @instDecidableAnd _ _ (WF.dec tb v) (WFList.dec tb vs)
def WFItems.dec (tb : Tables) : (r : Items) → Decidable (WFItems tb r)
  | [] => by unfold WFItems; exact inferInstance
  | (_, v) :: r => by
    unfold WFItems
    exact @instDecidableAnd _ _ inferInstance (@instDecidableAnd _ _ (WF.dec tb v) (WFItems.dec tb r))
end

instance : Decidable (WF tb v) := WF.dec tb v
instance : Decidable (WFItems tb r) := WFItems.dec tb r

/-- (i) the `in_((16,))` validator of `version` -/
def Block.WF (tb : Tables) (b : Block) : Prop :=
  b.version = 16 ∧ StrWF b.name ∧ KeyWF tb b.classID ∧ KeysNodup b.items ∧ WFItems tb b.items
instance : Decidable (Block.WF tb b) := by unfold Block.WF; exact inferInstance

/-- (i) the `in_((16,))` validator of `data_version` -/
def Block2.WF (tb : Tables) (b : Block2) : Prop :=
  b.dataVersion = 16 ∧ StrWF b.name ∧ KeyWF tb b.classID ∧ KeysNodup b.items ∧ WFItems tb b.items
instance : Decidable (Block2.WF tb b) := by unfold Block2.WF; exact inferInstance

/-! ### nesting depth (fuel the reader needs) -/

mutual
def need : DVal → Nat
  | .list _ items => 1 + needList items
  | .desc _ _ _ items => 1 + needItems items
  | .objArray _ _ _ items => 1 + needItems items
  | _ => 1
def needList : List DVal → Nat
  | [] => 0
  | v :: vs => max (need v) (needList vs)
def needItems : Items → Nat
  | [] => 0
  | (_, v) :: r => max (need v) (needItems r)
end

end PsdVerif.Descriptor
