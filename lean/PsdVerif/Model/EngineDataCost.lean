/-
C06 — the engine-data parser of `Model/EngineData.lean` once more, as a COUNTING interpreter (`CE` of
`Model/PsdCost.lean`: a result paired with ticks and bytes allocated).

The code modelled is `psd_tools/psd/engine_data.py` AFTER the tokenizer fix (`rest = memoryview(self.data)[index:]`: the
searches run on a VIEW of the remaining data; before, `self.data[index:]` copied the remaining data once per token and
the parse was quadratic). What one `next(tokenizer)` costs, as an explicit function of what it consumed
(`d` = the data from `self.index` on, `rest` = what is left afterwards, `tok` = the token):

  ticks  `callTicks d`: 2 per `__next__` call (the call, the `memoryview`); there are two calls exactly when `d` starts
         with a divider (the first one skips the whole divider run, finds the empty token and calls itself);
       + the bytes SCANNED by `UTF16_END.search(rest)` / `DIVIDER.search(rest)`, which are the bytes CONSUMED
         (`d.length - rest.length`: the string up to its closing parenthesis, or the token and the divider run behind
         it); when nothing is produced (`StopIteration`, or `ValueError("Invalid token")`: no closing parenthesis) the
         whole of `d` was scanned;
       + `12 · (tok.length + 1)`: `for token_type in EngineToken: token_type.value.search(token)`, at most twelve
         anchored searches, EACH AT MOST LINEAR IN THE TOKEN. This linearity is the TRUSTED assumption about CPython's
         `re`; what supports it is `EngineRegex.safe` (Model/EngineRegex.lean, checked for all twelve patterns and for
         `DIVIDER`, `UTF16_END` in Lemmas/EngineRegexTied.lean), a sufficient condition for O(1) steps per byte.
  alloc  `tok.length`: the one copy `self.data[index : …]`; nothing when there is no token. On the two `ValueError`s the
         message is formatted with `%r`: the slice `self.data[index:]` (`d.length`) and its `repr` (at most four
         characters per byte and `b''`), resp. the `repr` of the token.

`valueC`: `kls.frombytes(token)` of the value classes (`String`: a slice, three `replace`, `decode`; `Integer`: `int`;
`Float`: `float`; `Property`: `replace`, `decode`; `Tag`: through `io.BytesIO`) is charged uniformly one tick, one tick
per byte of the token, and `6 · tok.length + 24` bytes. TRUSTED: these conversions are linear in the token (`int(bytes)`
is quadratic in CPython, but refuses more than 4300 digits since 3.11: a constant).
One `tick` per iteration of the two `for … in tokenizer` loops. `self[key] = value` / `self.append(value)`: part of
the iteration tick (hash table / amortised append; the model's `insertKey` list is the abstract value, not the cost).

`parseDictC` / `parseListC` / `parseC` have LITERALLY the structure of `parseDict` / `parseList` / `parse`;
Lemmas/EngineDataCost.lean proves `(parseC d).1 = parse d` and the linear bound.

Core Lean only.
-/
import PsdVerif.Model.EngineData
import PsdVerif.Model.PsdCost

namespace PsdVerif.EngineDataCost
open PsdVerif PsdVerif.Codec PsdVerif.PsdCost PsdVerif.EngineData

/-- 2 ticks per `Tokenizer.__next__` call; a leading divider run costs a second call -/
def callTicks : BL → Nat
  | [] => 2
  | b :: _ => if isDiv b then 4 else 2

/-- `next(tokenizer)`: the result of `nextTok`, and its cost as a function of what was consumed -/
def nextTokC (d : BL) : CE (Option (BL × Tok × BL)) :=
  match next d with
  | .error e => (.error e, ⟨callTicks d + d.length, 5 * d.length + 3⟩)
  | .ok none => (.ok none, ⟨callTicks d + d.length, 0⟩)
  | .ok (some (tok, rest)) =>
    match classify tok with
    | none =>
      (.error .valueError,
        ⟨callTicks d + (d.length - rest.length) + 12 * (tok.length + 1), tok.length + (4 * tok.length + 3)⟩)
    | some ty =>
      (.ok (some (tok, ty, rest)),
        ⟨callTicks d + (d.length - rest.length) + 12 * (tok.length + 1), tok.length⟩)

/-- `kls = TOKEN_CLASSES.get(token_type)` … `kls.frombytes(token)` -/
def valueC (ty : Tok) (tok : BL) : CE (Option (Except Err Scalar)) :=
  (.ok (valueOfToken ty tok), ⟨1 + tok.length, 6 * tok.length + 24⟩)

mutual
/-- `Dict.frombytes(tokenizer)` -/
def parseDictC : Nat → BL → List (BL × Val) → CE (List (BL × Val) × BL)
  | 0, _, _ => CE.error .recursionError
  | f + 1, d, acc => do
    tick
    let o ← nextTokC d
    match o with
    | none => CE.ok (acc, [])
    | some (tok, ty, rest) =>
      match ty with
      | .property => do
        let o2 ← nextTokC rest
        match o2 with
        | none => CE.error .other
        | some (vtok, vty, rest2) =>
          match vty with
          | .arrayStart => do
            let (xs, r) ← parseListC f rest2 []
            parseDictC f r (insertKey acc (tok.filter (· != 0x2F)) (.list xs))
          | .dictStart => do
            let (xs, r) ← parseDictC f rest2 []
            parseDictC f r (insertKey acc (tok.filter (· != 0x2F)) (.dict xs))
          | _ => do
            let v ← valueC vty vtok
            match v with
            | none => CE.error .valueError
            | some (.error e) => CE.error e
            | some (.ok v) => parseDictC f rest2 (insertKey acc (tok.filter (· != 0x2F)) (.sc v))
      | .dictEnd => CE.ok (acc, rest)
      | _ => parseDictC f rest acc
/-- `List.frombytes(tokenizer)` -/
def parseListC : Nat → BL → List Val → CE (List Val × BL)
  | 0, _, _ => CE.error .recursionError
  | f + 1, d, acc => do
    tick
    let o ← nextTokC d
    match o with
    | none => CE.ok (acc, [])
    | some (tok, ty, rest) =>
      match ty with
      | .arrayEnd => CE.ok (acc, rest)
      | .arrayStart => do
        let (xs, r) ← parseListC f rest []
        parseListC f r (acc ++ [.list xs])
      | .dictStart => do
        let (xs, r) ← parseDictC f rest []
        parseListC f r (acc ++ [.dict xs])
      | _ => do
        let v ← valueC ty tok
        match v with
        | none => CE.error .other
        | some (.error e) => CE.error e
        | some (.ok v) => parseListC f rest (acc ++ [.sc v])
end

/-- `EngineData.frombytes(data)` / `EngineData2.frombytes(data)` -/
def parseC (d : BL) : CE Tree := do
  let (t, _) ← parseDictC (d.length + 1) d []
  CE.ok t

/-- The error names of the cost judgement: there `Err.other` is RESERVED for "a loop ran out of fuel" (the thing to be
excluded). The C18 model uses `Err.other` for two REAL exceptions (`StopIteration` out of `next(tokenizer)` in
`Dict.frombytes`, `AttributeError` of `None.frombytes` in `List.frombytes`) and `Err.recursionError` for ITS fuel, so on
the way out the former is reported as `Err.attributeError` and the latter as `Err.other`. -/
def reErr {α : Type} (x : CE α) : CE α :=
  match x.1 with
  | .error .other => (.error .attributeError, x.2)
  | .error .recursionError => (.error .other, x.2)
  | _ => x

/-- What the engine data of a `Txt2` block (`EngineData2`) / of a type-tool descriptor (`EngineData`) costs at open:
`frombytes(data)` = `with io.BytesIO(data) as f: cls.read(f)` (`enterBlock`), `cls.frombytes(fp.read())` (a read-all of
the block: one tick, `len(data)` bytes), the parse; the tree is what `open` keeps, its size is bounded by the
allocations counted. -/
def runEngineData (data : B) : CE Unit := do
  enterBlock data
  let (x, _) ← readAllC data 0
  let _ ← reErr (parseC x)
  CE.ok ()

end PsdVerif.EngineDataCost
