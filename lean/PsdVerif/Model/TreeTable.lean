/-
C09 / C10 — the public structural mutators AS THE SOURCE WRITES THEM.

`Generated/TreeTable.lean` (harness/extract_c10.py, regenerated on every run) lists, for every public
method of the API classes that makes a raw mutation of a children list, its steps in source order:
tests of the enclosing `if`s (evaluated once, where the `if` stands), aliases, materialisations,
allocations, assertions, `_check_valid_layers` calls, raw list operations with the container they
act on, `_update_layer_metadata` / `_update_psd_record` calls with the container they are called on —
and what these three helpers do, read from their own bodies.

This file is the machine that RUNS such a table over the id store of `Model/TreeState.lean`
(`runRow`, `tableStep`), and the decidable structural condition `tableOk`. Core Lean only.
-/
import PsdVerif.Model.TreeState

namespace PsdVerif.TreeTable
open PsdVerif PsdVerif.TreeSt

/-! ### The table -/

/-- an expression naming an object -/
inductive Obj where
  | var (n : String)
  /-- `o._parent` (`o.parent`) -/
  | parent (o : Obj)
  /-- `l[0]` -/
  | first (l : String)
  | nil
  | other (src : String)
  deriving DecidableEq, Repr, Inhabited

/-- an expression naming the layers an operation is given -/
inductive Arg where
  /-- a variable holding a list or another iterable -/
  | list (n : String)
  /-- `[o]` -/
  | single (o : Obj)
  /-- `v if isinstance(key, slice) else [v]` -/
  | sliceOr (key v : String)
  | other (src : String)
  deriving DecidableEq, Repr, Inhabited

inductive Test where
  /-- `isinstance(o, GroupMixin)` -/
  | isGroup (o : Obj)
  /-- `isinstance(o, Layer)` -/
  | isLayer (o : Obj)
  | isDoc (o : Obj)
  | notNone (o : Obj)
  /-- `x in c` -/
  | listedIn (x c : Obj)
  /-- `x in a.descendants()` -/
  | under (x a : Obj)
  /-- `a is not b` -/
  | ne (a b : Obj)
  /-- `len(l) > 0` -/
  | nonEmpty (l : String)
  /-- `isinstance(k, slice)` -/
  | isSlice (k : String)
  | and (a b : Test)
  | not (a : Test)
  | const (b : Bool)
  | unknown (src : String)
  deriving DecidableEq, Repr, Inhabited

/-- a raw operation on a `_layers` list, with the names of its arguments -/
inductive LOp where
  | extend (a : Arg)
  | insert (i : String) (x : Obj)
  | setitem (k v : String)
  | delitem (k : String)
  | remove (x : Obj)
  | pop (i : String)
  | clear
  | other (src : String)
  deriving DecidableEq, Repr, Inhabited

/-- the tests a statement sits under: (number of the `if`, branch) -/
abbrev Guards := List (Nat × Bool)

inductive Step where
  | test (id : Nat) (t : Test) (gs : Guards)
  /-- `dst = src` under the guards, else `dst` keeps the value of `fb` -/
  | bind (dst : String) (src : Obj) (fb : String) (gs : Guards)
  /-- `dst = list(src)` under the guards, else `dst` keeps the value of `fb` -/
  | mat (dst : String) (src : Arg) (fb : String) (gs : Guards)
  /-- `dst = cls(…)`: a new group, detached, without a document -/
  | alloc (dst : String) (gs : Guards)
  /-- `assert t, "…".format(reprs)` -/
  | assert (t : Test) (reprs : List Obj) (gs : Guards)
  /-- `logger.warning("…".format(os))` -/
  | repr (os : List Obj) (gs : Guards)
  /-- `c.index(x)` -/
  | index (c x : Obj) (gs : Guards)
  /-- `c._check_valid_layers(a)` -/
  | validate (c : Obj) (a : Arg) (gs : Guards)
  /-- `c._layers.<op>` -/
  | mutate (c : Obj) (op : LOp) (gs : Guards)
  /-- `c._update_layer_metadata()` -/
  | refresh (c : Obj) (gs : Guards)
  /-- `c._update_psd_record()` -/
  | dirty (c : Obj) (gs : Guards)
  | other (src : String)
  deriving DecidableEq, Repr, Inhabited

inductive Seg where
  | line (steps : List Step)
  /-- `for v in over:` -/
  | loop (v over : String) (steps : List Step)
  deriving DecidableEq, Repr, Inhabited

structure Row where
  name : String
  segs : List Seg
  /-- the variable returned (`""`: None) -/
  ret : String
  deriving DecidableEq, Repr, Inhabited

inductive Over where
  | descendants | children | other
  deriving DecidableEq, Repr, Inhabited

inductive PsdCond where
  /-- `if layer._psd != _psd and _psd is not None` -/
  | differs
  | always
  | other
  deriving DecidableEq, Repr, Inhabited

/-- the per-item assertions of `_check_valid_layers` -/
structure Check where
  isLayer : Bool
  notSelf : Bool
  noLoop : Bool
  /-- exactly these three, in this order, and nothing that could skip one -/
  exact : Bool
  deriving DecidableEq, Repr, Inhabited

/-- `_update_layer_metadata` -/
structure Refresh where
  psdOver : Over
  psdCond : PsdCond
  parentOver : Over
  clearsBoxes : Bool
  deriving DecidableEq, Repr, Inhabited

/-- `_update_psd_record` -/
structure Dirty where
  /-- sets `_updated_layers` on the document of the container it is called on -/
  marks : Bool
  deriving DecidableEq, Repr, Inhabited

structure Table where
  rows : List Row
  check : Check
  refresh : Refresh
  dirty : Dirty
  deriving DecidableEq, Repr, Inhabited

def Check.std : Check := ⟨true, true, true, true⟩
def Refresh.std : Refresh := ⟨.descendants, .differs, .children, true⟩
def Dirty.std : Dirty := ⟨true⟩

/-! ### Values and the environment of one call -/

inductive Key where
  | idx (i : Int)
  | slice (a b : Option Int)
  deriving DecidableEq, Repr, Inhabited

inductive Val where
  /-- an object, or None -/
  | obj (i : Option Id)
  /-- a list (`oneShot = false`) or an iterator that can be consumed once -/
  | list (xs : List Id) (oneShot : Bool)
  | key (k : Key)
  deriving DecidableEq, Repr, Inhabited

structure Env where
  vals : List (String × Val)
  conds : List (Nat × Bool)
  /-- outcomes of the tests the table does not interpret -/
  opq : List (String × Bool)
  deriving Repr, Inhabited

def Env.get (e : Env) (n : String) : Option Val := e.vals.lookup n
def Env.set (e : Env) (n : String) (v : Val) : Env := { e with vals := (n, v) :: e.vals }
def Env.holds (e : Env) (gs : Guards) : Bool := gs.all fun g => e.conds.lookup g.1 == some g.2

def evalObj (s : State) (e : Env) : Obj → Option Id
  | .var n => match e.get n with | some (.obj i) => i | _ => none
  | .parent o => (evalObj s e o).bind s.parent
  | .first l => match e.get l with | some (.list (x :: _) _) => some x | _ => none
  | .nil => none
  | .other _ => none

/-- reading an iterable: a one-shot iterator is empty afterwards -/
def readList (e : Env) (n : String) : Option (List Id × Env) :=
  match e.get n with
  | some (.list xs one) => some (xs, if one then e.set n (.list [] true) else e)
  | _ => none

def evalArg (s : State) (e : Env) : Arg → Option (List Id × Env)
  | .list n => readList e n
  | .single o => (evalObj s e o).map fun x => ([x], e)
  | .sliceOr k v =>
    match e.get k with
    | some (.key (.slice _ _)) => readList e v
    | _ => (evalObj s e (.var v)).map fun x => ([x], e)
  | .other _ => none

def evalTest (s : State) (e : Env) : Test → Except Err Bool
  | .isGroup o => .ok (match evalObj s e o with | some i => s.cont i | none => false)
  | .isLayer o => .ok (match evalObj s e o with | some i => s.isLayer i | none => false)
  | .isDoc o => .ok (match evalObj s e o with | some i => s.kind i == .doc | none => false)
  | .notNone o => .ok (evalObj s e o).isSome
  | .listedIn x c =>
    match evalObj s e x, evalObj s e c with
    | some x, some c => .ok (decide (x ∈ s.children c))
    | _, _ => .ok false
  | .under x a =>
    match evalObj s e x, evalObj s e a with
    | some x, some a =>
      match desc s a with
      | .error err => .error err
      | .ok ds => .ok (decide (x ∈ ds))
    | _, _ => .ok false
  | .ne a b => .ok (evalObj s e a != evalObj s e b)
  | .nonEmpty l =>
    match e.get l with
    | some (.list xs false) => .ok (!xs.isEmpty)
    | _ => .error .typeError                 -- `len()` of an iterator
  | .isSlice k => .ok (match e.get k with | some (.key (.slice _ _)) => true | _ => false)
  | .and a b =>
    match evalTest s e a with
    | .error err => .error err
    | .ok false => .ok false
    | .ok true => evalTest s e b
  | .not a =>
    match evalTest s e a with
    | .error err => .error err
    | .ok v => .ok (!v)
  | .const b => .ok b
  | .unknown src => .ok ((e.opq.lookup src).getD false)

/-! ### The three helpers, as the table describes them -/

/-- `_check_valid_layers` with the assertions the table lists (`Check.std`: `checkValid Cfg.current`) -/
def checkValidG (c : Check) (s : State) (g : Id) : List Id → Option (Err × List Id)
  | [] => none
  | x :: xs =>
    if c.isLayer && !s.isLayer x then some (.assertionError, [])
    else if c.notSelf && x == g then some (.assertionError, [g])
    else if c.noLoop && s.cont x then
      match desc s x with
      | .error e => some (e, [])
      | .ok ds => if g ∈ ds then some (.assertionError, [g, x]) else checkValidG c s g xs
    else checkValidG c s g xs

/-- `_update_layer_metadata` with the iterations the table lists (`Refresh.std`: `metadata Cfg.current`) -/
def refreshG (r : Refresh) (s : State) (g : Id) : State × Bool :=
  match desc s g with
  | .error _ => (s, false)
  | .ok ds =>
    let over : Over → List Id := fun o => match o with
      | .descendants => ds | .children => s.children g | .other => []
    let s1 := match s.docOf g with
      | some d => if r.psdCond == .other then s else setPsdAll s (over r.psdOver) d
      | none => s
    let s2 := if r.clearsBoxes then clearConts s1 ds else s1
    (setParentAll s2 (over r.parentOver) g, true)

/-- `_update_psd_record` -/
def updateRecordG (d : Dirty) (s : State) (g : Id) : State :=
  invUp .current (if d.marks then markDirty s g else s) g

/-! ### The machine -/

structure M where
  s : State
  env : Env

def raise (m : M) (e : Err) : M × Option Out := (m, some (.error e))

def refuseM (m : M) (r : Err × List Id) : M × Option Out :=
  let q := refuse m.s r
  ({ m with s := q.1 }, some q.2)

/-- a raw list operation on container `g`; `none`: out of the model -/
def runLOp (m : M) (g : Id) : LOp → M × Option Out
  | .extend a =>
    match evalArg m.s m.env a with
    | some (xs, e') => ({ s := setChildren m.s g (m.s.children g ++ xs), env := e' }, none)
    | none => raise m .other
  | .insert i x =>
    match m.env.get i, evalObj m.s m.env x with
    | some (.key (.idx i)), some x =>
      let l := m.s.children g
      ({ m with s := setChildren m.s g (insertAt l (clampIdx l.length i) x) }, none)
    | _, _ => raise m .other
  | .setitem k v =>
    let l := m.s.children g
    match m.env.get k with
    | some (.key (.idx i)) =>
      match evalObj m.s m.env (.var v) with
      | some x =>
        match normIdx l.length i with
        | none => raise m .indexError
        | some j => ({ m with s := setChildren m.s g (l.set j x) }, none)
      | none => raise m .other
    | some (.key (.slice a b)) =>
      match readList m.env v with
      | some (xs, e') =>
        let lh := sliceBounds l.length a b
        ({ s := setChildren m.s g (sliceAssign l lh.1 lh.2 xs), env := e' }, none)
      | none => raise m .typeError           -- "can only assign an iterable"
    | _ => raise m .other
  | .delitem k =>
    let l := m.s.children g
    match m.env.get k with
    | some (.key (.idx i)) =>
      match normIdx l.length i with
      | none => raise m .indexError
      | some j => ({ m with s := setChildren m.s g (l.eraseIdx j) }, none)
    | some (.key (.slice a b)) =>
      let lh := sliceBounds l.length a b
      ({ m with s := setChildren m.s g (sliceAssign l lh.1 lh.2 []) }, none)
    | _ => raise m .other
  | .remove x =>
    match evalObj m.s m.env x with
    | some x =>
      if x ∈ m.s.children g then ({ m with s := setChildren m.s g ((m.s.children g).erase x) }, none)
      else raise m .valueError
    | none => raise m .valueError
  | .pop i =>
    let l := m.s.children g
    match m.env.get i with
    | some (.key (.idx i)) =>
      match normIdx l.length i with
      | none => raise m .indexError
      | some j =>
        match l[j]? with
        | none => raise m .indexError
        | some x => ({ s := setChildren m.s g (l.eraseIdx j), env := m.env.set "popped_" (.obj (some x)) }, none)
    | _ => raise m .other
  | .clear => ({ m with s := setChildren m.s g [] }, none)
  | .other _ => raise m .other

/-- one step; `some out`: the call ends here with this exception -/
def runStep (t : Table) (m : M) : Step → M × Option Out
  | .test id tst gs =>
    if !m.env.holds gs then (m, none)
    else match evalTest m.s m.env tst with
      | .error e => raise m e
      | .ok b => ({ m with env := { m.env with conds := (id, b) :: m.env.conds } }, none)
  | .bind dst src fb gs =>
    if m.env.holds gs then ({ m with env := m.env.set dst (.obj (evalObj m.s m.env src)) }, none)
    else ({ m with env := m.env.set dst ((m.env.get fb).getD (.obj none)) }, none)
  | .mat dst src fb gs =>
    if m.env.holds gs then
      match evalArg m.s m.env src with
      | some (xs, e') => ({ m with env := e'.set dst (.list xs false) }, none)
      | none => raise m .typeError           -- `list()` of something that is not iterable
    else ({ m with env := m.env.set dst ((m.env.get fb).getD (.obj none)) }, none)
  | .alloc dst gs =>
    if !m.env.holds gs then (m, none)
    else ({ s := alloc m.s .group none BBox.zero, env := m.env.set dst (.obj (some m.s.next)) }, none)
  | .assert tst reprs gs =>
    if !m.env.holds gs then (m, none)
    else match evalTest m.s m.env tst with
      | .error e => raise m e
      | .ok true => (m, none)
      | .ok false => refuseM m (.assertionError, reprs.filterMap (evalObj m.s m.env))
  | .repr os gs =>
    if !m.env.holds gs then (m, none)
    else match reprAll m.s (os.filterMap (evalObj m.s m.env)) with
      | (s1, none) => ({ m with s := s1 }, none)
      | (s1, some e) => ({ m with s := s1 }, some (.error e))
  | .index c x gs =>
    if !m.env.holds gs then (m, none)
    else match evalObj m.s m.env c, evalObj m.s m.env x with
      | some c, some x => if x ∈ m.s.children c then (m, none) else refuseM m (.valueError, [x])
      | _, _ => raise m .attributeError
  | .validate c a gs =>
    if !m.env.holds gs then (m, none)
    else match evalObj m.s m.env c with
      | none => raise m .attributeError
      | some g =>
        match evalArg m.s m.env a with
        | none => raise m .assertionError        -- `[None]`: not a Layer
        | some (xs, e') =>
          match checkValidG t.check m.s g xs with
          | some r => refuseM { m with env := e' } r
          | none => ({ m with env := e' }, none)
  | .mutate c op gs =>
    if !m.env.holds gs then (m, none)
    else match evalObj m.s m.env c with
      | none => raise m .attributeError
      | some g => runLOp m g op
  | .refresh c gs =>
    if !m.env.holds gs then (m, none)
    else match evalObj m.s m.env c with
      | none => raise m .attributeError
      | some g =>
        match refreshG t.refresh m.s g with
        | (s2, false) => ({ m with s := s2 }, some (.error .recursionError))
        | (s2, true) => ({ m with s := s2 }, none)
  | .dirty c gs =>
    if !m.env.holds gs then (m, none)
    else match evalObj m.s m.env c with
      | none => raise m .attributeError
      | some g => ({ m with s := updateRecordG t.dirty m.s g }, none)
  | .other _ => raise m .other

def runSteps (t : Table) : M → List Step → M × Option Out
  | m, [] => (m, none)
  | m, st :: rest =>
    match runStep t m st with
    | (m1, some o) => (m1, some o)
    | (m1, none) => runSteps t m1 rest

def runLoop (t : Table) (v : String) (steps : List Step) : M → List Id → M × Option Out
  | m, [] => (m, none)
  | m, x :: xs =>
    match runSteps t { m with env := m.env.set v (.obj (some x)) } steps with
    | (m1, some o) => (m1, some o)
    | (m1, none) => runLoop t v steps m1 xs

def runSeg (t : Table) (m : M) : Seg → M × Option Out
  | .line steps => runSteps t m steps
  | .loop v over steps =>
    match readList m.env over with
    | some (xs, e') => runLoop t v steps { m with env := e' } xs
    | none => raise m .typeError

def runSegs (t : Table) : M → List Seg → M × Option Out
  | m, [] => (m, none)
  | m, sg :: rest =>
    match runSeg t m sg with
    | (m1, some o) => (m1, some o)
    | (m1, none) => runSegs t m1 rest

def Table.row (t : Table) (name : String) : Option Row := t.rows.find? fun r => r.name == name

/-- one call of the public mutator `name` with the given arguments -/
def runRow (t : Table) (name : String) (s : State) (vals : List (String × Val)) (opq : List (String × Bool) := []) :
    State × Out :=
  match t.row name with
  | none => (s, .error .other)
  | some r =>
    match runSegs t ⟨s, ⟨vals, [], opq⟩⟩ r.segs with
    | (m, some o) => (m.s, o)
    | (m, none) =>
      if r.ret == "" then (m.s, .none)
      else match m.env.get r.ret with
        | some (.obj (some x)) => (m.s, .id x)
        | _ => (m.s, .none)

def vObj (x : Id) : Val := .obj (some x)

/-- the index `move_up(k)` computes before it removes the layer (`parent.index(self) + k`, clamped) -/
def moveIndex (s : State) (x : Id) (k : Int) : Int :=
  match s.parent x with
  | none => 0
  | some p =>
    let l := s.children p
    let n : Int := (l.idxOf x : Int) + k
    if n < 0 then 0 else if n ≥ l.length then (l.length : Int) - 1 else n

/-- One public call, run through the table. What the table does not say — that the receiver is an
object of the class the method belongs to, and the value of `newindex` — is as in `TreeSt.step`. -/
def tableStep (t : Table) (s : State) (op : Op) : State × Out :=
  match op.target with
  | some g =>
    if !s.isGroup g then (s, .error .attributeError)
    else
      match op with
      | .append _ x => runRow t "GroupMixin.append" s [("self", vObj g), ("layer", vObj x)]
      | .extend _ xs => runRow t "GroupMixin.extend" s [("self", vObj g), ("layers", .list xs false)]
      | .insert _ i x => runRow t "GroupMixin.insert" s [("self", vObj g), ("index", .key (.idx i)), ("layer", vObj x)]
      | .remove _ x => runRow t "GroupMixin.remove" s [("self", vObj g), ("layer", vObj x)]
      | .pop _ i => runRow t "GroupMixin.pop" s [("self", vObj g), ("index", .key (.idx i))]
      | .clear _ => runRow t "GroupMixin.clear" s [("self", vObj g)]
      | .setitem _ i x => runRow t "GroupMixin.__setitem__" s [("self", vObj g), ("key", .key (.idx i)), ("value", vObj x)]
      | .setslice _ a b xs =>
        runRow t "GroupMixin.__setitem__" s [("self", vObj g), ("key", .key (.slice a b)), ("value", .list xs false)]
      | .delitem _ i => runRow t "GroupMixin.__delitem__" s [("self", vObj g), ("key", .key (.idx i))]
      | .delslice _ a b => runRow t "GroupMixin.__delitem__" s [("self", vObj g), ("key", .key (.slice a b))]
      | _ => (s, .error .attributeError)
  | none =>
    match op with
    | .deleteLayer x =>
      if !s.isLayer x then (s, .error .attributeError) else runRow t "Layer.delete_layer" s [("self", vObj x)]
    | .moveToGroup x g =>
      if !s.isLayer x then (s, .error .attributeError)
      else if !s.live g then (s, .error .assertionError)
      else runRow t "Layer.move_to_group" s [("self", vObj x), ("group", vObj g)]
    | .moveUp x k =>
      if !s.isLayer x then (s, .error .attributeError)
      else runRow t "Layer.move_up" s [("self", vObj x), ("newindex", .key (.idx (moveIndex s x k)))]
    | .moveDown x k =>
      if !s.isLayer x then (s, .error .attributeError)
      else runRow t "Layer.move_down" s [("self", vObj x), ("newindex", .key (.idx (moveIndex s x (-k))))]
    | .newGroup p =>
      runRow t "Group.new" s [("parent", .obj (p.bind fun p => if s.isGroup p then some p else none))]
    | .groupLayers xs p =>
      match xs with
      | [] => runRow t "Group.group_layers" s [("layers", .list xs false), ("parent", .obj p)]
      | x0 :: _ =>
        if !s.isLayer x0 then (s, .error .attributeError)
        else runRow t "Group.group_layers" s
          [("layers", .list xs false), ("parent", .obj (p.bind fun p => if s.live p then some p else none))]
    | _ => step .current s op

def tableRun (t : Table) : State → List Op → State × List Out
  | s, [] => (s, [])
  | s, op :: ops =>
    let r := tableStep t s op
    let rest := tableRun t r.1 ops
    (rest.1, r.2 :: rest.2)

/-! ### `tableOk`: what the theorems need from the source -/

def Step.guards : Step → Guards
  | .test _ _ gs | .bind _ _ _ gs | .mat _ _ _ gs | .alloc _ gs | .assert _ _ gs | .repr _ gs | .index _ _ gs
  | .validate _ _ gs | .mutate _ _ gs | .refresh _ gs | .dirty _ gs => gs
  | .other _ => []

/-- does the list operation put layers INTO the list? -/
def LOp.inserts : LOp → Bool
  | .extend _ | .insert _ _ | .setitem _ _ | .other _ => true
  | _ => false

/-- the argument expression a validation must have been given for this insertion -/
def LOp.needs : LOp → Option Arg
  | .extend a => some a
  | .insert _ x => some (.single x)
  | .setitem k v => some (.sliceOr k v)
  | _ => none

def Obj.known : Obj → Bool
  | .var _ => true
  | .parent o => o.known
  | .first _ => true
  | .nil => false
  | .other _ => false

def LOp.known : LOp → Bool
  | .other _ => false
  | .extend (.other _) => false
  | _ => true

/-- steps that only look -/
def Step.passive : Step → Bool
  | .test _ _ _ | .bind _ _ _ _ => true
  | _ => false

/-- (c) with (a, first half): in a straight-line piece every raw insertion into `c` comes directly after the
validation of the SAME argument against the SAME container and is directly followed by the pointer refresh of
that container, all three under the same tests. -/
def insertsOk : List Step → Bool
  | .validate c a gs :: .mutate c' op gs' :: .refresh c'' gs'' :: rest =>
    if op.inserts then
      c == c' && c' == c'' && gs == gs' && gs' == gs'' && op.needs == some a && insertsOk rest
    else insertsOk (.refresh c'' gs'' :: rest)
  | .mutate _ op _ :: rest => !op.inserts && insertsOk rest
  | _ :: rest => insertsOk rest
  | [] => true

/-- a later `c._update_psd_record()` under no further test -/
def dirtyFollows (c : Obj) (gs : Guards) : List Step → Bool
  | .dirty c' gs' :: rest => (c' == c && gs'.all (· ∈ gs)) || dirtyFollows c gs rest
  | .bind _ _ _ _ :: _ => false
  | _ :: rest => dirtyFollows c gs rest
  | [] => false

/-- (d) every raw mutation of container `c` is followed by the record refresh of `c` (for a move: of the source
for the removal, of the destination for the insertion) -/
def dirtyOk : List Step → Bool
  | .mutate c _ gs :: rest => dirtyFollows c gs rest && dirtyOk rest
  | _ :: rest => dirtyOk rest
  | [] => true

/-- (e) nothing unclassified, every container named -/
def stepKnown : Step → Bool
  | .other _ => false
  | .mutate c op _ => c.known && op.known
  | .validate c (.other _) _ => false && c.known
  | .validate c _ _ | .refresh c _ | .dirty c _ => c.known
  | _ => true

def Seg.steps : Seg → List Step
  | .line st => st
  | .loop _ _ st => st

def Row.steps (r : Row) : List Step := r.segs.flatMap Seg.steps

/-- list variables that hold a real list: materialised, or `len()` was taken -/
def realLists : List Step → List String
  | .mat dst _ _ _ :: rest => dst :: realLists rest
  | .assert (.nonEmpty l) _ _ :: rest => l :: realLists rest
  | _ :: rest => realLists rest
  | [] => []

def Arg.listVar : Arg → Option String
  | .list n => some n
  | .sliceOr _ v => some v
  | _ => none

/-- list variables read by validations, raw operations and loops -/
def listUses (r : Row) : List String :=
  (r.steps.filterMap fun st => match st with
    | .validate _ a _ => a.listVar
    | .mutate _ (.extend a) _ => a.listVar
    | .mutate _ (.setitem _ v) _ => some v
    | _ => none) ++
  (r.segs.filterMap fun sg => match sg with | .loop _ over _ => some over | _ => none)

/-- (b) every iterable that is validated, inserted or looped over was materialised (or measured) first, and an
iterable is materialised once -/
def materialisedOk (r : Row) : Bool :=
  (listUses r).all (· ∈ realLists r.steps) &&
  ((r.steps.filterMap fun st => match st with | .mat _ (.list n) _ _ => some n | _ => none).Nodup)

/-- can the step refuse (raise something other than RecursionError)? -/
def Step.refuses : Step → Bool
  | .assert _ _ _ | .index _ _ _ | .validate _ _ _ | .other _ => true
  | .mat _ (.list _) _ _ => true
  | .mutate _ (.setitem _ _) _ | .mutate _ (.delitem _) _ | .mutate _ (.pop _) _ | .mutate _ (.other _) _ => true
  | .mutate _ (.remove _) gs => gs.isEmpty      -- `if x in c: c.remove(x)` cannot raise
  | _ => false

def Step.changes : Step → Bool
  | .mutate _ _ _ | .refresh _ _ | .dirty _ _ | .alloc _ _ => true
  | _ => false

/-- a check made AFTER the tree was changed is harmless when the same facts were checked BEFORE the first
change. The forms the library uses:
* the item was found in the container (`c.index(x)`) and is put back into it (`move_up`);
* `assert isinstance(c, GroupMixin)`, `assert c is not x`, `assert c not in x.descendants()` stand for
  `c._check_valid_layers([x])` (`move_to_group`, `Group.new`: `x` is the receiver or the new group);
* the container is the group this call created (nothing is below it but what the call put there) and the item
  passed `isinstance(_, Layer)` / the validation of the whole argument before (`group_layers`). -/
def earlyFacts (pre : List Step) (fresh : List String) (c x : Obj) : Bool :=
  pre.any (fun st => match st with | .index c' x' _ => c' == c && x' == x | _ => false) ||
  (pre.any (fun st => match st with | .assert (.ne a b) _ _ => (a == c && b == x) || (a == x && b == c) | _ => false) &&
   pre.any (fun st => match st with | .assert (.not (.under c' x')) _ _ => c' == c && x' == x | _ => false)) ||
  (match c with | .var n => n ∈ fresh | _ => false)

def lateOk (pre : List Step) (fresh : List String) (mats : List (String × Arg)) (whole : List (Obj × Arg)) : Step → Bool
  | .assert (.ne a b) _ _ => earlyFacts pre fresh a b || earlyFacts pre fresh b a
  | .assert (.isGroup c) _ _ =>
    (match c with | .var n => n ∈ fresh | _ => false) ||
    pre.any (fun st => match st with | .assert (.isGroup c') _ _ => c' == c | _ => false)
  | .assert (.not (.under c x)) _ _ => earlyFacts pre fresh c x
  | .validate c (.list v) _ =>
    match mats.lookup v with
    | some (.single x) =>
      earlyFacts pre fresh c x ||
      -- the new group goes into the parent the whole argument was validated against
      ((match x with | .var n => n ∈ fresh | _ => false) && whole.any (fun w => w.1 == c))
    | _ => false
  | .validate c (.single x) _ => earlyFacts pre fresh c x
  | .mat _ (.single _) _ _ => true
  | _ => false

/-- the steps of a row, each with the mark "inside a loop that changes the tree" (in the second round of such a
loop every step of its body comes after a change) -/
def Row.tagged (r : Row) : List (Step × Bool) :=
  r.segs.flatMap fun sg => match sg with
    | .line st => st.map fun x => (x, false)
    | .loop _ _ st => st.map fun x => (x, st.any Step.changes)

/-- (a, second half) atomicity: whatever can refuse comes before the first change of the tree, or repeats a check
made before it; in particular a loop must not validate and mutate item by item (non-atomic `extend`) unless
every check in it was made for the whole argument before. The first changing step may itself be a raw operation
that refuses (`IndexError`); an allocation does not change what exists. -/
def atomicOk (r : Row) : Bool :=
  let all := r.tagged
  let quiet : Step × Bool → Bool := fun q => !q.2 && (match q.1 with | .alloc _ _ => true | st => !st.changes)
  let pre := (all.takeWhile quiet).map (·.1)
  let post := all.dropWhile quiet
  let fresh := r.steps.filterMap fun st => match st with | .alloc d _ => some d | _ => none
  let mats := r.steps.filterMap fun st => match st with | .mat d a _ _ => some (d, a) | _ => none
  let whole := pre.filterMap fun st => match st with | .validate c (.list v) _ => some (c, Arg.list v) | _ => none
  let rest := match post with
    | q :: tl => if q.1.changes && !q.2 then tl else post
    | [] => []
  rest.all fun q => !q.1.refuses || lateOk pre fresh mats whole q.1

def rowOk (r : Row) : Bool :=
  r.segs.all (fun sg => insertsOk sg.steps && dirtyOk sg.steps) &&
  r.steps.all stepKnown && materialisedOk r && atomicOk r

def tableOk (t : Table) : Bool :=
  t.check == .std && t.refresh.psdOver == .descendants && t.refresh.psdCond == .differs &&
  t.refresh.parentOver == .children && t.dirty.marks && t.rows.all rowOk

end PsdVerif.TreeTable
