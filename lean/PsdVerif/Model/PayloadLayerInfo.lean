/-
C01 (payload classes) — unit 1: `LayerInfoBlock` (psd/layer_and_mask.py), the tagged block whose payload
is a whole `LayerInfo` (`Lr16` / `Lr32`: 16- and 32-bit documents keep all their layers there), the
*typed* tagged block that holds it, and the document whose document-level blocks are typed ("deep" document).

```
@register(Tag.LAYER_16) @register(Tag.LAYER_32)
class LayerInfoBlock(LayerInfo):
    def read(cls, fp, encoding="macroman", version=1, **kwargs):  return cls._read_body(fp, encoding, version)
    def write(self, fp, encoding="macroman", version=1, padding=4, **kwargs):
        return self._write_body(fp, encoding, version, padding)
```

* no length prefix of its own and **no `layer_count == 0` shortcut** (both live in `LayerInfo.read/write`);
* `_write_body` runs `_update_channel_length` whenever both lists are non-empty — whatever `layer_count` is —
  so the object after `write` is `blockRefresh` (the skeleton's `LayerInfo.refresh` looks at `layer_count` first);
* `_write_body` ends with `write_padding(fp, written, padding)`; `_read_body` does not consume that filler
  (the reader runs on its own `BytesIO` inside `TaggedBlock.read`, nobody looks at the rest);
* `TaggedBlock.write` calls `data.write(f, padding = 1 if padding == 4 else 4, version = version)` inside the
  length block, `TaggedBlock.read` calls `kls.frombytes(raw_data, version = version)`; `encoding` is *not*
  forwarded (names inside Lr16/Lr32 are always MacRoman: C19's known finding) — names are byte strings here.

`version` ranges over the versions the header validator admits (1, 2): `("hI","hQ")[version - 1]` is `secW`.

WF tags as in Model/Psd.lean: (i) validator · (ii) on-disk width · (iii) format consistency · (F) forced by the proof.
Core Lean only.
-/
import PsdVerif.Model.Psd
import PsdVerif.Generated.Payload

namespace PsdVerif.Payload
open PsdVerif PsdVerif.Codec PsdVerif.Psd

/-! ## LayerInfoBlock -/

/-- the object after `LayerInfoBlock.write`: `_update_channel_length` ran iff both lists are non-empty -/
def blockRefresh (li : LayerInfo) : LayerInfo :=
  match li.records, li.channels with
  | some (r :: rs), some (c :: cs) => { li with records := some (refreshRecords (r :: rs) (c :: cs)) }
  | _, _ => li

namespace LayerInfoBlock

/-- bytes `_write_body` emits before its final `write_padding` -/
def bodyLen (version : Nat) (li : LayerInfo) : Nat := ((blockRefresh li).bodyUnpaddedT version).length

/-- `LayerInfoBlock.write(fp, version=version, padding=pad)` -/
def encT (version pad : Nat) (li : LayerInfo) : B := (blockRefresh li).bodyT version pad

/-- the same with Python's `written` accumulator -/
def encP (version pad : Nat) (li : LayerInfo) : W := (blockRefresh li).bodyP version pad

/-- every `struct.pack` of `_write_body` accepts its argument (no length prefix here: that is the tagged block's) -/
def Fits (version : Nat) (li : LayerInfo) : Prop :=
  FitsI16 li.layerCount ∧ optAll (LayerRecord.Fits version) (blockRefresh li).records ∧
  optAll (fun cs => ∀ c ∈ cs, ChannelData.Fits c) li.channels

instance (version : Nat) (li : LayerInfo) : Decidable (Fits version li) := by unfold Fits; exact inferInstance

def enc (version pad : Nat) (li : LayerInfo) : Except Err B :=
  if Fits version li then .ok (encT version pad li) else .error .structError

def encW (version pad : Nat) (li : LayerInfo) : Except Err W :=
  if Fits version li then .ok (encP version pad li) else .error .structError

/-- `LayerInfoBlock.read(fp, version=version)` = `LayerInfo._read_body` -/
def dec (version : Nat) : R LayerInfo := LayerInfo.bodyDec version

def WF (version : Nat) (li : LayerInfo) : Prop :=
  match li.records, li.channels with
  | some rs, some css =>
      li.layerCount.natAbs = rs.length                    -- (iii) layer_count = ±len(records)
      ∧ shapesAgree rs css                                -- (iii) one channel list per record, one datum per channel info
      ∧ (∀ r ∈ refreshRecords rs css, r.WF version)
      ∧ (∀ cs ∈ css, ∀ c ∈ cs, ChannelData.WF c)
  | _, _ => False
      -- (iii) when `layer_count ≠ 0`; (F) when `layer_count = 0`: `_read_body` has no count-0 shortcut, `None` is
      -- re-read as `LayerRecords([])` / `ChannelImageData([])` (known finding C01/none-vs-empty/layer-info-block-count0)

instance (version : Nat) (li : LayerInfo) : Decidable (WF version li) := by
  unfold WF
  split <;> exact inferInstance

end LayerInfoBlock

/-! ## the typed tagged block -/

/-- the keys `tagged_blocks.TYPES` maps to `LayerInfoBlock` (regenerated every run) -/
def layerInfoKeys : List B := Generated.Payload.layerInfoBlockKeys

/-- the `data` attribute of a `TaggedBlock`: bytes, or an object of a modelled class -/
inductive Payload where
  | raw (b : B)
  | layerInfo (li : LayerInfo)
  deriving DecidableEq, Repr

structure TBlock where
  signature : B
  key : B
  data : Payload
  deriving DecidableEq, Repr

/-- `inner_padding = 1 if padding == 4 else 4` -/
def innerPad (pad : Nat) : Nat := if pad = 4 then 1 else 4

/-- what the `writer` closure of `TaggedBlock.write` emits -/
def Payload.encT (version pad : Nat) : Payload → B
  | .raw b => b
  | .layerInfo li => LayerInfoBlock.encT version (innerPad pad) li

def Payload.encP (version pad : Nat) : Payload → W
  | .raw b => wBytes b
  | .layerInfo li => LayerInfoBlock.encP version (innerPad pad) li

def Payload.Fits (version : Nat) : Payload → Prop
  | .raw _ => True
  | .layerInfo li => LayerInfoBlock.Fits version li

instance (version : Nat) (x : Payload) : Decidable (x.Fits version) := by
  cases x <;> simp only [Payload.Fits] <;> exact inferInstance

/-- the payload object after `write` -/
def Payload.refresh : Payload → Payload
  | .raw b => .raw b
  | .layerInfo li => .layerInfo (blockRefresh li)

/-- the skeleton's view of a typed block: the payload as the bytes it writes -/
def TBlock.flat (version pad : Nat) (t : TBlock) : TaggedBlock := ⟨t.signature, t.key, t.data.encT version pad⟩

def TBlock.encT (version pad : Nat) (t : TBlock) : B := (t.flat version pad).encT version pad

def TBlock.encP (version pad : Nat) (t : TBlock) : W :=
  let written := wBytes (pack4s t.signature ++ pack4s t.key)
  written +> wLenBlock 0 (tbLenW version t.key) pad (t.data.encP version pad)

def TBlock.Fits (version pad : Nat) (t : TBlock) : Prop := t.data.Fits version ∧ (t.flat version pad).Fits version

instance (version pad : Nat) (t : TBlock) : Decidable (t.Fits version pad) := by unfold TBlock.Fits; exact inferInstance

def TBlock.enc (version pad : Nat) (t : TBlock) : Except Err B :=
  if t.Fits version pad then .ok (t.encT version pad) else .error .structError

def TBlock.refresh (t : TBlock) : TBlock := { t with data := t.data.refresh }

/-- `kls = TYPES.get(key); data = kls.frombytes(raw_data, version=version) if kls else raw_data`, with `TYPES`
restricted to the classes of this unit (every other class is an opaque payload here) -/
def typedPayload (version : Nat) (key data : B) : Except Err Payload :=
  if key ∈ layerInfoKeys then
    match LayerInfoBlock.dec version data 0 with
    | .ok (li, _) => .ok (.layerInfo li)
    | .error e => .error e
  else .ok (.raw data)

/-- `TaggedBlock.read(fp, version, padding)` with the payload dispatch -/
def TBlock.dec (version pad : Nat) : R (Option TBlock) := fun d p => do
  let (sig, p1) ← readN 4 d p
  if sig ∈ G.blockSignatures then
    let (key, p2) ← readN 4 d p1
    let (data, p3) ← readLenBlock 0 (tbLenW version key) pad d p2
    let pl ← typedPayload version key data
    .ok (some ⟨sig, key, pl⟩, p3)
  else .ok (none, p)

def TBlock.WF (version pad : Nat) (t : TBlock) : Prop :=
  (t.flat version pad).WF version                         -- (i) signature, (ii) key width, length field
  ∧ t.data.Fits version                                   -- (ii)
  ∧ (match t.data with
     | .raw _ => t.key ∉ layerInfoKeys                    -- (iii) the key decides the class of the payload
     | .layerInfo li => t.key ∈ layerInfoKeys ∧ LayerInfoBlock.WF version li)

instance (version pad : Nat) (t : TBlock) : Decidable (t.WF version pad) := by
  unfold TBlock.WF
  cases t.data <;> simp only <;> exact inferInstance

def tblocksT (version pad : Nat) (ts : List TBlock) : B := listT (TBlock.encT version pad) ts

/-- `TaggedBlocks.read` -/
def tblocksDec (version pad : Nat) (endPos : Option Nat) : R (List TBlock) := fun d p => do
  let (items, p) ← readWhile (taggedCond endPos) (TBlock.dec version pad) d p
  .ok (odict TBlock.key items, p)

def tblocksWF (version pad : Nat) (ts : List TBlock) : Prop :=
  (∀ t ∈ ts, t.WF version pad) ∧ (ts.map TBlock.key).Nodup

instance (version pad : Nat) (ts : List TBlock) : Decidable (tblocksWF version pad ts) := by
  unfold tblocksWF; exact inferInstance

/-! ## the deep document: document-level tagged blocks are typed

(The tagged blocks of the layer records — of the main layer info and of a nested one — stay skeleton blocks:
the format puts Lr16/Lr32 at document level only.) -/

structure DeepLam where
  layerInfo : Option LayerInfo
  globalMask : Option GlobalLayerMaskInfo
  taggedBlocks : Option (List TBlock)
  deriving DecidableEq, Repr

structure DeepPSD where
  header : Header
  colorModeData : B
  resources : List Resource
  layerAndMask : DeepLam
  imageData : ImageData
  deriving DecidableEq, Repr

/-- document-level blocks are written with `padding=4` (hence the payload with `padding=1`) -/
def DeepLam.flat (version : Nat) (x : DeepLam) : LayerAndMask :=
  ⟨x.layerInfo, x.globalMask, x.taggedBlocks.map (List.map (TBlock.flat version 4))⟩

def DeepPSD.flat (x : DeepPSD) : PSD :=
  ⟨x.header, x.colorModeData, x.resources, x.layerAndMask.flat x.header.version, x.imageData⟩

def DeepPSD.payloadFits (x : DeepPSD) : Prop :=
  optAll (fun (t : TBlock) => t.data.Fits x.header.version) x.layerAndMask.taggedBlocks

instance (x : DeepPSD) : Decidable x.payloadFits := by unfold DeepPSD.payloadFits; exact inferInstance

def DeepPSD.encT (pad : Nat) (x : DeepPSD) : B := x.flat.encT pad

/-- `PSD.write` on a document whose Lr16/Lr32 blocks hold `LayerInfoBlock` objects: the sections are written in the
skeleton's order; a payload field that does not fit raises `struct.error` while the layer and mask section is written
(after the `IndexError` of an impossible version, together with the other width errors of that section) -/
def DeepPSD.enc (pad : Nat) (x : DeepPSD) : Except Err B :=
  match x.flat.writeError pad with
  | some e => .error e
  | none => if x.payloadFits then .ok (x.encT pad) else .error .structError

def DeepLam.refresh (x : DeepLam) : DeepLam :=
  ⟨x.layerInfo.map LayerInfo.refresh, x.globalMask, x.taggedBlocks.map (List.map TBlock.refresh)⟩

/-- the document object after `write()` -/
def DeepPSD.refresh (x : DeepPSD) : DeepPSD := { x with layerAndMask := x.layerAndMask.refresh }

/-- `LayerAndMaskInformation._read_body` with the typed block reader (the gate is the skeleton's:
`fp.tell() + 4 <= end_pos`; otherwise `None` and an empty `TaggedBlocks()`) -/
def DeepLam.bodyDec (version endPos : Nat) : R DeepLam := fun d p => do
  let (li, p) ← LayerInfo.dec version d p
  if p + 4 ≤ endPos then
    let (glm, p) ← GlobalLayerMaskInfo.dec d p
    let (tbs, p) ← tblocksDec version 4 (some endPos) d p
    .ok (⟨some li, some glm, some tbs⟩, p)
  else .ok (⟨some li, none, some []⟩, p)

def DeepLam.dec (version : Nat) : R DeepLam := fun d p => do
  let (length, p) ← readU (secW version) d p
  let endPos := p + length
  let (x, _) ← (if length = 0 then .ok (⟨none, none, none⟩, p) else DeepLam.bodyDec version endPos d p)
  if overflows endPos d then .error .overflowError else .ok (x, endPos)                       -- `fp.seek(end_pos)`

/-- `PSD.read` -/
def DeepPSD.read : R DeepPSD := fun d p => do
  let (header, p) ← Header.dec d p
  let (cmd, p) ← colorModeDec d p
  let (res, p) ← resourcesDec d p
  let (lm, p) ← DeepLam.dec header.version d p
  let (img, p) ← ImageData.dec d p
  .ok (⟨header, cmd, res, lm, img⟩, p)

def DeepPSD.WF (pad : Nat) (x : DeepPSD) : Prop :=
  x.flat.WF pad                                                           -- the skeleton's WF on the bytes view
  ∧ optAll (fun (t : TBlock) => t.WF x.header.version 4) x.layerAndMask.taggedBlocks

instance (pad : Nat) (x : DeepPSD) : Decidable (x.WF pad) := by unfold DeepPSD.WF; exact inferInstance

end PsdVerif.Payload
