/-
C01 payload classes, unit 9: vector data (psd/vector.py).

  Path            `while is_readable(fp, 26)`: selector `H` + record; `write_padding(fp, written, padding)`
  Subpath         (ClosedPath 0 / OpenPath 3) `HhH2I10s`: number of records that follow, operation, two unknown fields, index,
                  ten unknown bytes; then that many (selector, record) pairs - read through `TYPES.get(selector)`, so a
                  subpath record inside a subpath is read as a nested subpath: the model is recursive as the code is
  Knot            (ClosedKnotLinked 1 / ClosedKnotUnlinked 2 / OpenKnotLinked 4 / OpenKnotUnlinked 5) `6i`: three (y, x) points
                  in 8.24 fixed point - the stored 32-bit integers here (the reader's `float(n) / 0x01000000` and the writer's
                  `int(x * 0x01000000)` are inverse to each other on the multiples of 2^-24: a width clause)
  PathFillRule 6  `24x` . ClipboardRecord 7 `5i4x` (8.24 as well) . InitialFillRule 8 `H22x`
  VectorMaskSetting            `2I` (version, flags), `assert version == 3`, Path (written with the default padding 4)
  VectorStrokeContentSetting   `4sI` (key, version), descriptor body, `write_padding(fp, written, padding)`
  (`vstk`: DescriptorBlock, `vogk`: DescriptorBlock2 - the codecs of Model/Payload3Resources.lean)

Every record is 26 bytes. WF tags as in the other units. Core Lean only.
-/
import PsdVerif.Model.Payload3Base
import PsdVerif.Model.Descriptor
import PsdVerif.Generated.Payload3

namespace PsdVerif.Payload3
open PsdVerif PsdVerif.Codec PsdVerif.Payload

namespace G3
export PsdVerif.Generated.Payload3 (pathSelectors)
end G3

/-- the record classes of `vector.TYPES` by what they store -/
inductive PKind where
  | subpath | knot | fill | clipboard | initial
  deriving DecidableEq, Repr

/-- class name (as registered) ↦ kind -/
def PKind.ofName : String → Option PKind
  | "ClosedPath" => some .subpath
  | "OpenPath" => some .subpath
  | "ClosedKnotLinked" => some .knot
  | "ClosedKnotUnlinked" => some .knot
  | "OpenKnotLinked" => some .knot
  | "OpenKnotUnlinked" => some .knot
  | "PathFillRule" => some .fill
  | "ClipboardRecord" => some .clipboard
  | "InitialFillRule" => some .initial
  | _ => none

/-- `PathResourceID(selector)` (ValueError for a number that is no member) and `TYPES.get(selector)`: the registry is the
regenerated table -/
def kindOf (sel : Nat) : Option PKind := (G3.pathSelectors.lookup sel).bind PKind.ofName

/-- a path record (without its selector); `knot` and `subpath` carry the selector of their class -/
inductive PItem where
  | fill
  | initial (r : Row)
  | clipboard (r : Row)
  | knot (sel : Nat) (r : Row)
  | subpath (sel : Nat) (head : Row) (items : List PItem)
  deriving Repr

def knotFmt : List FI := [S 4, S 4, S 4, S 4, S 4, S 4]
def clipFmt : List FI := [S 4, S 4, S 4, S 4, S 4, X 4]
def initFmt : List FI := [U 2, X 22]
/-- `hH2I10s` after the count: operation, unknown1, unknown2, index, unknown3 -/
def subFmt : List FI := [S 2, U 2, U 4, U 4, SN 10]

/-- the selector `item.selector.value` of the item's class -/
def PItem.sel : PItem → Nat
  | .fill => 6
  | .initial _ => 8
  | .clipboard _ => 7
  | .knot s _ => s
  | .subpath s _ _ => s

mutual
/-- `write_fmt(fp, "H", item.selector.value)`, `item.write(fp)` -/
def PItem.encT : PItem → B
  | .fill => beBytes 2 6 ++ zeros 24
  | .initial r => beBytes 2 8 ++ fmtT initFmt r
  | .clipboard r => beBytes 2 7 ++ fmtT clipFmt r
  | .knot s r => beBytes 2 s ++ fmtT knotFmt r
  | .subpath s head items => beBytes 2 s ++ ((beBytes 2 items.length ++ fmtT subFmt head) ++ PItem.encListT items)
def PItem.encListT : List PItem → B
  | [] => []
  | x :: xs => x.encT ++ PItem.encListT xs
end

mutual
def PItem.Fits : PItem → Prop
  | .fill => True
  | .initial r => fmtFits initFmt r
  | .clipboard r => fmtFits clipFmt r
  | .knot s r => FitsU 2 s ∧ fmtFits knotFmt r
  | .subpath s head items => FitsU 2 s ∧ FitsU 2 items.length ∧ fmtFits subFmt head ∧ PItem.FitsList items
def PItem.FitsList : List PItem → Prop
  | [] => True
  | x :: xs => x.Fits ∧ PItem.FitsList xs
end

mutual
def PItem.Fits.dec : (x : PItem) → Decidable x.Fits
  | .fill => by unfold PItem.Fits; exact inferInstance
  | .initial _ => by unfold PItem.Fits; exact inferInstance
  | .clipboard _ => by unfold PItem.Fits; exact inferInstance
  | .knot _ _ => by unfold PItem.Fits; exact inferInstance
  | .subpath _ _ items => by
    unfold PItem.Fits
    have := PItem.FitsList.dec items
    exact inferInstance
def PItem.FitsList.dec : (xs : List PItem) → Decidable (PItem.FitsList xs)
  | [] => by unfold PItem.FitsList; exact inferInstance
  | x :: xs => by
    unfold PItem.FitsList
    have := PItem.Fits.dec x
    have := PItem.FitsList.dec xs
    exact inferInstance
end
instance (x : PItem) : Decidable x.Fits := PItem.Fits.dec x
instance (xs : List PItem) : Decidable (PItem.FitsList xs) := PItem.FitsList.dec xs

mutual
def PItem.encP : PItem → W
  | .fill => wBytes (beBytes 2 6) +> wBytes (zeros 24)
  | .initial r => wBytes (beBytes 2 8) +> wBytes (fmtT initFmt r)
  | .clipboard r => wBytes (beBytes 2 7) +> wBytes (fmtT clipFmt r)
  | .knot s r => wBytes (beBytes 2 s) +> wBytes (fmtT knotFmt r)
  | .subpath s head items => wBytes (beBytes 2 s) +> (wBytes (beBytes 2 items.length ++ fmtT subFmt head) +> PItem.encListP items)
def PItem.encListP : List PItem → W
  | [] => wNil
  | x :: xs => x.encP +> PItem.encListP xs
end

mutual
/-- (i) the selector is the one of a class of the item's kind: `item.selector` is a class attribute -/
def PItem.WF : PItem → Prop
  | .fill => True
  | .initial _ => True
  | .clipboard _ => True
  | .knot s _ => kindOf s = some .knot
  | .subpath s head items => kindOf s = some .subpath ∧ fmtWF subFmt head ∧ PItem.WFList items
def PItem.WFList : List PItem → Prop
  | [] => True
  | x :: xs => x.WF ∧ PItem.WFList xs
end

mutual
def PItem.WF.dec : (x : PItem) → Decidable x.WF
  | .fill => by unfold PItem.WF; exact inferInstance
  | .initial _ => by unfold PItem.WF; exact inferInstance
  | .clipboard _ => by unfold PItem.WF; exact inferInstance
  | .knot _ _ => by unfold PItem.WF; exact inferInstance
  | .subpath _ _ items => by
    unfold PItem.WF
    have := PItem.WFList.dec items
    exact inferInstance
def PItem.WFList.dec : (xs : List PItem) → Decidable (PItem.WFList xs)
  | [] => by unfold PItem.WFList; exact inferInstance
  | x :: xs => by
    unfold PItem.WFList
    have := PItem.WF.dec x
    have := PItem.WFList.dec xs
    exact inferInstance
end
instance (x : PItem) : Decidable x.WF := PItem.WF.dec x
instance (xs : List PItem) : Decidable (PItem.WFList xs) := PItem.WFList.dec xs

mutual
/-- nesting depth of subpaths (fuel the reader needs) -/
def PItem.depth : PItem → Nat
  | .subpath _ _ items => 1 + PItem.depthList items
  | _ => 0
def PItem.depthList : List PItem → Nat
  | [] => 0
  | x :: xs => max x.depth (PItem.depthList xs)
end

/-- `selector = PathResourceID(read_fmt("H")[0]); kls = TYPES.get(selector); kls.read(fp)`. A subpath reads its records
through the same dispatch: every level consumes its own 26-byte record, `fuel = len(data) + 1` is never exhausted
(`Err.other` is there for totality only). -/
def PItem.decFuel : Nat → R PItem
  | 0 => fun _ _ => .error .other
  | fuel + 1 => fun d p => do
    let (sel, p) ← readU 2 d p
    match kindOf sel with
    | none => .error .valueError
    | some .fill => do
      let (_, p) ← readSkip 24 d p
      .ok (.fill, p)
    | some .initial => do
      let (r, p) ← fmtDec initFmt d p
      .ok (.initial r, p)
    | some .clipboard => do
      let (r, p) ← fmtDec clipFmt d p
      .ok (.clipboard r, p)
    | some .knot => do
      let (r, p) ← fmtDec knotFmt d p
      .ok (.knot sel r, p)
    | some .subpath => do
      let (n, p) ← readU 2 d p
      let (head, p) ← fmtDec subFmt d p
      let (items, p) ← readCount (PItem.decFuel fuel) n d p
      .ok (.subpath sel head items, p)

def PItem.dec : R PItem := fun d p => PItem.decFuel (d.length + 1) d p

/-- one record with its selector, on its own -/
def PItem.codec : PCodec PItem where
  encT := PItem.encT
  Fits := PItem.Fits
  decFits := inferInstance
  encP := PItem.encP
  dec := PItem.dec
  consumed x := x.encT.length
  WF := PItem.WF
  decWF := inferInstance

/-! ## Path -/

namespace Path

def bodyT (xs : List PItem) : B := PItem.encListT xs

/-- `Path.write(fp, padding)` / `Path.read(fp)` -/
def codec (pad : Nat) : PCodec (List PItem) where
  encT xs := bodyT xs ++ zeros (padAmount (bodyT xs).length pad)
  Fits xs := PItem.FitsList xs
  decFits _ := inferInstance
  encP xs :=
    let written := PItem.encListP xs
    written +> wPad written.2 pad
  dec := readWhile (isReadable 26) (optItem PItem.dec)
  consumed xs := (bodyT xs).length
  WF xs := PItem.WFList xs ∧ 0 < pad ∧ pad ≤ 26           -- the paddings the callers pass (1, 4): the filler stays below a record
  decWF _ := inferInstance

end Path

/-! ## VectorMaskSetting -/

structure VectorMaskSetting where
  head : Row                -- `2I`: version, flags
  path : List PItem
  deriving Repr

namespace VectorMaskSetting

def headFmt : List FI := [U 4, U 4]

/-- `write_fmt(fp, "2I", version, flags)`, `self.path.write(fp)` (padding 4) -/
def encT (x : VectorMaskSetting) : B := fmtT headFmt x.head ++ (Path.codec 4).encT x.path
def Fits (x : VectorMaskSetting) : Prop := fmtFits headFmt x.head ∧ PItem.FitsList x.path
instance (x : VectorMaskSetting) : Decidable x.Fits := by unfold Fits; exact inferInstance
def encP (x : VectorMaskSetting) : W := wBytes (fmtT headFmt x.head) +> (Path.codec 4).encP x.path

/-- `version, flags = read_fmt("2I")`, `assert version == 3`, `Path.read(fp)` -/
def dec : R VectorMaskSetting := fun d p => do
  let (h, p) ← fmtDec headFmt d p
  if h.int 0 = 3 then
    let (path, p) ← (Path.codec 4).dec d p
    .ok (⟨h, path⟩, p)
  else .error .assertionError

def codec : PCodec VectorMaskSetting where
  encT := encT
  Fits := Fits
  decFits := inferInstance
  encP := encP
  dec := dec
  consumed x := (fmtT headFmt x.head).length + (Path.bodyT x.path).length
  WF x := x.head.int 0 = 3 ∧ PItem.WFList x.path            -- the reader's assert
  decWF _ := inferInstance

end VectorMaskSetting

/-! ## VectorStrokeContentSetting (a `Descriptor` with a key and a version in front) -/

structure VectorStrokeContentSetting where
  key : B
  version : Int
  name : Descriptor.Str
  classID : Descriptor.Key
  items : Descriptor.Items
  deriving Repr

namespace VectorStrokeContentSetting
open Descriptor
variable (tb : Descriptor.Tables)

def bodyT (x : VectorStrokeContentSetting) : B :=
  packS 4 x.key ++ (beBytes 4 x.version.toNat ++ Descriptor.bodyT tb x.name x.classID x.items)
def encT (pad : Nat) (x : VectorStrokeContentSetting) : B := bodyT tb x ++ zeros (padAmount (bodyT tb x).length pad)

def Fits (x : VectorStrokeContentSetting) : Prop :=
  FitsU32 x.version ∧ StrFits x.name ∧ KeyFits tb x.classID ∧ x.items.length < 4294967296 ∧ FitsItems tb x.items
instance (x : VectorStrokeContentSetting) : Decidable (Fits tb x) := by unfold Fits; exact inferInstance

def encP (pad : Nat) (x : VectorStrokeContentSetting) : W :=
  let w := wBytes (packS 4 x.key ++ beBytes 4 x.version.toNat) +> bodyW tb x.name x.classID x.items
  w +> wPad w.2 pad

/-- `key, version = read_fmt("4sI", fp)`; `cls(key=key, version=version, **cls._read_body(fp))` -/
def dec : R VectorStrokeContentSetting := fun d p =>
  ((readN 4) >>- fun key => (readU 4) >>- fun ver => (readBody tb (decBody tb (d.length + 1))) >>- fun x =>
    rpure ⟨key, (ver : Int), x.1, x.2.1, x.2.2⟩) d p

def WF (x : VectorStrokeContentSetting) : Prop :=
  x.key.length = 4                                          -- (ii) `4s`
  ∧ StrWF x.name ∧ KeyWF tb x.classID ∧ KeysNodup x.items ∧ WFItems tb x.items       -- the descriptor's own clauses
instance (x : VectorStrokeContentSetting) : Decidable (WF tb x) := by unfold WF; exact inferInstance

def codec (pad : Nat) : PCodec VectorStrokeContentSetting where
  encT := encT tb pad
  Fits := Fits tb
  decFits := inferInstance
  encP := encP tb pad
  dec := dec tb
  consumed x := (bodyT tb x).length
  WF := WF tb
  decWF := inferInstance

end VectorStrokeContentSetting

end PsdVerif.Payload3
