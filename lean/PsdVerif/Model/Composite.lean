/-
Model of `psd_tools/composite/__init__.py` (class `Compositor`, `composite`,
`paste`, `_intersect`) as a per-pixel state machine over exact rationals.

One pixel `(x, y)` is fixed; an array of the Python code is represented by its
value at that pixel, and `paste`/viewport bookkeeping by rectangle tests. A
colour is a function from channel index to value (`Color`); the blend function
`B mode cb cs` is a parameter (instantiated by `Model/Blend` in the driver).

Out of scope (as in the property's quantifier): effects, strokes, vector masks,
fills, adjustment layers.

Core Lean only (Rat is core).
-/
import PsdVerif.Model.Basic

namespace PsdVerif.Composite

abbrev Color := Nat → Rat

structure Rect where
  l : Int
  t : Int
  r : Int
  b : Int
  deriving DecidableEq, Repr

def Rect.zero : Rect := ⟨0, 0, 0, 0⟩

/-- `_intersect(a, b)`; `(0,0,0,0)` is the code's "empty" sentinel. -/
def intersect (a b : Rect) : Rect :=
  let i : Rect := ⟨max a.l b.l, max a.t b.t, min a.r b.r, min a.b b.b⟩
  if i.l ≥ i.r ∨ i.t ≥ i.b then Rect.zero else i

def Rect.contains (r : Rect) (x y : Int) : Bool :=
  decide (r.l ≤ x) && decide (x < r.r) && decide (r.t ≤ y) && decide (y < r.b)

/-- value at pixel `(x,y)` of `paste(viewport, bbox, values, background)`, for a pixel
inside `viewport`: the source value where the intersection covers the pixel, else
the background. -/
def pasteAt {α : Type} (viewport bbox : Rect) (x y : Int) (src : α) (background : α) : α :=
  let inter := intersect viewport bbox
  if inter = Rect.zero then background
  else if inter.contains x y then src else background

/-! ### scalar helpers (`_union`, `_clip`, `_divide`) -/

def union (b s : Rat) : Rat := b + s - b * s

def clip (v : Rat) : Rat := if v < 0 then 0 else if v > 1 then 1 else v

/-- `_divide`: non-finite quotients (x/0) are replaced by 1.0 -/
def divide (a b : Rat) : Rat := if b = 0 then 1 else a / b

/-! ### compositor state at one pixel -/

structure PState where
  c0 : Color      -- _color_0
  a0 : Rat        -- _alpha_0
  sg : Rat        -- _shape_g
  ag : Rat        -- _alpha_g
  c : Color       -- _color
  a : Rat         -- _alpha

/-- `Compositor.__init__` at the pixel: `isolated` zeroes the backdrop alpha (the
backdrop colour is kept as given). -/
def PState.init (color : Color) (alpha : Rat) (isolated : Bool) : PState :=
  let a0 := if isolated then 0 else alpha
  { c0 := color, a0 := a0, sg := 0, ag := 0, c := color, a := a0 }

/-- `Compositor._apply_source` -/
def applySource (blend : Color → Color → Color) (st : PState) (color : Color) (shape alpha : Rat)
    (knockout : Bool) : PState :=
  let sg := union st.sg shape
  let ag := if knockout then (1 - shape) * st.ag + (shape - alpha) * st.a0 + alpha else union st.ag alpha
  let alphaPrev := st.a
  let a := union st.a0 ag
  let alphaB := if knockout then st.a0 else alphaPrev
  let colorB : Color := if knockout then st.c0 else st.c
  let bl := blend colorB color
  let c : Color := fun ch =>
    let colorT := (shape - alpha) * alphaB * colorB ch + alpha * ((1 - alphaB) * color ch + alphaB * bl ch)
    clip (divide ((1 - shape) * alphaPrev * st.c ch + colorT) a)
  { st with sg := sg, ag := ag, c := c, a := a }

/-- `Compositor.color` (the value `finish` returns): backdrop removal -/
def finishColor (st : PState) : Color := fun ch =>
  clip (st.c ch + (st.c ch - st.c0 ch) * (divide st.a0 st.ag - st.a0))

/-! ### layers as seen at the pixel -/

/-- Blend modes are opaque tags here; `B` interprets them. -/
abbrev Mode := Nat

structure Props where
  visible : Bool
  bbox : Rect
  /-- `layer.opacity / 255` -/
  opacity : Rat
  /-- `BLEND_FILL_OPACITY / 255` -/
  fill : Rat
  /-- has an enabled raster mask; then `maskBBox`, `maskValue` (value at the pixel inside the mask's
  bbox), `maskBackground` (`background_color/255`) and `maskDensity` (`density/255`) matter -/
  hasMask : Bool
  maskBBox : Rect
  maskValue : Rat
  maskBackground : Rat
  maskDensity : Rat
  mode : Mode
  knockout : Bool
  /-- `layer.clipping_layer` -/
  clipping : Bool
  /-- `layer._has_clip_target` -/
  hasClipTarget : Bool

/-- A layer tree at the pixel. `clips` are the layers clipped to this base
(`layer.clip_layers`, bottom to top); they also occur in the parent's list, where
`apply` skips them. -/
inductive Node where
  | leaf (pr : Props) (hasPixels : Bool) (color : Color) (shape : Rat) (clips : List Node)
  | group (pr : Props) (passThrough : Bool) (children : List Node) (clips : List Node)

def Node.props : Node → Props
  | .leaf pr .. => pr
  | .group pr .. => pr

def white : Color := fun _ => 1

/-- result of `_get_mask` at the pixel: (shape factor, opacity factor) -/
def maskFactors (pr : Props) (V : Rect) (x y : Int) : Rat × Rat :=
  if pr.hasMask then (pasteAt V pr.maskBBox x y pr.maskValue pr.maskBackground, pr.maskDensity) else (1, 1)

mutual

/-- `Compositor.apply(layer, clip_compositing)` at pixel `(x,y)` of viewport `V`. -/
def applyNode (B : Mode → Color → Color → Color) (V : Rect) (x y : Int) (clipCompositing : Bool)
    (st : PState) : Node → PState
  | .leaf pr hasPixels color shape clips =>
    if !pr.visible then st
    else if intersect V pr.bbox = Rect.zero then st
    else if !clipCompositing && pr.clipping && pr.hasClipTarget then st
    else
      -- _get_object
      let color0 : Color := if hasPixels then pasteAt V pr.bbox x y color white else white
      let shape0 : Rat := if hasPixels then pasteAt V pr.bbox x y shape 0 else 0
      let alpha0 := shape0
      let color1 := if clips.isEmpty then color0 else (applyClips B V x y (PState.init color0 alpha0 false) clips).c
      finishApply B V x y st pr color1 shape0 alpha0
  | .group pr passThrough children clips =>
    if !pr.visible then st
    else if intersect V pr.bbox = Rect.zero then st
    else if !clipCompositing && pr.clipping && pr.hasClipTarget then st
    else
      -- _get_group
      let V' := intersect V pr.bbox
      let colorB : Color := if pr.knockout then st.c0 else st.c
      let alphaB : Rat := if pr.knockout then st.a0 else st.a
      let inside := V'.contains x y
      -- sub-compositor on V' (only pixels of V' exist there); pasted back with background 1 / 0 / 0
      let sub := applyList B V' x y (PState.init colorB alphaB (!passThrough)) children
      let color0 : Color := if inside then finishColor sub else white
      let shape0 : Rat := if inside then sub.sg else 0
      let alpha0 : Rat := if inside then sub.ag else 0
      let color1 := if clips.isEmpty then color0 else (applyClips B V x y (PState.init color0 alpha0 false) clips).c
      finishApply B V x y st pr color1 shape0 alpha0

/-- the loop `for layer in group: compositor.apply(layer)` -/
def applyList (B : Mode → Color → Color → Color) (V : Rect) (x y : Int) (st : PState) : List Node → PState
  | [] => st
  | n :: rest => applyList B V x y (applyNode B V x y false st n) rest

/-- the loop of `_apply_clip_layers`: `compositor.apply(clip_layer, clip_compositing=True)` -/
def applyClips (B : Mode → Color → Color → Color) (V : Rect) (x y : Int) (st : PState) : List Node → PState
  | [] => st
  | n :: rest => applyClips B V x y (applyNode B V x y true st n) rest

/-- the tail of `apply`: mask and constant factors, then `_apply_source` -/
def finishApply (B : Mode → Color → Color → Color) (V : Rect) (x y : Int) (st : PState) (pr : Props)
    (color : Color) (shape alpha : Rat) : PState :=
  let (shapeMask, opacityMask) := maskFactors pr V x y
  let shape1 := shape * shapeMask
  let alpha1 := alpha * (shapeMask * opacityMask * pr.opacity)
  applySource (B pr.mode) st color (shape1 * pr.fill) (alpha1 * pr.fill) pr.knockout

end

/-- `composite(psd)` for a document with layers, at a pixel of `viewport`: backdrop
colour `color`, backdrop alpha `alpha`, not isolated. Returns (color, shape, alpha). -/
def compositeDoc (B : Mode → Color → Color → Color) (V : Rect) (x y : Int) (color : Color) (alpha : Rat)
    (layers : List Node) : Color × Rat × Rat :=
  let st := applyList B V x y (PState.init color alpha false) layers
  (finishColor st, st.sg, st.ag)

end PsdVerif.Composite
