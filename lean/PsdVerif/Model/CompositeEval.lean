/-
Evaluator for the compositor model (`Model/Composite.lean`) used by the driver.

`Color := Nat → Rat` makes `applySource` build a closure that calls the previous
colour closure three times per channel, so evaluating a stack of `k` sources
directly costs `3^k` rational operations.  The functions below are the model's
functions with the state's colours TABULATED (first `n` channels copied into an
array, every other channel still answered by the original closure) after each
step.  Tabulation is the identity on colours (`lookup_tab`), so the evaluator is
EQUAL to the model for every `n` — proved in `Lemmas/CompositeEval.lean`
(`compositeDocF_eq`), restated in `Props/C11.lean` (`evaluator_is_model`).

Core Lean only.
-/
import PsdVerif.Model.Composite

namespace PsdVerif.Composite

/-- the first `n` channels of a colour -/
def tab (n : Nat) (c : Color) : Array Rat := Array.ofFn (n := n) (fun i => c i.val)

/-- a colour answered from a table where the table has an entry, by `c` elsewhere -/
def lookup (arr : Array Rat) (c : Color) : Color :=
  fun i => if h : i < arr.size then arr[i] else c i

/-- tabulate both colours of a state (a function into a structure: the tables are built once,
when the state is built) -/
def fzState (n : Nat) (st : PState) : PState :=
  let a := tab n st.c
  let a0 := tab n st.c0
  { st with c := lookup a st.c, c0 := lookup a0 st.c0 }

mutual

def applyNodeF (n : Nat) (B : Mode → Color → Color → Color) (V : Rect) (x y : Int) (clipCompositing : Bool)
    (st : PState) : Node → PState
  | .leaf pr hasPixels color shape clips =>
    if !pr.visible then st
    else if intersect V pr.bbox = Rect.zero then st
    else if !clipCompositing && pr.clipping && pr.hasClipTarget then st
    else
      let color0 : Color := if hasPixels then pasteAt V pr.bbox x y color white else white
      let shape0 : Rat := if hasPixels then pasteAt V pr.bbox x y shape 0 else 0
      let alpha0 := shape0
      let color1 := if clips.isEmpty then color0
        else (applyClipsF n B V x y (fzState n (PState.init color0 alpha0 false)) clips).c
      fzState n (finishApply B V x y st pr color1 shape0 alpha0)
  | .group pr passThrough children clips =>
    if !pr.visible then st
    else if intersect V pr.bbox = Rect.zero then st
    else if !clipCompositing && pr.clipping && pr.hasClipTarget then st
    else
      let V' := intersect V pr.bbox
      let colorB : Color := if pr.knockout then st.c0 else st.c
      let alphaB : Rat := if pr.knockout then st.a0 else st.a
      let inside := V'.contains x y
      let sub := applyListF n B V' x y (fzState n (PState.init colorB alphaB (!passThrough))) children
      let color0 : Color := if inside then finishColor sub else white
      let shape0 : Rat := if inside then sub.sg else 0
      let alpha0 : Rat := if inside then sub.ag else 0
      let color1 := if clips.isEmpty then color0
        else (applyClipsF n B V x y (fzState n (PState.init color0 alpha0 false)) clips).c
      fzState n (finishApply B V x y st pr color1 shape0 alpha0)

def applyListF (n : Nat) (B : Mode → Color → Color → Color) (V : Rect) (x y : Int) (st : PState) : List Node → PState
  | [] => st
  | nd :: rest => applyListF n B V x y (applyNodeF n B V x y false st nd) rest

def applyClipsF (n : Nat) (B : Mode → Color → Color → Color) (V : Rect) (x y : Int) (st : PState) : List Node → PState
  | [] => st
  | nd :: rest => applyClipsF n B V x y (applyNodeF n B V x y true st nd) rest

end

/-- `compositeDoc` through the tabulating evaluator -/
def compositeDocF (n : Nat) (B : Mode → Color → Color → Color) (V : Rect) (x y : Int) (color : Color) (alpha : Rat)
    (layers : List Node) : Color × Rat × Rat :=
  let st := applyListF n B V x y (fzState n (PState.init color alpha false)) layers
  (finishColor st, st.sg, st.ag)

end PsdVerif.Composite
