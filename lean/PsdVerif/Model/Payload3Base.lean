/-
C01 payload classes, third batch (image resources, adjustments, vector data, filter effects) — common vocabulary.

* `struct` formats as data: a format is a list of items `FI` (a filler `nx` or a value field `FT`: unsigned / signed
  integer of a width, `?`, `ns`), a row of values is a `List FV` (Python `int` | `bytes`). `fmtT` is
  `struct.pack(">" + fmt, *values)`, `fmtFits` says that `struct.pack` accepts the values (right number of arguments,
  right type, every integer in range: otherwise `struct.error`), `fmtDec` is `read_fmt(fmt, fp)`.
  `f` and `d` are carried as their 32- / 64-bit patterns (`u 4` / `u 8`): `struct.pack` is a bijection between the
  values of the on-disk type and the patterns; the conversion Python float <-> pattern is the harness's.
  `parseFmt` reads a Python format string (`"3HBx"`) into the list: the formats of the models are tied to the strings
  the extractor finds in the source (`*_formats_tied` in Props/C01Payload3.lean).
* combinators on `PCodec` (Model/PayloadBase.lean) for the shapes that recur: `rec` (one `write_fmt` / `read_fmt`),
  `seq`, `counted` (a count field, then the items), `exactly` (`for _ in range(n)`), `whileR`
  (`while is_readable(fp, n)`, with the writer's final `write_padding`), `padded`, `checked` (validators that run in the
  constructor, after everything was read), `tailBytes` (`fp.read()`), `pascal`, `ustr`.

Core Lean only.
-/
import PsdVerif.Model.PayloadBase
import PsdVerif.Model.PayloadSimple

namespace PsdVerif.Payload3
open PsdVerif PsdVerif.Codec PsdVerif.Payload

/-! ### struct formats -/

/-- a value field of a `struct` format -/
inductive FT where
  | u (w : Nat)        -- `B` `H` `I` `Q`; `f` / `d` as their patterns
  | s (w : Nat)        -- `b` `h` `i` `q`
  | q                  -- `?`
  | str (n : Nat)      -- `ns`
  deriving DecidableEq, Repr

/-- an item of a `struct` format -/
inductive FI where
  | pad (n : Nat)      -- `nx`
  | fld (t : FT)
  deriving DecidableEq, Repr

/-- an argument of `struct.pack` / a result of `struct.unpack` -/
inductive FV where
  | int (z : Int)
  | bytes (b : B)
  deriving DecidableEq, Repr

abbrev Row := List FV

def U (w : Nat) : FI := .fld (.u w)
def S (w : Nat) : FI := .fld (.s w)
def Q : FI := .fld .q
def SN (n : Nat) : FI := .fld (.str n)
def X (n : Nat) : FI := .pad n

/-- `struct.pack("ns", b)`: truncated or zero-filled to `n` bytes -/
def packS (n : Nat) (b : B) : B := (b ++ zeros n).take n

def FT.size : FT → Nat
  | .u w => w
  | .s w => w
  | .q => 1
  | .str n => n

def FT.encT : FT → FV → B
  | .u w, .int z => beBytes w z.toNat
  | .s w, .int z => sT w z
  | .q, .int z => boolT (z != 0)
  | .str n, .bytes b => packS n b
  | _, _ => []

/-- `struct.pack` accepts the argument for this field -/
def FT.Fits : FT → FV → Prop
  | .u w, .int z => 0 ≤ z ∧ z.toNat < 256 ^ w
  | .s w, .int z => FitsS w z
  | .q, .int _ => True
  | .str _, .bytes _ => True
  | _, _ => False

instance (t : FT) (v : FV) : Decidable (t.Fits v) := by
  cases t <;> cases v <;> simp only [FT.Fits] <;> exact inferInstance

/-- what the reader returns is what was written: a `bool` for `?` (`True == 1`), all `n` bytes for `ns` -/
def FT.WF : FT → FV → Prop
  | .q, .int z => z = 0 ∨ z = 1          -- the attribute is a `bool`
  | .str n, .bytes b => b.length = n      -- (ii) the field has `n` bytes
  | _, _ => True

instance (t : FT) (v : FV) : Decidable (t.WF v) := by
  cases t <;> cases v <;> simp only [FT.WF] <;> exact inferInstance

def FT.dec : FT → R FV
  | .u w => fun d p =>
    match readU w d p with
    | .ok (n, p') => .ok (.int n, p')
    | .error e => .error e
  | .s w => fun d p =>
    match readS w d p with
    | .ok (z, p') => .ok (.int z, p')
    | .error e => .error e
  | .q => fun d p =>
    match readBool d p with
    | .ok (b, p') => .ok (.int (if b then 1 else 0), p')
    | .error e => .error e
  | .str n => fun d p =>
    match readN n d p with
    | .ok (b, p') => .ok (.bytes b, p')
    | .error e => .error e

/-- the widths `struct` has for signed integers -/
def FT.ok : FT → Bool
  | .s w => w == 1 || w == 2 || w == 4 || w == 8
  | _ => true

def FI.ok : FI → Bool
  | .pad _ => true
  | .fld t => t.ok

/-- `struct.calcsize(">" + fmt)` -/
def fmtSize : List FI → Nat
  | [] => 0
  | .pad n :: fs => n + fmtSize fs
  | .fld t :: fs => t.size + fmtSize fs

/-- `struct.pack(">" + fmt, *vs)` when it succeeds -/
def fmtT : List FI → Row → B
  | [], _ => []
  | .pad n :: fs, vs => zeros n ++ fmtT fs vs
  | .fld t :: fs, v :: vs => t.encT v ++ fmtT fs vs
  | .fld _ :: _, [] => []

/-- `struct.pack` raises nothing: as many arguments as value fields, each accepted by its field -/
def fmtFits : List FI → Row → Prop
  | [], vs => vs = []
  | .pad _ :: fs, vs => fmtFits fs vs
  | .fld t :: fs, v :: vs => t.Fits v ∧ fmtFits fs vs
  | .fld _ :: _, [] => False

def fmtFits.dec : (fs : List FI) → (vs : Row) → Decidable (fmtFits fs vs)
  | [], vs => by unfold fmtFits; exact inferInstance
  | .pad _ :: fs, vs => by unfold fmtFits; exact fmtFits.dec fs vs
  | .fld t :: fs, v :: vs => by
    unfold fmtFits
    exact @instDecidableAnd _ _ inferInstance (fmtFits.dec fs vs)
  | .fld _ :: _, [] => by unfold fmtFits; exact inferInstance

instance (fs : List FI) (vs : Row) : Decidable (fmtFits fs vs) := fmtFits.dec fs vs

def fmtWF : List FI → Row → Prop
  | [], _ => True
  | .pad _ :: fs, vs => fmtWF fs vs
  | .fld t :: fs, v :: vs => t.WF v ∧ fmtWF fs vs
  | .fld _ :: _, [] => True

def fmtWF.dec : (fs : List FI) → (vs : Row) → Decidable (fmtWF fs vs)
  | [], _ => by unfold fmtWF; exact inferInstance
  | .pad _ :: fs, vs => by unfold fmtWF; exact fmtWF.dec fs vs
  | .fld t :: fs, v :: vs => by
    unfold fmtWF
    exact @instDecidableAnd _ _ inferInstance (fmtWF.dec fs vs)
  | .fld _ :: _, [] => by unfold fmtWF; exact inferInstance

instance (fs : List FI) (vs : Row) : Decidable (fmtWF fs vs) := fmtWF.dec fs vs

/-- `read_fmt(fmt, fp)`: all the bytes of the format or `IOError` -/
def fmtDec : List FI → R Row
  | [] => fun _ p => .ok ([], p)
  | .pad n :: fs => fun d p =>
    match readSkip n d p with
    | .ok (_, p') => fmtDec fs d p'
    | .error e => .error e
  | .fld t :: fs => fun d p =>
    match t.dec d p with
    | .ok (v, p') =>
      (match fmtDec fs d p' with
       | .ok (vs, p'') => .ok (v :: vs, p'')
       | .error e => .error e)
    | .error e => .error e

/-! ### Python format strings -/

/-- one format character with its repeat count -/
def fmtChar (n : Nat) (c : Char) : Option (List FI) :=
  match c with
  | 'x' => some [X n]
  | 's' => some [SN n]
  | 'B' => some (List.replicate n (U 1))
  | 'H' => some (List.replicate n (U 2))
  | 'I' => some (List.replicate n (U 4))
  | 'Q' => some (List.replicate n (U 8))
  | 'f' => some (List.replicate n (U 4))
  | 'd' => some (List.replicate n (U 8))
  | 'b' => some (List.replicate n (S 1))
  | 'h' => some (List.replicate n (S 2))
  | 'i' => some (List.replicate n (S 4))
  | 'q' => some (List.replicate n (S 8))
  | '?' => some (List.replicate n Q)
  | _ => none

def parseFmtAux : List Char → Option Nat → Option (List FI)
  | [], none => some []
  | [], some _ => none
  | c :: cs, cnt =>
    if c.isDigit then parseFmtAux cs (some (cnt.getD 0 * 10 + (c.toNat - '0'.toNat)))
    else
      match fmtChar (cnt.getD 1) c, parseFmtAux cs none with
      | some a, some b => some (a ++ b)
      | _, _ => none

/-- `"3HBx"` ↦ `[U 2, U 2, U 2, U 1, X 1]` -/
def parseFmt (s : String) : Option (List FI) := parseFmtAux s.toList none

/-- the concatenation of several formats (a class that calls `write_fmt` several times in a row) -/
def parseFmts : List String → Option (List FI)
  | [] => some []
  | s :: ss =>
    match parseFmt s, parseFmts ss with
    | some a, some b => some (a ++ b)
    | _, _ => none

/-! ### combinators -/

/-- one `write_fmt(fp, fmt, *row)` / `read_fmt(fmt, fp)` -/
def rec (fs : List FI) : PCodec Row where
  encT := fmtT fs
  Fits := fmtFits fs
  decFits := inferInstance
  encP v := wBytes (fmtT fs v)
  dec := fmtDec fs
  consumed _ := fmtSize fs
  WF := fmtWF fs
  decWF := inferInstance

/-- `a` then `b` -/
def seq {α β : Type} (a : PCodec α) (b : PCodec β) : PCodec (α × β) where
  encT v := a.encT v.1 ++ b.encT v.2
  Fits v := a.Fits v.1 ∧ b.Fits v.2
  decFits _ := inferInstance
  encP v := a.encP v.1 +> b.encP v.2
  dec := fun d p => do
    let (x, p) ← a.dec d p
    let (y, p) ← b.dec d p
    .ok ((x, y), p)
  consumed v := (a.encT v.1).length + b.consumed v.2
  WF v := a.WF v.1 ∧ b.WF v.2
  decWF _ := inferInstance

/-- `write_fmt(fp, fmt_of_width_w, len(items))`, then the items; `count = read_fmt(...)`, `for _ in range(count)` -/
def counted {α : Type} (w : Nat) (c : PCodec α) : PCodec (List α) where
  encT vs := beBytes w vs.length ++ listT c.encT vs
  Fits vs := FitsU w vs.length ∧ listFits c.Fits vs
  decFits _ := inferInstance
  encP vs := wBytes (beBytes w vs.length) +> wList c.encP vs
  dec := fun d p => do
    let (n, p) ← readU w d p
    readCount c.dec n d p
  consumed vs := w + (listT c.encT vs).length
  WF vs := ∀ v ∈ vs, c.WF v
  decWF _ := inferInstance

/-- the writer writes every item it has, the reader reads exactly `n` (`for _ in range(n)`) -/
def exactly {α : Type} (n : Nat) (c : PCodec α) : PCodec (List α) where
  encT vs := listT c.encT vs
  Fits vs := listFits c.Fits vs
  decFits _ := inferInstance
  encP vs := wList c.encP vs
  dec := readCount c.dec n
  consumed vs := (listT c.encT vs).length
  WF vs := vs.length = n ∧ ∀ v ∈ vs, c.WF v          -- (iii) the format fixes the number of items
  decWF _ := inferInstance

/-- `while is_readable(fp, n): items.append(item.read(fp))` / every item, then `write_padding(fp, written, pad)`
(`pad = 1`: no filler) -/
def whileR {α : Type} (n pad : Nat) (c : PCodec α) : PCodec (List α) where
  encT vs := listT c.encT vs ++ zeros (padAmount (listT c.encT vs).length pad)
  Fits vs := listFits c.Fits vs
  decFits _ := inferInstance
  encP vs :=
    let written := wList c.encP vs
    written +> wPad written.2 pad
  dec := readWhile (isReadable n) (optItem c.dec)
  consumed vs := (listT c.encT vs).length
  WF vs := ∀ v ∈ vs, c.WF v
  decWF _ := inferInstance

/-- `written += write_padding(fp, written, pad)` at the end of `write`; no reader of a payload consumes that filler -/
def padded {α : Type} (pad : Nat) (c : PCodec α) : PCodec α where
  encT v := c.encT v ++ zeros (padAmount (c.encT v).length pad)
  Fits := c.Fits
  decFits := c.decFits
  encP v :=
    let written := c.encP v
    written +> wPad written.2 pad
  dec := c.dec
  consumed := c.consumed
  WF := c.WF
  decWF := c.decWF

/-- validators / converters that run in the constructor, after every field was read: `e` when `ok` fails -/
def checked {α : Type} (c : PCodec α) (ok : α → Prop) [DecidablePred ok] (e : Err) : PCodec α where
  encT := c.encT
  Fits := c.Fits
  decFits := c.decFits
  encP := c.encP
  dec := fun d p => do
    let (v, p) ← c.dec d p
    if ok v then .ok (v, p) else .error e
  consumed := c.consumed
  WF v := c.WF v ∧ ok v                                 -- (i)
  decWF _ := @instDecidableAnd _ _ (c.decWF _) inferInstance

/-- `fp.read()`: everything that is left / `write_bytes(fp, value)` -/
def tailBytes : PCodec B where
  encT v := v
  Fits _ := True
  decFits _ := inferInstanceAs (Decidable True)
  encP v := wBytes v
  dec := readAll
  consumed v := v.length
  WF _ := True
  decWF _ := inferInstanceAs (Decidable True)

/-- `write_pascal_string(fp, s, enc, padding=pw)` / `read_pascal_string(fp, enc, padding=pr)`; the string is its
encoded bytes (the text encoding is C19's). Read with another padding than written, the reader's `read_padding` is
lenient: at the end of a stream it takes nothing. -/
def pascal (pw pr : Nat) : PCodec B where
  encT s := pascalT pw s
  Fits s := s.length < 256
  decFits _ := inferInstance
  encP s := wPascal pw s
  dec := readPascal pr
  consumed s := (pascalT pw s).length
  WF _ := True
  decWF _ := inferInstanceAs (Decidable True)

/-- `write_unicode_string(fp, s)` / `read_unicode_string(fp)` with the default padding 1 on both sides -/
def ustr : PCodec Payload.Str := StringElement.codec 1 1

/-- an optional value in the token form of the drivers -/
def optT {α : Type} (f : α → B) : Option α → B
  | none => []
  | some v => f v

def optP {α : Type} (f : α → W) : Option α → W
  | none => wNil
  | some v => f v

def optFits {α : Type} (P : α → Prop) : Option α → Prop
  | none => True
  | some v => P v

instance {α : Type} (P : α → Prop) [DecidablePred P] (o : Option α) : Decidable (optFits P o) := by
  cases o <;> simp only [optFits] <;> exact inferInstance


/-- `write_length_block(fp, c.write, fmt, padding=pad)` (length field of `w` bytes) /
`with io.BytesIO(read_length_block(fp, fmt, padding=pad)) as f: c.read(f)` -/
def blocked {α : Type} (w pad : Nat) (c : PCodec α) : PCodec α where
  encT v := lenBlockT 0 w pad (c.encT v)
  Fits v := c.Fits v ∧ FitsU w (c.encT v).length
  decFits _ := @instDecidableAnd _ _ (c.decFits _) inferInstance
  encP v := wLenBlock 0 w pad (c.encP v)
  dec := fun d p => do
    let (data, p) ← readLenBlock 0 w pad d p
    let (v, _) ← c.dec data 0
    .ok (v, p)
  consumed v := (lenBlockT 0 w pad (c.encT v)).length
  WF := c.WF
  decWF := c.decWF

/-- `if self.x is not None: self.x.write(fp)` at the end of `write` / `c.read(fp) if is_readable(fp) else None` -/
def optTail {α : Type} (c : PCodec α) : PCodec (Option α) where
  encT := optT c.encT
  Fits := optFits c.Fits
  decFits o := by cases o <;> simp only [optFits] <;> first | exact inferInstance | exact c.decFits _
  encP := optP c.encP
  dec := fun d p =>
    if isReadable 1 d p then
      match c.dec d p with
      | .ok (v, p') => .ok (some v, p')
      | .error e => .error e
    else .ok (none, p)
  consumed o := (optT c.encT o).length
  WF := optFits c.WF
  decWF o := by cases o <;> simp only [optFits] <;> first | exact inferInstance | exact c.decWF _

/-- integers of a row, for the `WF` clauses that look at a field (`version`, a count) -/
def FV.toInt : FV → Int
  | .int z => z
  | .bytes _ => 0

def Row.int (r : Row) (i : Nat) : Int := (r.getD i (.int 0)).toInt

end PsdVerif.Payload3
