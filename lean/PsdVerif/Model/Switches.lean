/-
C20 — process-wide state that belongs to SOMEBODY ELSE.

`harness/extract_c20.py` regenerates, beside the table of psd_tools' own cells
(`Generated/Globals.lean`), the list of places where src/psd_tools flips a
process-wide switch of the standard library or of a third-party module
(`attr.validators.set_disabled`, `logging.disable`, `warnings.simplefilter`,
`np.seterr`, `sys.setrecursionlimit`, `os.environ[...] = …`,
`PIL.Image.MAX_IMAGE_PIXELS = …`, monkey-patching an imported module …)
(`Generated/Switches.lean`).

A site is harmless when it runs at import time only (the same for every
history: the import happens once, before any document) or when it is *scoped*:
the `with` item of a restoring context manager (`np.errstate`,
`warnings.catch_warnings`, `decimal.localcontext`, `attr.validators.disabled`)
or a `warnings.*` call lexically inside `with warnings.catch_warnings():` — the
switch has its old value again when the operation returns, so in the
before/after semantics of `Model/Globals.lean` (`Op.run : store → store`) the
operation does not write it.

Core Lean only.
-/
import PsdVerif.Model.Globals

namespace PsdVerif.Switches
open PsdVerif.Globals

structure Site where
  /-- `module:line` -/
  site : String
  /-- dotted name of what is called / assigned, e.g. `attr.validators.set_disabled` -/
  callee : String
  /-- inside a function body (runs after import, possibly once per document) -/
  atRuntime : Bool
  /-- restored before the enclosing operation returns -/
  restored : Bool
  deriving Repr

/-- the switch is left changed by code that runs after import -/
def Site.written (s : Site) : Bool := s.atRuntime && !s.restored

def Site.clean (s : Site) : Bool := !s.written

end PsdVerif.Switches
