/-
The published compositing model (`Model/CompositeSpec.lean`: Porter–Duff / PDF 1.7 §11.3–11.4, premultiplied,
no clamp, no guarded division) extended to effect-carrying layer trees (`Model/CompositeFx.lean`).

The published model knows objects, groups and soft masks; this file says what a Photoshop layer with a fill,
a vector mask, a vector stroke or layer effects DENOTES in that vocabulary (it uses none of `applySource`,
`finishColor`, `finishFx`, `strokeObject`, `applyFxNode` …):

* a fill layer is an object whose colour and shape are what is drawn for the fill;
* a vector mask is one more soft-mask factor on shape and alpha;
* an overlay effect is ONE MORE ELEMENT of the group the layer is in, painted right after the layer, with the
  effect's colour and blend mode, shape `f·e` and alpha `α·e·q` where `(f, α)` are the layer's shape and alpha
  after masks and layer opacity (fill opacity does not enter) and `e`, `q` the effect's own shape and opacity;
* a stroke effect is one more element with the drawn shape `s` and alpha `s·q·o` (`o`: the layer opacity);
* the vector stroke of a shape is a non-isolated group over the object (backdrop = the object's colour and alpha)
  holding the stroke as its only element; the group's colour with the backdrop removed (§11.4.8) becomes the
  object's colour, the object keeps its shape and alpha;
* an adjustment layer denotes nothing.

Core Lean only.
-/
import PsdVerif.Model.CompositeSpec
import PsdVerif.Model.CompositeFx

namespace PsdVerif.Composite

def specOverlays (k : KoRule) (B : Mode → Color → Color → Color) (V bbox : Rect) (x y : Int) (fs αs : Rat)
    (σ : SState) : List Overlay → SState
  | [] => σ
  | e :: es =>
    let se := overlayShape V bbox x y e
    let a := αs * se * e.opacity
    specOverlays k B V bbox x y fs αs
      (specSource k (B e.mode) σ (fun ch => a * pasteAt V bbox x y e.color white ch) (fs * se) a false) es

def specStrokeFx (k : KoRule) (B : Mode → Color → Color → Color) (V bbox : Rect) (x y : Int) (lop : Rat) (σ : SState) :
    List StrokeFx → SState
  | [] => σ
  | s :: ss =>
    let sh := pasteAt V bbox x y (s.shape V) 0
    let a := sh * (s.opacity * lop)
    specStrokeFx k B V bbox x y lop
      (specSource k (B s.mode) σ (fun ch => a * pasteAt V bbox x y s.color black ch) sh a false) ss

/-- an object `(Pj, fj, aj)` with effects enters its parent's group as the element `specFinish` describes (with the
vector mask among the factors), followed by one element per overlay effect and per stroke effect -/
def specFinishFx (k : KoRule) (B : Mode → Color → Color → Color) (force : Bool) (V : Rect) (x y : Int) (σ : SState)
    (pr : Props) (fx : Fx) (Pj : Color) (fj aj : Rat) : SState :=
  let m := maskFactorsFx force pr fx V x y
  let f1 := fj * m.1
  let a1 := aj * (m.1 * m.2 * pr.opacity)
  let σ1 := specSource k (B pr.mode) σ (fun ch => (m.1 * m.2 * pr.opacity * pr.fill) * Pj ch) (f1 * pr.fill) (a1 * pr.fill)
    pr.knockout
  specStrokeFx k B V pr.bbox x y pr.opacity (specOverlays k B V pr.bbox x y f1 a1 σ1 fx.overlays) fx.strokeFx

/-- the vector stroke: a non-isolated group over the object `(Pj, aj)` with the stroke as its only element; where
the stroke paints something (`αg ≠ 0`) the object's colour becomes the group colour with the backdrop removed,
`Pg/αg`, re-premultiplied by the object's own alpha -/
def specStrokeObject (k : KoRule) (B : Mode → Color → Color → Color) (V : Rect) (x y : Int) (Pj : Color) (aj : Rat) :
    Option VStroke → Color
  | none => Pj
  | some s =>
    let sh := pasteAt V s.canvas x y s.shape 0
    let αs := sh * s.opacity
    let sub := specSource k (B s.mode) (SState.init Pj aj false)
      (fun ch => αs * pasteAt V s.box x y s.color white ch) sh αs false
    if sub.ag = 0 then Pj else fun ch => aj * (groupColor sub ch / sub.ag)

mutual

def specFxNode (k : KoRule) (B : Mode → Color → Color → Color) (force : Bool) (V : Rect) (x y : Int) (inClipRun : Bool)
    (σ : SState) : FxNode → SState
  | .adjustment _ => σ
  | .leaf pr fx src stroke clips =>
    if !pr.visible then σ
    else if intersect V pr.bbox = Rect.zero then σ
    else if !inClipRun && pr.clipping && pr.hasClipTarget then σ
    else
      let color0 := leafColor force V x y pr fx src
      let aj := leafShape force V x y pr fx src
      let Pj : Color := fun ch => aj * color0 ch
      let Pj' := if clips.isEmpty then Pj
        else clipGroupColor (specFxClips k B force V x y (SState.init Pj aj false) clips) aj
      let Pj'' := specStrokeObject k B V x y Pj' aj stroke
      specFinishFx k B force V x y σ pr fx Pj'' aj aj
  | .group pr fx passThrough children clips =>
    if !pr.visible then σ
    else if intersect V pr.bbox = Rect.zero then σ
    else if !inClipRun && pr.clipping && pr.hasClipTarget then σ
    else
      let V' := intersect V pr.bbox
      let Pb : Color := if pr.knockout then σ.P0 else σ.P
      let αb : Rat := if pr.knockout then σ.a0 else σ.a
      let inside := V'.contains x y
      let sub := specFxList k B force V' x y (SState.init Pb αb (!passThrough)) children
      let Pj : Color := if inside then groupColor sub else fun _ => 0
      let fj : Rat := if inside then sub.sg else 0
      let aj : Rat := if inside then sub.ag else 0
      let Pj' := if clips.isEmpty then Pj
        else clipGroupColor (specFxClips k B force V x y (SState.init Pj aj false) clips) aj
      specFinishFx k B force V x y σ pr fx Pj' fj aj

def specFxList (k : KoRule) (B : Mode → Color → Color → Color) (force : Bool) (V : Rect) (x y : Int) (σ : SState) :
    List FxNode → SState
  | [] => σ
  | n :: rest => specFxList k B force V x y (specFxNode k B force V x y false σ n) rest

def specFxClips (k : KoRule) (B : Mode → Color → Color → Color) (force : Bool) (V : Rect) (x y : Int) (σ : SState) :
    List FxNode → SState
  | [] => σ
  | n :: rest => specFxClips k B force V x y (specFxNode k B force V x y true σ n) rest

end

def specFxDoc (k : KoRule) (B : Mode → Color → Color → Color) (force : Bool) (V : Rect) (x y : Int) (P : Color)
    (alpha : Rat) (layers : List FxNode) : Color × Rat × Rat :=
  let σ := specFxList k B force V x y (SState.init P alpha false) layers
  (groupColor σ, σ.sg, σ.ag)

end PsdVerif.Composite
