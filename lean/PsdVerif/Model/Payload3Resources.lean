/-
C01 payload classes, unit 7: the payloads of image resources (psd/image_resources.py) - every class registered in
`image_resources.TYPES` and the classes they are made of. One `PCodec` per class; the flat ones are instances of the
combinators of Model/Payload3Base.lean, beside each definition the Python it transliterates.

  @register classes   AlphaIdentifiers `I`* . AlphaNamesPascal pascal* . AlphaNamesUnicode unicode* . DisplayInfo `I` AlphaChannel*
                      (`6H` `B`) . Byte `B` . GridGuidesInfo `4I` (`IB`)* . HalftoneScreens HalftoneScreen* (`I` `H` `i` `H4x2?`) .
                      Integer `i` . LayerGroupEnabledIDs `B`* . LayerGroupInfo `H`* . LayerSelectionIDs `H` `I`* . ShortInteger `H` .
                      PascalString . PixelAspectRatio `Id` . PrintFlags `8?` [`?`] . PrintFlagsInfo `HBxIH` . PrintScale `H3f` .
                      ResoulutionInfo `I2HI2H` . Slices / SlicesV6 / SliceV6 . ThumbnailResource(V4) `6I2H` data .
                      TransferFunctions TransferFunction* (`13H` `H`) . URLList `I` URLItem* (`2I` unicode) . VersionInfo
  TYPES.update        Color . DescriptorBlock (10 keys) . StringElement (3 keys): the codecs of Model/PayloadSimple.lean and
                      Model/Descriptor.lean; `ImageResource.write` passes `padding=1`, `frombytes` reads with the default.

Fixed-point fields (`HalftoneScreen.freq` / `.angle`: 16.16) are the stored integers here: the reader's `float(n) / 0x10000`
and the writer's `int(x * 0x10000)` are inverse to each other on the multiples of 2^-16 (a width clause, like an integer out
of range); `f` / `d` fields are their patterns.
WF tags: (i) validator / converter . (ii) on-disk width . (iii) format consistency . (F) forced by the proof.
Core Lean only.
-/
import PsdVerif.Model.Payload3Base
import PsdVerif.Model.Descriptor
import PsdVerif.Generated.Payload3

namespace PsdVerif.Payload3
open PsdVerif PsdVerif.Codec PsdVerif.Payload

namespace G3
export PsdVerif.Generated.Payload3 (alphaChannelModes printScaleStyles slicesVersions)
end G3

/-! ## the flat classes -/

/-- `AlphaIdentifiers`: `while is_readable(fp, 4): read_fmt("I")` / `sum(write_fmt(fp, "I", item) ...)` -/
def AlphaIdentifiers.codec : PCodec (List Row) := whileR 4 1 (rec [U 4])

/-- `AlphaNamesPascal`: `while is_readable(fp): read_pascal_string(fp, "macroman", padding=1)` -/
def AlphaNamesPascal.codec : PCodec (List B) := whileR 1 1 (pascal 1 1)

/-- `AlphaNamesUnicode`: `while is_readable(fp): read_unicode_string(fp)` -/
def AlphaNamesUnicode.codec : PCodec (List Payload.Str) := whileR 1 1 ustr

def AlphaChannel.fmt : List FI := [U 2, U 2, U 2, U 2, U 2, U 2, U 1]

/-- `AlphaChannel`: `read_fmt("6H")`, then `AlphaChannelMode(read_fmt("B")[0])` (ValueError for an unknown mode) -/
def AlphaChannel.codec : PCodec Row :=
  checked (rec AlphaChannel.fmt) (fun r => (r.int 6).toNat ∈ G3.alphaChannelModes) .valueError

/-- `DisplayInfo`: `I`, then `while is_readable(fp, 13): AlphaChannel.read(fp)` -/
def DisplayInfo.codec : PCodec (Row × List Row) := seq (rec [U 4]) (whileR 13 1 AlphaChannel.codec)

/-- `Byte` (image_resources): `B`, no filler, no fallback -/
def Byte.codec : PCodec Row := rec [U 1]

/-- `GridGuidesInfo`: `4I` (version, horizontal, vertical, count), then `IB` per guide -/
def GridGuidesInfo.codec : PCodec (Row × List Row) := seq (rec [U 4, U 4, U 4]) (counted 4 (rec [U 4, U 1]))

/-- `HalftoneScreen`: `I` (freq, 16.16), `H`, `i` (angle, 16.16), `H4x2?` -/
def HalftoneScreen.fmt : List FI := [U 4, U 2, S 4, U 2, X 4, Q, Q]
def HalftoneScreen.codec : PCodec Row := rec HalftoneScreen.fmt

/-- `HalftoneScreens`: `while is_readable(fp, 18)` -/
def HalftoneScreens.codec : PCodec (List Row) := whileR 18 1 HalftoneScreen.codec

/-- `Integer` (image_resources): `i` -/
def Integer.codec : PCodec Row := rec [S 4]

/-- `LayerGroupEnabledIDs`: `while is_readable(fp, 1): read_fmt("B")` -/
def LayerGroupEnabledIDs.codec : PCodec (List Row) := whileR 1 1 (rec [U 1])

/-- `LayerGroupInfo`: `while is_readable(fp, 2): read_fmt("H")` -/
def LayerGroupInfo.codec : PCodec (List Row) := whileR 2 1 (rec [U 2])

/-- `LayerSelectionIDs`: `H` count, then `I` per id -/
def LayerSelectionIDs.codec : PCodec (List Row) := counted 2 (rec [U 4])

/-- `ShortInteger` (image_resources): `H` -/
def ShortInteger.codec : PCodec Row := rec [U 2]

/-- `PascalString`: `write_pascal_string(fp, value, "macroman", padding=1)` / `read_pascal_string(fp, "macroman")` (padding 2:
lenient, at the end of the resource it finds nothing to take) -/
def PascalString.codec : PCodec B := pascal 1 2

/-- `PixelAspectRatio`: `Id` (version, value) -/
def PixelAspectRatio.codec : PCodec Row := rec [U 4, U 8]

/-- `PrintFlagsInfo`: `HBxIH` -/
def PrintFlagsInfo.codec : PCodec Row := rec [U 2, U 1, X 1, U 4, U 2]

/-- `PrintScale`: `H3f`; the converter `PrintScaleStyle` runs in the constructor -/
def PrintScale.codec : PCodec Row :=
  checked (rec [U 2, U 4, U 4, U 4]) (fun r => (r.int 0).toNat ∈ G3.printScaleStyles) .valueError

/-- `ResoulutionInfo`: `I2HI2H` -/
def ResolutionInfo.codec : PCodec Row := rec [U 4, U 2, U 2, U 4, U 2, U 2]

def TransferFunction.curveFmt : List FI := List.replicate 13 (U 2)

/-- `TransferFunction`: `13H` (curve), `H` (override) -/
def TransferFunction.codec : PCodec (Row × Row) := seq (rec TransferFunction.curveFmt) (rec [U 2])

/-- `TransferFunctions`: `while is_readable(fp, 28)` -/
def TransferFunctions.codec : PCodec (List (Row × Row)) := whileR 28 1 TransferFunction.codec

/-- `URLItem`: `2I` (number, id), unicode name -/
def URLItem.codec : PCodec (Row × Payload.Str) := seq (rec [U 4, U 4]) ustr

/-- `URLList`: `I` count, then the items -/
def URLList.codec : PCodec (List (Row × Payload.Str)) := counted 4 URLItem.codec

/-- `VersionInfo`: `I?` (version, has_composite), writer, reader (unicode), `I` (file_version) -/
def VersionInfo.codec : PCodec (Row × Payload.Str × Payload.Str × Row) := seq (rec [U 4, Q]) (seq ustr (seq ustr (rec [U 4])))

/-! ## PrintFlags -/

structure PrintFlags where
  flags : Row                   -- the eight named flags
  printFlags : Option Row       -- `print_flags` (`None`: "not existing for old versions")
  deriving DecidableEq, Repr

namespace PrintFlags

def fmt8 : List FI := List.replicate 8 Q

/-- `values = attr.astuple(self)`; without the last one when it is `None`; `write_fmt(fp, "%d?" % len(values), *values)` -/
def encT (x : PrintFlags) : B := fmtT fmt8 x.flags ++ optT (fmtT [Q]) x.printFlags
def Fits (x : PrintFlags) : Prop := fmtFits fmt8 x.flags ∧ optFits (fmtFits [Q]) x.printFlags
instance (x : PrintFlags) : Decidable x.Fits := by unfold Fits; exact inferInstance
def encP (x : PrintFlags) : W := wBytes (encT x)

/-- `values = read_fmt("8?", fp); if is_readable(fp): values += read_fmt("?", fp)` -/
def dec : R PrintFlags := fun d p => do
  let (fl, p) ← fmtDec fmt8 d p
  if isReadable 1 d p then
    let (pf, p) ← fmtDec [Q] d p
    .ok (⟨fl, some pf⟩, p)
  else .ok (⟨fl, none⟩, p)

def codec : PCodec PrintFlags where
  encT := encT
  Fits := Fits
  decFits := inferInstance
  encP := encP
  dec := dec
  consumed x := (encT x).length
  WF x := fmtWF fmt8 x.flags ∧ optFits (fmtWF [Q]) x.printFlags          -- the attributes are `bool`s
  decWF _ := inferInstance

end PrintFlags

/-! ## ThumbnailResource (and ThumbnailResourceV4, which differs in `_RAW_MODE` only) -/

structure Thumbnail where
  head : Row          -- fmt, width, height, row, total_size
  tail : Row          -- bits, planes
  data : B
  deriving DecidableEq, Repr

namespace Thumbnail

def headFmt : List FI := [U 4, U 4, U 4, U 4, U 4]
def tailFmt : List FI := [U 2, U 2]

/-- `write_fmt(fp, "6I2H", fmt, width, height, row, total_size, len(data), bits, planes)`, `write_bytes(fp, data)` -/
def hdrT (x : Thumbnail) : B := fmtT headFmt x.head ++ (beBytes 4 x.data.length ++ fmtT tailFmt x.tail)
def encT (x : Thumbnail) : B := hdrT x ++ x.data
def Fits (x : Thumbnail) : Prop := fmtFits headFmt x.head ∧ FitsU 4 x.data.length ∧ fmtFits tailFmt x.tail
instance (x : Thumbnail) : Decidable x.Fits := by unfold Fits; exact inferInstance
def encP (x : Thumbnail) : W := wBytes (hdrT x) +> wBytes x.data

/-- `... size, bits, planes = read_fmt("6I2H", fp); data = fp.read(size)` (lenient) -/
def dec : R Thumbnail := fun d p => do
  let (h, p) ← fmtDec headFmt d p
  let (size, p) ← readU 4 d p
  let (t, p) ← fmtDec tailFmt d p
  let (data, p) ← readSized size d p
  .ok (⟨h, t, data⟩, p)

def codec : PCodec Thumbnail where
  encT := encT
  Fits := Fits
  decFits := inferInstance
  encP := encP
  dec := dec
  consumed x := (encT x).length
  WF _ := True
  decWF _ := inferInstanceAs (Decidable True)

end Thumbnail

/-! ## Slices / SlicesV6 / SliceV6 -/

structure SliceV6 where
  head : Row                      -- `3I`: slice_id, group_id, origin
  associatedId : Option Row       -- `I`, when `origin == 1`
  name : Payload.Str
  sliceType : Row                 -- `I`
  bbox : Row                      -- `4I`
  url : Payload.Str
  target : Payload.Str
  message : Payload.Str
  altTag : Payload.Str
  cellIsHtml : Row                -- `?`
  cellText : Payload.Str
  align : Row                     -- `2I`: horizontal_align, vertical_align
  argb : Row                      -- `4B`: alpha, red, green, blue
  data : Option Descriptor.Block
  deriving Repr

namespace SliceV6
variable (tb : Descriptor.Tables)

def headFmt : List FI := [U 4, U 4, U 4]
def bboxFmt : List FI := [U 4, U 4, U 4, U 4]
def argbFmt : List FI := [U 1, U 1, U 1, U 1]

def origin (x : SliceV6) : Int := x.head.int 2
def sliceId (x : SliceV6) : Int := x.head.int 0

/-- `origin == 1` -/
def hasAssoc (head : Row) : Prop := head.int 2 = 1
instance (head : Row) : Decidable (hasAssoc head) := by unfold hasAssoc; exact inferInstance

def assocOf (head : Row) (assoc : Option Row) : Option Row := if hasAssoc head then assoc else none

/-- `if self.origin == 1 and self.associated_id is not None` -/
def assocWritten (x : SliceV6) : Option Row := assocOf x.head x.associatedId

/-- everything after the `3I` head -/
def tailT (x : SliceV6) : B :=
  optT (fmtT [U 4]) x.assocWritten ++ (ustr.encT x.name ++ (fmtT [U 4] x.sliceType ++
  (fmtT bboxFmt x.bbox ++ (ustr.encT x.url ++ (ustr.encT x.target ++ (ustr.encT x.message ++ (ustr.encT x.altTag ++
  (fmtT [Q] x.cellIsHtml ++ (ustr.encT x.cellText ++ (fmtT [U 4, U 4] x.align ++ (fmtT argbFmt x.argb ++
  optT (Descriptor.Block.encT tb 1) x.data)))))))))))

def encT (x : SliceV6) : B := fmtT headFmt x.head ++ tailT tb x

def Fits (x : SliceV6) : Prop :=
  fmtFits headFmt x.head ∧ optFits (fmtFits [U 4]) x.assocWritten ∧ ustr.Fits x.name ∧ fmtFits [U 4] x.sliceType ∧
  fmtFits bboxFmt x.bbox ∧ ustr.Fits x.url ∧ ustr.Fits x.target ∧ ustr.Fits x.message ∧ ustr.Fits x.altTag ∧
  fmtFits [Q] x.cellIsHtml ∧ ustr.Fits x.cellText ∧ fmtFits [U 4, U 4] x.align ∧ fmtFits argbFmt x.argb ∧
  optFits (Descriptor.Block.Fits tb) x.data
instance (x : SliceV6) : Decidable (Fits tb x) := by unfold Fits; exact inferInstance

def encP (x : SliceV6) : W :=
  let written := wBytes (fmtT headFmt x.head)
  let written := written +> optP (fun r => wBytes (fmtT [U 4] r)) x.assocWritten
  let written := written +> ustr.encP x.name
  let written := written +> wBytes (fmtT [U 4] x.sliceType)
  let written := written +> wBytes (fmtT bboxFmt x.bbox)
  let written := written +> ustr.encP x.url
  let written := written +> ustr.encP x.target
  let written := written +> ustr.encP x.message
  let written := written +> ustr.encP x.altTag
  let written := written +> wBytes (fmtT [Q] x.cellIsHtml)
  let written := written +> ustr.encP x.cellText
  let written := written +> wBytes (fmtT [U 4, U 4] x.align)
  let written := written +> wBytes (fmtT argbFmt x.argb)
  written +> optP (Descriptor.Block.encW tb 1) x.data

def zeroKey : B := [0, 0, 0, 0]

/-- the speculative read of the per-slice descriptor:
```
if is_readable(fp, 4):
    current_position = fp.tell(); version = read_fmt("I", fp)[0]; fp.seek(-4, 1)
    if version == 16:
        try:
            data = DescriptorBlock.read(fp)
            if data.classID == b"\x00\x00\x00\x00": data = None; raise ValueError(data)
        except (ValueError, IOError): fp.seek(current_position)
```
(`UnicodeDecodeError` is a `ValueError`.) -/
def peekData : R (Option Descriptor.Block) := fun d p =>
  if isReadable 4 d p then
    match readU 4 d p with
    | .error e => .error e
    | .ok (version, _) =>
      if version = 16 then
        match Descriptor.Block.dec tb d p with
        | .ok (blk, p') => if blk.classID.bytes = zeroKey then .ok (none, p) else .ok (some blk, p')
        | .error .valueError => .ok (none, p)
        | .error .unicodeError => .ok (none, p)
        | .error .ioError => .ok (none, p)
        | .error e => .error e
      else .ok (none, p)
  else .ok (none, p)

/-- `associated_id = read_fmt("I", fp)[0] if origin == 1 else None` -/
def assocDec (head : Row) : R (Option Row) := fun d p =>
  if hasAssoc head then
    match fmtDec [U 4] d p with
    | .ok (r, p') => .ok (some r, p')
    | .error e => .error e
  else .ok (none, p)

def dec : R SliceV6 := fun d p => do
  let (head, p) ← fmtDec headFmt d p
  let (assoc, p) ← assocDec head d p
  let (name, p) ← ustr.dec d p
  let (st, p) ← fmtDec [U 4] d p
  let (bbox, p) ← fmtDec bboxFmt d p
  let (url, p) ← ustr.dec d p
  let (target, p) ← ustr.dec d p
  let (message, p) ← ustr.dec d p
  let (altTag, p) ← ustr.dec d p
  let (html, p) ← fmtDec [Q] d p
  let (cellText, p) ← ustr.dec d p
  let (align, p) ← fmtDec [U 4, U 4] d p
  let (argb, p) ← fmtDec argbFmt d p
  let (data, p) ← peekData tb d p
  .ok (⟨head, assoc, name, st, bbox, url, target, message, altTag, html, cellText, align, argb, data⟩, p)

def WF (x : SliceV6) : Prop :=
  (x.associatedId.isSome ↔ hasAssoc x.head)                     -- (iii) the associated id is there exactly for origin 1
  ∧ ustr.WF x.name ∧ ustr.WF x.url ∧ ustr.WF x.target ∧ ustr.WF x.message ∧ ustr.WF x.altTag ∧ ustr.WF x.cellText
  ∧ fmtWF [Q] x.cellIsHtml                                      -- a `bool`
  ∧ optFits (fun (b : Descriptor.Block) => b.WF tb ∧ b.classID.bytes ≠ zeroKey) x.data
      -- (iii) the reader's own rule: a block whose classID is four zero bytes is "not a descriptor block"
instance (x : SliceV6) : Decidable (WF tb x) := by unfold WF; exact inferInstance

end SliceV6

structure SlicesV6 where
  bbox : Row                      -- `4I`
  name : Payload.Str
  items : List SliceV6
  deriving Repr

namespace SlicesV6
variable (tb : Descriptor.Tables)

/-- (F) a slice without a descriptor must not be followed by a slice whose id is 16: the reader takes the 4 bytes that
follow the colour for the version of a descriptor block (known finding C01/slices/id16-after-slice-without-data) -/
def chainOK : List SliceV6 → Prop
  | [] => True
  | [_] => True
  | x :: y :: rest => (x.data.isNone → y.sliceId ≠ 16) ∧ chainOK (y :: rest)

def chainOK.dec : (xs : List SliceV6) → Decidable (chainOK xs)
  | [] => by unfold chainOK; exact inferInstance
  | [_] => by unfold chainOK; exact inferInstance
  | x :: y :: rest => by
    unfold chainOK
    exact @instDecidableAnd _ _ inferInstance (chainOK.dec (y :: rest))
instance (xs : List SliceV6) : Decidable (chainOK xs) := chainOK.dec xs

def encT (x : SlicesV6) : B :=
  fmtT SliceV6.bboxFmt x.bbox ++ (ustr.encT x.name ++ (beBytes 4 x.items.length ++ listT (SliceV6.encT tb) x.items))

def Fits (x : SlicesV6) : Prop :=
  fmtFits SliceV6.bboxFmt x.bbox ∧ ustr.Fits x.name ∧ FitsU 4 x.items.length ∧ listFits (SliceV6.Fits tb) x.items
instance (x : SlicesV6) : Decidable (Fits tb x) := by unfold Fits; exact inferInstance

def encP (x : SlicesV6) : W :=
  let written := wBytes (fmtT SliceV6.bboxFmt x.bbox)
  let written := written +> ustr.encP x.name
  let written := written +> wBytes (beBytes 4 x.items.length)
  written +> wList (SliceV6.encP tb) x.items

def dec : R SlicesV6 := fun d p => do
  let (bbox, p) ← fmtDec SliceV6.bboxFmt d p
  let (name, p) ← ustr.dec d p
  let (count, p) ← readU 4 d p
  let (items, p) ← readCount (SliceV6.dec tb) count d p
  .ok (⟨bbox, name, items⟩, p)

def WF (x : SlicesV6) : Prop := ustr.WF x.name ∧ (∀ s ∈ x.items, SliceV6.WF tb s) ∧ chainOK x.items
instance (x : SlicesV6) : Decidable (WF tb x) := by unfold WF; exact inferInstance

def codec : PCodec SlicesV6 where
  encT := encT tb
  Fits := Fits tb
  decFits := inferInstance
  encP := encP tb
  dec := dec tb
  consumed x := (encT tb x).length
  WF := WF tb
  decWF := inferInstance

end SlicesV6

/-- one slice on its own stream -/
def SliceV6.codec (tb : Descriptor.Tables) : PCodec SliceV6 where
  encT := SliceV6.encT tb
  Fits := SliceV6.Fits tb
  decFits := inferInstance
  encP := SliceV6.encP tb
  dec := SliceV6.dec tb
  consumed x := (SliceV6.encT tb x).length
  WF := SliceV6.WF tb
  decWF := inferInstance

inductive SlicesData where
  | v6 (x : SlicesV6)
  | desc (b : Descriptor.Block)
  deriving Repr

structure Slices where
  version : Nat
  data : SlicesData
  deriving Repr

namespace Slices
variable (tb : Descriptor.Tables)

def dataT : SlicesData → B
  | .v6 x => SlicesV6.encT tb x
  | .desc b => b.encT tb 1
def dataP : SlicesData → W
  | .v6 x => SlicesV6.encP tb x
  | .desc b => b.encW tb 1
def dataFits : SlicesData → Prop
  | .v6 x => SlicesV6.Fits tb x
  | .desc b => b.Fits tb
instance (x : SlicesData) : Decidable (dataFits tb x) := by cases x <;> simp only [dataFits] <;> exact inferInstance

/-- `write_fmt(fp, "I", self.version)`, `self.data.write(fp, padding=1)` -/
def encT (x : Slices) : B := beBytes 4 x.version ++ dataT tb x.data
def Fits (x : Slices) : Prop := FitsU 4 x.version ∧ dataFits tb x.data
instance (x : Slices) : Decidable (Fits tb x) := by unfold Fits; exact inferInstance
def encP (x : Slices) : W := wBytes (beBytes 4 x.version) +> dataP tb x.data

/-- `version = read_fmt("I")`, `assert version in (6, 7, 8)`, `SlicesV6.read` for 6, `DescriptorBlock.read` otherwise -/
def dec : R Slices := fun d p => do
  let (version, p) ← readU 4 d p
  if version ∈ G3.slicesVersions then
    if version = 6 then
      let (x, p) ← SlicesV6.dec tb d p
      .ok (⟨version, .v6 x⟩, p)
    else
      let (b, p) ← Descriptor.Block.dec tb d p
      .ok (⟨version, .desc b⟩, p)
  else .error .assertionError

def WF (x : Slices) : Prop :=
  x.version ∈ G3.slicesVersions                          -- (i) validator, the reader's assert
  ∧ (match x.data with                                   -- (iii) the version decides the class of `data`
     | .v6 s => x.version = 6 ∧ SlicesV6.WF tb s
     | .desc b => x.version ≠ 6 ∧ b.WF tb)
instance (x : Slices) : Decidable (WF tb x) := by
  unfold WF; cases x.data <;> simp only <;> exact inferInstance

def consumed (x : Slices) : Nat :=
  match x.data with
  | .v6 s => 4 + (SlicesV6.encT tb s).length
  | .desc b => 4 + b.bodyLen tb

def codec : PCodec Slices where
  encT := encT tb
  Fits := Fits tb
  decFits := inferInstance
  encP := encP tb
  dec := dec tb
  consumed := consumed tb
  WF := WF tb
  decWF := inferInstance

end Slices

/-! ## the `TYPES.update` rows: classes of earlier units as image-resource payloads -/

/-- `DescriptorBlock` as a resource payload: written with `padding=1` -/
def DescriptorResource.codec (tb : Descriptor.Tables) : PCodec Descriptor.Block where
  encT b := b.encT tb 1
  Fits b := b.Fits tb
  decFits _ := inferInstance
  encP b := b.encW tb 1
  dec := Descriptor.Block.dec tb
  consumed b := b.bodyLen tb
  WF b := b.WF tb
  decWF _ := inferInstance

/-- `DescriptorBlock2` (tagged blocks `vogk`, ...) written with padding `pad` -/
def Descriptor2Payload.codec (tb : Descriptor.Tables) (pad : Nat) : PCodec Descriptor.Block2 where
  encT b := b.encT tb pad
  Fits b := b.Fits tb
  decFits _ := inferInstance
  encP b := b.encW tb pad
  dec := Descriptor.Block2.dec tb
  consumed b := b.bodyLen tb
  WF b := b.WF tb
  decWF _ := inferInstance

/-- `DescriptorBlock` as a tagged-block payload (padding `pad`) -/
def DescriptorPayload.codec (tb : Descriptor.Tables) (pad : Nat) : PCodec Descriptor.Block where
  encT b := b.encT tb pad
  Fits b := b.Fits tb
  decFits _ := inferInstance
  encP b := b.encW tb pad
  dec := Descriptor.Block.dec tb
  consumed b := b.bodyLen tb
  WF b := b.WF tb
  decWF _ := inferInstance

end PsdVerif.Payload3
