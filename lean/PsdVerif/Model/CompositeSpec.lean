/-
The PUBLISHED compositing model as a denotation of a layer tree at one pixel (C11).

Written from Porter–Duff and PDF 1.7 §11.3.6 (basic compositing formula), §11.4.4–11.4.8
(group compositing: group shape `fg` and group alpha `αg`, isolated / non-isolated groups,
knockout groups, removal of the backdrop's contribution from a non-isolated group's result)
plus Photoshop's factors (mask, mask density, opacity, fill opacity) and clipping groups.
It does NOT use `applySource`, `finishColor`, `applyNode` … of `Model/Composite.lean` (the model of
the code); it shares with it only the `Node` type (so that the two can be compared), `union`, and the
rectangle bookkeeping (`intersect`, `pasteAt`, `maskFactors`, the conditions under which a layer is
not drawn), which is not what `compositor_refines_spec` is about.

**Premultiplied form.** The state carries `P = α·C` and `P0 = α0·C0` instead of `C`, `C0`.
Multiplying the published recurrences by the new alpha turns every one of them into a polynomial:

  element `i` with (premultiplied) colour `Ps = αs·Cs`, shape `fs`, alpha `αs`, blend function `B`,
  backdrop `(Pb, αb) = (P_{i-1}, α_{i-1})`, or `(P0, α0)` for a knockout element (§11.4.5):

      fg_i = Union(fg_{i-1}, fs)
      αg_i = Union(αg_{i-1}, αs)                              (not knockout)
      αg_i = (1 − fs)·αg_{i-1} + αs                           (knockout, §11.4.6)  (*)
      α_i  = Union(α0, αg_i)
      P_i  = (1 − fs)·P_{i-1} + (fs − αs)·Pb + (1 − αb)·Ps + αb·αs·B(Pb/αb, Ps/αs)

  (the last line is `α_i·C_i = (1−fs)·α_{i-1}·C_{i-1} + (fs−αs)·αb·Cb + αs·((1−αb)·Cs + αb·B(Cb,Cs))`;
  for a non-knockout element `(1−fs) + (fs−αs) = 1−αs` and it is the basic compositing formula);

  result of a group: shape `fg_n`, alpha `αg_n`, and colour with the backdrop removed (§11.4.8)
  `C = C_n + (C_n − C_0)·(α0/αg_n − α0)`, i.e. premultiplied by `αg_n`:

      Pg = P_n − (1 − αg_n)·P0.

No clamp, no guarded division: the only quotients are `P/α` where the blend function wants a
straight colour (and in a clipping group, below); they are multiplied by that `α` (Lean's `x/0 = 0`
is never observable).

(*) **The knockout group-alpha rule is a parameter.** As the maintainers of this verification read
PDF 1.7 §11.4.6 (no copy of the standard is available in the sandbox; psd-tools' `composite/__init__.py`
mirrors the standard's notation `alpha_0, shape_g, alpha_g` and computes the same thing), a knockout
element updates the group alpha by `αg_i = (1 − fs)·αg_{i-1} + (fs − αs)·α0 + αs` (`KoRule.pdf17`). This
rule is not coherent with the colour recurrence in one respect: with every colour equal to 1 the colour
line gives `P_i = (1−fs)·α_{i-1} + (fs−αs)·α0 + αs`, whereas `α_i = Union(α0, αg_i)` is larger by
`(1−α0)(fs−αs)·α0`, so over a backdrop with `0 < α0 < 1` a translucent white knockout element on white
comes out slightly grey. The variant `αg_i = (1 − fs)·αg_{i-1} + αs` (`KoRule.alphaCoherent`) is the one for
which alpha equals the sum of the colour weights. The spec takes the rule as a parameter so that BOTH
statements are made: the code refines `specNode .pdf17` on every tree (`compositor_refines_spec`), and
`specNode k` for either `k` on every tree without knockout flags; `Props/C11.lean` has the witness on which the
two rules differ (`knockout_rules_differ`, `knockout_alpha_excess`). This is an observation about the model,
recorded in DESIGN.md; it is not counted as a defect of the code.

Core Lean only.
-/
import PsdVerif.Model.Composite

namespace PsdVerif.Composite

/-- state of the published recurrences at one pixel, premultiplied -/
structure SState where
  /-- `α0·C0`: the group's initial backdrop -/
  P0 : Color
  a0 : Rat
  /-- group shape `fg_i` -/
  sg : Rat
  /-- group alpha `αg_i` -/
  ag : Rat
  /-- `α_i·C_i`: accumulated colour, backdrop included -/
  P : Color
  /-- `α_i = Union(α0, αg_i)` -/
  a : Rat

/-- start of a group over backdrop `(P, alpha)` (premultiplied): a non-isolated group starts from its
backdrop, an isolated one from a fully transparent backdrop (§11.4.6) -/
def SState.init (P : Color) (alpha : Rat) (isolated : Bool) : SState :=
  if isolated then { P0 := fun _ => 0, a0 := 0, sg := 0, ag := 0, P := fun _ => 0, a := 0 }
  else { P0 := P, a0 := alpha, sg := 0, ag := 0, P := P, a := alpha }

/-- straight colour of a premultiplied one (meaningful where `a ≠ 0`; multiplied by `a` wherever it is used) -/
def straight (P : Color) (a : Rat) : Color := fun ch => P ch / a

/-- which recurrence the group alpha follows after a knockout element (see (*) in the header) -/
inductive KoRule where
  /-- PDF 1.7 §11.4.6: `αg_i = (1 − fs)·αg_{i-1} + αs` -/
  | alphaCoherent
  /-- `composite/__init__.py`: `αg_i = (1 − fs)·αg_{i-1} + (fs − αs)·α0 + αs` -/
  | pdf17
  deriving DecidableEq, Repr

def KoRule.alpha (k : KoRule) (fs αs ag a0 : Rat) : Rat :=
  match k with
  | .alphaCoherent => (1 - fs) * ag + αs
  | .pdf17 => (1 - fs) * ag + (fs - αs) * a0 + αs

/-- one element of a group (§11.4.5), premultiplied. `Ps = αs·Cs`. -/
def specSource (k : KoRule) (bl : Color → Color → Color) (σ : SState) (Ps : Color) (fs αs : Rat) (knockout : Bool) : SState :=
  let Pb : Color := if knockout then σ.P0 else σ.P
  let αb : Rat := if knockout then σ.a0 else σ.a
  let blended : Color := bl (straight Pb αb) (straight Ps αs)
  let ag : Rat := if knockout then k.alpha fs αs σ.ag σ.a0 else union σ.ag αs
  { σ with
    sg := union σ.sg fs
    ag := ag
    a := union σ.a0 ag
    P := fun ch => (1 - fs) * σ.P ch + (fs - αs) * Pb ch + (1 - αb) * Ps ch + αb * αs * blended ch }

/-- colour of a finished group with the backdrop's contribution removed (§11.4.8), premultiplied by
the group alpha `σ.ag` -/
def groupColor (σ : SState) : Color := fun ch => σ.P ch - (1 - σ.ag) * σ.P0 ch

/-- a clipping group: the clip run has been composited as a non-isolated group `sub` over the base's
colour with the base's alpha `aj`; the base takes the resulting colour `C_n = P_n/α_n` and keeps its own
alpha, so its premultiplied colour becomes `aj·P_n/α_n` (`α_n ≥ aj`, so `α_n = 0` only where `aj = 0`) -/
def clipGroupColor (sub : SState) (aj : Rat) : Color := fun ch => aj * (sub.P ch / sub.a)

/-- Photoshop's factors (PDF 1.7 §11.4.4 `fm, qm, fk, qk`): the mask scales shape and alpha, mask density and
layer opacity scale alpha only, fill opacity scales both. Returns (shape factor, alpha factor). -/
def specFactors (pr : Props) (V : Rect) (x y : Int) : Rat × Rat :=
  let m := maskFactors pr V x y
  (m.1 * pr.fill, m.1 * m.2 * pr.opacity * pr.fill)

/-- an object `(Pj, fj, aj)` (colour premultiplied by its own alpha `aj`) enters its parent's group as the
element `(ka·Pj, fj·kf, aj·ka)` -/
def specFinish (k : KoRule) (B : Mode → Color → Color → Color) (V : Rect) (x y : Int) (σ : SState) (pr : Props)
    (Pj : Color) (fj aj : Rat) : SState :=
  let q := specFactors pr V x y
  specSource k (B pr.mode) σ (fun ch => q.2 * Pj ch) (fj * q.1) (aj * q.2) pr.knockout

mutual

/-- denotation of one layer over the state `σ` of the group it is in -/
def specNode (k : KoRule) (B : Mode → Color → Color → Color) (V : Rect) (x y : Int) (inClipRun : Bool)
    (σ : SState) : Node → SState
  | .leaf pr hasPixels color shape clips =>
    if !pr.visible then σ
    else if intersect V pr.bbox = Rect.zero then σ
    else if !inClipRun && pr.clipping && pr.hasClipTarget then σ
    else
      -- a pixel layer: straight colour and alpha read from its channels; shape = alpha
      let color0 : Color := if hasPixels then pasteAt V pr.bbox x y color white else white
      let aj : Rat := if hasPixels then pasteAt V pr.bbox x y shape 0 else 0
      let Pj : Color := fun ch => aj * color0 ch
      let Pj' := if clips.isEmpty then Pj else clipGroupColor (specClips k B V x y (SState.init Pj aj false) clips) aj
      specFinish k B V x y σ pr Pj' aj aj
  | .group pr passThrough children clips =>
    if !pr.visible then σ
    else if intersect V pr.bbox = Rect.zero then σ
    else if !inClipRun && pr.clipping && pr.hasClipTarget then σ
    else
      let V' := intersect V pr.bbox
      -- the group's backdrop: what has been accumulated, or for a knockout element the initial backdrop
      let Pb : Color := if pr.knockout then σ.P0 else σ.P
      let αb : Rat := if pr.knockout then σ.a0 else σ.a
      let inside := V'.contains x y
      -- pass-through = non-isolated, any other blend mode = isolated
      let sub := specList k B V' x y (SState.init Pb αb (!passThrough)) children
      let Pj : Color := if inside then groupColor sub else fun _ => 0
      let fj : Rat := if inside then sub.sg else 0
      let aj : Rat := if inside then sub.ag else 0
      let Pj' := if clips.isEmpty then Pj else clipGroupColor (specClips k B V x y (SState.init Pj aj false) clips) aj
      specFinish k B V x y σ pr Pj' fj aj

/-- a stack, bottom to top -/
def specList (k : KoRule) (B : Mode → Color → Color → Color) (V : Rect) (x y : Int) (σ : SState) : List Node → SState
  | [] => σ
  | n :: rest => specList k B V x y (specNode k B V x y false σ n) rest

/-- the layers of a clip run, each an ordinary element of the clipping group -/
def specClips (k : KoRule) (B : Mode → Color → Color → Color) (V : Rect) (x y : Int) (σ : SState) : List Node → SState
  | [] => σ
  | n :: rest => specClips k B V x y (specNode k B V x y true σ n) rest

end

/-- the document (a non-isolated group over the backdrop `(P, alpha)`, `P` premultiplied):
(group colour premultiplied by the group alpha, group shape, group alpha) -/
def specDoc (k : KoRule) (B : Mode → Color → Color → Color) (V : Rect) (x y : Int) (P : Color) (alpha : Rat)
    (layers : List Node) : Color × Rat × Rat :=
  let σ := specList k B V x y (SState.init P alpha false) layers
  (groupColor σ, σ.sg, σ.ag)

end PsdVerif.Composite
