/-
C03 — the creation entry points (`PSDImage.new`, `PSDImage.frompil`, `PixelLayer.frompil`).

What `PSDImage._make_header` declares and what the entry points store are two different computations:
the header's `channels` comes from the colour mode (`ColorMode.channels`) plus one when the mode name
says "alpha"; the planes come from somewhere else (a colour tuple of `header.channels` entries for
`new`, the bands PIL hands over for `frompil`, the transparency mask plus the bands of the image
converted to the document's mode for `PixelLayer.frompil`). `ImageData.set_data` / `ChannelData.set_data`
take the header's numbers on trust (`Model/Compression.lean: imageSet … (h * channels)`), so the
published layout ("image data has exactly channels × height rows / channels planes of the declared
size") holds exactly when the two computations agree. `harness/c03_modes.py` regenerates one `Row`
per (entry point, mode it accepts) from the live code (`Generated/Creation.lean`); `Props/C03Creation.lean`
decides the agreement on every row and proves what it buys (and what its failure costs) on the
composed compression model.

Core Lean only.
-/
namespace PsdVerif.Creation

/-- Colour planes of a colour mode, from the Adobe specification's header table (0 Bitmap, 1 Grayscale,
2 Indexed, 3 RGB, 4 CMYK, 7 Multichannel (one plane per channel; a new document has one), 8 Duotone,
9 Lab) — an independent transcription; tied to `ColorMode.channels` by `creation_color_channels_tied`. -/
def colorChannels : Nat → Option Nat
  | 0 => some 1
  | 1 => some 1
  | 2 => some 1
  | 3 => some 3
  | 4 => some 4
  | 7 => some 1
  | 8 => some 1
  | 9 => some 3
  | _ => none

/-- One measured creation: a 9 × 1 document (or layer) made by `entry` for `mode`, stored RAW. -/
structure Row where
  /-- `new` | `frompil` | `layer` -/
  entry : String
  /-- the mode name handed to the entry point (`layer`: `image mode->document mode/depth`) -/
  mode : String
  /-- `header.color_mode` of the document -/
  colorMode : Nat
  /-- `ColorMode.channels(header.color_mode)` as the live table has it -/
  colorChannels : Nat
  /-- 1 when the mode carries transparency (PIL's own answer for PIL modes; by construction of the name
  otherwise); for `layer` rows always 1: a pixel layer stores its transparency mask -/
  alpha : Nat
  /-- `header.channels` (`layer`: the number of channel records of the layer) -/
  headerChannels : Nat
  /-- bytes of one plane as the geometry declares it: `height · ⌈width · depth / 8⌉` -/
  planeBytes : Nat
  /-- bytes actually stored in all planes together -/
  stored : Nat
  deriving Repr

def Row.declares (r : Row) : Bool := r.headerChannels == r.colorChannels + r.alpha
def Row.truthful (r : Row) : Bool := r.stored == r.headerChannels * r.planeBytes

end PsdVerif.Creation
