/-
C08 model: reconstruction of the layer tree from the flat record list (`PSDImage._init`),
flattening for saving (`_build_record_tree`), and the kind dispatch chain.
Core Lean only.

Source: src/psd_tools/api/psd_image.py `_init`, `_build_record_tree`;
api/layers.py `Group._set_bounding_records`, `Artboard._move`; api/adjustments.py `TYPES`.

A record is abstracted to its structural role plus an opaque payload id `p : Nat` that stands for
the *identity* of the `LayerRecord` object and of its `ChannelDataList` (the code always moves the
two together: `zip(records, channel_data)` on the way in, two parallel `append`s on the way out).
-/
import PsdVerif.Model.Basic

namespace PsdVerif.Tree

/-! ### Classification of a record by its section-divider blocks -/

/-- `constants.SectionDivider`. -/
inductive DivKind where
  | other | openFolder | closedFolder | bounding
  deriving DecidableEq, Repr, Inhabited

/-- What `_init` reads from a record's tagged blocks to decide its structural role. -/
structure DivBlocks where
  /-- `SECTION_DIVIDER_SETTING` (`lsct`), kind of its data when the key is present -/
  sds : Option DivKind
  /-- `NESTED_SECTION_DIVIDER_SETTING` (`lsdk`) -/
  nsds : Option DivKind
  /-- one of `ARTBOARD_DATA1/2/3` is present -/
  artboard : Bool
  deriving DecidableEq, Repr

/-- Structural role of a record with payload id `p`. -/
inductive Rec where
  | leaf (p : Nat)
  | bounding (p : Nat)
  | closing (p : Nat) (artboard : Bool)
  deriving DecidableEq, Repr, Inhabited

def Rec.payload : Rec → Nat
  | .leaf p => p | .bounding p => p | .closing p _ => p

/-- `divider = blocks.get_data(SECTION_DIVIDER_SETTING, None)`
    `divider = blocks.get_data(NESTED_SECTION_DIVIDER_SETTING, divider)` — the nested key overrides. -/
def divider (b : DivBlocks) : Option DivKind :=
  match b.nsds with
  | some k => some k
  | none => b.sds

/-- The `if divider is not None and divider.kind is not OTHER: …` cascade. A divider of kind
    `OTHER` is ignored: the record is an ordinary layer. -/
def classify (b : DivBlocks) (p : Nat) : Rec :=
  match divider b with
  | some .bounding => .bounding p
  | some .openFolder => .closing p b.artboard
  | some .closedFolder => .closing p b.artboard
  | some .other => .leaf p
  | none => .leaf p

/-! ### The tree -/

/-- A layer (`layer p`) or a group: `close` is the payload of the group's own record
    (`_record`/`_channels`, the OPEN/CLOSED_FOLDER record), `bound` the payload of its bounding
    record (`_bounding_record`/`_bounding_channels`), `artboard` whether `Artboard._move`
    re-typed it, `children` its `_layers`, bottom first. -/
inductive Node where
  | layer (p : Nat)
  | group (close bound : Nat) (artboard : Bool) (children : List Node)
  deriving Repr, Inhabited

abbrev Forest := List Node

/-- Identity of a node: the payload id of its own record (`layer._record`). The id-indexed store
    of the edit model (C09/C10) uses these ids; `rootId` is reserved for the document. -/
def Node.id : Node → Nat
  | .layer p => p
  | .group c _ _ _ => c

/-! ### `_build_record_tree` -/

mutual
/-- One iteration of `for layer in layer_group:` — for groups: bounding record, the recursive
    call's records, then (for every layer) the layer's own record. -/
def Node.flatten : Node → List Rec
  | .layer p => [.leaf p]
  | .group c b a ch => .bounding b :: (flatten ch ++ [.closing c a])
/-- `_build_record_tree(layer_group)` on a children list. -/
def flatten : List Node → List Rec
  | [] => []
  | n :: ns => n.flatten ++ flatten ns
end

/-! ### `_init`: the stack algorithm -/

/-- A group that has been pushed on `group_stack` and not popped yet: the payload of its
    bounding record and the layers appended to its `_layers` so far. -/
structure Frame where
  bound : Nat
  kids : List Node
  deriving Repr

/-- `group_stack` split into its bottom element (the `PSDImage`, whose `_layers` is `root`)
    and the open groups above it, innermost first. -/
structure St where
  root : List Node
  stack : List Frame
  deriving Repr

def St.init : St := ⟨[], []⟩

/-- `current_group._layers.append(layer)` with `current_group = group_stack[-1]`.
    (In Python a group is appended to its parent's list when it is pushed and filled while it is
    on the stack; nothing else is appended to the parent before the pop, so appending the finished
    group at pop time produces the same list.) -/
def St.push (s : St) (n : Node) : St :=
  match s.stack with
  | [] => { s with root := s.root ++ [n] }
  | f :: fs => { s with stack := { f with kids := f.kids ++ [n] } :: fs }

/-- One iteration of the loop over `_iter_layers()` (file order, bottom of the stack first). -/
def step (s : St) : Rec → Except Err St
  | .leaf p => .ok (s.push (.layer p))
  | .bounding p => .ok { s with stack := ⟨p, []⟩ :: s.stack }
  | .closing p a =>
    match s.stack with
    | [] => .error .assertionError           -- `group_stack.pop()` returned the PSDImage
    | f :: fs => .ok (St.push { s with stack := fs } (.group p f.bound a f.kids))

/-- The whole loop. -/
def run (s : St) : List Rec → Except Err St
  | [] => .ok s
  | r :: rs => match step s r with
    | .ok s' => run s' rs
    | .error e => .error e

/-- `PSDImage._init`: the loop, then `_compute_clipping_layers()`, whose traversal reads
    `sublayer._record.clipping` of every layer in the tree; a group that was pushed and never
    popped still has `_record = None`, so the constructor fails with `AttributeError`. -/
def parse (rs : List Rec) : Except Err Forest :=
  match run St.init rs with
  | .error e => .error e
  | .ok s => match s.stack with
    | [] => .ok s.root
    | _ :: _ => .error .attributeError

/-! ### Bridge to an id-indexed store (for the edit model; no theorem of C08 depends on it)

`children`/`parent` lookups of the object graph that `_init` leaves behind, keyed by `Node.id`;
`none` as container id stands for the `PSDImage` itself. -/

mutual
/-- `(container, children ids)` for the container `owner` holding the list, then for every group inside, pre-order. -/
def childTable (owner : Option Nat) : List Node → List (Option Nat × List Nat)
  | f => (owner, idsOf f) :: groupTables f
def idsOf : List Node → List Nat
  | [] => []
  | n :: ns => n.id :: idsOf ns
def groupTables : List Node → List (Option Nat × List Nat)
  | [] => []
  | .layer _ :: ns => groupTables ns
  | .group c _ _ ch :: ns => ((some c, idsOf ch) :: groupTables ch) ++ groupTables ns
end

/-- `children : Id → List Id` of the opened document (`none` = the document). -/
def childrenOf (f : Forest) (g : Option Nat) : Option (List Nat) :=
  ((childTable none f).find? (fun e => e.1 == g)).map (·.2)

/-- `parent : Id → Option container` — `some none` = listed by the document itself. -/
def parentOf (f : Forest) (x : Nat) : Option (Option Nat) :=
  ((childTable none f).find? (fun e => e.2.contains x)).map (·.1)

/-! ### Nesting depth (used to describe the outcome on unbalanced input) -/

/-- Depth of open groups after reading the records, `none` once a closing record arrives at depth 0. -/
def depthRun : Nat → List Rec → Option Nat
  | d, [] => some d
  | d, .leaf _ :: rs => depthRun d rs
  | d, .bounding _ :: rs => depthRun (d + 1) rs
  | 0, .closing _ _ :: _ => none
  | d + 1, .closing _ _ :: rs => depthRun d rs

/-! ### Kind dispatch (`_init` lines 679-708) -/

/-- One arm of the if/elif dispatch chain. `test cls kind keys`: `elif k1 in blocks or k2 in blocks …:
    layer = cls(…)`, with `kind` the class's `kind` (`__class__.__name__.lower().replace("layer", "")`).
    `registry`: the final `else: for key in adjustments.TYPES.keys(): if key in blocks: …; break`. -/
inductive Arm where
  | test (cls kind : String) (keys : List String)
  | registry
  deriving Repr, DecidableEq

/-- One entry of the `api.adjustments.TYPES` registry, in registration order:
    tag name, `kind` of the registered class, and whether the class is a `FillLayer`. -/
structure AdjEntry where
  key : String
  kind : String
  isFill : Bool
  deriving Repr, DecidableEq

/-- The dispatch tables (regenerated from the source into `Generated/TreeKinds.lean`). -/
structure KindTables where
  chain : List Arm
  registry : List AdjEntry
  /-- keys of `shape_condition` (besides `flags.pixel_data_irrelevant`) -/
  shapeKeys : List String
  /-- `isinstance(layer, (type(None), FillLayer))`: is `type(None)` / `FillLayer` among the classes -/
  overrideNone : Bool
  overrideFill : Bool
  shapeKind : String
  defaultKind : String
  deriving Repr, DecidableEq

/-- Result of the if/elif chain before the shape override (`none` = `layer is None`). -/
structure Hit where
  kind : String
  isFill : Bool
  deriving Repr, DecidableEq

/-- `for key in adjustments.TYPES.keys(): if key in blocks: layer = TYPES[key](…); break` -/
def firstAdj (has : String → Bool) : List AdjEntry → Option Hit
  | [] => none
  | e :: es => if has e.key then some ⟨e.kind, e.isFill⟩ else firstAdj has es

def runChain (t : KindTables) (has : String → Bool) : List Arm → Option Hit
  | [] => none
  | .registry :: _ => firstAdj has t.registry          -- the `else:` arm ends the chain
  | .test _ kind keys :: as => if keys.any has then some ⟨kind, false⟩ else runChain t has as

/-- `layer.kind` of a non-divider record whose tagged blocks contain exactly the keys `has`
    and whose `flags.pixel_data_irrelevant` is `pdi`. -/
def kindOf (t : KindTables) (has : String → Bool) (pdi : Bool) : String :=
  let shapeCond := pdi && t.shapeKeys.any has
  match runChain t has t.chain with
  | none => if t.overrideNone && shapeCond then t.shapeKind else t.defaultKind
  | some h => if h.isFill && t.overrideFill && shapeCond then t.shapeKind else h.kind

/-- `kind` of a node of the tree. -/
def Node.kindName : Node → String
  | .layer _ => "layer"
  | .group _ _ false _ => "group"
  | .group _ _ true _ => "artboard"

end PsdVerif.Tree
