/-
C09, the save / reopen half — model of `PSDImage.save` → `PSDImage.open` at the level of record lists.
Core Lean only (the driver links this file).

It connects the two models of the layer tree:
  * the id-indexed store of the edit model (`TreeSt.State`, C09 / C10 / C14) and
  * the inductive forest of the parse / flatten model (`Tree.Forest`, C08).

Source: src/psd_tools/api/psd_image.py `save`, `_update_record`, `_build_record_tree`, `_init`;
psd/__init__.py `PSD._get_layer_info`, `PSD._iter_layers`; api/layers.py `Group.__init__`,
`Group._set_bounding_records`, `Group.new`.

Payload ids (C08): the payload of a layer's OWN record (`layer._record` + `layer._channels`) is the
layer's id in the store (the bridge `Tree.Node.id`); the payload of a group's BOUNDING record
(`_bounding_record` + `_bounding_channels`) is given by the record environment `RecEnv.bound`
(the store of the edit model does not carry record objects).
-/
import PsdVerif.Model.TreeParse
import PsdVerif.Model.TreeState

namespace PsdVerif.Reopen
open PsdVerif PsdVerif.Tree PsdVerif.TreeSt

/-- The record objects the store model does not carry. -/
structure RecEnv where
  /-- `group._bounding_record` (with `_bounding_channels`): payload id of the bounding record;
  `none` = the attribute is `None` (`Group.__init__` sets it to `None`; `Group.new`, `_init` and
  `Artboard._move` call `_set_bounding_records`, so every group made through the API has one) -/
  bound : Id → Option Nat
  /-- what `_init` reads from the tagged blocks of the record with payload `p` to find its role -/
  blocks : Nat → DivBlocks
  /-- `key in record.tagged_blocks` for the record with payload `p` (kind dispatch) -/
  has : Nat → String → Bool
  /-- `record.flags.pixel_data_irrelevant` -/
  pdi : Nat → Bool

/-- `isinstance(layer, Artboard)` -/
def isArtboard (s : State) (x : Id) : Bool := s.kind x == .artboard

/-! ### `_build_record_tree` on the store -/

/-- the `for layer in layer_group:` loop, `rec` = what one iteration appends -/
def flatList (rec : Id → Except Err (List Rec)) : List Id → Except Err (List Rec)
  | [] => .ok []
  | x :: xs =>
    match rec x with
    | .error e => .error e
    | .ok a =>
      match flatList rec xs with
      | .error e => .error e
      | .ok b => .ok (a ++ b)

/-- One iteration of the loop of `_build_record_tree`: for a group its bounding record, the records
of the recursive call, then (for every layer) its own record. The recursion runs over the lists
of the store, which may be cyclic in an ill-formed state: then Python ends with `RecursionError`.
The counter stands for that; `Lemmas/Reopen.lean` proves that the number of live objects is
enough in every well-formed state (`flatNodeF_ok`). A bounding record that is `None` is appended
like any other; the writer (`LayerRecords.write`) then fails with `AttributeError` — the model
reports it when the group's records are complete. (Python's own recursion limit on a deep but
acyclic tree is the standing assumption of the edit model, see `TreeSt.updateRecord`.) -/
def flatNodeF (E : RecEnv) (s : State) : Nat → Id → Except Err (List Rec)
  | 0, _ => .error .recursionError
  | f + 1, x =>
    if s.cont x then
      match flatList (flatNodeF E s f) (s.children x) with
      | .error e => .error e
      | .ok rs =>
        match E.bound x with
        | none => .error .attributeError
        | some b => .ok (.bounding b :: (rs ++ [.closing x (isArtboard s x)]))
    else .ok [.leaf x]

/-- `_build_record_tree(psd)` for the document (or group) `d`: the records in file order. -/
def flattenState (E : RecEnv) (s : State) (d : Id) : Except Err (List Rec) :=
  flatList (flatNodeF E s s.next) (s.children d)

/-! ### The store read as an inductive forest -/

/-- payload of the bounding record in the forest; a group without one (excluded by `DocOk`, and not
constructible through the API) has no reading as a `Tree.Node` — its own id is used -/
def boundId (E : RecEnv) (x : Id) : Nat :=
  match E.bound x with
  | some b => b
  | none => x

/-- The node of the store with id `x` as a `Tree.Node`. The counter only makes the definition
structural; `Lemmas/Reopen.lean` (`nodeOf_unfold`) proves that with the number of live objects it
satisfies the fuel-free recursion equation in every well-formed state. -/
def nodeF (E : RecEnv) (s : State) : Nat → Id → Node
  | 0, x => .layer x
  | f + 1, x =>
    if s.cont x then .group x (boundId E x) (isArtboard s x) ((s.children x).map (nodeF E s f))
    else .layer x

def nodeOf (E : RecEnv) (s : State) (x : Id) : Node := nodeF E s s.next x

/-- the in-memory tree below the document `d`: `psd._layers`, bottom first, recursively -/
def forestOf (E : RecEnv) (s : State) (d : Id) : Forest := (s.children d).map (nodeOf E s)

/-! ### Where the records are kept: `layer_info` or the `Lr16` / `Lr32` tagged block -/

/-- the three places of `layer_and_mask_information` that can hold layer records -/
inductive Slot where
  | layerInfo | lr16 | lr32
  deriving DecidableEq, Repr, Inhabited

/-- `layer_and_mask_information` as far as the layer records are concerned: the payload ids of the
records of `layer_info` (`none`: the attribute is `None`), of the data of the `Lr16` tagged block
(`none`: key absent) and of `Lr32`. The roles are not stored: the reader recomputes them. -/
structure Sections where
  layerInfo : Option (List Nat)
  lr16 : Option (List Nat)
  lr32 : Option (List Nat)
  deriving DecidableEq, Repr, Inhabited

def Sections.get (m : Sections) : Slot → Option (List Nat)
  | .layerInfo => m.layerInfo
  | .lr16 => m.lr16
  | .lr32 => m.lr32

def Sections.set (m : Sections) (k : Slot) (v : List Nat) : Sections :=
  match k with
  | .layerInfo => { m with layerInfo := some v }
  | .lr16 => { m with lr16 := some v }
  | .lr32 => { m with lr32 := some v }

/-- `PSD._get_layer_info`: `for key in (Tag.LAYER_16, Tag.LAYER_32): if key in tagged_blocks: return …`,
else `layer_and_mask_information.layer_info` -/
def readerSlot (m : Sections) : Slot :=
  if m.lr16.isSome then .lr16 else if m.lr32.isSome then .lr32 else .layerInfo

/-- `PSD._iter_layers`: the records of `_get_layer_info()` (nothing when it is `None`) -/
def storedPayloads (m : Sections) : List Nat :=
  match m.get (readerSlot m) with
  | some ps => ps
  | none => []

/-- where `_update_record` stores the rebuilt lists: since 5290e33 in `self._record._get_layer_info()`
(`viaReader = true`), before always in `layer_and_mask_information.layer_info` -/
def writerSlot (viaReader : Bool) (m : Sections) : Slot :=
  if viaReader then readerSlot m else .layerInfo

/-- `_update_record` when `_updated_layers` is set: an absent `layer_info` is created (empty), then
the rebuilt records are stored -/
def storeRebuilt (viaReader : Bool) (m : Sections) (ps : List Nat) : Sections :=
  let m1 : Sections := match m.layerInfo with
    | none => { m with layerInfo := some [] }
    | some _ => m
  m1.set (writerSlot viaReader m1) ps

/-! ### `save` and `open` of one document, at the level of record lists -/

/-- `PSDImage.save` as far as the layer records are concerned: `_update_record()` rebuilds them only
when `_updated_layers` is set (`dirty`); the bytes in between are C01's. -/
def saveDoc (viaReader : Bool) (E : RecEnv) (s : State) (d : Id) (m : Sections) : Except Err Sections :=
  if s.dirty d then
    match flattenState E s d with
    | .error e => .error e
    | .ok rs => .ok (storeRebuilt viaReader m (rs.map Rec.payload))
  else .ok m

/-- the role `_init` gives the record with payload `p` -/
def reread (E : RecEnv) (p : Nat) : Rec := classify (E.blocks p) p

/-- `PSDImage.open` on the stored records: `_iter_layers()`, classification, the stack algorithm -/
def openDoc (E : RecEnv) (m : Sections) : Except Err Forest := parse ((storedPayloads m).map (reread E))

/-- `PSDImage.open(save(psd))` -/
def saveReopen (viaReader : Bool) (E : RecEnv) (s : State) (d : Id) (m : Sections) : Except Err Forest :=
  match saveDoc viaReader E s d m with
  | .error e => .error e
  | .ok m' => openDoc E m'

/-! ### Names for what the tree looks like (driver output, kinds after reopening) -/

/-- `layer.kind` of a node of the reopened tree: groups and artboards by their class, every other
layer by the dispatch chain over the blocks of its record -/
def kindAfterOpen (t : KindTables) (E : RecEnv) : Node → String
  | .layer p => kindOf t (E.has p) (E.pdi p)
  | n => n.kindName

end PsdVerif.Reopen
