/-
C06 — counting twins of the readers of Model/Payload3Adjust.lean (unit 8: psd/adjustments.py). The flat classes and
`GradientMap` are combinator terms; `Levels`, `PhotoFilter`, the head of `GradientMap` and `Curves` (with
`CurvesExtraMarker` / `CurvesExtraItem`) are written out by hand and get a twin `X.decC` with literally the structure
of `X.dec`. `ColorLookup` (a `DescriptorBlock2`) is with the descriptor unit.

The readers of the extra marker of `Curves` report the cursor at which they failed (`RE`, `Curves.read` goes on from
there after `except IOError`): their twins live in `CEE`, the counting monad whose errors carry that cursor.
Core Lean only.
-/
import PsdVerif.Model.PayloadCost
import PsdVerif.Model.Payload3Adjust

namespace PsdVerif.PayloadCost
open PsdVerif PsdVerif.Codec PsdVerif.PsdCost PsdVerif.Payload PsdVerif.Payload3

/-! ## the flat classes -/

def BrightnessContrast.cc : CC Row := CC.fmt [U 2, U 2, U 2, U 1, X 1]

def ColorBalance.cc : CC (Row × Row × Row × Row) :=
  CC.padded 4 (CC.seq (CC.fmt s2x3) (CC.seq (CC.fmt s2x3) (CC.seq (CC.fmt s2x3) (CC.fmt [U 1]))))

def ChannelMixer.cc : CC (Row × Row × B) :=
  CC.checked (CC.seq (CC.fmt [U 2, U 2]) (CC.seq (CC.fmt [S 2, S 2, S 2, S 2, S 2]) CC.tailBytes))
    (fun v => (v.1.int 0).toNat ∈ G3.channelMixerVersions) .valueError

def Exposure.cc (pad : Nat) : CC Row := CC.padded pad (CC.fmt [U 2, U 4, U 4, U 4])

def HueSaturation.itemCC : CC (Row × Row) := CC.seq (CC.fmt s2x4) (CC.fmt s2x3)

def HueSaturation.cc : CC (Row × Row × Row × List (Row × Row)) :=
  CC.padded 4 (CC.seq (CC.checked (CC.fmt [U 2, U 1, X 1]) (fun r => r.int 0 = 2) .assertionError)
    (CC.seq (CC.fmt s2x3) (CC.seq (CC.fmt s2x3) (CC.exactly 6 HueSaturation.itemCC))))

def LevelRecord.cc : CC Row := CC.fmt LevelRecord.fmt

def SelectiveColor.cc : CC (Row × List Row) :=
  CC.checked (CC.seq (CC.fmt [U 2, U 2]) (CC.exactly 10 (CC.fmt s2x4)))
    (fun v => (v.1.int 0).toNat ∈ G3.selectiveColorVersions) .valueError

def ColorStop.cc : CC Row := CC.fmt ColorStop.fmt
def TransparencyStop.cc : CC Row := CC.fmt TransparencyStop.fmt

/-! ## Levels -/

/-- `read`: `H`, `assert version == 2`, 29 records, `if is_readable(fp, 6)`: `4sH` and two asserts, `H` count,
`count - 29` more records -/
def Levels.decC : RC Levels := fun d p => do
  let (version, p) ← readUC 2 d p
  if version = 2 then do
    let (items, p) ← readCountC (fmtDecC LevelRecord.fmt) 29 d p
    let r ← isReadableC 6 d p
    let (x, p) ← (if r then do
        let (sig, p) ← readNC 4 d p
        let (ev, p) ← readUC 2 d p
        if sig = Levels.sigLvls then
          if ev = 3 then do
            let (count, p) ← readUC 2 d p
            let (more, p) ← readCountC (fmtDecC LevelRecord.fmt) (count - 29) d p
            CE.ok ((⟨version, some ev, items ++ more⟩ : Levels), p)
          else CE.error .assertionError
        else CE.error .assertionError
      else CE.ok (⟨version, none, items⟩, p) : CE (Levels × Nat))
    if version ∈ G3.levelsVersions then CE.ok (x, p) else CE.error .valueError
  else CE.error .assertionError

def Levels.cc : CC Levels := CC.hand Levels.codec Levels.decC "Levels" 3 71 292 [⟨"fixed", 10⟩, ⟨"count", 10⟩]

/-! ## PhotoFilter -/

def PhotoFilter.decC : RC PhotoFilter := fun d p => do
  let (version, p) ← readUC 2 d p
  if version ∈ G3.photoFilterVersions then do
    let (xc, p) ← (if version = 3 then do
        let (r, p') ← fmtDecC PhotoFilter.xyzFmt d p
        CE.ok ((r, []), p')
      else do
        let (r, p') ← fmtDecC PhotoFilter.colorFmt d p
        CE.ok (([], r), p') : CE ((Row × Row) × Nat))
    let (tail, p) ← fmtDecC PhotoFilter.tailFmt d p
    CE.ok (⟨version, xc.1, xc.2, tail⟩, p)
  else CE.error .assertionError

def PhotoFilter.cc : CC PhotoFilter := CC.hand PhotoFilter.codec PhotoFilter.decC "PhotoFilter" 1 3 17 []

/-! ## GradientMap -/

/-- `H2B`, `assert version in (1, 3)`, `4s` method when `version == 3` -/
def GradientMap.headDecC : RC (Row × B) := fun d p => do
  let (h, p) ← fmtDecC GradientMap.headFmt d p
  if (h.int 0).toNat ∈ G3.gradientMapVersions then
    if h.int 0 = 3 then do
      let (m, p) ← readNC 4 d p
      CE.ok ((h, m), p)
    else CE.ok ((h, GradientMap.gcls), p)
  else CE.error .assertionError

def GradientMap.headCC : CC (Row × B) :=
  CC.hand GradientMap.head GradientMap.headDecC "GradientMap (head)" 1 2 4 []

def GradientMap.expansionCC : CC Row := CC.checked (CC.fmt u2x4) (fun r => r.int 0 = 2) .assertionError

def GradientMap.cc : CC GradientMap.Val :=
  CC.padded 4 (CC.checked
    (CC.seq GradientMap.headCC (CC.seq CC.ustr (CC.seq (CC.counted 2 ColorStop.cc) (CC.seq (CC.counted 2 TransparencyStop.cc)
      (CC.seq GradientMap.expansionCC (CC.seq (CC.fmt [U 4, U 2, U 2]) (CC.seq (CC.fmt [U 4, U 2]) (CC.seq (CC.fmt u2x4)
        (CC.seq (CC.fmt u2x4) (CC.fmt [X 2]))))))))))
    (fun v => v.1.2 ∈ G3.gradientMethods ∧ (v.2.2.2.2.1.int 0).toNat ∈ G3.gradientExpansions ∧
      (v.2.2.2.2.1.int 2).toNat ∈ G3.gradientLengths) .valueError)

/-! ## Curves: the readers that report where they failed -/

/-- a result of an `RE` reader and what it cost -/
def CEE (α : Type) : Type := Except (Err × Nat) α × Cost

def CEE.ok {α : Type} (a : α) : CEE α := (.ok a, Cost.zero)
def CEE.error {α : Type} (e : Err × Nat) : CEE α := (.error e, Cost.zero)

def CEE.bind {α β : Type} (m : CEE α) (f : α → CEE β) : CEE β :=
  match m.1 with
  | .ok a => ((f a).1, m.2 + (f a).2)
  | .error e => (.error e, m.2)

instance : Monad CEE where
  pure := CEE.ok
  bind := CEE.bind

/-- the counting twin of `RE` -/
abbrev REC (α : Type) := B → Nat → CEE (α × Nat)

/-- one loop iteration -/
def tickE : CEE Unit := (.ok (), ⟨1, 0⟩)

/-- `read_fmt(fmt, fp)`: ONE `fp.read(struct.calcsize(fmt))`; the cursor is restored before `IOError` is raised -/
def fmtDecEC (fs : List FI) : REC Row := fun d p => (fmtDecE fs d p, ⟨1, min (fmtSize fs) (d.length - p)⟩)

def readCountEC {α : Type} (item : REC α) : Nat → REC (List α)
  | 0 => fun _ p => CEE.ok ([], p)
  | n + 1 => fun d p => do
    tickE
    let (a, p1) ← item d p
    let (as, p2) ← readCountEC item n d p1
    CEE.ok (a :: as, p2)

/-- `if is_map: "H", "256B" else: "2H" (channel id, count), "2H" per point` -/
def CurvesExtraItem.decEC (isMap : Bool) : REC CurvesExtraItem := fun d p =>
  if isMap then do
    let (c, p) ← fmtDecEC [U 2] d p
    let (r, p) ← fmtDecEC mapFmt d p
    CEE.ok (⟨c, .map r⟩, p)
  else do
    let (h, p) ← fmtDecEC [U 2, U 2] d p
    let (ps, p) ← readCountEC (fmtDecEC pairFmt) (h.int 1).toNat d p
    CEE.ok (⟨h.take 1, .pairs ps⟩, p)

/-- `4sHI`, `assert signature == b"Crv "`, `for _ in range(count)`, the validator of `version` -/
def CurvesExtraMarker.decEC (isMap : Bool) : REC CurvesExtraMarker := fun d p => do
  let (h, p) ← fmtDecEC CurvesExtraMarker.hdrFmt d p
  if h.take 1 = [.bytes CurvesExtraMarker.sigCrv] then do
    let (items, p) ← readCountEC (CurvesExtraItem.decEC isMap) (h.int 2).toNat d p
    if (h.int 1).toNat ∈ G3.curvesExtraVersions then CEE.ok (⟨(h.int 1).toNat, items⟩, p)
    else CEE.error (.valueError, p)
  else CEE.error (.assertionError, p)

/-- the shapes of the two classes that have no codec of their own (they are read and written inside `Curves`) -/
def CurvesExtraItem.sh : Sh := .hand "CurvesExtraItem" 7 260 4 [⟨"count", 4⟩]
def CurvesExtraMarker.sh : Sh := .hand "CurvesExtraMarker" 268 272 10 [⟨"count", 4⟩]

/-! ## Curves -/

/-- one curve: `H` point count, `assert 2 <= point_count <= 19`, the points -/
def Curves.curveDecC : RC (List Row) := fun d p => do
  let (n, p) ← readUC 2 d p
  if 2 ≤ n ∧ n ≤ 19 then readCountC (fmtDecC pairFmt) n d p else CE.error .assertionError

/-- `if is_map: [list(read_fmt("256B")) for _ in range(count)] else: count curves` -/
def Curves.dataDecC (isMap : Bool) (count : Nat) : RC CurveData := fun d p =>
  if isMap then do
    let (ms, p') ← readCountC (fmtDecC mapFmt) count d p
    CE.ok (CurveData.maps ms, p')
  else do
    let (cs, p') ← readCountC Curves.curveDecC count d p
    CE.ok (CurveData.curves cs, p')

/-- `try: extra = CurvesExtraMarker.read(fp, is_map=is_map) except IOError: pass`: what the attempt cost is spent
either way; after `IOError` the stream stands where the failed `read_fmt` left it -/
def Curves.extraDecC (isMap : Bool) (version : Nat) : RC (Option CurvesExtraMarker) := fun d p =>
  if version = 1 then
    match (CurvesExtraMarker.decEC isMap d p).1 with
    | .ok (m, p') => (.ok (some m, p'), (CurvesExtraMarker.decEC isMap d p).2)
    | .error (.ioError, q) => (.ok (none, q), (CurvesExtraMarker.decEC isMap d p).2)
    | .error (e, _) => (.error e, (CurvesExtraMarker.decEC isMap d p).2)
  else CE.ok (none, p)

def Curves.decC : RC Curves := fun d p => do
  let (isMapByte, p) ← readUC 1 d p
  let (version, p) ← readUC 2 d p
  let (countMap, p) ← readUC 4 d p
  if version = 1 ∨ version = 4 then do
    let isMap := isMapByte != 0
    let (data, p) ← Curves.dataDecC isMap (Curves.countOf version countMap) d p
    let (extra, p) ← Curves.extraDecC isMap version d p
    CE.ok (⟨isMap, version, countMap, data, extra⟩, p)
  else CE.error .assertionError

def Curves.cc : CC Curves :=
  CC.hand Curves.codec Curves.decC "Curves" 268 279 7 [⟨"count", 256⟩, ⟨"count", 2⟩, ⟨"count", 4⟩]

end PsdVerif.PayloadCost
