/-
Evaluator for the published model (`Model/CompositeSpec.lean`) used by the driver command `comp.spec`.

As in `Model/CompositeEval.lean`: `specNode` … with the state's colours TABULATED after every step (a
colour is a closure over the previous colours, so a stack of `k` elements would otherwise cost `3^k`
rational operations). Tabulation is the identity on colours, so the evaluator is EQUAL to the spec
for every number `n` of tabulated channels — `specDocF_eq` in `Lemmas/CompositeSpecEval.lean`, restated in
`Props/C11.lean` (`spec_evaluator_is_spec`).

Core Lean only.
-/
import PsdVerif.Model.CompositeSpec
import PsdVerif.Model.CompositeEval

namespace PsdVerif.Composite

/-- tabulate both colours of a spec state -/
def fzS (n : Nat) (σ : SState) : SState :=
  let a := tab n σ.P
  let a0 := tab n σ.P0
  { σ with P := lookup a σ.P, P0 := lookup a0 σ.P0 }

/-- tabulate a colour -/
def fzC (n : Nat) (c : Color) : Color :=
  let a := tab n c
  lookup a c

mutual

def specNodeF (k : KoRule) (n : Nat) (B : Mode → Color → Color → Color) (V : Rect) (x y : Int) (inClipRun : Bool)
    (σ : SState) : Node → SState
  | .leaf pr hasPixels color shape clips =>
    if !pr.visible then σ
    else if intersect V pr.bbox = Rect.zero then σ
    else if !inClipRun && pr.clipping && pr.hasClipTarget then σ
    else
      let color0 : Color := if hasPixels then pasteAt V pr.bbox x y color white else white
      let aj : Rat := if hasPixels then pasteAt V pr.bbox x y shape 0 else 0
      let Pj : Color := fun ch => aj * color0 ch
      let Pj' := if clips.isEmpty then Pj
        else fzC n (clipGroupColor (specClipsF k n B V x y (fzS n (SState.init Pj aj false)) clips) aj)
      fzS n (specFinish k B V x y σ pr Pj' aj aj)
  | .group pr passThrough children clips =>
    if !pr.visible then σ
    else if intersect V pr.bbox = Rect.zero then σ
    else if !inClipRun && pr.clipping && pr.hasClipTarget then σ
    else
      let V' := intersect V pr.bbox
      let Pb : Color := if pr.knockout then σ.P0 else σ.P
      let αb : Rat := if pr.knockout then σ.a0 else σ.a
      let inside := V'.contains x y
      let sub := specListF k n B V' x y (fzS n (SState.init Pb αb (!passThrough))) children
      let Pj : Color := if inside then fzC n (groupColor sub) else fun _ => 0
      let fj : Rat := if inside then sub.sg else 0
      let aj : Rat := if inside then sub.ag else 0
      let Pj' := if clips.isEmpty then Pj
        else fzC n (clipGroupColor (specClipsF k n B V x y (fzS n (SState.init Pj aj false)) clips) aj)
      fzS n (specFinish k B V x y σ pr Pj' fj aj)

def specListF (k : KoRule) (n : Nat) (B : Mode → Color → Color → Color) (V : Rect) (x y : Int) (σ : SState) : List Node → SState
  | [] => σ
  | nd :: rest => specListF k n B V x y (specNodeF k n B V x y false σ nd) rest

def specClipsF (k : KoRule) (n : Nat) (B : Mode → Color → Color → Color) (V : Rect) (x y : Int) (σ : SState) : List Node → SState
  | [] => σ
  | nd :: rest => specClipsF k n B V x y (specNodeF k n B V x y true σ nd) rest

end

/-- `specDoc` through the tabulating evaluator -/
def specDocF (k : KoRule) (n : Nat) (B : Mode → Color → Color → Color) (V : Rect) (x y : Int) (P : Color) (alpha : Rat)
    (layers : List Node) : Color × Rat × Rat :=
  let σ := specListF k n B V x y (fzS n (SState.init P alpha false)) layers
  (groupColor σ, σ.sg, σ.ag)

end PsdVerif.Composite
