/-
C16 — layer attributes: the record fields and tagged blocks that carry them, the
getters/setters of `psd_tools.api.layers` (as repaired, see findings.d/C16.json),
the constructors of API-created layers, and save/reopen of exactly these fields.

Core Lean only (the driver links this file).

What is modelled structurally: the layer record fields (rectangle, blend mode key,
opacity, clipping, flags, legacy name) and the ordered dict of tagged blocks with
`luni` (StringElement), `lsct`/`lsdk` (SectionDividerSetting) and `lspf`
(ProtectedSetting) structural and every other block opaque (`raw`).  Pixels are an
opaque component.  Tables of the source (`BlendMode`, the MacRoman codec) and the
unicode-string codec (owned by C19) enter through `Env`.
-/
import PsdVerif.Model.Basic

namespace PsdVerif.Attr

abbrev Key := List UInt8

def sig8BIM : Key := [56, 66, 73, 77]
def sig8B64 : Key := [56, 66, 54, 52]
def kLuni : Key := [108, 117, 110, 105]
def kLsct : Key := [108, 115, 99, 116]
def kLsdk : Key := [108, 115, 100, 107]
def kLspf : Key := [108, 115, 112, 102]
def kNorm : Key := [110, 111, 114, 109]
def kPass : Key := [112, 97, 115, 115]

/-- Layer kinds of the API (`FillLayer`/`AdjustmentLayer` subclasses are one kind each). -/
inductive Kind where
  | pixel | group | artboard | type | shape | smartObject | fill | adjustment
  deriving DecidableEq, Repr, Inhabited

/-- `left`/`top` are writable (`Layer.left` setter) for these kinds; `Group` has a
read-only property (AttributeError), `Artboard`/`ShapeLayer` raise NotImplementedError. -/
def Kind.movable : Kind → Bool
  | .pixel | .type | .smartObject | .fill | .adjustment => true
  | .group | .artboard | .shape => false

/-- `Group.blend_mode` (section divider first) applies to groups and artboards. -/
def Kind.isGroup : Kind → Bool
  | .group | .artboard => true
  | _ => false

/-- `SectionDividerSetting` -/
structure Divider where
  kind : Nat
  sig : Option Key
  blend : Option Key
  sub : Option Nat
  deriving DecidableEq, Repr

/-- Data of a tagged block. -/
inductive BData where
  | str (s : List Nat)        -- StringElement (code points)
  | divider (d : Divider)
  | int (v : Nat)             -- IntegerElement / ProtectedSetting
  | raw (bs : List UInt8)     -- opaque
  deriving DecidableEq, Repr

structure Block where
  sig : Key
  key : Key
  data : BData
  deriving DecidableEq, Repr

/-- `LayerFlags` as kept in memory (`visible` is stored inverted on disk). -/
structure Flags where
  tp : Bool := false
  visible : Bool := true
  obsolete : Bool := false
  v5 : Bool := true
  irrelevant : Bool := false
  u1 : Bool := false
  u2 : Bool := false
  u3 : Bool := false
  deriving DecidableEq, Repr

structure Layer where
  kind : Kind
  top : Int
  left : Int
  bottom : Int
  right : Int
  blend : Key
  opacity : Nat
  clipping : Nat
  flags : Flags
  legacyName : List Nat
  blocks : List Block
  /-- channel data: opaque -/
  pixels : List UInt8
  /-- `layer._psd`: `none`, or the canvas size of the document -/
  psd : Option (Int × Int)
  deriving DecidableEq, Repr

/-- What the model needs from the source tables and from the string codecs. -/
structure Env where
  blendKeys : List Key
  macEnc : List Nat → Except Err (List UInt8)
  macDec : List UInt8 → Except Err (List Nat)
  uniEnc : List Nat → Except Err (List UInt8)
  uniDec : List UInt8 → Except Err (List Nat)
  /-- `LayerRecord` writes `?` in the legacy field when the name cannot be encoded and a
  `luni` block exists (repair owned by C19; absent on some branches) -/
  legacyFallback : Bool

/-! ### TaggedBlocks -/

/-- `TaggedBlocks.get(key)`; `Tag` members and their byte values are the same key. -/
def findBlock (k : Key) (bs : List Block) : Option Block := bs.find? (fun b => b.key == k)

/-- `TaggedBlocks.set_data(key, …)`: a new `TaggedBlock(key=key, data=kls(…))` (default
signature) replaces the item in place when the key exists, else it is appended. -/
def setData (k : Key) (d : BData) : List Block → List Block
  | [] => [⟨sig8BIM, k, d⟩]
  | b :: bs => if b.key == k then ⟨sig8BIM, k, d⟩ :: bs else b :: setData k d bs

/-- in-place mutation of the data object of the first block with key `k` -/
def mapData (k : Key) (f : BData → BData) : List Block → List Block
  | [] => []
  | b :: bs => if b.key == k then { b with data := f b.data } :: bs else b :: mapData k f bs

/-! ### Attributes -/

inductive Attr where
  | name | visible | opacity | blendMode | left | top | clipping | locks
  deriving DecidableEq, Repr, Inhabited

def Attr.all : List Attr := [.name, .visible, .opacity, .blendMode, .left, .top, .clipping, .locks]

/-- Values the getters return. `obj`: an element object that is not a plain value;
`derived`: computed from data outside this model (bounding box of groups, artboards, shapes). -/
inductive Val where
  | str (s : List Nat) | bool (b : Bool) | int (i : Int) | key (k : Key) | none | obj | derived
  deriving DecidableEq, Repr, Inhabited

/-- `get_data` unwraps `ValueElement`s. -/
def dataVal : BData → Val
  | .str s => .str s
  | .int v => .int v
  | _ => .obj

/-- `Group._setting` (repaired): `lsct`, overridden by `lsdk`. -/
def settingKey (bs : List Block) : Option Key :=
  if (findBlock kLsdk bs).isSome then some kLsdk
  else if (findBlock kLsct bs).isSome then some kLsct
  else none

def setting (bs : List Block) : Option BData :=
  match settingKey bs with
  | some k => (findBlock k bs).map (·.data)
  | none => none

/-- `FillLayer.right`: the record's, or the canvas width when the record says 0. -/
def rightOf (l : Layer) : Except Err Int :=
  if l.kind = .fill then
    if l.right ≠ 0 then .ok l.right
    else match l.psd with
      | some (w, _) => .ok w
      | none => .error .valueError
  else .ok l.right

def bottomOf (l : Layer) : Except Err Int :=
  if l.kind = .fill then
    if l.bottom ≠ 0 then .ok l.bottom
    else match l.psd with
      | some (_, h) => .ok h
      | none => .error .valueError
  else .ok l.bottom

def width (l : Layer) : Except Err Int :=
  match rightOf l with
  | .ok r => .ok (r - l.left)
  | .error e => .error e

def height (l : Layer) : Except Err Int :=
  match bottomOf l with
  | .ok b => .ok (b - l.top)
  | .error e => .error e

def get (a : Attr) (l : Layer) : Except Err Val :=
  match a with
  | .name =>
    match findBlock kLuni l.blocks with
    | some b => .ok (dataVal b.data)
    | none => .ok (.str l.legacyName)
  | .visible => .ok (.bool l.flags.visible)
  | .opacity => .ok (.int l.opacity)
  | .blendMode =>
    if l.kind.isGroup then
      match setting l.blocks with
      | some (.divider d) =>
        (match d.blend with
         | some m => .ok (.key m)
         | none => .ok (.key l.blend))
      | some _ => .error .other          -- AttributeError: not a SectionDividerSetting
      | none => .ok (.key l.blend)
    else .ok (.key l.blend)
  | .left => if l.kind.movable then .ok (.int l.left) else .ok .derived
  | .top => if l.kind.movable then .ok (.int l.top) else .ok .derived
  | .clipping => .ok (.bool (l.clipping == 1))
  | .locks =>
    match findBlock kLspf l.blocks with
    | some b => .ok (dataVal b.data)
    | none => .ok .none

def setName (E : Env) (v : List Nat) (l : Layer) : Except Err Layer :=
  if v.length < 256 then
    let legacy := match E.macEnc v with
      | .ok _ => v
      | .error _ => [63]
    .ok { l with legacyName := legacy, blocks := setData kLuni (.str v) l.blocks }
  else .error .assertionError

/-- the group setter's write to the divider element (repaired: completes the signature) -/
def putBlend (m : Key) : BData → BData
  | .divider d =>
    .divider { d with sig := (match d.sig with | some s => some s | none => some sig8BIM), blend := some m }
  | x => x

def setBlend (E : Env) (m : Key) (l : Layer) : Except Err Layer :=
  if ¬ (m ∈ E.blendKeys) then .error .valueError
  else if l.kind.isGroup then
    let l1 := { l with blend := if m = kPass then kNorm else m }
    match settingKey l.blocks with
    | none => .ok l1
    | some k =>
      match setting l.blocks with
      | some (.divider _) => .ok { l1 with blocks := mapData k (putBlend m) l.blocks }
      | _ => .error .other
  else .ok { l with blend := m }

def setLeft (v : Int) (l : Layer) : Except Err Layer :=
  if l.kind.movable then
    match width l with
    | .ok w => .ok { l with left := v, right := v + w }
    | .error e => .error e
  else .error .other

def setTop (v : Int) (l : Layer) : Except Err Layer :=
  if l.kind.movable then
    match height l with
    | .ok h => .ok { l with top := v, bottom := v + h }
    | .error e => .error e
  else .error .other

/-- `Layer.lock(flags)` (repaired): mutate the stored element; when there is none,
`set_data(lspf, 0)` first. -/
def setLocks (v : Nat) (l : Layer) : Except Err Layer :=
  match findBlock kLspf l.blocks with
  | some b =>
    (match b.data with
     | .int _ => .ok { l with blocks := mapData kLspf (fun _ => .int v) l.blocks }
     | _ => .error .other)
  | none => .ok { l with blocks := setData kLspf (.int v) l.blocks }

def set (E : Env) (a : Attr) (v : Val) (l : Layer) : Except Err Layer :=
  match a, v with
  | .name, .str s => setName E s l
  | .visible, .bool b => .ok { l with flags := { l.flags with visible := b } }
  | .opacity, .int i =>
    if 0 ≤ i ∧ i ≤ 255 then .ok { l with opacity := i.toNat } else .error .assertionError
  | .blendMode, .key m => setBlend E m l
  | .left, .int i => setLeft i l
  | .top, .int i => setTop i l
  | .clipping, .bool b => .ok { l with clipping := if b then 1 else 0 }
  | .locks, .int i => if 0 ≤ i then setLocks i.toNat l else .error .typeError
  | _, _ => .error .typeError

/-- values of the property's quantifier -/
def valid (E : Env) (a : Attr) (v : Val) : Prop :=
  match a, v with
  | .name, .str s => s.length ≤ 255
  | .visible, .bool _ => True
  | .opacity, .int i => 0 ≤ i ∧ i ≤ 255
  | .blendMode, .key m => m ∈ E.blendKeys
  | .left, .int i => -2147483648 ≤ i ∧ i ≤ 2147483647
  | .top, .int i => -2147483648 ≤ i ∧ i ≤ 2147483647
  | .clipping, .bool _ => True
  | .locks, .int i => 0 ≤ i ∧ i < 4294967296
  | _, _ => False

/-- `layer.offset = (x, y)` is `layer.left = x; layer.top = y`. -/
def setOffset (x y : Int) (l : Layer) : Except Err Layer :=
  match setLeft x l with
  | .ok l1 => setTop y l1
  | .error e => .error e

/-! ### Constructors of API-created layers -/

/-- `Group.new(name, open_folder)` (repaired): the opening record. -/
def groupNew (name : List Nat) (openFolder : Bool) : Layer :=
  { kind := .group, top := 0, left := 0, bottom := 0, right := 0, blend := kNorm, opacity := 255,
    clipping := 0, flags := {}, legacyName := name,
    blocks := [⟨sig8BIM, kLsct, .divider ⟨if openFolder then 1 else 2, some sig8BIM, some kPass, none⟩⟩,
               ⟨sig8BIM, kLuni, .str name⟩],
    pixels := [], psd := none }

/-- `PixelLayer.frompil(im, psd, name, top, left)` (repaired: the name goes through the setter). -/
def frompil (E : Env) (name : List Nat) (top left w h : Int) (psd : Option (Int × Int))
    (pixels : List UInt8) : Except Err Layer :=
  setName E name
    { kind := .pixel, top := top, left := left, bottom := top + h, right := left + w, blend := kNorm,
      opacity := 255, clipping := 0, flags := {}, legacyName := name, blocks := [],
      pixels := pixels, psd := psd }

/-- appending to a document / group of a document sets `_psd` -/
def attach (c : Int × Int) (l : Layer) : Layer := { l with psd := some c }

/-! ### Save and reopen (record fields and blocks) -/

def u32be (n : Nat) : List UInt8 :=
  [UInt8.ofNat (n / 16777216 % 256), UInt8.ofNat (n / 65536 % 256), UInt8.ofNat (n / 256 % 256), UInt8.ofNat (n % 256)]

def u32 (a b c d : UInt8) : Nat := ((a.toNat * 256 + b.toNat) * 256 + c.toNat) * 256 + d.toNat

/-- `struct` format `4s` -/
def pad4 (s : List UInt8) : List UInt8 := (s ++ [0, 0, 0, 0]).take 4

structure SBlock where
  sig : Key
  key : Key
  payload : List UInt8
  deriving DecidableEq, Repr

structure Stored where
  top : Int
  left : Int
  bottom : Int
  right : Int
  blend : Key
  opacity : Nat
  clipping : Nat
  flags : Nat
  name : List UInt8
  blocks : List SBlock
  deriving DecidableEq, Repr

def b2n (b : Bool) : Nat := if b then 1 else 0

/-- `LayerFlags.write`: bit 1 is *not visible*. -/
def Flags.toByte (f : Flags) : Nat :=
  b2n f.tp + 2 * b2n (!f.visible) + 4 * b2n f.obsolete + 8 * b2n f.v5 + 16 * b2n f.irrelevant
    + 32 * b2n f.u1 + 64 * b2n f.u2 + 128 * b2n f.u3

def Flags.ofByte (n : Nat) : Flags :=
  { tp := n % 2 == 1, visible := !(n / 2 % 2 == 1), obsolete := n / 4 % 2 == 1, v5 := n / 8 % 2 == 1,
    irrelevant := n / 16 % 2 == 1, u1 := n / 32 % 2 == 1, u2 := n / 64 % 2 == 1, u3 := n / 128 % 2 == 1 }

def inI32 (x : Int) : Bool := decide (-2147483648 ≤ x) && decide (x ≤ 2147483647)

/-- `SectionDividerSetting.write` -/
def encDivider (d : Divider) : Except Err (List UInt8) :=
  if d.kind < 4294967296 then
    match d.sig, d.blend with
    | some s, some m =>
      if s.isEmpty || m.isEmpty then .ok (u32be d.kind)
      else match d.sub with
        | some x => if x < 4294967296 then .ok (u32be d.kind ++ pad4 s ++ pad4 m ++ u32be x) else .error .structError
        | none => .ok (u32be d.kind ++ pad4 s ++ pad4 m)
    | _, _ => .ok (u32be d.kind)
  else .error .structError

/-- `SectionDividerSetting.read` -/
def decDivider (E : Env) : List UInt8 → Except Err Divider
  | a :: b :: c :: d :: rest =>
    let kind := u32 a b c d
    if kind > 3 then .error .valueError
    else match rest with
      | s0 :: s1 :: s2 :: s3 :: m0 :: m1 :: m2 :: m3 :: rest2 =>
        if [s0, s1, s2, s3] ≠ sig8BIM then .error .assertionError
        else if ¬ ([m0, m1, m2, m3] ∈ E.blendKeys) then .error .valueError
        else match rest2 with
          | x :: y :: z :: w :: _ => .ok ⟨kind, some [s0, s1, s2, s3], some [m0, m1, m2, m3], some (u32 x y z w)⟩
          | _ => .ok ⟨kind, some [s0, s1, s2, s3], some [m0, m1, m2, m3], none⟩
      | x :: y :: z :: w :: _ => .ok ⟨kind, none, none, some (u32 x y z w)⟩
      | _ => .ok ⟨kind, none, none, none⟩
  | _ => .error .other

def encPayload (E : Env) : BData → Except Err (List UInt8)
  | .str s => E.uniEnc s
  | .divider d => encDivider d
  | .int v => if v < 4294967296 then .ok (u32be v) else .error .structError
  | .raw bs => .ok bs

def encBlock (E : Env) (b : Block) : Except Err SBlock :=
  match encPayload E b.data with
  | .ok payload => .ok ⟨pad4 b.sig, pad4 b.key, payload⟩
  | .error e => .error e

def decBlock (E : Env) (sb : SBlock) : Except Err Block :=
  if sb.sig ≠ sig8BIM ∧ sb.sig ≠ sig8B64 then .error .other
  else if sb.key = kLuni then
    match E.uniDec sb.payload with
    | .ok s => .ok ⟨sb.sig, sb.key, .str s⟩
    | .error e => .error e
  else if sb.key = kLsct ∨ sb.key = kLsdk then
    match decDivider E sb.payload with
    | .ok d => .ok ⟨sb.sig, sb.key, .divider d⟩
    | .error e => .error e
  else if sb.key = kLspf then
    match sb.payload with
    | a :: b :: c :: d :: _ => .ok ⟨sb.sig, sb.key, .int (u32 a b c d)⟩
    | _ => .error .other
  else .ok ⟨sb.sig, sb.key, .raw sb.payload⟩

/-- legacy Pascal-string field of the record -/
def encLegacy (E : Env) (l : Layer) : Except Err (List UInt8) :=
  let strict : Except Err (List UInt8) :=
    match E.macEnc l.legacyName with
    | .ok bs => if bs.length ≤ 255 then .ok bs else .error .structError
    | .error e => .error e
  if E.legacyFallback && (findBlock kLuni l.blocks).isSome then
    match strict with
    | .ok bs => .ok bs
    | .error _ => .ok [63]
  else strict

/-- `LayerRecord.write`, the modelled fields in the order they are written. -/
def save (E : Env) (l : Layer) : Except Err Stored :=
  if !(inI32 l.top && inI32 l.left && inI32 l.bottom && inI32 l.right) then .error .structError
  else if l.opacity > 255 ∨ l.clipping > 255 then .error .structError
  else
    match encLegacy E l with
    | .error e => .error e
    | .ok name =>
      match l.blocks.mapM (encBlock E) with
      | .error e => .error e
      | .ok blocks =>
        .ok { top := l.top, left := l.left, bottom := l.bottom, right := l.right, blend := pad4 l.blend,
              opacity := l.opacity, clipping := l.clipping, flags := l.flags.toByte, name := name,
              blocks := blocks }

/-- `LayerRecord.read` of what `save` wrote; kind, pixels and the document come from the rest
of the file (`ctx`), which other properties cover. -/
def reopen (E : Env) (ctx : Layer) (st : Stored) : Except Err Layer :=
  match E.macDec st.name with
  | .error e => .error e
  | .ok name =>
    match st.blocks.mapM (decBlock E) with
    | .error e => .error e
    | .ok blocks =>
      if ¬ (st.blend ∈ E.blendKeys) then .error .valueError
      else if st.opacity > 255 then .error .valueError
      else if st.clipping > 1 then .error .valueError
      else .ok { kind := ctx.kind, top := st.top, left := st.left, bottom := st.bottom, right := st.right,
                 blend := st.blend, opacity := st.opacity, clipping := st.clipping,
                 flags := Flags.ofByte st.flags, legacyName := name, blocks := blocks,
                 pixels := ctx.pixels, psd := ctx.psd }

/-! ### Concrete codecs for the driver (and for the theorems about the current tables) -/

def macEncOf (high : List Nat) (s : List Nat) : Except Err (List UInt8) :=
  s.mapM (fun c =>
    if c < 128 then .ok (UInt8.ofNat c)
    else match high.findIdx? (· == c) with
      | some i => if i < 128 then .ok (UInt8.ofNat (128 + i)) else .error .unicodeError
      | none => .error .unicodeError)

def macDecOf (high : List Nat) (bs : List UInt8) : Except Err (List Nat) :=
  bs.mapM (fun b =>
    if b.toNat < 128 then .ok b.toNat
    else match high[b.toNat - 128]? with
      | some c => .ok c
      | none => .error .unicodeError)

def u16be (n : Nat) : List UInt8 := [UInt8.ofNat (n / 256 % 256), UInt8.ofNat (n % 256)]

/-- `write_padding(fp, written, 4)` -/
def padTo4 (bs : List UInt8) : List UInt8 := bs ++ List.replicate ((4 - bs.length % 4) % 4) 0

/-- code units of a string: one 16-bit unit per character (`array('H')`, OverflowError above
U+FFFF), or real UTF-16 with `surrogatepass` -/
def toUnits (utf16 : Bool) : List Nat → Except Err (List Nat)
  | [] => .ok []
  | c :: cs => do
    let rest ← toUnits utf16 cs
    if c < 65536 then pure (c :: rest)
    else if utf16 then pure ((55296 + (c - 65536) / 1024) :: (56320 + (c - 65536) % 1024) :: rest)
    else .error .overflowError

def ofUnits (utf16 : Bool) : List Nat → List Nat
  | [] => []
  | [u] => [u]
  | u :: v :: rest =>
    if utf16 && decide (55296 ≤ u ∧ u < 56320 ∧ 56320 ≤ v ∧ v < 57344) then
      (65536 + (u - 55296) * 1024 + (v - 56320)) :: ofUnits utf16 rest
    else u :: ofUnits utf16 (v :: rest)

def unitsOfBytes : List UInt8 → List Nat
  | a :: b :: rest => (a.toNat * 256 + b.toNat) :: unitsOfBytes rest
  | _ => []

def uniEncOf (utf16 : Bool) (s : List Nat) : Except Err (List UInt8) := do
  let us ← toUnits utf16 s
  if us.length < 4294967296 then
    pure (padTo4 (u32be us.length ++ (us.map u16be).flatten))
  else .error .structError

def uniDecOf (utf16 : Bool) : List UInt8 → Except Err (List Nat)
  | a :: b :: c :: d :: rest =>
    let n := u32 a b c d
    .ok (ofUnits utf16 (unitsOfBytes (rest.take (2 * n))))
  | _ => .error .other

def mkEnv (blendKeys : List Key) (macHigh : List Nat) (utf16 fallback : Bool) : Env :=
  { blendKeys := blendKeys, macEnc := macEncOf macHigh, macDec := macDecOf macHigh,
    uniEnc := uniEncOf utf16, uniDec := uniDecOf utf16, legacyFallback := fallback }

/-! ### Several layers: who owns the `LayerFlags` object

Python objects have identity: a `LayerRecord` does not contain its `LayerFlags`, it refers to an
object, and `layer.visible = v` mutates that object. `LayerRecord.flags` is declared with
`attr.ib(factory=LayerFlags)`: every record built without explicit flags (`Group.new`, its
bounding record, `PixelLayer.frompil`) and every record read from a file gets an object of its
own. The layers of all documents of the process are `recs[i] = (record fields, address of the
flags object)` — the `flags` component of the fields is not used; the layer as the API sees it is
`view`. (The other mutable elements of a record — blocks, blending ranges — are owned in the same
way; the harness checks the identities of all of them. The flags are the element the constructors
create by default and a setter mutates in place, so they are the one modelled with addresses.) -/

structure Doc where
  recs : List (Layer × Nat)
  heap : List Flags
  deriving DecidableEq, Repr

/-- layer `i` as the getters see it -/
def Doc.view (d : Doc) (i : Nat) : Option Layer :=
  match d.recs[i]? with
  | some (l, r) => (d.heap[r]?).map fun f => { l with flags := f }
  | none => none

/-- a record constructor with `factory=LayerFlags`: a fresh object for this record -/
def Doc.newLayer (l : Layer) (d : Doc) : Doc :=
  { recs := d.recs ++ [(l, d.heap.length)], heap := d.heap ++ [l.flags] }

/-- what `attr.ib(default=LayerFlags())` would be: the object at `shared`, created once with the
class, for every record built without explicit flags (witness definition; not the code) -/
def Doc.newLayerSharedDefault (shared : Nat) (l : Layer) (d : Doc) : Doc :=
  { d with recs := d.recs ++ [(l, shared)] }

/-- an attribute edit of layer `i` through the API: the setter runs on the layer as seen; the
record fields go back to record `i`, the flags to the object that record refers to -/
def Doc.edit (E : Env) (a : Attr) (v : Val) (i : Nat) (d : Doc) : Except Err Doc :=
  match d.recs[i]?, d.view i with
  | some (_, r), some l =>
    (match set E a v l with
     | .ok l' => .ok { recs := d.recs.set i (l', r), heap := d.heap.set r l'.flags }
     | .error e => .error e)
  | _, _ => .error .indexError

/-- every record owns its flags object: the addresses are valid and pairwise different -/
def Doc.Owned (d : Doc) : Prop :=
  (∀ (i j : Nat) (li lj : Layer) (ri rj : Nat),
      d.recs[i]? = some (li, ri) → d.recs[j]? = some (lj, rj) → i ≠ j → ri ≠ rj) ∧
  (∀ (i : Nat) (li : Layer) (ri : Nat), d.recs[i]? = some (li, ri) → ri < d.heap.length)

/-- a step of a history over several layers: an attribute edit of one of them, or a new layer -/
inductive DocOp where
  | edit (i : Nat) (a : Attr) (v : Val)
  | new (l : Layer)

def Doc.step (E : Env) (d : Doc) : DocOp → Except Err Doc
  | .edit i a v => d.edit E a v i
  | .new l => .ok (d.newLayer l)

/-- a refused edit leaves everything as it is and the history goes on (the Python exception is caught) -/
def Doc.run (E : Env) : Doc → List DocOp → Doc
  | d, [] => d
  | d, o :: os =>
    match d.step E o with
    | .ok d' => Doc.run E d' os
    | .error _ => Doc.run E d os

/-! ### What went wrong before the repairs (witness definitions) -/

/-- `Group.new` before 076e090: divider without signature and blend mode. -/
def legacyGroupNew (name : List Nat) (openFolder : Bool) : Layer :=
  { groupNew name openFolder with
    blocks := [⟨sig8BIM, kLsct, .divider ⟨if openFolder then 1 else 2, none, none, none⟩⟩,
               ⟨sig8BIM, kLuni, .str name⟩] }

/-- `Group.blend_mode` before 8501da8/0a3cd60: `lsct` only; the block's value even when None;
the setter leaves the signature alone. -/
def legacyGetBlend (l : Layer) : Except Err Val :=
  if l.kind.isGroup then
    match findBlock kLsct l.blocks with
    | some ⟨_, _, .divider d⟩ => (match d.blend with | some m => .ok (.key m) | none => .ok .none)
    | some _ => .error .other
    | none => .ok (.key l.blend)
  else .ok (.key l.blend)

def legacyPutBlend (m : Key) : BData → BData
  | .divider d => .divider { d with blend := some m }
  | x => x

def legacySetBlend (E : Env) (m : Key) (l : Layer) : Except Err Layer :=
  if ¬ (m ∈ E.blendKeys) then .error .valueError
  else if l.kind.isGroup then
    .ok { l with blend := if m = kPass then kNorm else m,
                 blocks := mapData kLsct (legacyPutBlend m) l.blocks }
  else .ok { l with blend := m }

/-- `Layer.lock` before 1e2bade: without a block, a copy holding 0 is stored and the flags
go to the discarded original. -/
def legacySetLocks (v : Nat) (l : Layer) : Except Err Layer :=
  match findBlock kLspf l.blocks with
  | some _ => setLocks v l
  | none => .ok { l with blocks := setData kLspf (.int 0) l.blocks }

/-- `clipping_layer` setter before 700ec90: `if self._psd:` (falsy for no document and for
a document without layers; the latter is not distinguished here). -/
def legacySetClipping (b : Bool) (l : Layer) : Layer :=
  match l.psd with
  | some _ => { l with clipping := if b then 1 else 0 }
  | none => l

end PsdVerif.Attr
