/-
C02 on the payload layer — vocabulary.

* (read format, write format) PAIRS of `struct` fields: `FT.accepts r w` says that every value `read_fmt` can return for a
  field of format `r` is accepted by `struct.pack` for a field of format `w` (Lemmas/PayloadResaveFmt.lean proves that this
  is exact); `fmtPairSame` is the stronger relation the source is held to: the formats a class's `read` unpacks are, item
  by item, the formats its `write` packs (same layout, same value domain). The table of pairs is regenerated from the AST
  of every `read` / `write` (Generated/C02Formats.lean, harness/extract_c02.py).
* the laws of a payload codec that C02 asks for: `DecOK` (whatever the reader returns, the writer accepts, and it lies in
  the domain of C01's round-trip law: nothing is normalised away), `Stable` (the three clauses of the property for one
  payload on its own stream, the way `frombytes` runs the reader).

Core Lean only.
-/
import PsdVerif.Model.Payload3Base

namespace PsdVerif.Payload3
open PsdVerif PsdVerif.Codec PsdVerif.Payload

/-! ### pairs of struct fields -/

/-- every value a field read with format `r` can have is accepted by `struct.pack` for a field of format `w` -/
def FT.accepts : FT → FT → Bool
  | .u a, .u b => decide (a ≤ b)
  | .u a, .s b => decide (a < b)
  | .s _, .u _ => false                    -- a negative value
  | .s a, .s b => decide (a ≤ b)
  | .q, .u b => decide (1 ≤ b)             -- `True` is the integer 1
  | .q, .s b => decide (1 ≤ b)
  | .q, .q => true
  | .u _, .q => true                       -- `?` packs the truth value of any object (and loses the number)
  | .s _, .q => true
  | .str _, .str _ => true                 -- `ns` truncates or fills
  | .str _, _ => false                     -- `struct.error: required argument is not an integer`
  | _, .str _ => false                     -- `struct.error: argument for 's' must be a bytes object`

/-- item by item: a filler stays a filler of the same size, a field is accepted -/
def fmtAccepts : List FI → List FI → Bool
  | [], [] => true
  | .pad n :: rs, .pad m :: ws => n == m && fmtAccepts rs ws
  | .fld r :: rs, .fld w :: ws => r.size == w.size && r.accepts w && fmtAccepts rs ws
  | _, _ => false

/-- the formats `read` unpacks and the formats `write` packs are the same items in the same order (`"2H"` = `"HH"`) -/
def fmtPairSame (reads writes : List String) : Bool :=
  match parseFmts reads, parseFmts writes with
  | some r, some w => r == w
  | _, _ => false

/-- ... or at least every value read is accepted by the writer, in the same layout -/
def fmtPairAccepts (reads writes : List String) : Bool :=
  match parseFmts reads, parseFmts writes with
  | some r, some w => fmtAccepts r w
  | _, _ => false

/-- one row of the regenerated table: class, formats of `read_fmt` calls of its reader methods, formats of the `write_fmt`
calls of its writer methods, each in source order -/
abbrev FmtRow := String × List String × List String

/-- one row of the second table: class, the framing primitives (`read_length_block`, `read_pascal_string`,
`read_unicode_string` | the `write_…` ones) its reader | writer calls with the arguments that fix the layout
(`fmt=…`, `padding=…`), in source order -/
abbrev FrameRow := String × List String × List String

/-! ### the laws -/

variable {α : Type}

/-- the same under a side condition `L` on the decoded value: a length the writer derives (the length field of a
re-encoded block) fits its field, or the value avoids a shape the format cannot tell apart (a `…_partial` theorem) -/
def DecOKIf (c : PCodec α) (L : α → Prop) : Prop :=
  ∀ (d : B) (p : Nat) (v : α) (p' : Nat), c.dec d p = .ok (v, p') → L v → c.WF v ∧ c.Fits v

/-- whatever the reader returns, the writer accepts (`dec_returns_encodable`) and C01's round trip applies to it -/
def DecOK (c : PCodec α) : Prop :=
  ∀ (d : B) (p : Nat) (v : α) (p' : Nat), c.dec d p = .ok (v, p') → c.WF v ∧ c.Fits v

/-- the writer accepts the value -/
def Encodable (c : PCodec α) (v : α) : Prop := ∃ bs, c.enc v = .ok bs

/-- the resave law for one payload on its own stream (`K.frombytes(b)`, `x.tobytes()`): for EVERY accepted byte string,
saving succeeds, the saved bytes re-read to the same value, and saving what was re-read gives the same bytes -/
def StableIf (c : PCodec α) (L : α → Prop) : Prop :=
  ∀ (b : B) (v : α) (n : Nat), c.dec b 0 = .ok (v, n) → L v →
    ∃ b', c.enc v = .ok b' ∧ c.dec b' 0 = .ok (v, c.consumed v) ∧
      ∀ v' n', c.dec b' 0 = .ok (v', n') → v' = v ∧ c.enc v' = .ok b'

def Stable (c : PCodec α) : Prop := StableIf c (fun _ => True)

end PsdVerif.Payload3
