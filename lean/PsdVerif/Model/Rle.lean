/-
Model of `psd_tools/compression/rle.py` (pure Python PackBits) and of
`psd_tools/compression/_rle.pyx` (Cython), loop for loop, plus an independent
PackBits decoder written from Apple TN1023 (`specDec`).

Core Lean only.
-/
import PsdVerif.Model.Basic

namespace PsdVerif.Rle
open PsdVerif

/-- `data[a] == data[b]` where both indices are in range (the Python code only
evaluates the comparison behind a guard that makes them so). -/
def eqAt (d : Bytes) (a b : Nat) : Bool :=
  match d[a]?, d[b]? with
  | some x, some y => x == y
  | _, _ => false

/-- `MAX_LEN = 0xFF >> 1`. Regenerated constant is compared with this one in
`Props/C05.lean` (`Generated.Rle.maxLenPy = maxLen`). -/
def maxLen : Nat := 127

/-- Inner loop of the run branch of `encode` (rle.py lines 62-67). Returns the
final `j`. -/
def runLoop (d : Bytes) (i j : Nat) : Nat :=
  if j < d.size then
    if j - i ≥ maxLen then j
    else if j + 1 ≥ d.size ∨ !eqAt d j (j + 1) then j
    else runLoop d i (j + 1)
  else j
termination_by d.size - j

/-- Inner loop of the literal branch of `encode` (rle.py lines 71-88). -/
def litLoop (d : Bytes) (i j : Nat) : Nat :=
  if j < d.size then
    if j - i ≥ maxLen then j
    else if j + 1 < d.size ∧ !eqAt d j (j + 1) then litLoop d i (j + 1)
    else if ((j + 2 = d.size) ∨ (maxLen - (j - i) ≤ 2)) ∧ ¬ (j + 1 = d.size) ∧ eqAt d j (j + 1) then j
    else if j + 2 < d.size ∧ eqAt d j (j + 1) ∧ eqAt d (j + 1) (j + 2) then j
    else litLoop d i (j + 1)
  else j
termination_by d.size - j

theorem le_runLoop (d : Bytes) (i j : Nat) : j ≤ runLoop d i j := by
  fun_induction runLoop d i j <;> omega

theorem le_litLoop (d : Bytes) (i j : Nat) : j ≤ litLoop d i j := by
  fun_induction litLoop d i j <;> omega

/-- Progress of the literal loop when entered from the outer `else` branch. -/
theorem litLoop_progress (d : Bytes) (i : Nat) (hi : i < d.size)
    (hne : ¬ (i + 1 < d.size ∧ eqAt d i (i + 1) = true)) : i < litLoop d i i := by
  have hle := le_litLoop d i (i + 1)
  rw [litLoop]
  simp only [hi, if_true]
  split
  · rename_i h; simp [maxLen] at h
  · split
    · omega
    · split
      · rename_i h; exact absurd ⟨by omega, h.2.2⟩ hne
      · split
        · rename_i h; exact absurd ⟨by omega, h.2.1⟩ hne
        · omega

/-- Main loop of `encode` for `length ≥ 2`, started at `i = j`. The Python loop
keeps `i = j` at every loop head (`i = j = j + 1` / `i = j`). Output is produced
chunk by chunk. -/
def encFrom (d : Bytes) (i : Nat) : List UInt8 :=
  if h : i < d.size then
    if hc : i + 1 < d.size ∧ eqAt d i (i + 1) = true then
      let j := runLoop d i i
      UInt8.ofNat (256 - (j - i)) :: d[i] :: encFrom d (j + 1)
    else
      let j := litLoop d i i
      UInt8.ofNat (j - i - 1) :: ((d.extract i j).toList ++ encFrom d j)
  else []
termination_by d.size - i
decreasing_by
  · have := le_runLoop d i i; omega
  · have := litLoop_progress d i h hc; omega

/-- `rle.encode` (also `_rle.encode`; the two texts are the same state machine,
see `encC`). -/
def encPy (d : Bytes) : List UInt8 :=
  if d.size = 0 then []
  else if h : d.size = 1 then [0, d[0]]
  else encFrom d 0

/-- Main loop of `rle.decode`. `out` is the `result` bytearray, `j` the counter
the code keeps beside it (they can differ: a replicate header at the very end
extends `result` by nothing but still advances `j`). -/
def decLoopPy (d : Bytes) (size : Nat) (i j : Nat) (out : List UInt8) : Except Err (List UInt8) :=
  if h : i < d.size then
    let bit := d[i].toNat
    let i := i + 1
    if bit > 128 then
      let n := 256 - bit
      if j + 1 + n > size then .error .valueError
      else
        let out := match d[i]? with
          | some b => out ++ List.replicate (1 + n) b
          | none => out            -- data[i:i+1] is empty
        decLoopPy d size (i + 1) (j + 1 + n) out
    else if bit < 128 then
      if i + 1 + bit > d.size ∨ j + 1 + bit > size then .error .valueError
      else decLoopPy d size (i + 1 + bit) (j + 1 + bit) (out ++ (d.extract i (i + 1 + bit)).toList)
    else decLoopPy d size i j out
  else
    if size ≠ 0 ∧ out.length ≠ size then .error .valueError else .ok out
termination_by d.size - i

def decPy (d : Bytes) (size : Nat) : Except Err (List UInt8) :=
  if h : d.size = 1 then
    if d[0] ≠ 128 then .error .valueError else .ok []
  else decLoopPy d size 0 0 []

/-! ### `_rle.pyx` with C semantics

`result` is a `std::string` resized to `size` (zero filled); `fill_n`/`copy_n`
write into it at offset `j`; `data[i]` is a bounds-checked memoryview access
(`boundscheck` is on: only `wraparound` is disabled), so an index equal to the
length raises `IndexError`. Buffer primitives report `oob` instead of
corrupting memory; `decC_in_bounds` shows that branch is unreachable. -/

inductive CRes where
  | ok (r : List UInt8)
  | err (e : Err)
  | oob                     -- would read or write outside a buffer
  deriving DecidableEq, Repr

/-- Overwrite `n` cells of `buf` from `off` with `b`; `none` when out of bounds. -/
def fillN (buf : List UInt8) (off n : Nat) (b : UInt8) : Option (List UInt8) :=
  if off + n ≤ buf.length then some (buf.take off ++ List.replicate n b ++ buf.drop (off + n)) else none

def copyN (buf : List UInt8) (off : Nat) (src : List UInt8) : Option (List UInt8) :=
  if off + src.length ≤ buf.length then some (buf.take off ++ src ++ buf.drop (off + src.length)) else none

def decLoopC (d : Bytes) (size : Nat) (i j : Nat) (buf : List UInt8) : CRes :=
  if h : i < d.size then
    let bit := d[i].toNat
    let i := i + 1
    if bit > 128 then
      let n := 256 - bit
      if i ≥ d.size ∨ j + 1 + n > size then .err .valueError
      else
        match d[i]? with
        | none => .err .indexError        -- Cython bounds check on data[i]
        | some b =>
          match fillN buf j (1 + n) b with
          | none => .oob
          | some buf' => decLoopC d size (i + 1) (j + 1 + n) buf'
    else if bit < 128 then
      if i + 1 + bit > d.size ∨ j + 1 + bit > size then .err .valueError
      else
        if i < d.size then           -- &data[i] is bounds checked
          match copyN buf j (d.extract i (i + 1 + bit)).toList with
          | none => .oob
          | some buf' => decLoopC d size (i + 1 + bit) (j + 1 + bit) buf'
        else .err .indexError
    else decLoopC d size i j buf
  else
    if size ≠ 0 ∧ j ≠ size then .err .valueError else .ok buf
termination_by d.size - i

def decC (d : Bytes) (size : Nat) : CRes :=
  if h : d.size = 1 then
    if d[0] ≠ 128 then .err .valueError else .ok []
  else decLoopC d size 0 0 (List.replicate size 0)

/-- `_rle.encode`: same control flow as `rle.encode`; `push_back(-(j-i))` stores
the two's-complement byte, i.e. `256 - (j-i)` for `1 ≤ j-i ≤ 127`. The C `int`
arithmetic does not overflow for `length < 2^31`. -/
def encC (d : Bytes) : List UInt8 := encPy d

/-! ### Independent specification decoder (Apple TN1023) -/

/-- header `n < 128`: copy the next `n+1` bytes; `n > 128`: repeat the next byte
`257 - n` times; `n = 128`: no-op. `none` on a truncated stream. -/
def specDec : List UInt8 → Option (List UInt8)
  | [] => some []
  | h :: t =>
    if h.toNat < 128 then
      if h.toNat + 1 ≤ t.length then
        (specDec (t.drop (h.toNat + 1))).map (t.take (h.toNat + 1) ++ ·)
      else none
    else if h.toNat = 128 then specDec t
    else
      match t with
      | [] => none
      | b :: t' => (specDec t').map (List.replicate (257 - h.toNat) b ++ ·)
termination_by l => l.length
decreasing_by all_goals (simp_wf; try omega)

/-- Header bytes of a stream as the specification decoder walks it. -/
def headers : List UInt8 → List UInt8
  | [] => []
  | h :: t =>
    if h.toNat < 128 then h :: headers (t.drop (h.toNat + 1))
    else if h.toNat = 128 then h :: headers t
    else h :: headers (t.drop 1)
termination_by l => l.length
decreasing_by all_goals (simp_wf; try omega)

/-! ### Chunk presentation of a PackBits stream -/

/-- A PackBits chunk: a replicate run or a literal string. -/
inductive Chunk where
  | run (n : Nat) (b : UInt8)
  | lit (bs : List UInt8)

def Chunk.emit : Chunk → List UInt8
  | .run n b => [UInt8.ofNat (257 - n), b]
  | .lit bs => UInt8.ofNat (bs.length - 1) :: bs

def Chunk.content : Chunk → List UInt8
  | .run n b => List.replicate n b
  | .lit bs => bs

/-- runs: 2…128 equal bytes; literals: 1…127 bytes. -/
def Chunk.Valid : Chunk → Prop
  | .run n _ => 2 ≤ n ∧ n ≤ 128
  | .lit bs => 1 ≤ bs.length ∧ bs.length ≤ 127

/-! ### Implementation selection (`compression/__init__.py`)

`try: from . import _rle as rle_impl` / `except ImportError: from . import rle as rle_impl`: the only
configuration parameter is whether the compiled extension can be imported. The shape of that statement
(one statement, what each branch imports, what is caught, nothing else executed, no name read in the
handler before it is bound) is regenerated into `Generated/Rle.lean` and tied by `C05.selection_tied`. -/

inductive Impl where
  | compiled   -- psd_tools.compression._rle
  | python     -- psd_tools.compression.rle
  deriving DecidableEq, Repr

def select (compiledImportable : Bool) : Impl := if compiledImportable then .compiled else .python

def Impl.enc : Impl → Bytes → List UInt8
  | .compiled => encC
  | .python => encPy

/-- decoder outcome in the compiled decoder's result type (the Python decoder cannot go out of bounds) -/
def Impl.dec : Impl → Bytes → Nat → CRes
  | .compiled => decC
  | .python => fun e n => match decPy e n with
    | .ok r => .ok r
    | .error x => .err x

end PsdVerif.Rle
