/-
C15 model: resolution of clipping relationships (`PSDImage._compute_clipping_layers`), and its
specification. Core Lean only.

Source: src/psd_tools/api/psd_image.py `_clear_clipping_layers`, `_compute_clipping_layers`
(`rec_helper`); api/layers.py `clip_layers`, `clipping_layer`, `_has_clip_target`;
constants.py `CompatibilityMode`.
-/
import PsdVerif.Model.TreeParse

namespace PsdVerif.Clip

/-- `constants.CompatibilityMode` (`DEFAULT` is an alias of `PHOTOSHOP`). -/
inductive CompatMode where
  | photoshop | paintToolSai | clipStudioPaint | gimp | krita
  deriving DecidableEq, Repr, Inhabited

/-- `compatibility_mode == PAINT_TOOL_SAI or compatibility_mode == CLIP_STUDIO_PAINT` -/
def CompatMode.restrictive : CompatMode → Bool
  | .photoshop => false
  | .paintToolSai => true
  | .clipStudioPaint => true
  | .gimp => false
  | .krita => false

/-- What `rec_helper` reads from one child of a group. -/
structure ChildFlags where
  /-- `sublayer.clipping_layer` (`record.clipping == NON_BASE`) -/
  clipping : Bool
  /-- `sublayer.is_group()` — only decides whether the pass recurses into the child -/
  isGroup : Bool
  /-- `sublayer.blend_mode == BlendMode.PASS_THROUGH` (for a group: the divider block's blend mode) -/
  passThrough : Bool
  deriving DecidableEq, Repr, Inhabited

/-- What the pass leaves on one child: `_clip_layers` (positions in the same children list,
    bottom first) and `_has_clip_target`. -/
structure ClipInfo where
  clipLayers : List Nat
  hasTarget : Bool
  deriving DecidableEq, Repr, Inhabited

/-- State of the pass over one children list: the local `stack` and the two per-layer attributes
    (looked up by position; updated pointwise as the Python code assigns attributes). -/
structure ClipSt where
  stack : List Nat
  clip : Nat → List Nat
  tgt : Nat → Bool

/-- After `_clear_clipping_layers()`: `_clip_layers = []`, `_has_clip_target = True` everywhere. -/
def ClipSt.init : ClipSt := ⟨[], fun _ => [], fun _ => true⟩

/-- `for clip_layer in stack: clip_layer._has_clip_target = False` -/
def ClipSt.noTarget (s : ClipSt) : ClipSt :=
  { s with tgt := fun j => if j ∈ s.stack then false else s.tgt j }

/-- Body of `for sublayer in reversed(layer._layers):` for the child at position `i`. -/
def stepClip (m : CompatMode) (s : ClipSt) (i : Nat) (c : ChildFlags) : ClipSt :=
  if c.clipping then
    { s with stack := s.stack ++ [i] }                                  -- stack.append(sublayer)
  else if c.passThrough && m.restrictive then
    { s.noTarget with stack := [] }
  else
    -- stack.reverse(); sublayer._clip_layers = stack; stack = []
    { s with clip := fun j => if j = i then s.stack.reverse else s.clip j, stack := [] }

/-- The loop; the argument lists the children top first (`reversed(layer._layers)`), so the
    position of the head is the number of children below it. -/
def loop (m : CompatMode) : List ChildFlags → ClipSt → ClipSt
  | [], s => s
  | c :: below, s => loop m below (stepClip m s below.length c)

/-- `rec_helper` on one children list (bottom first, as `_layers`), without the recursion. -/
def computeClip (m : CompatMode) (cs : List ChildFlags) : List ClipInfo :=
  let s := (loop m cs.reverse ClipSt.init).noTarget     -- the trailing `for clip_layer in stack`
  (List.range cs.length).map fun i => ⟨s.clip i, s.tgt i⟩

/-! ### Lifting over the tree of C08 -/

/-- Per-record flags, looked up by payload id (for a group: the id of its own record). -/
structure LayerFlags where
  clipping : Bool
  passThrough : Bool
  deriving DecidableEq, Repr, Inhabited

def childFlags (fl : Nat → LayerFlags) : Tree.Node → ChildFlags
  | .layer p => ⟨(fl p).clipping, false, (fl p).passThrough⟩
  | .group c _ _ _ => ⟨(fl c).clipping, true, (fl c).passThrough⟩

/-- One layer of the document after the pass: its id, the ids of its `_clip_layers`, `_has_clip_target`. -/
structure Entry where
  id : Nat
  clipIds : List Nat
  hasTarget : Bool
  deriving DecidableEq, Repr

/-- The entries of one children list. -/
def clipLevel (m : CompatMode) (fl : Nat → LayerFlags) (f : List Tree.Node) : List Entry :=
  (f.zip (computeClip m (f.map (childFlags fl)))).map fun (n, ci) =>
    ⟨n.id, ci.clipLayers.filterMap fun j => (f[j]?).map Tree.Node.id, ci.hasTarget⟩

mutual
/-- `rec_helper(sublayer)`: nothing for a non-group, the children list and the recursion for a group. -/
def clipNode (m : CompatMode) (fl : Nat → LayerFlags) : Tree.Node → List Entry
  | .layer _ => []
  | .group _ _ _ ch => clipLevel m fl ch ++ clipKids m fl ch
def clipKids (m : CompatMode) (fl : Nat → LayerFlags) : List Tree.Node → List Entry
  | [] => []
  | n :: ns => clipNode m fl n ++ clipKids m fl ns
end

/-- `rec_helper(self)` on the document. -/
def clipDoc (m : CompatMode) (fl : Nat → LayerFlags) (f : Tree.Forest) : List Entry :=
  clipLevel m fl f ++ clipKids m fl f

/-! ### Specification (per layer, no pass, no stack) -/

namespace Spec

/-- A layer can serve as clipping base: it is not itself a clipping layer, and in the SAI /
    Clip Studio modes its blend mode is not pass-through. -/
def eligible (m : CompatMode) (c : ChildFlags) : Bool :=
  !c.clipping && !(m.restrictive && c.passThrough)

/-- Number of consecutive clipping layers at the start of a list. -/
def runLen : List ChildFlags → Nat
  | [] => 0
  | c :: rest => if c.clipping then runLen rest + 1 else 0

/-- The maximal run of clipping layers directly above position `i`, in stacking order. -/
def runAbove (cs : List ChildFlags) (i : Nat) : List Nat :=
  List.range' (i + 1) (runLen (cs.drop (i + 1)))

/-- Looking down from a clipping layer (`below` lists the layers beneath it, nearest first):
    skip further clipping layers; the first non-clipping layer is the base candidate; the bottom
    of the group means there is none. -/
def targetIn (m : CompatMode) : List ChildFlags → Bool
  | [] => false
  | c :: rest => if c.clipping then targetIn m rest else eligible m c

/-- What the layer at position `i` (flags `c`) of the children list `cs` must carry. -/
def infoAt (m : CompatMode) (cs : List ChildFlags) (c : ChildFlags) (i : Nat) : ClipInfo :=
  { clipLayers := if eligible m c then runAbove cs i else [],
    hasTarget := if c.clipping then targetIn m (cs.take i).reverse else true }

def clip (m : CompatMode) (cs : List ChildFlags) : List ClipInfo :=
  cs.zipIdx.map fun (c, i) => infoAt m cs c i

/-- The variant that reads "pass-through *group*" literally. -/
def eligibleGroupOnly (m : CompatMode) (c : ChildFlags) : Bool :=
  !c.clipping && !(m.restrictive && c.isGroup && c.passThrough)

end Spec

end PsdVerif.Clip
