/-
Common vocabulary of the models: bytes, Python exception classes as values.
Imports core Lean only (so the driver links as an executable).
-/
namespace PsdVerif

abbrev Bytes := Array UInt8

/-- Python exception classes the models distinguish. -/
inductive Err where
  | ioError | valueError | assertionError | structError | overflowError
  | indexError | unicodeError | keyError | typeError | recursionError | other
  | attributeError
  deriving DecidableEq, Repr, Inhabited

def Err.name : Err → String
  | .ioError => "IOError" | .valueError => "ValueError"
  | .assertionError => "AssertionError" | .structError => "struct.error"
  | .overflowError => "OverflowError" | .indexError => "IndexError"
  | .unicodeError => "UnicodeError" | .keyError => "KeyError"
  | .typeError => "TypeError" | .recursionError => "RecursionError"
  | .other => "Other"
  | .attributeError => "AttributeError"

end PsdVerif
