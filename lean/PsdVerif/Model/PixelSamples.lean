/-
C07 — imported pixels come back unchanged: the SAMPLE ARITHMETIC.

`Model/Pixels.lean` has the bookkeeping (which stored plane feeds which exported band, inversion
parity, un-matting) with the arithmetic on one sample as a parameter (`Px α σ`, `Pil α`). This file
is the arithmetic the code performs, for an 8-bit PIL sample `v ∈ [0, 255]`:

* import, `plane(band)` of `PixelLayer.frompil` (api/layers.py) at the document depth:
    8   `band.tobytes()`                                                   → `v`
    16  `(np.asarray(band).astype(">u2") * 257).tobytes()`                 → `v * 257` (uint16 arithmetic, wraps mod 2¹⁶)
    32  `(np.asarray(band).astype(">f4") / 255.0).astype(">f4").tobytes()` → the binary32 nearest to `v / 255`
  `PSDImage.frompil` (api/psd_image.py) always makes an 8-bit header and stores `channel.tobytes()`.
  A stored sample is the unsigned integer its `depth / 8` big-endian bytes stand for (at depth 32: the
  bits of the binary32).
* PIL export, `pil_io._create_image(size, data, depth)`:
    8   `Image.frombytes("L", …)`                                                       → the byte
    16  `Image.frombytes("I", …, "I;16B").point(lambda x: x * (1.0 / 256.0)).convert("L")`
        PIL evaluates the lambda symbolically (scale `1/256`, offset `0`), computes `in * scale + offset`
        in C doubles, stores it as INT32 (truncation), and `convert("L")` clips to 0 … 255   → `min 255 (c / 256)`
    32  `Image.frombytes("F", …, "F;32BF").point(lambda x: x * (256.0)).convert("L")`
        the same with FLOAT32 storage; `convert("L")` (`f2l`): `≤ 0 → 0`, `≥ 255 → 255`, else C truncation
        → `⌊x · 256⌋` clipped (multiplying a binary32 by 256 is exact or overflows to +∞, which clips too)
* NumPy export, `numpy_io._parse_array(data, depth)`:
    8   `np.frombuffer(data, ">u1").astype(np.float32) / 255.0`     → binary32 nearest to `c / 255`
    16  `np.frombuffer(data, ">u2").astype(np.float32) / 65535.0`   → binary32 nearest to `c / 65535`
        (`c < 2²⁴` is exact as a binary32; IEEE division is correctly rounded; a Python float is a weak
        scalar, so the quotient stays float32)
    32  `np.frombuffer(data, ">f4").astype(np.float32)`             → the stored binary32
* `ImageChops.invert` (the only inversion in the pipeline: layers.py, psd_image.py, pil_io.post_process):
  `255 − v` on 8-bit samples. The NumPy path never inverts.
* `_remove_white_background` (8-bit, through ImageMath's float32 images) and
  `numpy_io._remove_background` (float32).
* PIL's `Image.convert` between the six modes of the model, per pixel (Convert.c: `bit2l`, `l2la`, `l2rgb`,
  `l2cmyk`, `la2l`, `la2rgb`, `rgb2l`, `rgb2la`, `rgb2rgba`, `rgb2cmyk`, `rgba2la`, `rgba2rgb`, `cmyk2rgb`; CMYK → L / LA go
  through RGB, Image.py `convert`: "normalize source image and try again").

binary32: `f32Bits` / `f32Value` of `Model/MergedPixels.lean` (exact rationals, nearest, ties to even).

Core Lean only.
-/
import PsdVerif.Model.Pixels
import PsdVerif.Model.MergedPixels

namespace PsdVerif.PixelSamples
open PsdVerif PsdVerif.Pixels PsdVerif.MergedPixels

/-! ### the constants of the source (tied to the AST by `Props/C07Samples.lean: samples_tied`) -/

/-- `astype(">u2") * 257` -/
def importMul16 : Nat := 257
/-- `astype(">f4") / 255.0` -/
def importDiv32 : Nat := 255
/-- `x * (1.0 / 256.0)`: the divisor of the 16 → 8 bit reduction -/
def pilDiv16 : Nat := 256
/-- `x * (256.0)`: the multiplier of the 32 → 8 bit reduction -/
def pilMul32 : Nat := 256
/-- `astype(np.float32) / 255.0` -/
def npDiv8 : Nat := 255
/-- `astype(np.float32) / 65535.0` -/
def npDiv16 : Nat := 65535
/-- `Image.new("L", pil_im.size, 255)`: the opaque transparency band -/
def opaque8 : Nat := 255

/-- the depths the pipeline handles (`_make_header`: `assert depth in (8, 16, 32)`) -/
def depths : List Nat := [8, 16, 32]

/-- bytes per stored sample as `plane()` writes them -/
def sampleBytes (depth : Nat) : Nat := if depth = 16 then 2 else if depth = 32 then 4 else 1

/-! ### import -/

/-- `plane(band)` on one sample: the unsigned integer the written bytes stand for -/
def store (depth v : Nat) : Nat :=
  if depth = 16 then v * importMul16 % 2 ^ 16
  else if depth = 32 then f32Bits ((v : Rat) / (importDiv32 : Rat))
  else v

/-- the bytes `plane(band)` writes for one sample -/
def storeBytes (depth v : Nat) : List UInt8 := be (sampleBytes depth) (store depth v)

/-- the variant `astype(np.uint16) << 8` (NOT what the code does; kept to state why `* 257` matters) -/
def storeShift (v : Nat) : Nat := v * 2 ^ 8 % 2 ^ 16

/-! ### PIL export -/

/-- `Image.convert("L")` of an "I" sample (`i2l`: `CLIP8`) -/
def i2l (n : Nat) : Nat := min 255 n

/-- `Image.convert("L")` of an "F" sample (`f2l`): `v <= 0 → 0`, `v >= 255 → 255`, else `(UINT8) v` -/
def f2l (q : Rat) : Nat := if q ≤ 0 then 0 else if 255 ≤ q then 255 else q.floor.toNat

/-- is the binary32 with these bits a NaN -/
def isNaN32 (bits : Nat) : Bool := bits / 2 ^ 23 % 256 == 255 && bits % 2 ^ 23 != 0

/-- `pil_io._create_image` on one stored sample; `none`: `ValueError("Unsupported depth")` and depth 1
(packed bits, not a per-sample operation). A NaN gives 0 (`(UINT8)` of a NaN is whatever the platform
does; x86-64 gives 0, observed by the correspondence check). -/
def pilLoad (depth c : Nat) : Option Nat :=
  if depth = 8 then some c
  else if depth = 16 then some (i2l (c / pilDiv16))
  else if depth = 32 then some (if isNaN32 c then 0 else f2l (f32Value c * (pilMul32 : Rat)))
  else none

/-- the rejected variant of seed-style "round instead of truncate": `x * (1.0 / 256.0) + 0.5` -/
def pilLoad16Rounding (c : Nat) : Nat := i2l ((2 * c + pilDiv16) / (2 * pilDiv16))

/-! ### NumPy export -/

/-- `numpy_io._parse_array` on one stored sample: the bits of the float32 it returns -/
def npLoad (depth c : Nat) : Option Nat :=
  if depth = 8 then some (f32Bits ((c : Rat) / (npDiv8 : Rat)))
  else if depth = 16 then some (f32Bits ((c : Rat) / (npDiv16 : Rat)))
  else if depth = 32 then some c
  else none

/-- the exact quotient `_parse_array` rounds to binary32 (depths 8 and 16) -/
def npQuotient (depth c : Nat) : Option Rat :=
  if depth = 8 then some ((c : Rat) / (npDiv8 : Rat))
  else if depth = 16 then some ((c : Rat) / (npDiv16 : Rat))
  else none

/-- rounding to binary32 as a function on values -/
def rnd (q : Rat) : Rat := f32Value (f32Bits q)

/-! ### inversion, opacity, matte removal -/

/-- `ImageChops.invert` on an 8-bit sample -/
def inv8 (v : Nat) : Nat := 255 - v

/-- what the inversion of the 8-bit sample does to the stored 16-bit code: `65535 − c` -/
def inv16 (c : Nat) : Nat := 65535 - c

/-- `pil_io._remove_white_background` on one colour sample `x` and its alpha `a` (8-bit): ImageMath
computes `float(x + a - 255) * 255.0 / float(max(a, 1)) * float(min(a, 1)) + float(x) * float(1 - min(a, 1))`
on float32 images (`x + a - 255` in INT32) and converts to "L" (`f2l`). Every intermediate except the
quotient is an integer below 2²⁴, hence exact. -/
def unmattePil (x a : Nat) : Nat :=
  if a = 0 then f2l (rnd (x : Rat))
  else f2l (rnd (rnd ((((x : Int) + (a : Int) - 255 : Int) : Rat) * 255) / (a : Rat)))

/-- the same in integers: truncating division, clipped -/
def unmatte8 (x a : Nat) : Nat :=
  if a = 0 then x else min 255 ((x + a - 255) * 255 / a)

/-- `numpy_io._remove_background` on one colour sample and its alpha (float32 values as bits):
`color[a > 0] = (color + alpha - 1)[a > 0] / a[a > 0]`, three float32 operations -/
def unmatteNp (c a : Nat) : Nat :=
  let cv := f32Value c
  let av := f32Value a
  if 0 < av then f32Bits (rnd (rnd (cv + av) - 1) / av) else c

/-! ### PIL's `convert`, per pixel -/

/-- `L24(rgb) >> 16`: ITU-R 601-2 luma with rounding -/
def luma (r g b : Nat) : Nat := (r * 19595 + g * 38470 + b * 7471 + 0x8000) / 2 ^ 16

/-- `MULDIV255(a, b, tmp)`: `(tmp = a * b + 128, ((tmp >> 8) + tmp) >> 8)` -/
def mulDiv255 (a b : Nat) : Nat := let t := a * b + 128; (t / 256 + t) / 256

/-- `cmyk2rgb` on one channel: `CLIP8(nk - MULDIV255(c, nk, tmp))` with `nk = 255 - k` -/
def cmykChan (c k : Nat) : Nat := let nk := 255 - k; min 255 (nk - mulDiv255 c nk)

/-- the pixel as RGBA (alpha 255 when the mode has none); `none` for a pixel with the wrong number of samples -/
def toRGBA : Mode → List Nat → Option (Nat × Nat × Nat × Nat)
  | .one, [b] => let v := if b = 0 then 0 else 255; some (v, v, v, 255)
  | .L, [v] => some (v, v, v, 255)
  | .LA, [v, a] => some (v, v, v, a)
  | .RGB, [r, g, b] => some (r, g, b, 255)
  | .RGBA, [r, g, b, a] => some (r, g, b, a)
  | .CMYK, [c, m, y, k] => some (cmykChan c k, cmykChan m k, cmykChan y k, 255)
  | _, _ => none

/-- gray value of a pixel: the sample itself for the gray modes, the luma of the RGB values otherwise -/
def toGray : Mode → List Nat → Option Nat
  | .one, [b] => some (if b = 0 then 0 else 255)
  | .L, [v] => some v
  | .LA, [v, _] => some v
  | m, px => (toRGBA m px).map fun (r, g, b, _) => luma r g b

/-- `Image.convert(dst)` on one pixel of an image of mode `src`, for `dst ∈ {L, LA, RGB, RGBA, CMYK}`
(`dst = 1` dithers: not a per-pixel operation, `none`). Converting to the own mode copies. -/
def convPixel (src dst : Mode) (px : List Nat) : Option (List Nat) :=
  if src = dst then (if px.length = src.nbands then some px else none) else
  match dst with
  | .one => none
  | .L => (toGray src px).map fun v => [v]
  | .LA => match toGray src px, toRGBA src px with
    | some v, some (_, _, _, a) => some [v, a]
    | _, _ => none
  | .RGB => (toRGBA src px).map fun (r, g, b, _) => [r, g, b]
  | .RGBA => (toRGBA src px).map fun (r, g, b, a) => [r, g, b, a]
  | .CMYK =>
    -- `l2cmyk` / `la2cmyk`: `(0, 0, 0, ~v)`; `rgb2cmyk`: `(~r, ~g, ~b, 0)`
    match src with
    | .one | .L | .LA => (toGray src px).map fun v => [0, 0, 0, 255 - v]
    | _ => (toRGBA src px).map fun (r, g, b, _) => [255 - r, 255 - g, 255 - b, 0]

/-! ### palette images (mode "P"): a table lookup in front of the RGB conversions

`PixelLayer.frompil` accepts them (`pil_im.convert(psd_file.pil_mode)`; `has_transparency_data` when the image
carries `info["transparency"]`); `PSDImage.frompil` refuses them (`ColorMode` has no `P`). Not a `Mode` of the
route model: correspondence and search only. -/

/-- `im.info["transparency"]` of a palette image: absent, one fully transparent palette index, or one alpha per
palette entry (entries beyond the table are opaque) -/
inductive PTransparency where
  | absent
  | index (i : Nat)
  | table (t : List Nat)
  deriving Repr, DecidableEq

/-- `im.convert("RGBA").getchannel("A")` on a pixel with palette index `idx` (`putpalettealpha` / `putpalettealphas`) -/
def pAlpha : PTransparency → Nat → Nat
  | .absent, _ => 255
  | .index i, idx => if idx = i then 0 else 255
  | .table t, idx => match t[idx]? with
    | some a => a
    | none => 255

/-- `im.convert(dst)` on a pixel with palette index `idx` (`p2l`, `p2rgb`, `p2cmyk` … : the palette colour, then the
RGB conversion); `none` for an index the palette does not have -/
def convPalettePixel (palette : List (Nat × Nat × Nat)) (dst : Mode) (idx : Nat) : Option (List Nat) :=
  match palette[idx]? with
  | some (r, g, b) => convPixel .RGB dst [r, g, b]
  | none => none

/-! ### the concrete `Px` -/

/-- an 8-bit sample -/
abbrev S8 := Fin 256

/-- a natural as an 8-bit sample, clipped (the identity on 0 … 255) -/
def clip8 (n : Nat) : S8 := ⟨min n 255, by omega⟩

/-- the arithmetic above as the `Px` of `Model/Pixels.lean`: 8-bit samples are `Fin 256`, stored samples
naturals. `load` is `pilLoad` (0 where `_create_image` raises; never reached at depths 8, 16, 32) and is
clipped into the sample type, which changes nothing on the codes a depth can hold (`pilLoad_lt`). -/
def px : Px S8 Nat :=
  { inv := fun x => clip8 (inv8 x.val)
    full := clip8 opaque8
    unmatte := fun x a => clip8 (unmatte8 x.val a.val)
    store := fun d x => store d x.val
    load := fun d c => match pilLoad d c with
      | some v => clip8 v
      | none => clip8 0 }

/-- PIL's `convert` on a whole image: pixel by pixel (`convPixel`). PIL images are well-formed; on an
ill-formed image (a band shorter than `width * height`, never built by the theorems, which assume
`Image.WF`) a missing sample reads as 0. Converting to "1" (dithering) is not modelled: all-zero. -/
def convImage (m : Mode) (i : Image S8) : Image S8 :=
  if m = i.mode then i else
  { mode := m, width := i.width, height := i.height,
    bands := (List.range m.nbands).map fun k => (List.range (i.width * i.height)).map fun p =>
      match convPixel i.mode m (i.bands.map fun b => (b.getD p 0).val) with
      | some out => clip8 (out.getD k 0)
      | none => 0 }

/-- the concrete `Pil` -/
def pil : Pil S8 := { conv := convImage }

/-- what `numpy()` shows of an 8-bit sample `x`: the bits of the binary32 nearest to `x / 255` -/
def asFloat (x : S8) : Nat := f32Bits ((x.val : Rat) / 255)

/-- how the NumPy export produces samples (float32 bits): no inversion on that path, so `inv` is what
a reader has to apply to compare with PIL (`1 − x`, rounded) — never used by the routes of `numpy()` -/
def npView (depth : Nat) : View Nat Nat :=
  { load := fun c => match npLoad depth c with
      | some b => b
      | none => 0
    inv := fun b => f32Bits (1 - f32Value b)
    unmatte := unmatteNp }

end PsdVerif.PixelSamples
