/-
C06 — the two loop shapes the cost theorems EXCLUDE, as counting readers, so that what goes wrong can be stated:

* `readCountSwallowC`: `for _ in range(n): try: items.append(item.read(fp)) except Exception: log(…)` — the body
  swallows the end-of-data error, so the loop no longer stops at the first item that fails: it runs `n` times
  whatever the data (the seeded change C06-r3-2 puts `MetadataSettings.read` into this shape);
* `readChunkedFuelC`: `while remaining > 0: chunk = fp.read(min(remaining, M)); chunks.append(chunk);
  remaining -= len(chunk)` — no exit when `fp.read` returns `b""` at the end of the data: no fuel suffices (the seeded
  change C06-r3-3 reads every length block this way), and `readChunkedOkC` with the exit.

`declaredRequest`: the number `read_length_block` hands to `fp.read` for the colour-mode data (what a buffered file
object reserves before it reads; `io.BytesIO` allocates what it returns).

Core Lean only.
-/
import PsdVerif.Model.PsdCost

namespace PsdVerif.UnsafeLoops
open PsdVerif PsdVerif.Codec PsdVerif.PsdCost

def readCountSwallowC {α : Type} (item : RC α) : Nat → RC (List α)
  | 0 => fun _ p => CE.ok ([], p)
  | n + 1 => fun d p =>
    let r := item d p
    match r.1 with
    | .ok (a, p1) =>
      let s := readCountSwallowC item n d p1
      ((match s.1 with
        | .ok (as, p2) => .ok (a :: as, p2)
        | .error e => .error e), (⟨1, 0⟩ : Cost) + r.2 + s.2)
    | .error _ =>
      -- `read_fmt` restored the cursor; the exception is logged and the loop goes on
      let s := readCountSwallowC item n d p
      (s.1, (⟨1, 0⟩ : Cost) + r.2 + s.2)

def readChunkedFuelC (M : Nat) : Nat → Nat → RC B
  | 0, _ => fun _ _ => CE.error .other
  | fuel + 1, remaining => fun d p =>
    if remaining = 0 then CE.ok ([], p)
    else do
      tick
      let (chunk, p1) ← readUpToC (min remaining M) d p
      let (rest, p2) ← readChunkedFuelC M fuel (remaining - chunk.length) d p1
      CE.ok (chunk ++ rest, p2)

/-- the same loop with `if not chunk: break` -/
def readChunkedOkC (M : Nat) : Nat → Nat → RC B
  | 0, _ => fun _ _ => CE.error .other
  | fuel + 1, remaining => fun d p =>
    if remaining = 0 then CE.ok ([], p)
    else do
      tick
      let (chunk, p1) ← readUpToC (min remaining M) d p
      if chunk.length = 0 then CE.ok ([], p1)
      else do
        let (rest, p2) ← readChunkedOkC M fuel (remaining - chunk.length) d p1
        CE.ok (chunk ++ rest, p2)

/-- `length = read_fmt("I", fp)[0]` of the colour-mode data section (offset 26): what `fp.read(length)` is asked for -/
def declaredRequest (b : B) : Option Nat :=
  match readU 4 b 26 with
  | .ok (n, _) => some n
  | .error _ => none

/-- a valid header, a colour-mode length of `0xFFFFFFF0`, ten bytes: 40 bytes in all -/
def hugeLengthPsd : B :=
  [0x38, 0x42, 0x50, 0x53, 0, 1, 0, 0, 0, 0, 0, 0, 0, 3, 0, 0, 0, 4, 0, 0, 0, 4, 0, 8, 0, 3,
   0xFF, 0xFF, 0xFF, 0xF0, 0, 0, 0, 0, 0, 0, 0, 0, 0, 0]

end PsdVerif.UnsafeLoops
