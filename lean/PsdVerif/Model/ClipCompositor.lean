/-
C15 — how the compositor uses the clipping relation (`composite/__init__.py`).
* `Compositor.apply`: `if not clip_compositing and layer.clipping_layer and layer._has_clip_target: return`;
* `Compositor._bbox`: the box a group is drawn in under a caller-supplied layer filter = the union of the boxes of
  the children the filter accepts, boxes `(0, 0, 0, 0)` dropped, `(0, 0, 0, 0)` when none is left.
Core Lean only.
-/
namespace PsdVerif.ClipComp

/-- The last early return of `Compositor.apply`. -/
def skipped (clipCompositing clipping hasTarget : Bool) : Bool :=
  !clipCompositing && clipping && hasTarget

/-- Drawn in the ordinary pass over the children of its group (`compositor.apply(layer)`). -/
def drawnOrdinary (clipping hasTarget : Bool) : Bool := !skipped false clipping hasTarget

/-- Drawn when a base composites its run (`compositor.apply(clip_layer, clip_compositing=True)`). -/
def drawnThroughBase (clipping hasTarget : Bool) : Bool := !skipped true clipping hasTarget

structure Box where
  l : Int
  t : Int
  r : Int
  b : Int
deriving DecidableEq, Repr

def Box.zero : Box := ⟨0, 0, 0, 0⟩

/-- `(min(lefts), min(tops), max(rights), max(bottoms))` accumulated pairwise. -/
def Box.join (a x : Box) : Box := ⟨min a.l x.l, min a.t x.t, max a.r x.r, max a.b x.b⟩

/-- `a` spans `x`. -/
def Box.spans (a x : Box) : Prop := a.l ≤ x.l ∧ a.t ≤ x.t ∧ x.r ≤ a.r ∧ x.b ≤ a.b

instance (a x : Box) : Decidable (a.spans x) := by
  unfold Box.spans; infer_instance

/-- The union as `_bbox` computes it: drop the `(0, 0, 0, 0)` boxes; none left → `(0, 0, 0, 0)`. -/
def unionBoxes (bs : List Box) : Box :=
  match bs.filter (fun b => b != Box.zero) with
  | [] => Box.zero
  | b :: rest => rest.foldl Box.join b

/-- `_bbox` of a group under the filter `f`: `[self._bbox(child) for child in layer if self._layer_filter(child)]`. -/
def groupBox {α : Type} (f : α → Bool) (box : α → Box) (kids : List α) : Box :=
  unionBoxes ((kids.filter f).map box)

end PsdVerif.ClipComp
