/-
C06 — counting twins of the hand-written readers of Model/Payload3Vector.lean that take no descriptor tables
(unit 9: psd/vector.py): the path records, `Path`, `VectorMaskSetting`. Each `X.decC` has literally the structure of
`X.dec` / `X.codec.dec`, with the counting primitives of Model/PsdCost.lean and Model/PayloadCost.lean.

Accounting of the records (`selector = PathResourceID(read_fmt("H", fp)[0]); TYPES.get(selector).read(fp)`):

  selector                    one read of 2 bytes
  PathFillRule `24x`          one read            ClipboardRecord `5i4x`, InitialFillRule `H22x`: one read
  Knot                        THREE `read_fmt("2i")` in the source, one `fmtDec knotFmt` in the model: the twin reads once and
                              pays two more ticks (the bytes returned are the same: the reads stop at the first short one)
  Subpath `HhH2I10s`          one read in the source, two in the model (count, then the rest): the twin follows the model
                              (one tick too many), then `for _ in range(length)`: one tick per iteration (`readCountC`)

`PItem.decFuelC` is the twin of the fuelled recursion `PItem.decFuel` (a subpath record inside a subpath is read as a
nested subpath). Lemmas/PayloadCostVector.lean proves that the fuel `len(data) + 1` is never exhausted and that the cost
is at most 2 per byte, whatever the declared counts and however deep the nesting: every record is 26 bytes, and these
26 bytes pay for its reads and for the iteration of the loop that read it.

`VectorStrokeContentSetting` (a descriptor body) is with the descriptor twins.  Core Lean only.
-/
import PsdVerif.Model.PayloadCost
import PsdVerif.Model.Payload3Vector

namespace PsdVerif.PayloadCost
open PsdVerif PsdVerif.Codec PsdVerif.PsdCost PsdVerif.Payload PsdVerif.Payload3

/-! ## path records -/

def PItem.decFuelC : Nat → RC PItem
  | 0 => fun _ _ => CE.error .other
  | fuel + 1 => fun d p => do
    let (sel, p) ← readUC 2 d p
    match kindOf sel with
    | none => CE.error .valueError
    | some .fill => do
      let (_, p) ← readSkipC 24 d p
      CE.ok (.fill, p)
    | some .initial => do
      let (r, p) ← fmtDecC initFmt d p
      CE.ok (.initial r, p)
    | some .clipboard => do
      let (r, p) ← fmtDecC clipFmt d p
      CE.ok (.clipboard r, p)
    | some .knot => do
      tick
      tick
      let (r, p) ← fmtDecC knotFmt d p
      CE.ok (.knot sel r, p)
    | some .subpath => do
      let (n, p) ← readUC 2 d p
      let (head, p) ← fmtDecC subFmt d p
      let (items, p) ← readCountC (PItem.decFuelC fuel) n d p
      CE.ok (.subpath sel head items, p)

def PItem.decC : RC PItem := fun d p => PItem.decFuelC (d.length + 1) d p

/-- a record with its selector (the classes of `vector.TYPES`); the loop is `Subpath.read`'s -/
def PItem.cc : CC PItem := CC.hand PItem.codec PItem.decC "Subpath" 2 4 26 [⟨"count", 26⟩]

/-! ## Path -/

def Path.decC : RC (List PItem) := readWhileC (isReadableC 26) (optItemC PItem.decC)

def Path.cc (pad : Nat) : CC (List PItem) := CC.hand (Path.codec pad) Path.decC "Path" 34 60 0 [⟨"while", 26⟩]

/-! ## VectorMaskSetting -/

def VectorMaskSetting.decC : RC VectorMaskSetting := fun d p => do
  let (h, p) ← fmtDecC VectorMaskSetting.headFmt d p
  if h.int 0 = 3 then
    let (path, p) ← Path.decC d p
    CE.ok (⟨h, path⟩, p)
  else CE.error .assertionError

def VectorMaskSetting.cc : CC VectorMaskSetting :=
  CC.hand VectorMaskSetting.codec VectorMaskSetting.decC "VectorMaskSetting" 34 61 8 []

end PsdVerif.PayloadCost
