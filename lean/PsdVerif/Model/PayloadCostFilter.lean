/-
C06 — counting twins of the readers of Model/Payload3Filter.lean (unit 10: psd/filter_effects.py). The hand-written
readers (`FilterEffectChannel`, `FilterEffectExtra`, `FilterEffect._read_body`) get a twin `X.decC` with literally the
structure of `X.dec`; the nested `with io.BytesIO(data) as f:` runs cost `enterBlock data` and the `f.read()` that
ends them is a read on the inner stream. `FilterEffect` and `FilterEffects` are combinator terms.  Core Lean only.
-/
import PsdVerif.Model.PayloadCost
import PsdVerif.Model.Payload3Filter

namespace PsdVerif.PayloadCost
open PsdVerif PsdVerif.Codec PsdVerif.PsdCost PsdVerif.Payload PsdVerif.Payload3

/-! ## FilterEffectChannel -/

/-- `is_written`; a `Q` length block; `with io.BytesIO(data) as f: compression = read_fmt("H", f)[0]; data = f.read()` -/
def FEChannel.decC : RC FEChannel := fun d p => do
  let (iw, p) ← readUC 4 d p
  if iw = 0 then CE.ok (⟨iw, none⟩, p)
  else do
    let (data, p) ← readLenBlockC 0 8 1 d p
    if data.length = 0 then CE.ok (⟨iw, none⟩, p)
    else do
      enterBlock data
      let (c, q) ← readUC 2 data 0
      let _ ← readAllC data q
      CE.ok (⟨iw, some (c, data.drop 2)⟩, p)

def FEChannel.cc : CC FEChannel := CC.hand FEChannel.codec FEChannel.decC "FilterEffectChannel" 3 5 4 []

/-! ## FilterEffectExtra -/

def FEExtra.decC : RC FEExtra := fun d p => do
  let (iw, p) ← readUC 1 d p
  if iw = 0 then CE.ok (⟨iw, FEExtra.defaultRect, 0, []⟩, p)
  else do
    let (rect, p) ← fmtDecC s4x4 d p
    let (data, p) ← readLenBlockC 0 8 1 d p
    enterBlock data
    let (c, q) ← readUC 2 data 0
    let _ ← readAllC data q
    CE.ok (⟨iw, rect, c, data.drop 2⟩, p)

def FEExtra.cc : CC FEExtra := CC.hand FEExtra.codec FEExtra.decC "FilterEffectExtra" 3 6 1 []

/-! ## FilterEffect -/

/-- `_read_body`: `4i`, `2I`, `for _ in range(max_channels + 2)` -/
def FEBody.decC : RC (Row × Row × List FEChannel) := fun d p => do
  let (rect, p) ← fmtDecC s4x4 d p
  let (dm, p) ← fmtDecC [U 4, U 4] d p
  let (chs, p) ← readCountC FEChannel.decC ((dm.int 1).toNat + 2) d p
  CE.ok ((rect, dm, chs), p)

def FEBody.cc : CC (Row × Row × List FEChannel) :=
  CC.hand FEBody.codec FEBody.decC "FilterEffect._read_body" 9 8 24 [⟨"count", 4⟩]

def asciiPascal.cc : CC B := CC.checked (CC.pascal 1 1) (fun b => isAscii b = true) .unicodeError

def FilterEffect.cc : CC FilterEffect :=
  CC.seq asciiPascal.cc (CC.seq (CC.checked (CC.fmt [U 4]) (fun r => r.int 0 ≤ 1) .assertionError)
    (CC.seq (CC.blocked 8 1 FEBody.cc) (CC.optTail FEExtra.cc)))

def FilterEffects.cc : CC (Row × List FilterEffect) :=
  CC.seq (CC.checked (CC.fmt [U 4]) (fun r => r.int 0 = 1 ∨ r.int 0 = 2 ∨ r.int 0 = 3) .assertionError)
    (CC.whileR 8 1 (CC.blocked 8 4 FilterEffect.cc))

end PsdVerif.PayloadCost
