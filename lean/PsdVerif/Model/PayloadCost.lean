/-
C06 — a COUNTING semantics for the payload readers (`PCodec`, Model/PayloadBase.lean + Model/Payload3Base.lean).

The monad, the counters and the stream primitives are those of Model/PsdCost.lean (`CE`, `RC`, `prim`, `tick`,
`enterBlock`: one tick per `fp.read` / loop iteration / nested `io.BytesIO`, the bytes RETURNED by `fp.read` and the
size of every block copied are allocated). This file adds

* the twins of the primitives the payload models use beyond the skeleton's (`read_fmt` as ONE read of `calcsize`
  bytes, unicode strings, keys, `?`/`d`/signed fields, `nx`);
* `CC α`: a payload codec together with its counting reader and its SHAPE `Sh` — the loop structure, from which the
  side condition `Sh.bodyProgress` (every count-driven loop and every `while` loop has a body that consumes ≥ 1 byte when
  it succeeds) and the constants of the cost bound `Sh.a`, `Sh.b`, `Sh.k` are computed;
* one constructor per combinator of Model/Payload3Base.lean (`CC.fmt`, `CC.seq`, `CC.counted`, `CC.exactly`,
  `CC.whileR`, `CC.padded`, `CC.checked`, `CC.tailBytes`, `CC.pascal`, `CC.ustr`, `CC.blocked`, `CC.optTail`) whose
  `.c` is the combinator itself (by `rfl`), and `CC.hand` for the classes whose reader is written out by hand.

Lemmas/PayloadCost1.lean proves, per constructor, `CC.Sound`: the counting reader erases to the reader, and
ticks + bytes ≤ a · (bytes consumed) + b on success, ≤ a · (bytes remaining) + b on failure — whatever count was declared.

Core Lean only.
-/
import PsdVerif.Model.PsdCost
import PsdVerif.Model.Payload3Base

namespace PsdVerif.PayloadCost
open PsdVerif PsdVerif.Codec PsdVerif.PsdCost PsdVerif.Payload PsdVerif.Payload3

/-! ### more primitives -/

/-- an `Except` step that touches no stream (a validator, a conversion) -/
def liftE {α : Type} (r : Except Err α) : CE α := (r, Cost.zero)

def readF64C : RC UInt64 := fun d p => do
  let (n, p') ← readUC 8 d p
  CE.ok (UInt64.ofNat n, p')

def readBoolC : RC Bool := fun d p => do
  let (n, p') ← readUC 1 d p
  CE.ok (n != 0, p')

def readSC (w : Nat) : RC Int := fun d p => do
  let (n, p') ← readUC w d p
  CE.ok (natToS w n, p')

def readSkipC (n : Nat) : RC Unit := fun d p => do
  let (_, p') ← readNC n d p
  CE.ok ((), p')

def readSizedC (n : Nat) : RC B := readPyC (n : Int)

/-- `read_fmt(fmt, fp)`: ONE `fp.read(struct.calcsize(fmt))`, then `struct.unpack` -/
def fmtDecC (fs : List FI) : RC Row := fun d p => prim (fmtDec fs d p) (min (fmtSize fs) (d.length - p))

/-- `read_unicode_string(fp, padding)`: `read_fmt("I")`, `fp.read(2 * n)`, `read_padding` -/
def readUStrC (pad : Nat) : RC Payload.Str := fun d p =>
  match Unicode.readU32 d p with
  | .error _ => prim (readUStr pad d p) (min 4 (d.length - p))
  | .ok (n, p1) =>
    let raw := Unicode.slice d p1 (2 * n)
    let fill := Unicode.slice d (p1 + raw.length) (Unicode.padLen (4 + 2 * n) pad)
    (readUStr pad d p, ⟨3, 4 + raw.length + fill.length⟩)

/-- `read_length_and_key(fp)`: `read_fmt("I")`, `fp.read(length or 4)` -/
def readKeyC (terms : B → Bool) : RC Globals.Key := fun d p =>
  match Globals.readU32 d p with
  | .error _ => prim (Globals.readKey terms d p) (min 4 (d.length - p))
  | .ok (len, p1) =>
    let n := if len = 0 then 4 else len
    (Globals.readKey terms d p, ⟨2, 4 + ((d.drop p1).take n).length⟩)

/-- `try: a except IOError: b` (`a` restores the cursor when it fails): what `a` cost is spent either way -/
def orElseIOC {α : Type} (a b : RC α) : RC α := fun d p =>
  match (a d p).1 with
  | .error .ioError => ((b d p).1, (a d p).2 + (b d p).2)
  | _ => a d p

/-! ### the shape of a reader -/

/-- a loop of a reader, as the source has it -/
structure Loop where
  /-- `"count"`: `for _ in range(<value read from the stream>)`; `"fixed"`: `for _ in range(<constant>)`;
  `"while"`: `while is_readable(fp, n)` -/
  kind : String
  /-- bytes an iteration consumes at least when its body succeeds -/
  progress : Nat
  deriving DecidableEq, Repr

inductive Sh where
  /-- straight-line code: at most `t` reads, consumes at least `k` bytes when it succeeds -/
  | leaf (k t : Nat)
  | seq (x y : Sh)
  | counted (w : Nat) (body : Sh)
  | exactly (n : Nat) (body : Sh)
  | whileR (n : Nat) (body : Sh)
  | blocked (w : Nat) (body : Sh)
  | optTail (body : Sh)
  /-- a reader written out by hand, with the constants proved for it: cost ≤ `a` · bytes + `b`, ≥ `k` bytes -/
  | hand (name : String) (a b k : Nat) (loops : List Loop)
  deriving DecidableEq, Repr

namespace Sh

/-- bytes consumed at least on success -/
def k : Sh → Nat
  | leaf k _ => k
  | seq x y => x.k + y.k
  | counted w _ => w
  | exactly n body => n * body.k
  | whileR _ _ => 0
  | blocked w _ => w
  | optTail _ => 0
  | hand _ _ _ k _ => k

/-- additive constant of the bound -/
def b : Sh → Nat
  | leaf _ t => t
  | seq x y => x.b + y.b
  | counted _ body => body.b + 2
  | exactly n body => (body.b + 1) * n
  | whileR n body => body.b + 2 * (n + 2)
  | blocked _ body => body.b + 5
  | optTail body => body.b + 2
  | hand _ _ b _ _ => b

/-- cost per byte -/
def a : Sh → Nat
  | leaf _ _ => 1
  | seq x y => max x.a y.a
  | counted _ body => body.a + body.b + 1
  | exactly _ body => body.a
  | whileR n body => body.a + body.b + n + 2
  | blocked _ body => body.a + 2
  | optTail body => max 1 body.a
  | hand _ a _ _ _ => a

/-- every count-driven loop and every `while` loop has a body that consumes at least one byte when it succeeds
(a body that can neither consume nor fail is what makes `for _ in range(0xFFFFFFFF)` run 2^32 times) -/
def bodyProgress : Sh → Bool
  | leaf _ _ => true
  | seq x y => x.bodyProgress && y.bodyProgress
  | counted _ body => body.bodyProgress && decide (1 ≤ body.k)
  | exactly _ body => body.bodyProgress
  | whileR n body => body.bodyProgress && decide (1 ≤ body.k) && decide (1 ≤ n)
  | blocked _ body => body.bodyProgress
  | optTail body => body.bodyProgress
  | hand _ _ _ _ loops => loops.all (fun l => l.kind == "fixed" || decide (1 ≤ l.progress))

/-- the loops, outermost first, in source order -/
def loops : Sh → List Loop
  | leaf _ _ => []
  | seq x y => x.loops ++ y.loops
  | counted _ body => ⟨"count", body.k⟩ :: body.loops
  | exactly _ body => ⟨"fixed", body.k⟩ :: body.loops
  | whileR _ body => ⟨"while", body.k⟩ :: body.loops
  | blocked _ body => body.loops
  | optTail body => body.loops
  | hand _ _ _ _ ls => ls

end Sh

/-! ### a codec with its counting reader -/

structure CC (α : Type) where
  c : PCodec α
  decC : RC α
  sh : Sh

namespace CC

def fmt (fs : List FI) : CC Row := ⟨Payload3.rec fs, fmtDecC fs, .leaf (fmtSize fs) 1⟩

def seq {α β : Type} (x : CC α) (y : CC β) : CC (α × β) where
  c := Payload3.seq x.c y.c
  decC := fun d p => do
    let (u, p) ← x.decC d p
    let (v, p) ← y.decC d p
    CE.ok ((u, v), p)
  sh := .seq x.sh y.sh

def counted {α : Type} (w : Nat) (x : CC α) : CC (List α) where
  c := Payload3.counted w x.c
  decC := fun d p => do
    let (n, p) ← readUC w d p
    readCountC x.decC n d p
  sh := .counted w x.sh

def exactly {α : Type} (n : Nat) (x : CC α) : CC (List α) where
  c := Payload3.exactly n x.c
  decC := readCountC x.decC n
  sh := .exactly n x.sh

def whileR {α : Type} (n pad : Nat) (x : CC α) : CC (List α) where
  c := Payload3.whileR n pad x.c
  decC := readWhileC (isReadableC n) (optItemC x.decC)
  sh := .whileR n x.sh

def padded {α : Type} (pad : Nat) (x : CC α) : CC α := ⟨Payload3.padded pad x.c, x.decC, x.sh⟩

def checked {α : Type} (x : CC α) (ok : α → Prop) [DecidablePred ok] (e : Err) : CC α where
  c := Payload3.checked x.c ok e
  decC := fun d p => do
    let (v, p) ← x.decC d p
    if ok v then CE.ok (v, p) else CE.error e
  sh := x.sh

def tailBytes : CC B := ⟨Payload3.tailBytes, readAllC, .leaf 0 1⟩

def pascal (pw pr : Nat) : CC B := ⟨Payload3.pascal pw pr, readPascalC pr, .leaf 1 3⟩

def ustr : CC Payload.Str := ⟨Payload3.ustr, readUStrC 1, .leaf 4 3⟩

/-- `with io.BytesIO(read_length_block(fp, fmt, padding=pad)) as f: c.read(f)` -/
def blocked {α : Type} (w pad : Nat) (x : CC α) : CC α where
  c := Payload3.blocked w pad x.c
  decC := fun d p => do
    let (data, p) ← readLenBlockC 0 w pad d p
    enterBlock data
    let (v, _) ← x.decC data 0
    CE.ok (v, p)
  sh := .blocked w x.sh

def optTail {α : Type} (x : CC α) : CC (Option α) where
  c := Payload3.optTail x.c
  decC := fun d p => do
    let r ← isReadableC 1 d p
    if r then do
      let (v, p') ← x.decC d p
      CE.ok (some v, p')
    else CE.ok (none, p)
  sh := .optTail x.sh

/-- a class whose reader is written out by hand: its counting twin and the constants proved for it -/
def hand {α : Type} (c : PCodec α) (decC : RC α) (name : String) (a b k : Nat) (loops : List Loop) : CC α :=
  ⟨c, decC, .hand name a b k loops⟩

end CC

end PsdVerif.PayloadCost
