/-
C06 — the regular expressions of `psd_tools/psd/engine_data.py`: the COMMITTED SNAPSHOT of the table
`harness/extract_c06_re.py` regenerates from the working tree on every run (`Generated/EnginePatterns.lean`):

* `patterns`  (name, pattern text as `re` is given it) for every `compile_re(r"…")` of the module in source order - the
              twelve members of `EngineToken` (the order `Tokenizer.__next__` tries them in), `Tokenizer.DIVIDER`,
              `Tokenizer.UTF16_END` - and a row for any regular expression compiled another way (there is none);
* `flags`     the flags `compile_re` passes to `re.compile`: `re.S` (`.` matches every byte; no `re.M`, no `re.I`),
              which is what `EngineRegex.parse` / `EngineRegex.m` implement.

The tie, the check `EngineRegex.safe` of every row and the agreement samples are in Lemmas/EngineRegexTied.lean. A new or
changed pattern breaks `engine_patterns_tied` until this snapshot is reviewed again: does the new text still parse, is it
still `safe`, does the byte predicate of `Model/EngineData.lean` still describe it
(`python3 harness/extract_c06_re.py --lean`).
Core Lean only.
-/
namespace PsdVerif.EngineRegexTables

def patterns : List (String × String) := [
  ("EngineToken.ARRAY_END", "^\\]$"),
  ("EngineToken.ARRAY_START", "^\\[$"),
  ("EngineToken.BOOLEAN", "^(true|false)$"),
  ("EngineToken.DICT_END", "^>>(\\x00)*$"),
  ("EngineToken.DICT_START", "^<<$"),
  ("EngineToken.NOOP", "^$"),
  ("EngineToken.NUMBER", "^-?\\d+$"),
  ("EngineToken.NUMBER_WITH_DECIMAL", "^-?\\d*\\.\\d+$"),
  ("EngineToken.PROPERTY", "^\\/[a-zA-Z0-9_]+$"),
  ("EngineToken.STRING", "^\\((\\xfe\\xff([^\\)]|\\\\\\))*)\\)$"),
  ("EngineToken.UNKNOWN_TAG", "^\\([a-zA-Z0-9]*\\)$"),
  ("EngineToken.UNKNOWN_TAG2", "^--\\(\\.-0$"),
  ("Tokenizer.DIVIDER", "[ \\n\\t]+"),
  ("Tokenizer.UTF16_END", "^\\(\\xfe\\xff(?:\\\\.|[^\\\\\\)])*\\)")
]

def flags : String := "re.S"

/-- the pattern of a row -/
def patternOf (name : String) : Option String := patterns.lookup name

end PsdVerif.EngineRegexTables
