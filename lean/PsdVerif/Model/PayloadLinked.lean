/-
C01 payload classes — unit 5: psd/linked_layer.py (`lnkD` / `lnk2` / `lnk3` / `lnkE`): `LinkedLayers`, `LinkedLayer`
(versions 1 … 7 × kind DATA / EXTERNAL / ALIAS; the optional fields each version and kind has).

`LinkedLayer.read`, in the order of the code:
  `4s` kind (`LinkedLayerType`), `I` version (assert 1..7), pascal uuid (MacRoman, padding 1), unicode filename,
  `4s4sQB` filetype, creator, datasize, open-file flag; flag ≠ 0: a `DescriptorBlock` (read with padding 1)
  EXTERNAL: `DescriptorBlock` linked_file; version > 3: `I4Bd` timestamp; `Q` filesize; version > 2: `fp.read(datasize)`
  ALIAS:    `8x`
  DATA:     `fp.read(datasize)`, assert all of it was there
  version ≥ 5: unicode child_id · version ≥ 6: `d` mod_time · version ≥ 7: `B` lock_state
  EXTERNAL and version = 2: `fp.read(datasize)` (the data comes last in that version)
`LinkedLayer.write` writes datasize = `len(data)` (0 for `None`), the flag = `open_file is not None`, the optional
fields when they are not `None`, and ends with `write_padding(fp, written, padding)` (padding 1 as `LinkedLayers` calls it).

Descriptor blocks are those of Model/Descriptor.lean (`tb` : the tables the descriptor code consults).
A field the writer dereferences while it is `None` (`self.linked_file.write`, `*self.timestamp`, `write_bytes(fp, None)`)
raises AttributeError / TypeError, not `struct.error`: such a value does not fit.
Core Lean only.
-/
import PsdVerif.Model.PayloadSimple

namespace PsdVerif.Payload
open PsdVerif PsdVerif.Codec

namespace GP
export PsdVerif.Generated.Payload (linkedLayerTypes linkedData linkedExternal linkedAlias linkedVersionMin linkedVersionMax)
end GP

/-- `I4Bd` -/
structure Timestamp where
  year : Nat
  fields : List Nat
  seconds : UInt64
  deriving DecidableEq, Repr

structure LinkedLayer where
  kind : B
  version : Nat
  uuid : B                              -- the pascal string, encoded (MacRoman; C19)
  filename : Str
  filetype : B
  creator : B
  filesize : Option Nat
  openFile : Option Descriptor.Block
  linkedFile : Option Descriptor.Block
  timestamp : Option Timestamp
  data : Option B
  childId : Option Str
  modTime : Option UInt64
  lockState : Option Nat
  deriving Repr

namespace LinkedLayer
variable (tb : Descriptor.Tables)

/-! ### pieces -/

def optBlockT : Option Descriptor.Block → B
  | some b => b.encT tb 1
  | none => []

def optBlockP : Option Descriptor.Block → W
  | some b => b.encW tb 1
  | none => wNil

def optBlockFits : Option Descriptor.Block → Prop
  | some b => b.Fits tb
  | none => True
instance (o : Option Descriptor.Block) : Decidable (optBlockFits tb o) := by
  cases o <;> simp only [optBlockFits] <;> exact inferInstance

def optBlockWF : Option Descriptor.Block → Prop
  | some b => b.WF tb
  | none => True
instance (o : Option Descriptor.Block) : Decidable (optBlockWF tb o) := by
  cases o <;> simp only [optBlockWF] <;> exact inferInstance

def optBytesT : Option B → B
  | some b => b
  | none => []

def tsT (t : Timestamp) : B := beBytes 4 t.year ++ listT (beBytes 1) t.fields ++ f64T t.seconds

def optTsT : Option Timestamp → B
  | some t => tsT t
  | none => []

def tsFits (t : Timestamp) : Prop := FitsU 4 t.year ∧ t.fields.length = 4 ∧ listFits (FitsU 1) t.fields
instance (t : Timestamp) : Decidable (tsFits t) := by unfold tsFits FitsU; exact inferInstance

def optUStrT : Option Str → B
  | some s => ustrT 1 s
  | none => []

def optUStrFits : Option Str → Prop
  | some s => (Unicode.encUnits s).length < 4294967296
  | none => True
instance (o : Option Str) : Decidable (optUStrFits o) := by cases o <;> simp only [optUStrFits] <;> exact inferInstance

def optF64T : Option UInt64 → B
  | some x => f64T x
  | none => []

/-- `len(self.data) if self.data is not None else 0` -/
def dataLen (x : LinkedLayer) : Nat := match x.data with | some b => b.length | none => 0

def isExternal (x : LinkedLayer) : Bool := x.kind == GP.linkedExternal
def isAlias (x : LinkedLayer) : Bool := x.kind == GP.linkedAlias
def isData (x : LinkedLayer) : Bool := x.kind == GP.linkedData

def headT (x : LinkedLayer) : B :=
  pack4s x.kind ++ beBytes 4 x.version ++ pascalT 1 x.uuid ++ ustrT 1 x.filename ++
  (pack4s x.filetype ++ pack4s x.creator ++ beBytes 8 x.dataLen ++ boolT x.openFile.isSome)

/-- the branch on the kind: EXTERNAL / ALIAS, then DATA -/
def kindT (x : LinkedLayer) : B :=
  (if x.isExternal then
      optBlockT tb x.linkedFile ++ (if x.version > 3 then optTsT x.timestamp else []) ++ Psd.optT 8 x.filesize ++
      (if x.version > 2 then optBytesT x.data else [])
    else if x.isAlias then zeros 8 else []) ++
  (if x.isData then optBytesT x.data else [])

def tailT (x : LinkedLayer) : B := optUStrT x.childId ++ optF64T x.modTime ++ Psd.optT 1 x.lockState

def lateT (x : LinkedLayer) : B := if x.isExternal ∧ x.version = 2 then optBytesT x.data else []

def bodyT (x : LinkedLayer) : B := x.headT ++ optBlockT tb x.openFile ++ x.kindT tb ++ x.tailT ++ x.lateT

def encT (pad : Nat) (x : LinkedLayer) : B := x.bodyT tb ++ zeros (padAmount (x.bodyT tb).length pad)

/-- `write_fmt(fp, "I4Bd", *self.timestamp)`: the timestamp must be there -/
def tsReq : Option Timestamp → Prop
  | some t => tsFits t
  | none => False
instance (o : Option Timestamp) : Decidable (tsReq o) :=
  match o with
  | some t => inferInstanceAs (Decidable (tsFits t))
  | none => isFalse (fun h => h)

def Fits (x : LinkedLayer) : Prop :=
  FitsU 4 x.version ∧ x.uuid.length < 256 ∧ (Unicode.encUnits x.filename).length < 4294967296 ∧ FitsU 8 x.dataLen ∧
  optBlockFits tb x.openFile ∧
  (x.isExternal = true →
    (x.linkedFile.isSome ∧ optBlockFits tb x.linkedFile) ∧                      -- `self.linked_file.write`
    (x.version > 3 → tsReq x.timestamp) ∧                                       -- `*self.timestamp`
    (x.filesize.isSome ∧ Psd.optFits 8 x.filesize) ∧
    (x.version > 1 → x.data.isSome)) ∧                                          -- `write_bytes(fp, self.data)`
  (x.isData = true → x.data.isSome) ∧
  optUStrFits x.childId ∧ Psd.optFits 1 x.lockState
instance (x : LinkedLayer) : Decidable (x.Fits tb) := by unfold Fits FitsU; exact inferInstance

/-- `write` with its `written` accumulator; a branch that is not taken adds nothing (`wNil`) -/
def encP (pad : Nat) (x : LinkedLayer) : W :=
  let written := wBytes (pack4s x.kind ++ beBytes 4 x.version)
  let written := written +> wPascal 1 x.uuid
  let written := written +> wUStr 1 x.filename
  let written := written +> wBytes (pack4s x.filetype ++ pack4s x.creator ++ beBytes 8 x.dataLen ++ boolT x.openFile.isSome)
  let written := written +> optBlockP tb x.openFile
  let written := written +>
    (if x.isExternal then
      ((optBlockP tb x.linkedFile +> (if x.version > 3 then wBytes (optTsT x.timestamp) else wNil)) +> wBytes (Psd.optT 8 x.filesize)) +>
        (if x.version > 2 then wBytes (optBytesT x.data) else wNil)
    else if x.isAlias then wBytes (zeros 8) else wNil)
  let written := written +> (if x.isData then wBytes (optBytesT x.data) else wNil)
  let written := written +> wBytes (optUStrT x.childId)
  let written := written +> wBytes (optF64T x.modTime)
  let written := written +> wBytes (Psd.optT 1 x.lockState)
  let written := written +> (if x.isExternal ∧ x.version = 2 then wBytes (optBytesT x.data) else wNil)
  written +> wPad written.2 pad

/-! ### reader -/

def readTs : R Timestamp := fun d p => do
  let (y, p) ← readU 4 d p
  let (fs, p) ← readCount (readU 1) 4 d p
  let (s, p) ← readF64 d p
  .ok (⟨y, fs, s⟩, p)

/-- what the kind branch of the reader sets: linked_file, timestamp, filesize, data -/
structure KindPart where
  linkedFile : Option Descriptor.Block
  timestamp : Option Timestamp
  filesize : Option Nat
  data : Option B

def kindDec (kind : B) (version datasize : Nat) : R KindPart := fun d p => do
  let (k, p) ← (if kind = GP.linkedExternal then do
      let (lf, p) ← Descriptor.Block.dec tb d p
      let (ts, p) ← (if version > 3 then Codec.optItem readTs d p else .ok (none, p))
      let (fsz, p) ← readU 8 d p
      let (dt, p) ← (if version > 2 then Codec.optItem (readSized datasize) d p else .ok (none, p))
      .ok ((⟨some lf, ts, some fsz, dt⟩ : KindPart), p)
    else if kind = GP.linkedAlias then do
      let (_, p) ← readSkip 8 d p
      .ok ((⟨none, none, none, none⟩ : KindPart), p)
    else .ok ((⟨none, none, none, none⟩ : KindPart), p) : Except Err (KindPart × Nat))
  if kind = GP.linkedData then
    let (dt, p) ← readSized datasize d p
    if dt.length = datasize then .ok ({ k with data := some dt }, p) else .error .assertionError
  else .ok (k, p)

def tailDec (version : Nat) : R (Option Str × Option UInt64 × Option Nat) := fun d p => do
  let (cid, p) ← (if version ≥ 5 then Codec.optItem (readUStr 1) d p else .ok (none, p))
  let (mt, p) ← (if version ≥ 6 then Codec.optItem readF64 d p else .ok (none, p))
  let (ls, p) ← (if version ≥ 7 then Codec.optItem (readU 1) d p else .ok (none, p))
  .ok ((cid, mt, ls), p)

def dec : R LinkedLayer := fun d p => do
  let (kind, p) ← readN 4 d p
  if kind ∈ GP.linkedLayerTypes then                                         -- `LinkedLayerType(...)`
    let (version, p) ← readU 4 d p
    if GP.linkedVersionMin ≤ version ∧ version ≤ GP.linkedVersionMax then     -- the assert
      let (uuid, p) ← readPascal 1 d p
      let (filename, p) ← readUStr 1 d p
      let (filetype, p) ← readN 4 d p
      let (creator, p) ← readN 4 d p
      let (datasize, p) ← readU 8 d p
      let (flag, p) ← readU 1 d p
      let (openFile, p) ← (if flag ≠ 0 then Codec.optItem (Descriptor.Block.dec tb) d p else .ok (none, p))
      let (k, p) ← kindDec tb kind version datasize d p
      let ((cid, mt, ls), p) ← tailDec version d p
      let (data, p) ← (if kind = GP.linkedExternal ∧ version = 2 then Codec.optItem (readSized datasize) d p else .ok (k.data, p))
      .ok (⟨kind, version, uuid, filename, filetype, creator, k.filesize, openFile, k.linkedFile, k.timestamp, data, cid, mt, ls⟩, p)
    else .error .assertionError
  else .error .valueError

/-! ### well-formedness -/

def strWF : Option Str → Prop
  | some s => Unicode.PyStr s ∧ Unicode.NoPair s
  | none => True
instance (o : Option Str) : Decidable (strWF o) := by cases o <;> simp only [strWF] <;> exact inferInstance

def WF (x : LinkedLayer) : Prop :=
  x.kind ∈ GP.linkedLayerTypes                                                        -- (i) validator `in_(LinkedLayerType)`
  ∧ (GP.linkedVersionMin ≤ x.version ∧ x.version ≤ GP.linkedVersionMax)               -- (i) validator `range_(1, 7)`
  ∧ (x.filetype.length = 4 ∧ x.creator.length = 4)                                    -- (ii) `4s`
  ∧ (Unicode.PyStr x.filename ∧ Unicode.NoPair x.filename)                            -- a `str`; (iii) C19
  ∧ optBlockWF tb x.openFile ∧ optBlockWF tb x.linkedFile
  -- (iii) which fields a kind has
  ∧ (x.isExternal = true → (x.version ≤ 3 → x.timestamp = none) ∧ (x.version = 1 → x.data = none))
  ∧ (x.isExternal = false → x.linkedFile = none ∧ x.timestamp = none ∧ x.filesize = none)
  ∧ (x.isAlias = true → x.data = none)
  -- (iii) which fields a version has
  ∧ (x.childId.isSome ↔ x.version ≥ 5) ∧ (x.modTime.isSome ↔ x.version ≥ 6) ∧ (x.lockState.isSome ↔ x.version ≥ 7)
  ∧ strWF x.childId
instance (x : LinkedLayer) : Decidable (x.WF tb) := by unfold WF; exact inferInstance

def codec (pad : Nat) : PCodec LinkedLayer where
  encT := encT tb pad
  Fits := Fits tb
  decFits := inferInstance
  encP := encP tb pad
  dec := dec tb
  consumed x := (bodyT tb x).length
  WF := WF tb
  decWF := inferInstance

end LinkedLayer

/-- `LinkedLayers`: `write_length_block(fp, item.write, fmt="Q", padding=4)` per item /
`while is_readable(fp, 8): read_length_block(fp, fmt="Q", padding=4)`, the item read from the block's own `BytesIO` -/
def LinkedLayers.codec (tb : Descriptor.Tables) : PCodec (List LinkedLayer) where
  encT xs := listT (fun (x : LinkedLayer) => lenBlockT 0 8 4 (x.encT tb 1)) xs
  Fits xs := listFits (fun (x : LinkedLayer) => x.Fits tb ∧ FitsU 8 (x.encT tb 1).length) xs
  decFits _ := by unfold FitsU; exact inferInstance
  encP xs := wList (fun (x : LinkedLayer) => wLenBlock 0 8 4 (x.encP tb 1)) xs
  dec := readWhile (isReadable 8) (fun d p => do
    let (data, p) ← readLenBlock 0 8 4 d p
    let (x, _) ← LinkedLayer.dec tb data 0
    .ok (some x, p))
  consumed xs := (listT (fun (x : LinkedLayer) => lenBlockT 0 8 4 (x.encT tb 1)) xs).length
  WF xs := ∀ x ∈ xs, x.WF tb
  decWF _ := inferInstance

end PsdVerif.Payload
