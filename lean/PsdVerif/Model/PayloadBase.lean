/-
C01 payload classes — common vocabulary of the payload models (units 2-5).

* primitives of `struct` formats that Model/Codec.lean does not have: `d` (IEEE double, carried as its 64-bit
  pattern `UInt64` - `struct.pack('>d')` is a bijection on patterns), `?`, `b`/`q` style signed integers of any
  width, `nx` filler inside a `read_fmt`, unicode strings (Model/Unicode.lean as cursor readers);
* `PCodec α`: what every payload model provides - `encT` (bytes `write` emits), `Fits` (every `struct.pack`
  accepts its argument: otherwise `struct.error`), `encP` (the transcription of `write` with its `written`
  accumulator), `dec` (the reader, a cursor machine), `consumed` (how many of the written bytes the reader consumes:
  some writers end with `write_padding`, which no reader of a payload consumes) and `WF`;
  the two shapes of the round-trip law (`RtAnywhere`, `RtAtEnd`: readers that look at what follows) and `Count`.

Core Lean only.
-/
import PsdVerif.Model.Codec
import PsdVerif.Model.Unicode

namespace PsdVerif.Payload
open PsdVerif PsdVerif.Codec

/-! ### more `struct` primitives -/

/-- `d`: the 64-bit pattern of the double -/
def f64T (x : UInt64) : B := beBytes 8 x.toNat

def readF64 : R UInt64 := fun d p =>
  match readU 8 d p with
  | .ok (n, p') => .ok (UInt64.ofNat n, p')
  | .error e => .error e

/-- `?`: `struct.pack('?', v)` writes 1 for a true value, `struct.unpack` returns `byte != 0` -/
def boolT (b : Bool) : B := [if b then 1 else 0]

def readBool : R Bool := fun d p =>
  match readU 1 d p with
  | .ok (n, p') => .ok (n != 0, p')
  | .error e => .error e

/-- `fp.read(n)` with a declared size `n ≥ 0` taken from the stream (lenient; `OverflowError` from `2^63` on, as
`Codec.readPy` has it) -/
def readSized (n : Nat) : R B := readPy (n : Int)

/-- `nx` inside a format that is read: the bytes must be there (`read_fmt` is exact), their value is ignored -/
def readSkip (n : Nat) : R Unit := fun d p =>
  match readN n d p with
  | .ok (_, p') => .ok ((), p')
  | .error e => .error e

/-- signed integers of `w` bytes, two's complement (`b` 1, `h` 2, `i` 4, `q` 8) -/
def FitsS (w : Nat) (z : Int) : Prop := -((256 ^ w / 2 : Nat) : Int) ≤ z ∧ z < ((256 ^ w / 2 : Nat) : Int)
instance (w : Nat) (z : Int) : Decidable (FitsS w z) := by unfold FitsS; exact inferInstance

def sT (w : Nat) (z : Int) : B := beBytes w (z % ((256 ^ w : Nat) : Int)).toNat

def natToS (w n : Nat) : Int := if n < 256 ^ w / 2 then (n : Int) else (n : Int) - ((256 ^ w : Nat) : Int)

def readS (w : Nat) : R Int := fun d p =>
  match readU w d p with
  | .ok (n, p') => .ok (natToS w n, p')
  | .error e => .error e

/-- a list of fixed-size items written back to back (`write_fmt(fp, "%dI" % n, *items)`, `"2d"`, `"4H"` ...) -/
def listFits {α : Type} (P : α → Prop) (xs : List α) : Prop := ∀ x ∈ xs, P x
instance {α : Type} (P : α → Prop) [DecidablePred P] (xs : List α) : Decidable (listFits P xs) := by
  unfold listFits; exact inferInstance

/-! ### unicode strings as cursor readers -/

abbrev Str := Unicode.Str

/-- bytes of `write_unicode_string(fp, s, padding=pad)` when it succeeds -/
def ustrT (pad : Nat) (s : Str) : B :=
  let body := Unicode.be32 (Unicode.encUnits s).length ++ Unicode.bytesOfUnits (Unicode.encUnits s)
  body ++ zeros (padAmount body.length pad)

/-- `write_unicode_string(fp, s, padding=pad)` with its `written` accumulator -/
def wUStr (pad : Nat) (s : Str) : W :=
  let a := wBytes (Unicode.be32 (Unicode.encUnits s).length)       -- write_fmt(fp, "I", len(data) // 2)
  let b := wBytes (Unicode.bytesOfUnits (Unicode.encUnits s))      -- write_bytes(fp, data)
  let written := a +> b
  written +> wPad written.2 pad

/-- `write_unicode_string` raises nothing but `struct.error` (a count ≥ 2³²) for a `str` -/
def UStrFits (s : Str) : Prop := Unicode.PyStr s ∧ (Unicode.encUnits s).length < 4294967296
instance (s : Str) : Decidable (UStrFits s) := by unfold UStrFits; exact inferInstance

/-- `read_unicode_string(fp, padding=pad)` -/
def readUStr (pad : Nat) : R Str := fun d p => Unicode.readUnicodeString d p pad

/-! ### what a payload model provides -/

structure PCodec (α : Type) where
  encT : α → B
  Fits : α → Prop
  decFits : DecidablePred Fits
  encP : α → W
  dec : R α
  /-- number of written bytes the reader consumes (the rest is the writer's trailing filler) -/
  consumed : α → Nat
  WF : α → Prop
  decWF : DecidablePred WF

namespace PCodec
variable {α : Type}

instance (c : PCodec α) : DecidablePred c.Fits := c.decFits
instance (c : PCodec α) : DecidablePred c.WF := c.decWF

/-- `x.tobytes(...)`: the bytes, or `struct.error` -/
def enc (c : PCodec α) (v : α) : Except Err B := if c.Fits v then .ok (c.encT v) else .error .structError

/-- bytes and the count `write` returns -/
def encW (c : PCodec α) (v : α) : Except Err W := if c.Fits v then .ok (c.encP v) else .error .structError

end PCodec

end PsdVerif.Payload
