/-
C01 (typed documents) — the *typed* tagged block: `TaggedBlock.read` with the payload dispatch through the whole registry
`tagged_blocks.TYPES`, used in layer records and in the document-level block list.

```
kls = TYPES.get(key)
if kls:  data = kls.frombytes(raw_data, version=version)      # whatever it raises leaves TaggedBlock.read: no try here
else:    data = raw_data                                      # the only fallback: a key that is not registered
...
def writer(f):
    if hasattr(self.data, "write"):
        inner_padding = 1 if padding == 4 else 4
        return self.data.write(f, padding=inner_padding, version=version)
    return write_bytes(f, self.data)
```

* `TClass`: the classes of `TYPES` other than `LayerInfoBlock` - one constructor per class, `TClass.Val` its value type,
  `TClass.codec tb pad` its `PCodec` *as the payload of a block written with `padding=pad`* (the classes that take a
  `padding` keyword get the inner padding; no payload reader uses `version`; none but `LayerInfoBlock` is recursive).
  The class of a key is decided by the regenerated registry (`keyKind`).
* `LayerInfoBlock` (`Lr16` / `Lr32`) is recursive: its records hold tagged blocks read by the same `TaggedBlock.read`.
  The structures are therefore polymorphic in the payload type of the *nested* blocks (`Blk P`, `Rec P`, `Info P`,
  `Pay P`), everything that touches a payload goes through a `Kit P` (what the block reader / writer need from a payload
  type), and `payKit` builds the kit of `Pay P` from the kit of `P`. `PayN n` is the payload type with `n` further levels of
  `Lr16` / `Lr32` nesting; the reader at level `n` raises `RecursionError` when a file nests deeper (CPython's own limit
  is about 80 levels: ten frames per level).

WF tags: (i) validator · (ii) on-disk width · (iii) format consistency · (F) forced by the proof · (R) representation.
Core Lean only.
-/
import PsdVerif.Model.TypedEngine
import PsdVerif.Model.PayloadLayerInfo
import PsdVerif.Model.PayloadSimple
import PsdVerif.Model.PayloadEffects
import PsdVerif.Model.PayloadPatterns
import PsdVerif.Model.PayloadLinked
import PsdVerif.Model.Payload3Adjust
import PsdVerif.Model.Payload3Vector
import PsdVerif.Model.Payload3Filter
import PsdVerif.Model.Payload3Resources

namespace PsdVerif.Typed
open PsdVerif PsdVerif.Codec PsdVerif.Psd PsdVerif.Payload

/-! ## the classes of `tagged_blocks.TYPES` -/

inductive TClass where
  | annotations | brightnessContrast | byteElement | bytes | channelBlendingRestrictionsSetting | channelMixer | colorBalance
  | colorLookup | curves | descriptorBlock | descriptorBlock2 | effectsLayer | emptyElement | engineData2 | exposure
  | filterEffects | filterMask | gradientMap | hueSaturation | integerElement | levels | linkedLayers | metadataSettings
  | patterns | photoFilter | pixelSourceData2 | placedLayerData | protectedSetting | referencePoint | sectionDividerSetting
  | selectiveColor | sheetColorSetting | shortIntegerElement | smartObjectLayerData | stringElement | typeToolObjectSetting
  | userMask | vectorMaskSetting | vectorStrokeContentSetting
  deriving DecidableEq, Repr

def TClass.all : List TClass :=
  [.annotations, .brightnessContrast, .byteElement, .bytes, .channelBlendingRestrictionsSetting, .channelMixer, .colorBalance,
   .colorLookup, .curves, .descriptorBlock, .descriptorBlock2, .effectsLayer, .emptyElement, .engineData2, .exposure,
   .filterEffects, .filterMask, .gradientMap, .hueSaturation, .integerElement, .levels, .linkedLayers, .metadataSettings,
   .patterns, .photoFilter, .pixelSourceData2, .placedLayerData, .protectedSetting, .referencePoint, .sectionDividerSetting,
   .selectiveColor, .sheetColorSetting, .shortIntegerElement, .smartObjectLayerData, .stringElement, .typeToolObjectSetting,
   .userMask, .vectorMaskSetting, .vectorStrokeContentSetting]

/-- the name the class is registered under (`TYPES[key].__name__`) -/
def TClass.name : TClass → String
  | .annotations => "Annotations" | .brightnessContrast => "BrightnessContrast" | .byteElement => "ByteElement" | .bytes => "Bytes"
  | .channelBlendingRestrictionsSetting => "ChannelBlendingRestrictionsSetting" | .channelMixer => "ChannelMixer"
  | .colorBalance => "ColorBalance" | .colorLookup => "ColorLookup" | .curves => "Curves" | .descriptorBlock => "DescriptorBlock"
  | .descriptorBlock2 => "DescriptorBlock2" | .effectsLayer => "EffectsLayer" | .emptyElement => "EmptyElement"
  | .engineData2 => "EngineData2" | .exposure => "Exposure" | .filterEffects => "FilterEffects" | .filterMask => "FilterMask"
  | .gradientMap => "GradientMap" | .hueSaturation => "HueSaturation" | .integerElement => "IntegerElement" | .levels => "Levels"
  | .linkedLayers => "LinkedLayers" | .metadataSettings => "MetadataSettings" | .patterns => "Patterns" | .photoFilter => "PhotoFilter"
  | .pixelSourceData2 => "PixelSourceData2" | .placedLayerData => "PlacedLayerData" | .protectedSetting => "ProtectedSetting"
  | .referencePoint => "ReferencePoint" | .sectionDividerSetting => "SectionDividerSetting" | .selectiveColor => "SelectiveColor"
  | .sheetColorSetting => "SheetColorSetting" | .shortIntegerElement => "ShortIntegerElement"
  | .smartObjectLayerData => "SmartObjectLayerData" | .stringElement => "StringElement"
  | .typeToolObjectSetting => "TypeToolObjectSetting" | .userMask => "UserMask" | .vectorMaskSetting => "VectorMaskSetting"
  | .vectorStrokeContentSetting => "VectorStrokeContentSetting"

def TClass.ofName (s : String) : Option TClass := TClass.all.find? (fun c => c.name == s)

def TClass.Val : TClass → Type
  | .annotations => Annotations | .brightnessContrast => Payload3.Row | .byteElement => Nat | .bytes => B
  | .channelBlendingRestrictionsSetting => List Nat | .channelMixer => Payload3.Row × Payload3.Row × B
  | .colorBalance => Payload3.Row × Payload3.Row × Payload3.Row × Payload3.Row | .colorLookup => Descriptor.Block2
  | .curves => Payload3.Curves | .descriptorBlock => Descriptor.Block | .descriptorBlock2 => Descriptor.Block2
  | .effectsLayer => EffectsLayer | .emptyElement => Unit | .engineData2 => Tree | .exposure => Payload3.Row
  | .filterEffects => Payload3.Row × List Payload3.FilterEffect | .filterMask => FilterMask | .gradientMap => Payload3.GradientMap.Val
  | .hueSaturation => Payload3.Row × Payload3.Row × Payload3.Row × List (Payload3.Row × Payload3.Row) | .integerElement => Nat
  | .levels => Payload3.Levels | .linkedLayers => List LinkedLayer | .metadataSettings => List MetadataSetting
  | .patterns => List Pattern | .photoFilter => Payload3.PhotoFilter | .pixelSourceData2 => List B
  | .placedLayerData => PlacedLayerData | .protectedSetting => Nat | .referencePoint => List UInt64
  | .sectionDividerSetting => SectionDividerSetting | .selectiveColor => Payload3.Row × List Payload3.Row | .sheetColorSetting => Nat
  | .shortIntegerElement => Nat | .smartObjectLayerData => SmartObjectLayerData | .stringElement => Payload.Str
  | .typeToolObjectSetting => TypeToolTyped | .userMask => UserMask | .vectorMaskSetting => Payload3.VectorMaskSetting
  | .vectorStrokeContentSetting => Payload3.VectorStrokeContentSetting

/-- the codec of the class as the payload of a tagged block written with `padding=pad`: `data.write(f,
padding=innerPad pad, version=version)` / `kls.frombytes(raw_data, version=version)` -/
def TClass.codec (tb : Descriptor.Tables) (pad : Nat) : (c : TClass) → PCodec c.Val
  | .annotations => Annotations.codec | .brightnessContrast => Payload3.BrightnessContrast.codec | .byteElement => ByteElement.codec
  | .bytes => BytesElement.codec | .channelBlendingRestrictionsSetting => ChannelBlendingRestrictionsSetting.codec
  | .channelMixer => Payload3.ChannelMixer.codec | .colorBalance => Payload3.ColorBalance.codec
  | .colorLookup => Payload3.ColorLookup.codec tb (innerPad pad) | .curves => Payload3.Curves.codec
  | .descriptorBlock => Payload3.DescriptorPayload.codec tb (innerPad pad)
  | .descriptorBlock2 => Payload3.Descriptor2Payload.codec tb (innerPad pad) | .effectsLayer => EffectsLayer.codec
  | .emptyElement => EmptyElement.codec | .engineData2 => EngineData2.codec | .exposure => Payload3.Exposure.codec (innerPad pad)
  | .filterEffects => Payload3.FilterEffects.codec | .filterMask => FilterMask.codec | .gradientMap => Payload3.GradientMap.codec
  | .hueSaturation => Payload3.HueSaturation.codec | .integerElement => IntegerElement.codec | .levels => Payload3.Levels.codec
  | .linkedLayers => LinkedLayers.codec tb | .metadataSettings => MetadataSettings.codec tb | .patterns => Patterns.codec
  | .photoFilter => Payload3.PhotoFilter.codec | .pixelSourceData2 => PixelSourceData2.codec (innerPad pad)
  | .placedLayerData => PlacedLayerData.codec tb (innerPad pad) | .protectedSetting => IntegerElement.codec
  | .referencePoint => ReferencePoint.codec | .sectionDividerSetting => SectionDividerSetting.codec
  | .selectiveColor => Payload3.SelectiveColor.codec | .sheetColorSetting => SheetColorSetting.codec
  | .shortIntegerElement => ShortIntegerElement.codec | .smartObjectLayerData => SmartObjectLayerData.codec tb (innerPad pad)
  | .stringElement => StringElement.codec (innerPad pad) 1 | .typeToolObjectSetting => TypeToolTyped.codec tb (innerPad pad)
  | .userMask => UserMask.codec | .vectorMaskSetting => Payload3.VectorMaskSetting.codec
  | .vectorStrokeContentSetting => Payload3.VectorStrokeContentSetting.codec tb (innerPad pad)

/-- what `TYPES.get(key)` gives -/
inductive Kind where
  | unregistered                 -- `None`: the payload stays `raw_data`
  | plain (c : TClass)
  | layerInfo                    -- `LayerInfoBlock`
  | unknownClass                 -- a class this model does not have (`key_kind_tied` says there is none)
  deriving DecidableEq, Repr

/-- `TYPES.get(key)`: the registry is the regenerated table; the keys of `LayerInfoBlock` are the table the deep document
of Model/PayloadLayerInfo.lean uses (`key_kind_tied`: the two tables agree) -/
def keyKind (key : B) : Kind :=
  if key ∈ layerInfoKeys then .layerInfo else
  match Generated.TypedDoc.taggedRegistry.lookup key with
  | none => .unregistered
  | some nm =>
    match TClass.ofName nm with
    | some c => .plain c
    | none => .unknownClass

/-! ## what the block reader / writer need from a payload type -/

structure Kit (P : Type) where
  /-- what the `writer` closure of `TaggedBlock.write(fp, version, padding=pad)` emits for the payload -/
  encT : (version pad : Nat) → P → B
  /-- the same with the count it returns -/
  encP : (version pad : Nat) → P → W
  /-- every `struct.pack` of the payload writer accepts its argument -/
  Fits : (version pad : Nat) → P → Prop
  decFits : ∀ version pad, DecidablePred (Fits version pad)
  /-- the payload object after `write` (nested `LayerInfoBlock`s refresh their channel lengths) -/
  refresh : P → P
  /-- `TYPES.get(key)` and `kls.frombytes(raw_data, version=version)` -/
  dec : (version : Nat) → (key : B) → B → Except Err P
  WF : (version pad : Nat) → (key : B) → P → Prop
  decWF : ∀ version pad key, DecidablePred (WF version pad key)

instance {P : Type} (K : Kit P) (version pad : Nat) : DecidablePred (K.Fits version pad) := K.decFits version pad
instance {P : Type} (K : Kit P) (version pad : Nat) (key : B) : DecidablePred (K.WF version pad key) := K.decWF version pad key

/-! ## the block, the record, the layer info over a payload type -/

structure Blk (P : Type) where
  signature : B
  key : B
  data : P
  deriving Repr

/-- a layer record: every attribute but the tagged blocks in `base` (whose own `taggedBlocks` stays `[]`: (R)) -/
structure Rec (P : Type) where
  base : LayerRecord
  blocks : List (Blk P)
  deriving Repr

structure Info (P : Type) where
  layerCount : Int
  records : Option (List (Rec P))
  channels : Option (List (List ChannelData))
  deriving Repr

namespace Blk
variable {P : Type} (K : Kit P)

/-- the skeleton's view: the payload as the bytes it writes -/
def flat (version pad : Nat) (t : Blk P) : TaggedBlock := ⟨t.signature, t.key, K.encT version pad t.data⟩

def encT (version pad : Nat) (t : Blk P) : B := (t.flat K version pad).encT version pad

/-- `TaggedBlock.write` with its `written` accumulator -/
def encP (version pad : Nat) (t : Blk P) : W :=
  let written := wBytes (pack4s t.signature ++ pack4s t.key)
  written +> wLenBlock 0 (tbLenW version t.key) pad (K.encP version pad t.data)

def Fits (version pad : Nat) (t : Blk P) : Prop := K.Fits version pad t.data ∧ (t.flat K version pad).Fits version
instance (version pad : Nat) (t : Blk P) : Decidable (Fits K version pad t) := by unfold Fits; exact inferInstance

def enc (version pad : Nat) (t : Blk P) : Except Err B :=
  if t.Fits K version pad then .ok (t.encT K version pad) else .error .structError

def refresh (t : Blk P) : Blk P := { t with data := K.refresh t.data }

/-- `TaggedBlock.read(fp, version, padding)` with the payload dispatch -/
def dec (version pad : Nat) : R (Option (Blk P)) := fun d p => do
  let (sig, p1) ← readN 4 d p
  if sig ∈ G.blockSignatures then
    let (key, p2) ← readN 4 d p1
    let (data, p3) ← readLenBlock 0 (tbLenW version key) pad d p2
    let pl ← K.dec version key data
    .ok (some ⟨sig, key, pl⟩, p3)
  else .ok (none, p)

def WF (version pad : Nat) (t : Blk P) : Prop :=
  (t.flat K version pad).WF version                       -- (i) signature, (ii) key width, length field
  ∧ K.Fits version pad t.data                             -- (ii)
  ∧ K.WF version pad t.key t.data                         -- the payload's own clauses; (iii) the key decides its class
instance (version pad : Nat) (t : Blk P) : Decidable (WF K version pad t) := by unfold WF; exact inferInstance

end Blk

section blocks
variable {P : Type} (K : Kit P)

def blksT (version pad : Nat) (ts : List (Blk P)) : B := listT (Blk.encT K version pad) ts

/-- `TaggedBlocks.read` -/
def blksDec (version pad : Nat) (endPos : Option Nat) : R (List (Blk P)) := fun d p => do
  let (items, p) ← readWhile (taggedCond endPos) (Blk.dec K version pad) d p
  .ok (odict Blk.key items, p)

/-- the typed clauses of a block list (the skeleton's clauses - signatures, widths, distinct keys - are those of the flat view) -/
def blksTyped (version pad : Nat) (ts : List (Blk P)) : Prop :=
  ∀ t ∈ ts, K.Fits version pad t.data ∧ K.WF version pad t.key t.data
instance (version pad : Nat) (ts : List (Blk P)) : Decidable (blksTyped K version pad ts) := by
  unfold blksTyped; exact inferInstance

end blocks

namespace Rec
variable {P : Type} (K : Kit P)

/-- the skeleton's view (the blocks of a layer record are written with `padding=1`) -/
def flat (version : Nat) (r : Rec P) : LayerRecord := { r.base with taggedBlocks := r.blocks.map (Blk.flat K version 1) }

def refresh (r : Rec P) : Rec P := { r with blocks := r.blocks.map (Blk.refresh K) }

/-- `LayerRecord._read_extra` with the typed block reader -/
def extraDec (version : Nat) : R (Option MaskData × BlendingRanges × B × List (Blk P)) := fun d p => do
  let (mask, p) ← maskDec d p
  let (ranges, p) ← BlendingRanges.dec d p
  let (name, p) ← readPascal 4 d p
  let (tbs, p) ← blksDec K version 1 none d p
  .ok ((mask, ranges, name, tbs), p)

/-- `LayerRecord.read` -/
def dec (version : Nat) : R (Rec P) := fun d p => do
  let (top, p) ← readI32 d p
  let (left, p) ← readI32 d p
  let (bottom, p) ← readI32 d p
  let (right, p) ← readI32 d p
  let (n, p) ← readU 2 d p
  let (cis, p) ← readCount (ChannelInfo.dec version) n d p
  let (sig, p) ← readN 4 d p
  let (bm, p) ← readN 4 d p
  let (opacity, p) ← readU 1 d p
  let (clipping, p) ← readU 1 d p
  let (fl, p) ← readU 1 d p
  let (data, p) ← readLenBlock 1 4 1 d p
  let ((mask, ranges, name, tbs), _) ← extraDec K version data 0
  let r : LayerRecord := ⟨top, left, bottom, right, cis, sig, bm, opacity, clipping, LayerFlags.ofNat fl,
    mask, ranges, name, []⟩
  if r.Valid then .ok (⟨r, tbs⟩, p) else .error .valueError

/-- (R) the blocks live in `blocks`; the typed clauses of the blocks -/
def Typed (version : Nat) (r : Rec P) : Prop := r.base.taggedBlocks = [] ∧ blksTyped K version 1 r.blocks
instance (version : Nat) (r : Rec P) : Decidable (Typed K version r) := by unfold Typed; exact inferInstance

def payloadFits (version : Nat) (r : Rec P) : Prop := ∀ t ∈ r.blocks, K.Fits version 1 t.data
instance (version : Nat) (r : Rec P) : Decidable (payloadFits K version r) := by unfold payloadFits; exact inferInstance

end Rec

namespace Info
variable {P : Type} (K : Kit P)

def flat (version : Nat) (li : Info P) : LayerInfo :=
  ⟨li.layerCount, li.records.map (List.map (Rec.flat K version)), li.channels⟩

/-- `_update_channel_length` on typed records: `zip` semantics -/
def refreshRecsCI : List (Rec P) → List (List ChannelData) → List (Rec P)
  | r :: rs, cs :: css => { r with base := { r.base with channelInfo := refreshCI r.base.channelInfo cs } } :: refreshRecsCI rs css
  | [], _ => []
  | rs, [] => rs

/-- every nested payload as its writer left it -/
def deep (li : Info P) : Info P := { li with records := li.records.map (List.map (Rec.refresh K)) }

/-- the object after `LayerInfo.write` (the main layer info): nothing is written - no payload writer runs - when
`layer_count == 0` -/
def refresh (li : Info P) : Info P :=
  if li.layerCount = 0 then li else
  match (deep K li).records, li.channels with
  | some (r :: rs), some (c :: cs) => { deep K li with records := some (refreshRecsCI (r :: rs) (c :: cs)) }
  | _, _ => deep K li

/-- the object after `LayerInfoBlock.write` -/
def blockRefresh (li : Info P) : Info P :=
  match (deep K li).records, li.channels with
  | some (r :: rs), some (c :: cs) => { deep K li with records := some (refreshRecsCI (r :: rs) (c :: cs)) }
  | _, _ => deep K li

/-- `LayerInfo._read_body` with the typed record reader -/
def bodyDec (version : Nat) : R (Info P) := fun d p => do
  let (count, p) ← readI16 d p
  let (records, p) ← readCount (Rec.dec K version) count.natAbs d p
  let (channels, p) ← channelImageDec (records.map Rec.base) d p
  .ok (⟨count, some records, some channels⟩, p)

def normCount0 (li : Info P) : Info P := if li.layerCount = 0 then ⟨0, none, none⟩ else li

/-- `LayerInfo.read` -/
def dec (version : Nat) : R (Info P) := fun d p => do
  let (length, p) ← readU (secW version) d p
  let endPos := p + length
  let (li, p) ← (if length = 0 then .ok (⟨0, none, none⟩, p) else
    match bodyDec K version d p with
    | .ok (li, p) => .ok (normCount0 li, p)
    | .error e => .error e)
  if p ≤ endPos then (if overflows endPos d then .error .overflowError else .ok (li, endPos))
  else .error .assertionError

def Typed (version : Nat) (li : Info P) : Prop := optAll (Rec.Typed K version) li.records
instance (version : Nat) (li : Info P) : Decidable (Typed K version li) := by unfold Typed; exact inferInstance

def payloadFits (version : Nat) (li : Info P) : Prop := optAll (Rec.payloadFits K version) li.records
instance (version : Nat) (li : Info P) : Decidable (payloadFits K version li) := by unfold payloadFits; exact inferInstance

end Info

/-! ## the payload of a typed block, over the payload type of the nested blocks -/

inductive Pay (P : Type) where
  | raw (b : B)
  | cls (c : TClass) (v : c.Val)
  | info (li : Info P)

namespace Pay
variable {P : Type} (tb : Descriptor.Tables) (K : Kit P)

def encT (version pad : Nat) : Pay P → B
  | .raw b => b
  | .cls c v => (c.codec tb pad).encT v
  | .info li => LayerInfoBlock.encT version (innerPad pad) (li.flat K version)

def encP (version pad : Nat) : Pay P → W
  | .raw b => wBytes b
  | .cls c v => (c.codec tb pad).encP v
  | .info li => LayerInfoBlock.encP version (innerPad pad) (li.flat K version)

def Fits (version pad : Nat) : Pay P → Prop
  | .raw _ => True
  | .cls c v => (c.codec tb pad).Fits v
  | .info li => LayerInfoBlock.Fits version (li.flat K version) ∧ li.payloadFits K version
instance (version pad : Nat) (x : Pay P) : Decidable (Fits tb K version pad x) := by
  cases x with
  | raw _ => exact inferInstanceAs (Decidable True)
  | cls c v => exact (c.codec tb pad).decFits v
  | info li => simp only [Fits]; exact inferInstance

def refresh : Pay P → Pay P
  | .raw b => .raw b
  | .cls c v => .cls c v
  | .info li => .info (li.blockRefresh K)

/-- `kls = TYPES.get(key); data = kls.frombytes(raw_data, version=version) if kls else raw_data` -/
def dec (version : Nat) (key data : B) : Except Err (Pay P) :=
  match keyKind key with
  | .unregistered => .ok (.raw data)
  | .plain c =>
    (match (c.codec tb 1).dec data 0 with
     | .ok (v, _) => .ok (.cls c v)
     | .error e => .error e)
  | .layerInfo =>
    (match Info.bodyDec K version data 0 with
     | .ok (li, _) => .ok (.info li)
     | .error e => .error e)
  | .unknownClass => .error .other

def WF (version pad : Nat) (key : B) : Pay P → Prop
  | .raw _ => keyKind key = .unregistered                 -- (iii) the key decides the class of the payload
  | .cls c v => keyKind key = .plain c ∧ (c.codec tb pad).WF v
  | .info li => keyKind key = .layerInfo ∧ LayerInfoBlock.WF version (li.flat K version) ∧ li.Typed K version
instance (version pad : Nat) (key : B) (x : Pay P) : Decidable (WF tb K version pad key x) := by
  cases x with
  | raw _ => simp only [WF]; exact inferInstance
  | cls c v =>
    simp only [WF]
    have := (c.codec tb pad).decWF v
    exact inferInstance
  | info li => simp only [WF]; exact inferInstance

end Pay

def payKit {P : Type} (tb : Descriptor.Tables) (K : Kit P) : Kit (Pay P) where
  encT := Pay.encT tb K
  encP := Pay.encP tb K
  Fits := Pay.Fits tb K
  decFits _ _ := inferInstance
  refresh := Pay.refresh K
  dec := Pay.dec tb K
  WF := Pay.WF tb K
  decWF _ _ _ := inferInstance

/-! ## the levels -/

/-- no nested block can be read / written at all: the reader is out of levels (`RecursionError`) -/
def emptyKit : Kit Empty where
  encT _ _ e := nomatch e
  encP _ _ e := nomatch e
  Fits _ _ _ := True
  decFits _ _ _ := isTrue trivial
  refresh e := e
  dec _ _ _ := .error .recursionError
  WF _ _ _ _ := True
  decWF _ _ _ _ := isTrue trivial

/-- payloads of the nested blocks below level `n` (`Empty` below level 0: no block can be nested any more) -/
def Below : Nat → Type
  | 0 => Empty
  | n + 1 => Pay (Below n)

def kitBelow (tb : Descriptor.Tables) : (n : Nat) → Kit (Below n)
  | 0 => emptyKit
  | n + 1 => payKit tb (kitBelow tb n)

/-- the payload of a block with at most `n` further levels of `Lr16` / `Lr32` nesting below it -/
abbrev PayN (n : Nat) : Type := Pay (Below n)

def kitN (tb : Descriptor.Tables) (n : Nat) : Kit (PayN n) := payKit tb (kitBelow tb n)

end PsdVerif.Typed
