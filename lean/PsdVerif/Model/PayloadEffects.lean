/-
C01 payload classes — unit 3: psd/effects_layer.py (`lrFX`): `EffectsLayer` and the six effect-info classes
`CommonStateInfo`, `ShadowInfo` (drop / inner shadow), `OuterGlowInfo`, `InnerGlowInfo`, `BevelInfo`, `SolidFillInfo`.
(`Color` is in Model/PayloadSimple.lean.)

Version-dependent trailers, as the code decides them:
  OuterGlowInfo   read: `if version >= 2: native_color`        write: `if self.native_color:`
  InnerGlowInfo   read: `if version >= 2: invert, native_color` write: `if self.version >= 2:`
  BevelInfo       read: `if version >= 2: real colours`         write: `if self.version >= 2:`
                  (the reader's test was `== 2` before repo commit 077ef93; 3d75013 repaired what the writer stores)
  ShadowInfo, SolidFillInfo: no dependence on the version.

Where the signature `8BIM` is checked by an `assert` right after it is read, the model raises `assertionError` there;
a blend mode converted by `BlendMode(...)` at once raises `valueError` at once, one handed to the attrs converter
raises it when the object is constructed, after every field was read (`BevelInfo`, `SolidFillInfo`).

A colour that the writer needs but is `None` (`self.native_color.write` on `None`: AttributeError) is outside the value
type's reach of `Fits`: such a value does not fit.
Core Lean only.
-/
import PsdVerif.Model.PayloadSimple

namespace PsdVerif.Payload
open PsdVerif PsdVerif.Codec

namespace GP
export PsdVerif.Generated.Payload (effectKeys)
end GP

def sig8BIM : B := [56, 66, 73, 77]

/-- `signature = read_fmt("4s", fp)[0]; assert signature == b"8BIM"` -/
def readSig8BIM : R Unit := fun d p =>
  match readN 4 d p with
  | .ok (s, p') => if s = sig8BIM then .ok ((), p') else .error .assertionError
  | .error e => .error e

/-- `BlendMode(read_fmt("4s", fp)[0])` -/
def readBlendMode : R B := fun d p =>
  match readN 4 d p with
  | .ok (b, p') => if b ∈ Psd.G.blendModes then .ok (b, p') else .error .valueError
  | .error e => .error e

def optColorT : Option Color → B
  | some c => c.encT
  | none => []

def optColorP : Option Color → W
  | some c => c.encP
  | none => wNil

def optColorFits : Option Color → Prop
  | some c => c.Fits
  | none => True
instance (o : Option Color) : Decidable (optColorFits o) := by cases o <;> simp only [optColorFits] <;> exact inferInstance

/-! ## CommonStateInfo  (`IB2x`) -/

structure CommonStateInfo where
  version : Nat
  visible : Nat
  deriving DecidableEq, Repr

def CommonStateInfo.codec : PCodec CommonStateInfo where
  encT x := beBytes 4 x.version ++ beBytes 1 x.visible ++ zeros 2
  Fits x := FitsU 4 x.version ∧ FitsU 1 x.visible
  decFits _ := by unfold FitsU; exact inferInstance
  encP x := wBytes (beBytes 4 x.version ++ beBytes 1 x.visible ++ zeros 2)
  dec := fun d p => do
    let (v, p) ← readU 4 d p
    let (vis, p) ← readU 1 d p
    let (_, p) ← readSkip 2 d p
    .ok (⟨v, vis⟩, p)
  consumed _ := 7
  WF _ := True
  decWF _ := inferInstanceAs (Decidable True)

/-! ## ShadowInfo  (`IIIiI`, Color, `4s4s3B`, Color) -/

structure ShadowInfo where
  version : Nat
  blur : Nat
  intensity : Nat
  angle : Int
  distance : Nat
  color : Color
  blendMode : B
  enabled : Nat
  useGlobalAngle : Nat
  opacity : Nat
  nativeColor : Color
  deriving DecidableEq, Repr

namespace ShadowInfo

def headT (x : ShadowInfo) : B :=
  beBytes 4 x.version ++ beBytes 4 x.blur ++ beBytes 4 x.intensity ++ i32T x.angle ++ beBytes 4 x.distance

def midT (x : ShadowInfo) : B :=
  sig8BIM ++ pack4s x.blendMode ++ beBytes 1 x.enabled ++ beBytes 1 x.useGlobalAngle ++ beBytes 1 x.opacity

def encT (x : ShadowInfo) : B := x.headT ++ x.color.encT ++ x.midT ++ x.nativeColor.encT

def Fits (x : ShadowInfo) : Prop :=
  FitsU 4 x.version ∧ FitsU 4 x.blur ∧ FitsU 4 x.intensity ∧ FitsI32 x.angle ∧ FitsU 4 x.distance ∧ x.color.Fits ∧
  FitsU 1 x.enabled ∧ FitsU 1 x.useGlobalAngle ∧ FitsU 1 x.opacity ∧ x.nativeColor.Fits
instance (x : ShadowInfo) : Decidable x.Fits := by unfold Fits FitsU; exact inferInstance

def encP (x : ShadowInfo) : W :=
  let written := wBytes x.headT
  let written := written +> x.color.encP
  let written := written +> wBytes x.midT
  written +> x.nativeColor.encP

def dec : R ShadowInfo := fun d p => do
  let (version, p) ← readU 4 d p
  let (blur, p) ← readU 4 d p
  let (intensity, p) ← readU 4 d p
  let (angle, p) ← readI32 d p
  let (distance, p) ← readU 4 d p
  let (color, p) ← Color.dec d p
  let (_, p) ← readSig8BIM d p
  let (bm, p) ← readBlendMode d p
  let (enabled, p) ← readU 1 d p
  let (uga, p) ← readU 1 d p
  let (opacity, p) ← readU 1 d p
  let (native, p) ← Color.dec d p
  .ok (⟨version, blur, intensity, angle, distance, color, bm, enabled, uga, opacity, native⟩, p)

def codec : PCodec ShadowInfo where
  encT := encT
  Fits := Fits
  decFits := inferInstance
  encP := encP
  dec := dec
  consumed _ := 51
  WF x := x.blendMode ∈ Psd.G.blendModes            -- (i) converter / validator `BlendMode`
  decWF _ := inferInstance

end ShadowInfo

/-! ## `_GlowInfo` body  (`III`, Color, `4s4s2B`) -/

structure GlowBody where
  version : Nat
  blur : Nat
  intensity : Nat
  color : Color
  blendMode : B
  enabled : Nat
  opacity : Nat
  deriving DecidableEq, Repr

namespace GlowBody

def encT (x : GlowBody) : B :=
  beBytes 4 x.version ++ beBytes 4 x.blur ++ beBytes 4 x.intensity ++ x.color.encT ++
  (sig8BIM ++ pack4s x.blendMode ++ beBytes 1 x.enabled ++ beBytes 1 x.opacity)

def Fits (x : GlowBody) : Prop :=
  FitsU 4 x.version ∧ FitsU 4 x.blur ∧ FitsU 4 x.intensity ∧ x.color.Fits ∧ FitsU 1 x.enabled ∧ FitsU 1 x.opacity
instance (x : GlowBody) : Decidable x.Fits := by unfold Fits FitsU; exact inferInstance

def encP (x : GlowBody) : W :=
  let written := wBytes (beBytes 4 x.version ++ beBytes 4 x.blur ++ beBytes 4 x.intensity)
  let written := written +> x.color.encP
  written +> wBytes (sig8BIM ++ pack4s x.blendMode ++ beBytes 1 x.enabled ++ beBytes 1 x.opacity)

def dec : R GlowBody := fun d p => do
  let (version, p) ← readU 4 d p
  let (blur, p) ← readU 4 d p
  let (intensity, p) ← readU 4 d p
  let (color, p) ← Color.dec d p
  let (_, p) ← readSig8BIM d p
  let (bm, p) ← readBlendMode d p
  let (enabled, p) ← readU 1 d p
  let (opacity, p) ← readU 1 d p
  .ok (⟨version, blur, intensity, color, bm, enabled, opacity⟩, p)

end GlowBody

/-! ## OuterGlowInfo -/

structure OuterGlowInfo where
  body : GlowBody
  nativeColor : Option Color
  deriving DecidableEq, Repr

namespace OuterGlowInfo

/-- `_write_body`, then `if self.native_color: self.native_color.write(fp)` -/
def encT (x : OuterGlowInfo) : B := x.body.encT ++ optColorT x.nativeColor

def Fits (x : OuterGlowInfo) : Prop := x.body.Fits ∧ optColorFits x.nativeColor
instance (x : OuterGlowInfo) : Decidable x.Fits := by unfold Fits; exact inferInstance

def encP (x : OuterGlowInfo) : W :=
  let written := x.body.encP
  match x.nativeColor with
  | some c => written +> c.encP
  | none => written

/-- `_read_body`, then `if version >= 2: native_color = Color.read(fp)` -/
def dec : R OuterGlowInfo := fun d p => do
  let (body, p) ← GlowBody.dec d p
  let (native, p) ← (if body.version ≥ 2 then Codec.optItem Color.dec d p else .ok (none, p))
  .ok (⟨body, native⟩, p)

def codec : PCodec OuterGlowInfo where
  encT := encT
  Fits := Fits
  decFits := inferInstance
  encP := encP
  dec := dec
  consumed x := (encT x).length
  WF x :=
    x.body.blendMode ∈ Psd.G.blendModes                       -- (i)
    ∧ (x.body.version ≥ 2 ↔ x.nativeColor.isSome)             -- (iii) the native colour is the version-2 trailer
  decWF _ := inferInstance

end OuterGlowInfo

/-! ## InnerGlowInfo -/

structure InnerGlowInfo where
  body : GlowBody
  invert : Option Nat
  nativeColor : Option Color
  deriving DecidableEq, Repr

namespace InnerGlowInfo

/-- `_write_body`, then `if self.version >= 2: write_fmt(fp, "B", self.invert); self.native_color.write(fp)` -/
def tailT (x : InnerGlowInfo) : B :=
  if x.body.version ≥ 2 then Psd.optT 1 x.invert ++ optColorT x.nativeColor else []

def encT (x : InnerGlowInfo) : B := x.body.encT ++ x.tailT

def Fits (x : InnerGlowInfo) : Prop :=
  x.body.Fits ∧ (x.body.version ≥ 2 →
    (x.invert.isSome ∧ Psd.optFits 1 x.invert)             -- `struct.error` for `None`
    ∧ (x.nativeColor.isSome ∧ optColorFits x.nativeColor))  -- `None.write`: no value to write
instance (x : InnerGlowInfo) : Decidable x.Fits := by unfold Fits; exact inferInstance

def encP (x : InnerGlowInfo) : W :=
  let written := x.body.encP
  if x.body.version ≥ 2 then
    let written := written +> wBytes (Psd.optT 1 x.invert)
    written +> optColorP x.nativeColor
  else written

def dec : R InnerGlowInfo := fun d p => do
  let (body, p) ← GlowBody.dec d p
  if body.version ≥ 2 then
    let (invert, p) ← readU 1 d p
    let (native, p) ← Color.dec d p
    .ok (⟨body, some invert, some native⟩, p)
  else .ok (⟨body, none, none⟩, p)

def codec : PCodec InnerGlowInfo where
  encT := encT
  Fits := Fits
  decFits := inferInstance
  encP := encP
  dec := dec
  consumed x := (encT x).length
  WF x :=
    x.body.blendMode ∈ Psd.G.blendModes                                         -- (i)
    ∧ (x.body.version < 2 → x.invert = none ∧ x.nativeColor = none)             -- (iii) the version-2 trailer
  decWF _ := inferInstance

end InnerGlowInfo

/-! ## BevelInfo -/

structure BevelInfo where
  version : Nat
  angle : Int
  depth : Nat
  blur : Nat
  highlightBlendMode : B
  shadowBlendMode : B
  highlightColor : Color
  shadowColor : Color
  bevelStyle : Nat
  highlightOpacity : Nat
  shadowOpacity : Nat
  enabled : Nat
  useGlobalAngle : Nat
  direction : Nat
  realHighlightColor : Option Color
  realShadowColor : Option Color
  deriving DecidableEq, Repr

namespace BevelInfo

def headT (x : BevelInfo) : B := beBytes 4 x.version ++ i32T x.angle ++ beBytes 4 x.depth ++ beBytes 4 x.blur

def modesT (x : BevelInfo) : B := sig8BIM ++ pack4s x.highlightBlendMode ++ sig8BIM ++ pack4s x.shadowBlendMode

def sixT (x : BevelInfo) : B :=
  beBytes 1 x.bevelStyle ++ beBytes 1 x.highlightOpacity ++ beBytes 1 x.shadowOpacity ++ beBytes 1 x.enabled ++
  beBytes 1 x.useGlobalAngle ++ beBytes 1 x.direction

/-- `if self.version >= 2:` both real colours -/
def tailT (x : BevelInfo) : B :=
  if x.version ≥ 2 then optColorT x.realHighlightColor ++ optColorT x.realShadowColor else []

def encT (x : BevelInfo) : B :=
  x.headT ++ x.modesT ++ x.highlightColor.encT ++ x.shadowColor.encT ++ x.sixT ++ x.tailT

def Fits (x : BevelInfo) : Prop :=
  FitsU 4 x.version ∧ FitsI32 x.angle ∧ FitsU 4 x.depth ∧ FitsU 4 x.blur ∧ x.highlightColor.Fits ∧ x.shadowColor.Fits ∧
  FitsU 1 x.bevelStyle ∧ FitsU 1 x.highlightOpacity ∧ FitsU 1 x.shadowOpacity ∧ FitsU 1 x.enabled ∧
  FitsU 1 x.useGlobalAngle ∧ FitsU 1 x.direction ∧
  (x.version ≥ 2 → (x.realHighlightColor.isSome ∧ optColorFits x.realHighlightColor) ∧
                    (x.realShadowColor.isSome ∧ optColorFits x.realShadowColor))
instance (x : BevelInfo) : Decidable x.Fits := by unfold Fits FitsU; exact inferInstance

def encP (x : BevelInfo) : W :=
  let written := wBytes x.headT
  let written := written +> wBytes x.modesT
  let written := written +> x.highlightColor.encP
  let written := written +> x.shadowColor.encP
  let written := written +> wBytes x.sixT
  if x.version ≥ 2 then
    let written := written +> optColorP x.realHighlightColor
    written +> optColorP x.realShadowColor
  else written

/-- the two `validator=in_(BlendMode)` converters run in the constructor -/
def Valid (x : BevelInfo) : Prop := x.highlightBlendMode ∈ Psd.G.blendModes ∧ x.shadowBlendMode ∈ Psd.G.blendModes
instance (x : BevelInfo) : Decidable x.Valid := by unfold Valid; exact inferInstance

def dec : R BevelInfo := fun d p => do
  let (version, p) ← readU 4 d p
  let (angle, p) ← readI32 d p
  let (depth, p) ← readU 4 d p
  let (blur, p) ← readU 4 d p
  let (s1, p) ← readN 4 d p
  let (hbm, p) ← readN 4 d p                     -- `read_fmt("4s4s")`, then the assert
  if s1 = sig8BIM then
    let (s2, p) ← readN 4 d p
    let (sbm, p) ← readN 4 d p
    if s2 = sig8BIM then
      let (hc, p) ← Color.dec d p
      let (sc, p) ← Color.dec d p
      let (style, p) ← readU 1 d p
      let (ho, p) ← readU 1 d p
      let (so, p) ← readU 1 d p
      let (en, p) ← readU 1 d p
      let (uga, p) ← readU 1 d p
      let (dir, p) ← readU 1 d p
      let ((rh, rs), p) ← (if version ≥ 2 then do
          let (a, p) ← Color.dec d p
          let (b, p) ← Color.dec d p
          .ok ((some a, some b), p)
        else .ok ((none, none), p) : Except Err ((Option Color × Option Color) × Nat))
      let x : BevelInfo := ⟨version, angle, depth, blur, hbm, sbm, hc, sc, style, ho, so, en, uga, dir, rh, rs⟩
      if x.Valid then .ok (x, p) else .error .valueError
    else .error .assertionError
  else .error .assertionError

def codec : PCodec BevelInfo where
  encT := encT
  Fits := Fits
  decFits := inferInstance
  encP := encP
  dec := dec
  consumed x := (encT x).length
  WF x :=
    x.Valid                                                                          -- (i)
    ∧ (x.version < 2 → x.realHighlightColor = none ∧ x.realShadowColor = none)       -- (iii) the version-2 trailer
  decWF _ := inferInstance

end BevelInfo

/-! ## SolidFillInfo  (`I4s4s`, Color, `2B`, Color) -/

structure SolidFillInfo where
  version : Nat
  blendMode : B
  color : Color
  opacity : Nat
  enabled : Nat
  nativeColor : Color
  deriving DecidableEq, Repr

namespace SolidFillInfo

def encT (x : SolidFillInfo) : B :=
  (beBytes 4 x.version ++ sig8BIM ++ pack4s x.blendMode) ++ x.color.encT ++ (beBytes 1 x.opacity ++ beBytes 1 x.enabled) ++
  x.nativeColor.encT

def Fits (x : SolidFillInfo) : Prop :=
  FitsU 4 x.version ∧ x.color.Fits ∧ FitsU 1 x.opacity ∧ FitsU 1 x.enabled ∧ x.nativeColor.Fits
instance (x : SolidFillInfo) : Decidable x.Fits := by unfold Fits FitsU; exact inferInstance

def encP (x : SolidFillInfo) : W :=
  let written := wBytes (beBytes 4 x.version ++ sig8BIM ++ pack4s x.blendMode)
  let written := written +> x.color.encP
  let written := written +> wBytes (beBytes 1 x.opacity ++ beBytes 1 x.enabled)
  written +> x.nativeColor.encP

def dec : R SolidFillInfo := fun d p => do
  let (version, p) ← readU 4 d p
  let (s, p) ← readN 4 d p
  let (bm, p) ← readN 4 d p
  if s = sig8BIM then
    let (color, p) ← Color.dec d p
    let (opacity, p) ← readU 1 d p
    let (enabled, p) ← readU 1 d p
    let (native, p) ← Color.dec d p
    if bm ∈ Psd.G.blendModes then .ok (⟨version, bm, color, opacity, enabled, native⟩, p) else .error .valueError
  else .error .assertionError

def codec : PCodec SolidFillInfo where
  encT := encT
  Fits := Fits
  decFits := inferInstance
  encP := encP
  dec := dec
  consumed _ := 34
  WF x := x.blendMode ∈ Psd.G.blendModes            -- (i)
  decWF _ := inferInstance

end SolidFillInfo

/-! ## EffectsLayer -/

/-- the value classes `EFFECT_TYPES` maps the keys to -/
inductive Effect where
  | common (x : CommonStateInfo)
  | shadow (x : ShadowInfo)
  | outerGlow (x : OuterGlowInfo)
  | innerGlow (x : InnerGlowInfo)
  | bevel (x : BevelInfo)
  | solidFill (x : SolidFillInfo)
  deriving DecidableEq, Repr

/-- the classes, as the model names them -/
inductive EffectClass where
  | common | shadow | outerGlow | innerGlow | bevel | solidFill
  deriving DecidableEq, Repr

def kCmnS : B := [99, 109, 110, 83]
def kDsdw : B := [100, 115, 100, 119]
def kIsdw : B := [105, 115, 100, 119]
def kOglw : B := [111, 103, 108, 119]
def kIglw : B := [105, 103, 108, 119]
def kBevl : B := [98, 101, 118, 108]
def kSofi : B := [115, 111, 102, 105]

/-- `EffectsLayer.EFFECT_TYPES` (tied to the source by `effect_types_tied`) -/
def effectTypes : List (B × EffectClass) :=
  [(kCmnS, .common), (kDsdw, .shadow), (kIsdw, .shadow), (kOglw, .outerGlow), (kIglw, .innerGlow), (kBevl, .bevel),
   (kSofi, .solidFill)]

def EffectClass.name : EffectClass → String
  | .common => "CommonStateInfo" | .shadow => "ShadowInfo" | .outerGlow => "OuterGlowInfo" | .innerGlow => "InnerGlowInfo"
  | .bevel => "BevelInfo" | .solidFill => "SolidFillInfo"

def Effect.cls : Effect → EffectClass
  | .common _ => .common | .shadow _ => .shadow | .outerGlow _ => .outerGlow | .innerGlow _ => .innerGlow
  | .bevel _ => .bevel | .solidFill _ => .solidFill

def classOfKey (k : B) : Option EffectClass := (effectTypes.find? (fun kc => kc.1 = k)).map (·.2)

namespace Effect

def encT : Effect → B
  | .common x => CommonStateInfo.codec.encT x
  | .shadow x => x.encT
  | .outerGlow x => x.encT
  | .innerGlow x => x.encT
  | .bevel x => x.encT
  | .solidFill x => x.encT

def encP : Effect → W
  | .common x => CommonStateInfo.codec.encP x
  | .shadow x => x.encP
  | .outerGlow x => x.encP
  | .innerGlow x => x.encP
  | .bevel x => x.encP
  | .solidFill x => x.encP

def Fits : Effect → Prop
  | .common x => CommonStateInfo.codec.Fits x
  | .shadow x => x.Fits
  | .outerGlow x => x.Fits
  | .innerGlow x => x.Fits
  | .bevel x => x.Fits
  | .solidFill x => x.Fits
instance (e : Effect) : Decidable e.Fits := by cases e <;> simp only [Fits] <;> exact inferInstance

def WF : Effect → Prop
  | .common x => CommonStateInfo.codec.WF x
  | .shadow x => ShadowInfo.codec.WF x
  | .outerGlow x => OuterGlowInfo.codec.WF x
  | .innerGlow x => InnerGlowInfo.codec.WF x
  | .bevel x => BevelInfo.codec.WF x
  | .solidFill x => SolidFillInfo.codec.WF x
instance (e : Effect) : Decidable e.WF := by cases e <;> simp only [WF] <;> exact inferInstance

/-- `kls.frombytes(data)`: the class's reader from position 0 of the length block -/
def decAs (c : EffectClass) (data : B) : Except Err Effect :=
  match c with
  | .common => (CommonStateInfo.codec.dec data 0).map (fun r => .common r.1)
  | .shadow => (ShadowInfo.dec data 0).map (fun r => .shadow r.1)
  | .outerGlow => (OuterGlowInfo.dec data 0).map (fun r => .outerGlow r.1)
  | .innerGlow => (InnerGlowInfo.dec data 0).map (fun r => .innerGlow r.1)
  | .bevel => (BevelInfo.dec data 0).map (fun r => .bevel r.1)
  | .solidFill => (SolidFillInfo.dec data 0).map (fun r => .solidFill r.1)

end Effect

structure EffectsLayer where
  version : Nat
  items : List (B × Effect)         -- the ordered dict: key (the value of the `EffectOSType` member), effect info
  deriving DecidableEq, Repr

namespace EffectsLayer

/-- `write_fmt(fp, "4s4s", b"8BIM", key.value)`, `write_length_block(fp, self[key].write)` -/
def itemT (kv : B × Effect) : B := sig8BIM ++ pack4s kv.1 ++ lenBlockT 0 4 1 kv.2.encT

def itemP (kv : B × Effect) : W := wBytes (sig8BIM ++ pack4s kv.1) +> wLenBlock 0 4 1 kv.2.encP

def bodyT (x : EffectsLayer) : B := beBytes 2 x.version ++ beBytes 2 x.items.length ++ listT itemT x.items

/-- … then `write_padding(fp, written, 4)` -/
def encT (x : EffectsLayer) : B := x.bodyT ++ zeros (padAmount x.bodyT.length 4)

def Fits (x : EffectsLayer) : Prop :=
  FitsU 2 x.version ∧ FitsU 2 x.items.length ∧ listFits (fun (kv : B × Effect) => kv.2.Fits ∧ FitsU 4 kv.2.encT.length) x.items
instance (x : EffectsLayer) : Decidable x.Fits := by unfold Fits FitsU; exact inferInstance

def encP (x : EffectsLayer) : W :=
  let written := wBytes (beBytes 2 x.version ++ beBytes 2 x.items.length)
  let written := written +> wList itemP x.items
  written +> wPad written.2 4

def itemDec : R (B × Effect) := fun d p => do
  let (_, p) ← readSig8BIM d p
  let (key, p) ← readN 4 d p
  match classOfKey key with
  | none => .error .valueError                       -- `EffectOSType(...)`
  | some c =>
    let (data, p) ← readLenBlock 0 4 1 d p
    let e ← Effect.decAs c data
    .ok ((key, e), p)

def dec : R EffectsLayer := fun d p => do
  let (version, p) ← readU 2 d p
  let (count, p) ← readU 2 d p
  let (items, p) ← readCount itemDec count d p
  .ok (⟨version, odict (fun (kv : B × Effect) => kv.1) items⟩, p)

def codec : PCodec EffectsLayer where
  encT := encT
  Fits := Fits
  decFits := inferInstance
  encP := encP
  dec := dec
  consumed x := x.bodyT.length
  WF x :=
    (∀ kv ∈ x.items, classOfKey kv.1 = some kv.2.cls ∧ kv.2.WF)     -- (iii) the key decides the class; the infos' own WF
    ∧ (x.items.map (·.1)).Nodup                                      -- the container is a dict
  decWF _ := inferInstance

end EffectsLayer

end PsdVerif.Payload
