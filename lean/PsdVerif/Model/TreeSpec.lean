/-
C09 — the specification: the same operations on plain nested lists.

A specification state is just the lists: every container is a plain Python list of element
ids (identity matters: the same object may be put into several lists, exactly like Python
lists of objects), together with the kinds of the objects (needed to say "is a group") and the
allocation counter. No parent / document pointers, no caches, no dirty flag, no checks:
`apply` is list manipulation only. "Take `x` out of the list that contains it" is
`eraseAll` (erase it from every list; on well-formed trees exactly one list contains it).
-/
import PsdVerif.Model.TreeState

namespace PsdVerif.TreeSt.Spec
open PsdVerif PsdVerif.TreeSt

structure S where
  next : Nat
  kind : Id → Kind
  lists : Id → List Id

def S.setList (t : S) (g : Id) (l : List Id) : S := { t with lists := upd t.lists g l }
def S.isGroup (t : S) (g : Id) : Bool := decide (g < t.next) && isCont (t.kind g)
def S.eraseAll (t : S) (x : Id) : S := { t with lists := fun c => (t.lists c).erase x }
def S.listed (t : S) (x : Id) : Bool := (List.range t.next).any (fun c => decide (x ∈ t.lists c))
/-- the list that contains `x` -/
def S.containerOf (t : S) (x : Id) : Option Id := (List.range t.next).find? (fun c => decide (x ∈ t.lists c))
def S.alloc (t : S) (k : Kind) : S :=
  { next := t.next + 1, kind := upd t.kind t.next k, lists := upd t.lists t.next [] }

/-- `x.move_to_group(g)` on lists: take it out, append it -/
def moveTo (t : S) (x g : Id) : S :=
  let t1 := t.eraseAll x
  t1.setList g (t1.lists g ++ [x])

def moveAllTo (n : Id) : S → List Id → S
  | t, [] => t
  | t, x :: xs => moveAllTo n (moveTo t x n) xs

/-- `group_layers`: a new list holding the layers (moved one by one), appended to the parent -/
def groupInto (t : S) (par : Option Id) (xs : List Id) : S :=
  let t2 := moveAllTo t.next (t.alloc .group) xs
  match par with
  | some q => if t.isGroup q then t2.setList q (t2.lists q ++ [t.next]) else t2
  | none => t2

/-- reinsert `x` at distance `k` inside the list that contains it (Python `move_up`) -/
def reinsert (l : List Id) (x : Id) (k : Int) : List Id :=
  let n : Int := (l.idxOf x : Int) + k
  let n' : Int := if n < 0 then 0 else if n ≥ l.length then (l.length : Int) - 1 else n
  let l1 := l.erase x
  insertAt l1 (clampIdx l1.length n') x

/-- The plain-list result of an accepted operation and the value it returns (`none`: the
specification makes no claim about the value — attribute edits and box observations). -/
def apply (t : S) : Op → Except Err (S × Option Out)
  | .append g x => .ok (t.setList g (t.lists g ++ [x]), some .none)
  | .extend g xs => .ok (t.setList g (t.lists g ++ xs), some .none)
  | .insert g i x => .ok (t.setList g (insertAt (t.lists g) (clampIdx (t.lists g).length i) x), some .none)
  | .remove g x =>
    if x ∈ t.lists g then .ok (t.setList g ((t.lists g).erase x), some (.id g)) else .error .valueError
  | .pop g i =>
    match normIdx (t.lists g).length i with
    | none => .error .indexError
    | some j => match (t.lists g)[j]? with
      | none => .error .indexError
      | some x => .ok (t.setList g ((t.lists g).eraseIdx j), some (.id x))
  | .clear g => .ok (t.setList g [], some .none)
  | .setitem g i x =>
    match normIdx (t.lists g).length i with
    | none => .error .indexError
    | some j => .ok (t.setList g ((t.lists g).set j x), some .none)
  | .setslice g a b xs =>
    let (lo, hi) := sliceBounds (t.lists g).length a b
    .ok (t.setList g (sliceAssign (t.lists g) lo hi xs), some .none)
  | .delitem g i =>
    match normIdx (t.lists g).length i with
    | none => .error .indexError
    | some j => .ok (t.setList g ((t.lists g).eraseIdx j), some .none)
  | .delslice g a b =>
    let (lo, hi) := sliceBounds (t.lists g).length a b
    .ok (t.setList g (sliceAssign (t.lists g) lo hi []), some .none)
  | .deleteLayer x => .ok (t.eraseAll x, some (.id x))
  | .moveToGroup x g => .ok (moveTo t x g, some (.id x))
  | .moveUp x k =>
    if t.listed x then
      .ok ({ t with lists := fun c => if x ∈ t.lists c then reinsert (t.lists c) x k else t.lists c }, some (.id x))
    else .error .valueError
  | .moveDown x k =>
    if t.listed x then
      .ok ({ t with lists := fun c => if x ∈ t.lists c then reinsert (t.lists c) x (-k) else t.lists c }, some (.id x))
    else .error .valueError
  | .newGroup p =>
    let t1 := t.alloc .group
    match p with
    | some q => if t.isGroup q then .ok (moveTo t1 t.next q, some (.id t.next)) else .ok (t1, some (.id t.next))
    | none => .ok (t1, some (.id t.next))
  | .groupLayers xs p =>
    match xs with
    | [] => .error .assertionError
    | x0 :: _ =>
      let par := match p with
        | some q => some q
        | none => t.containerOf x0
      .ok (groupInto t par xs, some (.id t.next))
  | .newLayer _ _ => .ok (t.alloc .leaf, some (.id t.next))
  | .newDoc _ => .ok (t.alloc .doc, some (.id t.next))
  | .setVisible _ _ | .setLeft _ _ | .setTop _ _ | .setAttr _ | .setBlocks _ _ => .ok (t, none)
  | .observe o =>
    match o with
    | .len g => .ok (t, some (.int (t.lists g).length))
    | .count g x => .ok (t, some (.int ((t.lists g).count x)))
    | .contains g x => .ok (t, some (.bool (decide (x ∈ t.lists g))))
    | .index g x => if x ∈ t.lists g then .ok (t, some (.int ((t.lists g).idxOf x))) else .error .valueError
    | .getitem g i =>
      match normIdx (t.lists g).length i with
      | none => .error .indexError
      | some j => match (t.lists g)[j]? with
        | none => .error .indexError
        | some x => .ok (t, some (.id x))
    | _ => .ok (t, none)

/-- run a history on lists (stops at the first list-level exception) -/
def runLists : S → List Op → Except Err S
  | t, [] => .ok t
  | t, op :: ops =>
    match apply t op with
    | .error e => .error e
    | .ok (t', _) => runLists t' ops

end PsdVerif.TreeSt.Spec

namespace PsdVerif.TreeSt

/-- the abstraction: forget everything but the lists -/
def abs (s : State) : Spec.S := { next := s.next, kind := s.kind, lists := s.children }

end PsdVerif.TreeSt
