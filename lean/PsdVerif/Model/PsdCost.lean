/-
C06 — the skeleton reader of `Model/Psd.lean` once more, as a COUNTING interpreter.

`CE α = Except Err α × Cost`: a result paired with what it cost to obtain it; `bind` adds the costs and
keeps the cost spent so far when a step raises. Every reader `X.dec` of `Model/Psd.lean` (and every
primitive of `Model/Codec.lean` it uses) has a twin `X.decC` with literally the same structure; the only
differences are the counting primitives:

  ticks  one per primitive call on the stream (`fp.read` in `read_fmt` / `fp.read(n)` / `is_readable`),
         one per loop iteration (`readCountC`, `readForC`, `readWhileFuelC`),
         one per nested block entered (`with io.BytesIO(data) as f`: `enterBlock`);
  alloc  the number of bytes RETURNED by the underlying `fp.read` — for `read_fmt` that is
         `min n (remaining)` even when it then raises `IOError`; `is_readable(fp, n)` reads too —
         plus the size of every block copied into a nested `io.BytesIO`.

`Lemmas/SafeCost*.lean` prove `(X.decC d p).1 = X.dec d p` (it IS the same reader) and the linear bounds.

Core Lean only.
-/
import PsdVerif.Model.Psd

namespace PsdVerif.PsdCost
open PsdVerif PsdVerif.Codec PsdVerif.Psd

structure Cost where
  ticks : Nat
  alloc : Nat
  deriving DecidableEq, Repr

instance : Add Cost := ⟨fun a b => ⟨a.ticks + b.ticks, a.alloc + b.alloc⟩⟩

def Cost.zero : Cost := ⟨0, 0⟩

/-- ticks + bytes: the single weight the linear bound is proved for -/
def Cost.w (c : Cost) : Nat := c.ticks + c.alloc

/-- a result and what it cost -/
def CE (α : Type) : Type := Except Err α × Cost

def CE.ok {α : Type} (a : α) : CE α := (.ok a, Cost.zero)
def CE.error {α : Type} (e : Err) : CE α := (.error e, Cost.zero)

def CE.bind {α β : Type} (m : CE α) (f : α → CE β) : CE β :=
  match m.1 with
  | .ok a => ((f a).1, m.2 + (f a).2)
  | .error e => (.error e, m.2)

instance : Monad CE where
  pure := CE.ok
  bind := CE.bind

/-- the counting cursor machine -/
abbrev RC (α : Type) := B → Nat → CE (α × Nat)

/-- one step that is not a read: a loop iteration -/
def tick : CE Unit := (.ok (), ⟨1, 0⟩)

/-- `with io.BytesIO(data) as f`: one step, and the block is copied -/
def enterBlock (data : B) : CE Unit := (.ok (), ⟨1, data.length⟩)

/-- a primitive on the stream: its plain result, one tick, the bytes `fp.read` returned -/
def prim {α : Type} (r : Except Err α) (bytes : Nat) : CE α := (r, ⟨1, bytes⟩)

/-! ### primitives -/

def readNC (n : Nat) : RC B := fun d p => prim (readN n d p) (min n (d.length - p))
def readUpToC (n : Nat) : RC B := fun d p => prim (readUpTo n d p) (min n (d.length - p))
def readAllC : RC B := fun d p => prim (readAll d p) (d.length - p)
def readPyC (n : Int) : RC B := fun d p =>
  if n < 0 then readAllC d p
  else if overflows n.toNat d then CE.error .overflowError
  else readUpToC n.toNat d p

/-- `is_readable(fp, n)`: `len(fp.read(n))`, seek back -/
def isReadableC (n : Nat) (d : B) (p : Nat) : CE Bool := prim (.ok (isReadable n d p)) (min n (d.length - p))

def readUC (w : Nat) : RC Nat := fun d p => do
  let (bs, p') ← readNC w d p
  CE.ok (beVal bs, p')

def readI16C : RC Int := fun d p => do
  let (n, p') ← readUC 2 d p
  CE.ok (natToI16 n, p')

def readI32C : RC Int := fun d p => do
  let (n, p') ← readUC 4 d p
  CE.ok (natToI32 n, p')

def readPaddingC (size divisor : Nat) : RC Unit := fun d p => do
  let (_, p') ← readUpToC (padAmount size divisor) d p
  CE.ok ((), p')

def readLenBlockC (skip w pad : Nat) : RC B := fun d p => do
  let (_, p0) ← readNC skip d p
  let (n, p1) ← readUC w d p0
  if overflows n d then CE.error .overflowError
  else do
    let (x, p2) ← readUpToC n d p1
    if x.length ≠ n then CE.error .ioError
    else do
      let (_, p3) ← readPaddingC n pad d p2
      CE.ok (x, p3)

def readPascalC (pad : Nat) : RC B := fun d p => do
  let (n, p1) ← readUC 1 d p
  let (x, p2) ← readUpToC n d p1
  if x.length ≠ n then CE.error .assertionError
  else do
    let (_, p3) ← readPaddingC (p2 - p) pad d p2
    CE.ok (x, p3)

/-! ### loops -/

def readCountC {α : Type} (item : RC α) : Nat → RC (List α)
  | 0 => fun _ p => CE.ok ([], p)
  | n + 1 => fun d p => do
    tick
    let (a, p1) ← item d p
    let (as, p2) ← readCountC item n d p1
    CE.ok (a :: as, p2)

def readForC {α β : Type} (item : β → RC α) : List β → RC (List α)
  | [] => fun _ p => CE.ok ([], p)
  | x :: xs => fun d p => do
    tick
    let (a, p1) ← item x d p
    let (as, p2) ← readForC item xs d p1
    CE.ok (a :: as, p2)

def readWhileFuelC {α : Type} (cond : B → Nat → CE Bool) (item : RC (Option α)) : Nat → RC (List α)
  | 0 => fun _ _ => CE.error .other
  | fuel + 1 => fun d p => do
    tick
    let c ← cond d p
    if c then do
      let (o, p1) ← item d p
      match o with
      | none => CE.ok ([], p1)
      | some a => do
        let (as, p2) ← readWhileFuelC cond item fuel d p1
        CE.ok (a :: as, p2)
    else CE.ok ([], p)

def readWhileC {α : Type} (cond : B → Nat → CE Bool) (item : RC (Option α)) : RC (List α) := fun d p =>
  readWhileFuelC cond item (d.length - p + 1) d p

def optItemC {α : Type} (item : RC α) : RC (Option α) := fun d p => do
  let (a, p') ← item d p
  CE.ok (some a, p')

/-! ### the skeleton -/

def Header.decC : RC Header := fun d p => do
  let (sig, p) ← readNC 4 d p
  let (version, p) ← readUC 2 d p
  let (_, p) ← readNC 6 d p
  let (channels, p) ← readUC 2 d p
  let (height, p) ← readUC 4 d p
  let (width, p) ← readUC 4 d p
  let (depth, p) ← readUC 2 d p
  let (colorMode, p) ← readUC 2 d p
  let h : Header := ⟨sig, version, channels, height, width, depth, colorMode⟩
  if h.Valid then CE.ok (h, p) else CE.error .valueError

def colorModeDecC : RC B := readLenBlockC 0 4 1

def Resource.decC : RC Resource := fun d p => do
  let (sig, p) ← readNC 4 d p
  let (key, p) ← readUC 2 d p
  let (name, p) ← readPascalC 2 d p
  let (data, p) ← readLenBlockC 0 4 2 d p
  if sig ∈ G.resourceSignatures then CE.ok (⟨sig, key, name, data⟩, p) else CE.error .valueError

def resourcesDecC : RC (List Resource) := fun d p => do
  let (data, p) ← readLenBlockC 0 4 1 d p
  enterBlock data
  let (items, _) ← readWhileC (isReadableC 4) (optItemC Resource.decC) data 0
  CE.ok (odict Resource.key items, p)

def TaggedBlock.decC (version pad : Nat) : RC (Option TaggedBlock) := fun d p => do
  let (sig, p1) ← readNC 4 d p
  if sig ∈ G.blockSignatures then do
    let (key, p2) ← readNC 4 d p1
    let (data, p3) ← readLenBlockC 0 (tbLenW version key) pad d p2
    CE.ok (some ⟨sig, key, data⟩, p3)
  else CE.ok (none, p)

def taggedCondC (endPos : Option Nat) (d : B) (p : Nat) : CE Bool := do
  let r ← isReadableC 8 d p
  CE.ok (r && (match endPos with | some e => decide (p < e) | none => true))

def taggedBlocksDecC (version pad : Nat) (endPos : Option Nat) : RC (List TaggedBlock) := fun d p => do
  let (items, p) ← readWhileC (taggedCondC endPos) (TaggedBlock.decC version pad) d p
  CE.ok (odict TaggedBlock.key items, p)

def readOptC (c : Bool) (w : Nat) : RC (Option Nat) := fun d p =>
  if c then do
    let (n, p') ← readUC w d p
    CE.ok (some n, p')
  else CE.ok (none, p)

def MaskParameters.decC : RC MaskParameters := fun d p => do
  let (parameters, p) ← readUC 1 d p
  let (a, p) ← readOptC (parameters % 2 = 1) 1 d p
  let (b, p) ← readOptC (parameters / 2 % 2 = 1) 8 d p
  let (c, p) ← readOptC (parameters / 4 % 2 = 1) 1 d p
  let (e, p) ← readOptC (parameters / 8 % 2 = 1) 8 d p
  CE.ok (⟨a, b, c, e⟩, p)

def MaskReal.decC : RC MaskReal := fun d p => do
  let (flags, p) ← readUC 1 d p
  let (bg, p) ← readUC 1 d p
  let (top, p) ← readI32C d p
  let (left, p) ← readI32C d p
  let (bottom, p) ← readI32C d p
  let (right, p) ← readI32C d p
  CE.ok (⟨Flags8.ofNat flags, bg, top, left, bottom, right⟩, p)

def MaskData.bodyDecC (length : Nat) : RC MaskData := fun d p => do
  let (top, p) ← readI32C d p
  let (left, p) ← readI32C d p
  let (bottom, p) ← readI32C d p
  let (right, p) ← readI32C d p
  let (bg, p) ← readUC 1 d p
  let (fl, p) ← readUC 1 d p
  let flags := Flags8.ofNat fl
  let (real, p) ← (if length ≥ 36 then optItemC MaskReal.decC d p else CE.ok (none, p))
  let (params, p) ← (if MaskFlags.parametersApplied flags then optItemC MaskParameters.decC d p else CE.ok (none, p))
  CE.ok (⟨top, left, bottom, right, bg, flags, params, real⟩, p)

def maskDecC : RC (Option MaskData) := fun d p => do
  let (data, p) ← readLenBlockC 0 4 1 d p
  if data.length = 0 then CE.ok (none, p)
  else do
    enterBlock data
    let (m, _) ← MaskData.bodyDecC data.length data 0
    CE.ok (some m, p)

def Range4.decC : RC Range4 := fun d p => do
  let (a, p) ← readUC 2 d p
  let (b, p) ← readUC 2 d p
  let (c, p) ← readUC 2 d p
  let (e, p) ← readUC 2 d p
  CE.ok (⟨a, b, c, e⟩, p)

def BlendingRanges.decC : RC BlendingRanges := fun d p => do
  let (data, p) ← readLenBlockC 0 4 1 d p
  if data.length = 0 then CE.ok (⟨none, none⟩, p)
  else do
    enterBlock data
    let (comp, q) ← Range4.decC data 0
    let (chans, _) ← readWhileC (isReadableC 8) (optItemC Range4.decC) data q
    CE.ok (⟨some comp, some chans⟩, p)

def ChannelInfo.decC (version : Nat) : RC ChannelInfo := fun d p => do
  let (id, p) ← readI16C d p
  let (length, p) ← readUC (secW version) d p
  if id ∈ G.channelIds then CE.ok (⟨id, length⟩, p) else CE.error .valueError

def LayerRecord.extraDecC (version : Nat) :
    RC (Option MaskData × BlendingRanges × B × List TaggedBlock) := fun d p => do
  let (mask, p) ← maskDecC d p
  let (ranges, p) ← BlendingRanges.decC d p
  let (name, p) ← readPascalC 4 d p
  let (tbs, p) ← taggedBlocksDecC version 1 none d p
  CE.ok ((mask, ranges, name, tbs), p)

def LayerRecord.decC (version : Nat) : RC LayerRecord := fun d p => do
  let (top, p) ← readI32C d p
  let (left, p) ← readI32C d p
  let (bottom, p) ← readI32C d p
  let (right, p) ← readI32C d p
  let (n, p) ← readUC 2 d p
  let (cis, p) ← readCountC (ChannelInfo.decC version) n d p
  let (sig, p) ← readNC 4 d p
  let (bm, p) ← readNC 4 d p
  let (opacity, p) ← readUC 1 d p
  let (clipping, p) ← readUC 1 d p
  let (fl, p) ← readUC 1 d p
  let (data, p) ← readLenBlockC 1 4 1 d p
  enterBlock data
  let ((mask, ranges, name, tbs), _) ← LayerRecord.extraDecC version data 0
  let r : LayerRecord := ⟨top, left, bottom, right, cis, sig, bm, opacity, clipping, LayerFlags.ofNat fl,
    mask, ranges, name, tbs⟩
  if r.Valid then CE.ok (r, p) else CE.error .valueError

def ChannelData.decC (ciLength : Nat) : RC ChannelData := fun d p => do
  let (comp, p) ← readUC 2 d p
  if comp ∈ G.compressions then do
    let (data, p) ← readPyC ((ciLength : Int) - 2) d p
    CE.ok (⟨comp, data⟩, p)
  else CE.error .valueError

def channelListDecC (cis : List ChannelInfo) : RC (List ChannelData) :=
  readForC (fun ci => ChannelData.decC ci.length) cis

def channelImageDecC (records : List LayerRecord) : RC (List (List ChannelData)) :=
  readForC (fun r => channelListDecC r.channelInfo) records

def LayerInfo.bodyDecC (version : Nat) : RC LayerInfo := fun d p => do
  let (count, p) ← readI16C d p
  let (records, p) ← readCountC (LayerRecord.decC version) count.natAbs d p
  let (channels, p) ← channelImageDecC records d p
  CE.ok (⟨count, some records, some channels⟩, p)

def LayerInfo.decC (version : Nat) : RC LayerInfo := fun d p => do
  let (length, p) ← readUC (secW version) d p
  let endPos := p + length
  let (li, p) ← (if length = 0 then CE.ok (⟨0, none, none⟩, p) else do
    let (li, p) ← LayerInfo.bodyDecC version d p
    CE.ok (li.normCount0, p))
  if p ≤ endPos then (if overflows endPos d then CE.error .overflowError else CE.ok (li, endPos))
  else CE.error .assertionError

def GlobalLayerMaskInfo.decC : RC GlobalLayerMaskInfo := fun d pos => do
  let (data, p) ← readLenBlockC 0 4 1 d pos
  if data.length = 0 then CE.ok (glmDefault, p)
  else if data.length < 13 then CE.ok (glmDefault, pos)
  else do
    enterBlock data
    let (cs, q) ← readCountC (readUC 2) 5 data 0
    let (opacity, q) ← readUC 2 data q
    let (kind, _) ← readUC 1 data q
    if kind ∈ G.glmKinds then CE.ok (⟨some cs, opacity, kind⟩, p) else CE.error .valueError

def LayerAndMask.bodyDecC (version endPos : Nat) : RC LayerAndMask := fun d p => do
  let (li, p) ← LayerInfo.decC version d p
  if p + 4 ≤ endPos then do
    let (glm, p) ← GlobalLayerMaskInfo.decC d p
    let (tbs, p) ← taggedBlocksDecC version 4 (some endPos) d p
    CE.ok (⟨some li, some glm, some tbs⟩, p)
  else CE.ok (⟨some li, none, some []⟩, p)

def LayerAndMask.decC (version : Nat) : RC LayerAndMask := fun d p => do
  let (length, p) ← readUC (secW version) d p
  let endPos := p + length
  let (x, _) ← (if length = 0 then CE.ok (⟨none, none, none⟩, p) else LayerAndMask.bodyDecC version endPos d p)
  if overflows endPos d then CE.error .overflowError else CE.ok (x, endPos)

def ImageData.decC : RC ImageData := fun d p => do
  let (comp, p) ← readUC 2 d p
  if comp ∈ G.imageCompressions then do
    let (data, p) ← readAllC d p
    CE.ok (⟨comp, data⟩, p)
  else CE.error .valueError

def PSD.readC : RC PSD := fun d p => do
  let (header, p) ← Header.decC d p
  let (cmd, p) ← colorModeDecC d p
  let (res, p) ← resourcesDecC d p
  let (lm, p) ← LayerAndMask.decC header.version d p
  let (img, p) ← ImageData.decC d p
  CE.ok (⟨header, cmd, res, lm, img⟩, p)

end PsdVerif.PsdCost
