/-
Model of the string primitives of `psd_tools/utils.py` (as fixed by repo commits
53b2bbb / 5b05d7b) and of the layer-name path:

* `write_fmt("B"/"I")`, `read_fmt("B"/"I")`                → `writeU8/U32`, `readU8/U32`
* `write_padding`, `read_padding`                           → `writePadding`, `readPadding`
* `write_unicode_string`, `read_unicode_string`             → `writeUnicodeString`, `readUnicodeString`
  (count of UTF-16 code units as u32, units big endian, `utf-16-be` codec with
  `surrogatepass`: pairs are combined, unpaired surrogates pass through)
* `write_pascal_string`, `read_pascal_string`               → `writePascalString`, `readPascalString`
  over an abstract `Encoding`
* `Layer.name` setter/getter and `LayerRecord._legacy_name`  → `setName`, `getName`, `legacyName`

`Spec.utf16Enc/Dec` is UTF-16 written from the Unicode Standard (ch. 3.9, table 3-5),
strict (unpaired surrogates are ill-formed), independent of the code's formulation.

Conventions (DESIGN section 3): bytes are `List UInt8`, strings are lists of code points,
Python exceptions are `Err` values, readers are cursor machines
`data → pos → Except Err (value × newPos)`; `fp.read(n)` returns fewer bytes at the end
of the stream (`slice`).

Core Lean only (this file is linked into the driver).
-/
import PsdVerif.Model.Basic

namespace PsdVerif.Unicode
open PsdVerif

/-- Bytes in theorems. -/
abbrev BL := List UInt8
/-- A Python `str`: the list of its code points. -/
abbrev Str := List Nat

/-- What a Python `str` can hold: code points below 0x110000 (surrogates included). -/
def PyStr (s : Str) : Prop := ∀ c ∈ s, c < 0x110000

instance (s : Str) : Decidable (PyStr s) := by unfold PyStr; infer_instance

/-- Results of the models are comparable by evaluation (`decide`). -/
instance instDecEqExcept {ε α : Type} [DecidableEq ε] [DecidableEq α] : DecidableEq (Except ε α)
  | .ok a, .ok b => if h : a = b then isTrue (by rw [h]) else isFalse (fun he => h (by cases he; rfl))
  | .error a, .error b => if h : a = b then isTrue (by rw [h]) else isFalse (fun he => h (by cases he; rfl))
  | .ok _, .error _ => isFalse (fun he => by cases he)
  | .error _, .ok _ => isFalse (fun he => by cases he)

/-! ### Cursor and fixed-width integers (`read_fmt` / `write_fmt`) -/

/-- `fp.seek(pos); fp.read(n)` on a `BytesIO` over `d`: short at the end. -/
def slice (d : BL) (pos n : Nat) : BL := (d.drop pos).take n

def be16 (n : Nat) : BL := [UInt8.ofNat (n / 256), UInt8.ofNat (n % 256)]

def be32 (n : Nat) : BL :=
  [UInt8.ofNat (n / 16777216), UInt8.ofNat (n / 65536 % 256), UInt8.ofNat (n / 256 % 256), UInt8.ofNat (n % 256)]

/-- `write_fmt(fp, "B", n)`; `struct.error` outside 0..255. -/
def writeU8 (n : Nat) : Except Err BL :=
  if n < 256 then .ok [UInt8.ofNat n] else .error .structError

/-- `write_fmt(fp, "I", n)`; `struct.error` outside 0..2^32-1. -/
def writeU32 (n : Nat) : Except Err BL :=
  if n < 4294967296 then .ok (be32 n) else .error .structError

/-- `read_fmt("B", fp)`; `IOError` when the byte is not there. -/
def readU8 (d : BL) (pos : Nat) : Except Err (Nat × Nat) :=
  match slice d pos 1 with
  | [a] => .ok (a.toNat, pos + 1)
  | _ => .error .ioError

/-- `read_fmt("I", fp)`; `IOError` when fewer than 4 bytes are left. -/
def readU32 (d : BL) (pos : Nat) : Except Err (Nat × Nat) :=
  match slice d pos 4 with
  | [a, b, c, e] => .ok (((a.toNat * 256 + b.toNat) * 256 + c.toNat) * 256 + e.toNat, pos + 4)
  | _ => .error .ioError

/-! ### Padding -/

/-- Number of padding bytes after `size` bytes for alignment `pad` (`pad ≠ 0`). -/
def padLen (size pad : Nat) : Nat := if size % pad = 0 then 0 else pad - size % pad

/-- `write_padding(fp, size, pad)`; `pad = 0` is `ZeroDivisionError` (`Err.other`). -/
def writePadding (size pad : Nat) : Except Err BL :=
  if pad = 0 then .error .other else .ok (List.replicate (padLen size pad) 0)

/-- `read_padding(fp, size, pad)`: reads (does not check) the padding, short at the end. -/
def readPadding (d : BL) (pos size pad : Nat) : Except Err Nat :=
  if pad = 0 then .error .other else .ok (pos + (slice d pos (padLen size pad)).length)

/-! ### UTF-16 as the code does it (`utf-16-be` with `surrogatepass`) -/

def isHigh (u : Nat) : Prop := 0xD800 ≤ u ∧ u < 0xDC00
def isLow (u : Nat) : Prop := 0xDC00 ≤ u ∧ u < 0xE000
instance (u : Nat) : Decidable (isHigh u) := by unfold isHigh; infer_instance
instance (u : Nat) : Decidable (isLow u) := by unfold isLow; infer_instance

/-- `str.encode("utf-16-be", "surrogatepass")` as 16-bit units. -/
def encUnits : Str → List Nat
  | [] => []
  | c :: s =>
    if c < 0x10000 then c :: encUnits s
    else (0xD800 + (c - 0x10000) / 0x400) :: (0xDC00 + (c - 0x10000) % 0x400) :: encUnits s

/-- `bytes.decode("utf-16-be", "surrogatepass")` on 16-bit units: a high surrogate
followed by a low one is one character, every other unit is itself. -/
def decUnits : List Nat → Str
  | [] => []
  | [u] => [u]
  | u :: v :: r =>
    if isHigh u ∧ isLow v then (0x10000 + (u - 0xD800) * 0x400 + (v - 0xDC00)) :: decUnits r
    else u :: decUnits (v :: r)

/-- Big-endian 16-bit units of a byte string; `none` for an odd number of bytes
(`UnicodeDecodeError: truncated data`). -/
def unitsOfBytes : BL → Option (List Nat)
  | [] => some []
  | [_] => none
  | a :: b :: r =>
    match unitsOfBytes r with
    | some us => some ((a.toNat * 256 + b.toNat) :: us)
    | none => none

def bytesOfUnits (us : List Nat) : BL := us.flatMap be16

/-- No high surrogate directly followed by a low surrogate (such a `str` is not the
decoding of any UTF-16 text: the two would have been one character). -/
def NoPair : Str → Prop
  | a :: b :: r => ¬ (isHigh a ∧ isLow b) ∧ NoPair (b :: r)
  | _ => True

/-- `NoPair` is decidable (used by the non-vacuity examples and the driver). -/
def NoPair.dec : (s : Str) → Decidable (NoPair s)
  | [] => isTrue trivial
  | [_] => isTrue trivial
  | a :: b :: r =>
    match NoPair.dec (b :: r) with
    | isTrue h => if hp : isHigh a ∧ isLow b then isFalse (fun hn => hn.1 hp) else isTrue ⟨hp, h⟩
    | isFalse h => isFalse (fun hn => h hn.2)

instance (s : Str) : Decidable (NoPair s) := NoPair.dec s

/-- Writes a count of units and the units (shared by the string writer and the re-save lemma). -/
def writeUnits (us : List Nat) (pad : Nat) : Except Err BL :=
  match writeU32 us.length with
  | .error e => .error e
  | .ok cnt =>
    let body := cnt ++ bytesOfUnits us
    match writePadding body.length pad with
    | .error e => .error e
    | .ok p => .ok (body ++ p)

/-- `write_unicode_string(fp, value, padding)`: the bytes written (the returned count is
their number). A `value` that is not a `str` cannot be passed (`TypeError`). -/
def writeUnicodeString (s : Str) (pad : Nat := 1) : Except Err BL :=
  if PyStr s then writeUnits (encUnits s) pad else .error .typeError

/-- `read_unicode_string(fp, padding)` at cursor `pos`. -/
def readUnicodeString (d : BL) (pos : Nat) (pad : Nat := 1) : Except Err (Str × Nat) :=
  match readU32 d pos with
  | .error e => .error e
  | .ok (n, p1) =>
    let raw := slice d p1 (2 * n)
    match readPadding d (p1 + raw.length) (4 + 2 * n) pad with
    | .error e => .error e
    | .ok p3 =>
      match unitsOfBytes raw with
      | none => .error .unicodeError
      | some us => .ok (decUnits us, p3)

/-! ### Pascal strings over an abstract 8-bit encoding -/

/-- A Python codec: `str.encode(name)` / `bytes.decode(name)`; `none` = `UnicodeError`. -/
structure Encoding where
  encode : Str → Option BL
  decode : BL → Option Str

/-- The recorded assumption on Python's codecs. -/
def Encoding.Lawful (e : Encoding) : Prop := ∀ s b, e.encode s = some b → e.decode b = some s

/-- `write_pascal_string(fp, value, encoding, padding)`. -/
def writePascalString (e : Encoding) (s : Str) (pad : Nat := 2) : Except Err BL :=
  match e.encode s with
  | none => .error .unicodeError
  | some data =>
    match writeU8 data.length with
    | .error er => .error er
    | .ok l =>
      let body := l ++ data
      match writePadding body.length pad with
      | .error er => .error er
      | .ok p => .ok (body ++ p)

/-- `read_pascal_string(fp, encoding, padding)` at cursor `pos`. -/
def readPascalString (e : Encoding) (d : BL) (pos : Nat) (pad : Nat := 2) : Except Err (Str × Nat) :=
  match readU8 d pos with
  | .error er => .error er
  | .ok (n, p1) =>
    let raw := slice d p1 n
    if raw.length ≠ n then .error .assertionError
    else
      match readPadding d (p1 + n) (p1 + n - pos) pad with
      | .error er => .error er
      | .ok p3 =>
        match e.decode raw with
        | none => .error .unicodeError
        | some s => .ok (s, p3)

/-- A single-byte character map codec (`mac_roman`, `mac_cyrillic`, `ascii` …): byte `i`
decodes to `table[i]`, a character encodes to its first index. -/
def charmap (table : List Nat) : Encoding where
  encode s := s.mapM (fun c =>
    let i := table.idxOf c
    if i < table.length ∧ i < 256 then some (UInt8.ofNat i) else none)
  decode b := b.mapM (fun x => table[x.toNat]?)

def ascii : Encoding := charmap (List.range 128)

/-! #### UTF-8 (Python's strict `utf_8` codec: no surrogates, no overlong forms) -/

def utf8EncChar (c : Nat) : Option BL :=
  if c < 0x80 then some [UInt8.ofNat c]
  else if c < 0x800 then some [UInt8.ofNat (0xC0 + c / 64), UInt8.ofNat (0x80 + c % 64)]
  else if 0xD800 ≤ c ∧ c < 0xE000 then none
  else if c < 0x10000 then
    some [UInt8.ofNat (0xE0 + c / 4096), UInt8.ofNat (0x80 + c / 64 % 64), UInt8.ofNat (0x80 + c % 64)]
  else if c < 0x110000 then
    some [UInt8.ofNat (0xF0 + c / 262144), UInt8.ofNat (0x80 + c / 4096 % 64),
          UInt8.ofNat (0x80 + c / 64 % 64), UInt8.ofNat (0x80 + c % 64)]
  else none

def utf8Enc : Str → Option BL
  | [] => some []
  | c :: s =>
    match utf8EncChar c, utf8Enc s with
    | some a, some b => some (a ++ b)
    | _, _ => none

def isCont (b : UInt8) : Prop := 0x80 ≤ b.toNat ∧ b.toNat < 0xC0
instance (b : UInt8) : Decidable (isCont b) := by unfold isCont; infer_instance

def utf8Dec : BL → Option Str
  | [] => some []
  | a :: r =>
    if a.toNat < 0x80 then (utf8Dec r).map (a.toNat :: ·)
    else if a.toNat < 0xC2 then none
    else if a.toNat < 0xE0 then
      match r with
      | b :: r' =>
        if isCont b then (utf8Dec r').map (((a.toNat - 0xC0) * 64 + (b.toNat - 0x80)) :: ·) else none
      | _ => none
    else if a.toNat < 0xF0 then
      match r with
      | b :: c :: r' =>
        let v := ((a.toNat - 0xE0) * 64 + (b.toNat - 0x80)) * 64 + (c.toNat - 0x80)
        if isCont b ∧ isCont c ∧ 0x800 ≤ v ∧ ¬ (0xD800 ≤ v ∧ v < 0xE000) then (utf8Dec r').map (v :: ·) else none
      | _ => none
    else if a.toNat < 0xF5 then
      match r with
      | b :: c :: e :: r' =>
        let v := (((a.toNat - 0xF0) * 64 + (b.toNat - 0x80)) * 64 + (c.toNat - 0x80)) * 64 + (e.toNat - 0x80)
        if isCont b ∧ isCont c ∧ isCont e ∧ 0x10000 ≤ v ∧ v < 0x110000 then (utf8Dec r').map (v :: ·) else none
      | _ => none
    else none

def utf8 : Encoding := { encode := utf8Enc, decode := utf8Dec }

/-! ### The layer name: legacy Pascal field + unicode block -/

/-- What a layer record stores about its name: the legacy field and the
`UNICODE_LAYER_NAME` block (absent in old files). -/
structure NameRec where
  legacy : Str
  luni : Option Str
  deriving Repr, DecidableEq

/-- `Layer.name = value` (`api/layers.py`): MacRoman test, `'?'` fallback, unicode block. -/
def setName (mac : Encoding) (value : Str) (_r : NameRec) : Except Err NameRec :=
  if value.length < 256 then
    .ok { legacy := if (mac.encode value).isSome then value else [0x3F], luni := some value }
  else .error .assertionError

/-- `Group.new(name)` (and `Group.group_layers(…, name)`, which calls it): `LayerRecord(name=name)`
plus the unicode block, without any MacRoman test — the legacy field holds the name itself until
`_legacy_name` looks at it at write time. -/
def newGroupName (name : Str) : NameRec := { legacy := name, luni := some name }

/-- `PixelLayer.frompil(…, layer_name)`: `layer_record.name = layer_name`, then the `name` setter
on the new layer (which stores the unicode block whatever the name is). -/
def frompilName (mac : Encoding) (name : Str) : Except Err NameRec :=
  setName mac name { legacy := name, luni := none }

/-- `Layer.name` getter: the unicode block when present, else the legacy field. -/
def getName (r : NameRec) : Str :=
  match r.luni with
  | some n => n
  | none => r.legacy

/-- `LayerRecord._legacy_name(encoding)`: what goes into the Pascal field at write time. -/
def legacyName (e : Encoding) (r : NameRec) : Str :=
  match r.luni with
  | some _ =>
    match e.encode r.legacy with
    | some b => if b.length > 255 then [0x3F] else r.legacy
    | none => [0x3F]
  | none => r.legacy

/-- The two name fields as `LayerRecord._write_extra` emits them: the Pascal string
(padding 4) and the payload of the unicode-name tagged block (`StringElement.write`
with the inner padding 4 that `TaggedBlock.write` passes inside layer records). -/
def writeName (e : Encoding) (r : NameRec) : Except Err (BL × Option BL) :=
  match writePascalString e (legacyName e r) 4 with
  | .error er => .error er
  | .ok lb =>
    match r.luni with
    | none => .ok (lb, none)
    | some n =>
      match writeUnicodeString n 4 with
      | .error er => .error er
      | .ok ub => .ok (lb, some ub)

/-- Reading the two fields back: the Pascal string at `pos` of the record stream, the block
payload from its own `BytesIO` (`StringElement.frombytes`, reader padding 1). -/
def readName (e : Encoding) (d : BL) (pos : Nat) (block : Option BL) : Except Err (NameRec × Nat) :=
  match readPascalString e d pos 4 with
  | .error er => .error er
  | .ok (leg, p) =>
    match block with
    | none => .ok ({ legacy := leg, luni := none }, p)
    | some ub =>
      match readUnicodeString ub 0 1 with
      | .error er => .error er
      | .ok (n, _) => .ok ({ legacy := leg, luni := some n }, p)

/-! ### The string codec before repo commit 53b2bbb (kept as the record of the defect) -/

/-- `array.array("H", [ord(x) for x in value])`: one 16-bit unit per character,
`OverflowError` above U+FFFF. -/
def encUnitsOld (s : Str) : Except Err (List Nat) :=
  if s.all (· < 65536) then .ok s else .error .overflowError

/-- `"".join(unichr(num) for num in chars)`: one character per unit, pairs stay apart. -/
def decUnitsOld (us : List Nat) : Str := us

/-! ### UTF-16 from the Unicode Standard (independent specification) -/

namespace Spec

/-- Unicode scalar value (D76): any code point except the surrogates. -/
def Scalar (c : Nat) : Prop := c < 0xD800 ∨ (0xE000 ≤ c ∧ c < 0x110000)
instance (c : Nat) : Decidable (Scalar c) := by unfold Scalar; infer_instance

/-- Table 3-5 of the standard: `xxxxxxxxxxxxxxxx` ↦ itself;
`000uuuuuxxxxxxxxxxxxxxxx` ↦ `110110wwwwxxxxxx 110111xxxxxxxxxx` with `wwww = uuuuu - 1`. -/
def utf16EncChar (c : Nat) : List Nat :=
  if c < 0x10000 then [c]
  else
    let uuuuu := c / 65536
    let hi6 := c / 1024 % 64
    let lo10 := c % 1024
    [0xD800 + (uuuuu - 1) * 64 + hi6, 0xDC00 + lo10]

def utf16Enc : Str → List Nat
  | [] => []
  | c :: s => utf16EncChar c ++ utf16Enc s

/-- Strict decoder (D91/C10): unpaired surrogates and units above 0xFFFF are ill-formed. -/
def utf16Dec : List Nat → Option Str
  | [] => some []
  | u :: r =>
    if u < 0xD800 ∨ (0xE000 ≤ u ∧ u < 0x10000) then (utf16Dec r).map (u :: ·)
    else if 0xD800 ≤ u ∧ u < 0xDC00 then
      match r with
      | v :: r' =>
        if 0xDC00 ≤ v ∧ v < 0xE000 then
          let wwww := (u - 0xD800) / 64
          let hi6 := (u - 0xD800) % 64
          let lo10 := v - 0xDC00
          (utf16Dec r').map (((wwww + 1) * 65536 + hi6 * 1024 + lo10) :: ·)
        else none
      | [] => none
    else none

end Spec

end PsdVerif.Unicode
