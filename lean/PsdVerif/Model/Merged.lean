/-
C17 — the merged image written by `PSDImage.save()`.

Modelled (api/psd_image.py `save`, `_merged_planes`, `has_preview`; psd/image_data.py
`get_data` / `set_data`; the length discipline of compression/__init__.py
`compress` / `decompress`):

* the decision logic of `save()`: the dirty flag (`_updated_layers`), the supported
  modes / depths, which plane of the image-data section receives what (a colour channel
  of the composite, flattened on white or not; the composite's alpha; a plane that is
  kept), the `VERSION_INFO.has_composite` flag;
* the geometry of `ImageData.set_data` / `get_data` under the header
  (`channels` planes of `width * height * depth / 8` bytes), per compression method.

Parameters: the numeric composite (C11) — `channels(color mode)` colour planes and an
alpha plane of `width * height` samples; the quantisation of a sample to `depth / 8`
bytes; flattening on white. The codecs are the identity at this level (C04):
`payload` is what `decompress` recovers when called with the geometry `compress` was
called with.

Core Lean only.
-/
import PsdVerif.Model.Pixels

namespace PsdVerif.Merged
open PsdVerif PsdVerif.Pixels

inductive Comp where
  | raw | rle | zip | zipPred
  deriving DecidableEq, Repr, Inhabited

structure ImageData where
  comp : Comp
  /-- the bytes `decompress` recovers (see above) -/
  payload : List UInt8
  deriving DecidableEq, Repr, Inhabited

/-- bytes of one plane: `width * height * max(1, depth // 8)` -/
def planeBytes (h : Header) : Nat := h.width * h.height * max 1 (h.depth / 8)

/-- `length` in `decompress(data, compression, width, height * channels, depth)` -/
def sectionBytes (h : Header) : Nat := h.width * (h.height * h.channels) * max 1 (h.depth / 8)

/-- `ImageData.set_data(planes, header)`: the planes are joined and compressed with the
header geometry. The RLE encoder reads exactly `height * channels` rows, dropping what
is beyond; the other codecs take the bytes as they come. -/
def setData (c : Comp) (planes : List (List UInt8)) (h : Header) : ImageData :=
  let joined := planes.flatten
  { comp := c, payload := match c with
      | .rle => joined.take (sectionBytes h)
      | _ => joined }

/-- `[f.read(plane_size) for _ in range(channels)]` -/
def chunks (data : List UInt8) (size : Nat) : Nat → List (List UInt8)
  | 0 => []
  | n + 1 => data.take size :: chunks (data.drop size) size n

/-- `ImageData.get_data(header)`: decompress with the header geometry (RAW tolerates
trailing bytes; ZIP asserts the length; an RLE stream written for another row count
misplaces its row table — modelled as the `ValueError` it raises when a row does not
expand to the row size), then split into `channels` planes of `len // channels` bytes. -/
def getData (d : ImageData) (h : Header) : Except Err (List (List UInt8)) :=
  let length := sectionBytes h
  let data : Except Err (List UInt8) := match d.comp with
    | .raw => if d.payload.length ≥ length then .ok (d.payload.take length) else .error .assertionError
    | .rle => if d.payload.length = length then .ok d.payload else .error .valueError
    | _ =>
      -- `_inflate(data, length)` (repo 72f34ff) stops at the expected size: more than that is a `ValueError`
      if length < d.payload.length then .error .valueError
      else if d.payload.length = length then .ok d.payload else .error .assertionError
  match data with
  | .error e => .error e
  | .ok data =>
    if h.channels = 0 then .error .other   -- ZeroDivisionError
    else .ok (chunks data (data.length / h.channels) h.channels)

/-- What a plane of the regenerated merged image is made of. -/
inductive PlaneSrc where
  /-- colour channel `k` of the composite flattened on white -/
  | colorFlat (k : Nat)
  /-- colour channel `k` of the composite as it is -/
  | color (k : Nat)
  /-- the composite's alpha -/
  | alpha
  /-- plane `k` of the merged image that was there -/
  | old (k : Nat)
  /-- 1.0 everywhere (only when the old merged image cannot be read) -/
  | fill
  deriving DecidableEq, Repr, Inhabited

/-- `planes[i] = x` on a Python list -/
def pySet {β : Type} (l : List β) (i : Nat) (x : β) : Except Err (List β) :=
  if i < l.length then .ok (l.set i x) else .error .indexError

def setColours (flat : Bool) : Nat → List PlaneSrc → Except Err (List PlaneSrc)
  | 0, l => .ok l
  | n + 1, l =>
    match setColours flat n l with
    | .error e => .error e
    | .ok l' => pySet l' n (if flat then .colorFlat n else .color n)

/-- `PSDImage._merged_planes`: `none` when the mode / depth is not supported (the merged
image is then left as it is), otherwise the source of each of the `channels` planes. -/
def mergedRoutes (m : Meta) (oldReadable : Bool) : Except Err (Option (List PlaneSrc)) :=
  let h := m.header
  if ¬(h.depth = 8 ∨ h.depth = 16 ∨ h.depth = 32) ∨ h.cmode = .bitmap then .ok none else
  let n := h.cmode.expected
  let transparency := decide (h.channels > n) && m.hasTransparency
  let flat := !transparency || decide (h.cmode = .rgb)
  let start := (List.range h.channels).map fun k => if oldReadable then PlaneSrc.old k else .fill
  match setColours flat n start with
  | .error e => .error e
  | .ok planes =>
    if transparency then
      let index := (m.transparencyIndex % (h.channels : Int)).toNat
      match pySet planes (max index n) .alpha with
      | .error e => .error e
      | .ok planes => .ok (some planes)
    else .ok (some planes)

/-- The numeric composite of the layers (C11): colour planes and an alpha plane. -/
structure Composite (α : Type) where
  color : List (List α)
  alpha : List α

def Composite.WF {α : Type} (c : Composite α) (h : Header) : Prop :=
  c.color.length = h.cmode.expected ∧ (∀ p ∈ c.color, p.length = h.width * h.height) ∧
  c.alpha.length = h.width * h.height

/-- Sample arithmetic of `_merged_planes`. -/
structure Quant (α : Type) where
  /-- `plane()`: a sample as `depth / 8` big-endian bytes -/
  enc : Nat → α → List UInt8
  /-- `color * alpha + (1 - alpha)` -/
  flat : α → α → α
  one : α

def Quant.Lawful {α : Type} (Q : Quant α) : Prop := ∀ d x, (Q.enc d x).length = d / 8

def encPlane {α : Type} (Q : Quant α) (depth : Nat) (p : List α) : List UInt8 :=
  (p.map (Q.enc depth)).flatten

def realise {α : Type} (Q : Quant α) (depth : Nat) (c : Composite α) (old : List (List UInt8)) :
    PlaneSrc → Except Err (List UInt8)
  | .colorFlat k => match c.color[k]? with
    | some p => .ok (encPlane Q depth (List.zipWith Q.flat p c.alpha))
    | none => .error .indexError
  | .color k => match c.color[k]? with
    | some p => .ok (encPlane Q depth p)
    | none => .error .indexError
  | .alpha => .ok (encPlane Q depth c.alpha)
  | .old k => match old[k]? with
    | some p => .ok p
    | none => .error .indexError
  | .fill => .ok (encPlane Q depth (c.alpha.map fun _ => Q.one))

/-- The document as `save()` sees it. -/
structure DocState where
  info : Meta
  imageData : ImageData
  /-- `_updated_layers`: set by every structural edit of the layer tree, never reset -/
  dirty : Bool
  deriving DecidableEq, Repr

/-- `PSDImage.save()` as far as the image-data section and the preview flag go. -/
def save {α : Type} (Q : Quant α) (s : DocState) (c : Composite α) : Except Err DocState :=
  if !s.dirty then .ok s else
  let old := getData s.imageData s.info.header
  match mergedRoutes s.info (match old with | .ok _ => true | .error _ => false) with
  | .error e => .error e
  | .ok none => .ok s
  | .ok (some routes) =>
    let oldPlanes := match old with | .ok ps => ps | .error _ => []
    match traverse (realise Q s.info.header.depth c oldPlanes) routes with
    | .error e => .error e
    | .ok planes =>
      .ok { s with imageData := setData s.imageData.comp planes s.info.header,
                   info := { s.info with versionInfo := s.info.versionInfo.map fun _ => true } }

/-- The planes `save()` computes for a document whose structure was edited (`none`: mode / depth
not supported). A function of the composite handed in *at this save* and of the merged image
that is there (for the planes that are kept). -/
def regenerate {α : Type} (Q : Quant α) (s : DocState) (c : Composite α) :
    Except Err (Option (List (List UInt8))) :=
  let old := getData s.imageData s.info.header
  match mergedRoutes s.info (match old with | .ok _ => true | .error _ => false) with
  | .error e => .error e
  | .ok none => .ok none
  | .ok (some routes) =>
    match traverse (realise Q s.info.header.depth c (match old with | .ok ps => ps | .error _ => [])) routes with
    | .error e => .error e
    | .ok planes => .ok (some planes)

/-! ### what the code counts as an edit of the structure

`_updated_layers` is set by `GroupMixin._update_psd_record`, which the list-like mutators of
a group / document call (`__setitem__`, `__delitem__`, `append`, `extend`, `insert`,
`remove`, `pop`, `clear`) and, through them, `delete_layer`, `move_to_group`, `move_up`,
`move_down`, `Group.group_layers`, `Group.new(parent=…)`. Attribute edits (the clipping flag included:
`layer.clipping_layer = …` recomputes the clipping relation in memory and touches no list), the choice of a
compatibility mode (`psd.compatibility_mode = …`: a rendering configuration of the object in memory,
nothing of it is stored) and read-only operations do not touch it, and nothing resets it — in particular not `save()` (`readSave`). -/

inductive Op where
  | setitem | delitem | append | extend | insert | remove | pop | clear
  | deleteLayer | moveToGroup | moveUp | moveDown | groupLayers | newGroupInParent
  | rename | setVisible | setOpacity | setBlendMode | setOffset | setClipping | setCompatibilityMode
  | readTopil | readNumpy | readComposite | readForcedComposite | readIterate | readBbox | readSave
  deriving DecidableEq, Repr, Inhabited

def Op.structural : Op → Bool
  | .setitem | .delitem | .append | .extend | .insert | .remove | .pop | .clear
  | .deleteLayer | .moveToGroup | .moveUp | .moveDown | .groupLayers | .newGroupInParent => true
  | _ => false

def Op.name : Op → String
  | .setitem => "setitem" | .delitem => "delitem" | .append => "append" | .extend => "extend"
  | .insert => "insert" | .remove => "remove" | .pop => "pop" | .clear => "clear"
  | .deleteLayer => "deleteLayer" | .moveToGroup => "moveToGroup" | .moveUp => "moveUp"
  | .moveDown => "moveDown" | .groupLayers => "groupLayers" | .newGroupInParent => "newGroupInParent"
  | .rename => "rename" | .setVisible => "setVisible" | .setOpacity => "setOpacity"
  | .setBlendMode => "setBlendMode" | .setOffset => "setOffset" | .setClipping => "setClipping"
  | .setCompatibilityMode => "setCompatibilityMode"
  | .readTopil => "readTopil" | .readNumpy => "readNumpy" | .readComposite => "readComposite"
  | .readForcedComposite => "readForcedComposite" | .readIterate => "readIterate"
  | .readBbox => "readBbox" | .readSave => "readSave"

def Op.all : List Op :=
  [.setitem, .delitem, .append, .extend, .insert, .remove, .pop, .clear, .deleteLayer, .moveToGroup,
   .moveUp, .moveDown, .groupLayers, .newGroupInParent, .rename, .setVisible, .setOpacity,
   .setBlendMode, .setOffset, .setClipping, .setCompatibilityMode, .readTopil, .readNumpy, .readComposite, .readForcedComposite,
   .readIterate, .readBbox, .readSave]

/-- the flag after a history, starting from `d` -/
def dirtyAfter (d : Bool) (ops : List Op) : Bool := d || ops.any Op.structural

/-! ### histories with several saves

`save()` does not reset `_updated_layers`: a document whose structure was edited once
regenerates its merged image on EVERY later save, from the layers as they are then (so
attribute edits made between two saves reach the second file). A history is a list of
events; a save carries what the numeric composite returns for the layers at that moment. -/

inductive Event (α : Type) where
  | op (o : Op)
  | save (c : Composite α)

def step {α : Type} (Q : Quant α) (s : DocState) : Event α → Except Err DocState
  | .op o => .ok { s with dirty := s.dirty || o.structural }
  | .save c => save Q s c

def runEvents {α : Type} (Q : Quant α) : DocState → List (Event α) → Except Err DocState
  | s, [] => .ok s
  | s, e :: es =>
    match step Q s e with
    | .error err => .error err
    | .ok s' => runEvents Q s' es

end PsdVerif.Merged
