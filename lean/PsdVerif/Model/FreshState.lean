/-
C14 model, part 2: the INVALIDATION STRUCTURE of the public mutators as a table, and a machine that
interprets it. Core Lean only.

`Generated/FreshTable.lean` is regenerated on every run by `harness/extract_c14.py` (an abstract
interpreter over the AST of `api/*.py`, built on the machinery of `extract_c15.py`): for every public
mutator / attribute setter that can change an input of a cached box — children lists, `_parent`,
`_psd`, the visibility flag, the record rectangle, `_bbox` itself, the dirty flag — per straight-line
segment, in source order:

  mutate owner scope input   a raw mutation: WHICH input of WHICH objects (the object named `owner`, its
                             direct children, or everything below it)
  inval owner                `owner._invalidate_bbox()`; how far the climb goes is `Table.climb`, read off
                             the body of `Layer._invalidate_bbox`
  reset owner scope          `_bbox = None` on the object, its direct children, or everything below it
  dirty owner                `_updated_layers = True` on the document of `owner`
  read owner attr            a read of a box-valued property (`bbox`, `width`, …) between an invalidation
                             and the mutation it is meant to cover (such a read fills caches)
  store / other              an assignment to `_bbox` other than `None`, a cleared dirty flag, anything
                             the extractor does not understand

each with the `if` tests it sits under. The state is `TreeSt.State` (the id store of C09/C10/C14: tree,
per-node inputs, per-node cache `none` or a stored box). A mutation changes the named input of the named
objects ADVERSARIALLY (the new value is copied from an arbitrary state supplied per effect); an
invalidation clears the caches of exactly the set the table says. Nothing of `Model/TreeState.lean`
is changed; its primitives are reused.

Source: src/psd_tools/api/layers.py `Layer._invalidate_bbox`, `visible` / `left` / `top` setters,
`GroupMixin.__setitem__` … `clear`, `_update_layer_metadata`, `_update_psd_record`, `Layer.delete_layer`,
`move_to_group`, `move_up`, `move_down`, `Group.new`, `Group.group_layers`.
-/
import PsdVerif.Model.TreeState

namespace PsdVerif.FreshState
open PsdVerif PsdVerif.TreeSt

/-- which input of a cached / derived value a raw mutation changes -/
inductive Input where
  /-- `_layers.remove / pop / clear / __delitem__`: members leave, none arrives -/
  | shrink
  /-- `_layers.extend / insert / append / __setitem__ / =`: any new list -/
  | relist
  /-- `_psd = …` -/
  | psd
  /-- `_parent = <the owner>` -/
  | parent
  /-- `_record.flags.visible = …` -/
  | visible
  /-- `_record.left / top / right / bottom = …` -/
  | rect
  /-- anything else (mask data, an unrecognised store) -/
  | other
  deriving DecidableEq, Repr, Inhabited

/-- which objects an effect acts on, relative to the object its owner expression names -/
inductive Scope where
  /-- the object itself -/
  | self
  /-- `for x in owner` / `owner._layers[:]`: its direct children -/
  | children
  /-- `for x in owner.descendants()`: everything below it -/
  | descendants
  | other
  deriving DecidableEq, Repr, Inhabited

/-- how far `Layer._invalidate_bbox` climbs -/
inductive Climb where
  /-- through every `GroupMixin` parent up to and including the document -/
  | toRoot
  /-- … but it stops at the first container whose cache is already empty -/
  | stopAtEmpty
  /-- … but only while the parent is a `Group` / `Artboard` (the snapshot) -/
  | belowDoc
  /-- no climb: the object's own cache only -/
  | selfOnly
  /-- a body the extractor does not recognise: nothing is known to be cleared -/
  | other
  deriving DecidableEq, Repr, Inhabited

inductive Eff where
  | mutate (owner : String) (scope : Scope) (inp : Input) (src : String) (guards : List String)
  | inval (owner : String) (guards : List String)
  | reset (owner : String) (scope : Scope) (guards : List String)
  | dirty (owner : String) (guards : List String)
  | read (owner : String) (attr : String) (guards : List String)
  | store (owner : String) (src : String) (guards : List String)
  | other (src : String)
  deriving DecidableEq, Repr, Inhabited

/-- A public mutator: its straight-line segments (a loop body that is not a pure sweep is a segment of its own). -/
structure Row where
  name : String
  segs : List (List Eff)
  deriving DecidableEq, Repr, Inhabited

structure Table where
  climb : Climb
  rows : List Row
  deriving Repr, Inhabited

def Table.seg (t : Table) (op : String) (k : Nat) : List Eff :=
  match t.rows.find? (fun r => r.name == op) with
  | some r => r.segs.getD k []
  | none => []

/-! ### What an invalidation clears -/

/-- the climb that gives up at the first container with nothing cached (`if node._bbox is None: break`) -/
def invStopF : Nat → List Id → State → Id → State
  | 0, _, s, _ => s
  | f + 1, seen, s, x =>
    if x ∈ seen then s
    else if s.cont x && (s.cache x).isNone then s
    else
      let s1 := if s.cont x then clearCache s x else s
      if s.kind x = .doc then s1
      else
        match s.parent x with
        | none => s1
        | some p => if !s.cont p then s1 else invStopF f (x :: seen) s1 p

/-- `owner._invalidate_bbox()` as the table describes the climb -/
def invalidate (c : Climb) (s : State) (x : Id) : State :=
  match c with
  | .toRoot => invUp Cfg.current s x
  | .belowDoc => invUp { Cfg.current with climbToDoc := false } s x
  | .stopAtEmpty => invStopF (s.next + 1) [] s x
  | .selfOnly => if s.cont x then clearCache s x else s
  | .other => s

/-- `_bbox = None` over a scope. A non-container has nothing below it. -/
def resetScope (sc : Scope) (s : State) (x : Id) : State :=
  match sc with
  | .self => if s.cont x then clearCache s x else s
  | .children => if s.cont x then clearConts s (s.children x) else s
  | .descendants =>
    if s.cont x then
      match desc s x with
      | .ok ds => clearConts s ds
      | .error _ => s
    else s
  | .other => s

/-! ### What a mutation changes: the named input of the named objects, copied from `adv` -/

def applyMut (sc : Scope) (inp : Input) (adv s : State) (x : Id) : State :=
  match sc, inp with
  | .self, .shrink => setChildren s x (adv.children x)
  | .self, .relist => setChildren s x (adv.children x)
  | .descendants, .psd =>
    -- `layer._psd = <the document of the owner>` for everything below (not an input of any box; kept so that
    -- the dirty flag lands on the right document)
    match desc s x with
    | .ok ds => (match s.docOf x with | some d => setPsdAll s ds d | none => s)
    | .error _ => s
  | .children, .parent => setParentAll s (s.children x) x
  | .self, .visible => { s with visible := upd s.visible x (adv.visible x) }
  | .self, .rect => { s with box := upd s.box x (adv.box x) }
  -- anything else: every input of every object may have changed
  | _, _ => { adv with cache := s.cache }

/-- One execution of one segment. Everything the table does not fix is a parameter: which object each
owner expression names (`here`: it names one at all), how the tests come out, and, per effect, the state
the new inputs are copied from. -/
structure SegInst where
  op : String
  seg : Nat
  obj : String → Id
  here : String → Bool
  cond : String → Bool
  adv : Nat → State

def runEff (c : Climb) (si : SegInst) (s : State) (i : Nat) : Eff → State
  | .mutate o sc inp _ gs => if gs.all si.cond && si.here o then applyMut sc inp (si.adv i) s (si.obj o) else s
  | .inval o gs => if gs.all si.cond && si.here o then invalidate c s (si.obj o) else s
  | .reset o sc gs => if gs.all si.cond && si.here o then resetScope sc s (si.obj o) else s
  | .dirty o gs => if gs.all si.cond && si.here o then markDirty s (si.obj o) else s
  | .read o _ gs => if gs.all si.cond && si.here o then (obsBbox s (si.obj o)).1 else s
  | .store _ _ _ => si.adv i
  | .other _ => si.adv i

def runEffs (c : Climb) (si : SegInst) : Nat → List Eff → State → State
  | _, [], s => s
  | i, e :: es, s => runEffs c si (i + 1) es (runEff c si s i e)

def runSeg (t : Table) (s : State) (si : SegInst) : State := runEffs t.climb si 0 (t.seg si.op si.seg) s

def runSegments (t : Table) : State → List SegInst → State
  | s, [] => s
  | s, si :: h => runSegments t (runSeg t s si) h

/-! ### The syntactic condition on the table -/

def sub (gs' gs : List String) : Bool := gs'.all (· ∈ gs)

/-- A segment is COVERED when it is a sequence of blocks, each of one of these shapes (`gs` the tests of the
mutation; every invalidation of the block sits under tests that are among them, i.e. runs whenever the
mutation does):

* members leave a container `o`:        `mutate o self shrink gs`, `dirty o`, `inval o`
* a container `o` gets a new list:      `mutate o self relist gs`, `mutate o descendants psd`,
                                        `reset o descendants`, `mutate o children parent gs`, `dirty o`, `inval o`
  (what depends on the list of `o`: `o` and its ancestors; on the new parent pointers — inherited
  visibility —: everything below `o`)
* the visibility flag of `o`:           `inval o`, `reset o descendants`, `mutate o self visible gs`
  (the ancestors, `o`, and — inherited visibility — everything below `o`)
* the rectangle of a plain layer `o`:   `inval o`, [`read o …`], `mutate o self rect gs`
* an invalidation, a reset, a dirty mark or a read on its own (clearing a cache never makes it stale; a read fills
  it with the value computed from the tree as it is).

Anything else — a mutation that is not followed / preceded by its invalidations in this way, a direct store,
an unclassified statement — is not covered. -/
def covered : List Eff → Bool
  | [] => true
  | .mutate o .self .shrink _ gs :: .dirty o1 g1 :: .inval o2 g2 :: rest =>
    o1 == o && o2 == o && sub g1 gs && sub g2 gs && covered rest
  | .mutate o .self .relist _ gs :: .mutate o1 .descendants .psd _ g1 :: .reset o2 .descendants g2 ::
      .mutate o3 .children .parent _ g3 :: .dirty o4 g4 :: .inval o5 g5 :: rest =>
    o1 == o && o2 == o && o3 == o && o4 == o && o5 == o && g1 == gs && sub g2 gs && g3 == gs && sub g4 gs && sub g5 gs &&
      covered rest
  | .inval o g1 :: .reset o1 .descendants g2 :: .mutate o2 .self .visible _ gs :: rest =>
    o1 == o && o2 == o && sub g1 gs && sub g2 gs && covered rest
  | .inval o g1 :: .read o1 _ g2 :: .mutate o2 .self .rect _ gs :: rest =>
    o1 == o && o2 == o && sub g1 gs && g2 == gs && covered rest
  | .inval o g1 :: .mutate o2 .self .rect _ gs :: rest =>
    o2 == o && sub g1 gs && covered rest
  | .inval _ _ :: rest => covered rest
  | .reset _ _ _ :: rest => covered rest
  | .dirty _ _ :: rest => covered rest
  | .read _ _ _ :: rest => covered rest
  | _ => false

def rowOk (r : Row) : Bool := r.segs.all covered

/-- what `kept_fresh` needs from the source: the climb goes to the root, every segment is covered -/
def tableOk (t : Table) : Bool := t.climb == .toRoot && t.rows.all rowOk

/-! ### Executable instances used by the driver and by the witnesses -/

/-- one public call: segment `seg` of row `op`, every owner expression naming `x` unless `objs` says otherwise,
tests false exactly for the listed ones, every mutation copying from `new` -/
def callInst (op : String) (seg : Nat) (objs : List (String × Id)) (absent : List String) (falseTests : List String)
    (dflt : Id) (new : State) : SegInst :=
  { op := op, seg := seg,
    obj := fun o => match objs.find? (fun p => p.1 == o) with | some p => p.2 | none => dflt,
    here := fun o => !(absent.contains o),
    cond := fun g => !(falseTests.contains g),
    adv := fun _ => new }

/-- the segments of a row in order, once each, all tests true, every owner naming `x` -/
def callHist (t : Table) (op : String) (x : Id) (new : State) : List SegInst :=
  match t.rows.find? (fun r => r.name == op) with
  | some r => (List.range r.segs.length).map fun k => callInst op k [] [] [] x new
  | none => []

/-- the table with the invalidations (`inval`, `reset`) of one mutator taken out -/
def dropInval (t : Table) (name : String) : Table :=
  { t with rows := t.rows.map fun r =>
      if r.name == name then
        { r with segs := r.segs.map fun seg => seg.filter fun e =>
            match e with | .inval _ _ => false | .reset _ _ _ => false | _ => true }
      else r }

/-- the first input a row mutates (decides which node of the witness tree the row is tried on) -/
def Row.firstInput (r : Row) : Option Input :=
  (r.segs.flatten.findSome? fun e => match e with | .mutate _ _ inp _ _ => some inp | _ => none)

end PsdVerif.FreshState
