/-
C06 — counting twins of the hand-written readers of Model/PayloadEffects.lean (unit 3: effects_layer.py, `lrFX`).
Each `X.decC` has literally the structure of `X.dec` / `X.codec.dec`, with the counting primitives of
Model/PsdCost.lean and Model/PayloadCost.lean; `kls.frombytes(data)` is a nested run: `enterBlock data`, then the
class's twin at cursor 0 of `data`. `X.cc` bundles the codec, the twin and the constants proved in
Lemmas/PayloadCostEffects.lean.  Core Lean only.
-/
import PsdVerif.Model.PayloadCostSimple
import PsdVerif.Model.PayloadEffects

namespace PsdVerif.PayloadCost
open PsdVerif PsdVerif.Codec PsdVerif.PsdCost PsdVerif.Payload PsdVerif.Payload3

/-! ## helpers -/

def readSig8BIMC : RC Unit := fun d p => do
  let (s, p') ← readNC 4 d p
  if s = sig8BIM then CE.ok ((), p') else CE.error .assertionError

def readBlendModeC : RC B := fun d p => do
  let (b, p') ← readNC 4 d p
  if b ∈ Psd.G.blendModes then CE.ok (b, p') else CE.error .valueError

/-! ## CommonStateInfo -/

def CommonStateInfo.decC : RC CommonStateInfo := fun d p => do
  let (v, p) ← readUC 4 d p
  let (vis, p) ← readUC 1 d p
  let (_, p) ← readSkipC 2 d p
  CE.ok (⟨v, vis⟩, p)

def CommonStateInfo.cc : CC CommonStateInfo :=
  CC.hand CommonStateInfo.codec CommonStateInfo.decC "CommonStateInfo" 1 3 7 []

/-! ## ShadowInfo -/

def ShadowInfo.decC : RC ShadowInfo := fun d p => do
  let (version, p) ← readUC 4 d p
  let (blur, p) ← readUC 4 d p
  let (intensity, p) ← readUC 4 d p
  let (angle, p) ← readI32C d p
  let (distance, p) ← readUC 4 d p
  let (color, p) ← Color.decC d p
  let (_, p) ← readSig8BIMC d p
  let (bm, p) ← readBlendModeC d p
  let (enabled, p) ← readUC 1 d p
  let (uga, p) ← readUC 1 d p
  let (opacity, p) ← readUC 1 d p
  let (native, p) ← Color.decC d p
  CE.ok (⟨version, blur, intensity, angle, distance, color, bm, enabled, uga, opacity, native⟩, p)

def ShadowInfo.cc : CC ShadowInfo := CC.hand ShadowInfo.codec ShadowInfo.decC "ShadowInfo" 1 28 51 []

/-! ## `_GlowInfo` body -/

def GlowBody.decC : RC GlowBody := fun d p => do
  let (version, p) ← readUC 4 d p
  let (blur, p) ← readUC 4 d p
  let (intensity, p) ← readUC 4 d p
  let (color, p) ← Color.decC d p
  let (_, p) ← readSig8BIMC d p
  let (bm, p) ← readBlendModeC d p
  let (enabled, p) ← readUC 1 d p
  let (opacity, p) ← readUC 1 d p
  CE.ok (⟨version, blur, intensity, color, bm, enabled, opacity⟩, p)

/-! ## OuterGlowInfo -/

def OuterGlowInfo.decC : RC OuterGlowInfo := fun d p => do
  let (body, p) ← GlowBody.decC d p
  let (native, p) ← (if body.version ≥ 2 then optItemC Color.decC d p else CE.ok (none, p))
  CE.ok (⟨body, native⟩, p)

def OuterGlowInfo.cc : CC OuterGlowInfo := CC.hand OuterGlowInfo.codec OuterGlowInfo.decC "OuterGlowInfo" 1 25 32 []

/-! ## InnerGlowInfo -/

def InnerGlowInfo.decC : RC InnerGlowInfo := fun d p => do
  let (body, p) ← GlowBody.decC d p
  if body.version ≥ 2 then do
    let (invert, p) ← readUC 1 d p
    let (native, p) ← Color.decC d p
    CE.ok (⟨body, some invert, some native⟩, p)
  else CE.ok (⟨body, none, none⟩, p)

def InnerGlowInfo.cc : CC InnerGlowInfo := CC.hand InnerGlowInfo.codec InnerGlowInfo.decC "InnerGlowInfo" 1 26 32 []

/-! ## BevelInfo -/

def BevelInfo.decC : RC BevelInfo := fun d p => do
  let (version, p) ← readUC 4 d p
  let (angle, p) ← readI32C d p
  let (depth, p) ← readUC 4 d p
  let (blur, p) ← readUC 4 d p
  let (s1, p) ← readNC 4 d p
  let (hbm, p) ← readNC 4 d p
  if s1 = sig8BIM then do
    let (s2, p) ← readNC 4 d p
    let (sbm, p) ← readNC 4 d p
    if s2 = sig8BIM then do
      let (hc, p) ← Color.decC d p
      let (sc, p) ← Color.decC d p
      let (style, p) ← readUC 1 d p
      let (ho, p) ← readUC 1 d p
      let (so, p) ← readUC 1 d p
      let (en, p) ← readUC 1 d p
      let (uga, p) ← readUC 1 d p
      let (dir, p) ← readUC 1 d p
      let ((rh, rs), p) ← (if version ≥ 2 then do
          let (a, p) ← Color.decC d p
          let (b, p) ← Color.decC d p
          CE.ok ((some a, some b), p)
        else CE.ok ((none, none), p) : CE ((Option Color × Option Color) × Nat))
      let x : BevelInfo := ⟨version, angle, depth, blur, hbm, sbm, hc, sc, style, ho, so, en, uga, dir, rh, rs⟩
      if x.Valid then CE.ok (x, p) else CE.error .valueError
    else CE.error .assertionError
  else CE.error .assertionError

def BevelInfo.cc : CC BevelInfo := CC.hand BevelInfo.codec BevelInfo.decC "BevelInfo" 1 50 58 []

/-! ## SolidFillInfo -/

def SolidFillInfo.decC : RC SolidFillInfo := fun d p => do
  let (version, p) ← readUC 4 d p
  let (s, p) ← readNC 4 d p
  let (bm, p) ← readNC 4 d p
  if s = sig8BIM then do
    let (color, p) ← Color.decC d p
    let (opacity, p) ← readUC 1 d p
    let (enabled, p) ← readUC 1 d p
    let (native, p) ← Color.decC d p
    if bm ∈ Psd.G.blendModes then CE.ok (⟨version, bm, color, opacity, enabled, native⟩, p) else CE.error .valueError
  else CE.error .assertionError

def SolidFillInfo.cc : CC SolidFillInfo := CC.hand SolidFillInfo.codec SolidFillInfo.decC "SolidFillInfo" 1 23 34 []

/-! ## EffectsLayer -/

/-- `kls.frombytes(data)`: `with io.BytesIO(data) as f: kls.read(f)` -/
def Effect.decAsC (c : EffectClass) (data : B) : CE Effect :=
  match c with
  | .common => do
    enterBlock data
    let (r, _) ← CommonStateInfo.decC data 0
    CE.ok (.common r)
  | .shadow => do
    enterBlock data
    let (r, _) ← ShadowInfo.decC data 0
    CE.ok (.shadow r)
  | .outerGlow => do
    enterBlock data
    let (r, _) ← OuterGlowInfo.decC data 0
    CE.ok (.outerGlow r)
  | .innerGlow => do
    enterBlock data
    let (r, _) ← InnerGlowInfo.decC data 0
    CE.ok (.innerGlow r)
  | .bevel => do
    enterBlock data
    let (r, _) ← BevelInfo.decC data 0
    CE.ok (.bevel r)
  | .solidFill => do
    enterBlock data
    let (r, _) ← SolidFillInfo.decC data 0
    CE.ok (.solidFill r)

def EffectsLayer.itemDecC : RC (B × Effect) := fun d p => do
  let (_, p) ← readSig8BIMC d p
  let (key, p) ← readNC 4 d p
  match classOfKey key with
  | none => CE.error .valueError
  | some c => do
    let (data, p) ← readLenBlockC 0 4 1 d p
    let e ← Effect.decAsC c data
    CE.ok ((key, e), p)

def EffectsLayer.decC : RC EffectsLayer := fun d p => do
  let (version, p) ← readUC 2 d p
  let (count, p) ← readUC 2 d p
  let (items, p) ← readCountC EffectsLayer.itemDecC count d p
  CE.ok (⟨version, odict (fun (kv : B × Effect) => kv.1) items⟩, p)

def EffectsLayer.cc : CC EffectsLayer :=
  CC.hand EffectsLayer.codec EffectsLayer.decC "EffectsLayer" 61 60 4 [⟨"count", 12⟩]

end PsdVerif.PayloadCost
