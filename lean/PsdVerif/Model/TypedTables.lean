/-
C01 (typed documents) — hand copies of the regenerated tables of Generated/TypedDoc.lean: what the models of
Model/TypedEngine.lean / Model/TypedBlocks.lean were written against. Props/C01Typed.lean proves the regenerated tables
equal to these (`decide`): a change of the source that moves a key to another class, wraps the payload read in a `try`,
changes the fallback, the engine-data step of `TypeToolObjectSetting.read`, `RawData.write` or the default layouts of the
engine-data writers breaks a tie.
Core Lean only.
-/
namespace PsdVerif.Typed.Tables

/-- `tagged_blocks.TYPES`: (key, class name), sorted by key -/
def taggedRegistry : List (List UInt8 × String) := [
  ([65, 110, 110, 111], "Annotations"),
  ([67, 103, 69, 100], "DescriptorBlock"),
  ([70, 69, 76, 83], "FilterEffects"),
  ([70, 69, 105, 100], "FilterEffects"),
  ([70, 77, 115, 107], "FilterMask"),
  ([70, 88, 105, 100], "FilterEffects"),
  ([71, 100, 70, 108], "DescriptorBlock"),
  ([76, 77, 115, 107], "UserMask"),
  ([76, 114, 49, 54], "LayerInfoBlock"),
  ([76, 114, 51, 50], "LayerInfoBlock"),
  ([77, 116, 49, 54], "EmptyElement"),
  ([77, 116, 51, 50], "EmptyElement"),
  ([77, 116, 114, 110], "EmptyElement"),
  ([80, 97, 116, 50], "Patterns"),
  ([80, 97, 116, 51], "Patterns"),
  ([80, 97, 116, 116], "Patterns"),
  ([80, 108, 76, 100], "PlacedLayerData"),
  ([80, 116, 70, 108], "DescriptorBlock"),
  ([80, 120, 83, 68], "PixelSourceData2"),
  ([80, 120, 83, 99], "DescriptorBlock"),
  ([83, 111, 67, 111], "DescriptorBlock"),
  ([83, 111, 76, 69], "SmartObjectLayerData"),
  ([83, 111, 76, 100], "SmartObjectLayerData"),
  ([84, 120, 116, 50], "EngineData2"),
  ([84, 121, 83, 104], "TypeToolObjectSetting"),
  ([97, 98, 100, 100], "DescriptorBlock"),
  ([97, 110, 70, 88], "DescriptorBlock"),
  ([97, 114, 116, 98], "DescriptorBlock"),
  ([97, 114, 116, 100], "DescriptorBlock"),
  ([98, 108, 110, 99], "ColorBalance"),
  ([98, 108, 119, 104], "DescriptorBlock"),
  ([98, 114, 105, 116], "BrightnessContrast"),
  ([98, 114, 115, 116], "ChannelBlendingRestrictionsSetting"),
  ([99, 105, 110, 102], "DescriptorBlock"),
  ([99, 108, 98, 108], "ByteElement"),
  ([99, 108, 114, 76], "ColorLookup"),
  ([99, 117, 114, 118], "Curves"),
  ([101, 120, 112, 65], "Exposure"),
  ([101, 120, 116, 100], "DescriptorBlock"),
  ([101, 120, 116, 110], "DescriptorBlock"),
  ([102, 102, 120, 105], "Bytes"),
  ([102, 114, 103, 98], "DescriptorBlock"),
  ([102, 120, 114, 112], "ReferencePoint"),
  ([103, 114, 100, 109], "GradientMap"),
  ([104, 117, 101, 32], "HueSaturation"),
  ([104, 117, 101, 50], "HueSaturation"),
  ([105, 79, 112, 97], "ByteElement"),
  ([105, 110, 102, 120], "ByteElement"),
  ([107, 110, 107, 111], "ByteElement"),
  ([108, 99, 108, 114], "SheetColorSetting"),
  ([108, 101, 118, 108], "Levels"),
  ([108, 102, 120, 50], "DescriptorBlock2"),
  ([108, 102, 120, 115], "DescriptorBlock2"),
  ([108, 109, 102, 120], "DescriptorBlock2"),
  ([108, 109, 103, 109], "ByteElement"),
  ([108, 110, 107, 50], "LinkedLayers"),
  ([108, 110, 107, 51], "LinkedLayers"),
  ([108, 110, 107, 68], "LinkedLayers"),
  ([108, 110, 107, 69], "LinkedLayers"),
  ([108, 110, 115, 114], "Bytes"),
  ([108, 114, 70, 88], "EffectsLayer"),
  ([108, 115, 99, 116], "SectionDividerSetting"),
  ([108, 115, 100, 107], "SectionDividerSetting"),
  ([108, 115, 112, 102], "ProtectedSetting"),
  ([108, 117, 110, 105], "StringElement"),
  ([108, 121, 105, 100], "IntegerElement"),
  ([108, 121, 118, 114], "IntegerElement"),
  ([109, 105, 120, 114], "ChannelMixer"),
  ([110, 118, 114, 116], "EmptyElement"),
  ([112, 97, 116, 116], "EmptyElement"),
  ([112, 104, 102, 108], "PhotoFilter"),
  ([112, 108, 76, 100], "PlacedLayerData"),
  ([112, 111, 115, 116], "ShortIntegerElement"),
  ([112, 116, 104, 115], "DescriptorBlock"),
  ([115, 101, 108, 99], "SelectiveColor"),
  ([115, 104, 109, 100], "MetadataSettings"),
  ([115, 110, 50, 80], "IntegerElement"),
  ([116, 104, 114, 115], "ShortIntegerElement"),
  ([116, 115, 108, 121], "ByteElement"),
  ([118, 105, 98, 65], "DescriptorBlock"),
  ([118, 109, 103, 109], "ByteElement"),
  ([118, 109, 115, 107], "VectorMaskSetting"),
  ([118, 111, 103, 107], "DescriptorBlock2"),
  ([118, 111, 119, 118], "IntegerElement"),
  ([118, 115, 99, 103], "VectorStrokeContentSetting"),
  ([118, 115, 109, 115], "VectorMaskSetting"),
  ([118, 115, 116, 107], "DescriptorBlock")
]

/-- `TaggedBlock.read`: the dispatch and its only fallback (a key that is not registered) -/
def taggedBlockDispatch : String :=
  "kls = TYPES.get(key); if kls: { data = kls.frombytes(raw_data, version=version) } else: { data = raw_data }"

/-- the only `try` of `TaggedBlock.read` is around `Tag(key)`: the payload reader is not inside one -/
def taggedBlockExcepts : List (String × String) := [("ValueError", "key = Tag(key)")]

/-- the engine-data step of `TypeToolObjectSetting.read` (after repo commit 09c5faf: only a `bytes` value is parsed) -/
def typeToolEngine : String × String × String × String :=
  ("b'EngineData' in text_data",
   "engine_data = text_data[b'EngineData'].value; if isinstance(engine_data, bytes): { engine_data = EngineData.frombytes(engine_data); text_data[b'EngineData'].value = engine_data } else: {  }",
   "Exception", "")

/-- `b"EngineData"` -/
def engineDataKey : List UInt8 := [69, 110, 103, 105, 110, 101, 68, 97, 116, 97]

def rawDataWriter : String :=
  "if hasattr(self.value, 'write'): { return self.value.write(f) } else: {  }; return write_bytes(f, self.value)"

/-- `Dict.write` defaults to the indented layout with its container, `EngineData` inherits it, `EngineData2.write` defaults to the
compact layout without container and swallows the keywords `TaggedBlock.write` passes -/
def engineDataLayouts : List (String × String × String) :=
  [("Dict", "DictElement", "self, fp, indent=0, write_container=True"), ("EngineData", "Dict", "<inherited>"),
   ("EngineData2", "Dict", "self, fp, indent=None, write_container=False, **kwargs")]

end PsdVerif.Typed.Tables
