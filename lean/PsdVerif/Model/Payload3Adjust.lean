/-
C01 payload classes, unit 8: the adjustment-layer payloads of psd/adjustments.py (`ADJUSTMENT_TYPES`).

  BrightnessContrast `3HBx` . ColorBalance `3h` `3h` `3h` `B` + pad 4 . ColorLookup `HI` + descriptor body + pad .
  ChannelMixer `2H` `5h` rest . Curves / CurvesExtraMarker / CurvesExtraItem . GradientMap / ColorStop `2I5H2x` /
  TransparencyStop `2IH` . Exposure `H3f` + pad . HueSaturation `HBx` `3h` `3h` 6 x (`4h` `3h`) + pad 4 .
  Levels `H` 29 x LevelRecord `5H` [`4sH` `H` records] + pad 4 . PhotoFilter `H` (`3I` | `H4H`) `IB` + pad 4 .
  SelectiveColor `2H` 10 x `4h`
  (`ADJUSTMENT_TYPES.update`: DescriptorBlock for blwh / vibA / SoCo / GdFl / PtFl, ShortIntegerElement for post / thrs,
  EmptyElement for nvrt: the codecs of earlier units.)

Reader asserts are `checked ... .assertionError` at the place where the assert stands; validators run in the constructor,
after everything was read (`.valueError`).
WF tags: (i) validator / converter . (ii) on-disk width . (iii) format consistency . (F) forced by the proof.
Core Lean only.
-/
import PsdVerif.Model.Payload3Base
import PsdVerif.Model.Descriptor
import PsdVerif.Generated.Payload3

namespace PsdVerif.Payload3
open PsdVerif PsdVerif.Codec PsdVerif.Payload

namespace G3
export PsdVerif.Generated.Payload3 (channelMixerVersions curvesExtraVersions gradientMapVersions gradientMethods gradientExpansions
  gradientLengths levelsVersions photoFilterVersions selectiveColorVersions)
end G3

def s2x3 : List FI := [S 2, S 2, S 2]
def s2x4 : List FI := [S 2, S 2, S 2, S 2]
def u2x4 : List FI := [U 2, U 2, U 2, U 2]

/-! ## the flat classes -/

/-- `BrightnessContrast`: `3HBx` -/
def BrightnessContrast.codec : PCodec Row := rec [U 2, U 2, U 2, U 1, X 1]

/-- `ColorBalance`: `3h` (shadows), `3h` (midtones), `3h` (highlights), `B` (luminosity), `write_padding(fp, written, 4)` -/
def ColorBalance.codec : PCodec (Row × Row × Row × Row) :=
  padded 4 (seq (rec s2x3) (seq (rec s2x3) (seq (rec s2x3) (rec [U 1]))))

/-- `ChannelMixer`: `2H` (version, monochrome), `5h`, `fp.read()`; validator `version in (1,)` -/
def ChannelMixer.codec : PCodec (Row × Row × B) :=
  checked (seq (rec [U 2, U 2]) (seq (rec [S 2, S 2, S 2, S 2, S 2]) tailBytes))
    (fun v => (v.1.int 0).toNat ∈ G3.channelMixerVersions) .valueError

/-- `Exposure`: `H3f`, `write_padding(fp, written, padding)` -/
def Exposure.codec (pad : Nat) : PCodec Row := padded pad (rec [U 2, U 4, U 4, U 4])

def HueSaturation.itemCodec : PCodec (Row × Row) := seq (rec s2x4) (rec s2x3)

/-- `HueSaturation`: `HBx`, `assert version == 2`, `3h` (colorization), `3h` (master), six times `4h` + `3h`; the writer
writes every item it has; `write_padding(fp, written, 4)` -/
def HueSaturation.codec : PCodec (Row × Row × Row × List (Row × Row)) :=
  padded 4 (seq (checked (rec [U 2, U 1, X 1]) (fun r => r.int 0 = 2) .assertionError)
    (seq (rec s2x3) (seq (rec s2x3) (exactly 6 HueSaturation.itemCodec))))

/-- `LevelRecord`: `5H` -/
def LevelRecord.fmt : List FI := [U 2, U 2, U 2, U 2, U 2]
def LevelRecord.codec : PCodec Row := rec LevelRecord.fmt

/-- `SelectiveColor`: `2H` (version, method), ten times `4h`; validator `version in (1,)` -/
def SelectiveColor.codec : PCodec (Row × List Row) :=
  checked (seq (rec [U 2, U 2]) (exactly 10 (rec s2x4))) (fun v => (v.1.int 0).toNat ∈ G3.selectiveColorVersions) .valueError

/-- `ColorStop`: `2I5H2x` (location, midpoint, mode, colour) / `2IH` + `4H2x` -/
def ColorStop.fmt : List FI := [U 4, U 4, U 2, U 2, U 2, U 2, U 2, X 2]
def ColorStop.codec : PCodec Row := rec ColorStop.fmt

/-- `TransparencyStop`: `2IH` -/
def TransparencyStop.fmt : List FI := [U 4, U 4, U 2]
def TransparencyStop.codec : PCodec Row := rec TransparencyStop.fmt

/-! ## Levels -/

structure Levels where
  version : Nat
  extraVersion : Option Nat
  items : List Row
  deriving DecidableEq, Repr

namespace Levels

def sigLvls : B := [76, 118, 108, 115]

/-- `for index in range(29, len(self))` -/
def extraItems (x : Levels) : List Row := x.items.drop 29

/-- `if self.extra_version is not None: "4sH" b"Lvls", extra_version; "H" len(self); the records from 29 on` -/
def trailerT (x : Levels) : B :=
  match x.extraVersion with
  | some ev => sigLvls ++ (beBytes 2 ev ++ (beBytes 2 x.items.length ++ listT (fmtT LevelRecord.fmt) x.extraItems))
  | none => []

def bodyT (x : Levels) : B := beBytes 2 x.version ++ (listT (fmtT LevelRecord.fmt) (x.items.take 29) ++ trailerT x)

/-- `write`: `H`, `self[index].write(fp)` for the first 29 records (`IndexError` when there are fewer: outside the model),
the trailer, `write_padding(fp, written, 4)` -/
def encT (x : Levels) : B := bodyT x ++ zeros (padAmount (bodyT x).length 4)

def Fits (x : Levels) : Prop :=
  FitsU 2 x.version ∧ listFits (fmtFits LevelRecord.fmt) (x.items.take 29) ∧
  (match x.extraVersion with
   | some ev => FitsU 2 ev ∧ FitsU 2 x.items.length ∧ listFits (fmtFits LevelRecord.fmt) x.extraItems
   | none => True)
instance (x : Levels) : Decidable x.Fits := by
  unfold Fits; cases x.extraVersion <;> simp only <;> exact inferInstance

def encP (x : Levels) : W :=
  let written := wBytes (beBytes 2 x.version)
  let written := written +> wList (fun r => wBytes (fmtT LevelRecord.fmt r)) (x.items.take 29)
  let written := (match x.extraVersion with
    | some ev =>
      let written := written +> wBytes (sigLvls ++ beBytes 2 ev)
      let written := written +> wBytes (beBytes 2 x.items.length)
      written +> wList (fun r => wBytes (fmtT LevelRecord.fmt r)) x.extraItems
    | none => written)
  written +> wPad written.2 4

/-- `read`: version, `assert version == 2`, 29 records, `if is_readable(fp, 6)`: signature + extra version (two asserts),
the count, `count - 29` more records (`range` of a negative number is empty); the validator of `version` runs last -/
def dec : R Levels := fun d p => do
  let (version, p) ← readU 2 d p
  if version = 2 then
    let (items, p) ← readCount (fmtDec LevelRecord.fmt) 29 d p
    let (x, p) ← (if isReadable 6 d p then do
        let (sig, p) ← readN 4 d p
        let (ev, p) ← readU 2 d p
        if sig = sigLvls then
          if ev = 3 then
            let (count, p) ← readU 2 d p
            let (more, p) ← readCount (fmtDec LevelRecord.fmt) (count - 29) d p
            .ok ((⟨version, some ev, items ++ more⟩ : Levels), p)
          else .error .assertionError
        else .error .assertionError
      else .ok (⟨version, none, items⟩, p) : Except Err (Levels × Nat))
    if version ∈ G3.levelsVersions then .ok (x, p) else .error .valueError
  else .error .assertionError

def WF (x : Levels) : Prop :=
  x.version ∈ G3.levelsVersions ∧ x.version = 2            -- (i) validator; the reader's assert
  ∧ 29 ≤ x.items.length                                     -- the writer indexes the first 29 records
  ∧ (match x.extraVersion with
     | some ev => ev = 3                                    -- (iii) the reader's assert
     | none => x.items.length = 29)                         -- (iii) records beyond 29 live in the trailer
instance (x : Levels) : Decidable x.WF := by
  unfold WF; cases x.extraVersion <;> simp only <;> exact inferInstance

def codec : PCodec Levels where
  encT := encT
  Fits := Fits
  decFits := inferInstance
  encP := encP
  dec := dec
  consumed x := (bodyT x).length
  WF := WF
  decWF := inferInstance

end Levels

/-! ## PhotoFilter -/

structure PhotoFilter where
  version : Nat
  xyz : Row            -- `3I` (version 3); the empty row stands for `None`
  color : Row          -- `H4H`: colour space and four components (version 2); the empty row stands for `None`, `None`
  tail : Row           -- `IB`: density, luminosity
  deriving DecidableEq, Repr

namespace PhotoFilter

def xyzFmt : List FI := [U 4, U 4, U 4]
def colorFmt : List FI := [U 2, U 2, U 2, U 2, U 2]
def tailFmt : List FI := [U 4, U 1]

/-- `H`; `if self.version == 3: "3I" *xyz else: "H4H" color_space, *color_components`; `IB`; pad 4 -/
def bodyT (x : PhotoFilter) : B :=
  beBytes 2 x.version ++ ((if x.version = 3 then fmtT xyzFmt x.xyz else fmtT colorFmt x.color) ++ fmtT tailFmt x.tail)
def encT (x : PhotoFilter) : B := bodyT x ++ zeros (padAmount (bodyT x).length 4)

def Fits (x : PhotoFilter) : Prop :=
  FitsU 2 x.version ∧ (if x.version = 3 then fmtFits xyzFmt x.xyz else fmtFits colorFmt x.color) ∧ fmtFits tailFmt x.tail
instance (x : PhotoFilter) : Decidable x.Fits := by unfold Fits; exact inferInstance

def encP (x : PhotoFilter) : W :=
  let written := wBytes (beBytes 2 x.version)
  let written := written +> (if x.version = 3 then wBytes (fmtT xyzFmt x.xyz) else wBytes (fmtT colorFmt x.color))
  let written := written +> wBytes (fmtT tailFmt x.tail)
  written +> wPad written.2 4

def dec : R PhotoFilter := fun d p => do
  let (version, p) ← readU 2 d p
  if version ∈ G3.photoFilterVersions then                      -- assert version in (2, 3)
    let (xc, p) ← (if version = 3 then
        (match fmtDec xyzFmt d p with
         | .ok (r, p') => .ok ((r, []), p')
         | .error e => .error e)
      else
        (match fmtDec colorFmt d p with
         | .ok (r, p') => .ok (([], r), p')
         | .error e => .error e) : Except Err ((Row × Row) × Nat))
    let (tail, p) ← fmtDec tailFmt d p
    .ok (⟨version, xc.1, xc.2, tail⟩, p)
  else .error .assertionError

def WF (x : PhotoFilter) : Prop :=
  x.version ∈ G3.photoFilterVersions                              -- (i) validator, the reader's assert
  ∧ (if x.version = 3 then x.color = [] else x.xyz = [])          -- (iii) only the fields of the version are stored
instance (x : PhotoFilter) : Decidable x.WF := by unfold WF; exact inferInstance

def codec : PCodec PhotoFilter where
  encT := encT
  Fits := Fits
  decFits := inferInstance
  encP := encP
  dec := dec
  consumed x := (bodyT x).length
  WF := WF
  decWF := inferInstance

end PhotoFilter

/-! ## GradientMap -/

namespace GradientMap

def headFmt : List FI := [U 2, U 1, U 1]
def gcls : B := [71, 99, 108, 115]

/-- `H2B` (version, is_reversed, is_dithered), `assert version in (1, 3)`, `"4s"` method when `version == 3` (the
attribute default `b"Gcls"` otherwise) -/
def head : PCodec (Row × B) where
  encT v := fmtT headFmt v.1 ++ (if v.1.int 0 = 3 then packS 4 v.2 else [])
  Fits v := fmtFits headFmt v.1
  decFits _ := inferInstance
  encP v :=
    let written := wBytes (fmtT headFmt v.1)
    if v.1.int 0 = 3 then written +> wBytes (packS 4 v.2) else written
  dec := fun d p => do
    let (h, p) ← fmtDec headFmt d p
    if (h.int 0).toNat ∈ G3.gradientMapVersions then
      if h.int 0 = 3 then
        let (m, p) ← readN 4 d p
        .ok ((h, m), p)
      else .ok ((h, gcls), p)
    else .error .assertionError
  consumed v := (fmtT headFmt v.1).length + (if v.1.int 0 = 3 then 4 else 0)
  WF v :=
    (v.1.int 0).toNat ∈ G3.gradientMapVersions                  -- (i) validator, the reader's assert
    ∧ (if v.1.int 0 = 3 then v.2.length = 4 else v.2 = gcls)    -- (ii) `4s`; (iii) the method is stored in version 3 only
  decWF _ := inferInstance

/-- `4H` expansion, interpolation, length, mode; `assert expansion == 2` -/
def expansion : PCodec Row := checked (rec u2x4) (fun r => r.int 0 = 2) .assertionError

abbrev Val := (Row × B) × Payload.Str × List Row × List Row × Row × Row × Row × Row × Row × Row

/-- everything: head, name, colour stops (`H` count), transparency stops (`H` count), `4H`, `I2H`, `IH`, `4H`, `4H`, `2x`;
the validators of `method`, `expansion`, `length` run in the constructor; `write_padding(fp, written, 4)` -/
def codec : PCodec Val :=
  padded 4 (checked
    (seq head (seq ustr (seq (counted 2 ColorStop.codec) (seq (counted 2 TransparencyStop.codec)
      (seq expansion (seq (rec [U 4, U 2, U 2]) (seq (rec [U 4, U 2]) (seq (rec u2x4) (seq (rec u2x4) (rec [X 2]))))))))))
    (fun v => v.1.2 ∈ G3.gradientMethods ∧ (v.2.2.2.2.1.int 0).toNat ∈ G3.gradientExpansions ∧
      (v.2.2.2.2.1.int 2).toNat ∈ G3.gradientLengths) .valueError)

end GradientMap

/-! ## ColorLookup (a `DescriptorBlock2` whose header is `HI`) -/

namespace ColorLookup
open Descriptor
variable (tb : Descriptor.Tables)

def bodyT (b : Block2) : B :=
  beBytes 2 b.version.toNat ++ (beBytes 4 b.dataVersion.toNat ++ Descriptor.bodyT tb b.name b.classID b.items)
def encT (pad : Nat) (b : Block2) : B := bodyT tb b ++ zeros (padAmount (bodyT tb b).length pad)

def Fits (b : Block2) : Prop :=
  (0 ≤ b.version ∧ b.version.toNat < 256 ^ 2) ∧ FitsU32 b.dataVersion ∧ StrFits b.name ∧ KeyFits tb b.classID ∧
  b.items.length < 4294967296 ∧ FitsItems tb b.items
instance (b : Block2) : Decidable (Fits tb b) := by unfold Fits; exact inferInstance

def encP (pad : Nat) (b : Block2) : W :=
  let w := wBytes (beBytes 2 b.version.toNat ++ beBytes 4 b.dataVersion.toNat) +> bodyW tb b.name b.classID b.items
  w +> wPad w.2 pad

/-- `version, data_version = read_fmt("HI", fp)`; `cls(version=..., data_version=..., **cls._read_body(fp))` -/
def dec : R Block2 := fun d p =>
  ((readU 2) >>- fun ver => (readU 4) >>- fun dv => (readBody tb (decBody tb (d.length + 1))) >>- fun x =>
    if dv = 16 then rpure ⟨(ver : Int), (dv : Int), x.1, x.2.1, x.2.2⟩ else rfail .valueError) d p

def codec (pad : Nat) : PCodec Block2 where
  encT := encT tb pad
  Fits := Fits tb
  decFits := inferInstance
  encP := encP tb pad
  dec := dec tb
  consumed b := (bodyT tb b).length
  WF b := b.WF tb
  decWF _ := inferInstance

end ColorLookup

/-! ## Curves -/

/-- the points of a `CurvesExtraItem`: a 256-entry map or (input, output) pairs -/
inductive CurvePoints where
  | map (r : Row)
  | pairs (ps : List Row)
  deriving DecidableEq, Repr

structure CurvesExtraItem where
  channelId : Row             -- `H`
  points : CurvePoints
  deriving DecidableEq, Repr

structure CurvesExtraMarker where
  version : Nat
  items : List CurvesExtraItem
  deriving DecidableEq, Repr

inductive CurveData where
  | maps (ms : List Row)              -- `256B` each
  | curves (cs : List (List Row))     -- `H` count, `2H` per point
  deriving DecidableEq, Repr

structure Curves where
  isMap : Bool
  version : Nat
  countMap : Nat
  data : CurveData
  extra : Option CurvesExtraMarker
  deriving DecidableEq, Repr

def mapFmt : List FI := List.replicate 256 (U 1)
def pairFmt : List FI := [U 2, U 2]

namespace CurvesExtraItem

/-- `"H"` channel id; `if len(points) > 0 and isinstance(points[0], int): "256B" else: "H" len, "2H" per point` -/
def encT (x : CurvesExtraItem) : B :=
  fmtT [U 2] x.channelId ++
  (match x.points with
   | .map r => fmtT mapFmt r
   | .pairs ps => beBytes 2 ps.length ++ listT (fmtT pairFmt) ps)

def Fits (x : CurvesExtraItem) : Prop :=
  fmtFits [U 2] x.channelId ∧
  (match x.points with
   | .map r => fmtFits mapFmt r
   | .pairs ps => FitsU 2 ps.length ∧ listFits (fmtFits pairFmt) ps)
instance (x : CurvesExtraItem) : Decidable x.Fits := by
  unfold Fits; cases x.points <;> simp only <;> exact inferInstance

def encP (x : CurvesExtraItem) : W :=
  let written := wBytes (fmtT [U 2] x.channelId)
  match x.points with
  | .map r => written +> wBytes (fmtT mapFmt r)
  | .pairs ps => written +> wBytes (beBytes 2 ps.length) +> wList (fun p => wBytes (fmtT pairFmt p)) ps

end CurvesExtraItem

/-- readers that report where the cursor is when they fail: `read_fmt` restores it before raising `IOError`, and
`Curves.read` goes on from there (`except IOError`) -/
abbrev RE (α : Type) := B → Nat → Except (Err × Nat) (α × Nat)

def fmtDecE (fs : List FI) : RE Row := fun d p =>
  match fmtDec fs d p with
  | .ok r => .ok r
  | .error e => .error (e, p)

def readCountE {α : Type} (item : RE α) : Nat → RE (List α)
  | 0 => fun _ p => .ok ([], p)
  | n + 1 => fun d p =>
    match item d p with
    | .error e => .error e
    | .ok (a, p1) =>
      match readCountE item n d p1 with
      | .error e => .error e
      | .ok (as, p2) => .ok (a :: as, p2)

namespace CurvesExtraItem

/-- `if is_map: "H", "256B" else: "2H" (channel id, count), "2H" per point` -/
def decE (isMap : Bool) : RE CurvesExtraItem := fun d p =>
  if isMap then
    match fmtDecE [U 2] d p with
    | .error e => .error e
    | .ok (c, p) =>
      match fmtDecE mapFmt d p with
      | .error e => .error e
      | .ok (r, p) => .ok (⟨c, .map r⟩, p)
  else
    match fmtDecE [U 2, U 2] d p with
    | .error e => .error e
    | .ok (h, p) =>
      match readCountE (fmtDecE pairFmt) (h.int 1).toNat d p with
      | .error e => .error e
      | .ok (ps, p) => .ok (⟨h.take 1, .pairs ps⟩, p)

end CurvesExtraItem

namespace CurvesExtraMarker

def sigCrv : B := [67, 114, 118, 32]

/-- `"4sHI" b"Crv ", version, len(self)`, then the items -/
def encT (x : CurvesExtraMarker) : B :=
  sigCrv ++ (beBytes 2 x.version ++ (beBytes 4 x.items.length ++ listT CurvesExtraItem.encT x.items))

def Fits (x : CurvesExtraMarker) : Prop :=
  FitsU 2 x.version ∧ FitsU 4 x.items.length ∧ listFits CurvesExtraItem.Fits x.items
instance (x : CurvesExtraMarker) : Decidable x.Fits := by unfold Fits; exact inferInstance

def encP (x : CurvesExtraMarker) : W :=
  wBytes (sigCrv ++ (beBytes 2 x.version ++ beBytes 4 x.items.length)) +> wList CurvesExtraItem.encP x.items

def hdrFmt : List FI := [SN 4, U 2, U 4]

/-- `signature, version, count = read_fmt("4sHI")`, `assert signature == b"Crv "`, the items, the validator of `version` -/
def decE (isMap : Bool) : RE CurvesExtraMarker := fun d p =>
  match fmtDecE hdrFmt d p with
  | .error e => .error e
  | .ok (h, p) =>
    if h.take 1 = [.bytes sigCrv] then
      match readCountE (CurvesExtraItem.decE isMap) (h.int 2).toNat d p with
      | .error e => .error e
      | .ok (items, p) =>
        if (h.int 1).toNat ∈ G3.curvesExtraVersions then .ok (⟨(h.int 1).toNat, items⟩, p) else .error (.valueError, p)
    else .error (.assertionError, p)

end CurvesExtraMarker

namespace Curves

def popcount : Nat → Nat → Nat
  | 0, _ => 0
  | fuel + 1, n => if n = 0 then 0 else n % 2 + popcount fuel (n / 2)

/-- `bin(count_map).count("1")` for version 1, `count_map` itself otherwise -/
def countOf (version countMap : Nat) : Nat := if version = 1 then popcount 32 countMap else countMap

def curveT (c : List Row) : B := beBytes 2 c.length ++ listT (fmtT pairFmt) c

def dataT : CurveData → B
  | .maps ms => listT (fmtT mapFmt) ms
  | .curves cs => listT curveT cs

def dataLen : CurveData → Nat
  | .maps ms => ms.length
  | .curves cs => cs.length

/-- the writer's branch is `if self.is_map`: a value of the other shape is a `struct.error` there (wrong arguments) -/
def dataFits (isMap : Bool) : CurveData → Prop
  | .maps ms => isMap = true ∧ listFits (fmtFits mapFmt) ms
  | .curves cs => isMap = false ∧ listFits (fun (c : List Row) => FitsU 2 c.length ∧ listFits (fmtFits pairFmt) c) cs
instance (isMap : Bool) (x : CurveData) : Decidable (dataFits isMap x) := by
  cases x <;> simp only [dataFits] <;> exact inferInstance

def bodyT (x : Curves) : B :=
  boolT x.isMap ++ (beBytes 2 x.version ++ (beBytes 4 x.countMap ++ (dataT x.data ++ optT CurvesExtraMarker.encT x.extra)))

/-- `BHI`, the maps or the curves, the extra marker when there is one, `write_padding(fp, written, 4)` -/
def encT (x : Curves) : B := bodyT x ++ zeros (padAmount (bodyT x).length 4)

def Fits (x : Curves) : Prop :=
  FitsU 2 x.version ∧ FitsU 4 x.countMap ∧ dataFits x.isMap x.data ∧ optFits CurvesExtraMarker.Fits x.extra
instance (x : Curves) : Decidable x.Fits := by unfold Fits; exact inferInstance

def curveP (c : List Row) : W := wBytes (beBytes 2 c.length) +> wList (fun p => wBytes (fmtT pairFmt p)) c

def encP (x : Curves) : W :=
  let written := wBytes (boolT x.isMap ++ (beBytes 2 x.version ++ beBytes 4 x.countMap))
  let written := written +> (match x.data with
    | .maps ms => wList (fun r => wBytes (fmtT mapFmt r)) ms
    | .curves cs => wList curveP cs)
  let written := written +> optP CurvesExtraMarker.encP x.extra
  written +> wPad written.2 4

/-- one curve: `point_count = read_fmt("H")`, `assert 2 <= point_count <= 19`, the points -/
def curveDec : R (List Row) := fun d p => do
  let (n, p) ← readU 2 d p
  if 2 ≤ n ∧ n ≤ 19 then readCount (fmtDec pairFmt) n d p else .error .assertionError

/-- `if is_map: [list(read_fmt("256B")) for _ in range(count)] else: count curves` -/
def dataDec (isMap : Bool) (count : Nat) : R CurveData := fun d p =>
  if isMap then
    match readCount (fmtDec mapFmt) count d p with
    | .ok (ms, p') => .ok (CurveData.maps ms, p')
    | .error e => .error e
  else
    match readCount curveDec count d p with
    | .ok (cs, p') => .ok (CurveData.curves cs, p')
    | .error e => .error e

/-- `extra = None; if version == 1: try: extra = CurvesExtraMarker.read(fp, is_map=is_map) except IOError: pass` -/
def extraDec (isMap : Bool) (version : Nat) : R (Option CurvesExtraMarker) := fun d p =>
  if version = 1 then
    match CurvesExtraMarker.decE isMap d p with
    | .ok (m, p') => .ok (some m, p')
    | .error (.ioError, q) => .ok (none, q)
    | .error (e, _) => .error e
  else .ok (none, p)

/-- `read`: `BHI`, `assert version in (1, 4)`, the data, for version 1 the extra marker unless its read runs out of data -/
def dec : R Curves := fun d p => do
  let (isMapByte, p) ← readU 1 d p
  let (version, p) ← readU 2 d p
  let (countMap, p) ← readU 4 d p
  if version = 1 ∨ version = 4 then
    let isMap := isMapByte != 0
    let (data, p) ← dataDec isMap (countOf version countMap) d p
    let (extra, p) ← extraDec isMap version d p
    .ok (⟨isMap, version, countMap, data, extra⟩, p)
  else .error .assertionError

def itemWF (isMap : Bool) (i : CurvesExtraItem) : Prop :=
  match i.points with
  | .map _ => isMap = true                         -- (iii) the marker's items have the shape of the data
  | .pairs _ => isMap = false
instance (isMap : Bool) (i : CurvesExtraItem) : Decidable (itemWF isMap i) := by
  unfold itemWF; cases i.points <;> simp only <;> exact inferInstance

def WF (x : Curves) : Prop :=
  (x.version = 1 ∨ x.version = 4)                                        -- the reader's assert
  ∧ dataLen x.data = countOf x.version x.countMap                         -- (iii) the count field says how many follow
  ∧ (match x.data with
     | .maps _ => True
     | .curves cs => ∀ c ∈ cs, 2 ≤ c.length ∧ c.length ≤ 19)            -- the reader's assert
  ∧ (match x.extra with
     | some m => x.version = 1 ∧ m.version ∈ G3.curvesExtraVersions ∧ (∀ i ∈ m.items, itemWF x.isMap i)
     | none => True)                                                      -- (iii) the marker exists in version 1 only; (i) its validator
instance (x : Curves) : Decidable x.WF := by
  unfold WF
  cases x.data <;> cases x.extra <;> simp only <;> exact inferInstance

def codec : PCodec Curves where
  encT := encT
  Fits := Fits
  decFits := inferInstance
  encP := encP
  dec := dec
  consumed x := (bodyT x).length
  WF := WF
  decWF := inferInstance

end Curves

end PsdVerif.Payload3
