/-
C01 payload classes, unit 7 (continued): the *typed* image resource - `ImageResource.read` with the payload dispatch
`TYPES[key].frombytes(raw_data)`, `ImageResource.write` with `self.data.write(f, padding=1)` - the resource section made of
typed resources, and the document whose resources are typed (on top of the "deep" document of Model/PayloadLayerInfo.lean,
whose document-level tagged blocks are typed).

The class of a payload is decided by the resource id alone, through the regenerated registry (`keyClass`); a payload of
another class under that id, or a typed payload under an id that is not registered, is excluded by `WF` (iii).
Core Lean only.
-/
import PsdVerif.Model.Payload3Resources
import PsdVerif.Model.PayloadLayerInfo

namespace PsdVerif.Payload3
open PsdVerif PsdVerif.Codec PsdVerif.Psd PsdVerif.Payload

/-- the classes of `image_resources.TYPES` -/
inductive RClass where
  | resolutionInfo | alphaNamesPascal | pascalString | color | printFlags | halftoneScreens | transferFunctions | shortInteger
  | layerGroupInfo | gridGuidesInfo | thumbnailV4 | byte | thumbnail | integer | alphaNamesUnicode | slices | stringElement
  | alphaIdentifiers | urlList | versionInfo | printScale | pixelAspectRatio | descriptorBlock | layerSelectionIDs
  | layerGroupEnabledIDs | displayInfo | printFlagsInfo
  deriving DecidableEq, Repr

def RClass.all : List RClass :=
  [.resolutionInfo, .alphaNamesPascal, .pascalString, .color, .printFlags, .halftoneScreens, .transferFunctions, .shortInteger,
   .layerGroupInfo, .gridGuidesInfo, .thumbnailV4, .byte, .thumbnail, .integer, .alphaNamesUnicode, .slices, .stringElement,
   .alphaIdentifiers, .urlList, .versionInfo, .printScale, .pixelAspectRatio, .descriptorBlock, .layerSelectionIDs,
   .layerGroupEnabledIDs, .displayInfo, .printFlagsInfo]

/-- the name the class is registered under -/
def RClass.name : RClass → String
  | .resolutionInfo => "ResoulutionInfo" | .alphaNamesPascal => "AlphaNamesPascal" | .pascalString => "PascalString"
  | .color => "Color" | .printFlags => "PrintFlags" | .halftoneScreens => "HalftoneScreens"
  | .transferFunctions => "TransferFunctions" | .shortInteger => "ShortInteger" | .layerGroupInfo => "LayerGroupInfo"
  | .gridGuidesInfo => "GridGuidesInfo" | .thumbnailV4 => "ThumbnailResourceV4" | .byte => "Byte" | .thumbnail => "ThumbnailResource"
  | .integer => "Integer" | .alphaNamesUnicode => "AlphaNamesUnicode" | .slices => "Slices" | .stringElement => "StringElement"
  | .alphaIdentifiers => "AlphaIdentifiers" | .urlList => "URLList" | .versionInfo => "VersionInfo" | .printScale => "PrintScale"
  | .pixelAspectRatio => "PixelAspectRatio" | .descriptorBlock => "DescriptorBlock" | .layerSelectionIDs => "LayerSelectionIDs"
  | .layerGroupEnabledIDs => "LayerGroupEnabledIDs" | .displayInfo => "DisplayInfo" | .printFlagsInfo => "PrintFlagsInfo"

def RClass.ofName (s : String) : Option RClass := RClass.all.find? (fun c => c.name == s)

/-- `key in TYPES` / `TYPES[key]`: the registry is the regenerated table -/
def keyClass (key : Nat) : Option RClass := (Generated.Payload3.unit7Registry.lookup key).bind RClass.ofName

def RClass.Val : RClass → Type
  | .resolutionInfo => Row | .alphaNamesPascal => List B | .pascalString => B | .color => Payload.Color | .printFlags => PrintFlags
  | .halftoneScreens => List Row | .transferFunctions => List (Row × Row) | .shortInteger => Row | .layerGroupInfo => List Row
  | .gridGuidesInfo => Row × List Row | .thumbnailV4 => Thumbnail | .byte => Row | .thumbnail => Thumbnail | .integer => Row
  | .alphaNamesUnicode => List Payload.Str | .slices => Slices | .stringElement => Payload.Str | .alphaIdentifiers => List Row
  | .urlList => List (Row × Payload.Str) | .versionInfo => Row × Payload.Str × Payload.Str × Row | .printScale => Row
  | .pixelAspectRatio => Row | .descriptorBlock => Descriptor.Block | .layerSelectionIDs => List Row
  | .layerGroupEnabledIDs => List Row | .displayInfo => Row × List Row | .printFlagsInfo => Row

/-- the codec of the class as an image-resource payload (written with `padding=1`, read with the defaults) -/
def RClass.codec (tb : Descriptor.Tables) : (c : RClass) → PCodec c.Val
  | .resolutionInfo => ResolutionInfo.codec | .alphaNamesPascal => AlphaNamesPascal.codec | .pascalString => PascalString.codec
  | .color => Payload.Color.codec | .printFlags => PrintFlags.codec | .halftoneScreens => HalftoneScreens.codec
  | .transferFunctions => TransferFunctions.codec | .shortInteger => ShortInteger.codec | .layerGroupInfo => LayerGroupInfo.codec
  | .gridGuidesInfo => GridGuidesInfo.codec | .thumbnailV4 => Thumbnail.codec | .byte => Byte.codec | .thumbnail => Thumbnail.codec
  | .integer => Integer.codec | .alphaNamesUnicode => AlphaNamesUnicode.codec | .slices => Slices.codec tb
  | .stringElement => StringElement.codec 1 1 | .alphaIdentifiers => AlphaIdentifiers.codec | .urlList => URLList.codec
  | .versionInfo => VersionInfo.codec | .printScale => PrintScale.codec | .pixelAspectRatio => PixelAspectRatio.codec
  | .descriptorBlock => DescriptorResource.codec tb | .layerSelectionIDs => LayerSelectionIDs.codec
  | .layerGroupEnabledIDs => LayerGroupEnabledIDs.codec | .displayInfo => DisplayInfo.codec | .printFlagsInfo => PrintFlagsInfo.codec

/-- the `data` attribute of an `ImageResource`: bytes, or an object of a registered class -/
inductive ResData where
  | raw (b : B)
  | typed (c : RClass) (v : c.Val)

structure TRes where
  signature : B
  key : Nat
  name : B
  data : ResData

namespace ResData
variable (tb : Descriptor.Tables)

/-- what the `writer` closure of `ImageResource.write` emits -/
def encT : ResData → B
  | .raw b => b
  | .typed c v => (c.codec tb).encT v

def encP : ResData → W
  | .raw b => wBytes b
  | .typed c v => (c.codec tb).encP v

def Fits : ResData → Prop
  | .raw _ => True
  | .typed c v => (c.codec tb).Fits v
instance (x : ResData) : Decidable (Fits tb x) := by
  cases x with
  | raw _ => exact inferInstanceAs (Decidable True)
  | typed c v => exact (c.codec tb).decFits v

end ResData

namespace TRes
variable (tb : Descriptor.Tables)

/-- the skeleton's view: the payload as the bytes it writes -/
def flat (r : TRes) : Resource := ⟨r.signature, r.key, r.name, r.data.encT tb⟩

def encT (r : TRes) : B := (r.flat tb).encT

def encP (r : TRes) : W :=
  let written := wBytes (pack4s r.signature ++ beBytes 2 r.key)
  let written := written +> wPascal 2 r.name
  written +> wLenBlock 0 4 2 (r.data.encP tb)

def Fits (r : TRes) : Prop := r.data.Fits tb ∧ (r.flat tb).Fits
instance (r : TRes) : Decidable (Fits tb r) := by unfold Fits; exact inferInstance

def enc (r : TRes) : Except Err B := if r.Fits tb then .ok (r.encT tb) else .error .structError

/-- `if key in TYPES: data = TYPES[key].frombytes(raw_data) else: data = raw_data` -/
def typedData (key : Nat) (data : B) : Except Err ResData :=
  match keyClass key with
  | some c =>
    (match (c.codec tb).dec data 0 with
     | .ok (v, _) => .ok (.typed c v)
     | .error e => .error e)
  | none => .ok (.raw data)

/-- `ImageResource.read`: the validator of `signature` runs in the constructor, after the payload was parsed -/
def dec : R TRes := fun d p => do
  let (sig, p) ← readN 4 d p
  let (key, p) ← readU 2 d p
  let (name, p) ← readPascal 2 d p
  let (data, p) ← readLenBlock 0 4 2 d p
  let pl ← typedData tb key data
  if sig ∈ G.resourceSignatures then .ok (⟨sig, key, name, pl⟩, p) else .error .valueError

def WF (r : TRes) : Prop :=
  (r.flat tb).WF                                              -- (i) signature, (ii) widths
  ∧ r.data.Fits tb
  ∧ (match r.data with                                        -- (iii) the resource id decides the class of the payload
     | .raw _ => keyClass r.key = none
     | .typed c v => keyClass r.key = some c ∧ (c.codec tb).WF v)
instance (r : TRes) : Decidable (WF tb r) := by
  unfold WF
  cases r.data with
  | raw _ => simp only; exact inferInstance
  | typed c v =>
    simp only
    have := (c.codec tb).decWF v
    exact inferInstance

end TRes

/-! ## the resource section -/

def tresourcesT (tb : Descriptor.Tables) (rs : List TRes) : B := resourcesT (rs.map (TRes.flat tb))

/-- `ImageResources.read` with the typed item reader -/
def tresourcesDec (tb : Descriptor.Tables) : R (List TRes) := fun d p => do
  let (data, p) ← readLenBlock 0 4 1 d p
  let (items, _) ← readWhile (isReadable 4) (optItem (TRes.dec tb)) data 0
  .ok (odict TRes.key items, p)

/-! ## the document with typed resources (and typed document-level tagged blocks) -/

structure ResPSD where
  header : Header
  colorModeData : B
  resources : List TRes
  layerAndMask : DeepLam
  imageData : ImageData

namespace ResPSD
variable (tb : Descriptor.Tables)

def flat (x : ResPSD) : DeepPSD := ⟨x.header, x.colorModeData, x.resources.map (TRes.flat tb), x.layerAndMask, x.imageData⟩

def encT (pad : Nat) (x : ResPSD) : B := (x.flat tb).encT pad

def payloadFits (x : ResPSD) : Prop := ∀ r ∈ x.resources, r.data.Fits tb
instance (x : ResPSD) : Decidable (payloadFits tb x) := by unfold payloadFits; exact inferInstance

/-- `PSD.write`: a resource payload that does not fit raises `struct.error` while the resource section is written -/
def enc (pad : Nat) (x : ResPSD) : Except Err B :=
  if payloadFits tb x then DeepPSD.enc pad (x.flat tb) else .error .structError

def refresh (x : ResPSD) : ResPSD := { x with layerAndMask := x.layerAndMask.refresh }

/-- `PSD.read` -/
def read : R ResPSD := fun d p => do
  let (header, p) ← Header.dec d p
  let (cmd, p) ← colorModeDec d p
  let (res, p) ← tresourcesDec tb d p
  let (lm, p) ← DeepLam.dec header.version d p
  let (img, p) ← ImageData.dec d p
  .ok (⟨header, cmd, res, lm, img⟩, p)

def WF (pad : Nat) (x : ResPSD) : Prop := (x.flat tb).WF pad ∧ ∀ r ∈ x.resources, r.WF tb
instance (pad : Nat) (x : ResPSD) : Decidable (WF tb pad x) := by unfold WF; exact inferInstance

end ResPSD

end PsdVerif.Payload3
