/-
`LayerRecord._legacy_name` (psd/layer_and_mask.py), the rule `_write_extra` applies to the Pascal name field:

    if Tag.UNICODE_LAYER_NAME in self.tagged_blocks:
        try:
            if len(self.name.encode(encoding)) > 255: return "?"
        except UnicodeEncodeError: return "?"
    return self.name

At the byte level of `Model/Psd.lean` (`LayerRecord.name` is the ENCODED name; text encodings are C19's). `LayerRecord.encT`
writes `r.name` itself: that is this function only where it is the identity (`Props/C02.lean legacy_name_identity_on_read`:
every name the reader returns). Core Lean only.
-/
import PsdVerif.Model.Codec

namespace PsdVerif.Psd
open PsdVerif PsdVerif.Codec

/-- does `_legacy_name` return the name itself for an encoded name of `n` bytes? -/
def legacyKeeps (hasLuni : Bool) (n : Nat) : Bool := !(hasLuni && decide (n > 255))

/-- `LayerRecord._legacy_name` on an encodable name: the name, or `?` -/
def legacyName (hasLuni : Bool) (name : B) : B := if legacyKeeps hasLuni name.length then name else [0x3F]

end PsdVerif.Psd
