/-
C06 — counting twins of the hand-written readers of Model/PayloadPatterns.lean (unit 4: patterns.py, `Patt` / `Pat2` /
`Pat3`). Each `X.decC` has literally the structure of `X.dec` / `X.codec.dec`, with the counting primitives of
Model/PsdCost.lean and Model/PayloadCost.lean; every `with io.BytesIO(data) as f` costs `enterBlock data` before the
statements that run on `data`. `X.cc` bundles the codec, the twin and the constants proved in
Lemmas/PayloadCostPatterns.lean.  Core Lean only.
-/
import PsdVerif.Model.PayloadCostSimple
import PsdVerif.Model.PayloadPatterns

namespace PsdVerif.PayloadCost
open PsdVerif PsdVerif.Codec PsdVerif.PsdCost PsdVerif.Payload PsdVerif.Payload3

/-! ## VirtualMemoryArray -/

def VMA.decC : RC VMA := fun d p => do
  let (iw, p) ← readUC 4 d p
  if iw = 0 then CE.ok (⟨iw, none⟩, p) else do
    let (length, p) ← readUC 4 d p
    if length = 0 then CE.ok (⟨iw, none⟩, p) else do
      let (depth, p) ← readUC 4 d p
      let (rect, p) ← readCountC (readUC 4) 4 d p
      let (pd, p) ← readUC 2 d p
      let (comp, p) ← readUC 1 d p
      let (data, p) ← readPyC ((length : Int) - 23) d p
      if comp ∈ Psd.G.compressions then CE.ok (⟨iw, some ⟨depth, rect, pd, comp, data⟩⟩, p) else CE.error .valueError

def VMA.cc : CC VMA := CC.hand VMA.codec VMA.decC "VirtualMemoryArray" 1 14 4 [⟨"fixed", 4⟩]

/-! ## VirtualMemoryArrayList -/

def VMAL.decC : RC VMAL := fun d p => do
  let (version, p) ← readUC 4 d p
  if version = 3 then do
    let (data, p) ← readLenBlockC 0 4 1 d p
    enterBlock data
    let (rect, q) ← readCountC (readUC 4) 4 data 0
    let (n, q) ← readUC 4 data q
    let (chans, _) ← readCountC VMA.decC (n + 2) data q
    CE.ok (⟨version, rect, chans⟩, p)
  else CE.error .assertionError

/-- loops: `read_fmt("4I", f)`, then `for _ in range(num_channels + 2)` (each array consumes ≥ 4 bytes) -/
def VMAL.cc : CC VMAL :=
  CC.hand VMAL.codec VMAL.decC "VirtualMemoryArrayList" 18 30 8 [⟨"fixed", 4⟩, ⟨"count", 4⟩]

/-! ## Pattern -/

def Pattern.decC : RC Pattern := fun d p => do
  let (version, p) ← readUC 4 d p
  if version = 1 then do
    let (mode, p) ← readUC 4 d p
    if mode ∈ Psd.G.colorModes then do
      let (point, p) ← readCountC readI16C 2 d p
      let (name, p) ← readUStrC 1 d p
      let (pid, p) ← readPascalC 1 d p
      if Pattern.isAscii pid then do
        let (table, p) ← (if mode = GP.colorModeIndexed then do
            let (rows, p) ← readCountC (readCountC (readUC 1) 3) 256 d p
            let (_, p) ← readSkipC 4 d p
            CE.ok (some rows, p)
          else CE.ok (none, p) : CE (Option (List (List Nat)) × Nat))
        let (data, p) ← VMAL.decC d p
        CE.ok (⟨version, mode, point, name, pid, table, data⟩, p)
      else CE.error .unicodeError
    else CE.error .valueError
  else CE.error .assertionError

/-- loops: `read_fmt("2h")`, `[read_fmt("3B", fp) for i in range(256)]` and the `3B` of each row -/
def Pattern.cc : CC Pattern :=
  CC.hand Pattern.codec Pattern.decC "Pattern" 18 1835 25 [⟨"fixed", 2⟩, ⟨"fixed", 3⟩, ⟨"fixed", 1⟩]

/-! ## Patterns -/

/-- the body of `while is_readable(fp, 4)`: a length block (padding 4), a `Pattern` read from it -/
def Patterns.itemDecC : RC (Option Pattern) := fun d p => do
  let (data, p) ← readLenBlockC 0 4 4 d p
  enterBlock data
  let (x, _) ← Pattern.decC data 0
  CE.ok (some x, p)

def Patterns.decC : RC (List Pattern) := readWhileC (isReadableC 4) Patterns.itemDecC

def Patterns.cc : CC (List Pattern) :=
  CC.hand Patterns.codec Patterns.decC "Patterns" 1866 1852 0 [⟨"while", 4⟩]

end PsdVerif.PayloadCost
