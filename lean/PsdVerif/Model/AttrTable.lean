/-
C16 (table part): the attribute accessors of `psd_tools.api.layers` as a TABLE read off the source —
for every public attribute of every layer class, which location its getter reads and what its setter
does, effect by effect (refusals, early returns with their tests, assignments to record fields, to
attributes of element objects, in-place mutations of the data of a tagged block, replacement of a
block by `set_data`, calls that do not touch attribute storage), with setters reached through
`self.<attr> = …` resolved through the MRO of the ROW's class and inlined; and what the writers
(`TaggedBlock.write`, `LayerRecord.write`) consult besides the current field values (caches).
`Generated/AttrTable.lean` is regenerated on every run by `harness/extract_c16.py`.

A small machine interprets any such table on an abstract layer (a store of values per location, the
set of blocks present, and what an encoding cache of a block still holds); everything the table
does not fix is a parameter (outcomes of opaque tests, values that are not the argument).
Core Lean only.
-/
import PsdVerif.Model.Basic

namespace PsdVerif.AttrTable

/-- Where an attribute value lives. -/
inductive Loc where
  /-- `self._record.<name>` -/
  | field (name : String)
  /-- `self._record.<field>.<attr>`: an attribute of an element object held by the record -/
  | elem (field attr : String)
  /-- attribute `attr` of the data element of the tagged block selected by `key` (a `Tag` member, or the
      intermediate property that selects the block, e.g. `_setting`) -/
  | block (key attr : String)
  /-- computed from data that is no attribute storage (children, descriptor, vector mask) -/
  | derived (src : String)
  /-- not understood -/
  | other (src : String)
  deriving DecidableEq, Repr, Inhabited

def Loc.key : Loc → Option String
  | .block k _ => some k
  | _ => none

def Loc.isBlock (l : Loc) : Bool := l.key.isSome

def Loc.understood : Loc → Bool
  | .other _ => false
  | _ => true

/-- What a test of an `if` is, as far as the machine can know. -/
inductive GKind where
  /-- anything else: the outcome is a parameter -/
  | free
  /-- "the new value equals what the getter's location holds" -/
  | stored
  /-- "the block selected by `key` exists" (`… is not None`) -/
  | present (key : String)
  deriving DecidableEq, Repr, Inhabited

structure Guard where
  text : String
  kind : GKind
  neg : Bool
  deriving DecidableEq, Repr, Inhabited

/-- Is the value assigned the setter's argument (possibly converted), or something else? -/
inductive WVal where
  | arg | derived
  deriving DecidableEq, Repr, Inhabited

/-- One effect of a setter body (helpers and delegated setters inlined; `via` names the setters the
    effect was reached through, innermost last; `[]` = written in the body itself). -/
inductive Eff where
  /-- `raise` / failing `assert` / assignment to a property without setter -/
  | refuse (exc : String) (gs : List Guard)
  /-- `return` before the end of the body -/
  | ret (gs : List Guard)
  /-- assignment to a record field, to an attribute of an element of the record, or IN PLACE to an attribute
      of the data element of an existing block -/
  | write (l : Loc) (v : WVal) (gs : List Guard) (via : List String)
  /-- `tagged_blocks.set_data(key, …)`: a NEW block replaces / creates the one under `key` -/
  | replace (key attr : String) (v : WVal) (gs : List Guard) (via : List String)
  /-- the encoding cache of the block under `key` is dropped (`data` re-assigned, cache attribute reset) -/
  | invalidate (key : String) (gs : List Guard)
  /-- a call that touches no attribute storage (recompute of the clipping relation, cached boxes) -/
  | call (what : String) (gs : List Guard)
  /-- not understood -/
  | other (src : String)
  deriving DecidableEq, Repr, Inhabited

/-- One attribute of one layer class. -/
structure Row where
  attr : String
  cls : String
  /-- the getter's read path: the first location that is present is returned -/
  reads : List Loc
  /-- every location the attribute's getter reads (for a component `offset.0` of a tuple-valued attribute: the
      locations of all components) -/
  foot : List Loc
  /-- the setter -/
  effs : List Eff
  deriving DecidableEq, Repr, Inhabited

/-- State a writer consults that is not a current field value. -/
structure Cache where
  /-- class whose `write` reads it -/
  owner : String
  attr : String
  /-- dropped when the owner's `data` attribute is REPLACED (and only then) -/
  dropOnReplace : Bool
  deriving DecidableEq, Repr, Inhabited

structure Table where
  rows : List Row
  caches : List Cache
  /-- anything in the write path the extractor could not classify -/
  writerOther : List String
  deriving DecidableEq, Repr, Inhabited

/-- does `TaggedBlock.write` reuse bytes encoded earlier? -/
def Table.caching (t : Table) : Bool := !t.caches.isEmpty

def Table.row? (t : Table) (attr cls : String) : Option Row :=
  t.rows.find? fun r => r.attr == attr && r.cls == cls

/-! ### The machine -/

/-- One layer object. -/
structure St where
  /-- the value at each location, in memory -/
  mem : Loc → Nat
  /-- which blocks exist -/
  present : String → Bool
  /-- what the bytes kept from an earlier `write` of the block say (`none`: nothing kept) -/
  enc : Loc → Option Nat

def St.has (s : St) : Loc → Bool
  | .block k _ => s.present k
  | _ => true

def St.store (s : St) (l : Loc) (v : Nat) : St := { s with mem := fun x => if x = l then v else s.mem x }

/-- `set_data`: a new block object (nothing encoded yet) holding `v` -/
def St.replaceBlock (s : St) (k a : String) (v : Nat) : St :=
  { mem := fun x => if x = .block k a then v else s.mem x,
    present := fun x => if x = k then true else s.present x,
    enc := fun x => if x.key = some k then none else s.enc x }

def St.dropEnc (s : St) (k : String) : St := { s with enc := fun x => if x.key = some k then none else s.enc x }

def firstPresent (s : St) : List Loc → Option Loc
  | [] => none
  | l :: ls => if s.has l then some l else firstPresent s ls

/-- the getter -/
def get (s : St) (r : Row) : Option Nat := (firstPresent s r.reads).map s.mem

/-- What the table leaves open in one call of a setter. -/
structure Inst where
  /-- outcome of an opaque test -/
  cond : String → Bool
  /-- a value that is not the argument -/
  dval : Loc → Nat

def evalG (s : St) (r : Row) (v : Nat) (i : Inst) (g : Guard) : Bool :=
  let b := match g.kind with
    | .free => i.cond g.text
    | .stored => get s r == some v
    | .present k => s.present k
  if g.neg then !b else b

def holds (s : St) (r : Row) (v : Nat) (i : Inst) (gs : List Guard) : Bool := gs.all (evalG s r v i)

inductive Out where
  | ok (s : St)
  /-- an explicit refusal of the setter (`raise`, failing `assert`, property without setter) -/
  | refused (exc : String) (s : St)
  /-- an attribute of a block that does not exist: `None` has no attributes -/
  | crashed (s : St)

def Out.st : Out → St
  | .ok s => s
  | .refused _ s => s
  | .crashed s => s

def Out.accepted : Out → Bool
  | .ok _ => true
  | _ => false

def wval (i : Inst) (v : Nat) (l : Loc) : WVal → Nat
  | .arg => v
  | .derived => i.dval l

/-- the setter of row `r` called with `v`: its effects in order -/
def runEffs (r : Row) (v : Nat) (i : Inst) : List Eff → St → Out
  | [], s => .ok s
  | .refuse x gs :: es, s => if holds s r v i gs then .refused x s else runEffs r v i es s
  | .ret gs :: es, s => if holds s r v i gs then .ok s else runEffs r v i es s
  | .write l w gs _ :: es, s =>
    if holds s r v i gs then
      if s.has l then runEffs r v i es (s.store l (wval i v l w)) else .crashed s
    else runEffs r v i es s
  | .replace k a w gs _ :: es, s =>
    if holds s r v i gs then runEffs r v i es (s.replaceBlock k a (wval i v (.block k a) w)) else runEffs r v i es s
  | .invalidate k gs :: es, s => if holds s r v i gs then runEffs r v i es (s.dropEnc k) else runEffs r v i es s
  | .call _ _ :: es, s => runEffs r v i es s
  | .other _ :: es, s => runEffs r v i es s

def set (r : Row) (v : Nat) (i : Inst) (s : St) : Out := runEffs r v i r.effs s

/-- what `save` writes for a location: a block's bytes come from the cache when the writer keeps one -/
def fileVal (t : Table) (s : St) (l : Loc) : Nat :=
  if t.caching && l.isBlock then (s.enc l).getD (s.mem l) else s.mem l

/-- `save`: the file, and the layer afterwards (a caching writer now holds the bytes it wrote) -/
def save (t : Table) (s : St) : (Loc → Nat) × St :=
  (fileVal t s, { s with enc := fun l => if t.caching && l.isBlock then some (fileVal t s l) else s.enc l })

/-- reading the file back: a new object, nothing encoded -/
def reopen (s : St) (file : Loc → Nat) : St := { mem := file, present := s.present, enc := fun _ => none }

/-- A step of a history on one layer: an attribute edit (a refused one leaves what it leaves) or a save. -/
inductive Op where
  | edit (r : Row) (v : Nat) (i : Inst)
  | save

def step (t : Table) (s : St) : Op → St
  | .edit r v i => (set r v i s).st
  | .save => (save t s).2

def runHist (t : Table) : St → List Op → St
  | s, [] => s
  | s, o :: os => runHist t (step t s o) os

/-- the cache is never older than the memory (vacuous when the writer keeps nothing) -/
def Fresh (t : Table) (s : St) : Prop :=
  t.caching = true → ∀ l : Loc, l.isBlock = true → s.enc l = none ∨ s.enc l = some (s.mem l)

/-! ### What the theorems need from the table (all decidable) -/

def Guard.isStored (g : Guard) : Bool := g.kind == .stored && !g.neg

/-- the only tests a primary write may sit under: "its own block exists" -/
def presenceOnly (p : Loc) (gs : List Guard) : Bool :=
  gs.all fun g => !g.neg && (match g.kind with | .present k => p.key == some k | _ => false)

def Eff.touches : Eff → Loc → Bool
  | .write l _ _ _, x => l == x
  | .replace k _ _ _ _, x => x.key == some k
  | _, _ => false

/-- after the value is in place nothing overwrites it -/
def noClobber (p : Loc) (es : List Eff) : Bool := es.all fun e => !e.touches p

/-- (a) + (b): every accepted run of these effects ends with the argument at `p` — the write of the argument
    to `p` (in place, or by replacing the block) is reached on every path that is neither a refusal nor an early
    return under a test that says "already stored", it sits under no test but the existence of its own block,
    and nothing overwrites it afterwards. -/
def okPath (p : Loc) : List Eff → Bool
  | [] => false
  | .refuse _ _ :: es => okPath p es
  | .ret gs :: es => gs.any Guard.isStored && okPath p es
  | .write l w gs _ :: es =>
    (l == p && w == .arg && presenceOnly p gs && noClobber p es) || okPath p es
  | .replace k a w gs _ :: es =>
    (Loc.block k a == p && w == .arg && gs.isEmpty && noClobber p es) || okPath p es
  | .invalidate _ _ :: es => okPath p es
  | .call _ _ :: es => okPath p es
  | .other _ :: _ => false

/-- a setter that cannot accept: an unconditional refusal before anything is written -/
def refusesAll : List Eff → Bool
  | .refuse _ [] :: _ => true
  | .call _ _ :: es => refusesAll es
  | _ => false

def Eff.isRefuse : Eff → Bool
  | .refuse _ _ => true
  | _ => false

def noRefuse (es : List Eff) : Bool := es.all fun e => !e.isRefuse

/-- nothing is written before a refusal can fire (a refused edit leaves the layer as it was) -/
def refuseFirst : List Eff → Bool
  | [] => true
  | .refuse _ _ :: es => refuseFirst es
  | .ret _ :: es => refuseFirst es
  | .call _ _ :: es => refuseFirst es
  | _ :: es => noRefuse es

def Eff.understood : Eff → Bool
  | .other _ => false
  | .write l _ _ _ => l.understood
  | _ => true

/-- (a), (b) for one row: the getter's first location is where the accepted setter puts the argument — or the
    setter refuses. -/
def rowOk (r : Row) : Bool :=
  r.effs.all Eff.understood && r.reads.all Loc.understood &&
  (refusesAll r.effs ||
   match r.reads with
   | p :: _ => okPath p r.effs
   | [] => false)

/-- two attributes share storage (`offset` and `left`; `lock` and `unlock`; the components of one tuple) -/
def related (r r' : Row) : Bool :=
  (r.foot ++ r.reads).any fun l => (r'.foot ++ r'.reads).any fun l' => l == l' || (l.key.isSome && l.key == l'.key)

/-- frame: a setter touches no location (and creates no block) that the getter of an unrelated attribute of
    the same class reads -/
def frameOk (t : Table) : Bool :=
  t.rows.all fun r => t.rows.all fun r' =>
    r.cls != r'.cls || related r r' ||
      r.effs.all fun e => r'.reads.all fun x => !e.touches x

def Eff.directWrite? : Eff → Option Loc
  | .write l .arg _ [] => some l
  | _ => none

def Row.writesLoc (r : Row) (l : Loc) : Bool := r.effs.any fun e => e.touches l

/-- (c): a location that the setter of ANOTHER attribute `b` (in some class) assigns the argument to directly
    belongs to `b`; a setter of class `C` that assigns to it in its own body — instead of going through
    `self.b = …` — is only all right when `C`'s own setter of `b` (possibly an override) writes it too. -/
def delegationOk (t : Table) : Bool :=
  t.rows.all fun r => r.effs.all fun e =>
    match e.directWrite? with
    | none => true
    | some l =>
      t.rows.all fun o =>
        o.attr == r.attr || !(o.effs.any fun e' => e'.directWrite? == some l) ||
          match t.row? o.attr r.cls with
          | some own => own.writesLoc l
          | none => true

/-- (d), caching writer: every in-place mutation of a block is followed by dropping that block's cache before
    the setter can end (return, refusal, or the next in-place mutation, which may fail on a missing block).
    `pend`: keys mutated and not yet invalidated. -/
def covered : List String → List Eff → Bool
  | pend, [] => pend.isEmpty
  | pend, .write l _ _ _ :: es =>
    match l.key with
    | some k => pend.isEmpty && covered [k] es
    | none => covered pend es
  | pend, .invalidate k gs :: es => if gs.isEmpty then covered (pend.filter (· != k)) es else covered pend es
  | pend, .replace _ _ _ _ _ :: es => covered pend es
  | pend, .ret _ :: es => pend.isEmpty && covered pend es
  | pend, .refuse _ _ :: es => pend.isEmpty && covered pend es
  | pend, .call _ _ :: es => covered pend es
  | pend, .other _ :: es => covered pend es

/-- (d): the writers read current field values only — no cache at all, or a cache of `TaggedBlock` that is
    dropped when `data` is replaced and that every in-place mutation site drops too. -/
def writerOk (t : Table) : Bool :=
  t.writerOther.isEmpty &&
  (t.caches.isEmpty ||
    (t.caches.all fun c => c.owner == "TaggedBlock" && c.dropOnReplace) && t.rows.all fun r => covered [] r.effs)

def tableOk (t : Table) : Bool :=
  !t.rows.isEmpty && t.rows.all rowOk && frameOk t && delegationOk t && writerOk t

end PsdVerif.AttrTable
