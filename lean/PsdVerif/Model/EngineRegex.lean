/-
C06 — the regular expressions of `psd_tools/psd/engine_data.py` (`EngineToken`, `Tokenizer.DIVIDER`,
`Tokenizer.UTF16_END`) as DATA: a parser for the subset of Python's `re` syntax they are written in, a small
reference matcher (backtracking, leftmost, greedy - the priorities of CPython's engine), and a DECIDABLE
SUFFICIENT CONDITION `safe` for "a backtracking matcher does O(1) work per byte of the subject".

Syntax read by `parse` (anything else - counted repetition `{..}`, lazy / possessive / doubled quantifiers, look-around,
back-references, named groups, `\w \s \b`, a non-ASCII character - makes `parse` answer `none`, which the check
`engine_patterns_safe` of Lemmas/EngineRegexTied.lean treats as a failure):

  literal ASCII characters; the escapes `\xHH`, `\d`, `\n`, `\t`, `\r` and backslash + ASCII punctuation
  (`\\ \) \( \] \[ \. \/` ...); `.`; classes `[...]` / `[^...]` of characters, escapes and ranges `a-z`;
  groups `(...)` and `(?:...)`; alternation `|`; ONE postfix `*`, `+` or `?` per atom; the anchors `^` and `$`.

Semantics (those of `re.compile(pattern.encode("macroman"), re.S)`, the only way the module compiles a pattern;
the flags expression is tied separately, `EngineRegexTables.flags`): the subject is a byte string; `.` is any byte
(`re.S`); `\d` is `[0-9]` (bytes pattern); `^` matches at offset 0 only and `$` at the end or before a line feed that
ends the subject (no `re.M`); groups capture nothing that the module uses, so `(...)` and `(?:...)` are the same.

THE CONDITION `safe` (all of it checked over the 256 byte values, `first` being the set of bytes an expression can
start with - for `$` the line feed it may stand before):

  (1) star height ≤ 1: the operand of `*`, `+`, `?` contains no quantifier, and cannot match the empty string;
  (2) for every quantified `X*` / `X+` / `X?`: FIRST(X) is disjoint from the look-ahead set of its CONTINUATION (what
      follows it in the enclosing concatenations up to the end of the pattern): whether the loop goes round again or is
      left is decided by the next byte;
  (3) the alternatives `a₁ | … | aₙ` of a quantified group have pairwise disjoint FIRST sets - EXCEPT the
      one-versus-two tiling case: one alternative is a single byte class `c`, the other a sequence of exactly two
      byte classes `x y`, and `y` is disjoint from the FIRST set of EVERY alternative of the group, and moreover `y` is
      disjoint from the look-ahead of the continuation OR the continuation contains no quantifier (this last clause is
      ours: without it the wrong choice `c` could start a long excursion into the continuation). Then the wrong choice
      dies within a constant number of steps: after `c` took the first byte no alternative can take the second.
      An alternation that is NOT directly the body of a quantifier must have disjoint look-ahead sets, no exception;
  (4) (for `search`) the pattern starts with `^`, or contains no quantifier, or is a single quantified byte class:
      an attempt at a later start offset fails - or succeeds - at its first byte.

TRUSTED, NOT PROVED: that (1)-(4) make a backtracking matcher with the priorities of CPython's `sre` spend O(1) steps
per subject byte and per pattern (hence the `12 · (token length + 1)` of `EngineDataCost.nextTokC`), and that CPython's
engine is such a matcher. What IS checked (Lemmas/EngineRegexTied.lean): every pattern of the module is in the
table, parses, and satisfies `safe`; the seeded variant of `UTF16_END` (`(?:\\.|[^\)])*`: a backslash pair can be
tiled two ways, exponentially many paths on `\\\\…\\` without a closing parenthesis) does NOT; and on sample subjects the
reference matcher below agrees with the byte predicates of `Model/EngineData.lean` and with the results CPython gave.

Core Lean only. Everything is structurally recursive (fuel where needed) so that `decide +kernel` evaluates it.
-/
namespace PsdVerif.EngineRegex

/-- byte values are `Nat` here (the kernel evaluates `Nat` comparisons natively) -/
inductive Re where
  | eps
  | set (neg : Bool) (rs : List (Nat × Nat))   -- a byte class: union of inclusive ranges, possibly complemented
  | bol                                         -- `^`
  | eol                                         -- `$`
  | seq (a b : Re)
  | alt (a b : Re)
  | star (a : Re)
  | plus (a : Re)
  | opt (a : Re)
  deriving Repr, DecidableEq, Inhabited

/-! ## Parser -/

def hexVal (c : Char) : Option Nat :=
  let n := c.toNat
  if Nat.ble 48 n && Nat.ble n 57 then some (n - 48)
  else if Nat.ble 97 n && Nat.ble n 102 then some (n - 87)
  else if Nat.ble 65 n && Nat.ble n 70 then some (n - 55)
  else none

def isAlnumC (c : Char) : Bool :=
  let n := c.toNat
  (Nat.ble 48 n && Nat.ble n 57) || (Nat.ble 65 n && Nat.ble n 90) || (Nat.ble 97 n && Nat.ble n 122)

/-- ASCII punctuation: a backslash before it means the character itself -/
def isPunctC (c : Char) : Bool :=
  let n := c.toNat
  Nat.ble 33 n && Nat.ble n 126 && !isAlnumC c

/-- characters that are not literals outside a class -/
def isSpecialC (c : Char) : Bool :=
  c == '\\' || c == '^' || c == '$' || c == '.' || c == '|' || c == '?' || c == '*' || c == '+' ||
  c == '(' || c == ')' || c == '[' || c == '{'

def one (n : Nat) : List (Nat × Nat) := [(n, n)]

/-- what follows a backslash -/
def pEscape : List Char → Option (List (Nat × Nat) × List Char)
  | 'x' :: h :: l :: t =>
    match hexVal h, hexVal l with
    | some a, some b => some (one (16 * a + b), t)
    | _, _ => none
  | 'd' :: t => some ([(48, 57)], t)
  | 'n' :: t => some (one 10, t)
  | 't' :: t => some (one 9, t)
  | 'r' :: t => some (one 13, t)
  | c :: t => if isPunctC c then some (one c.toNat, t) else none
  | [] => none

/-- one member of a class: a character or an escape -/
def pClassAtom : List Char → Option (List (Nat × Nat) × List Char)
  | '\\' :: t => pEscape t
  | c :: t => if c == ']' || c == '[' || !Nat.ble c.toNat 127 then none else some (one c.toNat, t)
  | [] => none

/-- the members of a class up to the closing bracket -/
def pClass : Nat → List Char → List (Nat × Nat) → Option (List (Nat × Nat) × List Char)
  | 0, _, _ => none
  | f + 1, cs, acc =>
    match cs with
    | ']' :: t => if acc.isEmpty then none else some (acc, t)
    | _ =>
      match pClassAtom cs with
      | none => none
      | some (lo, t) =>
        match t with
        | '-' :: ']' :: _ => pClass f t (acc ++ lo)
        | '-' :: t' =>
          match pClassAtom t' with
          | none => none
          | some (hi, t'') =>
            match lo, hi with
            | [(a, a')], [(b, b')] =>
              if a == a' && b == b' && Nat.ble a b then pClass f t'' (acc ++ [(a, b)]) else none
            | _, _ => none
        | _ => pClass f t (acc ++ lo)

def mkSeq (a b : Re) : Re :=
  match b with
  | .eps => a
  | _ => .seq a b

/-- no second postfix operator, no `{` -/
def postfixEnd (t : List Char) : Bool :=
  match t with
  | c :: _ => !(c == '*' || c == '+' || c == '?' || c == '{')
  | [] => true

mutual
def pAlt : Nat → List Char → Option (Re × List Char)
  | 0, _ => none
  | f + 1, cs =>
    match pSeq f cs with
    | none => none
    | some (a, t) =>
      match t with
      | '|' :: t' =>
        match pAlt f t' with
        | none => none
        | some (b, t'') => some (.alt a b, t'')
      | _ => some (a, t)
def pSeq : Nat → List Char → Option (Re × List Char)
  | 0, _ => none
  | f + 1, cs =>
    match cs with
    | [] => some (.eps, [])
    | '|' :: _ => some (.eps, cs)
    | ')' :: _ => some (.eps, cs)
    | _ =>
      match pItem f cs with
      | none => none
      | some (a, t) =>
        match pSeq f t with
        | none => none
        | some (b, t') => some (mkSeq a b, t')
def pItem : Nat → List Char → Option (Re × List Char)
  | 0, _ => none
  | f + 1, cs =>
    match pAtom f cs with
    | none => none
    | some (a, t) =>
      match t with
      | '*' :: t' => if postfixEnd t' then some (.star a, t') else none
      | '+' :: t' => if postfixEnd t' then some (.plus a, t') else none
      | '?' :: t' => if postfixEnd t' then some (.opt a, t') else none
      | '{' :: _ => none
      | _ => some (a, t)
def pAtom : Nat → List Char → Option (Re × List Char)
  | 0, _ => none
  | f + 1, cs =>
    match cs with
    | '(' :: '?' :: ':' :: t =>
      match pAlt f t with
      | some (a, ')' :: t') => some (a, t')
      | _ => none
    | '(' :: '?' :: _ => none
    | '(' :: t =>
      match pAlt f t with
      | some (a, ')' :: t') => some (a, t')
      | _ => none
    | '[' :: '^' :: t =>
      match pClass (t.length + 1) t [] with
      | none => none
      | some (rs, t') => some (.set true rs, t')
    | '[' :: t =>
      match pClass (t.length + 1) t [] with
      | none => none
      | some (rs, t') => some (.set false rs, t')
    | '.' :: t => some (.set true [], t)
    | '^' :: t => some (.bol, t)
    | '$' :: t => some (.eol, t)
    | '\\' :: t =>
      match pEscape t with
      | none => none
      | some (rs, t') => some (.set false rs, t')
    | c :: t => if isSpecialC c || !Nat.ble c.toNat 127 then none else some (.set false (one c.toNat), t)
    | [] => none
end

def parseChars (cs : List Char) : Option Re :=
  match pAlt (4 * cs.length + 8) cs with
  | some (r, []) => some r
  | _ => none

/-- the pattern text (as `re` is given it) to its syntax tree -/
def parse (s : String) : Option Re := parseChars s.toList

/-! ## Byte sets, FIRST, nullable -/

def memSet (neg : Bool) (rs : List (Nat × Nat)) (b : Nat) : Bool :=
  neg != rs.any (fun r => Nat.ble r.1 b && Nat.ble b r.2)

def allBytes : List Nat := List.range 256

def disjoint (f g : Nat → Bool) : Bool := allBytes.all (fun b => !(f b && g b))

/-- can match without consuming a byte -/
def nullable : Re → Bool
  | .eps => true
  | .set _ _ => false
  | .bol => true
  | .eol => true
  | .seq a b => nullable a && nullable b
  | .alt a b => nullable a || nullable b
  | .star _ => true
  | .plus a => nullable a
  | .opt _ => true

/-- the bytes a match can start with (`$`: the line feed it can stand before) -/
def first : Re → Nat → Bool
  | .eps, _ => false
  | .set n rs, x => memSet n rs x
  | .bol, _ => false
  | .eol, x => x == 10
  | .seq a b, x => first a x || (nullable a && first b x)
  | .alt a b, x => first a x || first b x
  | .star a, x => first a x
  | .plus a, x => first a x
  | .opt a, x => first a x

/-- look-ahead set of `r` followed by a continuation whose look-ahead set is `k` -/
def firstK (r : Re) (k : Nat → Bool) : Nat → Bool := fun x => first r x || (nullable r && k x)

/-- contains a quantifier (star height ≥ 1) -/
def hasQ : Re → Bool
  | .seq a b => hasQ a || hasQ b
  | .alt a b => hasQ a || hasQ b
  | .star _ => true
  | .plus _ => true
  | .opt _ => true
  | _ => false

def alts : Re → List Re
  | .alt a b => alts a ++ alts b
  | r => [r]

def seqs : Re → List Re
  | .seq a b => seqs a ++ seqs b
  | .eps => []
  | r => [r]

/-! ## The check -/

/-- a quantifier-free expression in front of a continuation with look-ahead `k`: every alternation is decided by
the next byte -/
def safeQF : Re → (Nat → Bool) → Bool
  | .seq a b, k => safeQF a (firstK b k) && safeQF b k
  | .alt a b, k => disjoint (firstK a k) (firstK b k) && safeQF a k && safeQF b k
  | .star _, _ => false
  | .plus _, _ => false
  | .opt _, _ => false
  | _, _ => true

/-- the body of a quantified group: its top-level alternatives are judged by `groupOK`, what is inside them by `safeQF` -/
def bodyQF : Re → (Nat → Bool) → Bool
  | .alt a b, k => bodyQF a k && bodyQF b k
  | r, k => safeQF r k

/-- the one-versus-two tiling exception of (3): `c` a single class, `t` two classes `x y` -/
def tile (group : List Re) (k : Nat → Bool) (kq : Bool) (c t : Re) : Bool :=
  match seqs c, seqs t with
  | [.set _ _], [.set _ _, .set n2 r2] =>
    group.all (fun g => disjoint (memSet n2 r2) (first g)) && (disjoint (memSet n2 r2) k || !kq)
  | _, _ => false

def pairOK (group : List Re) (k : Nat → Bool) (kq : Bool) (a b : Re) : Bool :=
  disjoint (first a) (first b) || tile group k kq a b || tile group k kq b a

def pairsOK (group : List Re) (k : Nat → Bool) (kq : Bool) : List Re → Bool
  | [] => true
  | a :: t => t.all (fun b => pairOK group k kq a b) && pairsOK group k kq t

/-- `X*` / `X+` in front of a continuation with look-ahead `k` (`kq`: the continuation contains a quantifier) -/
def loopOK (a : Re) (k : Nat → Bool) (kq : Bool) : Bool :=
  !hasQ a && !nullable a && (alts a).all (fun x => !nullable x) &&
  disjoint (first a) k &&
  pairsOK (alts a) k kq (alts a) &&
  bodyQF a (fun x => first a x || k x)

def safeK : Re → (Nat → Bool) → Bool → Bool
  | .seq a b, k, kq => safeK a (firstK b k) (hasQ b || kq) && safeK b k kq
  | .alt a b, k, kq => disjoint (firstK a k) (firstK b k) && safeK a k kq && safeK b k kq
  | .star a, k, kq => loopOK a k kq
  | .plus a, k, kq => loopOK a k kq
  | .opt a, k, _ => !hasQ a && !nullable a && disjoint (first a) k && safeQF a k
  | _, _, _ => true

/-- (4): where `search` may start -/
def startOK (r : Re) : Bool :=
  match seqs r with
  | .bol :: _ => true
  | [.plus (.set _ _)] => true
  | [.star (.set _ _)] => true
  | _ => !hasQ r

def safe (r : Re) : Bool := startOK r && safeK r (fun _ => false) false

/-! ## Reference matcher -/

/-- backtracking matcher in continuation-passing style: `n` bytes of the subject are behind, `s` is ahead; the answer is
the end offset of the first match in CPython's order (left alternative first, greedy quantifiers). Out of fuel:
`none`. Only ever evaluated on short concrete subjects. -/
def m : Nat → Re → Nat → List UInt8 → (Nat → List UInt8 → Option Nat) → Option Nat
  | 0, _, _, _, _ => none
  | f + 1, r, n, s, k =>
    match r with
    | .eps => k n s
    | .set neg rs =>
      match s with
      | b :: t => if memSet neg rs b.toNat then k (n + 1) t else none
      | [] => none
    | .bol => if n == 0 then k n s else none
    | .eol => if s == [] || s == [10] then k n s else none
    | .seq a b => m f a n s (fun n' s' => m f b n' s' k)
    | .alt a b =>
      match m f a n s k with
      | some e => some e
      | none => m f b n s k
    | .star a =>
      match m f a n s (fun n' s' => if Nat.blt n n' then m f (.star a) n' s' k else none) with
      | some e => some e
      | none => k n s
    | .plus a => m f a n s (fun n' s' => m f (.star a) n' s' k)
    | .opt a =>
      match m f a n s k with
      | some e => some e
      | none => k n s

def fuelFor (s : List UInt8) : Nat := 16 * s.length + 64

/-- `pattern.search(subject)`: `(match.start(), match.end())` -/
def searchFrom (fuel : Nat) (r : Re) : Nat → List UInt8 → Option (Nat × Nat)
  | n, s =>
    match m fuel r n s (fun e _ => some e) with
    | some e => some (n, e)
    | none =>
      match s with
      | [] => none
      | _ :: t => searchFrom fuel r (n + 1) t

def search (r : Re) (s : List UInt8) : Option (Nat × Nat) := searchFrom (fuelFor s) r 0 s

/-- `bool(pattern.search(subject))` -/
def found (r : Re) (s : List UInt8) : Bool := (search r s).isSome

end PsdVerif.EngineRegex
