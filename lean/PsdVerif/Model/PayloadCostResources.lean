/-
C06 — the payloads of image resources (Model/Payload3Resources.lean, unit 7: psd/image_resources.py) with their
counting readers. The flat classes are the `CC` combinator terms that mirror their definitions (`rec` ↦ `CC.fmt`); the
hand-written `PrintFlags` and `ThumbnailResource` readers get a counting twin with literally their structure. The
classes whose reader takes the descriptor tables (`Slices`, `SlicesV6`, `SliceV6`, the `DescriptorBlock` rows) are with
the descriptor unit.  Core Lean only.
-/
import PsdVerif.Model.PayloadCost
import PsdVerif.Model.Payload3Resources

namespace PsdVerif.PayloadCost
open PsdVerif PsdVerif.Codec PsdVerif.PsdCost PsdVerif.Payload PsdVerif.Payload3

/-! ## the flat classes -/

def AlphaIdentifiers.cc : CC (List Row) := CC.whileR 4 1 (CC.fmt [U 4])
def AlphaNamesPascal.cc : CC (List B) := CC.whileR 1 1 (CC.pascal 1 1)
def AlphaNamesUnicode.cc : CC (List Payload.Str) := CC.whileR 1 1 CC.ustr

def AlphaChannel.cc : CC Row :=
  CC.checked (CC.fmt AlphaChannel.fmt) (fun r => (r.int 6).toNat ∈ G3.alphaChannelModes) .valueError

def DisplayInfo.cc : CC (Row × List Row) := CC.seq (CC.fmt [U 4]) (CC.whileR 13 1 AlphaChannel.cc)

/-- `Byte` of image_resources.py (`Payload3.Byte`) -/
def ResByte.cc : CC Row := CC.fmt [U 1]

def GridGuidesInfo.cc : CC (Row × List Row) := CC.seq (CC.fmt [U 4, U 4, U 4]) (CC.counted 4 (CC.fmt [U 4, U 1]))

def HalftoneScreen.cc : CC Row := CC.fmt HalftoneScreen.fmt
def HalftoneScreens.cc : CC (List Row) := CC.whileR 18 1 HalftoneScreen.cc

/-- `Integer` of image_resources.py (`Payload3.Integer`) -/
def ResInteger.cc : CC Row := CC.fmt [S 4]

def LayerGroupEnabledIDs.cc : CC (List Row) := CC.whileR 1 1 (CC.fmt [U 1])
def LayerGroupInfo.cc : CC (List Row) := CC.whileR 2 1 (CC.fmt [U 2])
def LayerSelectionIDs.cc : CC (List Row) := CC.counted 2 (CC.fmt [U 4])

/-- `ShortInteger` of image_resources.py (`Payload3.ShortInteger`) -/
def ResShortInteger.cc : CC Row := CC.fmt [U 2]

def PascalString.cc : CC B := CC.pascal 1 2
def PixelAspectRatio.cc : CC Row := CC.fmt [U 4, U 8]
def PrintFlagsInfo.cc : CC Row := CC.fmt [U 2, U 1, X 1, U 4, U 2]

def PrintScale.cc : CC Row :=
  CC.checked (CC.fmt [U 2, U 4, U 4, U 4]) (fun r => (r.int 0).toNat ∈ G3.printScaleStyles) .valueError

def ResolutionInfo.cc : CC Row := CC.fmt [U 4, U 2, U 2, U 4, U 2, U 2]

def TransferFunction.cc : CC (Row × Row) := CC.seq (CC.fmt TransferFunction.curveFmt) (CC.fmt [U 2])
def TransferFunctions.cc : CC (List (Row × Row)) := CC.whileR 28 1 TransferFunction.cc

def URLItem.cc : CC (Row × Payload.Str) := CC.seq (CC.fmt [U 4, U 4]) CC.ustr
def URLList.cc : CC (List (Row × Payload.Str)) := CC.counted 4 URLItem.cc

def VersionInfo.cc : CC (Row × Payload.Str × Payload.Str × Row) :=
  CC.seq (CC.fmt [U 4, Q]) (CC.seq CC.ustr (CC.seq CC.ustr (CC.fmt [U 4])))

/-! ## PrintFlags -/

/-- `values = read_fmt("8?", fp); if is_readable(fp): values += read_fmt("?", fp)` (`is_readable` is a read) -/
def PrintFlags.decC : RC PrintFlags := fun d p => do
  let (fl, p) ← fmtDecC PrintFlags.fmt8 d p
  let r ← isReadableC 1 d p
  if r then
    let (pf, p) ← fmtDecC [Q] d p
    CE.ok (⟨fl, some pf⟩, p)
  else CE.ok (⟨fl, none⟩, p)

def PrintFlags.cc : CC PrintFlags := CC.hand PrintFlags.codec PrintFlags.decC "PrintFlags" 1 4 8 []

/-! ## ThumbnailResource (and ThumbnailResourceV4) -/

def Thumbnail.decC : RC Thumbnail := fun d p => do
  let (h, p) ← fmtDecC Thumbnail.headFmt d p
  let (size, p) ← readUC 4 d p
  let (t, p) ← fmtDecC Thumbnail.tailFmt d p
  let (data, p) ← readSizedC size d p
  CE.ok (⟨h, t, data⟩, p)

def Thumbnail.cc : CC Thumbnail := CC.hand Thumbnail.codec Thumbnail.decC "ThumbnailResource" 1 4 28 []

end PsdVerif.PayloadCost
