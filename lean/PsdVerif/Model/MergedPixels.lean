/-
C17 — the NUMBERS `PSDImage._merged_planes` (api/psd_image.py) writes, per pixel and per sample.

`Model/Merged.lean` has the decision logic of `save()` (which plane receives what) with the numeric
composite and the sample arithmetic as parameters (`Composite α`, `Quant α`). This file instantiates
both over `Rat`:

* the call the code makes: `color, _, alpha = composite(self, force=True)` — i.e. `composite(psd)`
  with every other argument at its default: backdrop colour `1.0` (white), backdrop alpha `0.0`,
  `viewport=None` → `psd.viewbox = (0, 0, width, height)`, `layer_filter=None` → `Layer.is_visible`
  (the `visible` field of the per-pixel tree of `Model/Composite.lean` IS `layer_filter(layer)`),
  `force=True` (selects vector / fill rendering, outside the compositor model's scope: pixel layers
  and groups render the same with and without it). A document WITHOUT layers is not composited:
  `composite` returns the stored image (`numpy("color")`, `numpy("shape")`, and the shape again as
  alpha) — `compositePsd`;
* flattening on white `color * alpha + (1.0 - alpha)` — with the ALPHA (third component of the
  result), not the shape (second component, discarded by the code: `_`); there is NO colour
  inversion for CMYK: the compositor works on the stored sample values, for which 1.0 is "no ink",
  so white is 1.0 in every mode;
* `plane()`: 8 / 16 bit `np.round(np.clip(v, 0.0, 1.0) * scale)` (round half to EVEN) written as
  big-endian unsigned integers of `depth // 8` bytes, `scale = {8: 255, 16: 65535}`; 32 bit
  `v.astype(">f4")`: the value as a big-endian IEEE-754 binary32 (no clip, no scaling; in the code the
  arrays already are float32, so this step is exact there; the model rounds the exact rational to the
  nearest binary32, ties to even);
* the planes as lists, row-major (`color[:, :, k].tobytes()` of a `(height, width)` array):
  sample `y * width + x` of a plane is pixel `(x, y)`.

Core Lean only (`Rat` is core).
-/
import PsdVerif.Model.Merged
import PsdVerif.Model.Composite

namespace PsdVerif.MergedPixels
open PsdVerif PsdVerif.Pixels PsdVerif.Merged PsdVerif.Composite

/-! ### the call `composite(self, force=True)` -/

/-- what `composite` returns at one pixel: `(color, shape, alpha)` -/
abbrev Px := Color × Rat × Rat

/-- `color=1.0` (default of `composite`): white backdrop colour -/
def backdropColor : Color := white

/-- `alpha=0.0` (default of `composite`): fully transparent backdrop -/
def backdropAlpha : Rat := 0

/-- `viewport=None` → `group.viewbox` of a `PSDImage`: `(0, 0, width, height)` -/
def canvas (h : Header) : Rect := ⟨0, 0, h.width, h.height⟩

/-- `composite(psd, force=True)` at pixel `(x, y)`: `layers` is the per-pixel layer tree (bottom first),
`oldColor` / `oldShape` what `psd.numpy("color")` / `psd.numpy("shape")` return there (the stored merged
image; `shape` is 1.0 for a document without transparency) — used only by the branch for a document
with no layers at all (`len(group) == 0`), which returns the stored image instead of compositing. -/
def compositePsd (B : Composite.Mode → Color → Color → Color) (h : Header) (x y : Int) (layers : List Node)
    (oldColor : Color) (oldShape : Rat) : Px :=
  if layers.isEmpty then (oldColor, oldShape, oldShape)
  else compositeDoc B (canvas h) x y backdropColor backdropAlpha layers

/-! ### flattening -/

/-- `color * alpha + (1.0 - alpha)`: the colour over a white background -/
def flatten (c a : Rat) : Rat := c * a + (1 - a)

/-- the value a plane receives at one pixel, by its source (`none`: a plane that is kept) -/
def sampleValue (px : Px) : PlaneSrc → Option Rat
  | .colorFlat k => some (flatten (px.1 k) px.2.2)
  | .color k => some (px.1 k)
  | .alpha => some px.2.2
  | .fill => some 1
  | .old _ => none

/-- `transparency = header.channels > n and has_transparency(self)`: is there a plane the readers take
for the transparency -/
def transparencyPlane (m : Meta) : Bool :=
  decide (m.header.channels > m.header.cmode.expected) && m.hasTransparency

/-- `not transparency or self.color_mode == ColorMode.RGB`: are the colour planes flattened on white -/
def flattens (m : Meta) : Bool := !transparencyPlane m || decide (m.header.cmode = .rgb)

/-- the source of colour plane `k` -/
def colourRoute (m : Meta) (k : Nat) : PlaneSrc := if flattens m then .colorFlat k else .color k

/-- the variant that flattens with the SHAPE (coverage) — not what the code does; kept to state the
difference (`Props/C17.lean: flatten_uses_alpha_not_shape`) -/
def sampleValueShapeVariant (px : Px) (k : Nat) : Rat := flatten (px.1 k) px.2.1

/-! ### quantisation -/

/-- the dict `scale = {8: 255, 16: 65535, 32: None}` of `_merged_planes` -/
def scaleTable : List (Nat × Option Nat) := [(8, some 255), (16, some 65535), (32, none)]

/-- `np.round`: to the nearest integer, ties to the even one -/
def roundHalfEven (q : Rat) : Int :=
  let f := q.floor
  let r := q - (f : Rat)
  if r < 1 / 2 then f else if 1 / 2 < r then f + 1 else if f % 2 = 0 then f else f + 1

/-- `np.round(np.clip(v, 0.0, 1.0) * scale)` as the unsigned integer `astype(">u…")` makes of it -/
def code (scale : Nat) (v : Rat) : Nat := (roundHalfEven (clip v * (scale : Rat))).toNat

/-- what the readers make of a stored code (`_parse_array`: `/ 255.0`, `/ 65535.0`) -/
def decode (scale : Nat) (n : Nat) : Rat := (n : Rat) / (scale : Rat)

/-- `k` bytes, big-endian -/
def be : Nat → Nat → List UInt8
  | 0, _ => []
  | k + 1, n => UInt8.ofNat (n / 256 ^ k % 256) :: be k n

/-- the number a big-endian byte string stands for -/
def unbe (bs : List UInt8) : Nat := bs.foldl (fun acc b => acc * 256 + b.toNat) 0

/-! #### binary32 -/

def pow2 (e : Int) : Rat :=
  if 0 ≤ e then ((2 ^ e.toNat : Nat) : Rat) else 1 / ((2 ^ (-e).toNat : Nat) : Rat)

/-- `⌊log₂ q⌋` for `q > 0` -/
def log2Floor (q : Rat) : Int :=
  let e0 : Int := (Nat.log2 q.num.toNat : Int) - (Nat.log2 q.den : Int)
  if pow2 e0 ≤ q then e0 else e0 - 1

/-- bits of the binary32 nearest to `q ≥ 0` (ties to even; subnormals; overflow to infinity):
`(e + 126) · 2²³ + m` with `m = round(q / 2^(e−23))` covers normal numbers (`m ≥ 2²³` adds one to the
exponent field), subnormals (`e = −126`) and the carry `m = 2²⁴` in one formula -/
def f32Mag (q : Rat) : Nat :=
  if q = 0 then 0 else
  let e := max (log2Floor q) (-126)
  let m := (roundHalfEven (q / pow2 (e - 23))).toNat
  min ((e + 126).toNat * 2 ^ 23 + m) 0x7F800000

/-- bits of `np.float32(q)` -/
def f32Bits (q : Rat) : Nat := if q < 0 then 2 ^ 31 + f32Mag (-q) else f32Mag q

/-- the value of a finite binary32 given by its bits -/
def f32Value (bits : Nat) : Rat :=
  let sign : Rat := if bits / 2 ^ 31 % 2 = 1 then -1 else 1
  let ex : Nat := bits / 2 ^ 23 % 256
  let m : Nat := bits % 2 ^ 23
  let full : Nat := 2 ^ 23 + m
  if ex = 0 then sign * (m : Rat) * pow2 (-149) else sign * (full : Rat) * pow2 ((ex : Int) - 150)

/-- `plane(values)` for one sample: the bytes written -/
def planeEnc (depth : Nat) (v : Rat) : List UInt8 :=
  if depth = 32 then be 4 (f32Bits v)
  else match scaleTable.lookup depth with
    | some (some s) => be (depth / 8) (code s v)
    | _ => be (depth / 8) 0    -- not reached: `_merged_planes` returns `None` for other depths

/-- the sample arithmetic of `_merged_planes` as the `Quant` of `Model/Merged.lean` -/
def ratQuant : Quant Rat := { enc := planeEnc, flat := flatten, one := 1 }

/-! ### planes -/

/-- the arrays `composite` returns, as the planes `_merged_planes` cuts them into:
`color[:, :, k]` / `alpha[:, :, 0]` of a `(height, width, ·)` array in C order -/
def compositePlanes (h : Header) (px : Int → Int → Px) : Merged.Composite Rat :=
  let w := h.width
  let n := w * h.height
  { color := (List.range h.cmode.expected).map fun k =>
      (List.range n).map fun i => (px ((i % w : Nat) : Int) ((i / w : Nat) : Int)).1 k,
    alpha := (List.range n).map fun i => (px ((i % w : Nat) : Int) ((i / w : Nat) : Int)).2.2 }

/-- sample number `i` of a stored plane (`size` bytes per sample) -/
def sampleAt (plane : List UInt8) (size i : Nat) : List UInt8 := (plane.drop (i * size)).take size

/-- a document as the compositor sees it: the layer tree at every pixel, and the stored image -/
structure PixelDoc where
  layers : Int → Int → List Node
  oldColor : Int → Int → Color
  oldShape : Int → Int → Rat

/-- `composite(psd, force=True)` over the whole canvas -/
def render (B : Composite.Mode → Color → Color → Color) (h : Header) (d : PixelDoc) : Int → Int → Px :=
  fun x y => compositePsd B h x y (d.layers x y) (d.oldColor x y) (d.oldShape x y)

/-- `PSDImage.save()` of a document whose pixels are `d` -/
def savePixels (B : Composite.Mode → Color → Color → Color) (s : DocState) (d : PixelDoc) : Except Err DocState :=
  save ratQuant s (compositePlanes s.info.header (render B s.info.header d))

end PsdVerif.MergedPixels
