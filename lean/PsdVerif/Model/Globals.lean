/-
C20 — process-wide state.

(a) The vocabulary of the footprint table that `harness/extract_c20.py`
    regenerates from the AST of src/psd_tools on every run
    (`Generated/Globals.lean`).
(b) A generic semantics of "operations that touch a global store only through
    a declared footprint", for the non-interference theorem.
(c) The descriptor key codec (`read_length_and_key` / `write_length_and_key`
    in psd/descriptor.py), the one place where the library consulted mutable
    process-wide state, in its current form and in its historical form.

Core Lean only.
-/
import PsdVerif.Model.Basic

namespace PsdVerif.Globals
open PsdVerif

inductive CellKind where
  | moduleMutable | classMutable | registry | memo | classAttrAssigned | globalRebound
  /-- a module-level or class-level name bound at import to an object of unknown, possibly mutable type
  (`RandomState(0)`, a class instance, a cache object): every use inside a function counts as a write -/
  | moduleObject
  deriving DecidableEq, Repr

structure Cell where
  name : String
  kind : CellKind
  writtenAtRuntime : Bool
  readObservably : Bool
  deriving Repr

/-- A cell is harmless when it is not both mutated after import and read. -/
def Cell.clean (c : Cell) : Bool := !(c.writtenAtRuntime && c.readObservably)

/-! ### (b) operations with a footprint -/

section Semantics
variable {CellId Val Doc Out : Type}

/-- An operation on a document that may read and write a global store. `reads`
and `writes` are its declared footprint; the three laws say the declaration is
honest. -/
structure Op (CellId Val Doc Out : Type) where
  reads : CellId → Prop
  writes : CellId → Prop
  run : (CellId → Val) → Doc → (CellId → Val) × Doc × Out
  /-- the document result and the output depend on the store only through `reads` -/
  reads_only : ∀ s s' d, (∀ c, reads c → s c = s' c) → (run s d).2 = (run s' d).2
  /-- cells outside `writes` are left alone -/
  writes_only : ∀ s d c, ¬ writes c → (run s d).1 c = s c

/-- Run a list of operations on one document, collecting the outputs. -/
def runOps (ops : List (Op CellId Val Doc Out)) (s : CellId → Val) (d : Doc) :
    (CellId → Val) × Doc × List Out :=
  match ops with
  | [] => (s, d, [])
  | op :: rest =>
    let r := op.run s d
    let r' := runOps rest r.1 r.2.1
    (r'.1, r'.2.1, r.2.2 :: r'.2.2)

/-- A history: operations applied to other documents earlier in the process
(each with its own document); only the store survives. -/
def afterHistory (h : List (Op CellId Val Doc Out × Doc)) (s : CellId → Val) : CellId → Val :=
  match h with
  | [] => s
  | (op, d) :: rest => afterHistory rest (op.run s d).1

end Semantics

/-! ### (c) descriptor keys -/

/-- A descriptor key as the current code represents it: the bytes, plus whether
it is an `_ImplicitKey` (read with length 0 although not a known term). -/
structure Key where
  bytes : List UInt8
  implicit : Bool
  deriving DecidableEq, Repr

def u32be (n : Nat) : List UInt8 :=
  [UInt8.ofNat (n / 16777216 % 256), UInt8.ofNat (n / 65536 % 256), UInt8.ofNat (n / 256 % 256), UInt8.ofNat (n % 256)]

def readU32 (d : List UInt8) (pos : Nat) : Except Err (Nat × Nat) :=
  match d.drop pos with
  | a :: b :: c :: e :: _ =>
    if pos + 4 ≤ d.length then
      .ok (a.toNat * 16777216 + b.toNat * 65536 + c.toNat * 256 + e.toNat, pos + 4)
    else .error .ioError
  | _ => .error .ioError

/-- `read_length_and_key(fp)` with the static term set `terms`. `fp.read(n)`
returns what is there (possibly fewer bytes); since repo commit bb0349d a short key is an `IOError`. -/
def readKey (terms : List UInt8 → Bool) (d : List UInt8) (pos : Nat) : Except Err (Key × Nat) :=
  match readU32 d pos with
  | .error e => .error e
  | .ok (len, p) =>
    let n := if len = 0 then 4 else len
    let kb := (d.drop p).take n
    let p' := p + kb.length
    if kb.length ≠ n then .error .ioError            -- a key cut short by the end of the stream (repo commit bb0349d)
    else if len = 0 ∧ ¬ terms kb then .ok ({ bytes := kb, implicit := true }, p')
    else .ok ({ bytes := kb, implicit := false }, p')

/-- `write_length_and_key(fp, value)`; `struct.pack('>I')` rejects lengths ≥ 2^32. -/
def writeKey (terms : List UInt8 → Bool) (k : Key) : Except Err (List UInt8) :=
  let isImplicit := terms k.bytes || k.implicit
  let n := if isImplicit then 0 else k.bytes.length
  if n < 4294967296 then .ok (u32be n ++ k.bytes) else .error .structError

/-! Historical behaviour (before the `fix:` commit): a process-wide *mutable* term
set, extended by the reader and consulted by the writer. Kept to state what was
wrong. -/

def legacyReadKey (terms : List (List UInt8)) (d : List UInt8) (pos : Nat) :
    Except Err (List UInt8 × Nat × List (List UInt8)) :=
  match readU32 d pos with
  | .error e => .error e
  | .ok (len, p) =>
    let n := if len = 0 then 4 else len
    let kb := (d.drop p).take n
    let terms' := if len = 0 ∧ kb ∉ terms then kb :: terms else terms
    .ok (kb, p + kb.length, terms')

def legacyWriteKey (terms : List (List UInt8)) (k : List UInt8) : List UInt8 :=
  u32be (if k ∈ terms then 0 else k.length) ++ k

end PsdVerif.Globals
