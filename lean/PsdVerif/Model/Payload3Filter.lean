/-
C01 payload classes, unit 10: filter effects (psd/filter_effects.py; `FXid` / `FEid` / `FELS`).

  FilterEffects        `I` version, `assert version in (1, 2, 3)`, `while is_readable(fp, 8)`: one `Q` length block (padding 4)
                       per item, read on its own stream
  FilterEffect         pascal uuid (ASCII, padding 1), `I` version, `assert version <= 1`, a `Q` length block holding
                       `4i` rectangle, `2I` depth and max_channels, `max_channels + 2` channels; then
                       `FilterEffectExtra.read(fp) if is_readable(fp) else None`
  FilterEffectChannel  `I` is_written; nothing more when 0; a `Q` length block: empty, or `H` compression + data
  FilterEffectExtra    `B` is_written; nothing more when 0; `4i` rectangle, a `Q` length block with `H` compression + data

The pixel bytes are opaque (C04). The uuid is its encoded bytes (C19).
WF tags as in the other units. Core Lean only.
-/
import PsdVerif.Model.Payload3Base

namespace PsdVerif.Payload3
open PsdVerif PsdVerif.Codec PsdVerif.Payload

def s4x4 : List FI := [S 4, S 4, S 4, S 4]

/-! ## FilterEffectChannel -/

structure FEChannel where
  isWritten : Nat
  content : Option (Nat × B)          -- compression and data; `None` / `b""` when nothing is stored
  deriving DecidableEq, Repr

namespace FEChannel

/-- the `writer` closure: `0` bytes when `compression is None`, else `H` + data -/
def contentT : Option (Nat × B) → B
  | none => []
  | some (c, data) => beBytes 2 c ++ data

def encT (x : FEChannel) : B :=
  beBytes 4 x.isWritten ++ (if x.isWritten = 0 then [] else lenBlockT 0 8 1 (contentT x.content))

def contentFits : Option (Nat × B) → Prop
  | none => True
  | some (c, data) => FitsU 2 c ∧ FitsU 8 (2 + data.length)
instance (o : Option (Nat × B)) : Decidable (contentFits o) := by
  cases o <;> simp only [contentFits] <;> exact inferInstance

def Fits (x : FEChannel) : Prop := FitsU 4 x.isWritten ∧ (x.isWritten ≠ 0 → contentFits x.content)
instance (x : FEChannel) : Decidable x.Fits := by unfold Fits; exact inferInstance

def encP (x : FEChannel) : W :=
  let written := wBytes (beBytes 4 x.isWritten)
  if x.isWritten = 0 then written
  else written +> wLenBlock 0 8 1 (match x.content with
    | none => wNil
    | some (c, data) => wBytes (beBytes 2 c) +> wBytes data)

def dec : R FEChannel := fun d p => do
  let (iw, p) ← readU 4 d p
  if iw = 0 then .ok (⟨iw, none⟩, p)
  else
    let (data, p) ← readLenBlock 0 8 1 d p
    if data.length = 0 then .ok (⟨iw, none⟩, p)
    else
      let (c, _) ← readU 2 data 0
      .ok (⟨iw, some (c, data.drop 2)⟩, p)

def codec : PCodec FEChannel where
  encT := encT
  Fits := Fits
  decFits := inferInstance
  encP := encP
  dec := dec
  consumed x := (encT x).length
  WF x := x.isWritten = 0 → x.content = none         -- (iii) a channel that is not written stores its flag only
  decWF _ := inferInstance

end FEChannel

/-! ## FilterEffectExtra -/

structure FEExtra where
  isWritten : Nat
  rectangle : Row
  compression : Nat
  data : B
  deriving DecidableEq, Repr

namespace FEExtra

/-- the attribute default `[0, 0, 0, 0]` -/
def defaultRect : Row := [.int 0, .int 0, .int 0, .int 0]

def encT (x : FEExtra) : B :=
  beBytes 1 x.isWritten ++
  (if x.isWritten = 0 then [] else fmtT s4x4 x.rectangle ++ lenBlockT 0 8 1 (beBytes 2 x.compression ++ x.data))

def Fits (x : FEExtra) : Prop :=
  FitsU 1 x.isWritten ∧ (x.isWritten ≠ 0 → fmtFits s4x4 x.rectangle ∧ FitsU 2 x.compression ∧ FitsU 8 (2 + x.data.length))
instance (x : FEExtra) : Decidable x.Fits := by unfold Fits; exact inferInstance

def encP (x : FEExtra) : W :=
  let written := wBytes (beBytes 1 x.isWritten)
  if x.isWritten = 0 then written
  else written +> wBytes (fmtT s4x4 x.rectangle) +> wLenBlock 0 8 1 (wBytes (beBytes 2 x.compression) +> wBytes x.data)

def dec : R FEExtra := fun d p => do
  let (iw, p) ← readU 1 d p
  if iw = 0 then .ok (⟨iw, defaultRect, 0, []⟩, p)
  else
    let (rect, p) ← fmtDec s4x4 d p
    let (data, p) ← readLenBlock 0 8 1 d p
    let (c, _) ← readU 2 data 0
    .ok (⟨iw, rect, c, data.drop 2⟩, p)

def codec : PCodec FEExtra where
  encT := encT
  Fits := Fits
  decFits := inferInstance
  encP := encP
  dec := dec
  consumed x := (encT x).length
  WF x := x.isWritten = 0 → (x.rectangle = defaultRect ∧ x.compression = 0 ∧ x.data = [])
      -- (iii) an extra that is not written stores its flag only: the other attributes are the defaults
  decWF _ := inferInstance

end FEExtra

/-! ## FilterEffect -/

/-- what the inner length block of a `FilterEffect` holds: rectangle, (depth, max_channels), the channels -/
def FEBody.codec : PCodec (Row × Row × List FEChannel) where
  encT v := fmtT s4x4 v.1 ++ (fmtT [U 4, U 4] v.2.1 ++ listT FEChannel.encT v.2.2)
  Fits v := fmtFits s4x4 v.1 ∧ fmtFits [U 4, U 4] v.2.1 ∧ listFits FEChannel.Fits v.2.2
  decFits _ := inferInstance
  encP v := wBytes (fmtT s4x4 v.1) +> (wBytes (fmtT [U 4, U 4] v.2.1) +> wList FEChannel.encP v.2.2)
  dec := fun d p => do
    let (rect, p) ← fmtDec s4x4 d p
    let (dm, p) ← fmtDec [U 4, U 4] d p
    let (chs, p) ← readCount FEChannel.dec ((dm.int 1).toNat + 2) d p          -- `for _ in range(max_channels + 2)`
    .ok ((rect, dm, chs), p)
  consumed v := (fmtT s4x4 v.1 ++ (fmtT [U 4, U 4] v.2.1 ++ listT FEChannel.encT v.2.2)).length
  WF v := v.2.2.length = (v.2.1.int 1).toNat + 2 ∧ ∀ c ∈ v.2.2, FEChannel.codec.WF c
      -- (iii) `max_channels` says how many channels follow
  decWF _ := inferInstance

abbrev FilterEffect := B × Row × (Row × Row × List FEChannel) × Option FEExtra

/-- uuid, version (`assert version <= 1`), the body in its `Q` length block, the optional extra -/
def isAscii (b : B) : Bool := b.all (fun c => c.toNat < 128)

/-- `read_pascal_string(fp, encoding="ascii", padding=1)`: the bytes are decoded at once (`UnicodeDecodeError`) -/
def asciiPascal : PCodec B := checked (pascal 1 1) (fun b => isAscii b = true) .unicodeError

def FilterEffect.codec : PCodec FilterEffect :=
  seq asciiPascal (seq (checked (rec [U 4]) (fun r => r.int 0 ≤ 1) .assertionError)
    (seq (blocked 8 1 FEBody.codec) (optTail FEExtra.codec)))

/-- `FilterEffects`: version (`assert version in (1, 2, 3)`), one `Q` length block with padding 4 per item -/
def FilterEffects.codec : PCodec (Row × List FilterEffect) :=
  seq (checked (rec [U 4]) (fun r => r.int 0 = 1 ∨ r.int 0 = 2 ∨ r.int 0 = 3) .assertionError)
    (whileR 8 1 (blocked 8 4 FilterEffect.codec))

end PsdVerif.Payload3
