/-
Model of `psd_tools/composite/blend.py` (C12; imported by the compositor model of C11/C13).

Core Lean only.  Colours are exact rationals (`Rat`, core); the NumPy code runs on float32, the
difference is the correspondence tolerance.  Every function mirrors the NumPy code's branch
structure: a sequence of masked assignments `B[mask] = v` becomes a chain
`let B1 := if mask then v else B0` in assignment order (later assignments win).
`np.minimum / np.maximum / np.abs` are `rmin / rmax / rabs` (defined here with `if`, so that no
order-theory instance has to agree between core and Mathlib).

Division: core `Rat` has `x / 0 = 0`.  No theorem may hold for that reason, so every division of
the code has its denominator exposed in a `…Dens` list ("the denominators NumPy evaluates for this
element") and `Props/C12.lean` proves them positive on the domain (`…_defined`).

`Spec` (bottom of the file) is a transcription of the PUBLISHED formulas, written without looking
at the code model (PDF 1.7 §11.3.5, W3C Compositing and Blending Level 1 §10, Adobe's
descriptions of the Photoshop-only modes).
-/
namespace PsdVerif.Blend

/-- the `1e-9` the code adds to denominators -/
def eps : Rat := 1 / 1000000000
/-- the `0.999999` of `hard_mix` -/
def c999999 : Rat := 999999 / 1000000

/-- `np.minimum(a, b)` -/
def rmin (a b : Rat) : Rat := if a ≤ b then a else b
/-- `np.maximum(a, b)` -/
def rmax (a b : Rat) : Rat := if a ≤ b then b else a
/-- `np.abs(a)` -/
def rabs (a : Rat) : Rat := if a < 0 then -a else a

/-! ## Separable modes (one channel) -/

def normal (_Cb Cs : Rat) : Rat := Cs

def multiply (Cb Cs : Rat) : Rat := Cb * Cs

def screen (Cb Cs : Rat) : Rat := Cb + Cs - (Cb * Cs)

/-- `B = multiply(Cb, 2*Cs); B[Cs > 0.5] = screen(Cb, 2*Cs - 1)[Cs > 0.5]` -/
def hardLight (Cb Cs : Rat) : Rat :=
  let B0 := multiply Cb (2 * Cs)
  if Cs > 1 / 2 then screen Cb (2 * Cs - 1) else B0

def overlay (Cb Cs : Rat) : Rat := hardLight Cs Cb

def darken (Cb Cs : Rat) : Rat := rmin Cb Cs

def lighten (Cb Cs : Rat) : Rat := rmax Cb Cs

/-- `color_dodge(Cb, Cs, s=1.0)`; `s` is 1 at every call site.
```
B = zeros; B[Cs == 1] = 1; B[Cb == 0] = 0
index = (Cs != 1) & (Cb != 0); B[index] = minimum(1, Cb / (s * (1 - Cs + 1e-9)))
``` -/
def colorDodge (Cb Cs : Rat) : Rat :=
  let B0 : Rat := 0
  let B1 := if Cs = 1 then 1 else B0
  let B2 := if Cb = 0 then 0 else B1
  if Cs ≠ 1 ∧ Cb ≠ 0 then rmin 1 (Cb / (1 * (1 - Cs + eps))) else B2

/-- denominators evaluated by `color_dodge` for this element -/
def colorDodgeDens (Cb Cs : Rat) : List Rat :=
  if Cs ≠ 1 ∧ Cb ≠ 0 then [1 * (1 - Cs + eps)] else []

/-- `color_burn(Cb, Cs, s=1.0)`:
```
B = zeros; B[Cb == 1] = 1
index = (Cb != 1) & (Cs != 0); B[index] = 1 - minimum(1, (1 - Cb) / (s * Cs + 1e-9))
``` -/
def colorBurn (Cb Cs : Rat) : Rat :=
  let B0 : Rat := 0
  let B1 := if Cb = 1 then 1 else B0
  if Cb ≠ 1 ∧ Cs ≠ 0 then 1 - rmin 1 ((1 - Cb) / (1 * Cs + eps)) else B1

def colorBurnDens (Cb Cs : Rat) : List Rat :=
  if Cb ≠ 1 ∧ Cs ≠ 0 then [1 * Cs + eps] else []

def linearDodge (Cb Cs : Rat) : Rat := rmin 1 (Cb + Cs)

def linearBurn (Cb Cs : Rat) : Rat := rmax 0 (Cb + Cs - 1)

/-- `soft_light` AFTER the repair (`D` selected by `Cb <= 0.25`, as PDF 1.7 / W3C say).
`sq` stands for `np.sqrt`.
```
index = Cb <= 0.25
D[index] = ((16*Cb - 12)*Cb + 4)*Cb ; D[~index] = sqrt(Cb)
index = Cs <= 0.5
B[index] = Cb - (1 - 2*Cs)*Cb*(1 - Cb) ; B[~index] = Cb + (2*Cs - 1)*(D - Cb)
``` -/
def softLight (sq : Rat → Rat) (Cb Cs : Rat) : Rat :=
  let D := if Cb ≤ 1 / 4 then ((16 * Cb - 12) * Cb + 4) * Cb else sq Cb
  if Cs ≤ 1 / 2 then Cb - (1 - 2 * Cs) * Cb * (1 - Cb) else Cb + (2 * Cs - 1) * (D - Cb)

/-- `soft_light` as it was BEFORE the repair: `D` selected by `Cs <= 0.25`.  Kept only to state the
defect (`Props.C12.soft_light_before_fix_…`); nothing else uses it. -/
def softLightBeforeFix (sq : Rat → Rat) (Cb Cs : Rat) : Rat :=
  let D := if Cs ≤ 1 / 4 then ((16 * Cb - 12) * Cb + 4) * Cb else sq Cb
  if Cs ≤ 1 / 2 then Cb - (1 - 2 * Cs) * Cb * (1 - Cb) else Cb + (2 * Cs - 1) * (D - Cb)

/-- `B = color_burn(Cb, 2*Cs); D = color_dodge(Cb, 2*Cs - 1); B[Cs > 0.5] = D[Cs > 0.5]`.
Both are evaluated for every element (see `vividLightDens`). -/
def vividLight (Cb Cs : Rat) : Rat :=
  let Cs2 := Cs * 2
  let B0 := colorBurn Cb Cs2
  let D := colorDodge Cb (Cs2 - 1)
  if Cs > 1 / 2 then D else B0

def vividLightDens (Cb Cs : Rat) : List Rat :=
  colorBurnDens Cb (Cs * 2) ++ colorDodgeDens Cb (Cs * 2 - 1)

def linearLight (Cb Cs : Rat) : Rat :=
  let B0 := linearBurn Cb (2 * Cs)
  if Cs > 1 / 2 then linearDodge Cb (2 * Cs - 1) else B0

def pinLight (Cb Cs : Rat) : Rat :=
  let B0 := darken Cb (2 * Cs)
  if Cs > 1 / 2 then lighten Cb (2 * Cs - 1) else B0

def difference (Cb Cs : Rat) : Rat := rabs (Cb - Cs)

def exclusion (Cb Cs : Rat) : Rat := Cb + Cs - 2 * Cb * Cs

def subtract (Cb Cs : Rat) : Rat := rmax 0 (Cb - Cs)

/-- `B = zeros; B[(Cb + 0.999999 * Cs) >= 1] = 1` -/
def hardMix (Cb Cs : Rat) : Rat :=
  let B0 : Rat := 0
  if Cb + c999999 * Cs ≥ 1 then 1 else B0

/-- `B = Cb / (Cs + 1e-9); B[B > 1] = 1` -/
def divide (Cb Cs : Rat) : Rat :=
  let B0 := Cb / (Cs + eps)
  if B0 > 1 then 1 else B0

def divideDens (_Cb Cs : Rat) : List Rat := [Cs + eps]

/-! ## Non-separable modes (RGB triples) -/

structure RGB where
  r : Rat
  g : Rat
  b : Rat
  deriving DecidableEq, Repr

namespace RGB
def map (f : Rat → Rat) (c : RGB) : RGB := ⟨f c.r, f c.g, f c.b⟩
/-- `np.max(C, axis=2)` -/
def max3 (c : RGB) : Rat := rmax (rmax c.r c.g) c.b
/-- `np.min(C, axis=2)` -/
def min3 (c : RGB) : Rat := rmin (rmin c.r c.g) c.b
/-- `np.median(C, axis=2)` of three values: the middle one of the sorted triple -/
def med3 (c : RGB) : Rat := rmax (rmin c.r c.g) (rmin (rmax c.r c.g) c.b)
def All (p : Rat → Prop) (c : RGB) : Prop := p c.r ∧ p c.g ∧ p c.b
def toList (c : RGB) : List Rat := [c.r, c.g, c.b]
end RGB

/-- `_lum`: `0.3 R + 0.59 G + 0.11 B` -/
def lum (c : RGB) : Rat := 3 / 10 * c.r + 59 / 100 * c.g + 11 / 100 * c.b

/-- `_sat` -/
def sat (c : RGB) : Rat := c.max3 - c.min3

/-- `_clip_color(C)`; `L`, `C_min`, `C_max` are computed once, from the argument:
```
index = C_min < 0 ; C[index] = L + (C[index] - L) * L / (L - C_min + 1e-9)
index = C_max > 1 ; C[index] = L + (C[index] - L) * (1 - L) / (C_max - L + 1e-9)
C[C < 0] = 0 ; C[C > 1] = 1
``` -/
def clipColor (c : RGB) : RGB :=
  let L := lum c
  let n := c.min3
  let x := c.max3
  let c1 := if n < 0 then c.map (fun v => L + (v - L) * L / (L - n + eps)) else c
  let c2 := if x > 1 then c1.map (fun v => L + (v - L) * (1 - L) / (x - L + eps)) else c1
  let c3 := c2.map (fun v => if v < 0 then 0 else v)
  c3.map (fun v => if v > 1 then 1 else v)

def clipColorDens (c : RGB) : List Rat :=
  (if c.min3 < 0 then [lum c - c.min3 + eps] else []) ++
  (if c.max3 > 1 then [c.max3 - lum c + eps] else [])

/-- `_set_lum(C, L)`: `d = L - lum(C); clip_color(C + d)` -/
def setLum (c : RGB) (L : Rat) : RGB :=
  let d := L - lum c
  clipColor (c.map (fun v => v + d))

def setLumDens (c : RGB) (L : Rat) : List Rat :=
  clipColorDens (c.map (fun v => v + (L - lum c)))

/-- one component `v` of `_set_sat(C, s)` (`mx`, `md`, `mn` = max, median, min of `C`):
```
index_diff = C_max > C_min ; index_mid = C == C_mid
index_max = (C == C_max) & ~index_mid ; index_min = C == C_min
B = zeros
B[index_mid & index_diff] = (C_mid - C_min) * s / (C_max - C_min + 1e-9)
B[index_max & index_diff] = s
B[~index_diff & index_mid] = 0 ; B[~index_diff & index_max] = 0
B[index_min] = 0
``` -/
def setSatComp (mx md mn s v : Rat) : Rat :=
  let B0 : Rat := 0
  let B1 := if v = md ∧ mx > mn then (md - mn) * s / (mx - mn + eps) else B0
  let B2 := if (v = mx ∧ ¬ v = md) ∧ mx > mn then s else B1
  let B3 := if ¬ mx > mn ∧ v = md then 0 else B2
  let B4 := if ¬ mx > mn ∧ (v = mx ∧ ¬ v = md) then 0 else B3
  if v = mn then 0 else B4

/-- `_set_sat(C, s)` -/
def setSat (c : RGB) (s : Rat) : RGB :=
  c.map (setSatComp c.max3 c.med3 c.min3 s)

def setSatDens (c : RGB) : List Rat :=
  if c.max3 > c.min3 then [c.max3 - c.min3 + eps] else []

def hue (Cb Cs : RGB) : RGB := setLum (setSat Cs (sat Cb)) (lum Cb)
def hueDens (Cb Cs : RGB) : List Rat := setSatDens Cs ++ setLumDens (setSat Cs (sat Cb)) (lum Cb)

def saturation (Cb Cs : RGB) : RGB := setLum (setSat Cb (sat Cs)) (lum Cb)
def saturationDens (Cb Cs : RGB) : List Rat := setSatDens Cb ++ setLumDens (setSat Cb (sat Cs)) (lum Cb)

def color (Cb Cs : RGB) : RGB := setLum Cs (lum Cb)
def colorDens (Cb Cs : RGB) : List Rat := setLumDens Cs (lum Cb)

def luminosity (Cb Cs : RGB) : RGB := setLum Cb (lum Cs)
def luminosityDens (Cb Cs : RGB) : List Rat := setLumDens Cb (lum Cs)

/-- `index = lum(Cs) < lum(Cb); B = Cb.copy(); B[index] = Cs[index]` -/
def darkerColor (Cb Cs : RGB) : RGB := if lum Cs < lum Cb then Cs else Cb

def lighterColor (Cb Cs : RGB) : RGB := if lum Cs > lum Cb then Cs else Cb

/-! ## The CMYK wrapper `non_separable(k)` -/

structure CMYK where
  c : Rat
  m : Rat
  y : Rat
  k : Rat
  deriving DecidableEq, Repr

/-- `_cmyk2rgb`: `(1 - C_i) * (1 - K)` -/
def cmyk2rgb (p : CMYK) : RGB := ⟨(1 - p.c) * (1 - p.k), (1 - p.m) * (1 - p.k), (1 - p.y) * (1 - p.k)⟩

/-- `_rgb2cmy(C, K)`: `color = zeros; color[K < 1] = (1 - C - K) / (1 - K + 1e-9)` -/
def rgb2cmy (c : RGB) (K : Rat) : RGB :=
  c.map (fun v => let B0 : Rat := 0; if K < 1 then (1 - v - K) / (1 - K + eps) else B0)

def rgb2cmyDens (K : Rat) : List Rat := if K < 1 then [1 - K + eps] else []

/-- which `K` the wrapper keeps: `non_separable(k="s")` takes the source's; the decorator's
default is `"s"` and no function of `blend.py` passes anything else -/
inductive KSel where
  | s | b
  deriving DecidableEq, Repr

/-- `_blend_fn` for 4-channel input: `K = Cs[3] if k == "s" else Cb[3]`,
`concatenate(_rgb2cmy(func(_cmyk2rgb(Cb), _cmyk2rgb(Cs)), K), K)` -/
def nonSepCMYK (k : KSel) (f : RGB → RGB → RGB) (Cb Cs : CMYK) : CMYK :=
  let K := match k with | .s => Cs.k | .b => Cb.k
  let o := rgb2cmy (f (cmyk2rgb Cb) (cmyk2rgb Cs)) K
  ⟨o.r, o.g, o.b, K⟩

/-- the decorator argument as the source spells it -/
def KSel.name : KSel → String
  | .s => "s" | .b => "b"

/-- the `k` each non-separable function of blend.py is wrapped with, function by function
(`@non_separable()` is the default `"s"`; `luminosity` passes `"s"` explicitly). Regenerated from the
decorators on every run and tied by `Props.C12.non_separable_k_per_function`. -/
def kSelOf : String → Option KSel
  | "hue" => some .s | "saturation" => some .s | "color" => some .s
  | "luminosity" => some .s | "darker_color" => some .s | "lighter_color" => some .s
  | _ => none

def hueCMYK := nonSepCMYK .s hue
def saturationCMYK := nonSepCMYK .s saturation
def colorCMYK := nonSepCMYK .s color
def luminosityCMYK := nonSepCMYK .s luminosity
def darkerColorCMYK := nonSepCMYK .s darkerColor
def lighterColorCMYK := nonSepCMYK .s lighterColor

/-! ## The `BLEND_FUNC` table as modelled

Function names of `blend.py` the model covers (`dissolve` is `normal` in the code), and the
`BlendMode` members that are known not to be in `BLEND_FUNC` (the compositor's
`BLEND_FUNC.get(mode, normal)` falls back to `normal`): `PASS_THROUGH` is a group attribute, never
a pixel operation. -/
def modelledFunctions : List String :=
  ["normal", "multiply", "screen", "overlay", "darken", "lighten", "color_dodge", "color_burn",
   "linear_dodge", "linear_burn", "hard_light", "soft_light", "vivid_light", "linear_light",
   "pin_light", "hard_mix", "divide", "difference", "exclusion", "subtract",
   "hue", "saturation", "color", "luminosity", "darker_color", "lighter_color", "dissolve"]

def documentedFallbackToNormal : List String := ["PASS_THROUGH"]

/-- the function expected for each `BlendMode` member (Adobe's mode ↔ formula) -/
def expectedFunction : List (String × String) :=
  [("NORMAL", "normal"), ("MULTIPLY", "multiply"), ("SCREEN", "screen"), ("OVERLAY", "overlay"),
   ("DARKEN", "darken"), ("LIGHTEN", "lighten"), ("COLOR_DODGE", "color_dodge"),
   ("COLOR_BURN", "color_burn"), ("LINEAR_DODGE", "linear_dodge"), ("LINEAR_BURN", "linear_burn"),
   ("HARD_LIGHT", "hard_light"), ("SOFT_LIGHT", "soft_light"), ("VIVID_LIGHT", "vivid_light"),
   ("LINEAR_LIGHT", "linear_light"), ("PIN_LIGHT", "pin_light"), ("HARD_MIX", "hard_mix"),
   ("DIVIDE", "divide"), ("DIFFERENCE", "difference"), ("EXCLUSION", "exclusion"),
   ("SUBTRACT", "subtract"), ("HUE", "hue"), ("SATURATION", "saturation"), ("COLOR", "color"),
   ("LUMINOSITY", "luminosity"), ("DARKER_COLOR", "darker_color"), ("LIGHTER_COLOR", "lighter_color"),
   ("DISSOLVE", "dissolve")]

/-- the `k` every `@non_separable` function is wrapped with, as modelled (`nonSepCMYK .s`) -/
def expectedNonSeparableK : List (String × String) :=
  [("hue", "s"), ("saturation", "s"), ("color", "s"), ("luminosity", "s"), ("darker_color", "s"),
   ("lighter_color", "s")]

/-- the numeric literals of every function of blend.py, as the model hard-codes them
(`1e-09` = `eps`, `0.999999` = `c999999`, `0.3 / 0.59 / 0.11` in `lum`, the thresholds `0.5`, `0.25`,
the soft-light polynomial `16, 12, 4`; `2`, `3`, `4` are axis numbers and slice bounds) -/
def expectedNumericConstants : List (String × List String) :=
  [("normal", []),
   ("multiply", []),
   ("screen", []),
   ("overlay", []),
   ("darken", []),
   ("lighten", []),
   ("color_dodge", ["0", "1e-09", "1", "1.0"]),
   ("color_burn", ["0", "1e-09", "1", "1.0"]),
   ("linear_dodge", ["1"]),
   ("linear_burn", ["0", "1"]),
   ("hard_light", ["0.5", "1", "2"]),
   ("soft_light", ["0.25", "0.5", "1", "2", "4", "12", "16"]),
   ("vivid_light", ["0.5", "1", "2"]),
   ("linear_light", ["0.5", "1", "2"]),
   ("pin_light", ["0.5", "1", "2"]),
   ("difference", []),
   ("exclusion", ["2"]),
   ("subtract", ["0"]),
   ("hard_mix", ["0.999999", "1"]),
   ("divide", ["1e-09", "1"]),
   ("non_separable", ["2", "3", "4"]),
   ("_cmyk2rgb", ["1.0", "2", "3"]),
   ("_rgb2cmy", ["0", "1e-09", "1", "1.0", "2", "3"]),
   ("hue", []),
   ("saturation", []),
   ("color", []),
   ("luminosity", []),
   ("darker_color", ["2", "3"]),
   ("lighter_color", ["2", "3"]),
   ("dissolve", []),
   ("_lum", ["0", "0.11", "0.3", "0.59", "1", "2", "3"]),
   ("_set_lum", []),
   ("_clip_color", ["0", "0.0", "1e-09", "1", "1.0", "2", "3"]),
   ("_sat", ["2"]),
   ("_set_sat", ["0", "1e-09", "2", "3"])]

/-- a separable mode by the name of its Python function (`dissolve` = `normal`) -/
def separable (sq : Rat → Rat) : String → Option (Rat → Rat → Rat)
  | "normal" => some normal | "dissolve" => some normal
  | "multiply" => some multiply | "screen" => some screen | "overlay" => some overlay
  | "darken" => some darken | "lighten" => some lighten
  | "color_dodge" => some colorDodge | "color_burn" => some colorBurn
  | "linear_dodge" => some linearDodge | "linear_burn" => some linearBurn
  | "hard_light" => some hardLight | "soft_light" => some (softLight sq)
  | "vivid_light" => some vividLight | "linear_light" => some linearLight
  | "pin_light" => some pinLight | "hard_mix" => some hardMix | "divide" => some divide
  | "difference" => some difference | "exclusion" => some exclusion | "subtract" => some subtract
  | _ => none

def nonSeparable : String → Option (RGB → RGB → RGB)
  | "hue" => some hue | "saturation" => some saturation | "color" => some color
  | "luminosity" => some luminosity | "darker_color" => some darkerColor
  | "lighter_color" => some lighterColor
  | _ => none

/-- what `BLEND_FUNC` returns for a non-separable mode, on 4-channel input: the function wrapped
with its own `k` -/
def nonSeparableCMYK (fn : String) : Option (CMYK → CMYK → CMYK) :=
  match kSelOf fn, nonSeparable fn with
  | some k, some f => some (nonSepCMYK k f)
  | _, _ => none

/-- denominators evaluated, by function name (empty for the division-free modes) -/
def separableDens : String → Rat → Rat → List Rat
  | "color_dodge" => colorDodgeDens | "color_burn" => colorBurnDens
  | "vivid_light" => vividLightDens | "divide" => divideDens
  | _ => fun _ _ => []

def nonSeparableDens : String → RGB → RGB → List Rat
  | "hue" => hueDens | "saturation" => saturationDens | "color" => colorDens
  | "luminosity" => luminosityDens
  | _ => fun _ _ => []

/-! ## Spec: the published formulas

Transcribed from the documents, not from the code.  `B(cb, cs)` is the blend function of
PDF 1.7 §11.3.5 (Tables 136, 137) and W3C Compositing and Blending Level 1 §10; the
Photoshop-only modes follow Adobe's descriptions (Photoshop help "Blending mode descriptions")
in the form they are usually written as formulas. -/
namespace Spec

def smin (a b : Rat) : Rat := if b < a then b else a
def smax (a b : Rat) : Rat := if a < b then b else a

/-- Normal: `B(cb, cs) = cs` -/
def normal (_cb cs : Rat) : Rat := cs
/-- Multiply: `B(cb, cs) = cb × cs` -/
def multiply (cb cs : Rat) : Rat := cb * cs
/-- Screen: `B(cb, cs) = 1 − [(1 − cb) × (1 − cs)]` (PDF 1.7 Table 136) -/
def screen (cb cs : Rat) : Rat := 1 - (1 - cb) * (1 - cs)
/-- HardLight: `Multiply(cb, 2 cs)` if `cs ≤ 0.5`, `Screen(cb, 2 cs − 1)` if `cs > 0.5` -/
def hardLight (cb cs : Rat) : Rat :=
  if cs ≤ 1 / 2 then multiply cb (2 * cs) else screen cb (2 * cs - 1)
/-- Overlay: `B(cb, cs) = HardLight(cs, cb)` -/
def overlay (cb cs : Rat) : Rat := hardLight cs cb
/-- Darken: `min(cb, cs)` -/
def darken (cb cs : Rat) : Rat := smin cb cs
/-- Lighten: `max(cb, cs)` -/
def lighten (cb cs : Rat) : Rat := smax cb cs
/-- ColorDodge (W3C; PDF 2.0 agrees; PDF 1.7 Table 136 omits the `cb = 0` case and so differs at
the single point `cb = 0, cs = 1`): `0` if `cb = 0`; else `1` if `cs = 1`; else `min(1, cb / (1 − cs))` -/
def colorDodge (cb cs : Rat) : Rat :=
  if cb = 0 then 0 else if cs = 1 then 1 else smin 1 (cb / (1 - cs))
/-- ColorBurn (W3C): `1` if `cb = 1`; else `0` if `cs = 0`; else `1 − min(1, (1 − cb) / cs)` -/
def colorBurn (cb cs : Rat) : Rat :=
  if cb = 1 then 1 else if cs = 0 then 0 else 1 - smin 1 ((1 - cb) / cs)
/-- SoftLight: `cb − (1 − 2 cs) cb (1 − cb)` if `cs ≤ 0.5`; `cb + (2 cs − 1)(D(cb) − cb)` if
`cs > 0.5`, where `D(x) = ((16 x − 12) x + 4) x` if `x ≤ 0.25`, `√x` if `x > 0.25` -/
def softLightD (sq : Rat → Rat) (x : Rat) : Rat :=
  if x ≤ 1 / 4 then ((16 * x - 12) * x + 4) * x else sq x
def softLight (sq : Rat → Rat) (cb cs : Rat) : Rat :=
  if cs ≤ 1 / 2 then cb - (1 - 2 * cs) * cb * (1 - cb)
  else cb + (2 * cs - 1) * (softLightD sq cb - cb)
/-- Difference: `|cb − cs|` -/
def difference (cb cs : Rat) : Rat := if cb < cs then cs - cb else cb - cs
/-- Exclusion: `cb + cs − 2 cb cs` -/
def exclusion (cb cs : Rat) : Rat := cb + cs - 2 * cb * cs
/-- Linear Dodge (Add): the sum, clipped at white -/
def linearDodge (cb cs : Rat) : Rat := smin 1 (cb + cs)
/-- Linear Burn: `cb + cs − 1`, clipped at black -/
def linearBurn (cb cs : Rat) : Rat := smax 0 (cb + cs - 1)
/-- Subtract: `cb − cs`, clipped at black -/
def subtract (cb cs : Rat) : Rat := smax 0 (cb - cs)
/-- Divide: `cb / cs` clipped at white; dividing a positive value by black gives white;
`0 / 0` is left undefined by the description (here: 0; excluded from the comparison) -/
def divide (cb cs : Rat) : Rat :=
  if cs = 0 then (if cb = 0 then 0 else 1) else smin 1 (cb / cs)
/-- Vivid Light: ColorBurn with `2 cs` for a source darker than 50 % grey, ColorDodge with
`2 (cs − 0.5)` for a lighter one -/
def vividLight (cb cs : Rat) : Rat :=
  if cs ≤ 1 / 2 then colorBurn cb (2 * cs) else colorDodge cb (2 * (cs - 1 / 2))
/-- Linear Light: `cb + 2 cs − 1`, clipped to `[0, 1]` -/
def linearLight (cb cs : Rat) : Rat := smax 0 (smin 1 (cb + 2 * cs - 1))
/-- Pin Light: `min(cb, 2 cs)` for a source darker than 50 % grey, `max(cb, 2 cs − 1)` otherwise -/
def pinLight (cb cs : Rat) : Rat :=
  if cs ≤ 1 / 2 then smin cb (2 * cs) else smax cb (2 * (cs - 1 / 2))
/-- Hard Mix: "if the resulting sum for a channel is 255 or greater, it receives a value of 255;
if less than 255, a value of 0" -/
def hardMix (cb cs : Rat) : Rat := if cb + cs < 1 then 0 else 1

/-- `Lum(C) = 0.3 Cred + 0.59 Cgreen + 0.11 Cblue` -/
def lum (c : RGB) : Rat := (30 * c.r + 59 * c.g + 11 * c.b) / 100
def cmin (c : RGB) : Rat := smin c.r (smin c.g c.b)
def cmax (c : RGB) : Rat := smax c.r (smax c.g c.b)
/-- `ClipColor(C)`: `l = Lum(C), n = min, x = max; if n < 0: C = l + ((C − l) l)/(l − n);
if x > 1: C = l + ((C − l)(1 − l))/(x − l)` -/
def clipColor (c : RGB) : RGB :=
  let l := lum c
  let n := cmin c
  let x := cmax c
  let c1 := if n < 0 then c.map (fun v => l + ((v - l) * l) / (l - n)) else c
  if x > 1 then c1.map (fun v => l + ((v - l) * (1 - l)) / (x - l)) else c1
/-- `SetLum(C, l) = ClipColor(C + (l − Lum(C)))` -/
def setLum (c : RGB) (l : Rat) : RGB :=
  clipColor (c.map (fun v => v + (l - lum c)))
/-- `Sat(C) = max − min` -/
def sat (c : RGB) : Rat := cmax c - cmin c
/-- `SetSat(C, s)`: if `Cmax > Cmin`: `Cmid = ((Cmid − Cmin) s)/(Cmax − Cmin)`, `Cmax = s`; else
`Cmid = Cmax = 0`; `Cmin = 0`.  Written per value (the three cases of the published procedure
are the values `Cmax`, `Cmid`, `Cmin` of one formula, so ties need no convention). -/
def setSat (c : RGB) (s : Rat) : RGB :=
  let n := cmin c
  let x := cmax c
  c.map (fun v => if n < x then ((v - n) * s) / (x - n) else 0)
/-- Hue: `SetLum(SetSat(Cs, Sat(Cb)), Lum(Cb))` -/
def hue (cb cs : RGB) : RGB := setLum (setSat cs (sat cb)) (lum cb)
/-- Saturation: `SetLum(SetSat(Cb, Sat(Cs)), Lum(Cb))` -/
def saturation (cb cs : RGB) : RGB := setLum (setSat cb (sat cs)) (lum cb)
/-- Color: `SetLum(Cs, Lum(Cb))` -/
def color (cb cs : RGB) : RGB := setLum cs (lum cb)
/-- Luminosity: `SetLum(Cb, Lum(Cs))` -/
def luminosity (cb cs : RGB) : RGB := setLum cb (lum cs)
/-- Darker Color: the whole colour with the lower value is kept (no new colour is produced);
"value" read as luminosity `Lum`, which is what Photoshop does (Adobe's help text says "the total
of all channel values"; the two readings are compared by the harness and reported) -/
def darkerColor (cb cs : RGB) : RGB := if lum cb ≤ lum cs then cb else cs
/-- Lighter Color: the whole colour with the higher value -/
def lighterColor (cb cs : RGB) : RGB := if lum cs ≤ lum cb then cb else cs

end Spec

/-- the published formula by the name of the Python function it is compared with -/
def specSeparable (sq : Rat → Rat) : String → Option (Rat → Rat → Rat)
  | "normal" => some Spec.normal | "dissolve" => some Spec.normal
  | "multiply" => some Spec.multiply | "screen" => some Spec.screen | "overlay" => some Spec.overlay
  | "darken" => some Spec.darken | "lighten" => some Spec.lighten
  | "color_dodge" => some Spec.colorDodge | "color_burn" => some Spec.colorBurn
  | "linear_dodge" => some Spec.linearDodge | "linear_burn" => some Spec.linearBurn
  | "hard_light" => some Spec.hardLight | "soft_light" => some (Spec.softLight sq)
  | "vivid_light" => some Spec.vividLight | "linear_light" => some Spec.linearLight
  | "pin_light" => some Spec.pinLight | "hard_mix" => some Spec.hardMix | "divide" => some Spec.divide
  | "difference" => some Spec.difference | "exclusion" => some Spec.exclusion
  | "subtract" => some Spec.subtract
  | _ => none

def specNonSeparable : String → Option (RGB → RGB → RGB)
  | "hue" => some Spec.hue | "saturation" => some Spec.saturation | "color" => some Spec.color
  | "luminosity" => some Spec.luminosity | "darker_color" => some Spec.darkerColor
  | "lighter_color" => some Spec.lighterColor
  | _ => none

end PsdVerif.Blend
