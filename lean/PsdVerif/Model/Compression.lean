/-
Model of `psd_tools/compression/__init__.py` (with the `be_array_*` helpers of
`psd_tools/utils.py` it uses): RLE row tables around the PackBits codec of
`Model/Rle.lean`, delta prediction on big-endian words, the 32-bit byte
shuffle, and the `compress`/`decompress` dispatch. zlib is a parameter.

Byte strings are `List UInt8`; the Python `array.array` objects that are
mutated by index are `Array`s (so that the compiled driver is linear).
Python exceptions are values.

Core Lean only.
-/
import PsdVerif.Model.Rle

namespace PsdVerif.Compression
open PsdVerif PsdVerif.Rle

abbrev BList := List UInt8

/-- `psd_tools.constants.Compression`. -/
inductive Codec where
  | raw | rle | zip | zipPred
  deriving DecidableEq, Repr

/-- zlib as a parameter. `inflate` fails (`zlib.error`) with `none`. -/
structure ZCodec where
  deflate : BList → BList
  inflate : BList → Option BList

/-- The recorded assumption on zlib. -/
def ZCodec.Lawful (z : ZCodec) : Prop := ∀ x, z.inflate (z.deflate x) = some x

/-! ### Big-endian arrays (`array.array('H'|'I')`, `write_be_array`, `read_be_array`) -/

/-- Item size of `("H", "I")[version - 1]`: `version = 0` indexes `-1`, i.e. `"I"`;
`version ≥ 3` raises `IndexError`. -/
def tableItem (version : Nat) : Except Err Nat :=
  if version = 1 then .ok 2
  else if version = 2 ∨ version = 0 then .ok 4
  else .error .indexError

/-- `k` big-endian bytes of `n` (low `8k` bits). -/
def beBytes : Nat → Nat → BList
  | 0, _ => []
  | k + 1, n => beBytes k (n / 256) ++ [UInt8.ofNat (n % 256)]

def beVal (bs : BList) : Nat := bs.foldl (fun acc b => acc * 256 + b.toNat) 0

/-- `n` items of `k` bytes each, big-endian. -/
def readVals (k : Nat) : Nat → BList → List Nat
  | 0, _ => []
  | n + 1, bs => beVal (bs.take k) :: readVals k n (bs.drop k)

/-! ### RLE with a row table -/

/-- Bytes per row (after the fix of this branch: rounded up to whole bytes). -/
def rowSize (w depth : Nat) : Nat := (w * depth + 7) / 8

/-- `[rle_impl.encode(fp.read(row_size)) for _ in range(height)]`: `fp.read` returns what
is left when the stream is short. -/
def encRows (rs : Nat) : Nat → BList → List BList
  | 0, _ => []
  | h + 1, rest => encPy (rest.take rs).toArray :: encRows rs h (rest.drop rs)

/-- `encode_rle`. `array.array(fmt, map(len, rows))` raises `OverflowError` when a row
length does not fit the item. -/
def encodeRle (d : BList) (w h depth version : Nat) : Except Err BList :=
  let rows := encRows (rowSize w depth) h d
  match tableItem version with
  | .error e => .error e
  | .ok k =>
    if rows.any (fun r => decide (r.length ≥ 256 ^ k)) then .error .overflowError
    else .ok (rows.flatMap (fun r => beBytes k r.length) ++ rows.flatten)

/-- `b"".join(rle_impl.decode(fp.read(count), row_size) for count in bytes_counts)`. -/
def decRows (rs : Nat) : List Nat → BList → Except Err BList
  | [], _ => .ok []
  | c :: cs, rest =>
    match decPy (rest.take c).toArray rs with
    | .error e => .error e
    | .ok row =>
      match decRows rs cs (rest.drop c) with
      | .error e => .error e
      | .ok tail => .ok (row ++ tail)

/-- `decode_rle`. `read_be_array` reads at most `height * itemsize` bytes;
`array.frombytes` raises `ValueError` unless it got whole items, and yields fewer
counts than `height` on a short stream. -/
def decodeRle (data : BList) (w h depth version : Nat) : Except Err BList :=
  match tableItem version with
  | .error e => .error e
  | .ok k =>
    let tbl := data.take (h * k)
    if tbl.length % k ≠ 0 then .error .valueError
    else decRows (rowSize w depth) (readVals k (tbl.length / k) tbl) (data.drop (h * k))

/-! ### Delta prediction -/

/-- `arr[pos + 1] = (arr[pos + 1] - arr[pos]) % mod` (Python `%`: non-negative). -/
def encStep (m : Nat) (a : Array Nat) (pos : Nat) : Except Err (Array Nat) :=
  match a[pos + 1]?, a[pos]? with
  | some q, some p => .ok (a.setIfInBounds (pos + 1) ((q + (m - p % m)) % m))
  | _, _ => .error .indexError

/-- `arr[pos + 1] = (arr[pos + 1] + arr[pos]) % mod`. -/
def decStep (m : Nat) (a : Array Nat) (pos : Nat) : Except Err (Array Nat) :=
  match a[pos + 1]?, a[pos]? with
  | some q, some p => .ok (a.setIfInBounds (pos + 1) ((q + p) % m))
  | _, _ => .error .indexError

/-- `for y in reversed(range(h)): for x in reversed(range(w - 1)): pos = y*w + x`. -/
def encPositions (w h : Nat) : List Nat :=
  (List.range h).reverse.flatMap fun y => (List.range (w - 1)).reverse.map fun x => y * w + x

/-- `for y in range(h): for x in range(w - 1): pos = y*w + x`. -/
def decPositions (w h : Nat) : List Nat :=
  (List.range h).flatMap fun y => (List.range (w - 1)).map fun x => y * w + x

/-- `_delta_encode` after the initial `byteswap` (the array holds big-endian values). -/
def deltaEncode (m w h : Nat) (a : Array Nat) : Except Err (Array Nat) :=
  (encPositions w h).foldlM (encStep m) a

/-- `_delta_decode` before the final `byteswap`. -/
def deltaDecode (m w h : Nat) (a : Array Nat) : Except Err (Array Nat) :=
  (decPositions w h).foldlM (decStep m) a

/-! ### 32-bit byte shuffle -/

/-- `_shuffled_order`: `range(0, rowsize*h, rowsize)` with `rowsize = 0` raises `ValueError`
at the first `next` (whatever `h`). -/
def shuffledOrder (w h : Nat) : Except Err (List Nat) :=
  if w = 0 then .error .valueError
  else .ok ((List.range h).flatMap fun i => (List.range w).flatMap fun p =>
    (List.range 4).map fun k => i * (4 * w) + p + k * w)

/-- `for src, dst in enumerate(order): arr[dst] = bytes_array[src]` from `src = n`. -/
def scatterAux (src : Array UInt8) : List Nat → Nat → Array UInt8 → Except Err (Array UInt8)
  | [], _, arr => .ok arr
  | dst :: rest, n, arr =>
    match src[n]? with
    | none => .error .indexError
    | some v =>
      if dst < arr.size then scatterAux src rest (n + 1) (arr.setIfInBounds dst v)
      else .error .indexError

/-- `for dst, src in enumerate(order): arr[dst] = bytes_array[src]` from `dst = n`. -/
def gatherAux (src : Array UInt8) : List Nat → Nat → Array UInt8 → Except Err (Array UInt8)
  | [], _, arr => .ok arr
  | s :: rest, n, arr =>
    match src[s]? with
    | none => .error .indexError
    | some v =>
      if n < arr.size then gatherAux src rest (n + 1) (arr.setIfInBounds n v)
      else .error .indexError

/-- `_shuffle_byte_order`. -/
def shuffle (a : Array UInt8) (w h : Nat) : Except Err (Array UInt8) :=
  match shuffledOrder w h with
  | .error e => .error e
  | .ok order => scatterAux a order 0 a

/-- `_restore_byte_order`. -/
def restore (a : Array UInt8) (w h : Nat) : Except Err (Array UInt8) :=
  match shuffledOrder w h with
  | .error e => .error e
  | .ok order => gatherAux a order 0 a

/-! ### Prediction codec -/

/-- `array.array("H", data)` followed by `byteswap()` on a little-endian host: big-endian
16-bit values; odd length raises `ValueError`. -/
def wordsOfBytes : BList → Except Err (List Nat)
  | [] => .ok []
  | [_] => .error .valueError
  | hi :: lo :: t =>
    match wordsOfBytes t with
    | .error e => .error e
    | .ok ws => .ok ((hi.toNat * 256 + lo.toNat) :: ws)

/-- big-endian bytes of 16-bit values. -/
def bytesOfWords (a : List Nat) : BList :=
  a.flatMap fun v => [UInt8.ofNat (v / 256), UInt8.ofNat (v % 256)]

def natsOfBytes (d : BList) : Array Nat := (d.map (·.toNat)).toArray
def bytesOfNats (a : Array Nat) : BList := a.toList.map UInt8.ofNat

def encodePrediction (d : BList) (w h depth : Nat) : Except Err BList :=
  if depth = 8 then
    match deltaEncode 256 w h (natsOfBytes d) with
    | .error e => .error e
    | .ok a => .ok (bytesOfNats a)
  else if depth = 16 then
    match wordsOfBytes d with
    | .error e => .error e
    | .ok ws =>
      match deltaEncode 65536 w h ws.toArray with
      | .error e => .error e
      | .ok a => .ok (bytesOfWords a.toList)
  else if depth = 32 then
    match shuffle d.toArray w h with
    | .error e => .error e
    | .ok s =>
      match deltaEncode 256 (w * 4) h (natsOfBytes s.toList) with
      | .error e => .error e
      | .ok a => .ok (bytesOfNats a)
  else .error .valueError

def decodePrediction (d : BList) (w h depth : Nat) : Except Err BList :=
  if depth = 8 then
    match deltaDecode 256 w h (natsOfBytes d) with
    | .error e => .error e
    | .ok a => .ok (bytesOfNats a)
  else if depth = 16 then
    match wordsOfBytes d with
    | .error e => .error e
    | .ok ws =>
      match deltaDecode 65536 w h ws.toArray with
      | .error e => .error e
      | .ok a => .ok (bytesOfWords a.toList)
  else if depth = 32 then
    match deltaDecode 256 (w * 4) h (natsOfBytes d) with
    | .error e => .error e
    | .ok a =>
      match restore (bytesOfNats a).toArray w h with
      | .error e => .error e
      | .ok r => .ok r.toList
  else .error .valueError

/-! ### `compress` / `decompress` -/

def compress (z : ZCodec) (d : BList) (c : Codec) (w h depth version : Nat) : Except Err BList :=
  match c with
  | .raw => .ok d
  | .rle => encodeRle d w h depth version
  | .zip => .ok (z.deflate d)
  | .zipPred =>
    match encodePrediction d w h depth with
    | .error e => .error e
    | .ok e => .ok (z.deflate e)

/-- `_inflate(data, length)`: zlib through a `decompressobj` that stops at the expected size; a stream holding more
is rejected with `ValueError` instead of being inflated (repo 72f34ff: a few KB could inflate to gigabytes). -/
def inflateBounded (z : ZCodec) (data : BList) (length : Nat) : Except Err BList :=
  match z.inflate data with
  | none => .error .other
  | some r => if length < r.length then .error .valueError else .ok r

/-- the value computed by the codec branch of `decompress`. -/
def decompressBody (z : ZCodec) (data : BList) (c : Codec) (w h depth version : Nat) :
    Except Err BList :=
  match c with
  | .raw => .ok (data.take (w * h * max 1 (depth / 8)))
  | .rle => decodeRle data w h depth version
  | .zip => inflateBounded z data (w * h * max 1 (depth / 8))
  | .zipPred =>
    match inflateBounded z data (w * h * max 1 (depth / 8)) with
    | .error e => .error e
    | .ok r => decodePrediction r w h depth

/-- `decompress`: for `depth ≥ 8` the result length is asserted. -/
def decompress (z : ZCodec) (data : BList) (c : Codec) (w h depth version : Nat) :
    Except Err BList :=
  match decompressBody z data c w h depth version with
  | .error e => .error e
  | .ok r =>
    if depth ≥ 8 then
      if r.length = w * h * max 1 (depth / 8) then .ok r else .error .assertionError
    else .ok r

/-! ### Containers -/

/-- `ChannelData.set_data` / `get_data`. -/
def channelSet (z : ZCodec) (d : BList) (c : Codec) (w h depth version : Nat) :=
  compress z d c w h depth version
def channelGet (z : ZCodec) (data : BList) (c : Codec) (w h depth version : Nat) :=
  decompress z data c w h depth version

/-- `[f.read(plane_size) for _ in range(channels)]`. -/
def splitPlanes (ps : Nat) : Nat → BList → List BList
  | 0, _ => []
  | n + 1, rest => rest.take ps :: splitPlanes ps n (rest.drop ps)

/-- `ImageData.set_data(data, header)`: planes joined, geometry `w × (h * channels)`. -/
def imageSet (z : ZCodec) (planes : List BList) (c : Codec) (w h channels depth version : Nat) :=
  compress z planes.flatten c w (h * channels) depth version

/-- `ImageData.get_data(header, split=True)`; `len(data) // channels` raises
`ZeroDivisionError` (`other`) without channels. -/
def imageGet (z : ZCodec) (data : BList) (c : Codec) (w h channels depth version : Nat) :
    Except Err (List BList) :=
  match decompress z data c w (h * channels) depth version with
  | .error e => .error e
  | .ok d => if channels = 0 then .error .other else .ok (splitPlanes (d.length / channels) channels d)

/-- `VirtualMemoryArray.set_data(size, data, depth, compression)` stores
`rectangle = (0, 0, size[1], size[0])`; returns the stored bytes and rectangle. -/
def vmaSet (z : ZCodec) (d : BList) (c : Codec) (sw sh depth : Nat) :
    Except Err (BList × (Nat × Nat × Nat × Nat)) :=
  match compress z d c sw sh depth 1 with
  | .error e => .error e
  | .ok e => .ok (e, (0, 0, sh, sw))

/-- `VirtualMemoryArray.get_data()`: `width, height = rectangle[3], rectangle[2]`, version 1. -/
def vmaGet (z : ZCodec) (data : BList) (c : Codec) (rect : Nat × Nat × Nat × Nat) (depth : Nat) :=
  decompress z data c rect.2.2.2 rect.2.2.1 depth 1

end PsdVerif.Compression
