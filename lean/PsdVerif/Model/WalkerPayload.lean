/-
C03 (payload interiors) — independent navigators of the *interiors* of tagged-block and image-resource payloads,
written from the Adobe Photoshop File Formats Specification ("Additional Layer Information", "Image Resource
Blocks", "Descriptor structure", "Path resource format", "Effects Layer info", "Patterns", "Linked Layer",
"Filter Effects", "Type tool object setting", "Slices resource format"), NOT from psd-tools' readers. Like
Model/Walker.lean they read only signatures, keys, versions, length prefixes, counts and alignment rules; they
return the regions `(offset, length, kind)` they visited — every length / count field they follow has to land
exactly where the enclosing length says — or where they fell off.

A payload walker (`PW`) works on a byte string `d` from a cursor `p`; "to the end" means `d.length`. A declared
length opens a sub-stream (`pSub`): the inner walker runs on exactly the declared bytes and must consume them
(up to a stated number of filler bytes); its regions are shifted back into the coordinates of the enclosing data.

Deviations from the Adobe text, recorded (each one is evidenced by Photoshop-written fixtures in tests/psd_files;
harness/c03_payload.py re-checks the evidence on the fixtures every run):
* D1 descriptor OSTypes `ObAr` (object array: item count, class structure, items), `UnFl` (unit floats: unit,
  count, doubles), `Pth ` (length + data, like `alis`) and `Clss` used as a *value* are not in the published list of
  OSType keys; layouts taken from Photoshop-written files (`ObAr`/`UnFl`: placed-layer warps, `Pth `: `lnkE`).
* D2 payloads of tagged blocks end with up to 3 bytes of filler inside the declared length (the specification says
  "rounded up to an even byte count"; Photoshop rounds most record-level payloads up to a multiple of 4).
* D3 `Patt`/`Pat2`/`Pat3`: an indexed-colour pattern has 4 more bytes after the 768-byte colour table (observed);
  each pattern's length does not count its filler to a multiple of 4.
* D4 linked layers (`lnkD`/`lnk2`/`lnk3`/`lnkE`): fields after the data for versions 5-7 (child document id, asset
  modification time, lock state) and the data of an external file entry are not described; taken from files.
  `liFA` (alias) entries carry 8 zero bytes.
* D5 type tool (`TySh`): the bounding box after the warp descriptor is four 4-byte integers in every
  Photoshop-written fixture; the text says "4 * 8".
* D6 slices: a per-slice descriptor (Photoshop 7.0+) is present only sometimes and the format has no marker for it;
  the walker takes it when the next four bytes are the descriptor version 16 *and* a descriptor walks from there.
* D7 filter effects (`FXid`/`FEid`): the whole list is `version`, then 8-byte-length items each padded to 4.
* D8 `shmd` metadata items: signature, key, copy flag + 3 filler, 4-byte length, data — the data is not padded.

The walkers do not judge *values* (a version number, an enum member): only what decides where the next field is.

Core Lean only.
-/
import PsdVerif.Model.Walker

namespace PsdVerif.WalkerPayload
open PsdVerif PsdVerif.Codec PsdVerif.Walker

/-- a payload walker: regions visited and the cursor after them -/
abbrev PW := WR (List Region)

def shiftR (k : Nat) (r : Region) : Region := ⟨r.offset + k, r.length, r.kind⟩

/-! ### combinators -/

def pOk : PW := fun _ p => .ok ([], p)

def pFail (sect reason : String) : PW := fun _ p => .error ⟨sect, p, reason⟩

def pSeq (a b : PW) : PW := fun d p =>
  match a d p with
  | .error e => .error e
  | .ok (r1, p1) =>
    match b d p1 with
    | .error e => .error e
    | .ok (r2, p2) => .ok (r1 ++ r2, p2)

infixr:60 " ⨾ " => pSeq

/-- step over `n` bytes that must be there -/
def pSkip (sect : String) (n : Nat) : PW := fun d p =>
  match skip sect n d p with
  | .error e => .error e
  | .ok (_, q) => .ok ([], q)

/-- read an unsigned big-endian field of `w` bytes and go on with its value -/
def pU (sect : String) (w : Nat) (k : Nat → PW) : PW := fun d p =>
  match wU sect w d p with
  | .error e => .error e
  | .ok (n, q) => k n d q

/-- read `n` bytes and go on with them (signatures, keys) -/
def pB (sect : String) (n : Nat) (k : B → PW) : PW := fun d p =>
  match wBytes sect n d p with
  | .error e => .error e
  | .ok (b, q) => k b d q

def pCheck (sect reason : String) (c : Bool) : PW := fun _ p =>
  if c then .ok ([], p) else .error ⟨sect, p, reason⟩

/-- report what `w` covered as one region, before the regions `w` reports itself -/
def pRegion (kind : String) (w : PW) : PW := fun d p =>
  match w d p with
  | .error e => .error e
  | .ok (rs, q) => .ok (⟨p, q - p, kind⟩ :: rs, q)

/-- `n` items one after the other -/
def pRepeat (w : PW) : Nat → PW
  | 0 => fun _ p => .ok ([], p)
  | n + 1 => fun d p =>
    match w d p with
    | .error e => .error e
    | .ok (r1, p1) =>
      match pRepeat w n d p1 with
      | .error e => .error e
      | .ok (r2, p2) => .ok (r1 ++ r2, p2)

/-- a count field of `cw` bytes, then that many items (every item has at least one byte: a count larger than the
bytes that are left is rejected at once) -/
def pCounted (sect : String) (cw : Nat) (item : PW) : PW :=
  pU sect cw fun n => fun d p =>
    if n ≤ d.length - p then pRepeat item n d p
    else .error ⟨sect, p, "count exceeds the bytes that are left"⟩

/-- items up to the end of the data; at most `slack` bytes may remain (`fuel`: every item consumes something) -/
def pMany (sect : String) (slack : Nat) (item : PW) : Nat → PW
  | 0 => fun _ p => .error ⟨sect, p, "no progress"⟩
  | fuel + 1 => fun d p =>
    if d.length ≤ p + slack then .ok ([], p)
    else
      match item d p with
      | .error e => .error e
      | .ok (r1, p1) =>
        if p1 ≤ p then .error ⟨sect, p, "no progress"⟩
        else
          match pMany sect slack item fuel d p1 with
          | .error e => .error e
          | .ok (r2, p2) => .ok (r1 ++ r2, p2)

def pToEnd (sect : String) (slack : Nat) (item : PW) : PW := fun d p => pMany sect slack item (d.length + 1) d p

/-- everything that is left -/
def pRest : PW := fun d p => if p ≤ d.length then .ok ([], d.length) else .error ⟨"payload", p, "cursor past the end"⟩

/-- a declared length `n` opens a sub-stream: `inner` runs on exactly those `n` bytes, from 0, and has to end at most
`slack` bytes before their end; its regions come back in the coordinates of `d` -/
def pSub (sect : String) (n slack : Nat) (inner : PW) : PW := fun d p =>
  if p + n ≤ d.length then
    match inner ((d.drop p).take n) 0 with
    | .error e => .error ⟨e.sect, e.pos + p, e.reason⟩
    | .ok (rs, q) =>
      if q ≤ n ∧ n ≤ q + slack then .ok (rs.map (shiftR p), p + n)
      else .error ⟨sect, p + q, "the structure inside does not end where the declared length says"⟩
  else .error ⟨sect, p, "declared length runs past the end of the data"⟩

/-- a length field of `lw` bytes, the sub-stream it declares, then filler up to a multiple of `pad` (the length does not
count the filler) -/
def pLenBlock (sect : String) (lw pad slack : Nat) (inner : PW) : PW :=
  pU sect lw fun n => pSub sect n slack inner ⨾ pSkip sect (padAmount n pad)

/-! ### strings -/

/-- "Unicode string": a 4-byte count of UTF-16 code units, then two bytes per unit -/
def pUStr : PW := pRegion "unicode-string" (pU "unicode-string" 4 fun n => pSkip "unicode-string" (2 * n))

/-- "Pascal string": a length byte, the bytes, filler so that the whole is a multiple of `pad` -/
def pPascal (pad : Nat) : PW :=
  pRegion "pascal-string" (pU "pascal-string" 1 fun n => pSkip "pascal-string" (n + padAmount (1 + n) pad))

/-! ### the descriptor structure -/

namespace OS
def obj : B := /- "obj " -/ [111, 98, 106, 32]
def Objc : B := [79, 98, 106, 99]
def VlLs : B := [86, 108, 76, 115]
def doub : B := [100, 111, 117, 98]
def UntF : B := [85, 110, 116, 70]
def UnFl : B := [85, 110, 70, 108]
def TEXT : B := [84, 69, 88, 84]
def enum : B := [101, 110, 117, 109]
def long : B := [108, 111, 110, 103]
def comp : B := [99, 111, 109, 112]
def bool : B := [98, 111, 111, 108]
def GlbO : B := [71, 108, 98, 79]
def type : B := [116, 121, 112, 101]
def GlbC : B := [71, 108, 98, 67]
def alis : B := [97, 108, 105, 115]
def tdta : B := [116, 100, 116, 97]
def ObAr : B := [79, 98, 65, 114]
def Pth : B := /- "Pth " -/ [80, 116, 104, 32]
def prop : B := [112, 114, 111, 112]
def Clss : B := [67, 108, 115, 115]
def Enmr : B := [69, 110, 109, 114]
def rele : B := [114, 101, 108, 101]
def Idnt : B := [73, 100, 110, 116]
def indx : B := [105, 110, 100, 120]
def name : B := [110, 97, 109, 101]
end OS

/-- the layouts of the descriptor structure ("OSType key" table and the reference item forms) -/
inductive Shape where
  | fixed (n : Nat)        -- long / Idnt / indx 4, comp / doub 8, bool 1, UntF 4 + 8
  | unitFloats             -- UnFl: unit, count, count doubles                           (D1)
  | text                   -- TEXT: unicode string
  | enumerated             -- enum: type id, enum id
  | enumRef                -- Enmr: name, class id, type id, enum id
  | klass                  -- type / GlbC / Clss: name, class id
  | property               -- prop: name, class id, key id
  | nameRef                -- name: name, class id, unicode string
  | offset                 -- rele: name, class id, 4-byte value
  | raw                    -- tdta / alis / "Pth ": 4-byte length, data
  | list                   -- VlLs / "obj ": count, (OSType, value) items
  | object                 -- Objc / GlbO: name, class id, count, (key, OSType, value) items
  | objectArray            -- ObAr: 4 bytes, then as an object                             (D1)
  deriving DecidableEq, Repr

def shapeOf (t : B) : Option Shape :=
  if t = OS.long ∨ t = OS.Idnt ∨ t = OS.indx then some (.fixed 4)
  else if t = OS.comp ∨ t = OS.doub then some (.fixed 8)
  else if t = OS.bool then some (.fixed 1)
  else if t = OS.UntF then some (.fixed 12)
  else if t = OS.UnFl then some .unitFloats
  else if t = OS.TEXT then some .text
  else if t = OS.enum then some .enumerated
  else if t = OS.Enmr then some .enumRef
  else if t = OS.type ∨ t = OS.GlbC ∨ t = OS.Clss then some .klass
  else if t = OS.prop then some .property
  else if t = OS.name then some .nameRef
  else if t = OS.rele then some .offset
  else if t = OS.tdta ∨ t = OS.alis ∨ t = OS.Pth then some .raw
  else if t = OS.VlLs ∨ t = OS.obj then some .list
  else if t = OS.Objc ∨ t = OS.GlbO then some .object
  else if t = OS.ObAr then some .objectArray
  else none

/-- a key or class id: "4 bytes length; if zero, a 4-byte id follows, else that many bytes" -/
def pKey : PW :=
  pRegion "descriptor-key" (pU "descriptor-key" 4 fun n => pSkip "descriptor-key" (if n = 0 then 4 else n))

/-- an OSType, then the value in the layout of that OSType -/
def pTagged (val : Shape → PW) : PW :=
  pB "descriptor" 4 fun t =>
    match shapeOf t with
    | some s => val s
    | none => pFail "descriptor" "unknown OSType"

/-- "Descriptor structure": name (unicode string), class id, number of items, the items (key, OSType, value) -/
def pStruct (val : Shape → PW) : PW :=
  pRegion "descriptor" (pUStr ⨾ pKey ⨾ pCounted "descriptor" 4 (pKey ⨾ pTagged val))

def pShape (val : Shape → PW) : Shape → PW
  | .fixed n => pSkip "descriptor-value" n
  | .unitFloats => pSkip "descriptor-value" 4 ⨾ pU "descriptor-value" 4 fun n => pSkip "descriptor-value" (8 * n)
  | .text => pUStr
  | .enumerated => pKey ⨾ pKey
  | .enumRef => pUStr ⨾ pKey ⨾ pKey ⨾ pKey
  | .klass => pUStr ⨾ pKey
  | .property => pUStr ⨾ pKey ⨾ pKey
  | .nameRef => pUStr ⨾ pKey ⨾ pUStr
  | .offset => pUStr ⨾ pKey ⨾ pSkip "descriptor-value" 4
  | .raw => pRegion "descriptor-raw" (pU "descriptor-raw" 4 fun n => pSkip "descriptor-raw" n)
  | .list => pCounted "descriptor-list" 4 (pTagged val)
  | .object => pStruct val
  | .objectArray => pSkip "descriptor-value" 4 ⨾ pStruct val

/-- the value of an item; nesting is bounded by `fuel` (every level consumes at least four bytes) -/
def pVal : Nat → Shape → PW
  | 0 => fun _ => pFail "descriptor" "nested deeper than the data is long"
  | fuel + 1 => fun s => pRegion "descriptor-value" (pShape (pVal fuel) s)

/-- a descriptor structure anywhere in `d` -/
def pDescriptor : PW := fun d p => pStruct (pVal (d.length + 1)) d p

/-- "Descriptor version (= 16)", then the descriptor -/
def pDescBlock : PW := pSkip "descriptor-block" 4 ⨾ pDescriptor

/-- a version field, then "Descriptor version (= 16)" and the descriptor (`lfx2`, `lmfx`, `lfxs`, `vogk`, warps) -/
def pDescBlock2 : PW := pSkip "descriptor-block" 4 ⨾ pDescBlock

/-! ### layer info inside `Lr16` / `Lr32` / `Layr`: the body of the layer info, without its length field -/

def pLayerInfoBody (version : Nat) : PW := fun d p => do
  let (count, p1) ← wU "layer-info" 2 d p
  let ((lens, rs), p2) ← walkRecords version (i16abs count) d p1
  let (cs, p3) ← walkChannels lens.flatten d p2
  .ok (rs ++ cs, p3)

/-! ### effects layer (`lrFX`) -/

namespace FX
def sig : B := /- 8BIM -/ [56, 66, 73, 77]
def cmnS : B := [99, 109, 110, 83]
def dsdw : B := [100, 115, 100, 119]
def isdw : B := [105, 115, 100, 119]
def oglw : B := [111, 103, 108, 119]
def iglw : B := [105, 103, 108, 119]
def bevl : B := [98, 101, 118, 108]
def sofi : B := [115, 111, 102, 105]
/-- (key, version, "size of the remaining items") of the published effect layouts -/
def sizes : List (B × Nat × Nat) :=
  [(cmnS, 0, 7), (dsdw, 0, 41), (dsdw, 2, 51), (isdw, 0, 41), (isdw, 2, 51), (oglw, 0, 32), (oglw, 2, 42),
   (iglw, 0, 33), (iglw, 2, 43), (bevl, 0, 58), (bevl, 2, 78), (sofi, 2, 34)]
def keys : List B := [cmnS, dsdw, isdw, oglw, iglw, bevl, sofi]
end FX

/-- one effect: signature, key, size of the remaining items, the items (`FX.sizes` is the published table of sizes per
version; values of version fields are not this property's business, `Props/C03Payload.lean` relates the table to the
model of the writer) -/
def pEffect : PW :=
  pRegion "effect" (
    pB "effect" 4 fun sg => pCheck "effect" "signature is not 8BIM" (sg == FX.sig) ⨾
    pSkip "effect" 4 ⨾ pU "effect" 4 fun size => pSkip "effect" size)

/-- version, effect count, the effects -/
def pEffects : PW := pSkip "effects-layer" 2 ⨾ pCounted "effects-layer" 2 pEffect

/-! ### patterns, virtual memory arrays -/

/-- one virtual memory array: "is written" flag; if set, a length; if non-zero, that many bytes holding pixel depth (4),
rectangle (16), pixel depth (2), compression (1) and the data -/
def pVMA : PW :=
  pU "vma" 4 fun written =>
    if written = 0 then pOk
    else pU "vma" 4 fun n =>
      if n = 0 then pOk
      else pRegion "vma" (pCheck "vma" "array shorter than its fixed fields" (decide (23 ≤ n)) ⨾ pSkip "vma" n)

/-- "virtual memory array list": version (3), length, [rectangle (16), channel count, channel count + 2 arrays] -/
def pVMAList : PW :=
  pSkip "vma-list" 4 ⨾
    pLenBlock "vma-list" 4 1 0
      (pSkip "vma-list" 16 ⨾ pU "vma-list" 4 fun ch => fun d p =>
        if ch + 2 ≤ d.length - p then pRepeat pVMA (ch + 2) d p
        else .error ⟨"vma-list", p, "count exceeds the bytes that are left"⟩)

/-- one pattern (inside its length): version (1), image mode, point, name, id, colour table when indexed, the arrays -/
def pPatternBody : PW :=
  pSkip "pattern" 4 ⨾
    pU "pattern" 4 fun mode => pSkip "pattern" 4 ⨾ pUStr ⨾ pPascal 1 ⨾
      (if mode = 2 then pSkip "pattern" (768 + 4) else pOk) ⨾ pVMAList

/-- repeated: length, pattern, filler to a multiple of 4 -/
def pPatterns : PW := pToEnd "patterns" 3 (pRegion "pattern" (pLenBlock "pattern" 4 4 0 pPatternBody))

/-! ### linked layers -/

namespace LK
def liFD : B := [108, 105, 70, 68]
def liFE : B := [108, 105, 70, 69]
def liFA : B := [108, 105, 70, 65]
end LK

def pLinkedBody : PW :=
  pB "linked-layer" 4 fun kind =>
    pCheck "linked-layer" "type is not liFD / liFE / liFA" (kind == LK.liFD || kind == LK.liFE || kind == LK.liFA) ⨾
    pU "linked-layer" 4 fun ver => pCheck "linked-layer" "version is not 1..7" (decide (1 ≤ ver ∧ ver ≤ 7)) ⨾
    pPascal 1 ⨾ pUStr ⨾ pSkip "linked-layer" 8 ⨾
    pU "linked-layer" 8 fun size => pU "linked-layer" 1 fun hasDesc =>
      (if hasDesc = 0 then pOk else pDescBlock) ⨾
      (if kind = LK.liFE then
        pDescBlock ⨾ (if 3 < ver then pSkip "linked-layer" 16 else pOk) ⨾ pSkip "linked-layer" 8 ⨾
          (if 2 < ver then pRegion "linked-data" (pSkip "linked-layer" size) else pOk)
       else if kind = LK.liFA then pSkip "linked-layer" 8
       else pRegion "linked-data" (pSkip "linked-layer" size)) ⨾
      (if 5 ≤ ver then pUStr else pOk) ⨾
      (if 6 ≤ ver then pSkip "linked-layer" 8 else pOk) ⨾
      (if 7 ≤ ver then pSkip "linked-layer" 1 else pOk) ⨾
      (if kind = LK.liFE ∧ ver = 2 then pRegion "linked-data" (pSkip "linked-layer" size) else pOk)

/-- repeated: 8-byte length, the entry, filler to a multiple of 4 -/
def pLinkedLayers : PW := pToEnd "linked-layers" 3 (pRegion "linked-layer" (pLenBlock "linked-layer" 8 4 3 pLinkedBody))

/-! ### filter effects -/

def pFilterChannel : PW :=
  pU "filter-effect" 4 fun written =>
    if written = 0 then pOk
    else pRegion "filter-channel" (pLenBlock "filter-effect" 8 1 0 pRest)

def pFilterEffectBody : PW :=
  pPascal 1 ⨾ pSkip "filter-effect" 4 ⨾
    pLenBlock "filter-effect" 8 1 0
      (pSkip "filter-effect" 16 ⨾ pSkip "filter-effect" 4 ⨾ pU "filter-effect" 4 fun ch => fun d p =>
        if ch + 2 ≤ d.length - p then pRepeat pFilterChannel (ch + 2) d p
        else .error ⟨"filter-effect", p, "count exceeds the bytes that are left"⟩) ⨾
    (fun d p =>
      if p < d.length then
        (pU "filter-effect" 1 fun more =>
          if more = 0 then pOk
          else pSkip "filter-effect" 16 ⨾ pRegion "filter-channel" (pLenBlock "filter-effect" 8 1 0 pRest)) d p
      else .ok ([], p))

def pFilterEffects : PW :=
  pSkip "filter-effects" 4 ⨾
    pToEnd "filter-effects" 3 (pRegion "filter-effect" (pLenBlock "filter-effect" 8 4 3 pFilterEffectBody))

/-! ### paths ("Path resource format": 26-byte records; a subpath length record announces its knots) -/

/-- `n` knot records of the family `closed` (selectors 1, 2) or open (4, 5) -/
def pKnots (closed : Bool) : Nat → PW
  | 0 => pOk
  | n + 1 =>
    pU "path" 2 fun sel =>
      -- the count announces KNOT records (selectors 1, 2, 4, 5); whether a knot of the closed family sits in an open
      -- subpath is a judgement about a value, not about a length or a count (the library writes the objects the
      -- caller built; a generated instance mixing the families was reported by the thorough tier, seed 31)
      pCheck "path" "a record that is not a knot inside the knots a subpath announces"
        (sel == 1 || sel == 2 || sel == 4 || sel == 5) ⨾
      pSkip "path" 24 ⨾ pKnots closed n

/-- one record that is not a knot: a subpath length record (0 closed, 3 open) followed by the knots it announces, or
a fill rule (6), clipboard (7) or initial fill rule (8) record -/
def pPathRecord : PW :=
  pU "path" 2 fun sel =>
    if sel = 0 ∨ sel = 3 then
      pRegion "subpath" (pU "path" 2 fun n => pSkip "path" 22 ⨾ fun d p =>
        if 26 * n ≤ d.length - p then pKnots (sel == 0) n d p
        else .error ⟨"path", p, "knot count exceeds the bytes that are left"⟩)
    else if sel = 6 ∨ sel = 7 ∨ sel = 8 then pSkip "path" 24
    else pFail "path" "knot record outside a subpath, or unknown selector"

/-- records to the end (filler of fewer than 26 bytes is tolerated: vector masks are padded) -/
def pPath : PW := pToEnd "path" 25 pPathRecord

/-- vector mask setting (`vmsk`, `vsms`): version (3), flags, path records -/
def pVectorMask : PW :=
  pSkip "vector-mask" 8 ⨾ pPath

/-! ### type tool, placed layers, metadata -/

def pTypeTool : PW :=
  pSkip "type-tool" (2 + 48 + 2) ⨾ pDescBlock ⨾ pSkip "type-tool" 2 ⨾ pDescBlock ⨾ pSkip "type-tool" 16

/-- `SoLd` / `SoLE`: identifier, version, descriptor version, descriptor -/
def pSmartObject : PW := pSkip "smart-object" 8 ⨾ pDescBlock

/-- `PlLd` / `plLd`: type, version, id (Pascal string), page, total pages, anti-alias, layer type, transform (8 doubles),
warp version, descriptor version, descriptor -/
def pPlaced : PW := pSkip "placed-layer" 8 ⨾ pPascal 1 ⨾ pSkip "placed-layer" (16 + 64) ⨾ pDescBlock2

/-- `shmd`: count, items (signature, key, copy flag and 3 filler, length, data) -/
def pMetadata : PW :=
  pCounted "metadata" 4 (pRegion "metadata-item" (pSkip "metadata" 12 ⨾ pLenBlock "metadata" 4 1 0 pRest))

/-- `vscg`: key, descriptor version, descriptor -/
def pStrokeContent : PW := pSkip "stroke-content" 4 ⨾ pDescBlock

/-! ### image resources -/

/-- one slice of a version-6 slices resource -/
def pSlice : PW :=
  pRegion "slice" (
    pSkip "slice" 8 ⨾ pU "slice" 4 fun origin => (if origin = 1 then pSkip "slice" 4 else pOk) ⨾
    pUStr ⨾ pSkip "slice" 20 ⨾ pUStr ⨾ pUStr ⨾ pUStr ⨾ pUStr ⨾ pSkip "slice" 1 ⨾ pUStr ⨾ pSkip "slice" 12 ⨾
    (fun d p =>                                                     -- D6
      match wU "slice" 4 d p with
      | .ok (16, _) =>
        (match pDescBlock d p with
         | .ok r => .ok r
         | .error _ => .ok ([], p))
      | _ => .ok ([], p)))

def pSlices : PW :=
  pU "slices" 4 fun v =>
    if v = 6 then pSkip "slices" 16 ⨾ pUStr ⨾ pCounted "slices" 4 pSlice
    else if v = 7 ∨ v = 8 then pDescBlock
    else pFail "slices" "version is not 6, 7 or 8"

/-- URL list: count, then (4 bytes, id, unicode string) -/
def pUrlList : PW := pCounted "url-list" 4 (pRegion "url" (pSkip "url-list" 8 ⨾ pUStr))

/-- fixed-size items to the end: the size must divide what is there -/
def pItems (sect : String) (size : Nat) : PW := fun d p =>
  if (d.length - p) % size = 0 then .ok ([], d.length) else .error ⟨sect, p, "size is not a multiple of the item size"⟩

/-- the walker of an image resource, by id (ids not listed have no interior length or count) -/
def resourceWalker (id : Nat) : Option PW :=
  if id = 1006 then some (pToEnd "alpha-names" 0 (pPascal 1))
  else if id = 1045 then some (pToEnd "alpha-names" 0 pUStr)
  else if id = 1053 then some (pItems "alpha-identifiers" 4)
  else if id = 1026 then some (pItems "layer-group-ids" 2)
  else if id = 1069 then some (pCounted "layer-selection-ids" 2 (pSkip "layer-selection-ids" 4))
  else if id = 1054 then some pUrlList
  else if id = 1050 then some pSlices
  else if id = 1025 ∨ (2000 ≤ id ∧ id ≤ 2997) then some pPath
  else if id = 2999 ∨ id = 1008 then some (pPascal 1)
  else if id = 1032 then some (pSkip "grid-guides" 12 ⨾ pCounted "grid-guides" 4 (pSkip "grid-guides" 5))
  else if id = 1057 then some (pSkip "version-info" 5 ⨾ pUStr ⨾ pUStr ⨾ pSkip "version-info" 4)
  else if id = 1036 ∨ id = 1033 then
    some (pSkip "thumbnail" 20 ⨾ pU "thumbnail" 4 fun n => pSkip "thumbnail" 4 ⨾ pRegion "thumbnail-data" (pSkip "thumbnail" n))
  else if id ∈ [1065, 1074, 1075, 1076, 1078, 1080, 1082, 1083, 1088, 3000] then some pDescBlock
  else if id = 1086 ∨ id = 1087 ∨ id = 1051 then some pUStr
  else none

/-- slack: an image resource's size field does not count its filler, so the payload is consumed exactly — except
Pascal-string resources, whose filler byte is inside the size -/
def resourceSlack (id : Nat) : Nat := if id = 2999 ∨ id = 1008 then 1 else 0

/-! ### tagged blocks -/

namespace Keys
def descriptorKeys : List B :=
  [/- blwh -/ [98, 108, 119, 104], /- GdFl -/ [71, 100, 70, 108], /- PtFl -/ [80, 116, 70, 108], /- SoCo -/ [83, 111, 67, 111], /- vibA -/ [118, 105, 98, 65], /- anFX -/ [97, 110, 70, 88], /- artb -/ [97, 114, 116, 98], /- artd -/ [97, 114, 116, 100], /- abdd -/ [97, 98, 100, 100], /- cinf -/ [99, 105, 110, 102], /- CgEd -/ [67, 103, 69, 100], /- extd -/ [101, 120, 116, 100], /- extn -/ [101, 120, 116, 110], /- frgb -/ [102, 114, 103, 98], /- PxSc -/ [80, 120, 83, 99], /- pths -/ [112, 116, 104, 115], /- vstk -/ [118, 115, 116, 107]]
def descriptor2Keys : List B :=
  [/- lfx2 -/ [108, 102, 120, 50], /- lmfx -/ [108, 109, 102, 120], /- lfxs -/ [108, 102, 120, 115], /- vogk -/ [118, 111, 103, 107]]
def layerInfoKeys : List B := [/- Lr16 -/ [76, 114, 49, 54], /- Lr32 -/ [76, 114, 51, 50], /- Layr -/ [76, 97, 121, 114]]
def patternKeys : List B := [/- Patt -/ [80, 97, 116, 116], /- Pat2 -/ [80, 97, 116, 50], /- Pat3 -/ [80, 97, 116, 51]]
def linkedKeys : List B := [/- lnkD -/ [108, 110, 107, 68], /- lnk2 -/ [108, 110, 107, 50], /- lnk3 -/ [108, 110, 107, 51], /- lnkE -/ [108, 110, 107, 69]]
def filterKeys : List B := [/- FXid -/ [70, 88, 105, 100], /- FEid -/ [70, 69, 105, 100]]
def vectorMaskKeys : List B := [/- vmsk -/ [118, 109, 115, 107], /- vsms -/ [118, 115, 109, 115]]
def smartObjectKeys : List B := [/- SoLd -/ [83, 111, 76, 100], /- SoLE -/ [83, 111, 76, 69]]
def placedKeys : List B := [/- PlLd -/ [80, 108, 76, 100], /- plLd -/ [112, 108, 76, 100]]
def lrFX : B := [108, 114, 70, 88]
def TySh : B := [84, 121, 83, 104]
def luni : B := [108, 117, 110, 105]
def shmd : B := [115, 104, 109, 100]
def vscg : B := [118, 115, 99, 103]
def clrL : B := [99, 108, 114, 76]
end Keys

/-- the walker of a tagged block's payload, by key (keys not listed: no interior length or count, or free text) -/
def blockWalker (version : Nat) (key : B) : Option PW :=
  if key ∈ Keys.descriptorKeys then some pDescBlock
  else if key ∈ Keys.descriptor2Keys then some pDescBlock2
  else if key ∈ Keys.layerInfoKeys then some (pLayerInfoBody version)
  else if key = Keys.lrFX then some pEffects
  else if key ∈ Keys.patternKeys then some pPatterns
  else if key ∈ Keys.linkedKeys then some pLinkedLayers
  else if key ∈ Keys.filterKeys then some pFilterEffects
  else if key ∈ Keys.vectorMaskKeys then some pVectorMask
  else if key = Keys.TySh then some pTypeTool
  else if key ∈ Keys.smartObjectKeys then some pSmartObject
  else if key ∈ Keys.placedKeys then some pPlaced
  else if key = Keys.shmd then some pMetadata
  else if key = Keys.vscg then some pStrokeContent
  else if key = Keys.luni then some pUStr
  else if key = Keys.clrL then some (pSkip "color-lookup" 2 ⨾ pDescBlock)      -- version (2 bytes), descriptor version, descriptor
  else none

/-- path payloads may end with up to 25 bytes of filler, everything else with up to 3 (D2) -/
def blockSlack (key : B) : Nat := if key ∈ Keys.vectorMaskKeys then 25 else 3

/-- run a walker on a whole payload: it has to consume it up to `slack` bytes -/
def runOn (w : PW) (slack : Nat) (data : B) : Except WErr (List Region) :=
  match pSub "payload" data.length slack w data 0 with
  | .error e => .error e
  | .ok (rs, _) => .ok rs

def walkBlockPayload (version : Nat) (key data : B) : Except WErr (List Region) :=
  match blockWalker version key with
  | some w => runOn w (blockSlack key) data
  | none => .ok []

def walkResourcePayload (id : Nat) (data : B) : Except WErr (List Region) :=
  match resourceWalker id with
  | some w => runOn w (resourceSlack id) data
  | none => .ok []

/-! ### the whole file: the skeleton walker, then the payload walkers on what it delimits, at every nesting level -/

/-- key, width of the length field and payload of a tagged block delimited by the skeleton walker -/
def blockParts (version : Nat) (blk : B) : Option (B × Nat × B) :=
  let key := (blk.drop 4).take 4
  let w := if version = 2 ∧ key ∈ Spec.psbEightByteKeys then 8 else 4
  match readU w blk 8 with
  | .ok (n, q) => if q + n ≤ blk.length then some (key, q, (blk.drop q).take n) else none
  | .error _ => none

/-- id, offset of the data and data of an image resource block delimited by the skeleton walker -/
def resourceParts (blk : B) : Option (Nat × Nat × B) :=
  match readU 2 blk 4, readU 1 blk 6 with
  | .ok (id, _), .ok (n, q) =>
    let q := q + n + padAmount (1 + n) 2
    (match readU 4 blk q with
     | .ok (size, q') => if q' + size ≤ blk.length then some (id, q', (blk.drop q').take size) else none
     | .error _ => none)
  | _, _ => none

/-- the payload regions of the "tagged-block" regions of `rs` (coordinates of `d`); `Lr16` / `Lr32` / `Layr` payloads
report tagged blocks of their own, which are walked in turn, `fuel` levels deep -/
def deepBlocks (version : Nat) : Nat → B → List Region → Except WErr (List Region)
  | 0, _, _ => .error ⟨"tagged-block", 0, "nested deeper than the data is long"⟩
  | _ + 1, _, [] => .ok []
  | fuel + 1, d, r :: rs =>
    if r.kind = "tagged-block" then
      match blockParts version ((d.drop r.offset).take r.length) with
      | none => .error ⟨"tagged-block", r.offset, "cannot re-read the block header"⟩
      | some (key, off, data) =>
        match walkBlockPayload version key data with
        | .error e => .error ⟨e.sect, e.pos + r.offset + off, e.reason⟩
        | .ok inner =>
          match deepBlocks version fuel data inner with
          | .error e => .error ⟨e.sect, e.pos + r.offset + off, e.reason⟩
          | .ok deeper =>
            match deepBlocks version (fuel + 1) d rs with
            | .error e => .error e
            | .ok rest => .ok ((inner ++ deeper).map (shiftR (r.offset + off)) ++ rest)
    else deepBlocks version (fuel + 1) d rs
termination_by fuel _ rs => (fuel, rs.length)

def deepResources (d : B) : List Region → Except WErr (List Region)
  | [] => .ok []
  | r :: rs =>
    if r.kind = "image-resource" then
      match resourceParts ((d.drop r.offset).take r.length) with
      | none => .error ⟨"image-resource", r.offset, "cannot re-read the resource header"⟩
      | some (id, off, data) =>
        match walkResourcePayload id data with
        | .error e => .error ⟨e.sect, e.pos + r.offset + off, e.reason⟩
        | .ok inner =>
          match deepResources d rs with
          | .error e => .error e
          | .ok rest => .ok (inner.map (shiftR (r.offset + off)) ++ rest)
    else deepResources d rs

structure DeepWalk where
  skeleton : Walk
  payload : List Region
  deriving Repr

/-- navigate a whole file: sections, blocks, and the interiors of the payloads -/
def walkDeep (d : B) : Except WErr DeepWalk :=
  match walk d with
  | .error e => .error e
  | .ok w =>
    match deepResources d w.regions with
    | .error e => .error e
    | .ok r1 =>
      match deepBlocks w.header.version (d.length + 1) d w.regions with
      | .error e => .error e
      | .ok r2 => .ok ⟨w, r1 ++ r2⟩

def showRegions (rs : List Region) : String :=
  " ".intercalate (rs.map fun r => toString r.offset ++ ":" ++ toString r.length ++ ":" ++ r.kind)

def reportP (r : Except WErr (List Region)) : String :=
  match r with
  | .ok rs => "ok\t" ++ toString rs.length ++ "\t" ++ showRegions rs
  | .error e => "walk-err\t" ++ e.sect ++ "\t" ++ toString e.pos ++ "\t" ++ e.reason

end PsdVerif.WalkerPayload
