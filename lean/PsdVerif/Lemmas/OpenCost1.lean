/-
C06 — the typed counting reader (Model/OpenCost.lean) REFINES the skeleton reader: whenever no payload class raises,
`PSD.readT` returns exactly what `PSD.read` returns; when one raises, the outcome is that exception. In particular
the typed reader never runs out of fuel (`Err.other`), because the skeleton never does (Lemmas/Safe3.lean) and a
payload never does (hypothesis on the hooks, discharged per class by the `Cost` judgement).

`Sim t u`: the outcomes agree, or `t` is an exception other than `Err.other`.
-/
import PsdVerif.Model.OpenCost
import PsdVerif.Lemmas.SafeCost4
import PsdVerif.Lemmas.Safe3

namespace PsdVerif.OpenCost
open PsdVerif PsdVerif.Codec PsdVerif.Psd PsdVerif.PsdCost PsdVerif.PayloadCost PsdVerif.Safe PsdVerif.SafeCost

def Sim {α : Type} (t u : Except Err α) : Prop := t = u ∨ ∃ e, t = .error e ∧ e ≠ .other

theorem Sim.rfl' {α : Type} (t : Except Err α) : Sim t t := Or.inl rfl

theorem Sim.of_eq {α : Type} {t u : Except Err α} (h : t = u) : Sim t u := Or.inl h

theorem Sim.of_ok {α : Type} {t u : Except Err α} {v : α} (h : Sim t u) (ht : t = .ok v) : u = .ok v := by
  rcases h with h | ⟨e, he, _⟩
  · rw [← h, ht]
  · rw [ht] at he; cases he

theorem Sim.ne_other {α : Type} {t u : Except Err α} (h : Sim t u) (hu : u ≠ .error .other) : t ≠ .error .other := by
  rcases h with h | ⟨e, he, hne⟩
  · rw [h]; exact hu
  · rw [he]; intro h'; cases h'; exact hne rfl

/-- a hook never reports `Err.other` -/
def HookOk (x : CE Unit) : Prop := x.1 ≠ .error .other

theorem Sim.bind {α β : Type} {m₁ m₂ : CE β} {f₁ f₂ : β → CE α} (hm : Sim m₁.1 m₂.1)
    (hf : ∀ x, m₁.1 = .ok x → Sim (f₁ x).1 (f₂ x).1) : Sim (m₁ >>= f₁).1 (m₂ >>= f₂).1 := by
  rw [bind_fst, bind_fst]
  rcases hm with h | ⟨e, he, hne⟩
  · rw [← h]
    cases h1 : m₁.1 with
    | error e => exact Or.inl rfl
    | ok x => exact hf x h1
  · rw [he]
    exact Or.inr ⟨e, rfl, hne⟩

/-- the same first step on both sides -/
theorem Sim.bind_same {α β : Type} {m : CE β} {f₁ f₂ : β → CE α}
    (hf : ∀ x, m.1 = .ok x → Sim (f₁ x).1 (f₂ x).1) : Sim (m >>= f₁).1 (m >>= f₂).1 :=
  Sim.bind (Sim.rfl' _) hf

/-- a payload run on the typed side only -/
theorem Sim.hook {α : Type} {h : CE Unit} {f : Unit → CE α} {u : Except Err α} (hh : HookOk h)
    (hf : Sim (f ()).1 u) : Sim (h >>= f).1 u := by
  rw [bind_fst]
  cases h1 : h.1 with
  | error e => exact Or.inr ⟨e, rfl, fun he => hh (by rw [h1, he])⟩
  | ok x => exact hf

/-! ### loops -/

theorem sim_readCountC {α : Type} {i₁ i₂ : RC α} (hi : ∀ d p, Sim (i₁ d p).1 (i₂ d p).1) (n : Nat) (d : B) (p : Nat) :
    Sim (readCountC i₁ n d p).1 (readCountC i₂ n d p).1 := by
  induction n generalizing p with
  | zero => exact Sim.rfl' _
  | succ n ih =>
    unfold readCountC
    refine Sim.bind_same fun _ _ => ?_
    refine Sim.bind (hi d p) fun ⟨a, p1⟩ _ => ?_
    refine Sim.bind (ih p1) fun ⟨as, p2⟩ _ => ?_
    exact Sim.rfl' _

theorem sim_readWhileFuelC {α : Type} {cond : B → Nat → CE Bool} {i₁ i₂ : RC (Option α)}
    (hi : ∀ d p, Sim (i₁ d p).1 (i₂ d p).1) (fuel : Nat) (d : B) (p : Nat) :
    Sim (readWhileFuelC cond i₁ fuel d p).1 (readWhileFuelC cond i₂ fuel d p).1 := by
  induction fuel generalizing p with
  | zero => exact Sim.rfl' _
  | succ fuel ih =>
    unfold readWhileFuelC
    refine Sim.bind_same fun _ _ => ?_
    refine Sim.bind_same fun c _ => ?_
    split
    · refine Sim.bind (hi d p) fun ⟨o, p1⟩ _ => ?_
      cases o with
      | none => exact Sim.rfl' _
      | some a =>
        dsimp only
        refine Sim.bind (ih p1) fun ⟨as, p2⟩ _ => ?_
        exact Sim.rfl' _
    · exact Sim.rfl' _

theorem sim_readWhileC {α : Type} {cond : B → Nat → CE Bool} {i₁ i₂ : RC (Option α)}
    (hi : ∀ d p, Sim (i₁ d p).1 (i₂ d p).1) (d : B) (p : Nat) :
    Sim (readWhileC cond i₁ d p).1 (readWhileC cond i₂ d p).1 := sim_readWhileFuelC hi _ d p

theorem sim_optItemC {α : Type} {i₁ i₂ : RC α} (hi : ∀ d p, Sim (i₁ d p).1 (i₂ d p).1) (d : B) (p : Nat) :
    Sim (optItemC i₁ d p).1 (optItemC i₂ d p).1 := by
  unfold optItemC
  exact Sim.bind (hi d p) fun _ _ => Sim.rfl' _

/-! ### the typed readers against the readers of Model/PsdCost.lean -/

section
variable {pl : BlockHook} (hpl : ∀ v key data, HookOk (pl v key data))
include hpl

theorem sim_tagged (v pad : Nat) (d : B) (p : Nat) :
    Sim (TaggedBlock.decT pl v pad d p).1 (PsdCost.TaggedBlock.decC v pad d p).1 := by
  unfold TaggedBlock.decT PsdCost.TaggedBlock.decC
  refine Sim.bind_same fun ⟨sig, p1⟩ _ => ?_
  dsimp only
  split
  · refine Sim.bind_same fun ⟨key, p2⟩ _ => ?_
    refine Sim.bind_same fun ⟨data, p3⟩ _ => ?_
    exact Sim.hook (hpl v key data) (Sim.rfl' _)
  · exact Sim.rfl' _

theorem sim_taggedBlocks (v pad : Nat) (e : Option Nat) (d : B) (p : Nat) :
    Sim (taggedBlocksDecT pl v pad e d p).1 (taggedBlocksDecC v pad e d p).1 := by
  unfold taggedBlocksDecT taggedBlocksDecC
  exact Sim.bind (sim_readWhileC (sim_tagged hpl v pad) d p) fun _ _ => Sim.rfl' _

theorem sim_extra (v : Nat) (d : B) (p : Nat) :
    Sim (LayerRecord.extraDecT pl v d p).1 (PsdCost.LayerRecord.extraDecC v d p).1 := by
  unfold LayerRecord.extraDecT PsdCost.LayerRecord.extraDecC
  refine Sim.bind_same fun ⟨mask, p⟩ _ => ?_
  refine Sim.bind_same fun ⟨ranges, p⟩ _ => ?_
  refine Sim.bind_same fun ⟨name, p⟩ _ => ?_
  exact Sim.bind (sim_taggedBlocks hpl v 1 none d p) fun _ _ => Sim.rfl' _

theorem sim_layerRecord (v : Nat) (d : B) (p : Nat) :
    Sim (LayerRecord.decT pl v d p).1 (PsdCost.LayerRecord.decC v d p).1 := by
  unfold LayerRecord.decT PsdCost.LayerRecord.decC
  refine Sim.bind_same fun ⟨top, p⟩ _ => ?_
  refine Sim.bind_same fun ⟨left, p⟩ _ => ?_
  refine Sim.bind_same fun ⟨bottom, p⟩ _ => ?_
  refine Sim.bind_same fun ⟨right, p⟩ _ => ?_
  refine Sim.bind_same fun ⟨n, p⟩ _ => ?_
  refine Sim.bind_same fun ⟨cis, p⟩ _ => ?_
  refine Sim.bind_same fun ⟨sig, p⟩ _ => ?_
  refine Sim.bind_same fun ⟨bm, p⟩ _ => ?_
  refine Sim.bind_same fun ⟨opacity, p⟩ _ => ?_
  refine Sim.bind_same fun ⟨clipping, p⟩ _ => ?_
  refine Sim.bind_same fun ⟨fl, p⟩ _ => ?_
  refine Sim.bind_same fun ⟨data, p⟩ _ => ?_
  refine Sim.bind_same fun _ _ => ?_
  exact Sim.bind (sim_extra hpl v data 0) fun _ _ => Sim.rfl' _

theorem sim_layerInfoBody (v : Nat) (d : B) (p : Nat) :
    Sim (LayerInfo.bodyDecT pl v d p).1 (PsdCost.LayerInfo.bodyDecC v d p).1 := by
  unfold LayerInfo.bodyDecT PsdCost.LayerInfo.bodyDecC
  refine Sim.bind_same fun ⟨count, p⟩ _ => ?_
  refine Sim.bind (sim_readCountC (sim_layerRecord hpl v) _ d p) fun ⟨records, p⟩ _ => ?_
  exact Sim.rfl' _

theorem sim_layerInfo (v : Nat) (d : B) (p : Nat) :
    Sim (LayerInfo.decT pl v d p).1 (PsdCost.LayerInfo.decC v d p).1 := by
  unfold LayerInfo.decT PsdCost.LayerInfo.decC
  refine Sim.bind_same fun ⟨length, p⟩ _ => ?_
  dsimp only
  refine Sim.bind ?_ fun _ _ => Sim.rfl' _
  split
  · exact Sim.rfl' _
  · exact Sim.bind (sim_layerInfoBody hpl v d p) fun _ _ => Sim.rfl' _

theorem sim_layerAndMaskBody (v e : Nat) (d : B) (p : Nat) :
    Sim (LayerAndMask.bodyDecT pl v e d p).1 (PsdCost.LayerAndMask.bodyDecC v e d p).1 := by
  unfold LayerAndMask.bodyDecT PsdCost.LayerAndMask.bodyDecC
  refine Sim.bind (sim_layerInfo hpl v d p) fun ⟨li, p⟩ _ => ?_
  dsimp only
  split
  · refine Sim.bind_same fun ⟨glm, p⟩ _ => ?_
    exact Sim.bind (sim_taggedBlocks hpl v 4 (some e) d p) fun _ _ => Sim.rfl' _
  · exact Sim.rfl' _

theorem sim_layerAndMask (v : Nat) (d : B) (p : Nat) :
    Sim (LayerAndMask.decT pl v d p).1 (PsdCost.LayerAndMask.decC v d p).1 := by
  unfold LayerAndMask.decT PsdCost.LayerAndMask.decC
  refine Sim.bind_same fun ⟨length, p⟩ _ => ?_
  dsimp only
  refine Sim.bind ?_ fun _ _ => Sim.rfl' _
  split
  · exact Sim.rfl' _
  · exact sim_layerAndMaskBody hpl v _ d p

end

section
variable {rs : ResHook} (hrs : ∀ key data, HookOk (rs key data))
include hrs

theorem sim_resource (d : B) (p : Nat) : Sim (Resource.decT rs d p).1 (PsdCost.Resource.decC d p).1 := by
  unfold Resource.decT PsdCost.Resource.decC
  refine Sim.bind_same fun ⟨sig, p⟩ _ => ?_
  refine Sim.bind_same fun ⟨key, p⟩ _ => ?_
  refine Sim.bind_same fun ⟨name, p⟩ _ => ?_
  refine Sim.bind_same fun ⟨data, p⟩ _ => ?_
  exact Sim.hook (hrs key data) (Sim.rfl' _)

theorem sim_resources (d : B) (p : Nat) : Sim (resourcesDecT rs d p).1 (resourcesDecC d p).1 := by
  unfold resourcesDecT resourcesDecC
  refine Sim.bind_same fun ⟨data, p⟩ _ => ?_
  refine Sim.bind_same fun _ _ => ?_
  exact Sim.bind (sim_readWhileC (sim_optItemC (sim_resource hrs)) data 0) fun _ _ => Sim.rfl' _

end

/-- the typed reader against the skeleton reader -/
theorem sim_psd {pl : BlockHook} {rs : ResHook} (hpl : ∀ v key data, HookOk (pl v key data))
    (hrs : ∀ key data, HookOk (rs key data)) (d : B) (p : Nat) : Sim (PSD.readT pl rs d p).1 (PSD.read d p) := by
  rw [← psd_fst]
  unfold PSD.readT PsdCost.PSD.readC
  refine Sim.bind_same fun ⟨header, p⟩ _ => ?_
  refine Sim.bind_same fun ⟨cmd, p⟩ _ => ?_
  refine Sim.bind (sim_resources hrs d p) fun ⟨res, p⟩ _ => ?_
  refine Sim.bind (sim_layerAndMask hpl header.version d p) fun ⟨lm, p⟩ _ => ?_
  exact Sim.rfl' _

/-! ### the hooks of `plOf` never report `Err.other` -/

/-- the registered payload classes never run out of fuel -/
def Hooks.Ok (h : Hooks) : Prop :=
  (∀ v key f data, h.blk v key = some f → HookOk (f data)) ∧ (∀ key f data, h.res key = some f → HookOk (f data))

theorem runOpt_ok {o : Option (B → CE Unit)} (ho : ∀ f data, o = some f → HookOk (f data)) (data : B) :
    HookOk (runOpt o data) := by
  unfold runOpt
  cases o with
  | none => intro h; cases h
  | some f => exact ho f data rfl

theorem plOf_ok {h : Hooks} (hh : h.Ok) (D : Nat) (v : Nat) (key data : B) : HookOk (plOf h D v key data) := by
  induction D generalizing v key data with
  | zero =>
    unfold plOf
    split
    · intro h'; cases h'
    · exact runOpt_ok (fun f data hf => hh.1 v key f data hf) data
  | succ D ih =>
    unfold plOf
    split
    · have hs := sim_layerInfoBody (pl := plOf h D) (fun v key data => ih v key data) v data 0
      have hne : (PsdCost.LayerInfo.bodyDecC v data 0).1 ≠ .error .other := by
        rw [layerInfoBody_fst]
        exact (layerInfoBody_good v data 0).errIn.ne_other
      have := hs.ne_other hne
      unfold HookOk
      rw [bind_ok' (enterBlock_fst data)]
      dsimp only
      cases h1 : (LayerInfo.bodyDecT (plOf h D) v data 0).1 with
      | error e => rw [bind_err' h1]; intro h'; cases h'; exact this h1
      | ok x => rw [bind_ok' h1]; intro h'; cases h'
    · exact runOpt_ok (fun f data hf => hh.1 v key f data hf) data

theorem rsOf_ok {h : Hooks} (hh : h.Ok) (key : Nat) (data : B) : HookOk (rsOf h key data) :=
  runOpt_ok (fun f data hf => hh.2 key f data hf) data

/-- `PSDImage.open` on the model: the skeleton's document when no payload raises; never `Err.other` -/
theorem open_sim {h : Hooks} (hh : h.Ok) (D : Nat) (b : B) : Sim (open_ h D b).1 (PSD.read b 0) :=
  sim_psd (plOf_ok hh D) (rsOf_ok hh) b 0

theorem open_never_other {h : Hooks} (hh : h.Ok) (D : Nat) (b : B) : (open_ h D b).1 ≠ .error .other :=
  (open_sim hh D b).ne_other ((psd_errIn b 0).ne_other)

end PsdVerif.OpenCost
