/-
C06 — the counting twins of Model/PayloadCostEffects.lean erase to the readers of Model/PayloadEffects.lean and obey
the cost judgement with the constants recorded in their `CC.hand`.

Also here (used by Lemmas/PayloadCostPatterns.lean too): the rules for a nested run inside a hand-written reader —
`Inner a b data q Q x` (a run on the block `data` from cursor `q`: cost ≤ a · (bytes of `data` left) + b, never out of
fuel, a result that satisfies `Q`), `Cost.bindBlock` (`read_length_block`, then a continuation that may spend
`c · len(block)` more: the block is part of what was consumed) and `Cost.stepInner` / `Cost.ofInner`.
-/
import PsdVerif.Model.PayloadCostEffects
import PsdVerif.Lemmas.PayloadCostSimple

namespace PsdVerif.PayloadCost
open PsdVerif PsdVerif.Codec PsdVerif.PsdCost PsdVerif.Payload PsdVerif.Payload3 PsdVerif.Safe PsdVerif.SafeCost

/-! ### nested runs -/

/-- a run on the nested block `data` from its cursor `q` -/
def Inner {γ : Type} (a b : Nat) (data : B) (q : Nat) (Q : γ → Prop) (x : CE γ) : Prop :=
  x.2.w ≤ a * (data.length - q) + b ∧ (∀ y, x.1 = .ok y → Q y) ∧ x.1 ≠ .error .other

theorem Inner.ok {γ : Type} {data : B} {q : Nat} {Q : γ → Prop} (v : γ) (hQ : Q v) : Inner 0 0 data q Q (CE.ok v) := by
  refine ⟨?_, fun y hy => ?_, fun h => by cases h⟩
  · rw [ok_w]; omega
  · cases hy; exact hQ

theorem Inner.error {γ : Type} {data : B} {q : Nat} {Q : γ → Prop} {e : Err} (he : e ≠ .other) :
    Inner 0 0 data q Q (CE.error e : CE γ) := by
  refine ⟨?_, fun y hy => (by cases hy), fun h => ?_⟩
  · have : (CE.error e : CE γ).2.w = 0 := rfl
    omega
  · cases h; exact he rfl

theorem Inner.mono {γ : Type} {a a' b b' : Nat} {data : B} {q : Nat} {Q : γ → Prop} {x : CE γ}
    (h : Inner a' b' data q Q x) (ha : a' ≤ a) (hb : b' ≤ b) : Inner a b data q Q x := by
  have : a' * (data.length - q) ≤ a * (data.length - q) := Nat.mul_le_mul_right _ ha
  exact ⟨by have := h.1; omega, h.2.1, h.2.2⟩

/-- a statement on `data`, then the rest of the nested run -/
theorem Inner.bind {β γ : Type} {a₁ a₂ b₁ b₂ k₁ : Nat} {data : B} {q : Nat} {Q : γ → Prop} {m : CE (β × Nat)}
    {f : β × Nat → CE γ} (hm : Cost a₁ b₁ k₁ data q m)
    (hf : ∀ v q₁, m.1 = .ok (v, q₁) → q₁ ≤ data.length → Inner a₂ b₂ data q₁ Q (f (v, q₁))) :
    Inner (max a₁ a₂) (b₁ + b₂) data q Q (m >>= f) := by
  have hm' := hm.mono (Nat.le_max_left a₁ a₂) (Nat.le_refl _) (Nat.le_refl _)
  cases hm1 : m.1 with
  | error e =>
    rw [bind_err' hm1]
    have h1 := hm'.of_error hm1
    refine ⟨?_, fun y hy => (by cases hy), fun h => ?_⟩
    · show m.2.w ≤ _
      omega
    · cases h; exact h1.1 rfl
  | ok y =>
    obtain ⟨v, q₁⟩ := y
    have h1 := hm'.of_ok hm1
    have h2 := (hf v q₁ hm1 h1.2.1).mono (Nat.le_max_right a₁ a₂) (Nat.le_refl _)
    rw [bind_ok' hm1]
    have hs := mul_split (max a₁ a₂) (x := q₁ - q) (y := data.length - q₁) (z := data.length - q) (by omega)
    refine ⟨?_, h2.2.1, h2.2.2⟩
    show (m.2 + (f (v, q₁)).2).w ≤ _
    rw [w_add]
    have := h2.1
    omega

/-- `with io.BytesIO(data) as f:` in front of the nested run -/
theorem Inner.enter {γ : Type} {a b : Nat} {data : B} {Q : γ → Prop} {x : CE γ} (h : Inner a b data 0 Q x) :
    Inner (a + 1) (b + 1) data 0 Q (enterBlock data >>= fun _ => x) := by
  rw [bind_ok' (enterBlock_fst data)]
  refine ⟨?_, h.2.1, h.2.2⟩
  show ((enterBlock data).2 + x.2).w ≤ _
  rw [w_add, enterBlock_w, Nat.add_mul, Nat.one_mul]
  have := h.1
  omega

theorem Inner.w_le {γ : Type} {a b : Nat} {data : B} {Q : γ → Prop} {x : CE γ} (h : Inner a b data 0 Q x) :
    x.2.w ≤ a * data.length + b := by
  have := h.1
  simpa using this

/-- a nested run as one step of a reader on `d`: it costs `ai · len(data) + bi` -/
theorem Cost.stepInner {α γ : Type} {a b k ai bi : Nat} {d data : B} {p : Nat} {Q : γ → Prop} {m : CE γ}
    {f : γ → CE (α × Nat)} (hm : Inner ai bi data 0 Q m) (hf : ∀ y, m.1 = .ok y → Q y → Cost a b k d p (f y)) :
    Cost a (ai * data.length + (bi + b)) k d p (m >>= f) :=
  (Cost.step (n := ai * data.length + bi) hm.w_le hm.2.2 (fun y hy => hf y hy (hm.2.1 y hy))).mono
    (Nat.le_refl _) (by omega) (Nat.le_refl _)

/-- a nested run that ends the reader: it returns the cursor `p` of `d` where the block ended -/
theorem Cost.ofInner {α : Type} {a b : Nat} {d data : B} {p : Nat} {x : CE (α × Nat)} (hp : p ≤ d.length)
    (h : Inner a b data 0 (fun y => y.2 = p) x) : Cost 0 (a * data.length + b) 0 d p x := by
  have hw := h.w_le
  refine Cost.intro (fun v p' hx => ?_) (fun e hx => ?_)
  · have : p' = p := h.2.1 _ hx
    subst this
    exact ⟨by omega, hp, by omega⟩
  · refine ⟨fun he => h.2.2 (by rw [hx, he]), by omega⟩

/-- `data = read_length_block(fp)`, then a continuation that may spend `c · len(data)` beyond its own bound -/
theorem Cost.bindBlock {α : Type} {skip w pad a₂ b₂ k₂ c : Nat} {d : B} {p : Nat} {f : B × Nat → CE (α × Nat)}
    (hp : p ≤ d.length)
    (hf : ∀ data p₁, (readLenBlockC skip w pad d p).1 = .ok (data, p₁) → p₁ ≤ d.length →
      Cost a₂ (c * data.length + b₂) k₂ d p₁ (f (data, p₁))) :
    Cost (max (1 + c) a₂) (4 + b₂) (skip + w + k₂) d p (readLenBlockC skip w pad d p >>= f) := by
  have hl := readLenBlockC_cost skip w pad (d := d) (p := p) hp
  have hA1 : 1 + c ≤ max (1 + c) a₂ := Nat.le_max_left ..
  have hA2 : a₂ ≤ max (1 + c) a₂ := Nat.le_max_right ..
  generalize max (1 + c) a₂ = A at hA1 hA2 ⊢
  cases h1 : (readLenBlockC skip w pad d p).1 with
  | error e =>
    rw [bind_err' h1]
    have l1 := hl.of_error h1
    refine Cost.intro (fun _ _ hx => by cases hx) (fun e' hx => ?_)
    cases hx
    have : 1 * (d.length - p) ≤ A * (d.length - p) := Nat.mul_le_mul_right _ (by omega)
    exact ⟨l1.1, by show (readLenBlockC skip w pad d p).2.w ≤ _; omega⟩
  | ok y =>
    obtain ⟨data, p₁⟩ := y
    have l1 := hl.of_ok h1
    have l2 := readLenBlockC_ok h1
    have h2' := hf data p₁ h1 l1.2.1
    rw [bind_ok' h1]
    have e0 : c * data.length ≤ c * (p₁ - p) := Nat.mul_le_mul_left _ (by omega)
    have e1 : (1 + c) * (p₁ - p) = (p₁ - p) + c * (p₁ - p) := by rw [Nat.add_mul, Nat.one_mul]
    have e2 : (1 + c) * (p₁ - p) ≤ A * (p₁ - p) := Nat.mul_le_mul_right _ hA1
    refine Cost.intro (fun v p' hx => ?_) (fun e' hx => ?_)
    · have h2 := h2'.of_ok hx
      have e3 : a₂ * (p' - p₁) ≤ A * (p' - p₁) := Nat.mul_le_mul_right _ hA2
      have hs := mul_split A (x := p₁ - p) (y := p' - p₁) (z := p' - p) (by omega)
      refine ⟨by omega, h2.2.1, ?_⟩
      show ((readLenBlockC skip w pad d p).2 + (f (data, p₁)).2).w ≤ _
      rw [w_add]
      omega
    · have h2 := h2'.of_error hx
      have e3 : a₂ * (d.length - p₁) ≤ A * (d.length - p₁) := Nat.mul_le_mul_right _ hA2
      have hs := mul_split A (x := p₁ - p) (y := d.length - p₁) (z := d.length - p) (by omega)
      refine ⟨h2.1, ?_⟩
      show ((readLenBlockC skip w pad d p).2 + (f (data, p₁)).2).w ≤ _
      rw [w_add]
      omega

/-- `cblock`: the next statement is `data = read_length_block(fp, …)`; the continuation may spend `c · len(data)` -/
macro "cblock" : tactic => `(tactic| (apply Cost.bindBlock (by assumption); intro _ _ _ _; try dsimp only))
/-- `ibind h`: the next statement of a nested run costs `h`; the continuation gets the new cursor `≤ data.length` -/
macro "ibind " t:term : tactic => `(tactic| (apply Inner.bind $t; intro _ _ _ _; try dsimp only))

/-! ## helpers -/

theorem readSig8BIMC_fst (d : B) (p : Nat) : (readSig8BIMC d p).1 = readSig8BIM d p := by
  unfold readSig8BIMC readSig8BIM
  rw [bind_fst, readNC_fst]
  cases readN 4 d p with
  | error e => rfl
  | ok x =>
    obtain ⟨s, p'⟩ := x
    dsimp only
    split <;> rfl

theorem readSig8BIMC_cost {d : B} {p : Nat} : Cost 1 1 4 d p (readSig8BIMC d p) := by
  apply Cost.mono
  case h =>
    unfold readSig8BIMC
    cbind (readNC_cost 4)
    cif
    cdone
  cside

theorem readBlendModeC_fst (d : B) (p : Nat) : (readBlendModeC d p).1 = readBlendMode d p := by
  unfold readBlendModeC readBlendMode
  rw [bind_fst, readNC_fst]
  cases readN 4 d p with
  | error e => rfl
  | ok x =>
    obtain ⟨s, p'⟩ := x
    dsimp only
    split <;> rfl

theorem readBlendModeC_cost {d : B} {p : Nat} : Cost 1 1 4 d p (readBlendModeC d p) := by
  apply Cost.mono
  case h =>
    unfold readBlendModeC
    cbind (readNC_cost 4)
    cif
    cdone
  cside

/-! ## CommonStateInfo -/

theorem CommonStateInfo.decC_fst (d : B) (p : Nat) : (CommonStateInfo.decC d p).1 = CommonStateInfo.codec.dec d p := by
  unfold CommonStateInfo.decC CommonStateInfo.codec
  dsimp only
  refine erase_bind (readUC_fst ..) fun ⟨v, p⟩ => ?_
  refine erase_bind (readUC_fst ..) fun ⟨vis, p⟩ => ?_
  refine erase_bind (readSkipC_fst ..) fun ⟨_, p⟩ => ?_
  rfl

theorem CommonStateInfo.decC_cost : CostR 1 3 7 CommonStateInfo.decC := by
  intro d p hp
  apply Cost.mono
  case h =>
    unfold CommonStateInfo.decC
    cbind (readUC_cost 4)
    cbind (readUC_cost 1)
    cbind (readSkipC_cost 2)
    cdone
  cside

theorem CommonStateInfo.cc_c : CommonStateInfo.cc.c = CommonStateInfo.codec := rfl
theorem CommonStateInfo.cc_sound : CommonStateInfo.cc.Sound :=
  CC.hand_sound CommonStateInfo.decC_fst CommonStateInfo.decC_cost

/-! ## ShadowInfo -/

theorem ShadowInfo.decC_fst (d : B) (p : Nat) : (ShadowInfo.decC d p).1 = ShadowInfo.dec d p := by
  unfold ShadowInfo.decC ShadowInfo.dec
  refine erase_bind (readUC_fst ..) fun ⟨version, p⟩ => ?_
  refine erase_bind (readUC_fst ..) fun ⟨blur, p⟩ => ?_
  refine erase_bind (readUC_fst ..) fun ⟨intensity, p⟩ => ?_
  refine erase_bind (readI32C_fst ..) fun ⟨angle, p⟩ => ?_
  refine erase_bind (readUC_fst ..) fun ⟨distance, p⟩ => ?_
  refine erase_bind (Color.decC_fst ..) fun ⟨color, p⟩ => ?_
  refine erase_bind (readSig8BIMC_fst ..) fun ⟨_, p⟩ => ?_
  refine erase_bind (readBlendModeC_fst ..) fun ⟨bm, p⟩ => ?_
  refine erase_bind (readUC_fst ..) fun ⟨enabled, p⟩ => ?_
  refine erase_bind (readUC_fst ..) fun ⟨uga, p⟩ => ?_
  refine erase_bind (readUC_fst ..) fun ⟨opacity, p⟩ => ?_
  refine erase_bind (Color.decC_fst ..) fun ⟨native, p⟩ => ?_
  rfl

theorem ShadowInfo.decC_cost : CostR 1 28 51 ShadowInfo.decC := by
  intro d p hp
  apply Cost.mono
  case h =>
    unfold ShadowInfo.decC
    cbind (readUC_cost 4)
    cbind (readUC_cost 4)
    cbind (readUC_cost 4)
    cbind readI32C_cost
    cbind (readUC_cost 4)
    cbind (Color.decC_cost d _ (by assumption))
    cbind readSig8BIMC_cost
    cbind readBlendModeC_cost
    cbind (readUC_cost 1)
    cbind (readUC_cost 1)
    cbind (readUC_cost 1)
    cbind (Color.decC_cost d _ (by assumption))
    cdone
  cside

theorem ShadowInfo.cc_c : ShadowInfo.cc.c = ShadowInfo.codec := rfl
theorem ShadowInfo.cc_sound : ShadowInfo.cc.Sound := CC.hand_sound ShadowInfo.decC_fst ShadowInfo.decC_cost

/-! ## `_GlowInfo` body -/

theorem GlowBody.decC_fst (d : B) (p : Nat) : (GlowBody.decC d p).1 = GlowBody.dec d p := by
  unfold GlowBody.decC GlowBody.dec
  refine erase_bind (readUC_fst ..) fun ⟨version, p⟩ => ?_
  refine erase_bind (readUC_fst ..) fun ⟨blur, p⟩ => ?_
  refine erase_bind (readUC_fst ..) fun ⟨intensity, p⟩ => ?_
  refine erase_bind (Color.decC_fst ..) fun ⟨color, p⟩ => ?_
  refine erase_bind (readSig8BIMC_fst ..) fun ⟨_, p⟩ => ?_
  refine erase_bind (readBlendModeC_fst ..) fun ⟨bm, p⟩ => ?_
  refine erase_bind (readUC_fst ..) fun ⟨enabled, p⟩ => ?_
  refine erase_bind (readUC_fst ..) fun ⟨opacity, p⟩ => ?_
  rfl

theorem GlowBody.decC_cost : CostR 1 16 32 GlowBody.decC := by
  intro d p hp
  apply Cost.mono
  case h =>
    unfold GlowBody.decC
    cbind (readUC_cost 4)
    cbind (readUC_cost 4)
    cbind (readUC_cost 4)
    cbind (Color.decC_cost d _ (by assumption))
    cbind readSig8BIMC_cost
    cbind readBlendModeC_cost
    cbind (readUC_cost 1)
    cbind (readUC_cost 1)
    cdone
  cside

/-! ## OuterGlowInfo -/

theorem OuterGlowInfo.decC_fst (d : B) (p : Nat) : (OuterGlowInfo.decC d p).1 = OuterGlowInfo.dec d p := by
  unfold OuterGlowInfo.decC OuterGlowInfo.dec
  refine erase_bind (GlowBody.decC_fst ..) fun ⟨body, p⟩ => ?_
  refine erase_bind ?_ fun ⟨native, p⟩ => ?_
  · split
    · exact optItemC_fst Color.decC_fst d p
    · rfl
  rfl

theorem OuterGlowInfo.decC_cost : CostR 1 25 32 OuterGlowInfo.decC := by
  intro d p hp
  apply Cost.mono
  case h =>
    unfold OuterGlowInfo.decC
    cbind (GlowBody.decC_cost d _ (by assumption))
    apply Cost.bind
    · apply Cost.ite <;> intro _
      · exact optItemC_cost (Color.decC_cost d _ (by assumption))
      · exact Cost.ok _ (by assumption)
    · intro _ _ _ _
      dsimp only
      cdone
  cside

theorem OuterGlowInfo.cc_c : OuterGlowInfo.cc.c = OuterGlowInfo.codec := rfl
theorem OuterGlowInfo.cc_sound : OuterGlowInfo.cc.Sound := CC.hand_sound OuterGlowInfo.decC_fst OuterGlowInfo.decC_cost

/-! ## InnerGlowInfo -/

theorem InnerGlowInfo.decC_fst (d : B) (p : Nat) : (InnerGlowInfo.decC d p).1 = InnerGlowInfo.dec d p := by
  unfold InnerGlowInfo.decC InnerGlowInfo.dec
  refine erase_bind (GlowBody.decC_fst ..) fun ⟨body, p⟩ => ?_
  dsimp only
  split
  · refine erase_bind (readUC_fst ..) fun ⟨invert, p⟩ => ?_
    refine erase_bind (Color.decC_fst ..) fun ⟨native, p⟩ => ?_
    rfl
  · rfl

theorem InnerGlowInfo.decC_cost : CostR 1 26 32 InnerGlowInfo.decC := by
  intro d p hp
  apply Cost.mono
  case h =>
    unfold InnerGlowInfo.decC
    cbind (GlowBody.decC_cost d _ (by assumption))
    apply Cost.ite <;> intro _
    · cbind (readUC_cost 1)
      cbind (Color.decC_cost d _ (by assumption))
      cdone
    · cdone
  cside

theorem InnerGlowInfo.cc_c : InnerGlowInfo.cc.c = InnerGlowInfo.codec := rfl
theorem InnerGlowInfo.cc_sound : InnerGlowInfo.cc.Sound := CC.hand_sound InnerGlowInfo.decC_fst InnerGlowInfo.decC_cost

/-! ## BevelInfo -/

theorem BevelInfo.decC_fst (d : B) (p : Nat) : (BevelInfo.decC d p).1 = BevelInfo.dec d p := by
  unfold BevelInfo.decC BevelInfo.dec
  refine erase_bind (readUC_fst ..) fun ⟨version, p⟩ => ?_
  refine erase_bind (readI32C_fst ..) fun ⟨angle, p⟩ => ?_
  refine erase_bind (readUC_fst ..) fun ⟨depth, p⟩ => ?_
  refine erase_bind (readUC_fst ..) fun ⟨blur, p⟩ => ?_
  refine erase_bind (readNC_fst ..) fun ⟨s1, p⟩ => ?_
  refine erase_bind (readNC_fst ..) fun ⟨hbm, p⟩ => ?_
  dsimp only
  split
  · refine erase_bind (readNC_fst ..) fun ⟨s2, p⟩ => ?_
    refine erase_bind (readNC_fst ..) fun ⟨sbm, p⟩ => ?_
    dsimp only
    split
    · refine erase_bind (Color.decC_fst ..) fun ⟨hc, p⟩ => ?_
      refine erase_bind (Color.decC_fst ..) fun ⟨sc, p⟩ => ?_
      refine erase_bind (readUC_fst ..) fun ⟨style, p⟩ => ?_
      refine erase_bind (readUC_fst ..) fun ⟨ho, p⟩ => ?_
      refine erase_bind (readUC_fst ..) fun ⟨so, p⟩ => ?_
      refine erase_bind (readUC_fst ..) fun ⟨en, p⟩ => ?_
      refine erase_bind (readUC_fst ..) fun ⟨uga, p⟩ => ?_
      refine erase_bind (readUC_fst ..) fun ⟨dir, p⟩ => ?_
      refine erase_bind ?_ fun ⟨⟨rh, rs⟩, p⟩ => ?_
      · dsimp only
        split
        · refine erase_bind (Color.decC_fst ..) fun ⟨a, p⟩ => ?_
          refine erase_bind (Color.decC_fst ..) fun ⟨b, p⟩ => ?_
          rfl
        · rfl
      dsimp only
      split <;> rfl
    · rfl
  · rfl

theorem BevelInfo.decC_cost : CostR 1 50 58 BevelInfo.decC := by
  intro d p hp
  apply Cost.mono
  case h =>
    unfold BevelInfo.decC
    cbind (readUC_cost 4)
    cbind readI32C_cost
    cbind (readUC_cost 4)
    cbind (readUC_cost 4)
    cbind (readNC_cost 4)
    cbind (readNC_cost 4)
    cif
    cbind (readNC_cost 4)
    cbind (readNC_cost 4)
    cif
    cbind (Color.decC_cost d _ (by assumption))
    cbind (Color.decC_cost d _ (by assumption))
    cbind (readUC_cost 1)
    cbind (readUC_cost 1)
    cbind (readUC_cost 1)
    cbind (readUC_cost 1)
    cbind (readUC_cost 1)
    cbind (readUC_cost 1)
    apply Cost.bind
    · apply Cost.ite <;> intro _
      · cbind (Color.decC_cost d _ (by assumption))
        cbind (Color.decC_cost d _ (by assumption))
        cdone
      · exact Cost.ok _ (by assumption)
    · intro _ _ _ _
      dsimp only
      cif
      cdone
  cside

theorem BevelInfo.cc_c : BevelInfo.cc.c = BevelInfo.codec := rfl
theorem BevelInfo.cc_sound : BevelInfo.cc.Sound := CC.hand_sound BevelInfo.decC_fst BevelInfo.decC_cost

/-! ## SolidFillInfo -/

theorem SolidFillInfo.decC_fst (d : B) (p : Nat) : (SolidFillInfo.decC d p).1 = SolidFillInfo.dec d p := by
  unfold SolidFillInfo.decC SolidFillInfo.dec
  refine erase_bind (readUC_fst ..) fun ⟨version, p⟩ => ?_
  refine erase_bind (readNC_fst ..) fun ⟨s, p⟩ => ?_
  refine erase_bind (readNC_fst ..) fun ⟨bm, p⟩ => ?_
  dsimp only
  split
  · refine erase_bind (Color.decC_fst ..) fun ⟨color, p⟩ => ?_
    refine erase_bind (readUC_fst ..) fun ⟨opacity, p⟩ => ?_
    refine erase_bind (readUC_fst ..) fun ⟨enabled, p⟩ => ?_
    refine erase_bind (Color.decC_fst ..) fun ⟨native, p⟩ => ?_
    dsimp only
    split <;> rfl
  · rfl

theorem SolidFillInfo.decC_cost : CostR 1 23 34 SolidFillInfo.decC := by
  intro d p hp
  apply Cost.mono
  case h =>
    unfold SolidFillInfo.decC
    cbind (readUC_cost 4)
    cbind (readNC_cost 4)
    cbind (readNC_cost 4)
    cif
    cbind (Color.decC_cost d _ (by assumption))
    cbind (readUC_cost 1)
    cbind (readUC_cost 1)
    cbind (Color.decC_cost d _ (by assumption))
    cif
    cdone
  cside

theorem SolidFillInfo.cc_c : SolidFillInfo.cc.c = SolidFillInfo.codec := rfl
theorem SolidFillInfo.cc_sound : SolidFillInfo.cc.Sound := CC.hand_sound SolidFillInfo.decC_fst SolidFillInfo.decC_cost

/-! ## EffectsLayer -/

/-- `kls.frombytes(data)` of one class -/
theorem frombytes_fst {β : Type} {xc : RC β} {x : R β} (hx : ∀ d p, (xc d p).1 = x d p) (g : β → Effect) (data : B) :
    (enterBlock data >>= fun _ => xc data 0 >>= fun r => CE.ok (g r.1)).1 = (x data 0).map (fun r => g r.1) := by
  refine erase_ok (enterBlock_fst data) ?_
  rw [bind_fst, hx]
  cases x data 0 <;> rfl

theorem Effect.decAsC_fst (c : EffectClass) (data : B) : (Effect.decAsC c data).1 = Effect.decAs c data := by
  cases c
  · exact frombytes_fst CommonStateInfo.decC_fst Effect.common data
  · exact frombytes_fst ShadowInfo.decC_fst Effect.shadow data
  · exact frombytes_fst OuterGlowInfo.decC_fst Effect.outerGlow data
  · exact frombytes_fst InnerGlowInfo.decC_fst Effect.innerGlow data
  · exact frombytes_fst BevelInfo.decC_fst Effect.bevel data
  · exact frombytes_fst SolidFillInfo.decC_fst Effect.solidFill data

theorem frombytes_inner {β : Type} {xc : RC β} {a b k : Nat} (hx : CostR a b k xc) (g : β → Effect) (data : B) :
    Inner (a + 1) (b + 1) data 0 (fun _ => True) (enterBlock data >>= fun _ => xc data 0 >>= fun r => CE.ok (g r.1)) := by
  refine Inner.enter ?_
  have h := Inner.bind (Q := fun (_ : Effect) => True) (f := fun r => CE.ok (g r.1)) (hx data 0 (Nat.zero_le _))
    (fun v q _ _ => Inner.ok _ trivial)
  exact h.mono (Nat.max_le.2 ⟨Nat.le_refl _, Nat.zero_le _⟩) (by omega)

theorem Effect.decAsC_inner (c : EffectClass) (data : B) : Inner 2 51 data 0 (fun _ => True) (Effect.decAsC c data) := by
  cases c
  · exact (frombytes_inner CommonStateInfo.decC_cost Effect.common data).mono (by decide) (by decide)
  · exact (frombytes_inner ShadowInfo.decC_cost Effect.shadow data).mono (by decide) (by decide)
  · exact (frombytes_inner OuterGlowInfo.decC_cost Effect.outerGlow data).mono (by decide) (by decide)
  · exact (frombytes_inner InnerGlowInfo.decC_cost Effect.innerGlow data).mono (by decide) (by decide)
  · exact (frombytes_inner BevelInfo.decC_cost Effect.bevel data).mono (by decide) (by decide)
  · exact (frombytes_inner SolidFillInfo.decC_cost Effect.solidFill data).mono (by decide) (by decide)

theorem EffectsLayer.itemDecC_fst (d : B) (p : Nat) : (EffectsLayer.itemDecC d p).1 = EffectsLayer.itemDec d p := by
  unfold EffectsLayer.itemDecC EffectsLayer.itemDec
  refine erase_bind (readSig8BIMC_fst ..) fun ⟨_, p⟩ => ?_
  refine erase_bind (readNC_fst ..) fun ⟨key, p⟩ => ?_
  dsimp only
  cases classOfKey key with
  | none => rfl
  | some c =>
    dsimp only
    refine erase_bind (readLenBlockC_fst ..) fun ⟨data, p⟩ => ?_
    refine erase_bind (Effect.decAsC_fst c data) fun e => ?_
    rfl

/-- an item consumes its signature, its key and the length of its block: ≥ 12 bytes -/
theorem EffectsLayer.itemDecC_cost : CostR 3 57 12 EffectsLayer.itemDecC := by
  intro d p hp
  apply Cost.mono
  case h =>
    unfold EffectsLayer.itemDecC
    cbind readSig8BIMC_cost
    cbind (readNC_cost 4)
    refine Cost.mono (a' := 3) (b' := 55) (k' := 4) ?_ (Nat.le_refl _) (Nat.le_refl _) (Nat.le_refl _)
    cases classOfKey _ with
    | none => exact (Cost.error 4 (by decide)).mono (by decide) (by decide) (Nat.le_refl _)
    | some c =>
      dsimp only
      apply Cost.mono
      case h =>
        cblock
        apply Cost.stepInner (Effect.decAsC_inner c _)
        intro _ _ _
        cdone
      cside
  cside

theorem EffectsLayer.decC_fst (d : B) (p : Nat) : (EffectsLayer.decC d p).1 = EffectsLayer.dec d p := by
  unfold EffectsLayer.decC EffectsLayer.dec
  refine erase_bind (readUC_fst ..) fun ⟨version, p⟩ => ?_
  refine erase_bind (readUC_fst ..) fun ⟨count, p⟩ => ?_
  refine erase_bind (readCountC_fst EffectsLayer.itemDecC_fst ..) fun ⟨items, p⟩ => ?_
  rfl

theorem EffectsLayer.decC_cost : CostR 61 60 4 EffectsLayer.decC := by
  intro d p hp
  apply Cost.mono
  case h =>
    unfold EffectsLayer.decC
    cbind (readUC_cost 2)
    cbind (readUC_cost 2)
    cbind (readCountC_cost (fun q hq => EffectsLayer.itemDecC_cost d q hq) (by decide : 1 ≤ 12) _ _ (by assumption))
    cdone
  cside

theorem EffectsLayer.cc_c : EffectsLayer.cc.c = EffectsLayer.codec := rfl
theorem EffectsLayer.cc_sound : EffectsLayer.cc.Sound := CC.hand_sound EffectsLayer.decC_fst EffectsLayer.decC_cost

/-! ## the unit -/

def effectsTable : List (String × Sh) :=
  [("CommonStateInfo", CommonStateInfo.cc.sh), ("ShadowInfo", ShadowInfo.cc.sh), ("OuterGlowInfo", OuterGlowInfo.cc.sh),
   ("InnerGlowInfo", InnerGlowInfo.cc.sh), ("BevelInfo", BevelInfo.cc.sh), ("SolidFillInfo", SolidFillInfo.cc.sh),
   ("EffectsLayer", EffectsLayer.cc.sh)]

theorem effects_body_progress : effectsTable.all (fun e => e.2.bodyProgress) = true := by decide

end PsdVerif.PayloadCost
