/-
C11: the group-result invariant `0 ≤ C·α − (1−αg)·α₀·C₀ ≤ αg` through every step (knockout included)
and every tree, and with it the premultiplied value of what `Compositor.color` returns.
-/
import PsdVerif.Lemmas.CompositeSim

namespace PsdVerif.Composite

/-- **Knockout step, multiplied out**: new colour × new alpha =
`(1−fs)·α·C + (fs−αs)·α₀·C₀ + αs·((1−α₀)·Cs + α₀·B(C₀, Cs))`; `_clip` and the `0/0` fallback of
`_divide` are inactive. -/
theorem applySource_knockout_mul {bl : Color → Color → Color} {st : PState} {Cs : Color} {fs αs : Rat}
    (h : Inv st) (hs : SrcOk Cs fs αs) (hb : BlendOk bl) (ch : Nat) :
    (applySource bl st Cs fs αs true).c ch * (applySource bl st Cs fs αs true).a
      = (1 - fs) * st.a * st.c ch + (fs - αs) * st.a0 * st.c0 ch
        + αs * ((1 - st.a0) * Cs ch + st.a0 * bl st.c0 Cs ch) := by
  obtain ⟨a0, a1⟩ := h.a
  obtain ⟨z0, z1⟩ := h.a0
  obtain ⟨g0, g1⟩ := h.ag
  obtain ⟨c0, c1⟩ := h.c ch
  obtain ⟨k0, k1⟩ := h.c0 ch
  obtain ⟨s0, s1⟩ := hs.c ch
  obtain ⟨b0, b1⟩ := hb st.c0 Cs h.c0 hs.c ch
  have e1 : 0 ≤ 1 - fs := sub_nonneg.2 hs.s1
  have e2 : 0 ≤ fs - αs := sub_nonneg.2 hs.as
  have m0 : 0 ≤ (1 - st.a0) * Cs ch + st.a0 * bl st.c0 Cs ch := by
    have := mul_nonneg (sub_nonneg.2 z1) s0; have := mul_nonneg z0 b0; linarith
  have m1 : (1 - st.a0) * Cs ch + st.a0 * bl st.c0 Cs ch ≤ 1 := by
    have := mul_le_mul_of_nonneg_left s1 (sub_nonneg.2 z1)
    have := mul_le_mul_of_nonneg_left b1 z0; linarith
  set num := (1 - fs) * st.a * st.c ch + (fs - αs) * st.a0 * st.c0 ch
      + αs * ((1 - st.a0) * Cs ch + st.a0 * bl st.c0 Cs ch) with hnum
  have hra : (applySource bl st Cs fs αs true).a = union st.a0 ((1 - fs) * st.ag + (fs - αs) * st.a0 + αs) := by
    simp [applySource]
  have hn0 : 0 ≤ num := by
    have := mul_nonneg (mul_nonneg e1 a0) c0
    have := mul_nonneg (mul_nonneg e2 z0) k0
    have := mul_nonneg hs.a0 m0
    linarith
  have hn1 : num ≤ (applySource bl st Cs fs αs true).a := by
    rw [hra]
    have t1 : (1 - fs) * st.a * st.c ch ≤ (1 - fs) * st.a := mul_le_of_le_one_right (mul_nonneg e1 a0) c1
    have t2 : (fs - αs) * st.a0 * st.c0 ch ≤ (fs - αs) * st.a0 := mul_le_of_le_one_right (mul_nonneg e2 z0) k1
    have t3 := mul_le_mul_of_nonneg_left m1 hs.a0
    have key : union st.a0 ((1 - fs) * st.ag + (fs - αs) * st.a0 + αs)
        - ((1 - fs) * st.a + (fs - αs) * st.a0 + αs) = st.a0 * (fs - αs) * (1 - st.a0) := by
      rw [h.a_eq]; unfold union; ring
    have : 0 ≤ st.a0 * (fs - αs) * (1 - st.a0) := mul_nonneg (mul_nonneg z0 e2) (sub_nonneg.2 z1)
    linarith
  have hc : (applySource bl st Cs fs αs true).c ch = clip (divide num (applySource bl st Cs fs αs true).a) := by
    simp only [applySource, if_true, hnum]
    congr 2
    ring
  rw [hc]
  exact clip_divide_mul hn0 hn1

@[simp] theorem applySource_ag_knockout (bl : Color → Color → Color) (st : PState) (color : Color) (shape alpha : Rat) :
    (applySource bl st color shape alpha true).ag = (1 - shape) * st.ag + (shape - alpha) * st.a0 + alpha := by
  unfold applySource; simp

/-! ### the group-result invariant -/

/-- premultiplied colour of the group's own contribution: `α·C − (1−αg)·α₀·C₀` (PDF 1.7 §11.4.8 times `αg`) -/
def groupNum (st : PState) (ch : Nat) : Rat := st.c ch * st.a - (1 - st.ag) * st.a0 * st.c0 ch

/-- `0 ≤ C·α − (1−αg)·α₀·C₀ ≤ αg` in every channel: the backdrop-removal formula of `Compositor.color`
stays in range, so its `_clip` does nothing. -/
def XInv (st : PState) : Prop := ∀ ch, 0 ≤ groupNum st ch ∧ groupNum st ch ≤ st.ag

theorem xinv_init (color : Color) (alpha : Rat) (iso : Bool) : XInv (PState.init color alpha iso) := by
  intro ch
  unfold groupNum PState.init
  cases iso <;> simp only [Bool.false_eq_true, if_false, if_true]
  · constructor <;> linarith [mul_comm (color ch) alpha]
  · constructor <;> linarith

/-- one step (knockout or not) keeps the group-result invariant:
not knockout `G' = (1−αs)·G + αs·m`, knockout `G' = (1−fs)·G + (fs−αs)·α₀²·C₀ + αs·m₀`, with `m, m₀ ∈ [0,1]`. -/
theorem applySource_xinv {bl : Color → Color → Color} {st : PState} {color : Color} {shape alpha : Rat}
    (h : Inv st) (hx : XInv st) (hs : SrcOk color shape alpha) (hb : BlendOk bl) (ko : Bool) :
    XInv (applySource bl st color shape alpha ko) := by
  intro ch
  obtain ⟨x0, x1⟩ := hx ch
  unfold groupNum at x0 x1 ⊢
  have al1 : alpha ≤ 1 := le_trans hs.as hs.s1
  obtain ⟨s0, s1⟩ := hs.c ch
  obtain ⟨z0, z1⟩ := h.a0
  cases ko
  · rw [applySource_mul h hs hb ch]
    simp only [applySource_ag, applySource_a0, applySource_c0]
    obtain ⟨a0, a1⟩ := h.a
    obtain ⟨b0, b1⟩ := hb st.c color h.c hs.c ch
    have m0 : 0 ≤ (1 - st.a) * color ch + st.a * bl st.c color ch := by
      have := mul_nonneg (sub_nonneg.2 a1) s0; have := mul_nonneg a0 b0; linarith
    have m1 : (1 - st.a) * color ch + st.a * bl st.c color ch ≤ 1 := by
      have := mul_le_mul_of_nonneg_left s1 (sub_nonneg.2 a1)
      have := mul_le_mul_of_nonneg_left b1 a0; linarith
    have key : stepNum bl st color alpha ch - (1 - union st.ag alpha) * st.a0 * st.c0 ch
        = (1 - alpha) * (st.c ch * st.a - (1 - st.ag) * st.a0 * st.c0 ch)
          + alpha * ((1 - st.a) * color ch + st.a * bl st.c color ch) := by
      unfold stepNum union; ring
    rw [key, union_eq]
    have p1 := mul_nonneg (sub_nonneg.2 al1) x0
    have p2 := mul_nonneg hs.a0 m0
    have p3 := mul_le_mul_of_nonneg_left x1 (sub_nonneg.2 al1)
    have p4 := mul_le_mul_of_nonneg_left m1 hs.a0
    constructor <;> linarith
  · rw [applySource_knockout_mul h hs hb ch]
    simp only [applySource_ag_knockout, applySource_a0, applySource_c0]
    obtain ⟨k0, k1⟩ := h.c0 ch
    obtain ⟨b0, b1⟩ := hb st.c0 color h.c0 hs.c ch
    have e1 : 0 ≤ 1 - shape := sub_nonneg.2 hs.s1
    have e2 : 0 ≤ shape - alpha := sub_nonneg.2 hs.as
    have m0 : 0 ≤ (1 - st.a0) * color ch + st.a0 * bl st.c0 color ch := by
      have := mul_nonneg (sub_nonneg.2 z1) s0; have := mul_nonneg z0 b0; linarith
    have m1 : (1 - st.a0) * color ch + st.a0 * bl st.c0 color ch ≤ 1 := by
      have := mul_le_mul_of_nonneg_left s1 (sub_nonneg.2 z1)
      have := mul_le_mul_of_nonneg_left b1 z0; linarith
    have key : (1 - shape) * st.a * st.c ch + (shape - alpha) * st.a0 * st.c0 ch
          + alpha * ((1 - st.a0) * color ch + st.a0 * bl st.c0 color ch)
          - (1 - ((1 - shape) * st.ag + (shape - alpha) * st.a0 + alpha)) * st.a0 * st.c0 ch
        = (1 - shape) * (st.c ch * st.a - (1 - st.ag) * st.a0 * st.c0 ch)
          + (shape - alpha) * (st.a0 * (st.a0 * st.c0 ch))
          + alpha * ((1 - st.a0) * color ch + st.a0 * bl st.c0 color ch) := by
      ring
    rw [key]
    have q0 : 0 ≤ st.a0 * (st.a0 * st.c0 ch) := mul_nonneg z0 (mul_nonneg z0 k0)
    have q1 : st.a0 * (st.a0 * st.c0 ch) ≤ st.a0 := by
      have : st.a0 * st.c0 ch ≤ 1 := by
        have := mul_le_mul z1 k1 k0 (by norm_num : (0:Rat) ≤ 1); linarith
      exact mul_le_of_le_one_right z0 this
    have p1 := mul_nonneg e1 x0
    have p2 := mul_nonneg e2 q0
    have p3 := mul_nonneg hs.a0 m0
    have p4 := mul_le_mul_of_nonneg_left x1 e1
    have p5 := mul_le_mul_of_nonneg_left q1 e2
    have p6 := mul_le_mul_of_nonneg_left m1 hs.a0
    constructor <;> linarith

/-- **What `Compositor.color` returns, multiplied out**: group colour × group alpha
`= α·C − (1−αg)·α₀·C₀`, the premultiplied form of PDF 1.7 §11.4.8
`C = Cn + (Cn − C0)·(α0/αgn − α0)`; neither `_clip` nor the `0/0 → 1` fallback alters it. -/
theorem finishColor_mul {st : PState} (h : Inv st) (hx : XInv st) (ch : Nat) :
    finishColor st ch * st.ag = groupNum st ch := by
  obtain ⟨x0, x1⟩ := hx ch
  by_cases hag : st.ag = 0
  · rw [hag] at x1 ⊢
    have : groupNum st ch = 0 := le_antisymm x1 x0
    rw [this, mul_zero]
  · unfold finishColor
    have e : st.c ch + (st.c ch - st.c0 ch) * (divide st.a0 st.ag - st.a0) = divide (groupNum st ch) st.ag := by
      unfold divide groupNum; rw [if_neg hag, if_neg hag, h.a_eq]; unfold union; field_simp; ring
    rw [e]
    exact clip_divide_mul x0 x1

theorem finishApply_xinv {B : Mode → Color → Color → Color} (hB : BOk B) {pr : Props} (h : PropsOk pr) (V : Rect)
    (x y : Int) {st : PState} (hst : Inv st) (hx : XInv st) {color : Color} {shape alpha : Rat}
    (hc : ColorOk color) (ha0 : 0 ≤ alpha) (has : alpha ≤ shape) (hs1 : shape ≤ 1) :
    XInv (finishApply B V x y st pr color shape alpha) := by
  unfold finishApply
  exact applySource_xinv hst hx (finishApply_src h V x y hc ha0 has hs1) (hB pr.mode) _

/-- the group-result invariant through one layer, whatever is below it -/
theorem applyNode_xinv {B : Mode → Color → Color → Color} (hB : BOk B) (V : Rect) (x y : Int) (cc : Bool)
    (st : PState) (hst : Inv st) (hx : XInv st) : (n : Node) → nodeOk n → XInv (applyNode B V x y cc st n)
  | .leaf pr hasPixels color shape clips, hn => by
    obtain ⟨hp, hcol, hsh, hcl⟩ := hn
    unfold applyNode
    split; · exact hx
    split; · exact hx
    split; · exact hx
    have hc0 : ColorOk (if hasPixels then pasteAt V pr.bbox x y color white else white) := by
      split
      · exact pasteAt_color hcol white_ok
      · exact white_ok
    have hs0 : Unit01 (if hasPixels then pasteAt V pr.bbox x y shape 0 else 0) := by
      split
      · exact pasteAt_unit hsh unit01_zero
      · exact unit01_zero
    apply finishApply_xinv hB hp V x y hst hx _ hs0.1 (le_refl _) hs0.2
    split
    · exact hc0
    · exact (applyClips_inv B V x y _ (inv_init hc0 hs0 false) clips hcl).c
  | .group pr passThrough children clips, hn => by
    obtain ⟨hp, hch, hcl⟩ := hn
    unfold applyNode
    split; · exact hx
    split; · exact hx
    split; · exact hx
    have hcb : ColorOk (if pr.knockout then st.c0 else st.c) := by split; exact hst.c0; exact hst.c
    have hab : Unit01 (if pr.knockout then st.a0 else st.a) := by split; exact hst.a0; exact hst.a
    have hsub := applyList_inv B (intersect V pr.bbox) x y _ (inv_init hcb hab (!passThrough)) children hch
    simp only
    by_cases hin : (intersect V pr.bbox).contains x y = true
    · simp only [hin, if_true]
      apply finishApply_xinv hB hp V x y hst hx _ hsub.ag.1 hsub.ag_le hsub.sg.2
      split
      · exact fun ch => clip_unit _
      · exact (applyClips_inv B V x y _ (inv_init (fun ch => clip_unit _) hsub.ag false) clips hcl).c
    · simp only [hin, Bool.false_eq_true, if_false]
      apply finishApply_xinv hB hp V x y hst hx _ (le_refl _) (le_refl _) (by norm_num)
      split
      · exact white_ok
      · exact (applyClips_inv B V x y _ (inv_init white_ok unit01_zero false) clips hcl).c

theorem applyList_xinv {B : Mode → Color → Color → Color} (hB : BOk B) (V : Rect) (x y : Int) (st : PState)
    (hst : Inv st) (hx : XInv st) (ns : List Node) (h : listOk ns) : XInv (applyList B V x y st ns) := by
  induction ns generalizing st with
  | nil => unfold applyList; exact hx
  | cons n rest ih =>
    unfold applyList
    exact ih _ (applyNode_inv B V x y false st hst n h.1) (applyNode_xinv hB V x y false st hst hx n h.1) h.2

theorem applyClips_xinv {B : Mode → Color → Color → Color} (hB : BOk B) (V : Rect) (x y : Int) (st : PState)
    (hst : Inv st) (hx : XInv st) (ns : List Node) (h : listOk ns) : XInv (applyClips B V x y st ns) := by
  induction ns generalizing st with
  | nil => unfold applyClips; exact hx
  | cons n rest ih =>
    unfold applyClips
    exact ih _ (applyNode_inv B V x y true st hst n h.1) (applyNode_xinv hB V x y true st hst hx n h.1) h.2

end PsdVerif.Composite
