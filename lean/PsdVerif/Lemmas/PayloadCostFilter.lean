/-
C06 — the counting twins of Model/PayloadCostFilter.lean erase to the readers of Model/Payload3Filter.lean and obey the
cost judgement with the constants recorded in their `CC.hand`; the combinator terms are sound by composition.

A nested `with io.BytesIO(data) as f:` run whose block was read from the outer stream is paid by the bytes of the block:
`Stays q n x` says that the continuation `x` ends at the cursor `q` of the outer stream and costs at most `n`;
`Cost.bind_stays` charges `n = c · (bytes the previous statement consumed) + n₀` to that statement.
-/
import PsdVerif.Model.PayloadCostFilter
import PsdVerif.Lemmas.PayloadCostSimple

namespace PsdVerif.PayloadCost
open PsdVerif PsdVerif.Codec PsdVerif.PsdCost PsdVerif.Payload PsdVerif.Payload3 PsdVerif.Safe PsdVerif.SafeCost

/-! ### continuations that do not move the outer cursor -/

/-- the continuation ends at the cursor `q` (or raises, never out of fuel) and costs at most `n` -/
def Stays {α : Type} (q n : Nat) (x : CE (α × Nat)) : Prop :=
  (match x.1 with | .ok (_, p') => p' = q | .error e => e ≠ .other) ∧ x.2.w ≤ n

theorem Stays.ok {α : Type} (v : α) (q : Nat) : Stays q 0 (CE.ok (v, q) : CE (α × Nat)) := by
  unfold Stays
  exact ⟨rfl, Nat.le_of_eq (ok_w _)⟩

theorem Stays.mono {α : Type} {q n n' : Nat} {x : CE (α × Nat)} (h : Stays q n x) (hn : n ≤ n') : Stays q n' x := by
  unfold Stays at h ⊢
  exact ⟨h.1, Nat.le_trans h.2 hn⟩

theorem Stays.ite {α : Type} {q n : Nat} {c : Prop} [Decidable c] {x y : CE (α × Nat)}
    (hx : c → Stays q n x) (hy : ¬ c → Stays q n y) : Stays q n (if c then x else y) := by
  split
  · exact hx ‹_›
  · exact hy ‹_›

/-- a step on another stream (entering the block, a read on the inner stream) -/
theorem Stays.step {α γ : Type} {q n₁ n₂ : Nat} {m : CE γ} {f : γ → CE (α × Nat)}
    (hm : m.2.w ≤ n₁) (hne : m.1 ≠ .error .other) (hf : ∀ y, m.1 = .ok y → Stays q n₂ (f y)) :
    Stays q (n₁ + n₂) (m >>= f) := by
  cases h1 : m.1 with
  | error e =>
    rw [bind_err' h1]
    unfold Stays
    refine ⟨fun h => hne (by rw [h1, h]), ?_⟩
    show m.2.w ≤ _
    omega
  | ok y =>
    rw [bind_ok' h1]
    have s := hf y h1
    unfold Stays at s ⊢
    refine ⟨s.1, ?_⟩
    show (m.2 + (f y).2).w ≤ _
    rw [w_add]
    have := s.2
    omega

/-- the statement `m` consumed `p₁ − p` bytes; what follows stays at `p₁` and costs `c` per byte of those, plus `n` -/
theorem Cost.bind_stays {α β : Type} {a₁ b₁ k₁ c n : Nat} {d : B} {p : Nat} {m : CE (β × Nat)}
    {f : β × Nat → CE (α × Nat)} (hm : Cost a₁ b₁ k₁ d p m)
    (hf : ∀ v p₁, m.1 = .ok (v, p₁) → Stays p₁ (c * (p₁ - p) + n) (f (v, p₁))) :
    Cost (a₁ + c) (b₁ + n) k₁ d p (m >>= f) := by
  cases hm1 : m.1 with
  | error e =>
    rw [bind_err' hm1]
    have h1 := hm.of_error hm1
    refine Cost.intro (fun _ _ hx => by cases hx) (fun e' hx => ?_)
    cases hx
    have e1 : (a₁ + c) * (d.length - p) = a₁ * (d.length - p) + c * (d.length - p) := Nat.add_mul ..
    refine ⟨h1.1, ?_⟩
    show m.2.w ≤ _
    omega
  | ok y =>
    obtain ⟨v, p₁⟩ := y
    have h1 := hm.of_ok hm1
    have s := hf v p₁ hm1
    rw [bind_ok' hm1]
    unfold Stays at s
    refine Cost.intro (fun v' p' hx => ?_) (fun e' hx => ?_)
    · have hx' : (f (v, p₁)).1 = .ok (v', p') := hx
      rw [hx'] at s
      have hp : p' = p₁ := s.1
      subst hp
      have e1 : (a₁ + c) * (p' - p) = a₁ * (p' - p) + c * (p' - p) := Nat.add_mul ..
      have s2 := s.2
      refine ⟨h1.1, h1.2.1, ?_⟩
      show (m.2 + (f (v, p')).2).w ≤ _
      rw [w_add]
      omega
    · have hx' : (f (v, p₁)).1 = .error e' := hx
      rw [hx'] at s
      have e1 : (a₁ + c) * (d.length - p) = a₁ * (d.length - p) + c * (d.length - p) := Nat.add_mul ..
      have e2 : c * (p₁ - p) ≤ c * (d.length - p) := Nat.mul_le_mul_left _ (by omega)
      have e3 : a₁ * (p₁ - p) ≤ a₁ * (d.length - p) := Nat.mul_le_mul_left _ (by omega)
      have s2 := s.2
      refine ⟨s.1, ?_⟩
      show (m.2 + (f (v, p₁)).2).w ≤ _
      rw [w_add]
      omega

theorem readUC_w_le (w : Nat) (d : B) (p : Nat) : (readUC w d p).2.w ≤ 1 + w := by
  unfold readUC
  rw [bind_snd]
  have hm : (readNC w d p).2.w = 1 + min w (d.length - p) := rfl
  cases (readNC w d p).1 with
  | error e => dsimp only; omega
  | ok y =>
    obtain ⟨bs, p'⟩ := y
    dsimp only
    rw [w_add, ok_w]
    omega

theorem readAllC_w_le (d : B) (p : Nat) : (readAllC d p).2.w ≤ 1 + d.length := by
  have : (readAllC d p).2.w = 1 + (d.length - p) := rfl
  omega

theorem readAllC_ne_other (d : B) (p : Nat) : (readAllC d p).1 ≠ .error .other := by
  rw [readAllC_fst]
  unfold readAll
  intro h
  cases h

/-- `with io.BytesIO(data) as f: compression = read_fmt("H", f)[0]; data = f.read()`, then the result at `q` -/
theorem compressedBlock_stays {α : Type} (data : B) (q : Nat) (g : Nat × Nat → α) :
    Stays q (2 * data.length + 5)
      (enterBlock data >>= fun _ => readUC 2 data 0 >>= fun x => readAllC data x.2 >>= fun _ =>
        (CE.ok (g x, q) : CE (α × Nat))) := by
  apply Stays.mono
  case h =>
    apply Stays.step (Nat.le_of_eq (enterBlock_w data)) (by intro h; cases h)
    intro _ _
    apply Stays.step (readUC_w_le 2 data 0) (readUC_cost 2).ne_other
    intro y _
    apply Stays.step (readAllC_w_le data y.2) (readAllC_ne_other data y.2)
    intro _ _
    exact Stays.ok _ _
  omega

/-! ## FilterEffectChannel -/

theorem FEChannel.decC_fst (d : B) (p : Nat) : (FEChannel.decC d p).1 = FEChannel.dec d p := by
  unfold FEChannel.decC FEChannel.dec
  refine erase_bind (readUC_fst ..) fun ⟨iw, p⟩ => ?_
  dsimp only
  split
  · rfl
  · refine erase_bind (readLenBlockC_fst ..) fun ⟨data, p⟩ => ?_
    dsimp only
    split
    · rfl
    · refine erase_ok (enterBlock_fst data) ?_
      refine erase_bind (readUC_fst ..) fun ⟨c, q⟩ => ?_
      exact erase_ok (b := (data.drop q, q + (data.drop q).length)) (readAllC_fst data q) rfl

theorem FEChannel.decC_cost : CostR 3 5 4 FEChannel.decC := by
  intro d p hp
  apply Cost.mono
  case h =>
    unfold FEChannel.decC
    cbind (readUC_cost 4)
    cif
    · cdone
    · apply Cost.bind_stays (c := 2) (n := 0) (readLenBlockC_cost 0 8 1)
      intro data p₁ h1
      have l2 := readLenBlockC_ok h1
      dsimp only
      apply Stays.ite <;> intro _
      · exact (Stays.ok _ _).mono (Nat.zero_le _)
      · refine Stays.mono (compressedBlock_stays data p₁ _) ?_
        omega
  cside

theorem FEChannel.cc_c : FEChannel.cc.c = FEChannel.codec := rfl
theorem FEChannel.cc_sound : FEChannel.cc.Sound := CC.hand_sound FEChannel.decC_fst FEChannel.decC_cost

/-! ## FilterEffectExtra -/

theorem FEExtra.decC_fst (d : B) (p : Nat) : (FEExtra.decC d p).1 = FEExtra.dec d p := by
  unfold FEExtra.decC FEExtra.dec
  refine erase_bind (readUC_fst ..) fun ⟨iw, p⟩ => ?_
  dsimp only
  split
  · rfl
  · refine erase_bind (fmtDecC_fst ..) fun ⟨rect, p⟩ => ?_
    refine erase_bind (readLenBlockC_fst ..) fun ⟨data, p⟩ => ?_
    refine erase_ok (enterBlock_fst data) ?_
    refine erase_bind (readUC_fst ..) fun ⟨c, q⟩ => ?_
    exact erase_ok (b := (data.drop q, q + (data.drop q).length)) (readAllC_fst data q) rfl

theorem FEExtra.decC_cost : CostR 3 6 1 FEExtra.decC := by
  intro d p hp
  apply Cost.mono
  case h =>
    unfold FEExtra.decC
    cbind (readUC_cost 1)
    cif
    · cdone
    · cbind (fmtDecC_cost s4x4)
      apply Cost.bind_stays (c := 2) (n := 0) (readLenBlockC_cost 0 8 1)
      intro data p₁ h1
      have l2 := readLenBlockC_ok h1
      dsimp only
      refine Stays.mono (compressedBlock_stays data p₁ _) ?_
      omega
  cside

theorem FEExtra.cc_c : FEExtra.cc.c = FEExtra.codec := rfl
theorem FEExtra.cc_sound : FEExtra.cc.Sound := CC.hand_sound FEExtra.decC_fst FEExtra.decC_cost

/-! ## FilterEffect -/

theorem FEBody.decC_fst (d : B) (p : Nat) : (FEBody.decC d p).1 = FEBody.codec.dec d p := by
  unfold FEBody.decC FEBody.codec
  dsimp only
  refine erase_bind (fmtDecC_fst ..) fun ⟨rect, p⟩ => ?_
  refine erase_bind (fmtDecC_fst ..) fun ⟨dm, p⟩ => ?_
  refine erase_bind (readCountC_fst FEChannel.decC_fst ..) fun ⟨chs, p⟩ => ?_
  rfl

/-- `for _ in range(max_channels + 2)`: every channel consumes its 4-byte flag, so the count does not enter the bound -/
theorem FEBody.decC_cost : CostR 9 8 24 FEBody.decC := by
  intro d p hp
  apply Cost.mono
  case h =>
    unfold FEBody.decC
    cbind (fmtDecC_cost s4x4)
    cbind (fmtDecC_cost [U 4, U 4])
    cbind (readCountC_cost (fun q hq => FEChannel.decC_cost d q hq) (by decide : 1 ≤ 4) _ _ (by assumption))
    cdone
  cside

theorem FEBody.cc_c : FEBody.cc.c = FEBody.codec := rfl
theorem FEBody.cc_sound : FEBody.cc.Sound := CC.hand_sound FEBody.decC_fst FEBody.decC_cost

theorem asciiPascal.cc_c : asciiPascal.cc.c = asciiPascal := rfl
theorem asciiPascal.cc_sound : asciiPascal.cc.Sound := CC.checked_sound (CC.pascal_sound 1 1) _ _ (by decide)

theorem FilterEffect.cc_c : FilterEffect.cc.c = FilterEffect.codec := rfl
theorem FilterEffect.cc_sound : FilterEffect.cc.Sound :=
  CC.seq_sound asciiPascal.cc_sound (CC.seq_sound (CC.checked_sound (CC.fmt_sound _) _ _ (by decide))
    (CC.seq_sound (CC.blocked_sound 8 1 FEBody.cc_sound) (CC.optTail_sound FEExtra.cc_sound)))

theorem FilterEffects.cc_c : FilterEffects.cc.c = FilterEffects.codec := rfl
theorem FilterEffects.cc_sound : FilterEffects.cc.Sound :=
  CC.seq_sound (CC.checked_sound (CC.fmt_sound _) _ _ (by decide))
    (CC.whileR_sound 8 1 (CC.blocked_sound 8 4 FilterEffect.cc_sound))

/-! ## the unit -/

def filterTable : List (String × Sh) :=
  [("FilterEffects", FilterEffects.cc.sh), ("FilterEffect", FilterEffect.cc.sh),
   ("FilterEffect._read_body", FEBody.cc.sh), ("FilterEffectChannel", FEChannel.cc.sh),
   ("FilterEffectExtra", FEExtra.cc.sh)]

theorem filter_body_progress : filterTable.all (fun e => e.2.bodyProgress) = true := by decide

end PsdVerif.PayloadCost
