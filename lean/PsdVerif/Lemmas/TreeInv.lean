/-
Layer-tree model: the invariant is preserved by the primitive mutations
(re-listing a container + `_update_layer_metadata`, shrinking a list, allocation).
-/
import PsdVerif.Lemmas.TreeDesc

namespace PsdVerif.TreeSt

theorem le_sum_of_mem (rk : Id → Nat) (l : List Id) (y : Id) (h : y ∈ l) : rk y ≤ (l.map rk).sum := by
  induction l with
  | nil => cases h
  | cons a as ih =>
    simp only [List.map_cons, List.sum_cons]
    rcases List.mem_cons.mp h with e | h'
    · subst e; omega
    · have := ih h'; omega

theorem isLayer_iff {s : State} {x : Id} : s.isLayer x = true ↔ x < s.next ∧ s.kind x ≠ .doc := by
  simp [State.isLayer, State.live]

theorem isGroup_iff {s : State} {x : Id} : s.isGroup x = true ↔ x < s.next ∧ s.cont x = true := by
  simp [State.isGroup, State.live]

/-- what a successful `_check_valid_layers` establishes -/
theorem checkValid_none {cfg : Cfg} {s : State} {g : Id} (hc : ∀ c, s.children c ≠ [] → s.cont c = true)
    (hself : cfg.itemSelfCheck = true) (xs : List Id) (h : checkValid cfg s g xs = none) :
    ∀ x, x ∈ xs → s.isLayer x = true ∧ x ≠ g ∧ ¬ Reach s x g := by
  induction xs with
  | nil => intro x hx; cases hx
  | cons a as ih =>
    simp only [checkValid, hself, Bool.true_and] at h
    split at h
    · cases h
    · rename_i hl
      split at h
      · cases h
      · rename_i hne
        have hl' : s.isLayer a = true := by simpa using hl
        have hne' : a ≠ g := by simpa using hne
        have key : ¬ Reach s a g ∧ checkValid cfg s g as = none := by
          split at h
          · rename_i hcont
            split at h
            · cases h
            · rename_i ds hds
              split at h
              · cases h
              · rename_i hmem
                exact ⟨fun r => hmem ((mem_desc_iff hc hds g).mpr r), h⟩
          · rename_i hcont
            exact ⟨fun r => hcont (reach_cont hc r), h⟩
        intro x hx
        rcases List.mem_cons.mp hx with e | hx'
        · subst e; exact ⟨hl', hne', key.1⟩
        · exact ih key.2 x hx'

/-- The state after re-listing container `g` as `l'` and running `_update_layer_metadata`:
every member of `l'` is an old child of `g` or a detached layer that passed the checks. -/
theorem inv_relist_shape {s s2 : State} (i : Inv s) (g : Id) (l' : List Id) (hg : s.isGroup g = true)
    (hnd : l'.Nodup)
    (hmem : ∀ y, y ∈ l' → y ∈ s.children g ∨ (Detached s y ∧ s.isLayer y = true ∧ y ≠ g ∧ ¬ Reach s y g))
    (hch : s2.children = upd s.children g l') (hk : s2.kind = s.kind) (hn : s2.next = s.next)
    (hpar : ∀ y, s2.parent y = if y ∈ l' then some g else s.parent y)
    (R : Id → Prop) [DecidablePred R] (hR : ∀ y, R y ↔ Reach (setChildren s g l') g y)
    (hpsd : ∀ y, s2.psd y = match s.docOf g with
      | some d => if R y then some d else s.psd y
      | none => s.psd y) : Inv s2 := by
  classical
  obtain ⟨hglive, hgcont⟩ := isGroup_iff.mp hg
  -- memberships of the new state
  have hE : ∀ c x, x ∈ s2.children c ↔ (if c = g then x ∈ l' else x ∈ s.children c) := by
    intro c x
    rw [hch]
    unfold upd
    split <;> simp_all
  have hE1 : ∀ c x, x ∈ (setChildren s g l').children c ↔ (if c = g then x ∈ l' else x ∈ s.children c) := by
    intro c x
    unfold setChildren upd
    simp only
    split <;> simp_all
  -- a member of `l'` is not listed by another container
  have hother : ∀ c x, c ≠ g → x ∈ s.children c → x ∉ l' := by
    intro c x hcg hx hxl
    rcases hmem x hxl with h | h
    · exact hcg (i.unique hx h)
    · exact h.1 c hx
  have hlayer : ∀ y, y ∈ l' → y < s.next ∧ s.kind y ≠ .doc := by
    intro y hy
    rcases hmem y hy with h | h
    · exact ⟨(i.live g y h).2, i.layerOnly g y h⟩
    · exact isLayer_iff.mp h.2.1
  have hnoreach : ∀ y, y ∈ l' → y ≠ g ∧ ¬ Reach s y g := by
    intro y hy
    rcases hmem y hy with h | h
    · exact ⟨i.not_self h, fun r => i.no_cycle g (.step h r)⟩
    · exact ⟨h.2.2.1, h.2.2.2⟩
  have hcont2 : ∀ c, s2.cont c = s.cont c := by intro c; simp [State.cont, hk]
  have hdoc2 : ∀ c, s2.docOf c = if s.kind c = .doc then some c else s2.psd c := by
    intro c; simp [State.docOf, hk]
  refine ⟨?_, ?_, ?_, ?_, ?_, ?_, ?_⟩
  · -- live
    intro c x hx
    rw [hn]
    rw [hE] at hx
    split at hx
    · rename_i e; subst e; exact ⟨hglive, (hlayer x hx).1⟩
    · exact i.live c x hx
  · -- contOnly
    intro c hne
    rw [hcont2]
    by_cases e : c = g
    · subst e; exact hgcont
    · apply i.contOnly c
      rw [hch] at hne
      simpa [upd, e] using hne
  · -- layerOnly
    intro c x hx
    rw [hk]
    rw [hE] at hx
    split at hx
    · exact (hlayer x hx).2
    · exact i.layerOnly c x hx
  · -- parentOk
    intro c x hx
    rw [hE] at hx
    rw [hpar]
    split at hx
    · rename_i e; subst e; rw [if_pos hx]
    · rename_i e
      rw [if_neg (hother c x e hx)]
      exact i.parentOk c x hx
  · -- psdOk
    intro c x d' hx hd'
    rw [hE] at hx
    rw [hdoc2] at hd'
    rw [hpsd]
    rw [hpsd] at hd'
    cases hD : s.docOf g with
    | none =>
      simp only [hD] at hd' ⊢
      split at hx
      · rename_i e; subst e
        simp only [State.docOf] at hD
        simp only [hD] at hd'
        cases hd'
      · exact i.psdOk c x d' hx (by simpa [State.docOf] using hd')
    | some d =>
      simp only [hD] at hd' ⊢
      split at hx
      · rename_i e; subst e
        have hRx : R x := (hR x).mpr (.edge ((hE1 c x).mpr (by simpa using hx)))
        rw [if_pos hRx]
        -- the document of `c` is `d`
        by_cases hkd : s.kind c = .doc
        · simp only [hkd, if_true] at hd'
          simp only [State.docOf, hkd, if_true] at hD
          rw [← hD, hd']
        · simp only [hkd, if_false] at hd'
          simp only [State.docOf, hkd, if_false] at hD
          split at hd'
          · exact hd'
          · rw [← hD, hd']
      · rename_i hcg
        have hx1 : x ∈ (setChildren s g l').children c := (hE1 c x).mpr (by simpa [hcg] using hx)
        by_cases hRc : R c
        · have hRx : R x := (hR x).mpr (((hR c).mp hRc).tail hx1)
          rw [if_pos hRx]
          -- `c` is listed in the new state, hence not a document
          have hkc : s.kind c ≠ .doc := by
            obtain ⟨e, he, _⟩ := ((hR c).mp hRc).last
            rw [hE1] at he
            split at he
            · exact (hlayer c he).2
            · exact i.layerOnly e c he
          simp only [hkc, if_false, hRc, if_true] at hd'
          exact hd'
        · have hRx : ¬ R x := by
            intro hRx
            obtain ⟨e, he, hge⟩ := ((hR x).mp hRx).last
            rw [hE1] at he
            split at he
            · exact hother c x hcg hx he
            · rename_i heg
              have := i.unique he hx
              subst this
              cases hge with
              | inl e' => exact heg e'
              | inr r => exact hRc ((hR e).mpr r)
          rw [if_neg hRx]
          simp only [hRc, if_false] at hd'
          exact i.psdOk c x d' hx (by simpa [State.docOf] using hd')
  · -- nodup
    intro c
    rw [hch]
    unfold upd
    split
    · exact hnd
    · exact i.nodup c
  · -- acyclic
    obtain ⟨rk, hrk⟩ := i.acyclic
    have hrkR : ∀ a b, Reach s a b → rk b < rk a := by
      intro a b r
      induction r with
      | edge hx => exact hrk _ _ hx
      | step hx _ ih => exact Nat.lt_trans ih (hrk _ _ hx)
    let M := 1 + (l'.map rk).sum
    refine ⟨fun z => if z = g ∨ Reach s z g then rk z + M else rk z, ?_⟩
    intro c x hx
    rw [hE] at hx
    split at hx
    · rename_i e; subst e
      have hx' := hnoreach x hx
      have h1 : ¬ (x = c ∨ Reach s x c) := by
        intro h; cases h with
        | inl e => exact hx'.1 e
        | inr r => exact hx'.2 r
      simp only [h1, if_false, true_or, if_true]
      have := le_sum_of_mem rk l' x hx
      show rk x < rk c + (1 + (l'.map rk).sum)
      omega
    · rename_i hcg
      have hlt := hrk c x hx
      by_cases hc : c = g ∨ Reach s c g
      · simp only [hc, if_true]
        split <;> omega
      · have hx' : ¬ (x = g ∨ Reach s x g) := by
          intro h
          apply hc
          cases h with
          | inl e => subst e; exact .inr (.edge hx)
          | inr r => exact .inr (.step hx r)
        simp only [hc, hx', if_false]
        exact hlt

theorem docOf_setChildren (s : State) (g : Id) (l : List Id) (c : Id) : (setChildren s g l).docOf c = s.docOf c := rfl

/-- `_update_layer_metadata` after re-listing preserves the invariant -/
theorem inv_metadata_relist {cfg : Cfg} {s s2 : State} (i : Inv s) (g : Id) (l' : List Id)
    (hg : s.isGroup g = true) (hnd : l'.Nodup)
    (hmem : ∀ y, y ∈ l' → y ∈ s.children g ∨ (Detached s y ∧ s.isLayer y = true ∧ y ≠ g ∧ ¬ Reach s y g))
    (hm : metadata cfg (setChildren s g l') g = (s2, true)) : Inv s2 := by
  obtain ⟨hglive, hgcont⟩ := isGroup_iff.mp hg
  unfold metadata at hm
  split at hm
  · cases hm
  · rename_i ds hds
    have hc1 : ∀ c, (setChildren s g l').children c ≠ [] → (setChildren s g l').cont c = true := by
      intro c hne
      show s.cont c = true
      by_cases e : c = g
      · subst e; exact hgcont
      · apply i.contOnly c
        simpa [setChildren, upd, e] using hne
    have hR := fun y => mem_desc_iff hc1 hds y
    simp only [Prod.mk.injEq, and_true] at hm
    subst hm
    have hchild : (setChildren s g l').children g = l' := by simp [setChildren, upd]
    apply inv_relist_shape i g l' hg hnd hmem (R := fun y => y ∈ ds) (hR := hR)
    · cases hD : (setChildren s g l').docOf g <;> cases hI : cfg.invalidateOnEdit <;>
        simp [setParentAll, clearConts, setPsdAll, setChildren, hD, hI]
    · cases hD : (setChildren s g l').docOf g <;> cases hI : cfg.invalidateOnEdit <;>
        simp [setParentAll, clearConts, setPsdAll, setChildren, hD, hI]
    · cases hD : (setChildren s g l').docOf g <;> cases hI : cfg.invalidateOnEdit <;>
        simp [setParentAll, clearConts, setPsdAll, setChildren, hD, hI]
    · intro y
      cases hD : (setChildren s g l').docOf g <;> cases hI : cfg.invalidateOnEdit <;>
        simp [setParentAll, clearConts, setPsdAll, hchild, hD, hI] <;> rfl
    · intro y
      have hD' : (setChildren s g l').docOf g = s.docOf g := rfl
      cases hD : s.docOf g <;> cases hI : cfg.invalidateOnEdit <;>
        simp [setParentAll, clearConts, setPsdAll, hD', hD, hI] <;> rfl

/-- `finishInsert` = metadata + bookkeeping that touches caches / dirty flags only -/
theorem inv_finishInsert {cfg : Cfg} {s : State} (i : Inv s) (g : Id) (l' : List Id) (out : Out)
    (hg : s.isGroup g = true) (hnd : l'.Nodup)
    (hmem : ∀ y, y ∈ l' → y ∈ s.children g ∨ (Detached s y ∧ s.isLayer y = true ∧ y ≠ g ∧ ¬ Reach s y g))
    (hne : (finishInsert cfg (setChildren s g l') g out).2 ≠ .error .recursionError) :
    Inv (finishInsert cfg (setChildren s g l') g out).1 := by
  unfold finishInsert at hne ⊢
  split
  · rename_i s2 hm
    rw [hm] at hne
    exact absurd rfl hne
  · rename_i s2 hm
    exact (updateRecord_same cfg s2 g).inv (inv_metadata_relist i g l' hg hnd hmem hm)

/-- shrinking (or permuting within) a list preserves the invariant: stale back pointers of the
removed layers are not constrained -/
theorem inv_shrink {s : State} (i : Inv s) (g : Id) (l' : List Id) (hnd : l'.Nodup)
    (hsub : ∀ y, y ∈ l' → y ∈ s.children g) : Inv (setChildren s g l') := by
  have hE : ∀ c x, x ∈ (setChildren s g l').children c → x ∈ s.children c := by
    intro c x hx
    simp only [setChildren, upd] at hx
    split at hx
    · rename_i e; subst e; exact hsub x hx
    · exact hx
  refine ⟨?_, ?_, ?_, ?_, ?_, ?_, ?_⟩
  · intro c x hx; exact i.live c x (hE c x hx)
  · intro c hne
    obtain ⟨x, hx⟩ := List.exists_mem_of_ne_nil _ hne
    exact i.contOnly c (List.ne_nil_of_mem (hE c x hx))
  · intro c x hx; exact i.layerOnly c x (hE c x hx)
  · intro c x hx; exact i.parentOk c x (hE c x hx)
  · intro c x d hx hd; exact i.psdOk c x d (hE c x hx) hd
  · intro c
    simp only [setChildren, upd]
    split
    · exact hnd
    · exact i.nodup c
  · obtain ⟨rk, hrk⟩ := i.acyclic
    exact ⟨rk, fun c x hx => hrk c x (hE c x hx)⟩

/-- after removing `x` from the list of its container, `x` is listed nowhere -/
theorem detached_after_erase {s : State} (i : Inv s) {p x : Id} (hx : x ∈ s.children p) :
    Detached (setChildren s p ((s.children p).erase x)) x := by
  intro c hc
  simp only [setChildren, upd] at hc
  split at hc
  · exact (List.Nodup.mem_erase_iff (i.nodup p)).mp hc |>.1 rfl
  · rename_i hcp
    exact hcp (i.unique hc hx)

/-- a layer whose parent pointer does not list it is listed nowhere -/
theorem detached_of_not_listed_by_parent {s : State} (i : Inv s) {x : Id}
    (h : ∀ p, s.parent x = some p → x ∉ s.children p) : Detached s x := by
  intro c hc
  exact h c (i.parentOk c x hc) hc

/-- allocation of a fresh object -/
theorem inv_alloc {s : State} (i : Inv s) (k : Kind) (p : Option Id) (b : BBox) : Inv (alloc s k p b) := by
  have hfresh : s.children s.next = [] := by
    cases h : s.children s.next with
    | nil => rfl
    | cons a as =>
      have := (i.live s.next a (by rw [h]; exact List.mem_cons_self ..)).1
      exact absurd this (Nat.lt_irrefl _)
  have hnotlisted : ∀ c, s.next ∉ s.children c := fun c h => Nat.lt_irrefl _ (i.live c _ h).2
  have hE : ∀ c x, x ∈ (alloc s k p b).children c ↔ x ∈ s.children c := by
    intro c x
    simp only [alloc, upd]
    split
    · rename_i e; subst e; simp [hfresh]
    · rfl
  have hne : ∀ c x, x ∈ s.children c → c ≠ s.next ∧ x ≠ s.next := by
    intro c x hx
    have := i.live c x hx
    exact ⟨Nat.ne_of_lt this.1, Nat.ne_of_lt this.2⟩
  refine ⟨?_, ?_, ?_, ?_, ?_, ?_, ?_⟩
  · intro c x hx
    have := i.live c x ((hE c x).mp hx)
    exact ⟨Nat.lt_succ_of_lt this.1, Nat.lt_succ_of_lt this.2⟩
  · intro c hne'
    obtain ⟨x, hx⟩ := List.exists_mem_of_ne_nil _ hne'
    have hx' := (hE c x).mp hx
    have := i.contOnly c (List.ne_nil_of_mem hx')
    simpa [alloc, State.cont, upd, (hne c x hx').1] using this
  · intro c x hx
    have hx' := (hE c x).mp hx
    have := i.layerOnly c x hx'
    simpa [alloc, upd, (hne c x hx').2] using this
  · intro c x hx
    have hx' := (hE c x).mp hx
    have := i.parentOk c x hx'
    simpa [alloc, upd, (hne c x hx').2] using this
  · intro c x d hx hd
    have hx' := (hE c x).mp hx
    have h2 := i.psdOk c x d hx'
    have hc := (hne c x hx').1
    have hxn := (hne c x hx').2
    simp only [alloc, State.docOf, upd, hc, hxn, if_false] at hd ⊢
    exact h2 hd
  · intro c
    simp only [alloc, upd]
    split
    · exact List.nodup_nil
    · exact i.nodup c
  · obtain ⟨rk, hrk⟩ := i.acyclic
    exact ⟨rk, fun c x hx => hrk c x ((hE c x).mp hx)⟩

end PsdVerif.TreeSt
