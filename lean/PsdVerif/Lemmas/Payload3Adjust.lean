/-
C01 payload unit 8 — the laws of the adjustment payloads of Model/Payload3Adjust.lean.
-/
import PsdVerif.Lemmas.Payload3Resources
import PsdVerif.Lemmas.Descriptor3
import PsdVerif.Model.Payload3Adjust

namespace PsdVerif.Payload3
open PsdVerif PsdVerif.Codec PsdVerif.Payload PsdVerif.Payload.PCodec

/-! ## the flat classes -/

theorem BrightnessContrast.rt : BrightnessContrast.codec.RtAnywhere := rec_rt _ rfl
theorem BrightnessContrast.count : BrightnessContrast.codec.Count := rec_count _

theorem ColorBalance.rt : ColorBalance.codec.RtAnywhere :=
  padded_rt 4 (seq_rt (rec_rt _ rfl) (rec_tight _) (seq_rt (rec_rt _ rfl) (rec_tight _) (seq_rt (rec_rt _ rfl) (rec_tight _) (rec_rt _ rfl))))
theorem ColorBalance.count : ColorBalance.codec.Count :=
  padded_count 4 (seq_count (rec_count _) (seq_count (rec_count _) (seq_count (rec_count _) (rec_count _))))

theorem ChannelMixer.rt : ChannelMixer.codec.RtAtEnd :=
  checked_rt_end (seq_rt_end (rec_rt _ rfl) (rec_tight _) (seq_rt_end (rec_rt _ rfl) (rec_tight _) tailBytes_rt))
theorem ChannelMixer.count : ChannelMixer.codec.Count :=
  checked_count (seq_count (rec_count _) (seq_count (rec_count _) tailBytes_count))

theorem Exposure.rt (pad : Nat) : (Exposure.codec pad).RtAnywhere := padded_rt pad (rec_rt _ rfl)
theorem Exposure.count (pad : Nat) : (Exposure.codec pad).Count := padded_count pad (rec_count _)

theorem HueSaturation.item_rt : HueSaturation.itemCodec.RtAnywhere := seq_rt (rec_rt _ rfl) (rec_tight _) (rec_rt _ rfl)
theorem HueSaturation.item_tight : Tight HueSaturation.itemCodec := seq_tight (rec_tight _)
theorem HueSaturation.item_count : HueSaturation.itemCodec.Count := seq_count (rec_count _) (rec_count _)

theorem HueSaturation.rt : HueSaturation.codec.RtAnywhere :=
  padded_rt 4 (seq_rt (checked_rt (rec_rt _ rfl)) (checked_tight (rec_tight _))
    (seq_rt (rec_rt _ rfl) (rec_tight _) (seq_rt (rec_rt _ rfl) (rec_tight _)
      (exactly_rt 6 HueSaturation.item_rt HueSaturation.item_tight))))
theorem HueSaturation.count : HueSaturation.codec.Count :=
  padded_count 4 (seq_count (checked_count (rec_count _)) (seq_count (rec_count _) (seq_count (rec_count _)
    (exactly_count 6 HueSaturation.item_count))))

theorem LevelRecord.rt : LevelRecord.codec.RtAnywhere := rec_rt _ rfl
theorem LevelRecord.count : LevelRecord.codec.Count := rec_count _

theorem SelectiveColor.rt : SelectiveColor.codec.RtAnywhere :=
  checked_rt (seq_rt (rec_rt _ rfl) (rec_tight _) (exactly_rt 10 (rec_rt _ rfl) (rec_tight _)))
theorem SelectiveColor.count : SelectiveColor.codec.Count :=
  checked_count (seq_count (rec_count _) (exactly_count 10 (rec_count _)))

theorem ColorStop.rt : ColorStop.codec.RtAnywhere := rec_rt _ rfl
theorem ColorStop.count : ColorStop.codec.Count := rec_count _
theorem TransparencyStop.rt : TransparencyStop.codec.RtAnywhere := rec_rt _ rfl
theorem TransparencyStop.count : TransparencyStop.codec.Count := rec_count _

/-! ## rows of records -/

/-- `for _ in range(n): read_fmt(fmt)` over the rows `write_fmt` wrote one after the other -/
theorem rows_step {fs : List FI} (hok : fs.all FI.ok = true) (rows : List Row) (hf : listFits (fmtFits fs) rows)
    (hw : ∀ r ∈ rows, fmtWF fs r) {d : B} {p : Nat} {rest : B} (h : At d p (listT (fmtT fs) rows ++ rest)) :
    readCount (fmtDec fs) rows.length d p = .ok (rows, p + (listT (fmtT fs) rows).length) ∧
      At d (p + (listT (fmtT fs) rows).length) rest :=
  Psd.readCount_step (fmtDec fs) (fmtT fs) rows
    (fun r hr d p hat => (fmt_step' hok (hf r hr) (hw r hr) hat.nil_right).1) h

theorem rowsP_eq (fs : List FI) (rows : List Row) :
    wList (fun r => wBytes (fmtT fs r)) rows = (listT (fmtT fs) rows, (listT (fmtT fs) rows).length) :=
  wList_eq _ (fmtT fs) rows (fun _ _ => rfl)

theorem plain_rows {fs : List FI}
    (hp : fs.all (fun i => match i with | .fld .q => false | .fld (.str _) => false | _ => true) = true) (rows : List Row) :
    ∀ r ∈ rows, fmtWF fs r := fun r _ => fmtWF_of_plain fs r hp

/-! ## Levels -/

namespace Levels

theorem encP_eq (x : Levels) : x.encP = (x.encT, x.encT.length) := by
  obtain ⟨v, ev, items⟩ := x
  cases ev with
  | none =>
    simp only [encP, encT, bodyT, trailerT, rowsP_eq]
    simp only [wBytes_eq, wSeq_eq, wPad_eq, List.append_nil]
  | some e =>
    simp only [encP, encT, bodyT, trailerT, rowsP_eq]
    simp only [wBytes_eq, wSeq_eq, wPad_eq, List.append_assoc]

theorem rt : codec.RtAtEnd := by
  intro x hwf hf d p h hend
  obtain ⟨version, ev, items⟩ := x
  obtain ⟨hv, hv2, h29, hev⟩ := hwf
  obtain ⟨f1, f2, f3⟩ := hf
  simp only at hv hv2 h29 hev f1 f2 f3
  subst hv2
  have hpl : LevelRecord.fmt.all (fun i => match i with | .fld .q => false | .fld (.str _) => false | _ => true) = true := rfl
  have htake : (items.take 29).length = 29 := by simp only [List.length_take]; omega
  cases ev with
  | none =>
    simp only at hev f3
    have hitems : items.take 29 = items := List.take_of_length_le (by omega)
    have hb : bodyT ⟨2, none, items⟩ = beBytes 2 2 ++ (listT (fmtT LevelRecord.fmt) (items.take 29) ++ []) := rfl
    simp only [codec, encT, hb, List.append_assoc] at h hend ⊢
    obtain ⟨e1, h1⟩ := readU_step h f1
    obtain ⟨e2, h2⟩ := rows_step (fs := LevelRecord.fmt) rfl (items.take 29) f2 (plain_rows hpl _) h1
    rw [htake] at e2
    simp only [List.length_append, length_beBytes, List.length_nil, Nat.add_zero, length_zeros] at hend ⊢
    have hlt := padAmount_lt (2 + (listT (fmtT LevelRecord.fmt) (items.take 29)).length) 4 (by decide)
    have r6 : isReadable 6 d (p + 2 + (listT (fmtT LevelRecord.fmt) (List.take 29 items)).length) = false :=
      isReadable_false (by omega)
    simp only [dec, bind, Except.bind, e1, if_true, e2, r6, Bool.false_eq_true, if_false, if_pos hv]
    rw [hitems]
    simp only [Nat.add_assoc]
  | some e =>
    simp only at hev f3
    subst hev
    obtain ⟨_, f4, f5⟩ := f3
    have hb : bodyT ⟨2, some 3, items⟩ = beBytes 2 2 ++ (listT (fmtT LevelRecord.fmt) (items.take 29) ++ (sigLvls ++
        (beBytes 2 3 ++ (beBytes 2 items.length ++ listT (fmtT LevelRecord.fmt) (extraItems ⟨2, some 3, items⟩))))) := rfl
    simp only [codec, encT, hb, List.append_assoc] at h hend ⊢
    obtain ⟨e1, h1⟩ := readU_step h f1
    obtain ⟨e2, h2⟩ := rows_step (fs := LevelRecord.fmt) rfl (items.take 29) f2 (plain_rows hpl _) h1
    rw [htake] at e2
    have r6 : isReadable 6 d (p + 2 + (listT (fmtT LevelRecord.fmt) (List.take 29 items)).length) = true :=
      isReadable_of_at h2 (by simp only [List.length_append, length_beBytes, sigLvls, List.length_cons, List.length_nil]; omega)
    obtain ⟨e3, h3⟩ := readN_step (n := 4) h2 rfl
    obtain ⟨e4, h4⟩ := readU_step h3 (by decide : 3 < 256 ^ 2)
    obtain ⟨e5, h5⟩ := readU_step h4 f4
    have hdl : (extraItems ⟨2, some 3, items⟩).length = items.length - 29 := by simp only [extraItems, List.length_drop]
    obtain ⟨e6, _⟩ := rows_step (fs := LevelRecord.fmt) rfl _ f5 (plain_rows hpl _) h5
    rw [hdl] at e6
    have hjoin : items.take 29 ++ extraItems ⟨2, some 3, items⟩ = items := List.take_append_drop 29 items
    simp only [dec, bind, Except.bind, e1, if_true, e2, r6, e3, e4, e5, e6, if_pos hv, hjoin]
    simp only [List.length_append, length_beBytes, sigLvls, List.length_cons, List.length_nil]
    congr 2
    omega

theorem count : codec.Count := encP_eq

end Levels

/-! ## PhotoFilter -/

namespace PhotoFilter

theorem encP_eq (x : PhotoFilter) : x.encP = (x.encT, x.encT.length) := by
  simp only [encP, encT, bodyT]
  split <;> simp only [wBytes_eq, wSeq_eq, wPad_eq, List.append_assoc]

theorem rt : codec.RtAnywhere := by
  intro x hwf hf d p h
  obtain ⟨version, xyz, color, tail⟩ := x
  obtain ⟨hv, hshape⟩ := hwf
  obtain ⟨f1, f2, f3⟩ := hf
  simp only at hv hshape f1 f2 f3
  by_cases h3 : version = 3
  · simp only [if_pos h3] at f2 hshape
    subst hshape
    have h0 : At d p (beBytes 2 version ++ (fmtT xyzFmt xyz ++ (fmtT tailFmt tail ++ zeros (padAmount (bodyT ⟨version, xyz, [], tail⟩).length 4)))) := by
      simpa only [codec, encT, bodyT, if_pos h3, List.append_assoc] using h
    clear h
    obtain ⟨e1, h1⟩ := readU_step h0 f1
    obtain ⟨e2, h2⟩ := fmt_step' (fs := xyzFmt) rfl f2 (fmtWF_of_plain _ _ rfl) h1
    obtain ⟨e3, _⟩ := fmt_step' (fs := tailFmt) rfl f3 (fmtWF_of_plain _ _ rfl) h2
    simp only [codec, dec, bind, Except.bind, e1, if_pos hv, if_pos h3, e2, e3]
    simp only [bodyT, if_pos h3, List.length_append, length_beBytes, Nat.add_assoc]
  · simp only [if_neg h3] at f2 hshape
    subst hshape
    have h0 : At d p (beBytes 2 version ++ (fmtT colorFmt color ++ (fmtT tailFmt tail ++ zeros (padAmount (bodyT ⟨version, [], color, tail⟩).length 4)))) := by
      simpa only [codec, encT, bodyT, if_neg h3, List.append_assoc] using h
    clear h
    obtain ⟨e1, h1⟩ := readU_step h0 f1
    obtain ⟨e2, h2⟩ := fmt_step' (fs := colorFmt) rfl f2 (fmtWF_of_plain _ _ rfl) h1
    obtain ⟨e3, _⟩ := fmt_step' (fs := tailFmt) rfl f3 (fmtWF_of_plain _ _ rfl) h2
    simp only [codec, dec, bind, Except.bind, e1, if_pos hv, if_neg h3, e2, e3]
    simp only [bodyT, if_neg h3, List.length_append, length_beBytes, Nat.add_assoc]

theorem count : codec.Count := encP_eq

end PhotoFilter

/-! ## GradientMap -/

namespace GradientMap

theorem head_rt : head.RtAnywhere := by
  intro v hwf hf d p h
  obtain ⟨hv, hm⟩ := hwf
  simp only [head] at h hf hv hm ⊢
  by_cases h3 : v.1.int 0 = 3
  · simp only [if_pos h3] at h hm ⊢
    rw [packS_of_length hm] at h
    obtain ⟨e1, h⟩ := fmt_step' (fs := headFmt) rfl hf (fmtWF_of_plain _ _ rfl) h
    obtain ⟨e2, _⟩ := readN_step h.nil_right hm
    simp only [bind, Except.bind, e1, if_pos hv, if_pos h3, e2, Nat.add_assoc]
  · simp only [if_neg h3, List.append_nil] at h hm ⊢
    obtain ⟨e1, _⟩ := fmt_step' (fs := headFmt) rfl hf (fmtWF_of_plain _ _ rfl) h.nil_right
    simp only [bind, Except.bind, e1, if_pos hv, if_neg h3, ← hm, Nat.add_zero]

theorem head_tight : Tight head := by
  intro v _
  simp only [head]
  split <;> simp only [List.length_append, length_packS, List.append_nil, Nat.add_zero]

theorem head_count : head.Count := by
  intro v
  simp only [head]
  split <;> simp only [wBytes_eq, wSeq_eq, List.append_nil]

theorem expansion_rt : expansion.RtAnywhere := checked_rt (rec_rt _ rfl)
theorem expansion_tight : Tight expansion := checked_tight (rec_tight _)
theorem expansion_count : expansion.Count := checked_count (rec_count _)

theorem rt : codec.RtAnywhere :=
  padded_rt 4 (checked_rt
    (seq_rt head_rt head_tight (seq_rt ustr_rt ustr_tight (seq_rt (counted_rt 2 ColorStop.rt (rec_tight _)) (counted_tight 2)
      (seq_rt (counted_rt 2 TransparencyStop.rt (rec_tight _)) (counted_tight 2)
        (seq_rt expansion_rt expansion_tight (seq_rt (rec_rt _ rfl) (rec_tight _) (seq_rt (rec_rt _ rfl) (rec_tight _)
          (seq_rt (rec_rt _ rfl) (rec_tight _) (seq_rt (rec_rt _ rfl) (rec_tight _) (rec_rt _ rfl)))))))))))

theorem count : codec.Count :=
  padded_count 4 (checked_count
    (seq_count head_count (seq_count ustr_count (seq_count (counted_count 2 ColorStop.count)
      (seq_count (counted_count 2 TransparencyStop.count) (seq_count expansion_count (seq_count (rec_count _)
        (seq_count (rec_count _) (seq_count (rec_count _) (seq_count (rec_count _) (rec_count _)))))))))))

end GradientMap

/-! ## ColorLookup -/

namespace ColorLookup
open Descriptor
variable (tb : Descriptor.Tables)

theorem encP_eq (pad : Nat) (b : Block2) : encP tb pad b = (encT tb pad b, (encT tb pad b).length) := by
  simp only [encP, encT, bodyT, bodyW_eq, wBytes_eq, wSeq_eq, wPad_eq, List.append_assoc]

theorem rt (pad : Nat) : (codec tb pad).RtAnywhere := by
  intro b hwf hf d p h
  obtain ⟨hv, hnm, hcid, hnd, hitems⟩ := hwf
  obtain ⟨fv, fdv, fnm, fcid, flen, fitems⟩ := hf
  simp only [codec, encT, bodyT, List.append_assoc] at h ⊢
  obtain ⟨r0, h⟩ := readU_step h fv.2
  have fdv' : b.dataVersion.toNat < 256 ^ 4 := by unfold FitsU32 at fdv; omega
  obtain ⟨r0', h⟩ := readU_step h fdv'
  obtain ⟨r1, _⟩ := readBody_at hnm fnm hcid fcid flen hnd hitems fitems h
  unfold dec
  rw [rbind_ok r0, rbind_ok r0', rbind_ok r1]
  have h16 : b.dataVersion.toNat = 16 := by omega
  simp only [h16, if_true, rpure_eq]
  obtain ⟨ver, dv, nm, cid, items⟩ := b
  simp only at hv fv h16 ⊢
  subst hv
  have e1 : ((ver.toNat : Nat) : Int) = ver := Int.toNat_of_nonneg fv.1
  simp only [e1, List.length_append, length_beBytes, Nat.add_assoc]
  rfl

theorem count (pad : Nat) : (codec tb pad).Count := encP_eq tb pad

end ColorLookup

end PsdVerif.Payload3
